//go:build verif

package v0

// C13 harness, part 1: the canonical chain (real keys, real BlockExecutor, validator-set
// change), the liars' block menu, and the abstraction function from concrete blocks /
// commits to the values of spec/TMFastSyncOps.tla.  No judgements here: a slot class is a
// fact about the bytes (does the signature verify, is the address the validator's).

import (
	"bytes"
	"encoding/hex"
	"fmt"
	"strconv"
	"strings"
	"sync"
	"time"

	dbm "github.com/tendermint/tm-db"

	abci "github.com/tendermint/tendermint/abci/types"
	"github.com/tendermint/tendermint/libs/log"
	"github.com/tendermint/tendermint/mempool/mock"
	tmproto "github.com/tendermint/tendermint/proto/tendermint/types"
	"github.com/tendermint/tendermint/proxy"
	sm "github.com/tendermint/tendermint/state"
	"github.com/tendermint/tendermint/types"
)

const c13ChainID = "c13-chain"

// ---------------------------------------------------------------- ABCI app
type c13App struct {
	abci.BaseApplication
	updates map[int64][]abci.ValidatorUpdate // EndBlock(height) -> validator updates
	onBegin func(height int64, hash []byte)  // observation hook (nil while generating)
}

func (app *c13App) BeginBlock(req abci.RequestBeginBlock) abci.ResponseBeginBlock {
	if app.onBegin != nil {
		app.onBegin(req.Header.Height, req.Hash)
	}
	return abci.ResponseBeginBlock{}
}

func (app *c13App) EndBlock(req abci.RequestEndBlock) abci.ResponseEndBlock {
	return abci.ResponseEndBlock{ValidatorUpdates: app.updates[req.Height]}
}

func (app *c13App) DeliverTx(req abci.RequestDeliverTx) abci.ResponseDeliverTx {
	return abci.ResponseDeliverTx{Events: []abci.Event{}}
}

// ---------------------------------------------------------------- chain
type c13Chain struct {
	tmax    int
	genDoc  *types.GenesisDoc
	updates map[int64][]abci.ValidatorUpdate
	privs   map[string]types.PrivValidator // by address (hex)
	blocks  []*types.Block                 // [h], [0] unused
	ids     []types.BlockID
	commits []*types.Commit // commits[h]: every validator of height h signed block h
	states  []sm.State      // states[h] = state after block h; states[0] = genesis state
	t0      time.Time
	nilAt   map[int64]bool

	mu       sync.Mutex
	regHash  map[string]string       // header hash (hex) -> abstract id
	regPSH   map[string]string       // part-set header hash (hex) -> abstract uid (names the complete bytes)
	uidCache map[*types.Block]string
	variants map[string]*types.Block // kind/h -> built liar block
}

type c13ValCfg struct {
	Powers []int64 `json:"powers"` // genesis validators
	AddAt  int64   `json:"addAt"`  // height whose EndBlock adds a validator (0 = never); active from addAt+2
	AddPow int64   `json:"addPow"`
	NilAt  []int64 `json:"nilAt"` // heights at which the last validator of the set precommits nil
}

func c13Txs(h int64, salt byte) types.Txs {
	var txs types.Txs
	for i := 0; i < 3; i++ {
		txs = append(txs, types.Tx([]byte{salt, byte(h), byte(i)}))
	}
	return txs
}

func c13NewExec(app *c13App) (*sm.BlockExecutor, sm.Store, proxy.AppConns) {
	cc := proxy.NewLocalClientCreator(app)
	proxyApp := proxy.NewAppConns(cc)
	if err := proxyApp.Start(); err != nil {
		panic(err)
	}
	stateStore := sm.NewStore(dbm.NewMemDB(), sm.StoreOptions{DiscardABCIResponses: false})
	blockExec := sm.NewBlockExecutor(stateStore, log.NewNopLogger(), proxyApp.Consensus(), mock.Mempool{}, sm.EmptyEvidencePool{})
	return blockExec, stateStore, proxyApp
}

func c13SignVote(pv types.PrivValidator, addr []byte, idx int32, h int64, bid types.BlockID, ts time.Time) *types.Vote {
	vote := &types.Vote{ValidatorAddress: addr, ValidatorIndex: idx, Height: h, Round: 0, Timestamp: ts,
		Type: tmproto.PrecommitType, BlockID: bid}
	v := vote.ToProto()
	if err := pv.SignVote(c13ChainID, v); err != nil {
		panic(err)
	}
	vote.Signature = v.Signature
	return vote
}

func c13GenChain(vc c13ValCfg, tmax int) *c13Chain {
	ch := &c13Chain{tmax: tmax, privs: map[string]types.PrivValidator{}, regHash: map[string]string{},
		regPSH: map[string]string{}, uidCache: map[*types.Block]string{}, variants: map[string]*types.Block{}, updates: map[int64][]abci.ValidatorUpdate{}}
	ch.t0 = time.Date(2020, 1, 1, 0, 0, 0, 0, time.UTC)
	ch.nilAt = map[int64]bool{}
	for _, h := range vc.NilAt {
		ch.nilAt[h] = true
	}
	var gvals []types.GenesisValidator
	for _, pw := range vc.Powers {
		pv := types.NewMockPV()
		pk, _ := pv.GetPubKey()
		gvals = append(gvals, types.GenesisValidator{PubKey: pk, Power: pw})
		ch.privs[hex.EncodeToString(pk.Address())] = pv
	}
	if vc.AddAt > 0 {
		pv := types.NewMockPV()
		pk, _ := pv.GetPubKey()
		ch.privs[hex.EncodeToString(pk.Address())] = pv
		ch.updates[vc.AddAt] = []abci.ValidatorUpdate{types.TM2PB.NewValidatorUpdate(pk, vc.AddPow)}
	}
	ch.genDoc = &types.GenesisDoc{GenesisTime: ch.t0, ChainID: c13ChainID, Validators: gvals}
	if err := ch.genDoc.ValidateAndComplete(); err != nil {
		panic(err)
	}
	app := &c13App{updates: ch.updates}
	blockExec, stateStore, proxyApp := c13NewExec(app)
	defer proxyApp.Stop() //nolint:errcheck
	state, err := stateStore.LoadFromDBOrGenesisDoc(ch.genDoc)
	if err != nil {
		panic(err)
	}
	if err := stateStore.Save(state); err != nil {
		panic(err)
	}
	ch.blocks = make([]*types.Block, tmax+1)
	ch.ids = make([]types.BlockID, tmax+1)
	ch.commits = make([]*types.Commit, tmax+1)
	ch.states = make([]sm.State, tmax+1)
	ch.states[0] = state.Copy()
	for h := int64(1); h <= int64(tmax); h++ {
		lastCommit := types.NewCommit(h-1, 0, types.BlockID{}, nil)
		if h > 1 {
			lastCommit = ch.commits[h-1]
		}
		block, parts := state.MakeBlock(h, c13Txs(h, 0xC0), lastCommit, nil, state.Validators.GetProposer().Address)
		bid := types.BlockID{Hash: block.Hash(), PartSetHeader: parts.Header()}
		ch.blocks[h], ch.ids[h] = block, bid
		ch.register(block, bid, "C"+strconv.FormatInt(h, 10))
		// every validator of height h precommits block h -- except that at the heights in nilAt
		// the last one (lowest power, behind the quorum) genuinely precommits nil
		sigs := make([]types.CommitSig, state.Validators.Size())
		for i, val := range state.Validators.Validators {
			pv := ch.privs[hex.EncodeToString(val.Address)]
			voteFor := bid
			if ch.nilAt[h] && i == state.Validators.Size()-1 {
				voteFor = types.BlockID{}
			}
			sigs[i] = c13SignVote(pv, val.Address, int32(i), h, voteFor, ch.t0.Add(time.Duration(h)*time.Second)).CommitSig()
		}
		ch.commits[h] = types.NewCommit(h, 0, bid, sigs)
		state, _, err = blockExec.ApplyBlock(state, bid, block)
		if err != nil {
			panic(fmt.Sprintf("chain generation: apply %d: %v", h, err))
		}
		ch.states[h] = state.Copy()
	}
	return ch
}

// names: id for the header hash, uid for the complete bytes (part-set header).  A name
// is given at first registration: a liar block whose header hash equals a known one (its
// LastCommit differs only in fields Commit.Hash() does not cover) keeps that id.
func (ch *c13Chain) register(b *types.Block, bid types.BlockID, name string) {
	ch.mu.Lock()
	defer ch.mu.Unlock()
	if _, dup := ch.regHash[hex.EncodeToString(bid.Hash)]; !dup {
		ch.regHash[hex.EncodeToString(bid.Hash)] = name
	}
	if _, dup := ch.regPSH[hex.EncodeToString(bid.PartSetHeader.Hash)]; !dup {
		ch.regPSH[hex.EncodeToString(bid.PartSetHeader.Hash)] = name
	}
}

func c13Unknown(b []byte) string {
	if len(b) >= 4 {
		return "?" + hex.EncodeToString(b[:4])
	}
	return "?"
}

func (ch *c13Chain) idOfHash(hash []byte) string {
	if len(hash) == 0 {
		return "nil"
	}
	ch.mu.Lock()
	defer ch.mu.Unlock()
	if id, ok := ch.regHash[hex.EncodeToString(hash)]; ok {
		return id
	}
	return c13Unknown(hash)
}

func (ch *c13Chain) uidOfPSH(psh types.PartSetHeader) string {
	ch.mu.Lock()
	defer ch.mu.Unlock()
	if id, ok := ch.regPSH[hex.EncodeToString(psh.Hash)]; ok {
		return id
	}
	return c13Unknown(psh.Hash)
}

func (ch *c13Chain) uidOfBlock(b *types.Block) string {
	if b == nil {
		return "nil"
	}
	ch.mu.Lock()
	if u, ok := ch.uidCache[b]; ok {
		ch.mu.Unlock()
		return u
	}
	ch.mu.Unlock()
	u := ch.uidOfPSH(b.MakePartSet(types.BlockPartSizeBytes).Header())
	ch.mu.Lock()
	if len(ch.uidCache) > 20000 {
		ch.uidCache = map[*types.Block]string{}
	}
	ch.uidCache[b] = u
	ch.mu.Unlock()
	return u
}

func (ch *c13Chain) absBID(bid types.BlockID) map[string]interface{} {
	if bid.IsZero() {
		return map[string]interface{}{"hash": "none", "psh": "none"}
	}
	return map[string]interface{}{"hash": ch.idOfHash(bid.Hash), "psh": ch.uidOfPSH(bid.PartSetHeader)}
}

// validator set prescribed for height h by the canonical chain
func (ch *c13Chain) valsAt(h int64) *types.ValidatorSet {
	if h < 1 {
		h = 1
	}
	if h-1 > int64(ch.tmax) {
		h = int64(ch.tmax) + 1
	}
	return ch.states[h-1].Validators
}

func c13Pows(vs *types.ValidatorSet) []int64 {
	out := make([]int64, vs.Size())
	for i, v := range vs.Validators {
		out[i] = v.VotingPower
	}
	return out
}

// ---------------------------------------------------------------- abstraction
// slot classes of commit c with respect to validator set vs (see TMFastSyncOps.tla)
func (ch *c13Chain) absCommit(c *types.Commit, vs *types.ValidatorSet) map[string]interface{} {
	slots := []string{}
	if c == nil {
		return map[string]interface{}{"h": 0, "bid": ch.absBID(types.BlockID{}), "slots": slots}
	}
	for i, cs := range c.Signatures {
		switch {
		case cs.Absent():
			slots = append(slots, "A")
		case i >= vs.Size():
			slots = append(slots, "E")
		default:
			val := vs.Validators[i]
			ok := val.PubKey.VerifySignature(c.VoteSignBytes(c13ChainID, int32(i)), cs.Signature)
			addrOK := bytes.Equal(cs.ValidatorAddress, val.Address)
			switch {
			case cs.ForBlock() && ok && addrOK:
				slots = append(slots, "C")
			case cs.ForBlock() && ok:
				slots = append(slots, "R")
			case cs.ForBlock():
				slots = append(slots, "X")
			case ok && addrOK:
				slots = append(slots, "N")
			case ok:
				slots = append(slots, "Q")
			default:
				slots = append(slots, "M")
			}
		}
	}
	return map[string]interface{}{"h": int(c.Height), "bid": ch.absBID(c.BlockID), "slots": slots}
}

func (ch *c13Chain) absBlock(b *types.Block) map[string]interface{} {
	if b == nil {
		return map[string]interface{}{"h": 0, "id": "nil", "uid": "nil", "lc": ch.absCommit(nil, nil), "valid": false}
	}
	return map[string]interface{}{"h": int(b.Height), "id": ch.idOfHash(b.Hash()), "uid": ch.uidOfBlock(b),
		"lc": ch.absCommit(b.LastCommit, ch.valsAt(b.Height-1)), "valid": true}
}

// ---------------------------------------------------------------- the liars' menu
func c13QIdx(pows []int64) int { // 1-based slot at which the early-exit walk over a full commit returns
	var total, tally int64
	for _, p := range pows {
		total += p
	}
	for i, p := range pows {
		tally += p
		if tally > total*2/3 {
			return i + 1
		}
	}
	return len(pows) + 1
}

// mirrors SlotsOfKind of the spec (this is the generator; what the bytes are is decided
// by absCommit, and the trace spec compares the two).  gen = the genuine slots ("C", and
// "N" where the validator precommitted nil).
func c13SlotsOfKind(kind string, pows []int64, gen []string) []string {
	n, k := len(pows), c13QIdx(pows)
	out := make([]string, n)
	for i := 1; i <= n; i++ {
		s := gen[i-1]
		switch kind {
		case "quorumOnly":
			s = "C"
			if i > k {
				s = "A"
			}
		case "noQuorum":
			s = "C"
			if i >= k {
				s = "A"
			}
		case "badEarly":
			if i == 1 {
				s = "X"
			}
		case "padBad", "padNil", "padAddr":
			switch {
			case i <= k:
				s = "C"
			case i == k+1:
				s = map[string]string{"padBad": "X", "padNil": "M", "padAddr": "R"}[kind]
				if kind == "padAddr" && gen[i-1] == "N" {
					s = "Q"
				}
			default:
				s = "A"
			}
		case "addrEarly":
			if i == 1 {
				s = "R"
			}
		case "nilAddr":
			if s == "N" {
				s = "Q"
			}
		}
		out[i-1] = s
	}
	if kind == "shortSet" {
		out = out[:n-1]
	}
	return out
}

func (ch *c13Chain) genSlots(g int64) []string {
	n := ch.valsAt(g).Size()
	out := make([]string, n)
	for i := range out {
		out[i] = "C"
	}
	if ch.nilAt[g] {
		out[n-1] = "N"
	}
	return out
}

func c13IsCommitKind(kind string) bool {
	switch kind {
	case "quorumOnly", "noQuorum", "badEarly", "padBad", "padNil", "padAddr", "addrEarly", "shortSet", "nilAddr":
		return true
	}
	return false
}

// a commit for height g assembled from the genuine precommits, slot by slot
func (ch *c13Chain) buildCommit(g int64, slots []string) *types.Commit {
	gen := ch.commits[g]
	vs := ch.valsAt(g)
	sigs := make([]types.CommitSig, len(slots))
	for i, s := range slots {
		cs := gen.Signatures[i]
		cs.Signature = append([]byte{}, cs.Signature...)
		cs.ValidatorAddress = append([]byte{}, cs.ValidatorAddress...)
		switch s {
		case "A":
			cs = types.NewCommitSigAbsent()
		case "X":
			cs.BlockIDFlag = types.BlockIDFlagCommit // (a genuine nil signature under the commit flag does not verify either)
			cs.Signature[0] ^= 0xff
		case "R", "Q": // the genuine signature (commit resp. nil) under another validator's address
			cs.ValidatorAddress = append([]byte{}, vs.Validators[(i+1)%vs.Size()].Address...)
		case "M":
			cs.BlockIDFlag = types.BlockIDFlagNil
			cs.Signature[1] ^= 0xff
		case "N":
			if gen.Signatures[i].BlockIDFlag != types.BlockIDFlagNil {
				val := vs.Validators[i]
				cs = c13SignVote(ch.privs[hex.EncodeToString(val.Address)], val.Address, int32(i), g, types.BlockID{},
					gen.Signatures[i].Timestamp).CommitSig()
			}
		}
		sigs[i] = cs
	}
	return types.NewCommit(g, 0, gen.BlockID, sigs)
}

// canonical content with another LastCommit: a different block (LastCommitHash differs)
func c13WithLastCommit(src *types.Block, lc *types.Commit) *types.Block {
	nb := &types.Block{Header: src.Header, Data: types.Data{Txs: src.Data.Txs}, LastCommit: lc}
	nb.Header.LastCommitHash = nil
	nb.Hash() // fills LastCommitHash and the other derived hashes
	return nb
}

// the block a liar sends for height h by response kind (nil = kind not applicable there)
func (ch *c13Chain) liarBlock(kind string, h int64) *types.Block {
	if h < 1 || h > int64(ch.tmax) {
		return nil
	}
	key := kind + "/" + strconv.FormatInt(h, 10)
	ch.mu.Lock()
	if b, ok := ch.variants[key]; ok {
		ch.mu.Unlock()
		return b
	}
	ch.mu.Unlock()
	var nb *types.Block
	id := kind + strconv.FormatInt(h, 10)
	prev := ch.states[h-1]
	switch {
	case kind == "H":
		return ch.blocks[h]
	case kind == "W":
		lc := ch.blocks[h].LastCommit
		nb, _ = prev.MakeBlock(h, c13Txs(h, 0xBA), lc, nil, ch.blocks[h].ProposerAddress)
	case kind == "WC":
		if h == 1 {
			return ch.blocks[h]
		}
		w := ch.liarBlock("W", h-1)
		wparts := w.MakePartSet(types.BlockPartSizeBytes)
		gen := ch.commits[h-1]
		sigs := make([]types.CommitSig, len(gen.Signatures))
		copy(sigs, gen.Signatures)
		lc := types.NewCommit(h-1, 0, types.BlockID{Hash: w.Hash(), PartSetHeader: wparts.Header()}, sigs)
		nb = c13WithLastCommit(ch.blocks[h], lc)
	case kind == "commitH":
		if h == 1 {
			return ch.blocks[h]
		}
		gen := ch.commits[h-1]
		sigs := make([]types.CommitSig, len(gen.Signatures))
		copy(sigs, gen.Signatures)
		nb = c13WithLastCommit(ch.blocks[h], types.NewCommit(h, 0, gen.BlockID, sigs))
	case c13IsCommitKind(kind):
		if h == 1 {
			return ch.blocks[h]
		}
		slots := c13SlotsOfKind(kind, c13Pows(ch.valsAt(h-1)), ch.genSlots(h-1))
		// named by the slot pattern: two kinds that yield the same pattern yield the same bytes
		id = "S" + strings.Join(slots, "") + "@" + strconv.FormatInt(h, 10)
		nb = c13WithLastCommit(ch.blocks[h], ch.buildCommit(h-1, slots))
	default:
		return nil
	}
	parts := nb.MakePartSet(types.BlockPartSizeBytes)
	ch.register(nb, types.BlockID{Hash: nb.Hash(), PartSetHeader: parts.Header()}, id)
	ch.mu.Lock()
	ch.variants[key] = nb
	ch.mu.Unlock()
	return nb
}
