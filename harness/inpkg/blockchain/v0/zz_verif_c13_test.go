//go:build verif

package v0

// C13 harness, part 2 (see /verif/DESIGN.md section 5, C13).  The REAL BlockchainReactor
// and BlockPool run with all their goroutines on an unstarted p2p.Switch whose peer set
// holds mock peers.  The driver plays the peers: every BlockRequest the reactor sends
// lands in a mock peer's outbox; a schedule (from TLC, or seeded random) decides who
// joins, which status is reported, how each request is answered (honestly / one of the
// liar kinds / not at all) and in which order.  Observation points: the peers' outboxes
// (Request), a stub reactor's RemovePeer (StopPeer + reason), the block-store DB
// (SaveBlock), the ABCI app (BeginBlock), and the stub CONSENSUS reactor, which executes
// the real consensus hand-over (consensus.Reactor.SwitchToConsensus) under recover().
// Everything is written as NDJSON for spec/trace/TMFastSyncTrace.tla.  No verdicts here.

import (
	"encoding/json"
	"fmt"
	"math/rand"
	"net"
	"os"
	"path/filepath"
	"runtime"
	"sort"
	"strconv"
	"strings"
	"sync"
	"sync/atomic"
	"testing"
	"time"

	"github.com/gogo/protobuf/proto"
	dbm "github.com/tendermint/tm-db"

	cfg "github.com/tendermint/tendermint/config"
	"github.com/tendermint/tendermint/consensus"
	"github.com/tendermint/tendermint/crypto/ed25519"
	"github.com/tendermint/tendermint/libs/log"
	"github.com/tendermint/tendermint/libs/service"
	"github.com/tendermint/tendermint/mempool/mock"
	"github.com/tendermint/tendermint/p2p"
	"github.com/tendermint/tendermint/p2p/conn"
	bcproto "github.com/tendermint/tendermint/proto/tendermint/blockchain"
	"github.com/tendermint/tendermint/proxy"
	sm "github.com/tendermint/tendermint/state"
	"github.com/tendermint/tendermint/store"
	"github.com/tendermint/tendermint/types"
)

// ---------------------------------------------------------------- input
type c13Step struct {
	A      string `json:"a"` // Join | Status | Response | Timeout | Wait
	P      string `json:"p"`
	H      int64  `json:"h"`
	Kind   string `json:"kind"`
	Base   int64  `json:"base"`
	Height int64  `json:"height"`
}

type c13PeerDef struct {
	P      string `json:"p"`
	Honest bool   `json:"honest"`
}

type c13Sched struct {
	ID     string       `json:"id"`
	Src    string       `json:"src"`
	T      int64        `json:"T"`
	Peers  []c13PeerDef `json:"peers"`
	Steps  []c13Step    `json:"steps"`
	Random int          `json:"random"` // > 0: that many seeded random environment steps instead of Steps
	Seed   int64        `json:"seed"`
	NoFill bool         `json:"nofill"` // do not run the honest closure after the steps
}

type c13Input struct {
	Vals   c13ValCfg  `json:"vals"`
	Tmax   int        `json:"tmax"`
	Scheds []c13Sched `json:"scheds"`
	Par    int        `json:"par"`
	Kinds  []string   `json:"kinds"`  // liar kinds for random runs
	Status [][]int64  `json:"status"` // liar status menu for random runs: [base, height-T]
}

// ---------------------------------------------------------------- re-entrant trace lock
func c13Gid() int64 {
	var buf [64]byte
	n := runtime.Stack(buf[:], false)
	f := strings.Fields(string(buf[:n]))
	id, _ := strconv.ParseInt(f[1], 10, 64)
	return id
}

type c13Lock struct {
	mu      sync.Mutex
	owner   int64
	depth   int
	onFinal func() // called when the outermost Unlock is about to release the lock
}

func (l *c13Lock) Lock() {
	g := c13Gid()
	if atomic.LoadInt64(&l.owner) == g {
		l.depth++
		return
	}
	l.mu.Lock()
	atomic.StoreInt64(&l.owner, g)
	l.depth = 1
}

func (l *c13Lock) Unlock() {
	l.depth--
	if l.depth == 0 {
		if l.onFinal != nil {
			l.onFinal()
		}
		atomic.StoreInt64(&l.owner, 0)
		l.mu.Unlock()
	}
}

// ---------------------------------------------------------------- mock peer
type c13Peer struct {
	*service.BaseService
	run  *c13Run
	name string
	id   p2p.ID
	kv   sync.Map
}

func c13PeerID(name string) p2p.ID {
	return p2p.ID(fmt.Sprintf("%040x", []byte(name)))
}

func newC13Peer(r *c13Run, name string) *c13Peer {
	p := &c13Peer{run: r, name: name, id: c13PeerID(name)}
	p.BaseService = service.NewBaseService(nil, "c13Peer", p)
	if err := p.Start(); err != nil {
		panic(err)
	}
	return p
}

func (p *c13Peer) OnStop()                        { p.run.onPeerStopped(p) }
func (p *c13Peer) FlushStop()                     { p.Stop() } //nolint:errcheck
func (p *c13Peer) ID() p2p.ID                     { return p.id }
func (p *c13Peer) RemoteIP() net.IP               { return net.IPv4(127, 0, 0, 1) }
func (p *c13Peer) RemoteAddr() net.Addr           { return &net.TCPAddr{IP: p.RemoteIP(), Port: 8800} }
func (p *c13Peer) IsOutbound() bool               { return true }
func (p *c13Peer) IsPersistent() bool             { return false }
func (p *c13Peer) CloseConn() error               { return nil }
func (p *c13Peer) Status() conn.ConnectionStatus  { return conn.ConnectionStatus{} }
func (p *c13Peer) Send(byte, []byte) bool         { return true }
func (p *c13Peer) TrySend(byte, []byte) bool      { return true }
func (p *c13Peer) Set(k string, v interface{})    { p.kv.Store(k, v) }
func (p *c13Peer) Get(k string) interface{}       { v, _ := p.kv.Load(k); return v }
func (p *c13Peer) SetRemovalFailed()              {}
func (p *c13Peer) GetRemovalFailed() bool         { return false }
func (p *c13Peer) SendEnvelope(e p2p.Envelope) bool    { return p.TrySendEnvelope(e) }
func (p *c13Peer) TrySendEnvelope(e p2p.Envelope) bool { p.run.onSend(p, e); return true }
func (p *c13Peer) NodeInfo() p2p.NodeInfo {
	return p2p.DefaultNodeInfo{DefaultNodeID: p.id, ListenAddr: "127.0.0.1:26656"}
}
func (p *c13Peer) SocketAddr() *p2p.NetAddress {
	a := p2p.NewNetAddressIPPort(net.IPv4(127, 0, 0, 1), 26656)
	a.ID = p.id
	return a
}

// ---------------------------------------------------------------- stub CONSENSUS reactor
type c13Stub struct {
	p2p.BaseReactor
	run *c13Run
}

func (s *c13Stub) RemovePeer(peer p2p.Peer, reason interface{}) { s.run.onRemovePeer(peer, reason) }
func (s *c13Stub) SwitchToConsensus(state sm.State, skipWAL bool) {
	s.run.onHandover(state, skipWAL)
}

// ---------------------------------------------------------------- observing logger
// poolRoutine logs "Consensus ticker" in the switchToConsensusTicker case immediately before it
// evaluates pool.IsCaughtUp(): the reactor's own logger is the one place from which the moment
// of that decision can be observed without touching product code.
type c13Logger struct {
	log.Logger
	run *c13Run
}

func (l *c13Logger) Debug(msg string, keyvals ...interface{}) {
	if msg == "Consensus ticker" {
		l.run.onTick()
	}
	l.Logger.Debug(msg, keyvals...)
}

func (l *c13Logger) With(keyvals ...interface{}) log.Logger {
	return &c13Logger{Logger: l.Logger.With(keyvals...), run: l.run}
}

// ---------------------------------------------------------------- observing DB
type c13DB struct {
	dbm.DB
	onKey func(key []byte)
}

func (d *c13DB) Set(k, v []byte) error {
	err := d.DB.Set(k, v)
	d.onKey(k)
	return err
}

func (d *c13DB) SetSync(k, v []byte) error {
	err := d.DB.SetSync(k, v)
	d.onKey(k)
	return err
}

// ---------------------------------------------------------------- one run
type c13Run struct {
	ch    *c13Chain
	in    *c13Input
	sc    c13Sched
	runNo int
	tr    c13Lock
	ev    []map[string]interface{}
	nev   int64
	out    *os.File
	wrote  int
	closed bool

	sw         *p2p.Switch
	bcR        *BlockchainReactor
	bstore     *store.BlockStore
	stateStore sm.Store
	blockExec  *sm.BlockExecutor
	proxyApp   proxy.AppConns
	conS       *consensus.State
	conR       *consensus.Reactor
	evBus      *types.EventBus
	ccfg       *cfg.ConsensusConfig
	dir        string

	honest  map[string]bool
	alive   map[string]*c13Peer // current incarnation, only while running
	outbox  map[string][]int64  // pending block requests per peer
	joins   map[string]int
	lastWhy map[string]string
	handed  int32
	probedH int64
	skipped int
	rng     *rand.Rand
	lies    int
}

// events are written out as soon as the trace lock is released (all their fields are
// complete then), so that a run cut short by a panic inside the reactor's own goroutine
// (which kills the process) still leaves what was observed up to that point
func (r *c13Run) flush() {
	if r.out == nil {
		return
	}
	enc := json.NewEncoder(r.out)
	for ; r.wrote < len(r.ev); r.wrote++ {
		if err := enc.Encode(r.ev[r.wrote]); err != nil {
			panic(err)
		}
	}
}

func (r *c13Run) log(e map[string]interface{}) map[string]interface{} {
	if r.closed { // the run has been judged (End is written); the reactor keeps running until teardown
		return e
	}
	e["run"] = r.runNo
	r.ev = append(r.ev, e)
	atomic.AddInt64(&r.nev, 1)
	return e
}

// projection of the BlockPool (pool.go) to the spec's pool record
func (r *c13Run) pool() map[string]interface{} {
	pool := r.bcR.pool
	pool.mtx.Lock()
	defer pool.mtx.Unlock()
	peers := []map[string]interface{}{}
	for id, p := range pool.peers {
		peers = append(peers, map[string]interface{}{"p": r.nameOf(id), "base": int(p.base), "height": int(p.height), "to": p.didTimeout,
			"np": int(p.numPending)})
	}
	sort.Slice(peers, func(i, j int) bool { return peers[i]["p"].(string) < peers[j]["p"].(string) })
	hs := []int64{}
	for h := range pool.requesters {
		hs = append(hs, h)
	}
	sort.Slice(hs, func(i, j int) bool { return hs[i] < hs[j] })
	// BlockPool.numPending is changed under pool.mtx (makeNextRequester, AddBlock) and, by
	// bpRequester.reset, under the requester's own lock only: read each requester under its lock
	// and repeat until the counter did not move during the pass
	var req []map[string]interface{}
	var np int32
	for try := 0; try < 8; try++ {
		np = atomic.LoadInt32(&pool.numPending)
		req = []map[string]interface{}{}
		for _, h := range hs {
			q := pool.requesters[h]
			q.mtx.Lock()
			b, id := q.block, q.peerID
			q.mtx.Unlock()
			blk := "nil"
			if b != nil {
				blk = r.ch.uidOfBlock(b)
			}
			pn := "nil"
			if id != "" {
				pn = r.nameOf(id)
			}
			// redo: the requester has been told to drop its peer (bpRequester.redo) and has not reset yet
			req = append(req, map[string]interface{}{"h": int(h), "peer": pn, "blk": blk, "redo": len(q.redoCh) > 0})
		}
		if atomic.LoadInt32(&pool.numPending) == np {
			break
		}
	}
	al := []string{}
	for n := range r.alive {
		al = append(al, n)
	}
	sort.Strings(al)
	return map[string]interface{}{"h": int(pool.height), "maxH": int(pool.maxPeerHeight), "peers": peers, "req": req,
		"np": int(np), "sw": al, "storeH": int(r.bstore.Height())}
}

func (r *c13Run) nameOf(id p2p.ID) string {
	for _, pd := range r.sc.Peers {
		if c13PeerID(pd.P) == id {
			return pd.P
		}
	}
	return string(id)
}

// ------------------------------------------------------------ hooks (called by the reactor's goroutines)
func (r *c13Run) onSend(p *c13Peer, e p2p.Envelope) {
	switch m := e.Message.(type) {
	case *bcproto.BlockRequest:
		r.tr.Lock()
		defer r.tr.Unlock()
		if r.alive[p.name] != p {
			return
		}
		r.outbox[p.name] = append(r.outbox[p.name], m.Height)
		r.log(map[string]interface{}{"ev": "Request", "h": int(m.Height), "p": p.name, "pool": r.pool()})
	}
}

func (r *c13Run) onPeerStopped(p *c13Peer) {
	r.tr.Lock()
	defer r.tr.Unlock()
	if r.alive[p.name] == p {
		delete(r.alive, p.name)
		delete(r.outbox, p.name)
	}
}

func c13Why(reason interface{}) string {
	s := fmt.Sprint(reason)
	switch {
	case strings.Contains(s, "validation error"):
		return "validation"
	case strings.Contains(s, "did not send us anything"):
		return "timeout"
	case strings.Contains(s, "invalid peer"):
		return "invalidpeer"
	case strings.Contains(s, "too far ahead"):
		return "farblock"
	case strings.Contains(s, "fast enough"):
		return "slow"
	}
	return "invalidmsg"
}

func (r *c13Run) onRemovePeer(peer p2p.Peer, reason interface{}) {
	r.tr.Lock()
	defer r.tr.Unlock()
	name := r.nameOf(peer.ID())
	r.lastWhy[name] = c13Why(reason)
	r.log(map[string]interface{}{"ev": "StopPeer", "p": name, "why": c13Why(reason), "pool": r.pool()})
}

func (r *c13Run) onStoreKey(key []byte) {
	if string(key) != "blockStore" || r.bcR == nil {
		return
	}
	r.tr.Lock()
	defer r.tr.Unlock()
	h := r.bstore.Height()
	if h == 0 {
		return
	}
	blk := r.bstore.LoadBlock(h)
	st, _ := r.stateStore.Load()
	nodeVals := st.Validators // the set the node's own state prescribes for LastBlockHeight+1
	if st.LastBlockHeight+1 != h {
		nodeVals = r.ch.valsAt(h)
	}
	r.log(map[string]interface{}{"ev": "Save", "h": int(h), "blk": r.ch.absBlock(blk),
		"seen":     r.ch.absCommit(r.bstore.LoadSeenCommit(h), nodeVals),
		"nodeVals": c13Pows(nodeVals), "stateH": int(st.LastBlockHeight), "pool": r.pool()})
}

func (r *c13Run) onBegin(height int64, hash []byte) {
	r.tr.Lock()
	defer r.tr.Unlock()
	uid := "nil"
	if m := r.bstore.LoadBlockMeta(height); m != nil && string(m.BlockID.Hash) == string(hash) {
		uid = r.ch.uidOfPSH(m.BlockID.PartSetHeader)
	}
	r.log(map[string]interface{}{"ev": "Apply", "h": int(height), "id": r.ch.idOfHash(hash), "uid": uid, "pool": r.pool()})
}

func c13Short(s string) string {
	s = strings.ReplaceAll(s, "\n", " ")
	if len(s) > 160 {
		s = s[:160]
	}
	return s
}

// Called from poolRoutine right before its IsCaughtUp().  Under the trace lock (no
// environment action can run) the same IsCaughtUp is evaluated and the pool projected: if it
// holds, this pool -- or the pool after one of the few events that may still be logged before
// the Handover event -- is the state the reactor decides on.  Logged only when it holds.
func (r *c13Run) onTick() {
	r.tr.Lock()
	defer r.tr.Unlock()
	if r.isHanded() || !r.bcR.pool.IsCaughtUp() {
		return
	}
	r.log(map[string]interface{}{"ev": "Tick", "cu": true, "pool": r.pool()})
}

// the real hand-over: consensus.Reactor.SwitchToConsensus = reconstructLastCommit(state) +
// updateToState(state) + conS.Start(); a panic is an observation
func (r *c13Run) onHandover(state sm.State, skipWAL bool) {
	r.tr.Lock()
	defer r.tr.Unlock()
	e := r.log(map[string]interface{}{"ev": "Handover", "h": int(state.LastBlockHeight), "skipWAL": skipWAL, "pool": r.pool()})
	msg := func() (msg string) {
		defer func() {
			if x := recover(); x != nil {
				msg = "panic: " + fmt.Sprint(x)
			}
		}()
		r.conR.SwitchToConsensus(state, skipWAL)
		return "none"
	}()
	if r.conS.IsRunning() {
		r.conS.Stop() //nolint:errcheck
		done := make(chan struct{})
		go func() { r.conS.Wait(); close(done) }()
		select {
		case <-done:
		case <-time.After(5 * time.Second):
		}
	}
	e["panic"] = msg != "none"
	e["msg"] = c13Short(msg)
	if h := state.LastBlockHeight; h > 0 {
		e["seen"] = r.ch.absCommit(r.bstore.LoadSeenCommit(h), state.LastValidators)
		e["lastVals"] = c13Pows(state.LastValidators)
	} else {
		e["seen"] = r.ch.absCommit(nil, nil)
		e["lastVals"] = []int64{}
	}
	atomic.StoreInt32(&r.handed, 1)
}

// what a node restarted at this point does: consensus.NewState on the stores
func (r *c13Run) probe(final bool) {
	st, err := r.stateStore.Load()
	if err != nil || st.LastBlockHeight == 0 || st.LastBlockHeight != r.bstore.Height() || st.LastBlockHeight == r.probedH {
		return
	}
	r.probedH = st.LastBlockHeight
	msg := func() (msg string) {
		defer func() {
			if x := recover(); x != nil {
				msg = "panic: " + fmt.Sprint(x)
			}
		}()
		consensus.NewState(r.ccfg, st, r.blockExec, r.bstore, mock.Mempool{}, sm.EmptyEvidencePool{})
		return "none"
	}()
	r.log(map[string]interface{}{"ev": "Probe", "h": int(st.LastBlockHeight), "panic": msg != "none", "msg": c13Short(msg),
		"seen": r.ch.absCommit(r.bstore.LoadSeenCommit(st.LastBlockHeight), st.LastValidators), "lastVals": c13Pows(st.LastValidators),
		"pool": r.pool()})
}

// ------------------------------------------------------------ setup / teardown
func (r *c13Run) setup() {
	var err error
	r.dir, err = os.MkdirTemp(os.Getenv("TMPDIR"), "c13-")
	if err != nil {
		panic(err)
	}
	r.ccfg = cfg.TestConsensusConfig()
	r.ccfg.RootDir = r.dir
	if err := os.MkdirAll(filepath.Join(r.dir, "data"), 0o700); err != nil {
		panic(err)
	}
	app := &c13App{updates: r.ch.updates, onBegin: r.onBegin}
	r.blockExec, r.stateStore, r.proxyApp = c13NewExec(app)
	state, err := r.stateStore.LoadFromDBOrGenesisDoc(r.ch.genDoc)
	if err != nil {
		panic(err)
	}
	if err := r.stateStore.Save(state); err != nil {
		panic(err)
	}
	r.bstore = store.NewBlockStore(&c13DB{DB: dbm.NewMemDB(), onKey: r.onStoreKey})
	logger := log.NewNopLogger()
	if os.Getenv("VERIF_C13_LOG") == "1" {
		logger = log.TestingLogger()
	}
	r.bcR = NewBlockchainReactor(state.Copy(), r.blockExec, r.bstore, true)
	r.bcR.SetLogger(&c13Logger{Logger: logger.With("module", "blockchain"), run: r})

	// consensus as node.go builds it at boot: created from the boot state, waiting for the sync
	r.conS = consensus.NewState(r.ccfg, state.Copy(), r.blockExec, r.bstore, mock.Mempool{}, sm.EmptyEvidencePool{})
	r.conS.SetLogger(log.NewNopLogger())
	r.evBus = types.NewEventBus()
	if err := r.evBus.Start(); err != nil {
		panic(err)
	}
	r.conS.SetEventBus(r.evBus)
	r.conR = consensus.NewReactor(r.conS, true)
	r.conR.SetLogger(log.NewNopLogger())

	nodeKey := p2p.NodeKey{PrivKey: ed25519.GenPrivKey()}
	ni := p2p.DefaultNodeInfo{DefaultNodeID: nodeKey.ID(), ListenAddr: "127.0.0.1:0", Network: c13ChainID, Moniker: "c13"}
	pcfg := cfg.DefaultP2PConfig()
	tp := p2p.NewMultiplexTransport(ni, nodeKey, p2p.MConnConfig(pcfg))
	r.sw = p2p.NewSwitch(pcfg, tp)
	r.sw.SetLogger(logger.With("module", "switch"))
	r.sw.AddReactor("BLOCKCHAIN", r.bcR)
	stub := &c13Stub{run: r}
	stub.BaseReactor = *p2p.NewBaseReactor("c13Stub", stub)
	r.sw.AddReactor("CONSENSUS", stub)
	if err := r.bcR.Start(); err != nil {
		panic(err)
	}
}

func (r *c13Run) teardown() {
	if r.bcR.IsRunning() {
		r.bcR.Stop() //nolint:errcheck
	}
	r.tr.Lock()
	for _, p := range r.alive {
		go p.Stop() //nolint:errcheck
	}
	r.tr.Unlock()
	time.Sleep(5 * time.Millisecond)
	if r.conS.IsRunning() {
		r.conS.Stop() //nolint:errcheck
	}
	r.evBus.Stop()    //nolint:errcheck
	r.proxyApp.Stop() //nolint:errcheck
	os.RemoveAll(r.dir)
}

// ------------------------------------------------------------ environment actions (driver goroutine)
func c13Wire(m proto.Message) []byte {
	if w, ok := m.(p2p.Wrapper); ok {
		m = w.Wrap()
	}
	bz, err := proto.Marshal(m)
	if err != nil {
		panic(err)
	}
	return bz
}

func (r *c13Run) doJoin(name string) bool {
	// Switch.stopAndRemovePeer runs peer.Stop (the harness forgets the peer there), then every
	// reactor's RemovePeer, and takes the peer out of the peer set LAST -- in a goroutine of the
	// reactor that itself needs the trace lock for its hooks.  A re-join of the same id has to
	// come after that removal has completed (as in production: the switch refuses a duplicate
	// id), so wait for the condition -- without holding the trace lock.
	id := c13PeerID(name)
	for i := 0; r.sw.Peers().Has(id) && !r.isAlive(name); i++ {
		if i > 20000 {
			return false
		}
		time.Sleep(500 * time.Microsecond)
	}
	r.tr.Lock()
	defer r.tr.Unlock()
	if r.alive[name] != nil || atomic.LoadInt32(&r.handed) == 1 || r.sw.Peers().Has(id) {
		return false
	}
	p := newC13Peer(r, name)
	r.alive[name] = p
	r.outbox[name] = nil
	r.joins[name]++
	// Switch.addPeer: InitPeer on every reactor, add to the peer set, AddPeer on every reactor
	r.bcR.InitPeer(p)
	if err := r.sw.Peers().(*p2p.PeerSet).Add(p); err != nil {
		delete(r.alive, name)
		r.joins[name]--
		p.Stop() //nolint:errcheck
		return false
	}
	e := r.log(map[string]interface{}{"ev": "Join", "p": name})
	r.bcR.AddPeer(p)
	e["pool"] = r.pool()
	return true
}

func (r *c13Run) doStatus(name string, base, height int64) bool {
	r.tr.Lock()
	defer r.tr.Unlock()
	p := r.alive[name]
	if p == nil || r.isHanded() {
		return false
	}
	e := r.log(map[string]interface{}{"ev": "Status", "p": name, "base": int(base), "height": int(height)})
	r.bcR.Receive(BlockchainChannel, p, c13Wire(&bcproto.StatusResponse{Base: base, Height: height}))
	e["pool"] = r.pool()
	return true
}

func (r *c13Run) takeRequest(name string, h int64) bool {
	ob := r.outbox[name]
	for i, x := range ob {
		if x == h {
			r.outbox[name] = append(append([]int64{}, ob[:i]...), ob[i+1:]...)
			return true
		}
	}
	return false
}

// answer the pending request (name, h) with a block of the given kind
func (r *c13Run) doResponse(name string, h int64, kind string) bool {
	return r.doResponseOpt(name, h, kind, false)
}

func (r *c13Run) doResponseOpt(name string, h int64, kind string, late bool) bool {
	r.tr.Lock()
	defer r.tr.Unlock()
	p := r.alive[name]
	if p == nil || r.isHanded() { // after the hand-over the pool is stopped: nothing is processed any more
		return false
	}
	found := false
	for _, x := range r.outbox[name] {
		found = found || x == h
	}
	if !found && !late {
		return false
	}
	if kind == "none" {
		r.takeRequest(name, h)
		e := r.log(map[string]interface{}{"ev": "NoBlock", "p": name, "h": int(h)})
		r.bcR.Receive(BlockchainChannel, p, c13Wire(&bcproto.NoBlockResponse{Height: h}))
		e["pool"] = r.pool()
		return true
	}
	var blk *types.Block
	switch kind {
	case "heightUp":
		blk = r.ch.liarBlock("H", h+1)
	case "heightDown":
		blk = r.ch.liarBlock("H", h-1)
	default:
		blk = r.ch.liarBlock(kind, h)
	}
	if blk == nil {
		return false
	}
	r.takeRequest(name, h)
	// the requester this block is going to meet (AddBlock looks it up by the BLOCK's height)
	pre := map[string]interface{}{"peer": "none", "blk": "none", "redo": false}
	pool := r.bcR.pool
	pool.mtx.Lock()
	if q := pool.requesters[blk.Height]; q != nil {
		pre["peer"], pre["blk"], pre["redo"] = "nil", "nil", len(q.redoCh) > 0
		if id := q.getPeerID(); id != "" {
			pre["peer"] = r.nameOf(id)
		}
		if b := q.getBlock(); b != nil {
			pre["blk"] = r.ch.uidOfBlock(b)
		}
	}
	pool.mtx.Unlock()
	pb, err := blk.ToProto()
	if err != nil {
		panic(err)
	}
	prev := r.ch.states[blk.Height-1]
	vb := r.blockExec.ValidateBlock(prev, blk) == nil
	e := r.log(map[string]interface{}{"ev": "Response", "p": name, "h": int(h), "kind": kind, "blk": r.ch.absBlock(blk),
		"pre": pre, "vb": vb})
	if name != "" && !r.honest[name] && kind != "H" {
		r.lies++
	}
	r.bcR.Receive(BlockchainChannel, p, c13Wire(&bcproto.BlockResponse{Block: pb}))
	e["pool"] = r.pool()
	return true
}

// The requester's retry timer (requestRetrySeconds, a 30 s constant) does `bpr.reset(); continue OUTER_LOOP`.
// A redo for the requester's current peer takes the requester goroutine through exactly that code
// (`case peerID := <-bpr.redoCh: if peerID == bpr.peerID { bpr.reset(); continue OUTER_LOOP }`), at once.
func (r *c13Run) doRetry(h int64) bool {
	r.tr.Lock()
	defer r.tr.Unlock()
	if r.isHanded() {
		return false
	}
	pool := r.bcR.pool
	pool.mtx.Lock()
	q := pool.requesters[h]
	var id p2p.ID
	if q != nil {
		id = q.getPeerID()
	}
	pool.mtx.Unlock()
	if q == nil || id == "" || len(q.redoCh) > 0 {
		return false
	}
	had := q.getBlock() != nil
	e := r.log(map[string]interface{}{"ev": "Retry", "h": int(h), "p": r.nameOf(id)})
	q.redo(id)
	// until the requester goroutine has taken the redo and gone through reset()
	for i := 0; i < 20000 && (len(q.redoCh) > 0 || (had && q.getBlock() != nil)); i++ {
		time.Sleep(200 * time.Microsecond)
	}
	e["pool"] = r.pool()
	return true
}

func (r *c13Run) doTimeout(name string) bool {
	r.tr.Lock()
	defer r.tr.Unlock()
	pool := r.bcR.pool
	pool.mtx.Lock()
	bp := pool.peers[c13PeerID(name)]
	ok := bp != nil && !bp.didTimeout && bp.numPending > 0
	pool.mtx.Unlock()
	if !ok || r.alive[name] == nil || r.isHanded() {
		return false
	}
	e := r.log(map[string]interface{}{"ev": "Timeout", "p": name})
	bp.onTimeout() // what the peerTimeout timer calls
	e["pool"] = r.pool()
	return true
}

// ------------------------------------------------------------ quiescence
func (r *c13Run) fingerprint() string {
	r.tr.Lock()
	defer r.tr.Unlock()
	st, _ := r.stateStore.Load()
	b, _ := json.Marshal([]interface{}{r.pool(), atomic.LoadInt64(&r.nev), st.LastBlockHeight, len(r.bcR.requestsCh), len(r.bcR.errorsCh), r.outbox})
	return string(b)
}

// the reactor has work in front of it: both blocks of the next pair are present (the next
// didProcessCh iteration will save or redo), or a block is saved but not yet applied
func (r *c13Run) busy() bool {
	first, second := r.bcR.pool.PeekTwoBlocks()
	if first != nil && second != nil && !r.isHanded() {
		return true
	}
	st, _ := r.stateStore.Load()
	return st.LastBlockHeight != r.bstore.Height()
}

// wait until nothing has moved for `quiet` and the reactor has nothing in front of it.
// "quiet" | "stuck" (the reactor sat on the same work for the whole of max without any
// observable step) | "moving"
func (r *c13Run) waitQuiet(quiet, max time.Duration) string {
	start := time.Now()
	last := r.fingerprint()
	since := time.Now()
	moved := false
	for {
		time.Sleep(4 * time.Millisecond)
		fp := r.fingerprint()
		if fp != last || len(r.bcR.requestsCh) > 0 || len(r.bcR.errorsCh) > 0 {
			last, since, moved = fp, time.Now(), true
		} else if time.Since(since) >= quiet && !r.busy() {
			return "quiet"
		}
		if time.Since(start) > max {
			if !moved && r.busy() {
				return "stuck"
			}
			if time.Since(since) >= max/2 && r.busy() {
				return "stuck"
			}
			return "moving"
		}
	}
}

func (r *c13Run) isHanded() bool { return atomic.LoadInt32(&r.handed) == 1 }

// ------------------------------------------------------------ schedule execution
func (r *c13Run) exec(s c13Step) bool {
	switch s.A {
	case "Join":
		return r.doJoin(s.P)
	case "Status":
		return r.doStatus(s.P, s.Base, s.Height)
	case "Response":
		if s.H == 0 { // the lowest height the peer has been asked for
			pend := r.pendingOf(s.P)
			if len(pend) == 0 {
				return false
			}
			return r.doResponse(s.P, pend[0], s.Kind)
		}
		return r.doResponse(s.P, s.H, s.Kind)
	case "Timeout":
		return r.doTimeout(s.P)
	case "Retry":
		return r.doRetry(s.H)
	case "Late": // an answer nobody is waiting for any more (the peer was removed and has reconnected)
		return r.doResponseOpt(s.P, s.H, s.Kind, true)
	case "WaitAsked":
		// wait (condition, bounded) until peer s.P has been sent the request for height s.H
		for i := 0; i < 20000 && !r.isHanded(); i++ {
			for _, x := range r.pendingOf(s.P) {
				if x == s.H {
					return true
				}
			}
			time.Sleep(500 * time.Microsecond)
		}
		return false
	case "WaitReq":
		// wait (for the condition, bounded) until the peer has been sent s.H block requests: every
		// requester that picked it has stored the peer id by then
		for i := 0; i < 20000 && !r.allRequested(s.P, int(s.H)) && !r.isHanded(); i++ {
			time.Sleep(500 * time.Microsecond)
		}
		return true
	}
	return false
}

func (r *c13Run) pendingOf(name string) []int64 {
	r.tr.Lock()
	defer r.tr.Unlock()
	out := append([]int64{}, r.outbox[name]...)
	sort.Slice(out, func(i, j int) bool { return out[i] < out[j] })
	return out
}

func (r *c13Run) isAlive(name string) bool {
	r.tr.Lock()
	defer r.tr.Unlock()
	return r.alive[name] != nil
}

// one step of the fair closure: honest peers (re)join, report (1,T) and answer; silent
// liars time out.  false = nothing left to do.
func (r *c13Run) closureStep() bool {
	for _, pd := range r.sc.Peers {
		if !pd.Honest {
			continue
		}
		if !r.isAlive(pd.P) {
			if r.joins[pd.P] >= 12 {
				continue
			}
			if r.doJoin(pd.P) {
				r.doStatus(pd.P, 1, r.sc.T)
				return true
			}
			continue
		}
		if !r.inPool(pd.P) {
			if r.doStatus(pd.P, 1, r.sc.T) {
				return true
			}
		}
		if pend := r.pendingOf(pd.P); len(pend) > 0 {
			h := pend[0]
			kind := "H"
			if h > r.sc.T {
				kind = "none"
			}
			if r.doResponse(pd.P, h, kind) {
				return true
			}
		}
	}
	for _, pd := range r.sc.Peers {
		if pd.Honest || !r.isAlive(pd.P) {
			continue
		}
		// a liar that owes the pool a block (answered with something else, or not at all) times out
		if r.doTimeout(pd.P) {
			return true
		}
	}
	return false
}

func (r *c13Run) owes(name string) bool {
	pool := r.bcR.pool
	pool.mtx.Lock()
	defer pool.mtx.Unlock()
	bp := pool.peers[c13PeerID(name)]
	return bp != nil && !bp.didTimeout && bp.numPending > 0
}

// the peer has been sent want requests, or as many as the pool can ask it for right now (every
// requester in its range has a peer or the peer's window is full) and each of the requesters that
// picked it has stored its id and sent its request
func (r *c13Run) allRequested(name string, want int) bool {
	sent := len(r.pendingOf(name))
	if sent >= want {
		return true
	}
	pool := r.bcR.pool
	pool.mtx.Lock()
	defer pool.mtx.Unlock()
	bp := pool.peers[c13PeerID(name)]
	if bp == nil {
		return false
	}
	if sent < int(bp.numPending) {
		return false
	}
	if bp.numPending >= maxPendingRequestsPerPeer {
		return true
	}
	for h, q := range pool.requesters {
		if h >= bp.base && h <= bp.height && q.getPeerID() == "" {
			return false
		}
	}
	return int64(len(pool.requesters)) >= bp.height-pool.height+1 || pool.maxPeerHeight > bp.height
}

// some requester has a peer assigned and no block: its 30 s retry timer is running
func (r *c13Run) retryPending() bool {
	pool := r.bcR.pool
	pool.mtx.Lock()
	defer pool.mtx.Unlock()
	for _, q := range pool.requesters {
		if q.getPeerID() != "" && q.getBlock() == nil {
			return true
		}
	}
	return false
}

func (r *c13Run) inPool(name string) bool {
	pool := r.bcR.pool
	pool.mtx.Lock()
	defer pool.mtx.Unlock()
	_, ok := pool.peers[c13PeerID(name)]
	return ok
}

func (r *c13Run) hasHonest() bool {
	for _, pd := range r.sc.Peers {
		if pd.Honest {
			return true
		}
	}
	return false
}

// a seeded random environment step
func (r *c13Run) randomStep() bool {
	type cand func() bool
	var cs []cand
	for _, pd := range r.sc.Peers {
		pd := pd
		if !r.isAlive(pd.P) {
			if r.joins[pd.P] < 3 {
				cs = append(cs, func() bool { return r.doJoin(pd.P) })
			}
			continue
		}
		if pd.Honest {
			cs = append(cs, func() bool { return r.doStatus(pd.P, 1, r.sc.T) })
		} else if len(r.in.Status) > 0 {
			s := r.in.Status[r.rng.Intn(len(r.in.Status))]
			cs = append(cs, func() bool { return r.doStatus(pd.P, s[0], r.sc.T+s[1]) })
		}
		for _, h := range r.pendingOf(pd.P) {
			h := h
			if pd.Honest {
				kind := "H"
				if h > r.sc.T {
					kind = "none"
				}
				cs = append(cs, func() bool { return r.doResponse(pd.P, h, kind) })
				cs = append(cs, func() bool { return r.doResponse(pd.P, h, kind) })
			} else {
				kind := "H"
				if r.lies < 4 && len(r.in.Kinds) > 0 && r.rng.Intn(3) > 0 {
					kind = r.in.Kinds[r.rng.Intn(len(r.in.Kinds))]
				}
				cs = append(cs, func() bool { return r.doResponse(pd.P, h, kind) })
			}
		}
		if !pd.Honest && r.owes(pd.P) {
			cs = append(cs, func() bool { return r.doTimeout(pd.P) })
		}
	}
	if len(cs) == 0 {
		return false
	}
	if r.rng.Intn(12) == 0 { // a requester's retry timer fires
		pool := r.bcR.pool
		pool.mtx.Lock()
		var hs []int64
		for h, q := range pool.requesters {
			if q.getPeerID() != "" {
				hs = append(hs, h)
			}
		}
		pool.mtx.Unlock()
		if len(hs) > 0 {
			sort.Slice(hs, func(i, j int) bool { return hs[i] < hs[j] })
			if r.doRetry(hs[r.rng.Intn(len(hs))]) {
				return true
			}
		}
	}
	return cs[r.rng.Intn(len(cs))]()
}

func (r *c13Run) execute() {
	peers := []map[string]interface{}{}
	for _, pd := range r.sc.Peers {
		peers = append(peers, map[string]interface{}{"p": pd.P, "honest": pd.Honest})
		r.honest[pd.P] = pd.Honest
	}
	vals := [][]int64{}
	for h := int64(1); h <= int64(r.ch.tmax)+1; h++ {
		vals = append(vals, c13Pows(r.ch.valsAt(h)))
	}
	r.tr.Lock()
	r.log(map[string]interface{}{"ev": "Reset", "sched": r.sc.ID, "src": r.sc.Src, "T": int(r.sc.T), "peers": peers, "vals": vals,
		"tmax": r.ch.tmax, "nilAt": r.in.Vals.NilAt})
	r.tr.Unlock()
	quiet := 36 * time.Millisecond
	stable := true
	stalled := false
	pairStuck := false
	note := func(q string) {
		if q == "stuck" {
			stalled, pairStuck = true, true
		} else if q == "moving" {
			stable = false
		}
	}
	if r.sc.Random > 0 {
		for k := 0; k < r.sc.Random && !r.isHanded() && !pairStuck; k++ {
			note(r.waitQuiet(quiet, 5*time.Second))
			r.probe(false)
			if !r.randomStep() {
				break
			}
		}
	} else {
		for _, s := range r.sc.Steps {
			if r.isHanded() || pairStuck {
				break
			}
			note(r.waitQuiet(quiet, 5*time.Second))
			if s.A == "Wait" {
				time.Sleep(time.Duration(s.H) * time.Millisecond)
				continue
			}
			r.probe(false)
			if !r.exec(s) {
				r.skipped++
			}
		}
	}
	// fair closure: until hand-over, or until nothing can move any more
	deadline := time.Now().Add(150 * time.Second)
	idleWait := 6 * time.Second
	if !r.hasHonest() {
		idleWait = 1500 * time.Millisecond
	}
	for !r.isHanded() && !r.sc.NoFill && !pairStuck {
		note(r.waitQuiet(quiet, 5*time.Second))
		r.probe(false)
		if r.isHanded() || pairStuck {
			break
		}
		// (sampled BEFORE looking for something to do: an event that arrives right after the
		// look -- a request of a starved requester goroutine -- must end the idle wait below)
		before := atomic.LoadInt64(&r.nev)
		if r.closureStep() {
			continue
		}
		// nothing to do for the environment: give the node's tickers time (hand-over ticker: 1 s)
		t0 := time.Now()
		limit := idleWait
		if r.retryPending() {
			// A requester waits for a block from a peer that will never answer and nobody will tell it
			// to redo (pickIncrAvailablePeer returned the peer, removePeer ran before the requester had
			// stored the peer id: removePeer does not find it).  The code heals itself after
			// requestRetrySeconds (30 s, a constant): not a stall before that.
			limit = (requestRetrySeconds + 6) * time.Second
		}
		for time.Since(t0) < limit && atomic.LoadInt64(&r.nev) == before && !r.isHanded() {
			time.Sleep(10 * time.Millisecond)
		}
		if atomic.LoadInt64(&r.nev) == before && !r.isHanded() {
			stalled = true
			break
		}
		if time.Now().After(deadline) {
			stable = false
			break
		}
	}
	if r.sc.NoFill && !r.isHanded() {
		// let the hand-over ticker fire if the node considers itself caught up
		t0 := time.Now()
		for time.Since(t0) < 1300*time.Millisecond && !r.isHanded() {
			time.Sleep(10 * time.Millisecond)
		}
	}
	if !pairStuck {
		r.waitQuiet(quiet, 2*time.Second)
	}
	r.tr.Lock()
	r.probe(true)
	st, _ := r.stateStore.Load()
	stored := []map[string]interface{}{}
	for h := int64(1); h <= r.bstore.Height(); h++ {
		stored = append(stored, map[string]interface{}{"h": int(h), "id": r.ch.idOfHash(r.bstore.LoadBlockMeta(h).BlockID.Hash),
			"uid": r.ch.uidOfPSH(r.bstore.LoadBlockMeta(h).BlockID.PartSetHeader),
			"seen": r.ch.absCommit(r.bstore.LoadSeenCommit(h), r.ch.valsAt(h))})
	}
	honestInPool := false
	for _, pd := range r.sc.Peers {
		honestInPool = honestInPool || (pd.Honest && r.inPool(pd.P))
	}
	r.log(map[string]interface{}{"ev": "End", "handed": r.isHanded(), "stalled": stalled, "stable": stable, "stateH": int(st.LastBlockHeight),
		"store": stored, "skipped": r.skipped, "nofill": r.sc.NoFill, "pairStuck": pairStuck, "hasHonest": r.hasHonest(), "honestInPool": honestInPool, "pool": r.pool()})
	r.closed = true
	r.tr.Unlock()
}

// ---------------------------------------------------------------- entry point
func TestVerifC13(t *testing.T) {
	inPath, outDir := os.Getenv("VERIF_IN"), os.Getenv("VERIF_OUT")
	if inPath == "" || outDir == "" {
		t.Skip("VERIF_IN / VERIF_OUT not set")
	}
	raw, err := os.ReadFile(inPath)
	if err != nil {
		t.Fatal(err)
	}
	var in c13Input
	if err := json.Unmarshal(raw, &in); err != nil {
		t.Fatal(err)
	}
	if in.Par <= 0 {
		in.Par = 8
	}
	if in.Vals.NilAt == nil {
		in.Vals.NilAt = []int64{}
	}
	peerTimeout = time.Hour // the timer never fires by itself; Timeout(p) calls bpPeer.onTimeout directly
	ch := c13GenChain(in.Vals, in.Tmax)
	results := make([][]map[string]interface{}, len(in.Scheds))
	sem := make(chan struct{}, in.Par)
	var wg sync.WaitGroup
	for i := range in.Scheds {
		wg.Add(1)
		sem <- struct{}{}
		go func(i int) {
			defer wg.Done()
			defer func() { <-sem }()
			sc := in.Scheds[i]
			r := &c13Run{ch: ch, in: &in, sc: sc, runNo: i + 1, honest: map[string]bool{}, alive: map[string]*c13Peer{},
				outbox: map[string][]int64{}, joins: map[string]int{}, lastWhy: map[string]string{},
				rng: rand.New(rand.NewSource(sc.Seed*7919 + int64(i)))}
			f, err := os.Create(filepath.Join(outDir, fmt.Sprintf("run-%05d.ndjson", i+1)))
			if err != nil {
				panic(err)
			}
			r.out = f
			r.tr.onFinal = r.flush
			r.setup()
			r.execute()
			r.teardown()
			r.tr.Lock()
			r.tr.Unlock()
			f.Close()
			results[i] = r.ev
		}(i)
	}
	wg.Wait()
	n := 0
	for _, evs := range results {
		n += len(evs)
	}
	if err := os.WriteFile(filepath.Join(outDir, "done"), []byte("ok\n"), 0o600); err != nil {
		t.Fatal(err)
	}
	t.Logf("C13 harness: %d runs, %d events", len(in.Scheds), n)
}
