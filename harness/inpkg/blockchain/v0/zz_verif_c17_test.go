//go:build verif

package v0

// C17 harness, hostile half, blockchain (fast sync) reactor v0
// (spec/TMReactorAlphabet.tla BcKinds/BcFC/BcPS).  Node-state classes: "synced" (fast sync
// finished / disabled: pool not running) and "syncing" (pool and poolRoutine running, ten
// blocks in the store).

import (
	"math"
	"os"
	"testing"
	"time"

	"github.com/gogo/protobuf/proto"

	cfg "github.com/tendermint/tendermint/config"
	"github.com/tendermint/tendermint/p2p"
	bcproto "github.com/tendermint/tendermint/proto/tendermint/blockchain"
	tmproto "github.com/tendermint/tendermint/proto/tendermint/types"
	"github.com/tendermint/tendermint/types"
)

type c17BcHooks struct {
	r map[string]*BlockchainReactor
}

func (h *c17BcHooks) envOf(ps string) string {
	if ps == "fresh_synced" {
		return "synced"
	}
	return "syncing"
}

func (h *c17BcHooks) newEnv(name string) *c17Env {
	config = cfg.ResetTestRoot("c17_blockchain_" + name)
	genDoc, privVals := randGenesisDoc(1, false, 30)
	nlog := c17NewRecLogger()
	pair := newBlockchainReactor(nlog, genDoc, privVals, 10)
	if name == "synced" {
		pair.reactor.fastSync = false
	}
	h.r[name] = pair.reactor
	env := c17NewEnv(name, map[string]p2p.Reactor{"BLOCKCHAIN": pair.reactor}, []string{"BLOCKCHAIN"})
	pair.reactor.SetLogger(env.nlog)
	return env
}

func c17BcWrap(m proto.Message) []byte {
	if w, ok := m.(p2p.Wrapper); ok {
		m = w.Wrap()
	}
	b, err := proto.Marshal(m)
	if err != nil {
		panic(err)
	}
	return b
}

func (h *c17BcHooks) prepare(env *c17Env, ps string) {
	if ps == "known_syncing" {
		env.send(1, BlockchainChannel, c17BcWrap(&bcproto.StatusResponse{Base: 1, Height: 1000}))
	}
}

func (h *c17BcHooks) block(env *c17Env, height int64) *tmproto.Block {
	r := h.r[env.name]
	last := r.store.LoadSeenCommit(10)
	b := makeBlock(height, r.initialState, last)
	pb, err := b.ToProto()
	if err != nil {
		panic(err)
	}
	return pb
}

func (h *c17BcHooks) build(env *c17Env, c c17Case) (byte, []byte, bool) {
	ch := BlockchainChannel
	switch c.Kind {
	case "BlockRequest":
		hs := map[string]int64{"valid": 5, "h_zero": 0, "h_neg": -1, "h_max": math.MaxInt64, "h_far": 1000000}
		if v, ok := hs[c.FC]; ok {
			return ch, c17BcWrap(&bcproto.BlockRequest{Height: v}), true
		}
	case "NoBlockResponse":
		hs := map[string]int64{"valid": 11, "h_neg": -1, "h_max": math.MaxInt64}
		if v, ok := hs[c.FC]; ok {
			return ch, c17BcWrap(&bcproto.NoBlockResponse{Height: v}), true
		}
	case "StatusRequest":
		// a StatusRequest has no fields: the wrapped message is two bytes
		return ch, c17BcWrap(&bcproto.StatusRequest{}), true
	case "StatusResponse":
		m := map[string]*bcproto.StatusResponse{
			"valid": {Base: 1, Height: 1000}, "base_neg": {Base: -1, Height: 5}, "h_neg": {Base: 0, Height: -1},
			"base_gt_height": {Base: 7, Height: 5}, "h_max": {Base: 1, Height: math.MaxInt64}, "h_zero": {Base: 0, Height: 0},
		}
		if v, ok := m[c.FC]; ok {
			return ch, c17BcWrap(v), true
		}
	case "BlockResponse":
		switch c.FC {
		case "block_nil":
			return ch, c17BcWrap(&bcproto.BlockResponse{}), true
		case "block_zero":
			return ch, c17BcWrap(&bcproto.BlockResponse{Block: &tmproto.Block{}}), true
		case "unsolicited_near":
			return ch, c17BcWrap(&bcproto.BlockResponse{Block: h.block(env, 11)}), true
		case "unsolicited_far":
			return ch, c17BcWrap(&bcproto.BlockResponse{Block: h.block(env, 5000)}), true
		case "header_neg_height":
			b := h.block(env, 11)
			b.Header.Height = -1
			return ch, c17BcWrap(&bcproto.BlockResponse{Block: b}), true
		case "lastcommit_nil":
			b := h.block(env, 11)
			b.LastCommit = nil
			return ch, c17BcWrap(&bcproto.BlockResponse{Block: b}), true
		case "evidence_bad":
			b := h.block(env, 11)
			b.Evidence.Evidence = []tmproto.Evidence{{}}
			return ch, c17BcWrap(&bcproto.BlockResponse{Block: b}), true
		case "data_huge":
			b := h.block(env, 11)
			for i := 0; i < 200; i++ {
				b.Data.Txs = append(b.Data.Txs, make([]byte, 10000))
			}
			return ch, c17BcWrap(&bcproto.BlockResponse{Block: b}), true
		}
	case "Empty":
		return ch, []byte{0x78, 0x01}, true
	}
	return 0, nil, false
}

func (h *c17BcHooks) probe(env *c17Env) string {
	r := h.r[env.name]
	if !c17WithTimeout(10*time.Second, func() { _, _, _ = r.pool.GetStatus(); _ = r.pool.MaxPeerHeight(); _ = r.store.Height() }) {
		return "block pool locked"
	}
	if env.name == "syncing" && !r.pool.IsRunning() {
		return "ok" // switched to consensus: legitimate
	}
	return "ok"
}

var _ = types.BlockPartSizeBytes

func TestVerifC17Reactor(t *testing.T) {
	if os.Getenv("VERIF_IN") == "" || os.Getenv("VERIF_OUT") == "" {
		t.Skip("VERIF_IN / VERIF_OUT not set")
	}
	c17Run(&c17BcHooks{r: map[string]*BlockchainReactor{}}, "blockchain")
}
