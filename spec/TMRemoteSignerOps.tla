-------------------------- MODULE TMRemoteSignerOps --------------------------
(* The remote-signer protocol of /repo/privval as operators over values (no variables).
   Used by TMRemoteSigner (the two endpoints, the connection and the network as a state
   machine) and by TMRemoteSignerTrace (behaviour observed on the real code).

   The FilePV behind the signer server is TMSigner (privval/file.go): SignResult.

   A request q is the record [k, chain, t, h, r, v, ts]
       k      "sign" | "pubkey" | "ping"       (privvalproto.Message_*Request)
       chain  the chain id carried by the request
       t      "prevote" | "precommit" | "proposal" for k = "sign", else "none"
       h r v ts  as in TMSigner (v = block class, ts = timestamp)
   A response m is the record [k, err, out]
       k      "vote" | "prop" | "pubkey" | "ping" | "empty"    (Message_*Response; "empty" is a
              privvalproto.Message without Sum: what the handler returns for an unknown request)
       err    "none", or the class of the RemoteSignerError carried by the response
       out    [v, ts, sig] what the signed vote/proposal in the response holds               *)
EXTENDS TMSigner

CONSTANTS
  Weak_ErrorIgnored,         \* SignerClient.Sign*/GetPubKey do not look at resp.Error
  Weak_NoChainCheck,         \* DefaultValidationRequestHandler signs whatever chain id the request names
  Weak_RetryOnRemoteError,   \* RetrySignerClient goes on after a RemoteSignerError
  Weak_RetrySwallowsError,   \* RetrySignerClient returns nil when its attempts are used up
  Weak_PingSwallowsError     \* SignerClient.Ping returns nil whatever happened           (the code AS IT IS)

NoQ   == [k |-> "none", chain |-> "-", t |-> "none", h |-> 0, r |-> 0, v |-> Nil, ts |-> 0]
PingQ == [NoQ EXCEPT !.k = "ping"]
PubQ(chain) == [NoQ EXCEPT !.k = "pubkey", !.chain = chain]
SignQ(chain, t, h, r, v, ts) == [k |-> "sign", chain |-> chain, t |-> t, h |-> h, r |-> r, v |-> v, ts |-> ts]

NoResp == [k |-> "none", err |-> "none", out |-> NoOut]
Resp(k, err, out) == [k |-> k, err |-> err, out |-> out]

\* the response kind SignerClient.<op> asks the union for (GetSignedVoteResponse() etc.)
ExpectedKind(q) ==
  CASE q.k = "ping" -> "ping"
    [] q.k = "pubkey" -> "pubkey"
    [] q.k = "sign" /\ q.t = "proposal" -> "prop"
    [] q.k = "sign" -> "vote"
    [] OTHER -> "empty"

\* the public key is the constant "PK": out.v carries it
PubOut == [v |-> "PK", ts |-> 0, sig |-> NoSig]

(* signer_requestHandler.go: DefaultValidationRequestHandler(privVal, req, chainID)
   -> [resp, lss, signed]   signed: a signature was produced or re-released by the FilePV *)
HandleReq(lss, q, chain) ==
  IF q.k = "ping" THEN [resp |-> Resp("ping", "none", NoOut), lss |-> lss, signed |-> FALSE]
  ELSE IF q.k = "pubkey" THEN
    IF q.chain # chain /\ ~Weak_NoChainCheck
    THEN [resp |-> Resp("pubkey", "chain", NoOut), lss |-> lss, signed |-> FALSE]
    ELSE [resp |-> Resp("pubkey", "none", PubOut), lss |-> lss, signed |-> FALSE]
  ELSE IF q.k = "sign" THEN
    IF q.chain # chain /\ ~Weak_NoChainCheck
    THEN [resp |-> Resp(ExpectedKind(q), "chain", NoOut), lss |-> lss, signed |-> FALSE]
    ELSE LET s == SignResult(lss, q) IN
         IF s.kind = "err"
         THEN [resp |-> Resp(ExpectedKind(q), s.err, NoOut), lss |-> lss, signed |-> FALSE]
         ELSE [resp |-> Resp(ExpectedKind(q), "none", s.out), lss |-> s.lss, signed |-> TRUE]
  ELSE [resp |-> Resp("empty", "none", NoOut), lss |-> lss, signed |-> FALSE]

(* signer_client.go.  What one attempt of SignerClient.<op> returns, given how the transport
   (SignerListenerEndpoint.SendRequest) ended: tr = "ok" with the response m read, or the class
   of the transport error.
     res   "ok" | "remote_err" | "unexpected" | a transport error class
     out   the value handed to the caller when res = "ok"                                    *)
TransportErrs == {"conn_timeout", "no_conn", "write_err", "write_timeout", "read_timeout", "eof"}

Interpret(q, tr, m) ==
  IF q.k = "ping" THEN      \* SignerClient.Ping()
    IF Weak_PingSwallowsError THEN [res |-> "ok", out |-> NoOut]
    ELSE IF tr # "ok" THEN [res |-> tr, out |-> NoOut]
    ELSE IF m.k # "ping" THEN [res |-> "unexpected", out |-> NoOut]
    ELSE [res |-> "ok", out |-> NoOut]
  ELSE IF tr # "ok" THEN [res |-> tr, out |-> NoOut]
  ELSE IF m.k # ExpectedKind(q) THEN [res |-> "unexpected", out |-> NoOut]
  ELSE IF m.err # "none" /\ ~Weak_ErrorIgnored THEN [res |-> "remote_err", out |-> NoOut]
  ELSE [res |-> "ok", out |-> m.out]

(* retry_signer_client.go: after an attempt with result res, attempt number att of `retries`
   (retries >= 1; Ping is never retried):   "return" | "retry"                              *)
RetryDecision(q, res, att, retries) ==
  IF q.k = "ping" \/ res = "ok" THEN "return"
  ELSE IF res = "remote_err" /\ ~Weak_RetryOnRemoteError THEN "return"
  ELSE IF att < retries THEN "retry" ELSE "return"

\* what RetrySignerClient hands to its caller at the end
FinalRes(q, res, att, retries) ==
  IF res # "ok" /\ res # "remote_err" /\ q.k # "ping" /\ att >= retries /\ Weak_RetrySwallowsError THEN "ok" ELSE res

(* ------------------------------------------------------------------ properties over values
   P1 RequestResponseMatching + P2 ErrorSurfaced, on one returned call:
      q the request, res/out what the caller got, m the response consumed by the LAST attempt
      (NoResp if none), own = that response was produced by the signer for this very request *)
ValueMatches(q, out) ==
  CASE q.k = "sign"   -> out.v = q.v /\ SigOverMessage(Rel(q, out))
    [] q.k = "pubkey" -> out = PubOut
    [] OTHER          -> TRUE

ReturnOK(q, res, out, tr, m, own) ==
  res = "ok" => /\ tr = "ok" /\ m.k = ExpectedKind(q)      \* a response of the right kind was received ...
                /\ own                                      \* ... to this request, not to an earlier one
                /\ m.err = "none"                           \* ... and it was not a refusal
                /\ ValueMatches(q, out)

ReturnClass(q, res, out, tr, m, own) ==
  IF tr # "ok" THEN q.k \o ":transport_error_returned_as_success:" \o tr
  ELSE IF m.k # ExpectedKind(q) THEN q.k \o ":response_of_wrong_kind_returned_as_success"
  ELSE IF ~own THEN q.k \o ":answer_to_an_earlier_request_returned"
  ELSE IF m.err # "none" THEN q.k \o ":signer_refusal_returned_as_success:" \o m.err
  ELSE q.k \o ":value_is_not_the_signers_answer_to_this_request"
=============================================================================
