---------------------------- MODULE TMEvidencePool ----------------------------
(* The evidence pool as a state machine over the step operators of TMEvidence.tla:
   one action per API call of evidence/pool.go, AddEvidence split in two (look-ups |
   verify+store) so that other calls -- a second AddEvidence of the same item,
   CheckEvidence, Update -- can fall in between, Update with a crash between
   evpool.Update and the state save (state/execution.go ApplyBlock), NewPool as Restart.

   Environment assumptions (the node's protocol, not the pool's code):
     * Update(h+1, evs) is called with evs = the evidence of a block that passed
       CheckEvidence on this pool (BlockExecutor.ValidateBlock), or with no evidence;
     * after a crash between Update and the state save the node restarts and replays the
       same block (Handshaker.ReplayBlocks): Restart, then Update with the same evidence;
     * consensus reports conflicting votes only for heights <= the one being decided.   *)
EXTENDS TMEvidence

CONSTANTS
  Ctx,          \* context record (chain facts + universe), see TMEvidence.tla
  AddIds,       \* ids offered to AddEvidence / CheckEvidence
  BeginIds,     \* ids offered to the split (concurrent) AddEvidence
  MaxList,      \* longest evidence list given to CheckEvidence
  MaxBuf,       \* bound on the consensus buffer
  MaxInflight,  \* concurrent AddEvidence calls between look-ups and store
  Bounds        \* maxBytes values for PendingEvidence

VARIABLES pool, act, checked, blk
vars == <<pool, act, checked, blk>>

Mid       == pool.upd.on          \* an Update is between two committed-marker writes
Normal    == ~Mid /\ pool.saved = pool.height /\ pool.tip = pool.height
\* died between the two persistence steps at the end of ApplyBlock: pool ahead of the saved
\* state (real order) or the saved state ahead of the pool (Weak_UpdateAfterStateSave)
Crashed   == ~Mid /\ pool.saved # pool.height
Replaying == ~Mid /\ pool.saved = pool.height /\ pool.tip > pool.height

Lists == UNION {[1..n -> AddIds] : n \in 1..MaxList}

Init ==
  /\ pool = InitPool(Ctx)
  /\ act = [name |-> "Init"]
  /\ checked = << >>
  /\ blk = << >>

Do(a) ==
  LET r == Step(Ctx, pool, a) IN
  /\ pool' = r.p
  /\ act' = a @@ [res |-> r.res, why |-> r.why]

\* other goroutines (peers gossiping evidence, the proposer's PendingEvidence) also run while
\* the consensus goroutine is inside Update; a store step waits while pendingMtx is held
DoAdd(id) ==
  /\ Normal \/ (Mid /\ ~AddBlocks(Ctx, pool, id))
  /\ Do([name |-> "Add", id |-> id])
  /\ UNCHANGED <<checked, blk>>

DoCheck(ids) ==
  /\ Normal
  /\ LET r == Step(Ctx, pool, [name |-> "Check", ids |-> ids]) IN
     /\ pool' = r.p
     /\ act' = [name |-> "Check", ids |-> ids, res |-> r.res, why |-> r.why]
     /\ checked' = IF r.res = "ok" THEN ids ELSE << >>
  /\ UNCHANGED blk

DoReport(q) ==
  /\ Normal
  /\ Len(pool.buffer) < MaxBuf
  /\ Ctx.pairs[q].h <= pool.height + 1
  /\ Do([name |-> "Report", pair |-> q])
  /\ UNCHANGED <<checked, blk>>

DoUpdate(ids, crash) ==
  /\ ~Mid
  /\ ~Crashed
  /\ pool.height + 1 <= Ctx.N
  /\ IF Replaying THEN ids = blk ELSE ids \in {<< >>, checked}
  \* crash = TRUE: the node dies between the two persistence steps at the end of ApplyBlock,
  \* i.e. after the first one: evpool.Update -- or, Weak_UpdateAfterStateSave, the state save
  /\ IF crash /\ Weak_UpdateAfterStateSave
     THEN Do([name |-> "SaveState", to |-> pool.height + 1, ids |-> ids])
     ELSE Do([name |-> "Update", to |-> pool.height + 1, ids |-> ids, crash |-> crash])
  /\ blk' = ids
  /\ checked' = << >>

DoPending(mb) ==
  /\ Normal \/ Mid
  /\ LET r == PendingEvidence(Ctx, pool, mb) IN
     act' = [name |-> "Pending", mb |-> mb, got |-> r.got, bytes |-> r.bytes, res |-> "ok", why |-> "none"]
  /\ UNCHANGED <<pool, checked, blk>>

DoRestart ==
  /\ ~Mid
  /\ pool.tip = pool.height \/ pool.saved > pool.height     \* not in the middle of a replay
  /\ Do([name |-> "Restart"])
  /\ checked' = << >>
  /\ UNCHANGED blk

DoAddBegin(tk, id) ==
  /\ Normal \/ Mid
  /\ Cardinality(pool.inflight) < MaxInflight
  /\ ~HasTicket(pool, tk)
  /\ Do([name |-> "AddBegin", tk |-> tk, id |-> id])
  /\ UNCHANGED <<checked, blk>>

DoAddEnd(tk) ==
  /\ Normal \/ (Mid /\ ~StoreLocked(pool))
  /\ HasTicket(pool, tk)
  /\ Do([name |-> "AddEnd", tk |-> tk, id |-> TicketId(pool, tk)])
  /\ UNCHANGED <<checked, blk>>

\* Update stopped right before its k-th committed-marker write, and its continuation
DoUpdateBegin(ids, k) ==
  /\ Normal
  /\ pool.height + 1 <= Ctx.N
  /\ ids # << >> /\ ids = checked
  /\ k \in 1..Len(ids)
  /\ Do([name |-> "UpdateBegin", to |-> pool.height + 1, ids |-> ids, k |-> k])
  /\ blk' = ids
  /\ checked' = << >>

DoUpdateEnd ==
  /\ Mid
  /\ Do([name |-> "UpdateEnd", to |-> pool.upd.to, ids |-> pool.upd.ids, late |-> << >>])
  /\ UNCHANGED <<checked, blk>>

Tickets == IF MaxInflight = 1 THEN {"t1"} ELSE {"t1", "t2"}

Next ==
  \/ \E id \in AddIds : DoAdd(id)
  \/ \E ids \in Lists : DoCheck(ids)
  \/ \E q \in DOMAIN Ctx.pairs : DoReport(q)
  \/ \E ids \in {<< >>, checked, blk}, crash \in BOOLEAN : DoUpdate(ids, crash)
  \/ \E mb \in Bounds : DoPending(mb)
  \/ DoRestart
  \/ \E k \in 1..MaxList : DoUpdateBegin(checked, k)
  \/ DoUpdateEnd
  \/ \E tk \in Tickets, id \in BeginIds : DoAddBegin(tk, id)
  \/ \E tk \in Tickets : DoAddEnd(tk)

Spec == Init /\ [][Next]_vars

\* ------------------------------------------------------------------ properties (C11)
StateOK == StateViol(Ctx, pool) = {}
StepOK  == [][StepViol(Ctx, pool, pool', act') = {}]_vars

\* single-property views, so that a Weak_ config names what it breaks
SizeExact   == pool.size = Cardinality(pool.pending)
OnceOnly    == \A x \in pool.pending : KeyOf(Ctx, x) \notin pool.committed
Fails == StepViol(Ctx, pool, pool', act')
AdmitOnlyAdmissible == []["AdmitOnlyAdmissible" \notin Fails]_vars
AdmitGenuine        == []["AdmitGenuine"        \notin Fails]_vars
BlockCheck          == []["BlockCheck"          \notin Fails]_vars
ExpiryBoth          == []["ExpiryBoth"          \notin Fails]_vars
SurvivesRestart     == []["SurvivesRestart"     \notin Fails]_vars
BufferFlushed       == []["BufferFlushed"       \notin Fails]_vars
PendingKept         == []["PendingKept"         \notin Fails]_vars
CommittedKept       == []["CommittedKept"       \notin Fails]_vars
OfferedOnce         == []["OnceOnly"            \notin Fails]_vars
NoPanic             == []["NoPanic"             \notin Fails]_vars

\* replay graph: only calls that change the pool (refusals are covered by the admission cases)
Changes == pool' # pool

\* the clist and the last action do not influence what can happen next
View == <<[pool EXCEPT !.list = << >>], checked, blk>>
=============================================================================
