---------------------------- MODULE TMBlockPerturb ----------------------------
(* The alphabet of block perturbations used by C06 (DESIGN.md section 5, C06), as operators
   over the abstract block of TMBlockValidity.  The Go harness applies the same operation
   to the real (protobuf) block; the trace specification compares the projection of the
   real result with Perturb(...) (conformance) and judges the real accept/reject with
   ValidBlock on the OBSERVED block.

   op = [f, k, i, j]
     f = a header/content field : a SINGLE-FIELD perturbation, nothing else is touched (the
                                  quantifier of the property)
     f = "R"                    : a block REBUILT by a Byzantine proposer: the content is
                                  changed, the header hashes that commit to it are recomputed
                                  (k ending in "_rt": the time as well), so that the deeper
                                  conditions (commit validity, median, evidence admissibility,
                                  evidence size) decide - the "exactly when" of the statement *)
EXTENDS TMBlockValidity

CONSTANT AllSigIdx    \* BOOLEAN: signature perturbations at every position (else: first and last signer)

OtherHash  == "X1"
BadLenHash == "BADLEN"
LongChainID == "ccccccccccccccccccccccccccccccccccccccccccccccccccc"   \* 51 bytes
EvUnit == 450          \* abstract size of one duplicate-vote evidence (design model only)

NoOp == [f |-> "none", k |-> "none", i |-> 0, j |-> 0]
Op(f, k) == [f |-> f, k |-> k, i |-> 0, j |-> 0]
OpI(f, k, i) == [f |-> f, k |-> k, i |-> i, j |-> 0]
OpIJ(f, k, i, j) == [f |-> f, k |-> k, i |-> i, j |-> j]

HashPert(h, k) == CASE k = "other"  -> OtherHash
                    [] k = "empty"  -> ""
                    [] k = "badlen" -> BadLenHash
                    [] OTHER        -> h

\* the evidence the perturbations add: a duplicate vote of the first validator of the last
\* committed height (cx.st.lastHeight >= initial height required).  Every height uses evidence of
\* its own, so none is already pending in the validating node's pool: CheckEvidence skips the
\* verification of pending evidence, and expired evidence stays pending for up to a second and a
\* block after its expiry (evidence/pool.go Update) - that life cycle is C11's subject.
PertEvAt(cx, h, tag) ==
  LET vs == cx.hist[h].vals
  IN [val |-> vs[1].id, h |-> h, ts |-> cx.hist[h].time, vp |-> vs[1].power, tvp |-> TotalPower(vs),
      tag |-> tag, sg |-> "ok"]
PertEv(cx, tag) == PertEvAt(cx, cx.st.lastHeight, tag)

Rehash(b) == [b EXCEPT !.lastCommitHash = CommitHash(b.lastCommit),
                       !.dataHash = DataHash(b.txs),
                       !.evidenceHash = EvHash(b.evidence),
                       !.evBytes = EvUnit * Len(b.evidence)]
Retime(cx, b) == IF b.height > cx.st.initialHeight
                 THEN [b EXCEPT !.time = MedianTime(b.lastCommit, cx.st.lastVals)] ELSE b

Resign(cx, c, i) ==
  LET s == c.sigs[i] IN
  IF s.flag = "absent" \/ i > Len(cx.st.lastVals) THEN s
  ELSE [s EXCEPT !.sig = SigStr(cx.st.lastVals[i].id, cx.st.chainID, c.height, c.round,
                                IF s.flag = "commit" THEN c.blockID ELSE ZeroBID, s.ts)]
ResignAll(cx, c) == [c EXCEPT !.sigs = [i \in DOMAIN c.sigs |-> Resign(cx, c, i)]]

Single(cx, b, op) ==
  LET f == op.f  k == op.k  i == op.i IN
  CASE f = "version_block"   -> [b EXCEPT !.version.block = @ + 1]
    [] f = "version_app"     -> [b EXCEPT !.version.app = @ + 1]
    [] f = "chainID"         -> [b EXCEPT !.chainID = IF k = "other" THEN "c9" ELSE LongChainID]
    [] f = "height"          -> [b EXCEPT !.height = IF k = "inc" THEN @ + 1 ELSE @ - 1]
    [] f = "time"            -> [b EXCEPT !.time = CASE k = "inc" -> @ + 1 [] k = "dec" -> @ - 1
                                                     [] k = "last" -> cx.st.lastTime [] OTHER -> ZeroTime]
    [] f = "lastBlockID_hash"    -> [b EXCEPT !.lastBlockID.hash = HashPert(@, k)]
    [] f = "lastBlockID_pstotal" -> [b EXCEPT !.lastBlockID.pstotal = @ + 1]
    [] f = "lastBlockID_pshash"  -> [b EXCEPT !.lastBlockID.pshash = HashPert(@, k)]
    [] f = "lastCommitHash"  -> [b EXCEPT !.lastCommitHash = HashPert(@, k)]
    [] f = "dataHash"        -> [b EXCEPT !.dataHash = HashPert(@, k)]
    [] f = "evidenceHash"    -> [b EXCEPT !.evidenceHash = HashPert(@, k)]
    [] f = "valsHash"        -> [b EXCEPT !.valsHash = IF k = "swap" THEN b.nextValsHash ELSE HashPert(@, k)]
    [] f = "nextValsHash"    -> [b EXCEPT !.nextValsHash = IF k = "swap" THEN b.valsHash ELSE HashPert(@, k)]
    [] f = "consHash"        -> [b EXCEPT !.consHash = HashPert(@, k)]
    [] f = "lastResultsHash" -> [b EXCEPT !.lastResultsHash = HashPert(@, k)]
    [] f = "appHash"         -> [b EXCEPT !.appHash = IF k = "extend" THEN @ \o "+" ELSE HashPert(@, k)]
    [] f = "proposer"        -> [b EXCEPT !.proposer = CASE k = "id"      -> ValOrder[i]
                                                         [] k = "unknown" -> "a9"
                                                         [] k = "badlen"  -> "BADLEN"
                                                         [] OTHER         -> ""]
    [] f = "txs"             -> [b EXCEPT !.txs = CASE k = "add"  -> Append(@, "t9")
                                                    [] k = "drop" -> SubSeq(@, 1, Len(@) - 1)
                                                    [] OTHER      -> <<@[2], @[1]>> \o SubSeq(@, 3, Len(@))]
    [] f = "evidence"        -> [b EXCEPT !.evidence = IF k = "add" THEN Append(@, PertEv(cx, "b"))
                                                       ELSE SubSeq(@, 1, Len(@) - 1)]
    [] f = "commit_height"   -> [b EXCEPT !.lastCommit.height = @ + 1]
    [] f = "commit_round"    -> [b EXCEPT !.lastCommit.round = @ + 1]
    [] f = "commit_bid_hash" -> [b EXCEPT !.lastCommit.blockID.hash = OtherHash]
    [] f = "commit_bid_pstotal" -> [b EXCEPT !.lastCommit.blockID.pstotal = @ + 1]
    [] f = "sig"             ->
         CASE k = "flag_nil"    -> [b EXCEPT !.lastCommit.sigs[i].flag = "nil"]
           [] k = "flag_absent" -> [b EXCEPT !.lastCommit.sigs[i].flag = "absent"]
           [] k = "ts_inc"      -> [b EXCEPT !.lastCommit.sigs[i].ts = @ + 1]
           [] k = "sig_other"   -> [b EXCEPT !.lastCommit.sigs[i].sig = OtherHash]
           [] OTHER             -> [b EXCEPT !.lastCommit.sigs[i].addr = cx.st.lastVals[op.j].id]
    [] OTHER -> b

Rebuilt(cx, b, op) ==
  LET k == op.k  i == op.i  c == b.lastCommit IN
  CASE k = "txs"             -> Rehash([b EXCEPT !.txs = <<"t8", "t9">>])
    [] k = "sig_absent"      -> Rehash([b EXCEPT !.lastCommit.sigs[i] = AbsentSig])
    [] k = "sig_absent_rt"   -> Retime(cx, Rehash([b EXCEPT !.lastCommit.sigs[i] = AbsentSig]))
    [] k = "sig_nil_unsigned" -> Rehash([b EXCEPT !.lastCommit.sigs[i].flag = "nil"])
    [] k = "sig_nil"         -> Rehash([b EXCEPT !.lastCommit = [c EXCEPT !.sigs[i] =
                                          Resign(cx, [c EXCEPT !.sigs[i].flag = "nil"], i)]])
    [] k = "sig_ts"          -> Rehash([b EXCEPT !.lastCommit.sigs[i].ts = @ + 1])
    [] k = "sig_ts_signed"   -> Rehash([b EXCEPT !.lastCommit = [c EXCEPT !.sigs[i] =
                                          Resign(cx, [c EXCEPT !.sigs[i].ts = @ + 1], i)]])
    [] k = "sig_ts_signed_rt" -> Retime(cx, Rehash([b EXCEPT !.lastCommit = [c EXCEPT !.sigs[i] =
                                          Resign(cx, [c EXCEPT !.sigs[i].ts = @ + 1], i)]]))
    [] k = "sig_bad"         -> Rehash([b EXCEPT !.lastCommit.sigs[i].sig = OtherHash])
    [] k = "sig_addr"        -> Rehash([b EXCEPT !.lastCommit.sigs[i].addr = cx.st.lastVals[op.j].id])
    [] k = "sig_addr_rt"     -> Retime(cx, Rehash([b EXCEPT !.lastCommit.sigs[i].addr = cx.st.lastVals[op.j].id]))
    [] k = "sig_extra"       -> Rehash([b EXCEPT !.lastCommit.sigs = Append(@, AbsentSig)])
    [] k = "sig_fewer"       -> Rehash([b EXCEPT !.lastCommit.sigs = SubSeq(@, 1, Len(@) - 1)])
    [] k = "round"           -> Rehash([b EXCEPT !.lastCommit = ResignAll(cx, [c EXCEPT !.round = @ + 1])])
    [] k = "height_skip"     -> Rehash([b EXCEPT !.height = @ + 1,
                                                  !.lastCommit = ResignAll(cx, [c EXCEPT !.height = @ + 1])])
    [] k = "all_ts_last_rt"  -> Retime(cx, Rehash([b EXCEPT !.lastCommit = ResignAll(cx, [c EXCEPT !.sigs =
                                    [n \in DOMAIN c.sigs |-> IF c.sigs[n].flag = "absent" THEN c.sigs[n]
                                                             ELSE [c.sigs[n] EXCEPT !.ts = cx.st.lastTime]]])]))
    [] k = "ev_valid"        -> Rehash([b EXCEPT !.evidence = Append(@, PertEv(cx, "b"))])
    [] k = "ev_old"          -> Rehash([b EXCEPT !.evidence = Append(@, PertEvAt(cx, cx.st.initialHeight, "o" \o ToString(cx.st.lastHeight)))])
    [] k = "ev_badpower"     -> Rehash([b EXCEPT !.evidence = Append(@, [PertEv(cx, "b") EXCEPT !.vp = @ + 1])])
    [] k = "ev_badtotal"     -> Rehash([b EXCEPT !.evidence = Append(@, [PertEv(cx, "b") EXCEPT !.tvp = @ + 1])])
    [] k = "ev_badsig"       -> Rehash([b EXCEPT !.evidence = Append(@, [PertEv(cx, "b") EXCEPT !.sg = "bad"])])
    [] k = "ev_wrongtime"    -> Rehash([b EXCEPT !.evidence = Append(@, [PertEv(cx, "b") EXCEPT !.ts = @ + 1])])
    [] k = "ev_dup"          -> Rehash([b EXCEPT !.evidence = @ \o <<PertEv(cx, "b"), PertEv(cx, "b")>>])
    [] k = "ev_oversize"     -> Rehash([b EXCEPT !.evidence = @ \o <<PertEv(cx, "b"), PertEv(cx, "c"), PertEv(cx, "d")>>])
    [] k = "ev_committed"    -> Rehash([b EXCEPT !.evidence = Append(@, CHOOSE e \in cx.evc : TRUE)])
    [] k = "initial_commit"  -> Rehash([b EXCEPT !.lastCommit.sigs =
                                   <<[flag |-> "commit", addr |-> cx.st.vals[1].id, ts |-> 1,
                                      sig |-> SigStr(cx.st.vals[1].id, cx.st.chainID, c.height, c.round, c.blockID, 1)]>>])
    [] OTHER -> b

Perturb(cx, b, op) == IF op.f = "R" THEN Rebuilt(cx, b, op) ELSE Single(cx, b, op)

\* ------------------------------------------------------------------ which operations apply to a block
HashFields == {"lastCommitHash", "dataHash", "evidenceHash", "valsHash", "nextValsHash", "consHash", "lastResultsHash"}

Pick(S) == IF AllSigIdx \/ S = {} THEN S
           ELSE {CHOOSE i \in S : \A k \in S : i <= k, CHOOSE i \in S : \A k \in S : i >= k}

SingleOps(cx, b) ==
  LET n  == Len(b.lastCommit.sigs)
      nl == Len(cx.st.lastVals)
      present == Pick({i \in 1..n : b.lastCommit.sigs[i].flag # "absent"}) IN
     {Op("version_block", "inc"), Op("version_app", "inc"), Op("chainID", "other"), Op("chainID", "toolong"),
      Op("height", "inc"), Op("height", "dec"), Op("time", "inc"), Op("time", "dec"), Op("time", "last"), Op("time", "zero"),
      Op("lastBlockID_hash", "other"), Op("lastBlockID_hash", "empty"), Op("lastBlockID_pstotal", "inc"),
      Op("lastBlockID_pshash", "other"), Op("lastBlockID_pshash", "empty"),
      Op("valsHash", "swap"), Op("nextValsHash", "swap"),
      Op("appHash", "other"), Op("appHash", "empty"), Op("appHash", "extend"),
      Op("proposer", "unknown"), Op("proposer", "badlen"), Op("proposer", "empty"),
      Op("txs", "add"),
      Op("commit_height", "inc"), Op("commit_round", "inc"), Op("commit_bid_hash", "other"), Op("commit_bid_pstotal", "inc")}
  \cup {Op(f, k) : f \in HashFields, k \in {"other", "empty", "badlen"}}
  \cup {OpI("proposer", "id", i) : i \in 1..6}
  \cup (IF Len(b.txs) >= 1 THEN {Op("txs", "drop")} ELSE {})
  \cup (IF Len(b.txs) >= 2 THEN {Op("txs", "swap")} ELSE {})
  \cup (IF cx.st.lastHeight >= cx.st.initialHeight THEN {Op("evidence", "add")} ELSE {})
  \cup (IF Len(b.evidence) >= 1 THEN {Op("evidence", "drop")} ELSE {})
  \cup {OpI("sig", k, i) : k \in {"flag_nil", "flag_absent", "ts_inc", "sig_other"}, i \in present}
  \cup UNION {{OpIJ("sig", "addr_other", i, j) : j \in {x \in 1..nl : x = (i % nl) + 1 /\ x # i}} : i \in present}

RebuildOps(cx, b) ==
  LET n  == Len(b.lastCommit.sigs)
      nl == Len(cx.st.lastVals)
      present == Pick({i \in 1..n : b.lastCommit.sigs[i].flag # "absent"})
      forblock == Pick({i \in 1..n : b.lastCommit.sigs[i].flag = "commit"})
      hasPast == cx.st.lastHeight >= cx.st.initialHeight IN
     {Op("R", "txs")}
  \cup {OpI("R", k, i) : k \in {"sig_absent", "sig_absent_rt", "sig_ts", "sig_ts_signed", "sig_ts_signed_rt", "sig_bad"},
                         i \in present}
  \cup {OpI("R", k, i) : k \in {"sig_nil_unsigned", "sig_nil"}, i \in forblock}
  \cup UNION {{OpIJ("R", k, i, j) : k \in {"sig_addr", "sig_addr_rt"}, j \in {x \in 1..nl : x # i /\ (AllSigIdx \/ x = (i % nl) + 1)}} : i \in present}
  \cup (IF n >= 1 THEN {Op("R", "sig_extra"), Op("R", "sig_fewer"), Op("R", "round"), Op("R", "height_skip"), Op("R", "all_ts_last_rt")} ELSE {})
  \cup (IF hasPast THEN {Op("R", k) : k \in {"ev_valid", "ev_badpower", "ev_badtotal", "ev_badsig", "ev_wrongtime",
                                              "ev_dup", "ev_oversize"}} ELSE {})
  \cup (IF cx.st.lastHeight > cx.st.initialHeight THEN {Op("R", "ev_old")} ELSE {})
  \cup (IF cx.evc # {} THEN {Op("R", "ev_committed")} ELSE {})
  \cup (IF b.height = cx.st.initialHeight THEN {Op("R", "initial_commit")} ELSE {})

AllOps(cx, b) == SingleOps(cx, b) \cup RebuildOps(cx, b)

=============================================================================
