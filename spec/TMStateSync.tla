------------------------------ MODULE TMStateSync ------------------------------
(* The state machine of C14 over the step operators of TMStateSyncOps: the applier program
   (one action per lock acquisition / external call), the environment (advertisements,
   peer removal, chunk arrival in any order incl. duplicates, late chunks and chunks from
   rejected peers), the verdict script of the application, the answers of the state
   provider, the fetchers' allocation / request steps, under budgets.                   *)
EXTENDS TMStateSyncOps

CONSTANTS
  Peers,            \* peer ids (strings)
  Snaps,            \* snapshot records [h, f, n, hash, meta] peers may advertise
  Bytes,            \* chunk payloads peers may send
  MaxArrive,        \* budget: chunk arrivals
  MaxBad,           \* budget: non-accept verdicts + provider failures + timeouts
  MaxChurn,         \* budget: AddSnapshot / RemovePeer events
  RefetchChoices,   \* refetch_chunks values the verdict script may use (set of sets of indices)
  RejectChoices,    \* reject_senders values the verdict script may use (set of sets of peers)
  Atomic,           \* TRUE: environment events only while the applier is blocked (replay graph)
  InitPool          \* advertisements received before SyncAny starts (function snapshot -> peers)

\* ================================================================ design state machine
VARIABLES
  pool, bl, sy, q, ft, gh,   \* the fields of S
  bud,                       \* budgets [arr, bad, churn]
  act                        \* the action that produced this state (read by the replay driver)
vars == <<pool, bl, sy, q, ft, gh, bud, act>>
Cur == [pool |-> pool, bl |-> bl, sy |-> sy, q |-> q, ft |-> ft, gh |-> gh]
Install(T) == pool' = T.pool /\ bl' = T.bl /\ sy' = T.sy /\ q' = T.q /\ ft' = T.ft /\ gh' = T.gh

Init ==
  /\ pool = InitPool /\ bl = S0.bl /\ sy = S0.sy /\ q = S0.q /\ ft = S0.ft /\ gh = S0.gh
  /\ bud = [arr |-> 0, bad |-> 0, churn |-> 0]
  /\ act = [name |-> "Init"]

EnvOk == ~Atomic \/ IsBlocked(Cur)
CanBad == bud.bad < MaxBad
Spend(b) == bud' = [bud EXCEPT !.bad = @ + (IF b THEN 1 ELSE 0)]

AddSnapshot(p, s) ==
  /\ EnvOk /\ bud.churn < MaxChurn /\ sy.pc # "end"
  /\ LET r == XAddSnapshot(Cur, p, s) IN
     Install(r.S) /\ act' = [name |-> "AddSnapshot", p |-> p, s |-> s, added |-> r.added]
  /\ bud' = [bud EXCEPT !.churn = @ + 1]

RemovePeer(p) ==
  \* a peer that advertises something, or a rejected peer (disconnects of peers the pool does
  \* not know at all change nothing)
  /\ EnvOk /\ bud.churn < MaxChurn /\ sy.pc # "end" /\ (PeerSnaps(pool, p) # {} \/ p \in gh.rej.peer)
  /\ XRemovePeer(Cur, p) # Cur \/ p \in gh.rej.peer
  /\ Install(XRemovePeer(Cur, p))
  /\ bud' = [bud EXCEPT !.churn = @ + 1]
  /\ act' = [name |-> "RemovePeer", p |-> p]

\* any peer (advertising or not, rejected or not), any index, any time, any bytes; kind
\* "wrongsnap" claims another height, "oob" an index >= chunks
ChunkArrives(p, i, b, kind) ==
  /\ EnvOk /\ bud.arr < MaxArrive /\ sy.pc \notin {"init", "end"}
  /\ bud' = [bud EXCEPT !.arr = @ + 1]
  /\ LET c == [h |-> IF kind = "wrongsnap" THEN sy.cur.h + 7 ELSE sy.cur.h, f |-> sy.cur.f,
               i |-> IF kind = "oob" THEN q.n ELSE i, b |-> b, s |-> p]
         r == XArrive(Cur, c)
     IN Install(r.S) /\ act' = [name |-> "Arrive", p |-> p, i |-> c.i, b |-> b, kind |-> kind, res |-> r.res]

Start ==
  /\ sy.pc = "init"
  /\ sy' = [sy EXCEPT !.pc = "pick"]
  /\ act' = [name |-> "Start"]
  /\ UNCHANGED <<pool, bl, q, ft, gh, bud>>

Internal ==
  /\ sy.pc \in InternalPcs
  /\ \E T \in XInternal(Cur) : Install(T) /\ act' = [name |-> "Int", pc |-> sy.pc, to |-> T.sy.pc]
  /\ UNCHANGED bud

Provider(ans) ==
  /\ sy.pc \in {"apphash", "state", "commit"} /\ (ans = "ok" \/ CanBad)
  /\ Spend(ans # "ok")
  /\ Install(XProvider(Cur, ans))
  /\ act' = [name |-> "Provider", which |-> sy.pc, h |-> sy.cur.h, ans |-> ans]

AppOffer(v) ==
  /\ sy.pc = "offer" /\ (v = "accept" \/ CanBad)
  /\ Spend(v # "accept")
  /\ Install(XOffer(Cur, v))
  /\ act' = [name |-> "AppOffer", s |-> sy.cur, apphash |-> sy.tah, v |-> v]

AppApply(v, rf, rs) ==
  /\ sy.pc = "apply" /\ ((v = "accept" /\ rf = {} /\ rs = {}) \/ CanBad)
  /\ rf \subseteq QIdx(q)
  /\ Spend(~(v = "accept" /\ rf = {} /\ rs = {}))
  /\ Install(XApply(Cur, v, rf, rs))
  /\ act' = [name |-> "AppApply", i |-> sy.ld.i, b |-> sy.ld.b, s |-> sy.ld.s, v |-> v, rf |-> rf, rs |-> rs]

AppInfo(ans) ==
  /\ sy.pc = "verify" /\ (ans = TInfo(sy.cur.h) \/ CanBad)
  /\ Spend(ans # TInfo(sy.cur.h))
  /\ Install(XInfo(Cur, ans))
  /\ act' = [name |-> "AppInfo", ans |-> ans]

Timeout ==
  /\ sy.pc = "wait" /\ CanBad /\ EnvOk
  /\ Spend(TRUE)
  /\ Install(XTimeout(Cur))
  /\ act' = [name |-> "Timeout", i |-> sy.w]

FetcherAllocate ==
  /\ EnvOk /\ ft.live /\ Cardinality(ft.want) < Fetchers /\ AllocUp(q) >= 0
  /\ Install(XFetcherAllocate(Cur))
  /\ act' = [name |-> "FetcherAllocate", i |-> AllocUp(q)]
  /\ UNCHANGED bud

RequestChunk(i, p) ==
  /\ EnvOk /\ ft.live /\ i \in ft.want /\ p \in PeersOf(pool, sy.cur) /\ ~QHas(q, i)
  /\ XRequest(Cur, i, p) # Cur          \* only requests that matter to a property are distinct steps
  /\ Install(XRequest(Cur, i, p))
  /\ act' = [name |-> "RequestChunk", i |-> i, p |-> p]
  /\ UNCHANGED bud

StaleFetch(p) ==
  /\ EnvOk /\ ft.stale > 0 /\ q.open /\ AllocUp(q) >= 0
  /\ p \in PeersOf(pool, sy.cur) \cup {Nil}
  /\ Install(XStaleFetch(Cur, p))
  /\ act' = [name |-> "StaleFetch", i |-> AllocUp(q), p |-> p]
  /\ UNCHANGED bud

Gates ==
  \/ \E a \in SPAnswers : Provider(a)
  \/ \E v \in OfferVerdicts : AppOffer(v)
  \/ \E v \in ApplyVerdicts, rf \in RefetchChoices, rs \in RejectChoices : AppApply(v, rf, rs)
  \/ \E a \in InfoAnswers(sy.cur) : AppInfo(a)
  \/ Timeout
Env ==
  \/ \E p \in Peers, s \in Snaps : AddSnapshot(p, s)
  \/ \E p \in Peers : RemovePeer(p)
  \/ \E p \in Peers, i \in QIdx(q), b \in Bytes : ChunkArrives(p, i, b, "ok")
  \/ \E p \in Peers, k \in {"wrongsnap", "oob"} : ChunkArrives(p, 0, CHOOSE b \in Bytes : TRUE, k)
FetcherSteps ==
  \/ FetcherAllocate
  \/ \E i \in QIdx(q), p \in Peers : RequestChunk(i, p)
  \/ \E p \in Peers \cup {Nil} : StaleFetch(p)

Next == Start \/ Internal \/ Gates \/ Env \/ FetcherSteps
Spec == Init /\ [][Next]_vars

\* ---------------------------------------------------------------- properties
TrustedOnly        == "TrustedOnly" \notin gh.bad
VerifiedBeforeDone == "VerifiedBeforeDone" \notin gh.bad
InOrder            == "InOrder" \notin gh.bad
AsRecorded         == "AsRecorded" \notin gh.bad
RefetchHonoured    == "RefetchHonoured" \notin gh.bad
NeverReused        == "NeverReused" \notin gh.bad
\* S12 (first half): Next never hands a nil chunk to applyChunks
NoNilChunk         == sy.pc # "panic"
\* what the blacklists rest on: nothing rejected is (again) in the pool
PoolClean ==
  /\ DOMAIN pool \cap gh.rej.snap = {}
  /\ \A s \in DOMAIN pool : s.f \notin gh.rej.fmt /\ pool[s] \cap gh.rej.peer = {} /\ pool[s] # {}
\* code blacklists = statement-level rejections
BlacklistExact == bl = gh.rej
\* the queue's returned flags are exactly the validly applied chunks between two chunks
ReturnedIsApplied == sy.pc = "next" => {i \in QIdx(q) : q.e[i].ret} = gh.applied
\* a state/commit is handed to the node only on the "done" outcome
OutcomeShape == gh.out.kind # "done" => gh.out.st = NoState /\ gh.out.cm = NoCommit
\* reachability goals (must be VIOLATED in the goal configs: non-vacuity of the model)
GoalNotDone == gh.out.kind # "done"

View == <<pool, bl, sy, q, ft, gh, bud>>
=============================================================================
