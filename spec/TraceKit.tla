------------------------------ MODULE TraceKit ------------------------------
(* Shared plumbing of all trace specifications (DESIGN.md 4.4).

   A trace is an NDJSON file, one event per line, produced by REAL code.  A trace spec
   walks it line by line (variable l), installs the logged post-state, and accumulates
     drift : lines whose step is not a step of the design spec      (level 1, conformance)
     viol  : lines after which a PROPERTY of the design spec fails on the OBSERVED state
                                                                     (level 2, verdict)
   When the whole file has been consumed the verdict is written with JsonSerialize; the
   runner accepts a validation only if the verdict file exists and n = Len(Trace).     *)
EXTENDS Json, Sequences, Integers, TLC, SequencesExt, FiniteSets

LoadTrace(f) == ndJsonDeserialize(f)

\* {} if cond holds, {rec} otherwise
FailIf(bad, rec) == IF bad THEN {rec} ELSE {}

WriteVerdict(f, n, viol, drift) ==
  JsonSerialize(f, [n |-> n, viol |-> SetToSeq(viol), drift |-> SetToSeq(drift)])
=============================================================================
