--------------------------- MODULE TMConsensusHeightsSys ---------------------------
(* State machine over TMConsensusHeights: ONE real node (Me) and scripted validators over heights
   1..MaxHeight.  The environment (= every other validator and the application) chooses
     - which votes / proposals / blocks of the current height reach the node and when     EnvVote, EnvProposal, EnvBlock
     - late precommits of the previous height (for the decided block, nil, another block,
       another round; also at the initial height where there is no last commit)             EnvLate
     - messages of other heights (future votes, old prevotes, old precommits ...)          EnvOther
     - the validator updates EndBlock(H) returns, from Menu, at the step that commits H    (u of the committing step)
     - timeouts                                                                              Timeout
     - a restart of the node at a height boundary                                           Restart
   The node's own messages go through its internal queue (inq) and keep their height: an own precommit that is
   still queued when the node commits arrives as a LATE precommit.
   Ghosts: sig (what the key signed at the current height), bad (names of properties found violated at the moment
   of signing / restarting).                                                                                    *)
EXTENDS TMConsensusHeights

CONSTANTS
  Genesis,       \* sequence of [a |-> address rank, p |-> power]
  Menu,          \* set of update batches EndBlock may return (sequences of [a, p]; << >> = none)
  MaxHeight,
  EnvValues,     \* blocks the scripted validators can propose / vote for at every height
  SkipChoices,   \* subset of BOOLEAN: values of config.SkipTimeoutCommit to explore
  LateRounds,    \* rounds (besides the commit round) late precommits are tried for
  OtherHeights,  \* BOOLEAN: include the (no-op) EnvOther moves
  AllowRestart,  \* BOOLEAN
  AllowEquiv,    \* BOOLEAN: scripted validators may vote twice in one (type, round)
  EnvBudget,     \* max number of environment vote deliveries per height (0 = unbounded)
  EagerInternal, \* BOOLEAN: while the node's own queue is not empty only it and environment PRECOMMITS (which can overtake the
                 \* node's own precommit, making it a late one) move -- a partial-order reduction for the exhaustive runs
  Bundles        \* BOOLEAN: prevotes of the scripted validators arrive as ONE step per (round, value): a polka or nothing.
                 \* (The node's rules depend on prevotes only through "+2/3 for x" / "+2/3 any"; used by the exhaustive
                 \* configurations, simulation delivers single votes.)

VARIABLES w, inq, sig, bad, act, used
vars == <<w, inq, sig, bad, act, used>>

NoMsg == [t |-> "-", src |-> "-", r |-> -1, v |-> "-", pol |-> -2]
StNewHeight == 1  StPropose == 3  StPrevoteWait == 5  StCommit == 8
Rounds == 0..MaxRound
OwnValue == "B" \o Me
AllValues == EnvValues \cup {OwnValue}

Tag(hh, m) == [hh |-> hh, m |-> m]

\* outputs of a step with the height they were produced at: in a committing step everything after the
\* "sched NewHeight" of finalizeCommit belongs to the new height
SplitAt(out) == IF \E i \in DOMAIN out : out[i].t = "sched" /\ out[i].v = "NewHeight"
                THEN CHOOSE i \in DOMAIN out : out[i].t = "sched" /\ out[i].v = "NewHeight" /\ \A j \in 1..(i - 1) : ~(out[j].t = "sched" /\ out[j].v = "NewHeight")
                ELSE Len(out) + 1
HeightOfOut(w2, i) == IF w2.h = w.h \/ i < SplitAt(w2.s.out) THEN w.h ELSE w2.h

RECURSIVE OutToMsgs(_, _, _)
OutToMsgs(w2, out, i) ==
  IF i > Len(out) THEN << >> ELSE
  LET o == out[i]
      hh == HeightOfOut(w2, i) IN
  IF o.t = "sched" THEN OutToMsgs(w2, out, i + 1)
  ELSE IF o.t = "proposal"
       THEN <<Tag(hh, [t |-> "proposal", src |-> Me, r |-> o.r, v |-> o.v, pol |-> o.pol]),
              Tag(hh, [t |-> "block", src |-> "-", r |-> -1, v |-> o.v, pol |-> -2])>> \o OutToMsgs(w2, out, i + 1)
  ELSE <<Tag(hh, [t |-> o.t, src |-> Me, r |-> o.r, v |-> o.v, pol |-> -2])>> \o OutToMsgs(w2, out, i + 1)

HBy(vs, x) == {p[2] : p \in {q \in vs.by : q[1] = x}}

\* P4 at the moment of signing.  pre: the node record of height w.h with the triggering vote recorded.
SigBad(hh, o, pre, sg) ==
     (IF \E x \in sg : x.h = hh /\ x.t = o.t /\ x.r = o.r /\ (x.v # o.v \/ x.pol # o.pol) THEN {"NoEquivocation"} ELSE {})
  \cup (IF o.t = "precommit" /\ o.v # HNil /\ hh = w.h /\ o.r \in Rounds
           /\ ~RefQuorum(RefAt(w, w.h), HBy(pre.pv[o.r], o.v))
        THEN {"PrecommitJustified"} ELSE {})

RECURSIVE FoldSigs(_, _, _, _, _)
FoldSigs(w2, out, i, pre, acc) ==
  IF i > Len(out) THEN acc
  ELSE LET o == out[i] IN
       IF o.t = "sched" THEN FoldSigs(w2, out, i + 1, pre, acc)
       ELSE LET hh == HeightOfOut(w2, i) IN
            FoldSigs(w2, out, i + 1, pre,
                     [sig |-> acc.sig \cup {[h |-> hh, t |-> o.t, r |-> o.r, v |-> o.v, pol |-> o.pol]},
                      bad |-> acc.bad \cup SigBad(hh, o, pre, acc.sig)])

Init ==
  /\ \E sk \in SkipChoices :
       /\ w = InitWorld(Genesis, sk)
       /\ act = [name |-> "Init", hh |-> 0, m |-> NoMsg, k |-> IF sk THEN "skip" ELSE "noskip", u |-> << >>]
  /\ inq = << >>
  /\ sig = {}
  /\ bad = {}
  /\ used = 0

Install(w2, pre, consume, isEnvVote) ==
  LET f == FoldSigs(w2, w2.s.out, 1, pre, [sig |-> sig, bad |-> bad]) IN
  /\ w' = [w2 EXCEPT !.s.out = << >>]
  /\ sig' = {x \in f.sig : x.h >= w2.h}
  /\ bad' = f.bad
  /\ inq' = (IF consume THEN Tail(inq) ELSE inq) \o OutToMsgs(w2, w2.s.out, 1)
  /\ used' = IF w2.h # w.h THEN 0 ELSE IF isEnvVote THEN used + 1 ELSE used

\* run a step whose result may commit the block of w.h: EndBlock's answer u is chosen only then
Do(name, hh, m, k, F(_), pre, consume, mustChange, isEnvVote) ==
  LET w0 == F(<< >>) IN
  IF w0.h = w.h
  THEN /\ (mustChange => w0 # w)
       /\ act' = [name |-> name, hh |-> hh, m |-> m, k |-> k, u |-> << >>]
       /\ Install(w0, pre, consume, isEnvVote)
  ELSE \E u \in Menu :
       /\ ValidUpdate(w, u)
       /\ act' = [name |-> name, hh |-> hh, m |-> m, k |-> k, u |-> u]
       /\ Install(F(u), pre, consume, isEnvVote)

Live == ~Dead(w) /\ w.h <= MaxHeight
Calm == ~EagerInternal \/ inq = << >>
WithVote(m) == IF m.t \in {"prevote", "precommit"} /\ m.src \in w.cx.V /\ m.r \in Rounds THEN NAddVote(w.cx, w.s, m, m.src) ELSE w.s

EnvVote(t, r, src, v) ==
  /\ Live /\ (EnvBudget = 0 \/ used < EnvBudget)
  /\ ~(Bundles /\ t = "prevote") /\ (t = "prevote" => Calm)
  /\ src \in w.cx.V \ {Me}
  /\ v = OwnValue => w.cx.PS[r + 1] = Me
  /\ AllowEquiv \/ (IF t = "prevote" THEN w.s.pv[r] ELSE w.s.pc[r]).votes[src] = HNone
  /\ LET m == [t |-> t, src |-> src, r |-> r, v |-> v, pol |-> -2] IN
     Do("Deliver", w.h, m, "-", LAMBDA u : HMsg(w, w.h, m, src, u), WithVote(m), FALSE, TRUE, TRUE)

\* all scripted validators of the height prevote v in round r, back to back
RECURSIVE FoldPrevotes(_, _, _, _)
FoldPrevotes(w0, r, v, srcs) ==
  IF srcs = {} THEN w0
  ELSE LET src == CHOOSE x \in srcs : \A y \in srcs : Addr(x) <= Addr(y)
           m == [t |-> "prevote", src |-> src, r |-> r, v |-> v, pol |-> -2]
       IN FoldPrevotes(HMsg(w0, w0.h, m, src, << >>), r, v, srcs \ {src})
RECURSIVE FoldRecord(_, _, _, _)
FoldRecord(s0, r, v, srcs) ==
  IF srcs = {} THEN s0
  ELSE LET src == CHOOSE x \in srcs : TRUE IN
       FoldRecord(NAddVote(w.cx, s0, [t |-> "prevote", src |-> src, r |-> r, v |-> v, pol |-> -2], src), r, v, srcs \ {src})
EnvPolka(r, v) ==
  /\ Live /\ Bundles /\ Calm
  /\ LET srcs == {x \in w.cx.V \ {Me} : w.s.pv[r].votes[x] = HNone} IN
     /\ srcs = w.cx.V \ {Me}
     /\ Do("Polka", w.h, [t |-> "prevote", src |-> "*", r |-> r, v |-> v, pol |-> -2], "-",
           LAMBDA u : FoldPrevotes(w, r, v, srcs), FoldRecord(w.s, r, v, srcs), FALSE, TRUE, FALSE)

EnvProposal(r, v, pol) ==
  /\ Live /\ Calm
  /\ w.cx.PS[r + 1] # Me
  /\ LET m == [t |-> "proposal", src |-> w.cx.PS[r + 1], r |-> r, v |-> v, pol |-> pol] IN
     Do("Deliver", w.h, m, "-", LAMBDA u : HMsg(w, w.h, m, m.src, u), w.s, FALSE, TRUE, FALSE)

EnvBlock(v) ==
  /\ Live /\ Calm
  /\ LET m == [t |-> "block", src |-> "-", r |-> -1, v |-> v, pol |-> -2] IN
     Do("Deliver", w.h, m, "-", LAMBDA u : HMsg(w, w.h, m, Me, u), w.s, FALSE, TRUE, FALSE)

\* a precommit of height w.h - 1 (at the initial height: of "height 0")
EnvLate(src, r, v) ==
  /\ ~Dead(w) /\ Calm
  /\ IF w.lc.nil THEN src \in w.cx.V \ {Me} /\ r = 0 ELSE src \in w.lc.cx.V \ {Me} /\ (r = w.lc.r \/ r \in LateRounds)
  /\ LET m == [t |-> "precommit", src |-> src, r |-> r, v |-> v, pol |-> -2] IN
     Do("Deliver", w.h - 1, m, "-", LAMBDA u : HMsg(w, w.h - 1, m, src, u), w.s, FALSE, TRUE, FALSE)

\* messages of other heights: nothing happens (P5); only their presence in the schedule matters
EnvOther(kind) ==
  /\ OtherHeights /\ Live /\ act.name # "Other"
  /\ act' = [name |-> "Other", hh |-> 0, m |-> NoMsg, k |-> kind, u |-> << >>]
  /\ UNCHANGED <<w, inq, sig, bad, used>>

ProcessInternal ==
  /\ inq # << >> /\ ~Dead(w)
  /\ LET e == Head(inq) IN
     Do("ProcessInternal", e.hh, e.m, "-", LAMBDA u : HMsg(w, e.hh, e.m, Me, u),
        IF e.hh = w.h THEN WithVote(e.m) ELSE w.s, TRUE, FALSE, FALSE)

TimeoutEnabled(x, k) ==
  CASE k = "NewHeight"     -> x.step = StNewHeight
    [] k = "Propose"       -> x.step = StPropose
    [] k = "PrevoteWait"   -> x.step = StPrevoteWait
    [] k = "PrecommitWait" -> x.ttp /\ x.step < StCommit
    [] OTHER -> FALSE

Timeout(k) ==
  /\ Live /\ Calm /\ TimeoutEnabled(w.s, k)
  /\ Do("Timeout", w.h, [NoMsg EXCEPT !.r = w.s.round], k, LAMBDA u : HTimeout(w, w.h, k, w.s.round, u), w.s, FALSE, TRUE, FALSE)

Restart ==
  /\ AllowRestart /\ ~Dead(w) /\ ~w.lc.nil /\ act.name # "Restart"
  /\ inq = << >> /\ w.s = NInit(w.cx)
  /\ LET w2 == HRestart(w) IN
     /\ w' = w2
     /\ bad' = bad \cup (IF P7RestartPreserves(w, w2) THEN {} ELSE {"RestartPreserves"})
     /\ act' = [name |-> "Restart", hh |-> w.h, m |-> NoMsg, k |-> "-", u |-> << >>]
     /\ UNCHANGED <<inq, sig, used>>

LateValuesNow == IF w.lc.nil THEN {HNil, "Z0"} ELSE {HNil, w.lc.vs.maj} \cup (EnvValues \ InvalidValues)

Next ==
  \/ \E t \in {"prevote", "precommit"}, r \in Rounds, src \in Names, v \in AllValues \cup {HNil} : EnvVote(t, r, src, v)
  \/ \E r \in Rounds, v \in AllValues \cup {HNil} : (v = OwnValue => w.cx.PS[r + 1] = Me) /\ EnvPolka(r, v)
  \/ \E r \in Rounds, v \in EnvValues, pol \in -1..(MaxRound - 1) : EnvProposal(r, v, pol)
  \/ \E v \in AllValues : EnvBlock(v)
  \/ \E src \in Names, r \in Rounds, v \in LateValuesNow : EnvLate(src, r, v)
  \/ \E kind \in {"futurevote", "oldprevote", "olderprecommit", "futureproposal", "oldpart", "futuretimeout"} : EnvOther(kind)
  \/ ProcessInternal
  \/ \E k \in {"NewHeight", "Propose", "PrevoteWait", "PrecommitWait"} : Timeout(k)
  \/ Restart

Spec == Init /\ [][Next]_vars

\* ------------------------------------------------------------------ properties
LastCommitValid       == P1LastCommitValid(w)
ValsetSchedule        == P2ValsetSchedule(w)
ProposerDeterministic == P3ProposerDeterministic(w)
RotationNoUpdates     == P3RotationNoUpdates(w)
NoEquivocation        == ~("NoEquivocation" \in bad)
PrecommitJustified    == ~("PrecommitJustified" \in bad)
SkipOnlyWhenAll       == P6SkipOnlyWhenAll(w)
RestartPreserves      == ~("RestartPreserves" \in bad)
NoPanic               == P8NoPanic(w)
\* P1, growth: a "commit" entry of LastCommit never disappears while the height lasts
LastCommitGrows == [][(w'.h = w.h /\ ~w.lc.nil /\ act'.name # "Restart") =>
                        \A v \in w.lc.cx.V : Flag(w.lc.vs, v) = "commit" => Flag(w'.lc.vs, v) = "commit"]_vars
\* P5 as an action property: a delivery of another height that is not a late precommit in step NewHeight changes nothing
OtherHeightsIgnored == [][(act'.name = "Deliver" /\ act'.hh # w.h /\ ~(act'.hh = w.h - 1 /\ act'.m.t = "precommit" /\ w.s.step = StNewHeight))
                            => w' = w]_vars

\* ------------------------------------------------------------------ exploration bias for simulation (ACTION_CONSTRAINT)
\* Uniform random simulation almost never assembles a commit.  This constraint removes environment moves that only hold the
\* height up (votes for rounds the node is not in, precommits without a polka, polkas for something that was not proposed,
\* timeouts that push the node out of the modelled rounds), so that behaviours run through several heights.  It removes
\* behaviours, so nothing is concluded from it: it only selects which behaviours of the spec are replayed on the real node.
CurMaj == w.s.pv[w.s.round].maj
LastScripted == CHOOSE x \in w.cx.V \ {Me} : \A y \in w.cx.V \ {Me} : Addr(y) <= Addr(x)
Honestish ==
  /\ (act'.name = "Polka") => (act'.m.r = w.s.round /\ act'.m.v \notin InvalidValues
                                 /\ (IF w.s.prop.v = HNil \/ w.s.prop.v \in InvalidValues THEN act'.m.v = HNil
                                     ELSE act'.m.v = w.s.prop.v))
  /\ (act'.name = "Deliver" /\ act'.hh = w.h /\ act'.m.t = "precommit") =>
        (act'.m.r = w.s.round /\ (IF CurMaj = HNone THEN FALSE
                                   ELSE act'.m.v = CurMaj \/ (act'.m.v = HNil /\ act'.m.src = LastScripted)))
  /\ (act'.name = "Deliver" /\ act'.hh = w.h /\ act'.m.t = "prevote") => act'.m.r = w.s.round
  /\ (act'.name = "Deliver" /\ act'.hh = w.h /\ act'.m.t = "proposal") =>
        (act'.m.r = w.s.round /\ act'.m.pol = -1 /\ (act'.m.v \in InvalidValues => w.s.round = 0))
  /\ (act'.name = "Timeout" /\ act'.k = "PrecommitWait") => w.s.round < MaxRound
  /\ (act'.name = "Other") => w.s.step = StNewHeight

\* ------------------------------------------------------------------ corridor to the round-skip divergence (P3, FINDINGS)
\* With genesis powers 5/7/2 and EndBlock(1) = {v0: 11}, EndBlock(2) = {v0: 1}, the validator set of height 4 is one on which
\* IncrementProposerPriority(2) and two IncrementProposerPriority(1) elect different proposers for round 2.  The corridor lets
\* the chain run straight to height 4 (Z0 proposed or the node's own block, polka, precommits) and then shows the node +2/3
\* nil prevotes of round 2 while it is in round 0.  Used with Weak = {"RoundSkipSingleIncrement"} (the code as it is): TLC
\* must refute ProposerDeterministic; the counterexample is replayed on the real node.  A corridor removes behaviours: nothing
\* is concluded from "no violation" inside it.
ForcedU(h) == IF h = 1 THEN <<[a |-> 1, p |-> 11]>> ELSE IF h = 2 THEN <<[a |-> 1, p |-> 1]>> ELSE << >>
CorridorSkip ==
  /\ act'.name \in {"Polka", "Deliver", "ProcessInternal", "Timeout"}
  /\ (act'.name = "Timeout") => act'.k = "NewHeight"
  /\ (act'.name = "Deliver") =>
        /\ act'.hh = w.h
        /\ (act'.m.t = "proposal" => (act'.m.r = 0 /\ act'.m.pol = -1 /\ act'.m.v = "Z0" /\ w.s.step = StPropose))
        /\ (act'.m.t = "block" => act'.m.v = "Z0")
        /\ (act'.m.t = "precommit" => (act'.m.r = 0 /\ CurMaj \notin {HNone, HNil} /\ act'.m.v = CurMaj))
  /\ (act'.name = "Polka") =>
        (IF w.h < 4 THEN act'.m.r = 0 /\ act'.m.v # HNil /\ act'.m.v = w.s.propBlock ELSE act'.m.r = 2 /\ act'.m.v = HNil)
  /\ (w'.h # w.h) => act'.u = ForcedU(w.h)

View == <<w, inq, sig, bad, used>>
\* reachability witnesses (must be REFUTED: the model reaches these situations)
NeverLateAdded   == ~(~w.lc.nil /\ w.lc.vs # w.seen)
NeverHeight3     == w.h < 3
NeverValsChanged == w.cx.V = SetNames(VS!NewValidatorSet(Genesis).set) /\ \A n \in w.cx.V : w.cx.P[n] = SetPower(VS!NewValidatorSet(Genesis).set, n)
=============================================================================
