------------------------------ MODULE TMPubSub ------------------------------
(* libs/pubsub/pubsub.go + subscription.go: the pub-sub server behind types.EventBus.

   API side (any goroutine):   Server.Subscribe / SubscribeUnbuffered / Unsubscribe /
                               UnsubscribeAll / PublishWithEvents  -- each checks the
                               mutex-protected registry Server.subscriptions, then puts ONE
                               command on the channel Server.cmds (capacity cmdsCap)
   loop side (one goroutine):  Server.loop takes one command at a time:
                               state.add / state.remove / state.removeClient / state.send
   client side:                reads Subscription.Out(), watches Cancelled()/Err()

   The whole state is ONE record S so that every step is an operator  S -> S'  (or
   [S, res]) which the design Next below and the trace specification
   (trace/TMPubSubTrace.tla) both use.

     S.reg    [client -> set of query ids]   Server.subscriptions  (API-side registry; NOTE
                                             the loop never touches it: a subscription
                                             cancelled with ErrOutOfCapacity stays registered
                                             until the client calls Unsubscribe)
     S.cmds   sequence of commands           Server.cmds
     S.srv    [<<query, client>> -> subscription id, 0 = absent]   state.subscriptions
     S.refc   [query -> reference count]     state.queries[q].refCount
     S.subs   sequence of subscription objects (index = id; objects outlive removal, the
              client keeps the pointer):
                c, q, cap          owner, query id, capacity of out (0 = unbuffered)
                out                content of the channel Subscription.out
                cancelled, err     Cancelled() closed / Err(): "nil" | "Unsubscribed" | "OutOfCapacity"
                recv               GHOST: what the client has taken from Out(), in order
                exp                GHOST: the publications the loop processed while the
                                   subscription was registered and whose events satisfy
                                   ITS query (EvalQE = "TRUE") -- what the property says
                                   it must get; fixed when it is removed
                st                 GHOST: "queued" (command not yet taken) | "live" | "done"
     S.loop   the publication the loop is in the middle of: the queries still to visit
              (Go map iteration: ANY order), the query being served and its clients still
              to serve (ANY order)
     S.npub   publications accepted so far (message ids are 1..npub)
     S.stopped  the loop has taken the shutdown command (Server.OnStop) and has ended

   Query evaluation is the constant operator EvalQE(q, e) \in {"TRUE","FALSE","ERR"};
   the model-checking configs and the trace spec both define it with TMQuery!Matches.

   S5 (DESIGN.md section 8): in the code as found, `send` RETURNS on the first query whose
   Matches fails with an error, so queries later in map order never see the publication.
   The specification describes the repaired loop (the erroring query is skipped, the
   others are served); the behaviour as found is Weak_ErrorAbortsPublish.              *)
EXTENDS Integers, Sequences, FiniteSets, TLC

CONSTANTS
  Clients,                  \* client ids
  NQ,                       \* queries are 1..NQ
  CmdCap,                   \* commands that fit in Server.cmds (an unbuffered channel = 1: the command in flight)
  EvalQE(_, _),             \* query id x event -> "TRUE" | "FALSE" | "ERR"
  Weak_ErrorAbortsPublish,  \* send returns at the first erroring query (the code before the S5 fix)
  Weak_BlockOnFullBuffer,   \* send blocks on a full buffered subscription instead of cancelling it
  Weak_UnsubLeavesQuery,    \* remove(ErrUnsubscribed) cancels but leaves the entry in state.subscriptions
  Weak_DoubleRemoveReleasesForeignRef
                            \* remove for a client that is NOT (any longer) in the query's table still does
                            \* refCount-- and, at 0, deletes the table with the live subscriptions of OTHER
                            \* clients in it (reachable: dropped with ErrOutOfCapacity, then Unsubscribe)

Queries == 1..NQ
Nil == "nil"

IsPrefix(a, b) == Len(a) <= Len(b) /\ SubSeq(b, 1, Len(a)) = a
Front(s) == SubSeq(s, 1, Len(s) - 1)

IdleLoop == [busy |-> FALSE, e |-> 0, m |-> 0, qs |-> {}, q |-> 0, cs |-> {}, blocked |-> FALSE]

InitS == [reg   |-> [c \in Clients |-> {}],
          cmds  |-> << >>,
          srv   |-> [p \in Queries \X Clients |-> 0],
          refc  |-> [q \in Queries |-> 0],
          subs  |-> << >>,
          loop  |-> IdleLoop,
          npub  |-> 0,
          stopped |-> FALSE]

NewSub(c, q, cap) == [c |-> c, q |-> q, cap |-> cap, out |-> << >>, cancelled |-> FALSE, err |-> Nil,
                      recv |-> << >>, exp |-> << >>, st |-> "queued"]
Cmd(op, c, q, sid, e, m) == [op |-> op, c |-> c, q |-> q, sid |-> sid, e |-> e, m |-> m]
NoClient == "-"

\* ---------------------------------------------------------------- API side
\* Each returns [S, res]; res = "WouldBlock" means the caller is parked on the full
\* command channel (its context decides how long) and nothing has happened yet.

\* Server.subscribe
ApiSubscribe(S, c, q, cap) ==
  IF q \in S.reg[c] THEN [S |-> S, res |-> "AlreadySubscribed"]
  ELSE IF Len(S.cmds) >= CmdCap THEN [S |-> S, res |-> "WouldBlock"]
  ELSE LET sid == Len(S.subs) + 1 IN
       [S |-> [S EXCEPT !.subs = Append(@, NewSub(c, q, cap)),
                        !.cmds = Append(@, Cmd("sub", c, q, sid, 0, 0)),
                        !.reg[c] = @ \cup {q}],
        res |-> "ok"]

\* Server.Unsubscribe
ApiUnsubscribe(S, c, q) ==
  IF q \notin S.reg[c] THEN [S |-> S, res |-> "SubscriptionNotFound"]
  ELSE IF Len(S.cmds) >= CmdCap THEN [S |-> S, res |-> "WouldBlock"]
  ELSE [S |-> [S EXCEPT !.cmds = Append(@, Cmd("unsub", c, q, 0, 0, 0)), !.reg[c] = @ \ {q}],
        res |-> "ok"]

\* Server.UnsubscribeAll
ApiUnsubscribeAll(S, c) ==
  IF S.reg[c] = {} THEN [S |-> S, res |-> "SubscriptionNotFound"]
  ELSE IF Len(S.cmds) >= CmdCap THEN [S |-> S, res |-> "WouldBlock"]
  ELSE [S |-> [S EXCEPT !.cmds = Append(@, Cmd("unsuball", c, 0, 0, 0, 0)), !.reg[c] = {}],
        res |-> "ok"]

\* Server.PublishWithEvents
ApiPublish(S, e) ==
  IF Len(S.cmds) >= CmdCap THEN [S |-> S, res |-> "WouldBlock"]
  ELSE [S |-> [S EXCEPT !.cmds = Append(@, Cmd("pub", NoClient, 0, 0, e, S.npub + 1)), !.npub = @ + 1],
        res |-> "ok"]

\* Server.OnStop: `s.cmds <- cmd{op: shutdown}`
ApiStop(S) ==
  IF Len(S.cmds) >= CmdCap THEN [S |-> S, res |-> "WouldBlock"]
  ELSE [S |-> [S EXCEPT !.cmds = Append(@, Cmd("shutdown", NoClient, 0, 0, 0, 0))], res |-> "ok"]

\* ---------------------------------------------------------------- loop side
ClientsOf(S, q) == {c \in Clients : S.srv[<<q, c>>] # 0}
LiveQueries(S)  == {q \in Queries : ClientsOf(S, q) # {}}

\* state.add
Add(S, c, q, sid) ==
  [S EXCEPT !.srv[<<q, c>>] = sid, !.refc[q] = @ + 1, !.subs[sid].st = "live"]

\* state.remove(clientID, qStr, reason): cancel, drop the entry, drop the query when unused
Remove(S, c, q, reason) ==
  LET sid == S.srv[<<q, c>>] IN
  IF sid = 0 THEN
       \* "unknown query" / "client not subscribed to this query": nothing happens.  This is the
       \* case of the Unsubscribe a client sends after the LOOP dropped it with ErrOutOfCapacity
       \* (S.reg still lists the query, S.srv does not: the two legitimately disagree).
       IF Weak_DoubleRemoveReleasesForeignRef /\ S.refc[q] > 0
       THEN IF S.refc[q] = 1
            THEN [S EXCEPT !.refc[q] = 0,
                           !.srv = [p \in Queries \X Clients |-> IF p[1] = q THEN 0 ELSE S.srv[p]]]
            ELSE [S EXCEPT !.refc[q] = @ - 1]
       ELSE S
  ELSE IF Weak_UnsubLeavesQuery /\ reason = "Unsubscribed"
       THEN [S EXCEPT !.subs[sid].cancelled = TRUE, !.subs[sid].err = reason]
       ELSE [S EXCEPT !.subs[sid].cancelled = TRUE, !.subs[sid].err = reason, !.subs[sid].st = "done",
                      !.srv[<<q, c>>] = 0, !.refc[q] = @ - 1]

RECURSIVE RemoveQs(_, _, _)
\* state.removeClient: every query of the client (order irrelevant: the removals commute)
RemoveQs(S, c, qs) ==
  IF qs = {} THEN S
  ELSE LET q == CHOOSE x \in qs : TRUE IN RemoveQs(Remove(S, c, q, "Unsubscribed"), c, qs \ {q})

\* state.removeAll(nil) on shutdown: every subscription is cancelled, WITHOUT a reason
\* (Err() stays nil; rpc/core/events.go reports that as "Tendermint exited")
RemoveAllNil(S) ==
  [S EXCEPT !.subs = [i \in DOMAIN S.subs |->
                        IF S.srv[<<S.subs[i].q, S.subs[i].c>>] = i
                        THEN [S.subs[i] EXCEPT !.cancelled = TRUE, !.st = "done"] ELSE S.subs[i]],
            !.srv = [p \in Queries \X Clients |-> 0],
            !.refc = [q \in Queries |-> 0],
            !.stopped = TRUE]

\* the publication is now being processed: every registered subscription whose OWN query is
\* satisfied must get it (ghost)
Expect(S, e, m) ==
  [S EXCEPT !.subs = [i \in DOMAIN S.subs |->
      \* (deliberately NOT "is in S.srv": a subscription the loop lost track of without
      \*  cancelling it is still owed every matching publication)
      IF S.subs[i].st = "live" /\ ~S.subs[i].cancelled /\ EvalQE(S.subs[i].q, e) = "TRUE"
      THEN [S.subs[i] EXCEPT !.exp = Append(@, m)] ELSE S.subs[i]]]

FinishIfDone(S) ==
  IF S.loop.busy /\ S.loop.q = 0 /\ S.loop.qs = {} THEN [S EXCEPT !.loop = IdleLoop] ELSE S

\* `for cmd := range s.cmds`: take one command
LoopTake(S) ==
  LET cmd == Head(S.cmds)
      T   == [S EXCEPT !.cmds = Tail(@)]
  IN CASE cmd.op = "sub"      -> Add(T, cmd.c, cmd.q, cmd.sid)
       [] cmd.op = "unsub"    -> Remove(T, cmd.c, cmd.q, "Unsubscribed")
       [] cmd.op = "unsuball" -> RemoveQs(T, cmd.c, {q \in Queries : T.srv[<<q, cmd.c>>] # 0})
       [] cmd.op = "shutdown" -> RemoveAllNil(T)
       [] cmd.op = "pub"      ->
            LET U == Expect(T, cmd.e, cmd.m) IN
            FinishIfDone([U EXCEPT !.loop = [busy |-> TRUE, e |-> cmd.e, m |-> cmd.m, qs |-> LiveQueries(U),
                                             q |-> 0, cs |-> {}, blocked |-> FALSE]])

\* state.send, outer loop body: `for qStr, clientSubscriptions := range state.subscriptions`
\* visits query q (any q not yet visited; a query removed meanwhile is not visited)
LoopVisit(S, q) ==
  LET r == EvalQE(q, S.loop.e) IN
  FinishIfDone(
    IF ClientsOf(S, q) = {} THEN [S EXCEPT !.loop.qs = @ \ {q}]
    ELSE IF r = "ERR" THEN
           IF Weak_ErrorAbortsPublish THEN [S EXCEPT !.loop.qs = {}]       \* `return err`
           ELSE [S EXCEPT !.loop.qs = @ \ {q}]                             \* skip this query only
    ELSE IF r = "FALSE" THEN [S EXCEPT !.loop.qs = @ \ {q}]
    ELSE [S EXCEPT !.loop.qs = @ \ {q}, !.loop.q = q, !.loop.cs = ClientsOf(S, q)])

AfterSend(S, c) ==
  LET cs == S.loop.cs \ {c} IN
  FinishIfDone(IF cs = {} THEN [S EXCEPT !.loop.cs = {}, !.loop.q = 0, !.loop.blocked = FALSE]
               ELSE [S EXCEPT !.loop.cs = cs, !.loop.blocked = FALSE])

\* state.send, inner loop body for client c of the current query.
\*   unbuffered:  `subscription.out <- msg` is a rendezvous: it completes when the client
\*                receives, so the message goes straight to recv (LoopSend is then the JOINT
\*                step of loop and client; while the client does not read the loop waits)
\*   buffered:    room -> enqueue; full -> state.remove(clientID, qStr, ErrOutOfCapacity)
LoopSendEnabled(S, c) ==
  LET sid == S.srv[<<S.loop.q, c>>] IN
  sid = 0 \/ S.subs[sid].cap = 0 \/ Len(S.subs[sid].out) < S.subs[sid].cap \/ ~Weak_BlockOnFullBuffer

LoopSend(S, c) ==
  LET q   == S.loop.q
      sid == S.srv[<<q, c>>]
  IN IF sid = 0 THEN AfterSend(S, c)
     ELSE LET s == S.subs[sid] IN
          IF s.cap = 0 THEN AfterSend([S EXCEPT !.subs[sid].recv = Append(@, S.loop.m)], c)
          ELSE IF Len(s.out) < s.cap THEN AfterSend([S EXCEPT !.subs[sid].out = Append(@, S.loop.m)], c)
          ELSE AfterSend(Remove(S, c, q, "OutOfCapacity"), c)

\* the weakened loop parked on a full buffered channel
LoopBlock(S) == [S EXCEPT !.loop.blocked = TRUE]

\* ---------------------------------------------------------------- client side
\* `msg := <-subscription.Out()` on a buffered subscription (allowed after cancellation too)
Consume(S, sid) == [S EXCEPT !.subs[sid].recv = Append(@, Head(S.subs[sid].out)), !.subs[sid].out = Tail(@)]

\* ---------------------------------------------------------------- run the loop to completion
\* (used by the trace spec: the harness observes the server only when the loop is idle;
\*  unbuffered subscriptions are read eagerly).  Orders are picked with CHOOSE: for the
\*  non-weakened loop every order gives the same result.
RECURSIVE RunLoop(_)
RunLoop(S) ==
  IF S.loop.busy THEN
       IF S.loop.q # 0 THEN RunLoop(LoopSend(S, CHOOSE c \in S.loop.cs : TRUE))
       ELSE RunLoop(LoopVisit(S, CHOOSE q \in S.loop.qs : TRUE))
  ELSE IF S.cmds # << >> /\ ~S.stopped THEN RunLoop(LoopTake(S))
  ELSE S

\* ---------------------------------------------------------------- properties (on a state S)
Delivered(s) == s.recv \o s.out

\* ExactDelivery: what a subscription has been handed (taken + still buffered) is exactly
\* the matching publications, in order, once each; the only gap allowed is the single
\* publication the loop is handing out right now, or the one that found the buffer full and
\* ended the subscription with ErrOutOfCapacity.
ExactDeliveryOf(S, i) ==
  LET s == S.subs[i]
      d == Delivered(s)
  IN /\ IsPrefix(d, s.exp)
     /\ Len(s.exp) - Len(d) <= 1
     /\ Len(s.exp) - Len(d) = 1 =>
          \/ s.cancelled /\ s.err = "OutOfCapacity"
          \/ /\ S.loop.busy /\ s.exp[Len(s.exp)] = S.loop.m
             /\ (s.q \in S.loop.qs \/ (s.q = S.loop.q /\ s.c \in S.loop.cs))
ExactDeliveryS(S) == \A i \in DOMAIN S.subs : ExactDeliveryOf(S, i)

\* cancellation is explicit: closed Cancelled() always comes with a reason, and a
\* subscription is out of the loop's tables exactly when it was cancelled
ExplicitCancelS(S) ==
  \A i \in DOMAIN S.subs : LET s == S.subs[i] IN
     /\ s.err # Nil => s.cancelled
     /\ (s.cancelled /\ s.err = Nil) => S.stopped          \* only shutdown cancels without a reason
     /\ s.st = "done" <=> s.cancelled
     /\ s.st = "live" <=> S.srv[<<s.q, s.c>>] = i
     /\ Len(s.out) <= s.cap

RefCountS(S) == \A q \in Queries : S.refc[q] = Cardinality(ClientsOf(S, q))

\* Isolation, step form: a subscription ends only because ITS client unsubscribed or ITS
\* OWN buffer was full when a publication matching ITS query arrived -- never because of
\* another subscription.
IsolationStep(S, T, cmd) ==
  \A i \in DOMAIN S.subs :
     (~S.subs[i].cancelled /\ T.subs[i].cancelled) =>
        LET s == S.subs[i] IN
        \/ /\ T.subs[i].err = "Unsubscribed"
           /\ cmd.op \in {"unsub", "unsuball"} /\ cmd.c = s.c /\ (cmd.op = "unsuball" \/ cmd.q = s.q)
        \/ T.subs[i].err = Nil /\ cmd.op = "shutdown"
        \/ /\ T.subs[i].err = "OutOfCapacity"
           /\ s.cap > 0 /\ Len(s.out) = s.cap
           /\ Len(s.exp) > 0 /\ s.exp[Len(s.exp)] = S.loop.m /\ S.loop.busy

\* Isolation, progress form: the loop never waits for a buffered subscription
NeverBlockedOnBufferedS(S) == ~S.loop.blocked
=============================================================================
