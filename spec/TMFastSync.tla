------------------------------ MODULE TMFastSync ------------------------------
(* The syncing node of blockchain/v0 as a state machine over TMFastSyncOps (see there for
   the value model and the transcription of pool.go / reactor.go / commit verification).

   Environment: peers join (Switch.AddPeer), report a status, answer block requests or stay
   silent.  Honest peers report (1,T) and answer a request for h with C[h].  Liars report
   anything in LiarStatus and answer with any block of LieKinds, a block for a neighbouring
   height, the truth, or nothing -- at most MaxLies lying responses per behaviour (a bound
   of the model, not of the code).  All interleavings of the node's goroutines with the
   environment are explored.                                                          *)
(* Deviations of the code that were observed on real runs, are harmless for the property and
   are NOT actions of this machine (the trace spec TMFastSyncTrace names and tolerates them):
     StaleRedo : bpRequester.redoCh may still hold a redo for an EARLIER incarnation of a peer id;
                 it is honoured after the requester re-picked the re-joined peer, the request is
                 sent twice, the second answer is an "invalid peer" error and the (honest) peer is
                 stopped once more.  Costs a reconnect, nothing else.
     RedoRace  : poolRoutine peeks the pair, verifies, and only then RedoRequest reads the
                 requesters' CURRENT peer ids; a requester that was reset and re-picked in between
                 gets its new, innocent peer stopped.
     TipSlack  : see TipWhenHonest.
     KnownPeers: IsCaughtUp (pool.go) means "within one block of the best peer the node KNOWS of at that
                 moment" (and at least one peer known).  With a low-lying liar as the only known peer
                 the node legitimately hands over at once -- at height 0 if need be -- and consensus
                 catches up from there; Handover below is enabled exactly then.  TipWhenHonest /
                 ReachesTip therefore speak only of hand-overs decided with an honest peer in the pool.
   Repaired defects (old behaviour = Weak_ switch): Weak_SeenCommitUnchecked (S9: the commit stored as
   seen commit was only checked by the early-exit VerifyCommitLight), Weak_StaleMaxPeerHeight (a peer
   that lowers its reported height leaves maxPeerHeight stale for good: IsCaughtUp never holds). *)
EXTENDS TMFastSyncOps

VARIABLES
  sw,       \* peers in the Switch's peer set (connected)
  pool,     \* BlockPool: [h, req, peers, maxH]
  pending,  \* block requests sitting in a peer's inbox: set of [h, p]
  errq,     \* errorsCh: peers to be stopped by the poolRoutine's helper goroutine
  store,    \* block store: Seq of [id, seen, validated]
  st,       \* sm.State of the poolRoutine: [h, lastID]
  applied,  \* blocks executed against the app, in order
  pc,       \* "idle" | "saved"  (between SaveBlock and ApplyBlock)
  handed,   \* "no" | "ok" | "panic"   (SwitchToConsensus)
  lies, joins, nstat, nretry,
  blamed,   \* ghost: peers whose block took part in a failed verification and who have not re-joined since
  act

vars == <<sw, pool, pending, errq, store, st, applied, pc, handed, lies, joins, nstat, nretry, blamed, act>>
View == <<sw, pool, pending, errq, store, st, applied, pc, handed, lies, joins, nstat, nretry, blamed>>

Pows(h) == ValsAt[h]
LastPows(h) == IF h <= 1 THEN << >> ELSE ValsAt[h - 1]

Init ==
  /\ sw = {}
  /\ pool = [h |-> 1, req |-> << >>, peers |-> << >>, maxH |-> 0, np |-> 0]
  /\ pending = {}
  /\ errq = {}
  /\ store = << >>
  /\ st = [h |-> 0, lastID |-> NoBID]
  /\ applied = << >>
  /\ pc = "idle"
  /\ handed = "no"
  /\ lies = 0
  /\ joins = [p \in Peers |-> 0]
  /\ nstat = 0
  /\ nretry = 0
  /\ blamed = {}
  /\ act = [name |-> "Init"]

Running == handed = "no"

\* ------------------------------------------------------------------ environment
\* Switch.addPeer -> BlockchainReactor.AddPeer (the pool learns of the peer at its first status)
Join(p) ==
  /\ Running /\ p \notin sw /\ joins[p] < MaxJoins
  /\ sw' = sw \cup {p}
  /\ joins' = [joins EXCEPT ![p] = @ + 1]
  /\ blamed' = blamed \ {p}
  /\ act' = [name |-> "Join", p |-> p]
  /\ UNCHANGED <<pool, pending, errq, store, st, applied, pc, handed, lies, nstat, nretry>>

\* Receive(StatusResponse) -> pool.SetPeerRange
Status(p, s) ==
  /\ Running /\ p \in sw
  /\ pool' = SetPeerRange(pool, p, s.base, s.height)
  /\ pool' # pool
  /\ IF p \in Honest THEN nstat' = nstat ELSE nstat < MaxStatus /\ nstat' = nstat + 1
  /\ act' = [name |-> "Status", p |-> p, base |-> s.base, height |-> s.height]
  /\ UNCHANGED <<sw, pending, errq, store, st, applied, pc, handed, lies, joins, nretry, blamed>>

StatusOf(p) == IF p \in Honest THEN {[base |-> 1, height |-> T]} ELSE LiarStatus

\* Receive(BlockResponse) -> pool.AddBlock
Deliver(p, h, kind, b) ==
  LET r == AddBlock(pool, p, b) IN
  /\ pool' = r.pool
  /\ errq' = IF r.err THEN errq \cup {p} ELSE errq
  /\ pending' = pending \ {[h |-> h, p |-> p]}
  /\ act' = [name |-> "Response", p |-> p, h |-> h, kind |-> kind, blk |-> b, set |-> r.set, err |-> r.err]

Response(p, h, kind) ==
  /\ Running /\ p \in sw /\ [h |-> h, p |-> p] \in pending
  /\ IF kind = "H"
     THEN /\ h <= T
          /\ Deliver(p, h, kind, CanonBlock(h))
          /\ lies' = lies
     ELSE IF kind = "none"                       \* NoBlockResponse: logged and ignored by v0
     THEN /\ pending' = pending \ {[h |-> h, p |-> p]}
          /\ act' = [name |-> "NoBlock", p |-> p, h |-> h]
          /\ UNCHANGED <<pool, errq, lies>>
     ELSE /\ p \notin Honest /\ lies < MaxLies
          /\ lies' = lies + 1
          /\ IF kind = "heightUp" THEN h + 1 <= T /\ Deliver(p, h, kind, CanonBlock(h + 1))
             ELSE IF kind = "heightDown" THEN h > 1 /\ Deliver(p, h, kind, CanonBlock(h - 1))
             ELSE h <= T + 1 /\ Deliver(p, h, kind, BlockOfKind(kind, h))
  /\ UNCHANGED <<sw, store, st, applied, pc, handed, joins, nstat, nretry, blamed>>

ResponseKinds(p, h) ==
  IF p \in Honest THEN (IF h <= T THEN {"H"} ELSE {"none"})
  ELSE LieKinds \cup (IF h <= T THEN {"H"} ELSE {})

\* bpPeer.onTimeout (peerTimeout elapsed with requests outstanding): only peers that stay silent
Timeout(p) ==
  /\ Running /\ p \notin Honest
  /\ p \in DOMAIN pool.peers /\ ~pool.peers[p].to
  /\ pool.peers[p].np > 0            \* the timer runs while the peer owes blocks (incrPending / decrPending)
  /\ pool' = [pool EXCEPT !.peers[p].to = TRUE]
  /\ errq' = errq \cup {p}
  /\ act' = [name |-> "Timeout", p |-> p]
  /\ UNCHANGED <<sw, pending, store, st, applied, pc, handed, lies, joins, nstat, nretry, blamed>>

\* ------------------------------------------------------------------ node
MakeReq ==
  /\ Running /\ CanMakeRequester(pool) /\ Cardinality(ReqHeights(pool)) < MaxReq
  /\ pool' = MakeRequester(pool)
  /\ act' = [name |-> "MakeRequester", h |-> pool.h + Cardinality(ReqHeights(pool))]
  /\ UNCHANGED <<sw, pending, errq, store, st, applied, pc, handed, lies, joins, nstat, nretry, blamed>>

\* requestRoutine: pick a peer and send the BlockRequest (any eligible peer: map order)
Request(h, p) ==
  /\ Running /\ CanPick(pool, h, p)
  /\ pool' = Pick(pool, h, p)
  /\ pending' = IF p \in sw THEN pending \cup {[h |-> h, p |-> p]} ELSE pending
  /\ act' = [name |-> "Request", h |-> h, p |-> p]
  /\ UNCHANGED <<sw, errq, store, st, applied, pc, handed, lies, joins, nstat, nretry, blamed>>

\* requestRoutine's retry timer (30 s): the requester gives up on its peer and asks again; the request stays
\* in the old peer's inbox (pending), so its answer may arrive after another peer has been asked
RetryTimer(h) ==
  /\ Running /\ nretry < MaxRetry /\ CanRetry(pool, h)
  /\ pool' = Retry(pool, h)
  /\ nretry' = nretry + 1
  /\ act' = [name |-> "Retry", h |-> h, p |-> pool.req[h].peer]
  /\ UNCHANGED <<sw, pending, errq, store, st, applied, pc, handed, lies, joins, nstat, blamed>>

\* Switch.StopPeerForError: peer.Stop, reactor.RemovePeer -> pool.RemovePeer, peer set
StopEffect(poolIn, S) ==
  /\ sw' = sw \ S
  /\ pool' = PoolRemoveAll(poolIn, S)
  /\ pending' = {r \in pending : r.p \notin S}

ErrStop(p) ==
  /\ Running /\ p \in errq
  /\ errq' = errq \ {p}
  /\ StopEffect(pool, {p})
  /\ act' = [name |-> "StopPeer", p |-> p, why |-> "error"]
  /\ UNCHANGED <<store, st, applied, pc, handed, lies, joins, nstat, nretry, blamed>>

\* one didProcessCh iteration with both blocks present
TrySync ==
  /\ Running /\ pc = "idle" /\ HasTwo(pool)
  /\ LET first  == First(pool)
         second == Second(pool)
         ok     == SyncAccepts(st, Pows(first.h), LastPows(first.h), first, second)
         entry  == [blk |-> first, seen |-> second.lc,
                    validated |-> ValidateBlock(st, LastPows(first.h), first)]
     IN IF ok
        THEN /\ pool' = PopRequest(pool)
             /\ store' = IF Len(store) >= first.h THEN store ELSE Append(store, entry)
             /\ pc' = "saved"
             /\ act' = [name |-> "Save", h |-> first.h, id |-> first.uid]
             /\ UNCHANGED <<sw, pending, errq, blamed>>
        ELSE /\ store' = IF Weak_SaveBeforeValidate /\ Len(store) < first.h THEN Append(store, entry) ELSE store
             /\ pc' = pc
             /\ act' = [name |-> "SyncFail", h |-> first.h, stopped |-> FailPeers(pool)]
             \* owed a disconnect: the requesters' owners (whom the code punishes) and the peers that sent the blocks
             /\ blamed' = blamed \cup FailPeers(pool) \cup PairSenders(pool)
             /\ errq' = errq
             /\ IF Weak_NoRedo THEN UNCHANGED <<sw, pool, pending>>
                ELSE StopEffect(pool, FailPeers(pool))
  /\ UNCHANGED <<st, applied, handed, lies, joins, nstat, nretry>>

\* BlockExecutor.ApplyBlock(state, firstID, first)
TrySyncApply ==
  /\ Running /\ pc = "saved"
  /\ LET h == st.h + 1 IN
       /\ st' = [h |-> h, lastID |-> BID(store[h].blk)]
       /\ applied' = Append(applied, store[h].blk)
       /\ act' = [name |-> "Apply", h |-> h, id |-> store[h].blk.uid]
  /\ pc' = "idle"
  /\ UNCHANGED <<sw, pool, pending, errq, store, handed, lies, joins, nstat, nretry, blamed>>

\* switchToConsensusTicker: pool.IsCaughtUp -> conR.SwitchToConsensus(state)
\*   reconstructLastCommit(state): LoadSeenCommit(state.LastBlockHeight), CommitToVoteSet with state.LastValidators
Handover ==
  /\ Running /\ pc = "idle" /\ IsCaughtUp(pool)
  /\ handed' = IF st.h = 0 \/ VoteSetClean(Pows(st.h), store[st.h].seen) THEN "ok" ELSE "panic"
  /\ act' = [name |-> "Handover", h |-> st.h]
  /\ UNCHANGED <<sw, pool, pending, errq, store, st, applied, pc, lies, joins, nstat, nretry, blamed>>

Next ==
  \/ \E p \in Peers : Join(p) \/ Timeout(p) \/ ErrStop(p)
  \/ \E p \in Peers : \E s \in StatusOf(p) : Status(p, s)
  \/ \E r \in pending : \E k \in ResponseKinds(r.p, r.h) : Response(r.p, r.h, k)
  \/ MakeReq
  \/ \E h \in ReqHeights(pool) : RetryTimer(h)
  \/ \E h \in ReqHeights(pool) : \E p \in DOMAIN pool.peers : Request(h, p)
  \/ TrySync \/ TrySyncApply \/ Handover

Spec == Init /\ [][Next]_vars

\* ------------------------------------------------------------------ properties (DESIGN.md section 5, C13)
\* every stored / executed block is the canonical one
OnlyCanonical ==
  /\ \A h \in 1..Len(store) : store[h].blk = CanonBlock(h)
  /\ \A h \in 1..Len(applied) : applied[h] = CanonBlock(h)
\* the commit that admitted h carries valid signatures of > 2/3 of the set prescribed for h
\* over exactly the stored block, and the block passed full validation
CommitCovers == \A h \in 1..Len(store) : Covers(Pows(h), BID(store[h].blk), h, store[h].seen)
FullyValidated == \A h \in 1..Len(store) : store[h].validated
\* nothing is executed that is not stored, in order
AppliedIsStored == Len(applied) <= Len(store) /\ \A h \in 1..Len(applied) : applied[h] = store[h].blk
\* a peer whose block took part in a failed verification is disconnected (and its
\* requesters are free again) until it joins anew
LiarsDropped ==
  /\ blamed \cap sw = {}
  /\ \A h \in ReqHeights(pool) : pool.req[h].peer \notin blamed
\* SwitchToConsensus does not panic
CleanHandover == handed # "panic"
\* stronger: the seen commit of EVERY stored height is one consensus.NewState can load
\* (a node restarted in the middle of the sync runs reconstructLastCommit on it)
SeenCommitsClean == \A h \in 1..Len(store) : VoteSetClean(Pows(h), store[h].seen)
\* hand-over with an honest peer in the pool happens at the tip.  Block T cannot be synced
\* (it needs T+1's LastCommit) and IsCaughtUp compares pool.height -- the NEXT height to
\* sync -- with maxPeerHeight-1, so the code may switch as soon as T-2 is applied and
\* T-1 is still in flight (deliberate slack of the code: TipSlack = 2).
TipSlack == 2
TipWhenHonest ==
  (handed # "no" /\ \E p \in Honest : p \in DOMAIN pool.peers) => st.h >= T - TipSlack
\* the pool's bookkeeping counters count what they claim to count (their consumer:
\* makeRequestersRoutine stops creating requesters at maxPendingRequests -> ReachesTip)
PendingCounterExact == PendingExact(pool) /\ PeerPendingExact(pool)
\* a block is accepted for a height only from the peer currently asked for it (so that the peer punished
\* for a bad block is the peer that sent it)
AcceptOnlyFromAsked == BlockFromAsked(pool)
\* structural
PoolShape ==
  /\ \A h \in ReqHeights(pool) : h >= pool.h /\ h < pool.h + Cardinality(ReqHeights(pool))
  /\ pool.h = Len(store) + 1 \/ (Weak_SaveBeforeValidate /\ pool.h <= Len(store) + 1)
  /\ st.h = Len(applied)
  /\ pc = "idle" => st.h = pool.h - 1
  /\ pool.maxH >= MaxHeightOf(pool.peers)

\* liveness: with an honest peer that keeps (re)joining and answering, the node hands over at the tip
Fairness ==
  /\ WF_vars(MakeReq) /\ WF_vars(TrySync) /\ WF_vars(TrySyncApply) /\ WF_vars(Handover)
  /\ WF_vars(\E h \in ReqHeights(pool) : \E p \in DOMAIN pool.peers : Request(h, p))
  /\ \A p \in Peers : WF_vars(ErrStop(p)) /\ WF_vars(Timeout(p))
  /\ \A p \in Honest : WF_vars(Join(p)) /\ WF_vars(\E s \in StatusOf(p) : Status(p, s))
  /\ \A p \in Honest : WF_vars(\E r \in pending : r.p = p /\ \E k \in ResponseKinds(p, r.h) : Response(p, r.h, k))
LiveSpec == Spec /\ Fairness
ReachesTip == <>(handed = "ok" /\ st.h >= T - TipSlack)
EventuallyHandsOver == <>(handed # "no")

=============================================================================
