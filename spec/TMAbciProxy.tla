---------------------------- MODULE TMAbciProxy ----------------------------
(* proxy/multi_app_conn.go: multiAppConn owns four ABCI clients (query, snapshot, mempool,
   consensus - created and started in this order by OnStart) and a watcher goroutine
   killTMOnClientError that signals the node (tmos.Kill: SIGTERM to the own process) when a
   client terminates with an error.

   OnStart:  for each connection  clientCreator.NewABCIClient ; Start  - on failure
             stopAllClients() and return the error (the clients started so far are stopped);
             after the fourth:  go killTMOnClientError()
   killTMOnClientError: ONE select over the four Quit() channels; for the connection whose
             channel it received from: if Error() # nil then Kill; then the goroutine ends.
   OnStop:   stopAllClients().

   Named deviations of the code from what one might expect:
     Dev_OthersKeepRunning  after an error on one connection multiAppConn does NOT stop the
                            other three clients: it relies on the process being killed
     Dev_FirstQuitOnly      the watcher examines only the first connection it sees terminated;
                            later failures are not signalled (kills <= 1)                  *)
EXTENDS Integers, Sequences, FiniteSets, TLC

CONSTANTS
  Weak_StartFailureLeaksClients,   \* OnStart returns the error without stopAllClients()
  Weak_KillWatchesConsensusOnly,   \* the watcher selects on the consensus client only
  Weak_KillIgnoresError            \* the watcher does not kill (e.g. checks Error() before Quit is closed / inverted test)

Order == <<"query", "snapshot", "mempool", "consensus">>
Conns == {Order[i] : i \in DOMAIN Order}

VARIABLES
  pcm,      \* multiAppConn: "new" | "starting" | "started" | "failed" | "stopped"
  idx,      \* next connection to create
  cst,      \* per connection: "none" | "running" | "stopped" | "errored"
  failAt,   \* connection whose creation/start fails ("none"), chosen by the environment
  watcher,  \* "off" | "on" | "done"
  kills,
  act
vars == <<pcm, idx, cst, failAt, watcher, kills, act>>

Init ==
  /\ pcm = "new" /\ idx = 1 /\ cst = [c \in Conns |-> "none"]
  /\ failAt \in Conns \cup {"none"}
  /\ watcher = "off" /\ kills = 0 /\ act = [name |-> "Init"]

StopAll(s) == [c \in Conns |-> IF s[c] = "running" THEN "stopped" ELSE s[c]]

\* multiAppConn.Start() begins
Start == /\ pcm = "new" /\ pcm' = "starting" /\ act' = [name |-> "Start", failAt |-> failAt]
         /\ UNCHANGED <<idx, cst, failAt, watcher, kills>>

\* abciClientFor(conn): NewABCIClient + Start
StartNext ==
  /\ pcm = "starting" /\ idx <= 4
  /\ LET c == Order[idx] IN
     IF failAt = c
       THEN /\ cst' = IF Weak_StartFailureLeaksClients \/ idx = 1 THEN cst ELSE StopAll(cst)
            /\ pcm' = "failed" /\ UNCHANGED <<idx, watcher>>
       ELSE /\ cst' = [cst EXCEPT ![c] = "running"]
            /\ idx' = idx + 1
            /\ IF idx = 4 THEN pcm' = "started" /\ watcher' = "on" ELSE UNCHANGED <<pcm, watcher>>
  /\ act' = [name |-> "StartNext", conn |-> Order[idx]]
  /\ UNCHANGED <<failAt, kills>>

\* the client of connection c stops itself with an error (application crashed, link broken)
ClientError(c) ==
  /\ pcm = "started" /\ cst[c] = "running"
  /\ cst' = [cst EXCEPT ![c] = "errored"]
  /\ act' = [name |-> "ClientError", conn |-> c]
  /\ UNCHANGED <<pcm, idx, failAt, watcher, kills>>

\* killTMOnClientError: the select fires for a connection whose Quit() is closed
WatcherFire(c) ==
  /\ watcher = "on" /\ cst[c] \in {"stopped", "errored"}
  /\ Weak_KillWatchesConsensusOnly => c = "consensus"
  /\ kills' = IF cst[c] = "errored" /\ ~Weak_KillIgnoresError THEN kills + 1 ELSE kills
  /\ watcher' = "done"
  /\ act' = [name |-> "WatcherFire", conn |-> c]
  /\ UNCHANGED <<pcm, idx, cst, failAt>>

\* multiAppConn.Stop()
Stop ==
  /\ pcm = "started"
  /\ pcm' = "stopped" /\ cst' = StopAll(cst)
  /\ act' = [name |-> "Stop"]
  /\ UNCHANGED <<idx, failAt, watcher, kills>>

Internal == StartNext \/ \E c \in Conns : WatcherFire(c)
Env == Start \/ Stop \/ \E c \in Conns : ClientError(c)
Next == Internal \/ (~ENABLED Internal /\ Env)

\* properties
StartAllOrNothing == /\ pcm = "failed" => \A c \in Conns : cst[c] # "running"
                     /\ (pcm = "started" /\ watcher = "on" /\ \A c \in Conns : cst[c] \notin {"errored", "stopped"})
                           => \A c \in Conns : cst[c] = "running"
StopStopsAll == pcm = "stopped" => \A c \in Conns : cst[c] # "running"
\* while multiAppConn is running, the first client error is signalled to the node
ErrorSignalsNode == (pcm = "started" /\ (\E c \in Conns : cst[c] = "errored") /\ ~ENABLED Internal) => kills >= 1
NoSpuriousKill == kills > 0 => \E c \in Conns : cst[c] = "errored"
ProxyProps == StartAllOrNothing /\ StopStopsAll /\ ErrorSignalsNode /\ NoSpuriousKill
View == <<pcm, idx, cst, failAt, watcher, kills>>
=============================================================================
