----------------------------- MODULE TMBlockChain -----------------------------
(* Histories of a chain as seen by one node's state machinery (state.State, the state
   store, the evidence pool's view) - the design state machine of C06.

   One height = Make (a correct proposer builds the block from its mempool, its evidence
   pool and the precommits it has seen: BlockExecutor.CreateProposalBlock -> State.MakeBlock),
   any number of Perturb (a single-field perturbation, or a Byzantine rebuild, of that
   block is offered to BlockExecutor.ValidateBlock), Apply (BlockExecutor.ApplyBlock with
   the application's responses: validateBlock, updateState, Commit, store.Save,
   evpool.Update).

   Histories are bounded by MaxHeights and by a deviation budget: every choice has a
   default (one transaction, no evidence, everybody signs with increasing honest
   timestamps, the application changes nothing); a history may deviate from the defaults
   at most MaxDev times.  All pairs (triples) of deviations across up to 4 heights are
   thereby covered exhaustively: validator updates need 2-3 heights to reach Validators /
   LastValidators, parameter updates 1.                                                 *)
EXTENDS TMBlockPerturb

CONSTANTS
  MaxHeights,       \* number of blocks in a history
  MaxDev,           \* deviation budget of a history
  GenesisChoices,   \* subset of DOMAIN GenesisTable
  WithPerturb,      \* BOOLEAN: Perturb action enabled (off in the trail-export configuration)
  StrictMedian      \* BOOLEAN: MadeBlocksValid without the exemption of the median-rounding class

VARIABLES cx,      \* [st, hist, evc, store]: state.State + what validation reads besides it
          phase,   \* "idle" | "made" | "failed"
          blk,     \* the block made at this height (phase = "made")
          pblk,    \* the last perturbed block
          mk,      \* the choices Make was called with (needed by MadeBlocksValid's exemption)
          trail,   \* the history as a sequence of choices (what the Go harness replays)
          dev,     \* deviations used
          recov,   \* the next state each recovery variant of the last Apply computes (ApplyVia)
          act
vars == <<cx, phase, blk, pblk, mk, trail, dev, recov, act>>

\* ------------------------------------------------------------------ genesis alphabets
V(id, p) == [id |-> id, power |-> p]
DefaultParams == [maxBytes |-> 20000, maxGas |-> -1, evMaxAgeBlocks |-> 100, evMaxAgeDur |-> 1000000,
                  evMaxBytes |-> 1000, appVersion |-> 0]
GenesisTable ==
  [ g2211 |-> [vals |-> <<V("v1", 2), V("v2", 2), V("v3", 1), V("v4", 1)>>, ih |-> 1, appVer |-> 0],   \* total = 0 mod 3
    g1111 |-> [vals |-> <<V("v1", 1), V("v2", 1), V("v3", 1), V("v4", 1)>>, ih |-> 1, appVer |-> 0],
    g511  |-> [vals |-> <<V("v1", 5), V("v2", 1), V("v3", 1)>>, ih |-> 1, appVer |-> 0],
    g111h |-> [vals |-> <<V("v1", 1), V("v2", 1), V("v3", 1)>>, ih |-> 3, appVer |-> 7],               \* initial height 3; handshake set app version 7
    g1    |-> [vals |-> <<V("v1", 10)>>, ih |-> 1, appVer |-> 0] ]

NoBlock == MakeBlock(GenesisState("none", 1, << >>, DefaultParams, "", 0), << >>, << >>, 0, EmptyCommit, "")
NoMk == [txs |-> << >>, ev |-> "none", proposer |-> "", votes |-> << >>]

InitCx(g) ==
  LET G  == GenesisTable[g]
      st == GenesisState("c1", G.ih, G.vals, DefaultParams, "A0", G.appVer)
  IN [st |-> st, hist |-> << >>, evc |-> {},
      store |-> SaveInfo([vinfo |-> << >>, pinfo |-> << >>], st)]

Init ==
  /\ \E g \in GenesisChoices :
        /\ cx = InitCx(g)
        /\ recov = [v \in ApplyVariants |-> [ok |-> TRUE, st |-> InitCx(g).st]]
        /\ trail = <<[t |-> "genesis", g |-> g]>>
  /\ phase = "idle" /\ blk = NoBlock /\ pblk = NoBlock /\ mk = NoMk /\ dev = 0
  /\ act = [name |-> "Init", op |-> NoOp]

\* ------------------------------------------------------------------ the precommits a proposer has seen
(* votes: one entry per validator of LastValidators, in its order: [flag, ts].
   Honest validators stamp their precommit later than the block's time (consensus
   voteTime(): max(now, block time + iota)); a validator holding less than a third of the
   power may be faulty and stamp anything.                                              *)
\* (the heaviest validator, first in the set, stamps last: weighted and unweighted medians differ)
DefaultVotes(st) == [i \in DOMAIN st.lastVals |-> [flag |-> "commit", ts |-> st.lastTime + 1 + Len(st.lastVals) - i]]

QuorumOK(st, vs) ==
  SumSeq([i \in DOMAIN vs |-> IF vs[i].flag = "commit" THEN st.lastVals[i].power ELSE 0])
     > (TotalPower(st.lastVals) * 2) \div 3

Faulty(st) == {i \in DOMAIN st.lastVals : 3 * st.lastVals[i].power < TotalPower(st.lastVals)}
\* somebody's precommit did not arrive, or was for nil
FlagDevs(st) ==
  LET d == DefaultVotes(st) IN
  {vs \in {[d EXCEPT ![i].flag = f] : i \in DOMAIN d, f \in {"absent", "nil"}} : QuorumOK(st, vs)}
\* ONE faulty validator (< 1/3) stamps an ancient or a far-future time; two honest ones the same time
TsDevs(st, v) ==
     {[v EXCEPT ![i].ts = t] : i \in {k \in Faulty(st) : v[k].flag # "absent"}, t \in {0, st.lastTime + 50}}
  \cup {[v EXCEPT ![i].ts = st.lastTime + 1] : i \in {k \in 1..(Len(v) - 1) : v[k].flag # "absent"}}
VoteDeviations(st)  == FlagDevs(st) \cup TsDevs(st, DefaultVotes(st))
VoteDeviations2(st) == UNION {TsDevs(st, v) : v \in FlagDevs(st)}

\* types.VoteSet.MakeCommit over the chosen precommits
CommitOf(st, vs) ==
  IF st.lastHeight = 0 THEN EmptyCommit
  ELSE [height |-> st.lastHeight, round |-> 0, blockID |-> st.lastBlockID,
        sigs |-> [i \in DOMAIN vs |->
                    IF vs[i].flag = "absent" THEN AbsentSig
                    ELSE [flag |-> vs[i].flag, addr |-> st.lastVals[i].id, ts |-> vs[i].ts,
                          sig |-> SigStr(st.lastVals[i].id, st.chainID, st.lastHeight, 0,
                                         IF vs[i].flag = "commit" THEN st.lastBlockID ELSE ZeroBID, vs[i].ts)]]]

\* ------------------------------------------------------------------ Make
DefaultMk(st) == [txs |-> <<"t1">>, ev |-> "none", proposer |-> st.vals[1].id, votes |-> DefaultVotes(st)]

MkChoices(st, budget) ==
  LET d == DefaultMk(st) IN
     {[c |-> d, cost |-> 0]}
  \cup (IF budget >= 1 THEN
            {[c |-> [d EXCEPT !.txs = x], cost |-> 1] : x \in {<< >>, <<"t1", "t2">>}}
       \cup (IF st.lastHeight >= st.initialHeight THEN {[c |-> [d EXCEPT !.ev = "one"], cost |-> 1]} ELSE {})
       \cup (IF Len(st.vals) > 1 THEN {[c |-> [d EXCEPT !.proposer = st.vals[Len(st.vals)].id], cost |-> 1]} ELSE {})
       \cup (IF st.lastHeight > 0 THEN {[c |-> [d EXCEPT !.votes = v], cost |-> 1] : v \in VoteDeviations(st)} ELSE {})
        ELSE {})
  \cup (IF budget >= 2 /\ st.lastHeight > 0
        THEN {[c |-> [d EXCEPT !.votes = v], cost |-> 2] : v \in VoteDeviations2(st)} ELSE {})

\* evpool.PendingEvidence(Evidence.MaxBytes): only what fits the limit is handed to the proposer
EvOf(c) == IF c.ev = "one" /\ EvUnit <= cx.st.params.evMaxBytes THEN <<PertEv(cx, "a")>> ELSE << >>

Make ==
  /\ phase = "idle"
  /\ cx.st.lastHeight < cx.st.initialHeight + MaxHeights - 1
  /\ \E ch \in MkChoices(cx.st, MaxDev - dev) :
        LET c == ch.c
            evs == EvOf(c) IN
        /\ blk' = MakeBlock(cx.st, c.txs, evs, EvUnit * Len(evs), CommitOf(cx.st, c.votes), c.proposer)
        /\ mk' = c
        /\ dev' = dev + ch.cost
        /\ trail' = Append(trail, [t |-> "make", txs |-> c.txs, ev |-> c.ev, proposer |-> c.proposer, votes |-> c.votes])
  /\ phase' = "made" /\ pblk' = NoBlock
  /\ act' = [name |-> "Make", op |-> NoOp]
  /\ UNCHANGED <<cx, recov>>

\* ------------------------------------------------------------------ Perturb
\* (perturbed blocks are leaves of the graph: the node goes on from the made block)
DoPerturb ==
  /\ WithPerturb
  /\ phase = "made" /\ act.name = "Make"
  /\ \E op \in AllOps(cx, blk) :
        /\ pblk' = Perturb(cx, blk, op)
        /\ act' = [name |-> "Perturb", op |-> op]
  /\ UNCHANGED <<cx, phase, blk, mk, trail, dev, recov>>

\* ------------------------------------------------------------------ Apply
ResultsFor(txs, rc) == [i \in DOMAIN txs |-> [code |-> IF rc = "fail1" /\ i = 1 THEN 1 ELSE 0,
                                              data |-> IF rc = "data" THEN "d" \o ToString(i) ELSE "",
                                              gw |-> 0, gu |-> IF rc = "data" THEN i ELSE 0]]

PU(b, e, v) == [any |-> TRUE, block |-> b, evidence |-> e, version |-> v]
NoB == NoParamUpdate.block
NoE == NoParamUpdate.evidence
NoV == NoParamUpdate.version

DefaultAp(st) == [valUpdates |-> << >>, pu |-> NoParamUpdate, rc |-> "ok", appHash |-> "A" \o ToString(NextHeight(st))]

ApChoices(st, budget) ==
  LET d  == DefaultAp(st)
      nv == st.nextVals
      n  == Len(nv) IN
     {[c |-> d, cost |-> 0]}
  \cup (IF budget >= 1 THEN
            {[c |-> [d EXCEPT !.valUpdates = u], cost |-> 1] :
                u \in    {<<V(nv[1].id, nv[1].power + 1)>>,                         \* power change (re-sorts)
                          <<V("v5", 3)>>,                                          \* a new validator
                          <<V("v6", 0)>>,                                          \* removal of an unknown one: ApplyBlock fails
                          <<V(nv[1].id, nv[1].power)>>}                            \* a no-op update still moves LastHeightValidatorsChanged
                   \cup (IF n > 1 THEN {<<V(nv[n].id, 0)>>, <<V(nv[1].id, 0), V("v5", 1)>>} ELSE {<<V(nv[1].id, 0)>>})}
       \cup {[c |-> [d EXCEPT !.pu = p], cost |-> 1] :
                p \in {PU([has |-> TRUE, maxBytes |-> 30000, maxGas |-> 100], NoE, NoV),
                       PU(NoB, NoE, [has |-> TRUE, app |-> st.params.appVersion + 1]),
                       PU(NoB, [has |-> TRUE, maxAgeBlocks |-> 1, maxAgeDur |-> 1, maxBytes |-> 500], NoV),
                       PU(NoB, NoE, NoV),                                           \* present but empty
                       PU([has |-> TRUE, maxBytes |-> 0, maxGas |-> -1], NoE, NoV)} \* invalid: ApplyBlock fails
            }
       \cup {[c |-> [d EXCEPT !.rc = r], cost |-> 1] : r \in {"fail1", "data"}}
       \cup {[c |-> [d EXCEPT !.appHash = ""], cost |-> 1]}
        ELSE {})

BlockIDOf(b) == [hash |-> "b" \o ToString(b.height), pstotal |-> 1, pshash |-> "ps" \o ToString(b.height)]

Apply ==
  /\ phase = "made" /\ act.name = "Make"
  /\ \E ch \in ApChoices(cx.st, MaxDev - dev) :
        LET c    == ch.c
            resp == [valUpdates |-> c.valUpdates, pu |-> c.pu, results |-> ResultsFor(blk.txs, c.rc), appHash |-> c.appHash]
            valid == ValidBlock(cx, blk)
            r    == NextState(cx.st, blk, BlockIDOf(blk), resp)
            ok   == valid /\ r.ok IN
        /\ dev' = dev + ch.cost
        /\ recov' = [v \in ApplyVariants |-> ApplyVia(cx.st, blk, BlockIDOf(blk), resp, v)]
        /\ trail' = Append(trail, [t |-> "apply", valUpdates |-> c.valUpdates, pu |-> c.pu, rc |-> c.rc, appHash |-> c.appHash])
        /\ IF ok
           THEN /\ cx' = [st |-> r.st,
                          hist |-> (blk.height :> [vals |-> cx.st.vals, time |-> blk.time, upd |-> c.valUpdates,
                                                   pu |-> c.pu, params |-> cx.st.params]) @@ cx.hist,
                          evc |-> cx.evc \cup {blk.evidence[i] : i \in DOMAIN blk.evidence},
                          store |-> SaveInfo(cx.store, r.st)]
                /\ phase' = "idle"
           ELSE /\ cx' = cx /\ phase' = "failed"
        /\ act' = [name |-> "Apply", op |-> NoOp]
  /\ blk' = NoBlock /\ pblk' = NoBlock /\ mk' = NoMk

Next == Make \/ DoPerturb \/ Apply
Spec == Init /\ [][Next]_vars

\* ------------------------------------------------------------------ properties
(* The one input class in which the real proposer's block is refused (finding
   C06-median-rounding): WeightedMedian halves the total by integer division, so with an odd
   signed total T a set of signers holding exactly (T-1)/2 decides the median alone; if those
   are faulty (< 1/3 of the set) and stamp at or before the last block time, the block a
   correct proposer builds has time <= LastBlockTime.                                    *)
MedianRoundingClass(st, votes) ==
  LET es == [i \in DOMAIN votes |-> [ts |-> votes[i].ts,
                                     w |-> IF votes[i].flag = "absent" THEN 0 ELSE st.lastVals[i].power]]
      T  == SumSeq([i \in DOMAIN es |-> es[i].w])
      old == SumSeq([i \in DOMAIN es |-> IF es[i].ts <= st.lastTime THEN es[i].w ELSE 0])
  IN T % 2 = 1 /\ 2 * old = T - 1 /\ old > 0

MadeBlocksValid ==
  (phase = "made" /\ act.name = "Make") => (ValidBlock(cx, blk) \/ (~StrictMedian /\ MedianRoundingClass(cx.st, mk.votes)))

\* The LastCommit of the FIRST block carries no signatures; its Height/Round/BlockID are covered by
\* no hash and no check (Commit.ValidateBasic looks at nothing when Height = 0)
InitialCommitMeta(op, b) ==
  b.height = cx.st.initialHeight /\ op.f \in {"commit_round", "commit_bid_hash", "commit_bid_pstotal"}

\* a single-field perturbation that changes the block is refused, one that does not is accepted; the
\* proposer field is only required to name a validator
PerturbedRejected ==
  (act.name = "Perturb" /\ act.op.f # "R" /\ ValidBlock(cx, blk)) =>
     IF pblk = blk THEN ValidBlock(cx, pblk)
     ELSE IF act.op.f = "proposer" /\ HasAddress(cx.st.vals, pblk.proposer) THEN ValidBlock(cx, pblk)
     ELSE IF InitialCommitMeta(act.op, blk) THEN ValidBlock(cx, pblk)
     ELSE ~ValidBlock(cx, pblk)

\* the deeper conditions decide rebuilt blocks the way the statement lists them
RebuildJudged ==
  (act.name = "Perturb" /\ act.op.f = "R" /\ ValidBlock(cx, blk)) =>
     LET k == act.op.k
         c == pblk.lastCommit
         lv == cx.st.lastVals IN
     /\ k = "txs" => ValidBlock(cx, pblk)
     /\ k \in {"round", "sig_absent_rt", "sig_ts_signed_rt", "sig_nil"} =>
           (ValidBlock(cx, pblk) <=> (Tallied(lv, c) > (TotalPower(lv) * 2) \div 3 /\ pblk.time > cx.st.lastTime))
     /\ k \in {"sig_addr", "sig_addr_rt", "height_skip", "all_ts_last_rt", "sig_nil_unsigned", "sig_ts", "sig_bad", "sig_extra", "sig_fewer", "initial_commit",
               "ev_badpower", "ev_badtotal", "ev_badsig", "ev_wrongtime", "ev_dup", "ev_oversize", "ev_committed"}
           => ~ValidBlock(cx, pblk)
     /\ k \in {"ev_valid", "ev_old"} =>
           (ValidBlock(cx, pblk) <=> (pblk.evBytes <= cx.st.params.evMaxBytes /\ EvidenceOK(cx, pblk.evidence)))
     \* whatever is accepted has the median of its own commit as its time, later than the last block
     /\ ValidBlock(cx, pblk) /\ pblk.height > cx.st.initialHeight =>
           /\ pblk.time = MedianTime(c, lv) /\ pblk.time > cx.st.lastTime
           /\ VerifyCommitOK(lv, cx.st.chainID, cx.st.lastBlockID, cx.st.lastHeight, c)

(* The statement's reading of "weighted median of the previous commit" (signer's power).
   Refuted by the sig_addr_rt rebuilds when Weak_CommitAddrUnchecked (finding C06-commit-sig-address). *)
AcceptedTimeIsSignerWeightedMedian ==
  (act.name = "Perturb" /\ ValidBlock(cx, pblk)) => StatementValid(cx, pblk)

\* the median really is a weighted median of the signed timestamps (up to the rounding of T/2) ...
MedianIsWeightedMedian ==
  (phase = "made" /\ act.name = "Make" /\ blk.height > cx.st.initialHeight) =>
     IsWeightedMedian(MedianTime(blk.lastCommit, cx.st.lastVals), TrueMedianEntries(blk.lastCommit, cx.st.lastVals))
\* ... exactly (refuted for odd totals: the strict config)
MedianIsExactWeightedMedian ==
  (phase = "made" /\ act.name = "Make" /\ blk.height > cx.st.initialHeight) =>
     IsExactWeightedMedian(MedianTime(blk.lastCommit, cx.st.lastVals), TrueMedianEntries(blk.lastCommit, cx.st.lastVals))

\* ---- the same block on the same state gives the same next state whichever way the node applies it:
\* live, or replayed from the responses it stored before a crash (either store mode)
NextStateSame ==
  (act.name = "Apply" /\ phase = "idle") =>
     /\ recov["live"].ok /\ recov["live"].st = cx.st
     /\ \A v1, v2 \in ApplyVariants : recov[v1] = recov[v2]

\* ---- the transition function: delays and bookkeeping
ValsAt(h) == IF h \in DOMAIN cx.hist THEN cx.hist[h].vals
             ELSE IF h = NextHeight(cx.st) THEN cx.st.vals ELSE cx.st.nextVals
ParamsAt(h) == IF h \in DOMAIN cx.hist THEN cx.hist[h].params ELSE cx.st.params
Heights == DOMAIN cx.hist

\* validator updates returned by block h govern block h+2, not h+1
TwoHeightDelay ==
  act.name # "Perturb" => \A h \in Heights :
     /\ ValsAt(h + 2) = ApplyUpdates(ValsAt(h + 1), cx.hist[h].upd).vals
     /\ h = cx.st.initialHeight => ValsAt(h + 1) = ValsAt(h)
\* parameter updates returned by block h govern block h+1
OneHeightDelay ==
  act.name # "Perturb" => \A h \in Heights :
     ParamsAt(h + 1) = IF cx.hist[h].pu.any THEN UpdateParams(ParamsAt(h), cx.hist[h].pu) ELSE ParamsAt(h)

StateWellFormed ==
  LET st == cx.st IN
  act.name # "Perturb" =>
  /\ st.vals # << >> /\ st.nextVals # << >>
  /\ Sorted(st.vals) /\ Sorted(st.nextVals) /\ Sorted(st.lastVals)
  /\ st.lastHeight > 0 => st.lastVals = cx.hist[st.lastHeight].vals
  /\ st.lastHeightValsChanged <= NextHeight(st) + 1
  /\ st.lastHeightParamsChanged <= NextHeight(st)
  /\ st.version.block = BlockProtocol

\* what LoadValidators / LoadConsensusParams return for every height they may be asked for
\* (evidence verification, BeginBlock's LastCommitInfo, light clients) is what governed that height
StoreLookups ==
  act.name # "Perturb" =>
  /\ \A h \in Heights \cup {NextHeight(cx.st), NextHeight(cx.st) + 1} :
        LET r == LookupVals(cx.store, h) IN r.ok /\ r.vals = ValsAt(h)
  /\ \A h \in Heights \cup {NextHeight(cx.st)} :
        LET r == LookupParams(cx.store, h) IN r.ok /\ r.params = ParamsAt(h)

\* ---- size budget of CreateProposalBlock as arithmetic over counts (TMBlockValidity.DataBudget)
SizeCases == [maxBytes : {3000, 20000}, ev : {0, 450, 1200}, nVals : 1..12, nLast : 0..12]
ProposalFits ==
  act.name = "Init" => \A s \in SizeCases :
     LET budget == DataBudget(s.maxBytes, s.ev, s.nVals, s.nLast) IN
     budget >= 0 => BlockBytesUpper(budget, s.ev, s.nLast) <= s.maxBytes

\* ---- export of the histories (trail-export configuration only)
Terminal == phase = "failed" \/ (phase = "idle" /\ cx.st.lastHeight >= cx.st.initialHeight + MaxHeights - 1)
EmitTrail == Terminal => PrintT("TRAIL " \o ToString(trail))

OpT(op) == <<op.f, op.k, op.i, op.j>>
EmitOps == (phase = "made" /\ act.name = "Make") =>
              PrintT("OPS " \o ToString(<<trail, {OpT(o) : o \in AllOps(cx, blk)}>>))
EmitTable == act.name = "Init" =>
              PrintT("TABLE " \o ToString([genesis |-> GenesisTable, params |-> DefaultParams, sizes |-> SizeCases]))

ChainView == <<cx, phase, blk, pblk, mk, dev, recov, act.name, act.op>>
=============================================================================
