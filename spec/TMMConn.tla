------------------------------ MODULE TMMConn ------------------------------
(* The multiplexed connection of p2p/conn/connection.go (MConnection, Channel), as
   operators over values.  No VARIABLES here: the state machine is TMMConnSys.tla, the
   trace specification is trace/TMMConnTrace.tla; both use exactly these operators.

   A connection configuration is a record
       cfg = [chans   : sequence of channel ids, in the order of MConnection.channels,
              qcap    : channel id -> SendQueueCapacity,
              rcap    : channel id -> RecvMessageCapacity,
              payload : MaxPacketMsgPayloadSize,
              slack   : how many data bytes more than `payload` still fit into one packet of
                        at most maxPacketMsgSize() bytes on the wire (a hostile peer is not
                        bound to `payload`; the receiver only bounds the encoded size)]
   A message is a sequence of byte tokens (integers).  Tokens 0 and 1 in first position
   are the two hostile content classes the connection itself can observe:
       0 : onReceive panics           (peer.go onReceive: undecodable / unwrap error /
                                       a reactor that panics inside Receive)
       1 : the reactor stops the peer (Switch.StopPeerForError from inside Receive)
   A packet is a record [t, ch, eof, data]; t \in PacketTypes.                          *)
EXTENDS Integers, Sequences, FiniteSets, TLC

CONSTANTS
  Weak_NoCapacityCheck,    \* recvPacketMsg does not compare len(recving)+len(data) with RecvMessageCapacity
  Weak_EOFIgnored,         \* recvPacketMsg never hands the message over / never clears recving on EOF
  Weak_SharedRecvBuffer,   \* one recving buffer for all channels
  Weak_NoRecover,          \* recvRoutine without `defer c._recover()`
  Weak_EmptyMsgLost        \* Channel.isSendPending tests len(sending)==0 instead of "no message in
                           \* progress": an accepted zero-length message is forgotten when another
                           \* channel is picked first (the behaviour of the unrepaired tree)

Nil == "nil"
MinOf(a, b) == IF a < b THEN a ELSE b
IsPrefixOf(s, t) == Len(s) <= Len(t) /\ SubSeq(t, 1, Len(s)) = s
CS(cfg) == {cfg.chans[i] : i \in DOMAIN cfg.chans}
PacketTypes == {"msg", "ping", "pong", "garbage", "oversize", "emptysum"}

PoisonPanic == 0
PoisonStop  == 1

\* ----------------------------------------------------------------- sending side
\* Channel{sendQueue, sending, sendQueueSize}.  `busy[c]` = a message has been taken from
\* the queue and its last packet has not been produced yet.
NewSender(cfg) ==
  [q       |-> [c \in CS(cfg) |-> << >>],
   sending |-> [c \in CS(cfg) |-> << >>],
   busy    |-> [c \in CS(cfg) |-> FALSE],
   qsize   |-> [c \in CS(cfg) |-> 0]]

\* what Channel.isSendPending uses to decide "nothing in progress"
Busy(s, c) == IF Weak_EmptyMsgLost THEN Len(s.sending[c]) > 0 ELSE s.busy[c]

\* MConnection.Send / TrySend -> Channel.sendBytes / trySendBytes.  A blocking Send that finds
\* the queue full returns false after defaultSendTimeout; TrySend returns false at once:
\* both are the `ok = FALSE` branch.  `up` = c.IsRunning().
Enqueue(cfg, s, up, c, m) ==
  IF ~up \/ c \notin CS(cfg) \/ Len(s.q[c]) >= cfg.qcap[c]
  THEN [s |-> s, ok |-> FALSE]
  ELSE [s |-> [s EXCEPT !.q[c] = Append(@, m), !.qsize[c] = @ + 1], ok |-> TRUE]

\* the loop over c.channels at the head of MConnection.sendPacketMsg: every channel with
\* nothing in progress takes the head of its queue (Channel.isSendPending).  `pend` is the
\* set of channels for which isSendPending returned true.
Pull(cfg, s) ==
  LET pulls == {c \in CS(cfg) : ~Busy(s, c) /\ s.q[c] # << >>} IN
  [s    |-> [s EXCEPT !.sending = [c \in CS(cfg) |-> IF c \in pulls THEN Head(s.q[c]) ELSE s.sending[c]],
                      !.q       = [c \in CS(cfg) |-> IF c \in pulls THEN Tail(s.q[c]) ELSE s.q[c]],
                      !.busy    = [c \in CS(cfg) |-> s.busy[c] \/ c \in pulls]],
   pend |-> {c \in CS(cfg) : Busy(s, c) \/ c \in pulls}]

\* Channel.nextPacketMsg
EmitPacket(cfg, s, c) ==
  LET rem == s.sending[c]
      n   == MinOf(cfg.payload, Len(rem))
      eof == Len(rem) <= cfg.payload
  IN [s   |-> [s EXCEPT !.sending[c] = IF eof THEN << >> ELSE SubSeq(rem, n + 1, Len(rem)),
                        !.busy[c]    = ~eof,
                        !.qsize[c]   = IF eof THEN @ - 1 ELSE @],
      pkt |-> [t |-> "msg", ch |-> c, eof |-> eof, data |-> SubSeq(rem, 1, n)]]

\* MConnection.sendPacketMsg for the channel the code picked (least recentlySent/priority
\* among the pending ones: any pending channel here, a superset)
SendPacketOp(cfg, s, c) == EmitPacket(cfg, Pull(cfg, s).s, c)
SenderIdle(cfg, s) == \A c \in CS(cfg) : s.q[c] = << >> /\ ~s.busy[c] /\ s.sending[c] = << >>

\* the k-th packet stream position of a channel: the packet that must come next on channel c
\* when msgs is the sequence of messages accepted on c, idx the 1-based index of the message
\* being packetised and off the number of its bytes already sent
StreamPacket(cfg, c, msgs, idx, off) ==
  LET m   == msgs[idx]
      rem == Len(m) - off
      n   == MinOf(cfg.payload, rem)
  IN [t |-> "msg", ch |-> c, eof |-> rem <= cfg.payload, data |-> SubSeq(m, off + 1, off + n)]

\* ----------------------------------------------------------------- receiving side
NewReceiver(cfg) ==
  [recving |-> [c \in CS(cfg) |-> << >>],
   hw      |-> [c \in CS(cfg) |-> 0],   \* ghost: most bytes the channel's buffer ever held
   up      |-> TRUE,       \* BaseService running
   err     |-> "none",     \* the reason handed to onError (class)
   nerr    |-> 0,          \* how often onError was called (errored CAS: at most once)
   pong    |-> FALSE,      \* a pong is owed (c.pong has capacity 1, never blocks)
   crashed |-> FALSE]      \* a panic left recvRoutine: the PROCESS is gone

Buf(cfg, c) == IF Weak_SharedRecvBuffer THEN cfg.chans[1] ELSE c
NoOut == [kind |-> "none", ch |-> 0, msg |-> << >>]
StopWith(r, e) == [r EXCEPT !.up = FALSE, !.err = e, !.nerr = IF r.nerr = 0 THEN 1 ELSE r.nerr]

\* what the callback does with a complete message (classes, see the module comment)
OnReceiveClass(m) == IF Len(m) > 0 /\ m[1] = PoisonPanic THEN "panic"
                     ELSE IF Len(m) > 0 /\ m[1] = PoisonStop THEN "stoppeer" ELSE "ok"

\* recvRoutine, one iteration: returns [r |-> r', out |-> NoOut or the delivery].
\* Nothing is read once the connection is down.
RecvPacket(cfg, r, p) ==
  IF ~r.up \/ r.crashed THEN [r |-> r, out |-> NoOut]
  ELSE IF p.t = "ping" THEN [r |-> [r EXCEPT !.pong = TRUE], out |-> NoOut]
  ELSE IF p.t = "pong" THEN [r |-> r, out |-> NoOut]
  ELSE IF p.t # "msg"  THEN [r |-> StopWith(r, "read"), out |-> NoOut]      \* protoReader.ReadMsg error / unknown oneof
  ELSE IF p.ch < 0 \/ p.ch > 255 \/ p.ch \notin CS(cfg)
       THEN [r |-> StopWith(r, "unknown_channel"), out |-> NoOut]
  ELSE LET b   == Buf(cfg, p.ch)
           tot == Len(r.recving[b]) + Len(p.data)
       IN IF ~Weak_NoCapacityCheck /\ cfg.rcap[p.ch] < tot
          THEN [r |-> StopWith(r, "capacity"), out |-> NoOut]
          ELSE LET buf == r.recving[b] \o p.data
                   rh  == [r EXCEPT !.hw[b] = IF Len(buf) > @ THEN Len(buf) ELSE @] IN
               IF p.eof /\ ~Weak_EOFIgnored
               THEN LET r1  == [rh EXCEPT !.recving[b] = << >>]
                        cls == OnReceiveClass(buf)
                        r2  == IF cls = "panic"
                               THEN (IF Weak_NoRecover THEN [r1 EXCEPT !.crashed = TRUE, !.up = FALSE]
                                     ELSE StopWith(r1, "panic"))
                               ELSE IF cls = "stoppeer" THEN [r1 EXCEPT !.up = FALSE, !.err = "reactor"]   \* mconn.Stop(): no onError
                                    ELSE r1
                    IN [r |-> r2, out |-> [kind |-> "deliver", ch |-> p.ch, msg |-> buf]]
               ELSE [r |-> [rh EXCEPT !.recving[b] = buf], out |-> NoOut]

\* ----------------------------------------------------------------- hostile packet alphabet
\* Everything a peer can put on the wire instead of a well-formed packet stream, by class.
HostileData(n, first) == [k \in 1..n |-> IF k = 1 THEN first ELSE 7]
HostileLens(cfg) == {0, 1, cfg.payload, cfg.payload + cfg.slack}
HostileChans(cfg) == CS(cfg) \cup {-1, 99, 256 + cfg.chans[1]}
HostilePackets(cfg) ==
       {[t |-> "msg", ch |-> c, eof |-> e, data |-> HostileData(n, f)] :
            c \in HostileChans(cfg), e \in BOOLEAN, n \in HostileLens(cfg), f \in {PoisonPanic, PoisonStop, 7}}
  \cup {[t |-> k, ch |-> 0, eof |-> FALSE, data |-> << >>] : k \in PacketTypes \ {"msg"}}

\* the reactions the property allows to one hostile packet
AllowedReaction(r0, r1, out) ==
  /\ ~r1.crashed
  /\ r1.nerr <= 1
  /\ (r1.up => r1.err = "none")
  /\ (~r0.up => r1 = r0 /\ out = NoOut)

\* ----------------------------------------------------------------- properties over values
\* the buffer of a channel never holds (held) more than the channel's RecvMessageCapacity
BufferBounded(cfg, r) == \A c \in CS(cfg) : Len(r.recving[c]) <= cfg.rcap[c] /\ r.hw[c] <= cfg.rcap[c]
\* dlv, acc : channel id -> sequence of messages
PrefixDelivered(cfg, dlv, acc) == \A c \in CS(cfg) : IsPrefixOf(dlv[c], acc[c])
QueueSizeExact(cfg, s) == \A c \in CS(cfg) : s.qsize[c] = Len(s.q[c]) + (IF s.busy[c] THEN 1 ELSE 0)
=============================================================================
