----------------------------- MODULE TMMConnSys -----------------------------
(* State machine over TMMConn: a node with several peer connections.

   An HONEST connection has a well-behaved remote sender (MConnection.Send / TrySend from
   any number of goroutines, the sendRoutine packetising one packet at a time from any
   pending channel, ping) and our recvRoutine.  A HOSTILE connection has an adversary
   that writes arbitrary packets (TMMConn!HostilePackets) and our recvRoutine.  All
   recvRoutines live in one process: a panic that leaves one of them ends them all.

   One action per critical section of connection.go:
     Send(k,c,n,z)    Channel.sendBytes / trySendBytes   (queue insert or refusal; z: a zero-length
                      message is passed as a nil slice instead of an empty one)
     SendPacket(k,c)  MConnection.sendPacketMsg          (pull loop + nextPacketMsg + write)
     SendPing(k)      remote sendRoutine, pingTimer case: writes a ping, arms its pong timer
     Inject(k,p)      the adversary writes packet p
     Recv(k)          our recvRoutine, one iteration (ReadMsg, switch, recvPacketMsg, onReceive)
     SendPong(k)      our sendRoutine, c.pong case (the pong travels on the reverse direction)
     RecvPong(k)      remote recvRoutine reads the pong, remote sendRoutine disarms the timer
     PongTimeout(k)   remote sendRoutine, pongTimeoutCh case with timeout = true: "pong timeout",
                      the remote end stops the connection (an environment event: our end was slow)
     NoticeClose(k)   an end whose peer has stopped sees the closed stream and stops too
   The remote end of an honest connection is represented by its sender state (s), its running
   flag (aup) and its pong timer (awaiting); `back` counts pongs in flight towards it.        *)
EXTENDS TMMConn

CONSTANTS
  Cfg,         \* connection configuration (same for all connections)
  Honest,      \* set of honest connection names
  Hostile,     \* set of hostile connection names
  Sizes,       \* message sizes an honest sender may use
  MaxMsgs,     \* messages per (honest connection, channel)
  MaxHostile,  \* packets per hostile connection
  MaxPings     \* pings per honest connection

VARIABLES conn, act
vars == <<conn, act>>
Conns == Honest \cup Hostile

\* message number n (1-based) of channel c: distinct tokens >= 2 everywhere
Msg(c, n, len) == [k \in 1..len |-> 100 * c + 10 * n + k]

NewConn == [s    |-> NewSender(Cfg),
            r    |-> NewReceiver(Cfg),
            wire |-> << >>,                                  \* packets written, not yet read
            acc  |-> [c \in CS(Cfg) |-> << >>],             \* ghost: messages accepted by Send
            dlv  |-> [c \in CS(Cfg) |-> << >>],             \* ghost: messages handed to onReceive
            aup  |-> TRUE,                                   \* remote end running (Send answers false when not)
            awaiting |-> FALSE, back |-> 0, timedout |-> FALSE,
            inj  |-> 0, pings |-> 0, pongs |-> 0]

Init == /\ conn = [k \in Conns |-> NewConn]
        /\ act = [name |-> "Init"]

Alive == \A k \in Conns : ~conn[k].r.crashed

\* A zero-length message can be handed to Send/TrySend in two representations: an empty non-nil
\* slice or a NIL slice.  The caller (adversarial environment) chooses; the design makes no
\* difference between them -- both are the message << >>, accepted, packetised as one empty EOF
\* packet and delivered exactly once.  The choice is recorded in the action label only (it is
\* not state), so every schedule derived from this model carries it to the real code.
ZeroReps(len) == IF len = 0 THEN {FALSE, TRUE} ELSE {FALSE}

Send(k, c, len, nilrep) ==
  /\ Alive /\ k \in Honest
  /\ Len(conn[k].acc[c]) < MaxMsgs
  /\ LET m == Msg(c, Len(conn[k].acc[c]) + 1, len)
         e == Enqueue(Cfg, conn[k].s, conn[k].aup, c, m)
     IN /\ conn' = [conn EXCEPT ![k].s = e.s,
                                ![k].acc[c] = IF e.ok THEN Append(@, m) ELSE @]
        /\ act' = [name |-> "Send", k |-> k, ch |-> c, len |-> len, ok |-> e.ok, nilrep |-> nilrep]

SendPacket(k, c) ==
  /\ Alive /\ k \in Honest
  /\ LET pl == Pull(Cfg, conn[k].s) IN
     /\ c \in pl.pend
     /\ LET e == EmitPacket(Cfg, pl.s, c) IN
        /\ conn' = [conn EXCEPT ![k].s = e.s, ![k].wire = Append(@, e.pkt)]
        /\ act' = [name |-> "SendPacket", k |-> k, ch |-> c, len |-> Len(e.pkt.data), ok |-> e.pkt.eof]

SendPing(k) ==
  /\ Alive /\ k \in Honest /\ conn[k].pings < MaxPings /\ conn[k].aup
  /\ conn' = [conn EXCEPT ![k].wire = Append(@, [t |-> "ping", ch |-> 0, eof |-> FALSE, data |-> << >>]),
                          ![k].pings = @ + 1, ![k].awaiting = TRUE]
  /\ act' = [name |-> "SendPing", k |-> k, ch |-> 0, len |-> 0, ok |-> TRUE]

Inject(k, p) ==
  /\ Alive /\ k \in Hostile /\ conn[k].inj < MaxHostile
  /\ conn' = [conn EXCEPT ![k].wire = Append(@, p), ![k].inj = @ + 1]
  /\ act' = [name |-> "Inject", k |-> k, pkt |-> p]

Recv(k) ==
  /\ Alive /\ conn[k].wire # << >>
  /\ LET x == RecvPacket(Cfg, conn[k].r, Head(conn[k].wire)) IN
     /\ conn' = [conn EXCEPT ![k].r = x.r, ![k].wire = Tail(@),
                             ![k].dlv = IF x.out.kind = "deliver"
                                        THEN [@ EXCEPT ![x.out.ch] = Append(@, x.out.msg)] ELSE @]
     /\ act' = [name |-> "Recv", k |-> k, ch |-> x.out.ch, len |-> Len(x.out.msg), ok |-> x.r.up]

SendPong(k) ==
  /\ Alive /\ conn[k].r.pong /\ conn[k].r.up
  /\ conn' = [conn EXCEPT ![k].r.pong = FALSE, ![k].pongs = @ + 1, ![k].back = @ + 1]
  /\ act' = [name |-> "SendPong", k |-> k, ch |-> 0, len |-> 0, ok |-> TRUE]

RecvPong(k) ==
  /\ Alive /\ k \in Honest /\ conn[k].back > 0 /\ conn[k].aup
  /\ conn' = [conn EXCEPT ![k].back = @ - 1, ![k].awaiting = FALSE]
  /\ act' = [name |-> "RecvPong", k |-> k, ch |-> 0, len |-> 0, ok |-> TRUE]

PongTimeout(k) ==
  /\ Alive /\ k \in Honest /\ conn[k].awaiting /\ conn[k].aup
  /\ conn' = [conn EXCEPT ![k].aup = FALSE, ![k].awaiting = FALSE, ![k].timedout = TRUE]
  /\ act' = [name |-> "PongTimeout", k |-> k, ch |-> 0, len |-> 0, ok |-> FALSE]

\* the stream is closed by the end that stopped; the other end's recvRoutine gets a read error.
\* Our end drops whatever is still unread (conn.Close).
NoticeClose(k) ==
  /\ Alive /\ k \in Honest
  /\ \/ /\ ~conn[k].r.up /\ conn[k].aup
        /\ conn' = [conn EXCEPT ![k].aup = FALSE, ![k].awaiting = FALSE]
     \/ /\ ~conn[k].aup /\ conn[k].r.up /\ conn[k].wire = << >>
        /\ conn' = [conn EXCEPT ![k].r = StopWith(@, "read")]
  /\ act' = [name |-> "NoticeClose", k |-> k, ch |-> 0, len |-> 0, ok |-> FALSE]

Next ==
  \/ \E k \in Honest, c \in CS(Cfg), n \in Sizes : \E z \in ZeroReps(n) : Send(k, c, n, z)
  \/ \E k \in Honest, c \in CS(Cfg) : SendPacket(k, c)
  \/ \E k \in Honest : SendPing(k)
  \/ \E k \in Hostile : \E p \in HostilePackets(Cfg) : Inject(k, p)
  \/ \E k \in Conns : Recv(k) \/ SendPong(k)
  \/ \E k \in Honest : RecvPong(k) \/ PongTimeout(k) \/ NoticeClose(k)

Spec == Init /\ [][Next]_vars

\* ----------------------------------------------------------------- properties
\* While the connection stays up every accepted message is delivered exactly once,
\* unmodified, in per-channel order: what was handed to onReceive is a prefix of what was
\* accepted, and everything was handed over once the connection has drained.
ExactlyOnceInOrder == \A k \in Honest : PrefixDelivered(Cfg, conn[k].dlv, conn[k].acc)
Drained(k) == conn[k].wire = << >> /\ SenderIdle(Cfg, conn[k].s)
DrainedComplete == \A k \in Honest : (Drained(k) /\ conn[k].r.up /\ conn[k].aup) => conn[k].dlv = conn[k].acc
\* a pending message can always be pushed out: no accepted message is stuck on the sender
NoStuckMessage == \A k \in Honest : \A c \in CS(Cfg) :
                     (conn[k].s.q[c] # << >> \/ conn[k].s.qsize[c] > 0) => c \in Pull(Cfg, conn[k].s).pend
BoundedBuffer == \A k \in Conns : BufferBounded(Cfg, conn[k].r)
QueueSize == \A k \in Honest : QueueSizeExact(Cfg, conn[k].s)
\* hostile input only drops that peer
NeverCrashes == Alive
HonestStaysUp == \A k \in Honest :
                    conn[k].r.up \/ conn[k].timedout \/ (\E c \in CS(Cfg) : \E i \in DOMAIN conn[k].acc[c] : Len(conn[k].acc[c][i]) > Cfg.rcap[c])
OnErrorOnce == \A k \in Conns : conn[k].r.nerr <= 1 /\ (conn[k].r.up => conn[k].r.err = "none")
HostileOnlyDrops == NeverCrashes /\ HonestStaysUp /\ OnErrorOnce
\* nothing is read, buffered or delivered on a connection that is down
StoppedIsFinal == [][\A k \in Conns : ~conn[k].r.up =>
                        (conn'[k].r = conn[k].r /\ conn'[k].dlv = conn[k].dlv)]_vars
\* a step on one connection leaves every other connection alone
OthersUnaffected == [][\A k \in Conns : (conn'[k] # conn[k]) => \A j \in Conns \ {k} : conn'[j] = conn[j]]_vars

SysView == conn
=============================================================================
