---------------------------- MODULE TMMempoolLock ----------------------------
(* BlockExecutor.Commit (state/execution.go) against concurrent Mempool.CheckTx calls
   (property C05, last sentence):

     "From the moment a commit is requested until the mempool has been updated and rechecked
      for that block, no check of a new transaction is started or in flight on the mempool
      connection."

   Code modelled:
     state/execution.go  Commit: mempool.Lock(); FlushAppConn(); proxyApp.CommitSync();
                         mempool.Update(...); deferred Unlock()
     mempool/v0/clist_mempool.go  CheckTx under updateMtx.RLock (the ABCI request is issued
                         while the read lock is held), Lock = updateMtx.Lock, Update ->
                         recheckTxs issues every recheck request before returning
     mempool/v1/mempool.go  (named deviation, DESIGN.md section 8 S11) CheckTx holds the lock
                         only for the pre-checks, CheckTxSync runs unlocked; FlushAppConn
                         releases the lock while flushing; Update -> recheckTransactions issues
                         the recheck requests from a goroutine, after Update has returned
     abci/client  local client: a request is executed inside the call (Client = "sync");
                  socket-like client: requests are queued and served in order, FlushSync waits
                  for everything queued before it (Client = "async")
   The consensus connection has its own mutex: Commit can overlap a CheckTx execution unless
   the mempool lock prevents it.

   The window of the property: opened by the Commit REQUEST, closed when mempool.Update has
   returned AND every recheck request of that update has been issued on the connection (the
   connection is FIFO, so anything issued later is executed after the rechecks).           *)
EXTENDS TMMempoolLockObs

CONSTANTS
  Version,      \* "v0" | "v1"
  Client,       \* "sync" | "async"
  Subs,         \* submitter goroutines
  TxPerSub,     \* transactions each of them submits
  Blocks,       \* blocks committed
  Weak_CommitWithoutMempoolLock,
  Weak_NoFlushBeforeCommit

\* ----------------------------------------------------------------------------- the system
VARIABLES
  wlock,    \* the mempool's write lock is held (by the committer)
  readers,  \* submitters holding the read lock (v0)
  cpc,      \* committer pc
  spc,      \* submitter pcs
  cur,      \* the transaction a submitter is working on
  left,     \* transactions a submitter still has to submit
  q,        \* async client: requests queued on the mempool connection
  pool,     \* transactions in the mempool
  todo,     \* v0: recheck requests Update still has to issue; v1: the recheck goroutine's backlog
  blocks,   \* blocks committed
  o,        \* observer
  act
vars == <<wlock, readers, cpc, spc, cur, left, q, pool, todo, blocks, o, act>>

TxId(s, k) == <<s, k>>
Req(kind, id) == [kind |-> kind, id |-> id]
InQ(kind, id) == \E k \in DOMAIN q : q[k] = Req(kind, id)
LockFree == ~wlock /\ readers = {}

Init ==
  /\ wlock = FALSE /\ readers = {} /\ cpc = "idle"
  /\ spc = [s \in Subs |-> "idle"] /\ cur = [s \in Subs |-> 0] /\ left = [s \in Subs |-> TxPerSub]
  /\ q = << >> /\ pool = 0 /\ todo = 0 /\ blocks = 0 /\ o = ObsInit
  /\ act = Ev("Init", "", <<>>, 0)

Emit(e) == /\ o' = Obs(o, e) /\ act' = e
Quiet(name) == /\ o' = o /\ act' = Ev(name, "", <<>>, 0)

\* ---------------------------------------------------------------- committer: BlockExecutor.Commit
C_Lock ==                                   \* blockExec.mempool.Lock()
  /\ cpc = "idle" /\ blocks < Blocks
  /\ IF Weak_CommitWithoutMempoolLock THEN wlock' = wlock ELSE (LockFree /\ wlock' = TRUE)
  /\ cpc' = IF Weak_NoFlushBeforeCommit THEN "commit" ELSE "flush"
  /\ Quiet("Lock")
  /\ UNCHANGED <<readers, spc, cur, left, q, pool, todo, blocks>>

C_FlushStart ==                             \* mempool.FlushAppConn() -> proxyAppConn.FlushSync()
  /\ cpc = "flush"
  /\ cpc' = "flushing"
  /\ q' = IF Client = "async" THEN Append(q, Req("flush", <<>>)) ELSE q
  \* v1 FlushAppConn: txmp.mtx.Unlock(); defer txmp.mtx.Lock()
  /\ wlock' = IF Version = "v1" /\ ~Weak_CommitWithoutMempoolLock THEN FALSE ELSE wlock
  /\ Quiet("FlushStart")
  /\ UNCHANGED <<readers, spc, cur, left, pool, todo, blocks>>

C_FlushEnd ==
  /\ cpc = "flushing"
  /\ ~InQ("flush", <<>>)
  /\ IF Version = "v1" /\ ~Weak_CommitWithoutMempoolLock THEN (LockFree /\ wlock' = TRUE) ELSE wlock' = wlock
  /\ cpc' = "commit"
  /\ Quiet("FlushEnd")
  /\ UNCHANGED <<readers, spc, cur, left, q, pool, todo, blocks>>

C_CommitReq ==                              \* proxyApp.CommitSync(): request on the consensus connection
  /\ cpc = "commit"
  /\ cpc' = "committing"
  /\ Emit(Ev("CommitReq", "", <<>>, 0))
  /\ UNCHANGED <<wlock, readers, spc, cur, left, q, pool, todo, blocks>>

C_CommitRes ==
  /\ cpc = "committing"
  /\ cpc' = "update"
  /\ Quiet("CommitRes")
  /\ UNCHANGED <<wlock, readers, spc, cur, left, q, pool, todo, blocks>>

C_UpdateStart ==                            \* mempool.Update: remove the block's txs, then recheck the rest
  /\ cpc = "update"
  /\ LET rest == IF pool > 0 THEN pool - 1 ELSE 0 IN
     /\ pool' = rest
     /\ todo' = todo + rest                 \* v0: recheckTxs loop; v1: goroutine of recheckTransactions
     /\ cpc' = IF Version = "v0" THEN "rechecking" ELSE "updated"
  /\ Quiet("UpdateStart")
  /\ UNCHANGED <<wlock, readers, spc, cur, left, q, blocks>>

\* issue one recheck request: v0 inside Update (lock held), v1 from the goroutine (any time later)
Recheck ==
  /\ todo > 0
  /\ (Version = "v0" => cpc = "rechecking")
  /\ todo' = todo - 1
  /\ q' = IF Client = "async" THEN Append(q, Req("recheck", <<>>)) ELSE q
  /\ Emit(Ev("CheckIssue", "recheck", <<>>, 0))
  /\ UNCHANGED <<wlock, readers, cpc, spc, cur, left, pool, blocks>>

C_UpdateEnd ==
  /\ \/ cpc = "rechecking" /\ todo = 0
     \/ cpc = "updated"
  /\ cpc' = "unlock"
  /\ Emit(Ev("UpdateEnd", "", <<>>, IF Version = "v0" THEN o.issued ELSE o.issued + todo))
  /\ UNCHANGED <<wlock, readers, spc, cur, left, q, pool, todo, blocks>>

C_Unlock ==                                 \* deferred mempool.Unlock()
  /\ cpc = "unlock"
  /\ cpc' = "idle"
  /\ wlock' = IF Weak_CommitWithoutMempoolLock THEN wlock ELSE FALSE
  /\ blocks' = blocks + 1
  /\ Quiet("Unlock")
  /\ UNCHANGED <<readers, spc, cur, left, q, pool, todo>>

\* ---------------------------------------------------------------- submitters, mempool v0: CListMempool.CheckTx
S0_RLock(s) ==                              \* mem.updateMtx.RLock()
  /\ Version = "v0" /\ spc[s] = "idle" /\ left[s] > 0 /\ ~wlock
  /\ readers' = readers \cup {s}
  /\ spc' = [spc EXCEPT ![s] = "pre"]
  /\ cur' = [cur EXCEPT ![s] = left[s]]
  /\ left' = [left EXCEPT ![s] = left[s] - 1]
  /\ Quiet("RLock")
  /\ UNCHANGED <<wlock, cpc, q, pool, todo, blocks>>

S0_Issue(s) ==                              \* proxyAppConn.CheckTxAsync (read lock still held)
  /\ Version = "v0" /\ spc[s] = "pre"
  /\ q' = IF Client = "async" THEN Append(q, Req("new", TxId(s, cur[s]))) ELSE q
  /\ spc' = [spc EXCEPT ![s] = IF Client = "sync" THEN "exec" ELSE "unl"]
  /\ Emit(Ev("CheckIssue", "new", TxId(s, cur[s]), 0))
  /\ UNCHANGED <<wlock, readers, cpc, cur, left, pool, todo, blocks>>

S0_ExecDone(s) ==                           \* local client: the app answered inside CheckTxAsync
  /\ Version = "v0" /\ spc[s] = "exec"
  /\ pool' = pool + 1
  /\ spc' = [spc EXCEPT ![s] = "unl"]
  /\ Emit(Ev("CheckEnd", "new", TxId(s, cur[s]), 0))
  /\ UNCHANGED <<wlock, readers, cpc, cur, left, q, todo, blocks>>

S0_RUnlock(s) ==
  /\ Version = "v0" /\ spc[s] = "unl"
  /\ readers' = readers \ {s}
  /\ spc' = [spc EXCEPT ![s] = "idle"]
  /\ Quiet("RUnlock")
  /\ UNCHANGED <<wlock, cpc, cur, left, q, pool, todo, blocks>>

\* ---------------------------------------------------------------- submitters, mempool v1: TxMempool.CheckTx
S1_Pre(s) ==                                \* RLock; size/pre-check/cache; RUnlock
  /\ Version = "v1" /\ spc[s] = "idle" /\ left[s] > 0 /\ ~wlock
  /\ spc' = [spc EXCEPT ![s] = "pre"]
  /\ cur' = [cur EXCEPT ![s] = left[s]]
  /\ left' = [left EXCEPT ![s] = left[s] - 1]
  /\ Quiet("PreCheck")
  /\ UNCHANGED <<wlock, readers, cpc, q, pool, todo, blocks>>

S1_Issue(s) ==                              \* proxyAppConn.CheckTxSync with NO lock held
  /\ Version = "v1" /\ spc[s] = "pre"
  /\ q' = IF Client = "async" THEN Append(q, Req("new", TxId(s, cur[s]))) ELSE q
  /\ spc' = [spc EXCEPT ![s] = "wait"]
  /\ Emit(Ev("CheckIssue", "new", TxId(s, cur[s]), 0))
  /\ UNCHANGED <<wlock, readers, cpc, cur, left, pool, todo, blocks>>

S1_ExecDone(s) ==
  /\ Version = "v1" /\ spc[s] = "wait" /\ Client = "sync"
  /\ spc' = [spc EXCEPT ![s] = "add"]
  /\ Emit(Ev("CheckEnd", "new", TxId(s, cur[s]), 0))
  /\ UNCHANGED <<wlock, readers, cpc, cur, left, q, pool, todo, blocks>>

S1_Answered(s) ==                           \* async client: the response arrived
  /\ Version = "v1" /\ spc[s] = "wait" /\ Client = "async" /\ ~InQ("new", TxId(s, cur[s]))
  /\ spc' = [spc EXCEPT ![s] = "add"]
  /\ Quiet("Answered")
  /\ UNCHANGED <<wlock, readers, cpc, cur, left, q, pool, todo, blocks>>

S1_Add(s) ==                                \* addNewTransaction: Lock; insert; Unlock
  /\ Version = "v1" /\ spc[s] = "add" /\ LockFree
  /\ pool' = pool + 1
  /\ spc' = [spc EXCEPT ![s] = "idle"]
  /\ Quiet("Add")
  /\ UNCHANGED <<wlock, readers, cpc, cur, left, q, todo, blocks>>

\* ---------------------------------------------------------------- async client: the connection's server side
Serve ==
  /\ Client = "async" /\ q # << >>
  /\ LET r == Head(q) IN
     /\ q' = Tail(q)
     /\ pool' = IF r.kind = "new" /\ Version = "v0" THEN pool + 1 ELSE pool
     /\ IF r.kind = "flush" THEN Quiet("Flushed") ELSE Emit(Ev("CheckEnd", r.kind, r.id, 0))
  /\ UNCHANGED <<wlock, readers, cpc, spc, cur, left, todo, blocks>>

Finished == /\ blocks = Blocks /\ cpc = "idle" /\ \A s \in Subs : spc[s] = "idle" /\ left[s] = 0
            /\ q = << >> /\ todo = 0
Next ==
  \/ C_Lock \/ C_FlushStart \/ C_FlushEnd \/ C_CommitReq \/ C_CommitRes \/ C_UpdateStart \/ Recheck
  \/ C_UpdateEnd \/ C_Unlock \/ Serve
  \/ \E s \in Subs : S0_RLock(s) \/ S0_Issue(s) \/ S0_ExecDone(s) \/ S0_RUnlock(s)
                     \/ S1_Pre(s) \/ S1_Issue(s) \/ S1_ExecDone(s) \/ S1_Answered(s) \/ S1_Add(s)
  \/ (Finished /\ UNCHANGED vars)

Spec == Init /\ [][Next]_vars

\* ----------------------------------------------------------------------------- properties
NoNewCheckDuringCommit == NoNewCheckAt(o)
\* the lock really is exclusive
LockExclusive == ~(wlock /\ readers # {})
LockView == <<wlock, readers, cpc, spc, cur, left, q, pool, todo, blocks, o>>
=============================================================================
