--------------------------- MODULE TMBlockValidity ---------------------------
(* Block validation, block construction, BFT time and the state transition of
   tendermint v0.34:

     state/validation.go   validateBlock            -> FirstFailure / ValidBlock
     state/execution.go    ValidateBlock            -> + EvidenceOK (evpool.CheckEvidence)
     state/state.go        MakeBlock, MedianTime    -> MakeBlock, MedianTime
     types/time/time.go    WeightedMedian           -> WeightedMedian
     types/validator_set.go VerifyCommit            -> VerifyCommitOK
     types/block.go        Block/Header/Commit/CommitSig.ValidateBasic -> BasicOK
                           MaxDataBytes, MaxCommitBytes               -> MaxDataBytes ...
     state/execution.go    updateState, CreateProposalBlock -> NextState, DataBudget
     types/params.go       UpdateConsensusParams, ValidateConsensusParams, HashConsensusParams
     state/store.go        save / LoadValidators / LoadConsensusParams -> SaveInfo / LookupVals / LookupParams
     evidence/verify.go    verify + VerifyDuplicateVote -> Admissible

   This module has no variables: everything is an operator over values so that the
   design state machine (TMBlockChain) and the trace specification
   (TMBlockValidityTrace) evaluate the SAME definitions, the latter on states and
   blocks observed on the real code.

   Abstraction.  Hashes are canonical strings of their pre-image ("V[v1:2,v2:1]" is the
   hash of that validator set, "EMPTY" the Merkle hash of the empty list which every list
   hash shares, "" the empty byte string, "X.." an unknown 32-byte value, "BAD.." a value
   of a length that types.ValidateHash rejects).  Collision-freedom is assumed.  A
   signature is the canonical string of what was signed and by whom (SigStr); it is valid
   for exactly that signer and payload (unforgeability assumed).  Validator ids are
   ordered like their addresses (the harness names keys by sorted address), an address is
   named by the id of its validator.  Times are integers: nanoseconds after the genesis
   time; ZeroTime is Go's zero time.Time.  Proposer priorities are not modelled
   (TMValSet, C08); the Go side compares complete State.Bytes() of two replicas.        *)
EXTENDS Integers, Sequences, FiniteSets, TLC

CONSTANTS
  Weak_DropLastResultsHash,   \* validateBlock does not compare LastResultsHash
  Weak_DropConsensusHash,     \* ... ConsensusHash
  Weak_DropNextValsHash,      \* ... NextValidatorsHash
  Weak_DropProposerCheck,     \* ... does not require ProposerAddress to be a validator
  Weak_TimeGeq,               \* block time may equal the last block time (>= instead of >)
  Weak_MedianUnweighted,      \* MedianTime ignores voting power
  Weak_ValUpdatesEarly,       \* updateState: EndBlock validator updates take effect one height early
  Weak_ParamsBookkeeping,     \* updateState: LastHeightConsensusParamsChanged := h instead of h+1
  Weak_CommitAddrUnchecked,   \* validateBlock accepts a CommitSig whose ValidatorAddress is not the address of the validator
                              \* at its position (the behaviour before proposed-fixes/C06-commit-sig-address.diff)
  Weak_StoredResponsesDropParamUpdates, \* the crash-recovery record of the ABCI responses written when the store runs with
                              \* DiscardABCIResponses loses EndBlock.ConsensusParamUpdates
  Weak_BudgetUsesCurrentVals  \* CreateProposalBlock sizes the commit with Validators.Size() (S10, the
                              \* behaviour before proposed-fixes/C06-proposal-budget-lastvals.diff)

Nil      == "nil"
ZeroTime == -999999
ZeroBID  == [hash |-> "", pstotal |-> 0, pshash |-> ""]
BlockProtocol == 11                 \* version.BlockProtocol
MaxChainIDLen == 50
MaxBlockSizeBytes == 104857600

\* ------------------------------------------------------------------ little helpers
RECURSIVE SumSeq(_)
SumSeq(s) == IF s = << >> THEN 0 ELSE s[1] + SumSeq(Tail(s))

RECURSIVE JoinStr(_, _)
JoinStr(s, sep) == IF s = << >> THEN ""
                   ELSE IF Len(s) = 1 THEN s[1]
                   ELSE s[1] \o sep \o JoinStr(Tail(s), sep)

MapSeq(s, Op(_)) == [i \in 1..Len(s) |-> Op(s[i])]

StartsWith(s, p) == Len(s) >= Len(p) /\ SubSeq(s, 1, Len(p)) = p
\* types.ValidateHash: empty or tmhash.Size bytes
HashWF(h) == ~StartsWith(h, "BAD")
\* a 20-byte address
AddrWF(a) == a # "" /\ ~StartsWith(a, "BAD")

\* ------------------------------------------------------------------ validator sets
ValOrder == <<"v1", "v2", "v3", "v4", "v5", "v6", "v7", "v8", "v9", "v10", "v11", "v12",
              "v13", "v14", "v15", "v16", "v17", "v18", "v19", "v20", "v21", "v22", "v23", "v24">>
Rank(id) == IF \E i \in DOMAIN ValOrder : ValOrder[i] = id
            THEN CHOOSE i \in DOMAIN ValOrder : ValOrder[i] = id ELSE 99

Ids(vs)         == {vs[i].id : i \in DOMAIN vs}
TotalPower(vs)  == SumSeq([i \in DOMAIN vs |-> vs[i].power])
HasAddress(vs, a) == \E i \in DOMAIN vs : vs[i].id = a
PowerOf(vs, a)  == IF HasAddress(vs, a) THEN vs[CHOOSE i \in DOMAIN vs : vs[i].id = a].power ELSE 0

\* types.ValidatorsByVotingPower: power descending, then address ascending
Before(a, b) == a.power > b.power \/ (a.power = b.power /\ Rank(a.id) < Rank(b.id))
RECURSIVE SortVals(_)
SortVals(S) == IF S = {} THEN << >>
               ELSE LET m == CHOOSE x \in S : \A y \in S \ {x} : Before(x, y)
                    IN <<m>> \o SortVals(S \ {m})
Sorted(vs) == \A i \in 1..(Len(vs) - 1) : Before(vs[i], vs[i + 1])

(* types.ValidatorSet.UpdateWithChangeSet as far as membership and power go
   (processChanges / verifyRemovals / "would result in empty set").  ups is a sequence of
   [id, power]; power 0 removes.  Returns [ok, vals].                                  *)
ApplyUpdates(vs, ups) ==
  LET upIds   == {ups[i].id : i \in DOMAIN ups}
      dup     == \E i, j \in DOMAIN ups : i # j /\ ups[i].id = ups[j].id
      neg     == \E i \in DOMAIN ups : ups[i].power < 0
      dels    == {ups[i].id : i \in {k \in DOMAIN ups : ups[k].power = 0}}
      sets    == {ups[i] : i \in {k \in DOMAIN ups : ups[k].power > 0}}
      badDel  == \E d \in dels : ~HasAddress(vs, d)
      kept    == {vs[i] : i \in {k \in DOMAIN vs : vs[k].id \notin upIds}}
      newSet  == kept \cup sets
  IN IF ups = << >> THEN [ok |-> TRUE, vals |-> vs]
     ELSE IF neg \/ dup \/ badDel \/ newSet = {} THEN [ok |-> FALSE, vals |-> vs]
     ELSE [ok |-> TRUE, vals |-> SortVals(newSet)]

\* ------------------------------------------------------------------ canonical hashes
ValStr(v)    == v.id \o ":" \o ToString(v.power)
ValsHash(vs) == IF vs = << >> THEN "EMPTY" ELSE "V[" \o JoinStr(MapSeq(vs, ValStr), ",") \o "]"

\* types.HashConsensusParams: ONLY Block.MaxBytes and Block.MaxGas are committed to (S19)
ConsHash(p)  == "P[" \o ToString(p.maxBytes) \o "," \o ToString(p.maxGas) \o "]"

DataHash(txs) == IF txs = << >> THEN "EMPTY" ELSE "D[" \o JoinStr(txs, ",") \o "]"

\* types.ABCIResults.Hash over deterministicResponseDeliverTx: code, data, gas wanted/used
ResStr(r)       == ToString(r.code) \o "/" \o r.data \o "/" \o ToString(r.gw) \o "/" \o ToString(r.gu)
ResultsHash(rs) == IF rs = << >> THEN "EMPTY" ELSE "R[" \o JoinStr(MapSeq(rs, ResStr), ",") \o "]"

BIDStr(b) == b.hash \o "#" \o ToString(b.pstotal) \o "#" \o b.pshash
\* types.VoteSignBytes of a precommit: chain id, height, round, block id, timestamp - and the key
SigStr(id, chain, h, r, bid, ts) ==
  "S(" \o id \o "|" \o chain \o "|" \o ToString(h) \o "|" \o ToString(r) \o "|" \o BIDStr(bid) \o "|" \o ToString(ts) \o ")"

\* Commit.Hash covers the CommitSigs only (flag, address, timestamp, signature), NOT height/round/block id
CSStr(s)        == s.flag \o ":" \o s.addr \o ":" \o ToString(s.ts) \o ":" \o s.sig
CommitHash(c)   == IF c.sigs = << >> THEN "EMPTY" ELSE "C[" \o JoinStr(MapSeq(c.sigs, CSStr), ",") \o "]"

\* duplicate-vote evidence: validator, height, time, validator power, total power, tag (which pair of
\* votes), sg ("ok" iff both votes carry valid signatures of val)
EvStr(e)    == "dup:" \o e.val \o ":" \o ToString(e.h) \o ":" \o ToString(e.ts) \o ":" \o ToString(e.vp) \o ":"
               \o ToString(e.tvp) \o ":" \o e.tag \o ":" \o e.sg
EvHash(evs) == IF evs = << >> THEN "EMPTY" ELSE "E[" \o JoinStr(MapSeq(evs, EvStr), ",") \o "]"

AbsentSig == [flag |-> "absent", addr |-> "", ts |-> ZeroTime, sig |-> ""]
EmptyCommit == [height |-> 0, round |-> 0, blockID |-> ZeroBID, sigs |-> << >>]

\* ------------------------------------------------------------------ BFT time
(* types/time.WeightedMedian: median := total / 2 (integer division); entries sorted by time;
   the first entry with  median <= weight  wins, otherwise median -= weight.
   entries: sequence of [ts, w].  Ties in ts: any order gives the same time.           *)
RECURSIVE MedianScan(_, _)
MedianScan(S, median) ==
  IF S = {} THEN ZeroTime
  ELSE LET e == CHOOSE x \in S : \A y \in S : x.ts <= y.ts
       IN IF median <= e.w THEN e.ts ELSE MedianScan(S \ {e}, median - e.w)

\* entries are made distinct by their position k
WeightedMedian(entries, total) ==
  MedianScan({[k |-> i, ts |-> entries[i].ts, w |-> entries[i].w] : i \in DOMAIN entries}, total \div 2)

(* state.MedianTime: every non-absent CommitSig (for the block OR for nil) whose
   ValidatorAddress is found in the validator set counts with the power of THAT ADDRESS
   (lookup by address, not by position).                                               *)
MedianEntries(commit, vals) ==
  LET idx == {i \in DOMAIN commit.sigs : commit.sigs[i].flag # "absent" /\ HasAddress(vals, commit.sigs[i].addr)}
      F[n \in 0..Len(commit.sigs)] ==
        IF n = 0 THEN << >>
        ELSE IF n \in idx
             THEN Append(F[n - 1], [ts |-> commit.sigs[n].ts,
                                    w |-> IF Weak_MedianUnweighted THEN 1 ELSE PowerOf(vals, commit.sigs[n].addr)])
             ELSE F[n - 1]
  IN F[Len(commit.sigs)]

MedianTime(commit, vals) ==
  LET es == MedianEntries(commit, vals)
  IN WeightedMedian(es, SumSeq([i \in DOMAIN es |-> es[i].w]))

(* What the property calls "the weighted median of the previous commit": every signature
   weighs what its SIGNER (the validator at that position, whose key verified it) weighs. *)
TrueMedianEntries(commit, vals) ==
  LET F[n \in 0..Len(commit.sigs)] ==
        IF n = 0 THEN << >>
        ELSE IF n <= Len(vals) /\ commit.sigs[n].flag # "absent"
             THEN Append(F[n - 1], [ts |-> commit.sigs[n].ts, w |-> vals[n].power])
             ELSE F[n - 1]
  IN F[Len(commit.sigs)]
TrueMedianTime(commit, vals) ==
  LET es == TrueMedianEntries(commit, vals)
  IN WeightedMedian(es, SumSeq([i \in DOMAIN es |-> es[i].w]))

\* characterisation of a (lower) weighted median m of entries es with total weight T, up to the
\* rounding of  T / 2 : the weight strictly before m is at most half, the weight strictly after m is
\* at most half (rounded up)
IsWeightedMedian(m, es) ==
  LET T      == SumSeq([i \in DOMAIN es |-> es[i].w])
      below  == SumSeq([i \in DOMAIN es |-> IF es[i].ts < m THEN es[i].w ELSE 0])
      above  == SumSeq([i \in DOMAIN es |-> IF es[i].ts > m THEN es[i].w ELSE 0])
  IN IF es = << >> THEN m = ZeroTime
     ELSE /\ \E i \in DOMAIN es : es[i].ts = m
          /\ 2 * below <= T
          /\ 2 * above <= T + 1
\* without the rounding allowance (what "weighted median" means with exact halves)
IsExactWeightedMedian(m, es) ==
  LET T      == SumSeq([i \in DOMAIN es |-> es[i].w])
      below  == SumSeq([i \in DOMAIN es |-> IF es[i].ts < m THEN es[i].w ELSE 0])
      above  == SumSeq([i \in DOMAIN es |-> IF es[i].ts > m THEN es[i].w ELSE 0])
  IN es # << >> => (\E i \in DOMAIN es : es[i].ts = m) /\ 2 * below <= T /\ 2 * above <= T

\* ------------------------------------------------------------------ VerifyCommit
(* types.ValidatorSet.VerifyCommit(chainID, blockID, height, commit): sizes equal, height and
   block id equal, EVERY non-absent signature verifies under the key at the same POSITION (the
   CommitSig's address is not looked at), power of the for-block signatures > 2/3 total. *)
SigOK(vals, chain, commit, i) ==
  LET s == commit.sigs[i] IN
  s.flag = "absent" \/
  s.sig = SigStr(vals[i].id, chain, commit.height, commit.round,
                 IF s.flag = "commit" THEN commit.blockID ELSE ZeroBID, s.ts)

Tallied(vals, commit) ==
  SumSeq([i \in DOMAIN commit.sigs |-> IF commit.sigs[i].flag = "commit" /\ i <= Len(vals) THEN vals[i].power ELSE 0])

VerifyCommitOK(vals, chain, bid, height, commit) ==
  /\ Len(vals) = Len(commit.sigs)
  /\ height = commit.height
  /\ bid = commit.blockID
  /\ \A i \in DOMAIN commit.sigs : SigOK(vals, chain, commit, i)
  /\ Tallied(vals, commit) > (TotalPower(vals) * 2) \div 3

\* ------------------------------------------------------------------ ValidateBasic
BIDBasic(b) == HashWF(b.hash) /\ HashWF(b.pshash)
BIDIsZero(b) == b.hash = "" /\ b.pstotal = 0 /\ b.pshash = ""

CommitSigBasic(s) ==
  /\ s.flag \in {"absent", "commit", "nil"}
  /\ IF s.flag = "absent" THEN s.addr = "" /\ s.ts = ZeroTime /\ s.sig = ""
     ELSE AddrWF(s.addr) /\ s.sig # "" /\ ~StartsWith(s.sig, "BAD")

CommitBasic(c) ==
  /\ c.height >= 0 /\ c.round >= 0
  /\ c.height >= 1 => /\ ~BIDIsZero(c.blockID)
                      /\ c.sigs # << >>
                      /\ \A i \in DOMAIN c.sigs : CommitSigBasic(c.sigs[i])

HeaderBasic(b) ==
  /\ b.version.block = BlockProtocol
  /\ Len(b.chainID) <= MaxChainIDLen
  /\ b.height > 0
  /\ BIDBasic(b.lastBlockID)
  /\ HashWF(b.lastCommitHash) /\ HashWF(b.dataHash) /\ HashWF(b.evidenceHash)
  /\ AddrWF(b.proposer)
  /\ HashWF(b.valsHash) /\ HashWF(b.nextValsHash) /\ HashWF(b.consHash) /\ HashWF(b.lastResultsHash)

\* types.Block.ValidateBasic (also run by BlockFromProto on everything that arrives from a peer)
BasicOK(b) ==
  /\ HeaderBasic(b)
  /\ BIDBasic(b.lastCommit.blockID)
  /\ CommitBasic(b.lastCommit)
  /\ b.lastCommitHash = CommitHash(b.lastCommit)
  /\ b.dataHash = DataHash(b.txs)
  /\ b.evidenceHash = EvHash(b.evidence)

\* ------------------------------------------------------------------ evidence admissibility
(* evidence.Pool.CheckEvidence -> verify (duplicate votes): not committed before, the block
   of its height is known and has the evidence's time, not expired in BOTH age measures,
   the validator was in the set of that height with that power, the set had that total
   power, both signatures valid; no evidence twice in one block.
   cx = [st, hist, evc]: hist[h] = [vals, time] of every committed block h.            *)
Admissible(cx, e) ==
  /\ e \notin cx.evc
  /\ e.h \in DOMAIN cx.hist
  /\ e.ts = cx.hist[e.h].time
  /\ ~(/\ cx.st.lastTime - e.ts > cx.st.params.evMaxAgeDur
       /\ cx.st.lastHeight - e.h > cx.st.params.evMaxAgeBlocks)
  /\ HasAddress(cx.hist[e.h].vals, e.val)
  /\ PowerOf(cx.hist[e.h].vals, e.val) = e.vp
  /\ TotalPower(cx.hist[e.h].vals) = e.tvp
  /\ e.sg = "ok"

EvidenceOK(cx, evs) ==
  /\ \A i \in DOMAIN evs : Admissible(cx, evs[i])
  /\ \A i, j \in DOMAIN evs : i # j => evs[i] # evs[j]

\* every CommitSig that carries a signature names the validator whose key verified it (its position)
CommitAddrsMatch(vals, commit) ==
  \A i \in DOMAIN commit.sigs :
     commit.sigs[i].flag # "absent" /\ i <= Len(vals) => commit.sigs[i].addr = vals[i].id

\* ------------------------------------------------------------------ validateBlock, in its order
NextHeight(st) == IF st.lastHeight = 0 THEN st.initialHeight ELSE st.lastHeight + 1

FirstFailure(cx, b) ==
  LET st == cx.st IN
  IF ~BasicOK(b) THEN "basic"
  ELSE IF b.version # st.version THEN "version"
  ELSE IF b.chainID # st.chainID THEN "chainid"
  ELSE IF st.lastHeight = 0 /\ b.height # st.initialHeight THEN "height"
  ELSE IF st.lastHeight > 0 /\ b.height # st.lastHeight + 1 THEN "height"
  ELSE IF b.lastBlockID # st.lastBlockID THEN "lastblockid"
  ELSE IF b.appHash # st.appHash THEN "apphash"
  ELSE IF ~Weak_DropConsensusHash /\ b.consHash # ConsHash(st.params) THEN "conshash"
  ELSE IF ~Weak_DropLastResultsHash /\ b.lastResultsHash # st.lastResultsHash THEN "lastresults"
  ELSE IF b.valsHash # ValsHash(st.vals) THEN "valshash"
  ELSE IF ~Weak_DropNextValsHash /\ b.nextValsHash # ValsHash(st.nextVals) THEN "nextvalshash"
  ELSE IF b.height = st.initialHeight /\ b.lastCommit.sigs # << >> THEN "commit_initial"
  ELSE IF b.height # st.initialHeight
          /\ ~VerifyCommitOK(st.lastVals, st.chainID, st.lastBlockID, b.height - 1, b.lastCommit) THEN "commit"
  ELSE IF ~Weak_CommitAddrUnchecked /\ b.height # st.initialHeight
          /\ ~CommitAddrsMatch(st.lastVals, b.lastCommit) THEN "commit_addr"
  ELSE IF ~Weak_DropProposerCheck /\ ~HasAddress(st.vals, b.proposer) THEN "proposer"
  ELSE IF b.height > st.initialHeight /\ ~(IF Weak_TimeGeq THEN b.time >= st.lastTime ELSE b.time > st.lastTime)
       THEN "time_notafter"
  ELSE IF b.height > st.initialHeight /\ b.time # MedianTime(b.lastCommit, st.lastVals) THEN "time_median"
  ELSE IF b.height = st.initialHeight /\ b.time # st.lastTime THEN "time_genesis"
  ELSE IF b.height < st.initialHeight THEN "height_low"
  ELSE IF b.evBytes > st.params.evMaxBytes THEN "evidence_bytes"
  ELSE IF ~EvidenceOK(cx, b.evidence) THEN "evidence"
  ELSE "ok"

ValidBlock(cx, b) == FirstFailure(cx, b) = "ok"

(* The acceptance condition as the PROPERTY states it: the block time must be the median
   weighted by the power of the validators that SIGNED (positions), not by the power found
   under an address a CommitSig merely claims.  With the "commit_addr" check the two
   coincide; without it (Weak_CommitAddrUnchecked, the code before the proposed fix)
   ValidBlock /\ ~StatementValid is the input class "commit_sig_address_mismatch".       *)
StatementTimeOK(cx, b) == b.height > cx.st.initialHeight => b.time = TrueMedianTime(b.lastCommit, cx.st.lastVals)
StatementValid(cx, b) == ValidBlock(cx, b) /\ StatementTimeOK(cx, b)

\* ------------------------------------------------------------------ state.MakeBlock
MakeBlock(st, txs, evs, evBytes, commit, proposer) ==
  LET h == NextHeight(st) IN
  [ version |-> st.version, chainID |-> st.chainID, height |-> h,
    time |-> IF h = st.initialHeight THEN st.lastTime ELSE MedianTime(commit, st.lastVals),
    lastBlockID |-> st.lastBlockID,
    lastCommitHash |-> CommitHash(commit), dataHash |-> DataHash(txs),
    valsHash |-> ValsHash(st.vals), nextValsHash |-> ValsHash(st.nextVals),
    consHash |-> ConsHash(st.params), appHash |-> st.appHash, lastResultsHash |-> st.lastResultsHash,
    evidenceHash |-> EvHash(evs), proposer |-> proposer,
    txs |-> txs, evidence |-> evs, evBytes |-> evBytes, lastCommit |-> commit ]

\* ------------------------------------------------------------------ consensus params
(* types.UpdateConsensusParams: a section that is present replaces its fields wholesale.
   pu = [any, block |-> [has, maxBytes, maxGas], evidence |-> [has, maxAgeBlocks, maxAgeDur, maxBytes],
         version |-> [has, app]];  any = (EndBlock.ConsensusParamUpdates # nil)           *)
UpdateParams(p, pu) ==
  [ maxBytes       |-> IF pu.block.has THEN pu.block.maxBytes ELSE p.maxBytes,
    maxGas         |-> IF pu.block.has THEN pu.block.maxGas ELSE p.maxGas,
    evMaxAgeBlocks |-> IF pu.evidence.has THEN pu.evidence.maxAgeBlocks ELSE p.evMaxAgeBlocks,
    evMaxAgeDur    |-> IF pu.evidence.has THEN pu.evidence.maxAgeDur ELSE p.evMaxAgeDur,
    evMaxBytes     |-> IF pu.evidence.has THEN pu.evidence.maxBytes ELSE p.evMaxBytes,
    appVersion     |-> IF pu.version.has THEN pu.version.app ELSE p.appVersion ]

\* types.ValidateConsensusParams (TimeIotaMs and pub key types are constant in this model)
ParamsValid(p) ==
  /\ p.maxBytes > 0 /\ p.maxBytes <= MaxBlockSizeBytes
  /\ p.maxGas >= -1
  /\ p.evMaxAgeBlocks > 0
  /\ p.evMaxAgeDur > 0
  /\ p.evMaxBytes <= p.maxBytes
  /\ p.evMaxBytes >= 0

NoParamUpdate == [any |-> FALSE,
                  block |-> [has |-> FALSE, maxBytes |-> 0, maxGas |-> 0],
                  evidence |-> [has |-> FALSE, maxAgeBlocks |-> 0, maxAgeDur |-> 0, maxBytes |-> 0],
                  version |-> [has |-> FALSE, app |-> 0]]

\* ------------------------------------------------------------------ updateState
(* state/execution.go updateState(state, blockID, header, abciResponses, validatorUpdates).
   resp = [valUpdates, pu, results, appHash].  Returns [ok, st]:
   - EndBlock validator updates are applied to a copy of NextValidators and become
     NextValidators of the new state: they validate block h+2 (two heights delay);
     LastHeightValidatorsChanged := h + 2 whenever the update list is non-empty
   - parameter updates form ConsensusParams of the new state: they govern block h+1;
     LastHeightConsensusParamsChanged := h + 1; Version.Consensus.App := the (updated)
     params' AppVersion - only when an update is present
   - AppHash is filled in by ApplyBlock after Commit                                    *)
NextState(st, b, bid, resp) ==
  LET up      == ApplyUpdates(st.nextVals, resp.valUpdates)
      changed == resp.valUpdates # << >>
      np      == IF resp.pu.any THEN UpdateParams(st.params, resp.pu) ELSE st.params
      pok     == resp.pu.any => ParamsValid(np)
  IN IF ~up.ok \/ ~pok THEN [ok |-> FALSE, st |-> st]
     ELSE [ok |-> TRUE, st |->
       [ version |-> [block |-> st.version.block, app |-> IF resp.pu.any THEN np.appVersion ELSE st.version.app],
         chainID |-> st.chainID, initialHeight |-> st.initialHeight,
         lastHeight |-> b.height, lastBlockID |-> bid, lastTime |-> b.time,
         nextVals |-> up.vals,
         vals |-> IF Weak_ValUpdatesEarly THEN up.vals ELSE st.nextVals,
         lastVals |-> st.vals,
         lastHeightValsChanged |-> IF changed THEN b.height + 2 ELSE st.lastHeightValsChanged,
         params |-> np,
         lastHeightParamsChanged |-> IF resp.pu.any
                                     THEN (IF Weak_ParamsBookkeeping THEN b.height ELSE b.height + 1)
                                     ELSE st.lastHeightParamsChanged,
         lastResultsHash |-> ResultsHash(resp.results),
         appHash |-> resp.appHash ]]

(* The two ways a node applies a block.
   live   : BlockExecutor.ApplyBlock with the responses the application gives (NextState above).
   stored : the node crashed between the application's Commit and stateStore.Save (the last fail
            point of ApplyBlock).  On restart consensus.Handshaker.ReplayBlocks finds the block store
            one ahead of the state and the application at the store's height, and replays the block
            through ApplyBlock with a mock application that answers from the record
            state/store.go SaveABCIResponses wrote before the crash (LoadLastABCIResponse).  That
            "last response" record is written synchronously in BOTH store modes; with
            DiscardABCIResponses only the per-height copy (RPC /block_results, reindexing) is omitted.
   StoredResponses = what comes back from the store, as far as updateState reads it: the
   DeliverTx results (code, data, gas; log/info/events are not committed to), the validator
   updates and the consensus parameter updates.  It must be the identity on that part, for
   both modes - otherwise the recovering node computes another next state than its peers.    *)
ApplyVariants == {"live", "stored", "stored_discard"}
StoredResponses(resp, variant) ==
  IF variant = "stored_discard" /\ Weak_StoredResponsesDropParamUpdates
  THEN [resp EXCEPT !.pu = NoParamUpdate]
  ELSE resp
ApplyVia(st, b, bid, resp, variant) ==
  NextState(st, b, bid, IF variant = "live" THEN resp ELSE StoredResponses(resp, variant))

(* state/execution.go execBlockOnProxyApp: what the application is shown of a block -
   getBeginBlockValidatorInfo (one entry per validator of the LAST block's set, from the state
   store, "signed" = its CommitSig is not absent; nothing at the initial height), the evidence as
   abci.Evidence, the block hash, then every transaction in order.                        *)
BeginBlockInfo(st, b, bid) ==
  [ round  |-> b.lastCommit.round,
    votes  |-> IF b.height > st.initialHeight
               THEN [i \in DOMAIN st.lastVals |->
                       [id |-> st.lastVals[i].id, power |-> st.lastVals[i].power,
                        signed |-> i <= Len(b.lastCommit.sigs) /\ b.lastCommit.sigs[i].flag # "absent"]]
               ELSE << >>,
    byz    |-> [i \in DOMAIN b.evidence |-> [id |-> b.evidence[i].val, power |-> b.evidence[i].vp, h |-> b.evidence[i].h,
                                              ts |-> b.evidence[i].ts, tvp |-> b.evidence[i].tvp]],
    hash   |-> bid.hash, height |-> b.height, txs |-> b.txs ]

\* state.MakeGenesisState
GenesisState(chain, ih, vals, params, appHash, appVer) ==
  [ version |-> [block |-> BlockProtocol, app |-> appVer],
    chainID |-> chain, initialHeight |-> ih, lastHeight |-> 0, lastBlockID |-> ZeroBID, lastTime |-> 0,
    nextVals |-> SortVals({vals[i] : i \in DOMAIN vals}), vals |-> SortVals({vals[i] : i \in DOMAIN vals}), lastVals |-> << >>,
    lastHeightValsChanged |-> ih, params |-> params, lastHeightParamsChanged |-> ih,
    lastResultsHash |-> "", appHash |-> appHash ]

\* ------------------------------------------------------------------ state store indirection
(* state/store.go save: ValidatorsInfo for height H+2 holds the set only if H+2 is the height
   it last changed (checkpoints every 100000 heights are out of the model's range), else a
   pointer; ConsensusParamsInfo for H+1 likewise.  vinfo/pinfo: height -> [lhc, val].
   NoVal marks "pointer only".                                                          *)
ZeroParams == [maxBytes |-> 0, maxGas |-> 0, evMaxAgeBlocks |-> 0, evMaxAgeDur |-> 0, evMaxBytes |-> 0, appVersion |-> 0]
SaveInfo(store, st) ==
  LET nh  == NextHeight(st)
      v1  == IF st.lastHeight = 0
             THEN (nh :> [lhc |-> nh, has |-> TRUE, vals |-> st.vals]) @@ store.vinfo
             ELSE store.vinfo
      v2  == ((nh + 1) :> [lhc |-> st.lastHeightValsChanged,
                            has |-> (nh + 1 = st.lastHeightValsChanged),
                            vals |-> IF nh + 1 = st.lastHeightValsChanged THEN st.nextVals ELSE << >>]) @@ v1
      p1  == (nh :> [lhc |-> st.lastHeightParamsChanged,
                     has |-> (nh = st.lastHeightParamsChanged),
                     params |-> IF nh = st.lastHeightParamsChanged THEN st.params ELSE ZeroParams]) @@ store.pinfo
  IN [vinfo |-> v2, pinfo |-> p1]

\* LoadValidators(h): [ok, vals]
LookupVals(store, h) ==
  IF h \notin DOMAIN store.vinfo THEN [ok |-> FALSE, vals |-> << >>]
  ELSE LET i == store.vinfo[h] IN
       IF i.has THEN [ok |-> TRUE, vals |-> i.vals]
       ELSE IF i.lhc \in DOMAIN store.vinfo /\ store.vinfo[i.lhc].has
            THEN [ok |-> TRUE, vals |-> store.vinfo[i.lhc].vals]
            ELSE [ok |-> FALSE, vals |-> << >>]

LookupParams(store, h) ==
  IF h \notin DOMAIN store.pinfo THEN [ok |-> FALSE, params |-> ZeroParams]
  ELSE LET i == store.pinfo[h] IN
       IF i.has THEN [ok |-> TRUE, params |-> i.params]
       ELSE IF i.lhc \in DOMAIN store.pinfo
            THEN [ok |-> TRUE, params |-> store.pinfo[i.lhc].params]   \* whatever was stored there
            ELSE [ok |-> FALSE, params |-> ZeroParams]

\* ------------------------------------------------------------------ size budget (types/block.go)
MaxOverheadForBlock    == 11
MaxHeaderBytes         == 626
MaxCommitOverheadBytes == 94
MaxCommitSigBytes      == 109
MaxCommitBytes(n)      == MaxCommitOverheadBytes + (MaxCommitSigBytes + 2) * n
\* negative = the code panics (Block.MaxBytes too small for header, commit and evidence)
MaxDataBytes(maxBytes, evBytes, nvals) ==
  maxBytes - MaxOverheadForBlock - MaxHeaderBytes - MaxCommitBytes(nvals) - evBytes

(* state/execution.go CreateProposalBlock: the LastCommit in the block is a commit of
   LastValidators, so that is the count the budget must use (S10).                      *)
DataBudget(maxBytes, evBytes, nVals, nLastVals) ==
  MaxDataBytes(maxBytes, evBytes, IF Weak_BudgetUsesCurrentVals THEN nVals ELSE nLastVals)

VarintLen(n) == IF n < 128 THEN 1 ELSE IF n < 16384 THEN 2 ELSE IF n < 2097152 THEN 3 ELSE 4
\* an upper bound of the encoded block: header (MaxHeaderBytes includes 150 bytes no valid chain id
\* can use: MaxChainIDLen counts bytes, the constant was measured with 50 four-byte runes), a
\* full commit of nLastVals, evidence, data, and the four field tags + length prefixes
BlockBytesUpper(dataBytes, evBytes, nLastVals) ==
  LET hdr == MaxHeaderBytes - 150
      cm  == MaxCommitBytes(nLastVals)
  IN (1 + VarintLen(hdr) + hdr) + (1 + VarintLen(cm) + cm)
     + (1 + VarintLen(evBytes) + evBytes) + (1 + VarintLen(dataBytes) + dataBytes)

=============================================================================
