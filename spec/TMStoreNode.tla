----------------------------- MODULE TMStoreNode -----------------------------
(* The persistence life of one node, as a state machine over the operators of TMStore:

     genesis Save (consensus/replay.go Handshaker, InitChain branch)  or
     Bootstrap + SaveSeenCommit (node/node.go startStateSync)
     then per height   SaveBlock(h)                        consensus/state.go finalizeCommit
                       ApplyBlock(h) = SaveABCIResponses(h) ; Save(state_h)   state/execution.go
                       [ PruneBlocks(retain) ; PruneStates(base, retain) ]    consensus/state.go pruneBlocks
   Every operation is a list of single DB writes executed one per step; Crash may fall
   between ANY two of them and keeps exactly the writes done so far.  After a crash the
   node reopens both stores (mem := LoadBlockStoreState, state := stateStore.Load) and goes
   on from what is on disk: it re-saves a block whose range descriptor was not persisted,
   re-applies a block the state store has not seen (what Handshaker.ReplayBlocks does); an
   interrupted prune is NOT resumed (the next prune starts from the persisted base).     *)
EXTENDS TMStore, TLC

CONSTANTS
  MaxHeight,    \* last height of the chain
  Initial,      \* genesis InitialHeight
  Boot,         \* 0: start from genesis; H0 > 0: state sync restored height H0
  Batch,        \* prune flush interval (the code: 1000)
  Ckpt,         \* checkpoint heights
  TwoPart,      \* heights whose block has two parts (others: one)
  ValChg,       \* heights whose EndBlock changes the validator set (in force from h + 2)
  ParChg,       \* heights whose EndBlock changes the consensus params (in force from h + 1)
  MaxCrashes, MaxPrunes,
  Weak_RecoveryDropsParamUpdates   \* the restart path (Handshaker, mock application answering from the
                                   \*   persisted ABCI responses) loses EndBlock.ConsensusParamUpdates

VARIABLES
  disk,      \* both databases
  mem,       \* BlockStore.base / .height (volatile)
  pend,      \* steps of the operation in progress still to be executed
  ctx,       \* [op, a, b, due, done]: operation in progress / last finished; due = 1: PruneStates owed
  crashes, prunes,
  stale,     \* heights whose consensus-param update never reached the persisted State (only with
             \*   Weak_RecoveryDropsParamUpdates; conceptually a part of the persisted State record)
  act        \* name of the last action (for the replay drivers)
vars == <<disk, mem, pend, ctx, crashes, prunes, stale, act>>

Lo == IF Boot > 0 THEN Boot - 1 ELSE Initial - 1
Hi == MaxHeight + 2

\* ground truth: the validator set / params in force at height h
VSAt(h) == Cardinality({c \in ValChg : c + 2 <= h})
PSAt(h) == Cardinality({c \in ParChg : c + 1 <= h})

Cfg == [lo |-> Lo, hi |-> Hi, initial |-> Initial, boot |-> Boot, batch |-> Batch, ckpt |-> Ckpt,
        nparts |-> [h \in Lo .. Hi |-> IF h \in TwoPart THEN 2 ELSE 1],
        vs |-> [h \in Lo .. Hi |-> VSAt(h)], ps |-> [h \in Lo .. Hi |-> PSAt(h)],
        chk |-> {"block", "state"}]

\* State.LastHeightValidatorsChanged / LastHeightConsensusParamsChanged of the state after
\* block lbh (state/execution.go updateState; statesync/stateprovider.go for a restored state)
LHVC(lbh) == SetMax({IF Boot > 0 THEN Boot + 2 ELSE Initial} \cup {c + 2 : c \in {x \in ValChg : x <= lbh}})
LHPCx(lbh, st) == SetMax({IF Boot > 0 THEN Boot + 1 ELSE Initial} \cup {c + 1 : c \in {x \in ParChg \ st : x <= lbh}})
LHPC(lbh) == LHPCx(lbh, stale)

Idle0 == [op |-> "none", a |-> 0, b |-> 0, due |-> 0, done |-> TRUE]

Init ==
  /\ disk = EmptyDisk(Cfg)
  /\ mem = [base |-> 0, height |-> 0]
  /\ pend = << >>
  /\ ctx = Idle0
  /\ crashes = 0 /\ prunes = 0 /\ stale = {}
  /\ act = [name |-> "Init"]

Idle == pend = << >> /\ ctx.due = 0

\* height of the next block, from the persisted state (lbh = 0: genesis state)
NextH == IF disk.state = 0 THEN Initial ELSE disk.state + 1

Begin(op, a, b, r, due) ==
  /\ pend' = r.steps
  /\ ctx' = [op |-> op, a |-> a, b |-> b, due |-> due, done |-> r.steps = << >>]
  /\ act' = [name |-> "Begin"]
  /\ UNCHANGED <<disk, mem, crashes>>

Genesis ==
  /\ Idle /\ disk.state = -1 /\ Boot = 0
  /\ Begin("Genesis", 0, 0, SaveSteps(Cfg, 0, Initial, Initial), 0)
  /\ UNCHANGED <<prunes, stale>>

\* Bootstrap(state) followed by SaveSeenCommit(state.LastBlockHeight, commit)
Bootstrap ==
  /\ Idle /\ disk.state = -1 /\ Boot > 0
  /\ Begin("Bootstrap", Boot, 0,
           [steps |-> BootstrapSteps(Cfg, Boot, Boot + 1).steps \o SaveSeenCommitSteps(Boot).steps, res |-> "ok"], 0)
  /\ UNCHANGED <<prunes, stale>>

SaveBlock ==
  /\ Idle /\ disk.state >= 0 /\ mem.height < NextH /\ NextH <= MaxHeight
  /\ Begin("SaveBlock", NextH, 0, SaveBlockSteps(Cfg, mem, NextH), 0)
  /\ UNCHANGED <<prunes, stale>>

\* state/execution.go ApplyBlock with the real application (first time, or on restart when the
\* application has not committed the block yet)
ApplyBlock ==
  /\ Idle /\ disk.state >= 0 /\ mem.height = NextH
  /\ Begin("ApplyBlock", NextH, 0,
           [steps |-> SaveABCISteps(NextH).steps \o SaveSteps(Cfg, NextH, LHVC(NextH), LHPC(NextH)).steps,
            res |-> "ok"], 0)
  /\ UNCHANGED <<prunes, stale>>

\* restart after a crash between the application's Commit of block NextH and stateStore.Save
\* (the responses of NextH are the last persisted ones): consensus/replay.go ReplayBlocks, case
\* app = store = state + 1, applies the stored block through newMockProxyApp, which answers from
\* LoadLastABCIResponse.  Same writes as ApplyBlock - provided the stored responses are replayed in full.
Recover ==
  /\ Idle /\ disk.state >= 0 /\ mem.height = NextH
  /\ disk.lastabci = NextH /\ ctx.op = "crashed"
  /\ LET st2 == IF Weak_RecoveryDropsParamUpdates /\ NextH \in ParChg THEN stale \cup {NextH} ELSE stale IN
       /\ stale' = st2
       /\ Begin("Recover", NextH, 0,
                [steps |-> SaveABCISteps(NextH).steps \o SaveSteps(Cfg, NextH, LHVC(NextH), LHPCx(NextH, st2)).steps,
                 res |-> "ok"], 0)
  /\ UNCHANGED prunes

\* consensus/state.go pruneBlocks(retain): only if retain > base
PruneBlocks ==
  /\ Idle /\ disk.state >= 1 /\ mem.height = disk.state /\ prunes < MaxPrunes
  /\ \E r \in mem.base + 1 .. mem.height :
       Begin("PruneBlocks", r, mem.base, PruneBlocksSteps(Cfg, disk, mem, r), 1)
  /\ prunes' = prunes + 1
  /\ UNCHANGED stale

PruneStates ==
  /\ pend = << >> /\ ctx.due = 1
  /\ Begin("PruneStates", ctx.b, ctx.a, PruneStatesSteps(Cfg, disk, ctx.b, ctx.a), 0)
  /\ UNCHANGED <<prunes, stale>>

Step ==
  /\ pend # << >>
  /\ LET s == Head(pend) IN
       /\ disk' = IF s.t = "w" THEN ApplyWrite(Cfg, disk, s) ELSE disk
       /\ mem'  = IF s.t = "m" THEN ApplyMem(mem, s) ELSE mem
  /\ pend' = Tail(pend)
  /\ ctx' = [ctx EXCEPT !.done = Len(pend) = 1]
  /\ act' = [name |-> "Step"]
  /\ UNCHANGED <<crashes, prunes, stale>>

Crash ==
  /\ pend # << >> \/ ctx.due = 1
  /\ crashes < MaxCrashes
  /\ mem' = LoadBSS(disk)
  /\ pend' = << >>
  /\ ctx' = [Idle0 EXCEPT !.op = "crashed"]
  /\ crashes' = crashes + 1
  /\ act' = [name |-> "Crash"]
  /\ UNCHANGED <<disk, prunes, stale>>

Next == Genesis \/ Bootstrap \/ SaveBlock \/ ApplyBlock \/ Recover \/ PruneBlocks \/ PruneStates \/ Step \/ Crash
Spec == Init /\ [][Next]_vars

\* ------------------------------------------------------------------ properties
\* the statement for whatever is on disk, i.e. after a crash here and a reopen
AuditAfterReopen == AuditDisk(Cfg, disk, LoadBSS(disk))
\* ... and for a reader of the running store (in-memory base / height)
AuditLive == AuditDisk(Cfg, disk, mem)
MetaBlock == MetaImpliesBlock(Cfg, disk)

\* pruning removes exactly the heights below the retain height ...
PruneExact ==
  (ctx.op = "PruneBlocks" /\ ctx.done /\ pend = << >>) =>
     PruneExactBlocks(Cfg, disk, mem, ctx.b, ctx.a) /\ LoadBSS(disk) = mem
\* ... and nothing still needed: the state store keeps what retained heights resolve through
\* (checked on the disk after the completed PruneStates(from = ctx.a, to = ctx.b))
PruneExactState ==
  (ctx.op = "PruneStates" /\ ctx.done /\ pend = << >>) =>
     \A h \in Dom(Cfg) : (ctx.a <= h /\ h < ctx.b) =>
        /\ (h \notin NeededVals(Cfg, disk, ctx.b)) => disk.vals[h].lhc = -1
        /\ (h \notin NeededParams(Cfg, disk, ctx.b)) => disk.params[h].lhc = -1
        /\ disk.abci[h] = FALSE

\* non-vacuity helpers (negated goals)
NeverTwoBatchPrune == ~(ctx.op = "PruneBlocks" /\ ctx.a - ctx.b > Batch)
NeverKeptRecord == ~(ctx.op = "PruneStates" /\ ctx.done /\ pend = << >>
                     /\ \E h \in Dom(Cfg) : h < ctx.b /\ disk.vals[h].lhc # -1)
=============================================================================
