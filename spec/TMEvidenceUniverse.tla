-------------------------- MODULE TMEvidenceUniverse --------------------------
(* Evidence universes for TMEvidence contexts: for a chain (record with N, H0, names, vals,
   time, signed, A, D) the genuine duplicate-vote / light-client-attack items and EVERY
   SINGLE-FIELD PERTURBATION of them, as abstract records.  The Go harness
   (harness/inpkg/evidence) builds the real objects from these records with real keys and
   reports the real key classes / DB order / byte sizes back (fields key, rank, wsize,
   basic are predictions here and are replaced by what the real objects say).           *)
EXTENDS TMEvidence

ToFn(S) == [id \in {e.id : e \in S} |-> (CHOOSE e \in S : e.id = id).rec]
Entry(pfx, rec, rk) == [id |-> pfx \o rec.mut, rec |-> [rec EXCEPT !.rank = rk]]

\* ------------------------------------------------------------------ duplicate votes
DvGenuine(ch, h, val) ==
  [h |-> h, hB |-> h, rA |-> 0, rB |-> 0, tA |-> 2, tB |-> 2, val |-> val, valB |-> val,
   blkA |-> "b1", blkB |-> "b2", sigA |-> TRUE, sigB |-> TRUE,
   power |-> ValsAt(ch, h)[val], total |-> Total(ValsAt(ch, h)), time |-> TimeAt(ch, h),
   mut |-> "genuine", key |-> "", rank |-> 0, wsize |-> 1, basic |-> TRUE]

OtherVal(ch, h, val)   == {n \in DOMAIN ValsAt(ch, h) : n # val}
NonVal(ch, h)          == {n \in Range(ch.names) : n \notin DOMAIN ValsAt(ch, h)}
First(ch, S)           == CHOOSE n \in S : \A m \in S : NameIdx(ch, n) <= NameIdx(ch, m)

DvMuts(ch, g) ==
  LET h == g.h  val == g.val  M(m, r) == [r EXCEPT !.mut = m] IN
  << M("genuine", g),
     M("total", [g EXCEPT !.total = @ + 1]),
     M("power", [g EXCEPT !.power = @ + 1]),
     M("timeplus", [g EXCEPT !.time = @ + 1]),
     M("sameblock", [g EXCEPT !.blkB = g.blkA, !.basic = FALSE]),
     M("swapped", [g EXCEPT !.blkA = g.blkB, !.blkB = g.blkA, !.basic = FALSE]),
     M("otherblocks", [g EXCEPT !.blkB = "b3"]),
     M("heightB", [g EXCEPT !.hB = @ + 1]),
     M("roundB", [g EXCEPT !.rB = 1]),
     M("typeB", [g EXCEPT !.tB = 1]),
     M("prevotes", [g EXCEPT !.tA = 1, !.tB = 1]),
     M("round1", [g EXCEPT !.rA = 1, !.rB = 1]),
     M("sigA", [g EXCEPT !.sigA = FALSE]),
     M("sigB", [g EXCEPT !.sigB = FALSE]) >>
  \o (IF h > 1 THEN << M("timeprev", [g EXCEPT !.time = TimeAt(ch, h - 1)]) >> ELSE << >>)
  \o (IF h > 1 /\ val \in DOMAIN ValsAt(ch, h - 1)
         /\ <<ValsAt(ch, h - 1)[val], Total(ValsAt(ch, h - 1))>> # <<g.power, g.total>>
      THEN << M("valsprev", [g EXCEPT !.power = ValsAt(ch, h - 1)[val], !.total = Total(ValsAt(ch, h - 1))]) >> ELSE << >>)
  \o (IF val \in DOMAIN ValsAt(ch, h + 1)
         /\ <<ValsAt(ch, h + 1)[val], Total(ValsAt(ch, h + 1))>> # <<g.power, g.total>>
      THEN << M("valsnext", [g EXCEPT !.power = ValsAt(ch, h + 1)[val], !.total = Total(ValsAt(ch, h + 1))]) >> ELSE << >>)
  \o (IF OtherVal(ch, h, val) # {} THEN << M("valB", [g EXCEPT !.valB = First(ch, OtherVal(ch, h, val))]) >> ELSE << >>)
  \o (IF NonVal(ch, h) # {} THEN << M("notval", [g EXCEPT !.val = First(ch, NonVal(ch, h)), !.valB = First(ch, NonVal(ch, h))]) >> ELSE << >>)

\* every duplicate-vote item has its own key (the hash covers all fields)
DvFamily(ch, pfx, fam, h, val) ==
  LET ms == DvMuts(ch, DvGenuine(ch, h, val)) IN
  {Entry(pfx, [ms[i] EXCEPT !.key = "k:" \o pfx \o ms[i].mut], h * 10000 + fam * 100 + i) : i \in DOMAIN ms}

\* precommit pair (dv = the genuine item) and, for the same validator, height, round and blocks,
\* the PREVOTE pair (dv = the "prevotes" item): two distinct pieces of evidence
Pair(ch, pfx, h, val) ==
  LET g == DvGenuine(ch, h, val)
      nx == ValsAt(ch, h + 1)
  IN [h |-> h, val |-> val, t |-> 2, r |-> 0, blkA |-> "b1", blkB |-> "b2", dv |-> pfx \o "genuine",
      late |-> IF val \notin DOMAIN nx THEN "nil"
               ELSE IF <<nx[val], Total(nx)>> # <<g.power, g.total>> THEN pfx \o "valsnext"
               ELSE pfx \o "genuine"]
PrevotePair(ch, pfx, h, val) ==
  LET g == DvGenuine(ch, h, val)
      nx == ValsAt(ch, h + 1)
  IN [h |-> h, val |-> val, t |-> 1, r |-> 0, blkA |-> "b1", blkB |-> "b2", dv |-> pfx \o "prevotes",
      late |-> IF val \notin DOMAIN nx THEN "nil"
               ELSE IF <<nx[val], Total(nx)>> # <<g.power, g.total>> THEN "?" \o pfx \o "prevotes-with-next-set"
               ELSE pfx \o "prevotes"]

\* ------------------------------------------------------------------ light client attacks
Phantom == "n5"
Names(ch, S) == SetToSortSeq(S, LAMBDA x, y : NameIdx(ch, x) < NameIdx(ch, y))

LunaticGenuine(ch, h, cht) ==
  LET cv == ValsAt(ch, h)
      cvals == cv @@ (Phantom :> 1)
      S == DOMAIN cvals
  IN [h |-> h, ch |-> cht, ctime |-> TimeAt(ch, cht), cvals |-> cvals, signers |-> Names(ch, S), sigok |-> TRUE,
      derive |-> "lunatic", round |-> 0, total |-> Total(cv), time |-> TimeAt(ch, h),
      byz |-> ByPower(ch, cv, DOMAIN cv), mut |-> "genuine", key |-> "", rank |-> 0, wsize |-> 1, basic |-> TRUE]

\* key = conflicting header + common height: perturbations of the other fields keep the key
LunaticMuts(ch, g) ==
  LET cv == ValsAt(ch, g.h)
      last == CHOOSE n \in DOMAIN cv : \A m \in DOMAIN cv : NameIdx(ch, n) >= NameIdx(ch, m)
      low  == CHOOSE n \in DOMAIN cv : \A m \in DOMAIN cv : cv[n] < cv[m] \/ (cv[n] = cv[m] /\ NameIdx(ch, n) <= NameIdx(ch, m))
      M(m, r, own) == [r EXCEPT !.mut = m, !.key = IF own THEN m ELSE "genuine"]
  IN << M("genuine", g, FALSE),
        M("total", [g EXCEPT !.total = @ + 1], FALSE),
        M("timeplus", [g EXCEPT !.time = @ + 1], FALSE),
        M("byzdrop", [g EXCEPT !.byz = SubSeq(@, 1, Len(@) - 1)], FALSE),
        M("byzpower", [g EXCEPT !.byz[1].p = @ + 1], FALSE),
        M("byzextra", [g EXCEPT !.byz = Append(@, [n |-> Phantom, p |-> 1])], FALSE),
        M("badsig", [g EXCEPT !.sigok = FALSE], FALSE),
        M("samehash", [g EXCEPT !.derive = "same", !.cvals = ValsAt(ch, g.ch),
                                !.signers = Names(ch, DOMAIN ValsAt(ch, g.ch))], TRUE),
        M("nocommon", [g EXCEPT !.cvals = (Phantom :> 1), !.signers = <<Phantom>>, !.byz = << >>], TRUE),
        \* backed by the weakest common validator only (<= 1/3 of the common set unless the set is tiny)
        M("weakcommon", [g EXCEPT !.cvals = (low :> cv[low]) @@ (Phantom :> 2 * Total(cv) + 5),
                                  !.signers = Names(ch, {low, Phantom}),
                                  !.byz = <<[n |-> low, p |-> cv[low]]>>], TRUE),
        M("selfweak", [g EXCEPT !.cvals = cv @@ (Phantom :> 2 * Total(cv) + 5),
                                !.signers = Names(ch, DOMAIN cv)], TRUE) >>
     \o (IF Len(g.byz) >= 2 THEN << M("byzorder", [g EXCEPT !.byz = <<g.byz[2], g.byz[1]>> \o SubSeq(g.byz, 3, Len(g.byz))], FALSE) >> ELSE << >>)
     \o (IF Cardinality(DOMAIN cv) >= 2
         THEN << M("fewer", [g EXCEPT !.signers = Names(ch, DOMAIN g.cvals \ {last}),
                                      !.byz = ByPower(ch, cv, DOMAIN cv \ {last})], FALSE) >> ELSE << >>)
     \o (IF g.h > 1 THEN << M("commonprev", [g EXCEPT !.h = @ - 1], TRUE) >> ELSE << >>)

EquivGenuine(ch, h) ==
  LET cv == ValsAt(ch, h) IN
  [h |-> h, ch |-> h, ctime |-> TimeAt(ch, h), cvals |-> cv, signers |-> Names(ch, DOMAIN cv), sigok |-> TRUE,
   derive |-> "chain", round |-> 0, total |-> Total(cv), time |-> TimeAt(ch, h),
   byz |-> ByPower(ch, cv, DOMAIN cv \cap Range(ch.signed[h])), mut |-> "genuine", key |-> "", rank |-> 0, wsize |-> 1, basic |-> TRUE]

EquivMuts(ch, g) ==
  LET M(m, r, own) == [r EXCEPT !.mut = m, !.key = IF own THEN m ELSE "genuine"] IN
  << M("genuine", g, FALSE),
     M("total", [g EXCEPT !.total = @ + 1], FALSE),
     M("timeplus", [g EXCEPT !.time = @ + 1], FALSE),
     M("byzdrop", [g EXCEPT !.byz = SubSeq(@, 1, Len(@) - 1)], FALSE),
     M("byzpower", [g EXCEPT !.byz[1].p = @ + 1], FALSE),
     M("badsig", [g EXCEPT !.sigok = FALSE], FALSE),
     M("samehash", [g EXCEPT !.derive = "same"], TRUE),
     M("amnesia", [g EXCEPT !.round = 1, !.byz = << >>], TRUE),
     M("amnesiabyz", [g EXCEPT !.round = 1], TRUE),
     M("lunatichdr", [g EXCEPT !.derive = "lunatic"], TRUE),
     M("ctime", [g EXCEPT !.ctime = @ + 1], TRUE) >>

LcaFamily(pfx, fam, ms) ==
  {Entry(pfx, [ms[i] EXCEPT !.key = "k:" \o pfx \o ms[i].key],
         ms[i].h * 10000 + fam * 100 + (IF ms[i].key = "genuine" THEN 1 ELSE i)) : i \in DOMAIN ms}
LunaticFamily(ch, pfx, fam, h, cht) == LcaFamily(pfx, fam, LunaticMuts(ch, LunaticGenuine(ch, h, cht)))
EquivFamily(ch, pfx, fam, h)        == LcaFamily(pfx, fam, EquivMuts(ch, EquivGenuine(ch, h)))

=============================================================================
