--------------------------- MODULE TMPeerGossipSys ---------------------------
(* State machine over TMPeerGossip: one hostile peer sends any sequence of at most MaxMsgs messages
   of TMPeerGossip!HostileMsgs; the node's per-peer goroutines run at any time in between.
     Hostile(m)      Reactor.ReceiveEnvelope(m) in the peer's recvRoutine (under MConnection._recover)
     VotesStep(w)    gossipVotesRoutine: the PickSendVote attempt w of gossipVotesForHeight
     DataStep        gossipDataRoutine, one iteration
     Maj23Step       queryMaj23Routine, one iteration (reads heights only; the node has no +2/3 yet)  *)
EXTENDS TMPeerGossip

CONSTANT MaxMsgs
VARIABLES prs, nmsg, stopped, crashed, act
gvars == <<prs, nmsg, stopped, crashed, act>>

GInit == prs = NewPRS /\ nmsg = 0 /\ stopped = FALSE /\ crashed = FALSE /\ act = [name |-> "Init"]

Running == ~stopped /\ ~crashed

Hostile(m) ==
  /\ Running /\ nmsg < MaxMsgs
  /\ LET x == Receive(prs, m) IN
     /\ prs' = x.p
     /\ stopped' = x.stop
     /\ act' = [name |-> "Hostile", m |-> m, stop |-> x.stop]
  /\ nmsg' = nmsg + 1
  /\ UNCHANGED crashed

VotesStep(w) ==
  /\ Running
  /\ LET x == PickVote(prs, w) IN
     /\ prs' = x.p
     /\ crashed' = x.panic
     /\ act' = [name |-> "VotesStep", w |-> w]
  /\ UNCHANGED <<nmsg, stopped>>

DataStep ==
  /\ Running
  /\ LET x == GossipData(prs) IN
     /\ prs' = x.p
     /\ crashed' = x.panic
     /\ act' = [name |-> "DataStep"]
  /\ UNCHANGED <<nmsg, stopped>>

Maj23Step ==
  /\ Running
  /\ act' = [name |-> "Maj23Step"]
  /\ UNCHANGED <<prs, nmsg, stopped, crashed>>

GNext ==
  \/ \E m \in HostileMsgs : Hostile(m)
  \/ \E w \in VotesTries : VotesStep(w)
  \/ DataStep
  \/ Maj23Step

\* hostile input only drops the peer: no goroutine of the node panics
NeverCrashes == ~crashed
\* whatever the peer sends, what is stored stays within the documented bounds (and only those)
StoredSizesBounded == StoredBounded(prs)
GView == <<prs, nmsg, stopped, crashed>>
=============================================================================
