--------------------------- MODULE TMPeerGossipSys ---------------------------
(* State machine over TMPeerGossip: the node starts in one of TMPeerGossip!NodeClasses; one hostile peer sends
   any sequence of at most MaxMsgs messages of TMPeerGossip!HostileMsgs; the node's per-peer goroutines run at
   any time in between; the node itself carries on (starts the height, fails a round, commits) at any time.
     Hostile(m)      Reactor.ReceiveEnvelope(m) in the peer's recvRoutine (under MConnection._recover), and for
                     votes consensus.State.handleMsg -> addVote in receiveRoutine (under its own recover, which
                     halts consensus: "CONSENSUS FAILURE!!!")
     VotesStep(w)    gossipVotesRoutine: the PickSendVote attempt w
     DataStep        gossipDataRoutine, one iteration
     Maj23Step       queryMaj23Routine, one iteration (reads heights only; the node has no +2/3 of its own yet)
     NodeStart / NodeNextRound / NodeCommit     the NewHeight timeout, a failed round, a committed height  *)
EXTENDS TMPeerGossip

CONSTANT MaxMsgs
VARIABLES nd, prs, nmsg, stopped, crashed, act
gvars == <<nd, prs, nmsg, stopped, crashed, act>>

GInit == nd \in NodeClasses /\ prs = NewPRS /\ nmsg = 0 /\ stopped = FALSE /\ crashed = FALSE
         /\ act = [name |-> "Init", class |-> ClassName(nd)]

Alive == ~crashed /\ ~nd.halted

Hostile(m) ==
  /\ Alive /\ ~stopped /\ nmsg < MaxMsgs /\ nd.step # "done"
  /\ LET x == Receive(nd, prs, m) IN
     /\ prs' = x.p
     /\ nd' = [x.nd EXCEPT !.halted = x.halt]
     /\ stopped' = x.stop
     /\ act' = [name |-> "Hostile", m |-> m, stop |-> x.stop]
  /\ nmsg' = nmsg + 1
  /\ UNCHANGED crashed

VotesStep(w) ==
  /\ Alive /\ ~stopped
  /\ LET x == PickVote(nd, prs, w) IN
     /\ prs' = x.p
     /\ crashed' = x.panic
     /\ act' = [name |-> "VotesStep", w |-> w]
  /\ UNCHANGED <<nd, nmsg, stopped>>

DataStep ==
  /\ Alive /\ ~stopped
  /\ LET x == GossipData(nd, prs) IN
     /\ prs' = x.p
     /\ crashed' = x.panic
     /\ act' = [name |-> "DataStep"]
  /\ UNCHANGED <<nd, nmsg, stopped>>

Maj23Step ==
  /\ Alive /\ ~stopped
  /\ act' = [name |-> "Maj23Step"]
  /\ UNCHANGED <<nd, prs, nmsg, stopped, crashed>>

NodeStep(name, x) ==
  /\ nd' = [x.nd EXCEPT !.halted = x.halt]
  /\ act' = [name |-> name]
  /\ UNCHANGED <<prs, nmsg, stopped, crashed>>
NodeStart     == Alive /\ nd.step = "newheight" /\ NodeStep("NodeStart", StartHeight(nd))
NodeNextRound == Alive /\ nd.step = "later" /\ nd.r < 2 /\ NodeStep("NodeNextRound", NextRound(nd))
NodeCommit    == Alive /\ nd.step = "later" /\ NodeStep("NodeCommit", Commit(nd))

GNext ==
  \/ \E m \in HostileMsgs : Hostile(m)
  \/ \E w \in VotesTries : VotesStep(w)
  \/ DataStep
  \/ Maj23Step
  \/ NodeStart \/ NodeNextRound \/ NodeCommit

\* hostile input only drops the peer: no goroutine of the node panics (the process survives) ...
NeverCrashes == ~crashed
\* ... and the consensus state machine is never halted (the node is not wedged)
NeverHalts == ~nd.halted
\* whatever the peer sends, what is stored stays within the documented bounds (and only those)
StoredSizesBounded == StoredBounded(prs) /\ nd.catchup <= 2
GView == <<nd, prs, nmsg, stopped, crashed>>
=============================================================================
