----------------------------- MODULE TMSignerPV -----------------------------
(* privval.FilePV alone on its sign-state file, with process crashes at every point of
   saveSigned -> FilePVLastSignState.Save -> tempfile.WriteFileAtomic:

       Call(req)   CheckHRS + same-HRS branch + ed25519 Sign; for a fresh signature
                   saveSigned has set pv.LastSignState in MEMORY       (volatile)
       WriteTmp    O_SYNC write of the JSON into write-file-atomic-<rnd> (durable, not the state file)
       Rename      os.Rename(temp, stateFile)                            (atomic replace)
       Return      SignVote/SignProposal returns nil: the signature is released
       Crash       process death; the temp file, if any, stays in the directory
                   (a crash in the middle of the temp write leaves a torn temp file)
       Load        LoadFilePV: reads the state file only

   One abstract request that produces a fresh signature is the four steps Call, WriteTmp,
   Rename, Return; every other request is the single step Call.                           *)
EXTENDS TMSigner

CONSTANTS MaxHeight, MaxRound, Values, MaxTs, MaxCrashes, MaxCalls

VARIABLES
  pv_file,    \* durable: the sign-state file
  pv_tmp,     \* durable: TmpNone | TmpTorn | an lss record (stray temp file)
  pv_mem,     \* volatile: pv.LastSignState, or Down
  pc,         \* volatile: the call in flight
  released,   \* ghost: messages handed back with a nil error
  ncrash, ncall,
  act

pvvars == <<pv_file, pv_tmp, pv_mem, pc, released, ncrash, ncall, act>>

Types == {"proposal", "prevote", "precommit"}
Reqs == {q \in [t : Types, h : 1..MaxHeight, r : 0..MaxRound, v : Values \cup {Nil}, ts : 1..MaxTs] :
           q.t = "proposal" => q.v # Nil}
NoReq == [t |-> "none", h |-> 0, r |-> 0, v |-> Nil, ts |-> 0]

\* TLC cannot compare a record with a string: "absent" values are records of the same shape
Marker(k) == [h |-> k, r |-> k, s |-> k, sb |-> NoSB, sig |-> NoSig]
Down    == Marker(-1)     \* pv_mem: no process
TmpNone == Marker(-1)     \* pv_tmp: no temp file in the directory
TmpTorn == Marker(-2)     \* pv_tmp: a partially written temp file

Idle == [stage |-> "idle", req |-> NoReq, new |-> EmptyLSS, out |-> NoOut]

PVInit ==
  /\ pv_file = EmptyLSS /\ pv_tmp = TmpNone /\ pv_mem = EmptyLSS /\ pc = Idle
  /\ released = {} /\ ncrash = 0 /\ ncall = 0
  /\ act = [name |-> "Init"]

Call(req) ==
  /\ pc = Idle /\ pv_mem # Down /\ ncall < MaxCalls
  /\ LET res == SignResult(pv_mem, req) IN
       /\ ncall' = ncall + 1
       /\ IF res.kind = "new"
          THEN /\ pv_mem' = res.lss
               /\ pc' = [stage |-> "computed", req |-> req, new |-> res.lss, out |-> res.out]
               /\ released' = IF Weak_ReleaseBeforeSave THEN released \cup {Rel(req, res.out)} ELSE released
          ELSE /\ pv_mem' = pv_mem /\ pc' = pc
               /\ released' = IF res.kind = "err" THEN released ELSE released \cup {Rel(req, res.out)}
       /\ act' = [name |-> "Call", req |-> req, kind |-> res.kind, err |-> res.err, out |-> res.out]
  /\ UNCHANGED <<pv_file, pv_tmp, ncrash>>

WriteTmp ==
  /\ pc.stage = "computed"
  /\ pv_tmp' = pc.new
  /\ pc' = [pc EXCEPT !.stage = "tmp"]
  /\ act' = [name |-> "WriteTmp"]
  /\ UNCHANGED <<pv_file, pv_mem, released, ncrash, ncall>>

Rename ==
  /\ pc.stage = "tmp"
  /\ pv_file' = pv_tmp /\ pv_tmp' = TmpNone
  /\ pc' = [pc EXCEPT !.stage = "renamed"]
  /\ act' = [name |-> "Rename"]
  /\ UNCHANGED <<pv_mem, released, ncrash, ncall>>

Return ==
  /\ pc.stage = "renamed"
  /\ released' = released \cup {Rel(pc.req, pc.out)}
  /\ pc' = Idle
  /\ act' = [name |-> "Return", req |-> pc.req, out |-> pc.out]
  /\ UNCHANGED <<pv_file, pv_tmp, pv_mem, ncrash, ncall>>

Crash ==
  /\ pv_mem # Down /\ ncrash < MaxCrashes
  /\ pv_mem' = Down /\ pc' = Idle /\ ncrash' = ncrash + 1
  /\ \E torn \in BOOLEAN :
       /\ torn => pc.stage = "computed"
       /\ pv_tmp' = IF torn THEN TmpTorn ELSE pv_tmp
       /\ act' = [name |-> "Crash", stage |-> pc.stage, torn |-> torn, req |-> pc.req]
  /\ UNCHANGED <<pv_file, released, ncall>>

Load ==
  /\ pv_mem = Down
  /\ pv_mem' = LoadLSS(pv_file)
  /\ act' = [name |-> "Load"]
  /\ UNCHANGED <<pv_file, pv_tmp, pc, released, ncrash, ncall>>

PVNext == (\E q \in Reqs : Call(q)) \/ WriteTmp \/ Rename \/ Return \/ Crash \/ Load
PVSpec == PVInit /\ [][PVNext]_pvvars

\* ------------------------------------------------------------------ properties
NoConflictingRelease == NoConflictIn(released)
PersistBeforeRelease == [][\A x \in released' \ released : Persisted(pv_file, x)]_pvvars
HRSMonotone          == [][LssLeq(pv_file, pv_file')]_pvvars
ReleasedSigOverMsg   == \A x \in released : SigOverMessage(x)
\* memory never lags behind the file, and is ahead of it only inside saveSigned
MemAheadOnlyInSave   == pv_mem # Down => (LssLeq(pv_file, pv_mem) /\ (pc = Idle => pv_mem = pv_file))
\* a stray temp file never becomes the state
TmpIgnored           == [][act'.name = "Load" => pv_mem' = pv_file]_pvvars

PVView == <<pv_file, pv_tmp, pv_mem, pc, released, ncrash, ncall>>
=============================================================================
