--------------------------- MODULE TMMempoolLockObs ---------------------------
(* The observer of property C05's last sentence, shared by the design spec TMMempoolLock and
   the trace spec TMMempoolLockTrace (operators only, no variables).

   The window of the property is opened by the Commit REQUEST on the consensus connection and
   closed when mempool.Update has returned AND every recheck request of that update has been
   issued on the mempool connection (the connection is FIFO: whatever is issued afterwards is
   executed after the rechecks).  `infl` = new-transaction checks issued and not yet answered. *)
EXTENDS Integers, Sequences, FiniteSets, TLC

\* ----------------------------------------------------------------------------- the observer (= the property)
\* It sees exactly the events the harness can stamp on real code.
ObsInit == [window |-> FALSE, updEnd |-> FALSE, need |-> 0, issued |-> 0, infl |-> {}]

Ev(name, kind, id, n) == [ev |-> name, kind |-> kind, id |-> id, n |-> n]

Obs(o, e) ==
  CASE e.ev = "CommitReq"  -> [o EXCEPT !.window = TRUE, !.updEnd = FALSE, !.need = 0, !.issued = 0]
    [] e.ev = "UpdateEnd"  -> [o EXCEPT !.updEnd = TRUE, !.need = e.n, !.window = o.window /\ o.issued < e.n]
    [] e.ev = "CheckIssue" -> IF e.kind = "new" THEN [o EXCEPT !.infl = o.infl \cup {e.id}]
                              ELSE [o EXCEPT !.issued = o.issued + 1,
                                             !.window = o.window /\ ~(o.updEnd /\ o.issued + 1 >= o.need)]
    [] e.ev = "CheckEnd"   -> IF e.kind = "new" THEN [o EXCEPT !.infl = o.infl \ {e.id}] ELSE o
    [] OTHER               -> o

\* class of the violation committed by event e in observer state o ("" = none)
ObsBad(o, e) ==
  IF e.ev = "CommitReq" /\ o.infl # {} THEN "new_check_in_flight_at_commit_request"
  ELSE IF e.ev = "CheckIssue" /\ e.kind = "new" /\ o.window
       THEN (IF o.updEnd THEN "new_check_started_before_last_recheck_request"
             ELSE "new_check_started_during_commit_or_update")
  ELSE ""

NoNewCheckAt(o) == o.window => o.infl = {}

=============================================================================
