CONSTANTS
  LieHeights = {2, 5}
  WithCoherent = TRUE
  CaseKinds = {"Tx"}
  Weak_NoTrustedHashCompare = FALSE
  Weak_NoBlockIDCompare = FALSE
  Weak_NoLastCommitBinding = FALSE
  Weak_TxNotBound = TRUE
  Weak_NoTxProofCheck = FALSE
  Weak_ResultsPreimage = FALSE
  Weak_ResultsHeightUnbound = FALSE
  Weak_NoResultsHashCompare = FALSE
  Weak_NoQueryProofCheck = FALSE
  Weak_AbsenceRawKey = FALSE
  Weak_NoParamsHashCompare = FALSE
  Weak_ValsNotHashed = FALSE
  Weak_BackwardsTargetNotRechecked = FALSE
  Weak_LatestPanicsWhenUpToDate = FALSE
  Weak_LatestUnverifiedWhenUpToDate = FALSE
  Weak_BackwardsCommitUnverified = FALSE
  CommitBlockIDValidated = FALSE
  Weak_EvidenceBoundByIdOnly = FALSE
  Weak_SearchProofFromCachedBlock = FALSE
INIT CaseInit
NEXT CaseNext
INVARIANTS RelaySound RelayComplete ExtraSound
CHECK_DEADLOCK FALSE
