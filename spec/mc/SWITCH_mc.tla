---- MODULE SWITCH_mc ----
EXTENDS TMSwitchSys
====
