CONSTANTS
  Weak_NoDialedIDCheck = FALSE
  Weak_NoNodeInfoIDCheck = FALSE
  Weak_NoSelfCheck = FALSE
INIT CaseInit
NEXT CaseNext
INVARIANTS IdentityBound SelfRefused
CHECK_DEADLOCK FALSE
