CONSTANTS
  MaxHeights = 2
  MaxDev = 2
  GenesisChoices = {"g1111"}
  WithPerturb = TRUE
  StrictMedian = TRUE
  AllSigIdx = FALSE
  Weak_DropLastResultsHash = FALSE
  Weak_DropConsensusHash = FALSE
  Weak_DropNextValsHash = FALSE
  Weak_DropProposerCheck = FALSE
  Weak_TimeGeq = FALSE
  Weak_MedianUnweighted = FALSE
  Weak_ValUpdatesEarly = FALSE
  Weak_ParamsBookkeeping = FALSE
  Weak_CommitAddrUnchecked = FALSE
  Weak_StoredResponsesDropParamUpdates = FALSE
  Weak_BudgetUsesCurrentVals = FALSE
INIT Init
NEXT Next
INVARIANTS MadeBlocksValid MedianIsExactWeightedMedian
VIEW ChainView
CHECK_DEADLOCK FALSE
