CONSTANTS
  MaxHeight = 8
  Initial = 3
  Boot = 0
  Batch = 2
  Ckpt = {}
  TwoPart = {5}
  ValChg = {4}
  ParChg = {3}
  MaxCrashes = 2
  MaxPrunes = 2
  Weak_SaveMetaBeforeParts = FALSE
  Weak_BSSBeforeData = FALSE
  Weak_NoHashIndex = FALSE
  Weak_DeleteBeforeBaseMove = FALSE
  Weak_IntermediateBaseOffByOne = FALSE
  Weak_PruneDropsLastChanged = FALSE
  Weak_PruneDropsCheckpoint = FALSE
  Weak_RecoveryDropsParamUpdates = FALSE
  Weak_PruneDropsParamsChanged = FALSE
INIT Init
NEXT Next
INVARIANTS AuditAfterReopen AuditLive MetaBlock PruneExact PruneExactState
CHECK_DEADLOCK FALSE
