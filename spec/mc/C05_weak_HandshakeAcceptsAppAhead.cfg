CONSTANTS
  MaxHeight = 2
  MaxCrashes = 1
  PlanId = 5
  EmitSched = FALSE
  MaxAppRollback = 2
  MaxTamper = 2
  InitialHeight = 1
  Discard = FALSE
  Weak_EndHeightBeforeSaveBlock = FALSE
  Weak_SaveStateBeforeAppCommit = FALSE
  Weak_NoABCIResponsesSaved = FALSE
  Weak_HandshakeReplaysCommitted = FALSE
  Weak_InitChainAlways = FALSE
  Weak_CommitWithoutMempoolLock = FALSE
  Weak_NoFlushBeforeCommit = FALSE
  Weak_NoEndHeightRepair = FALSE
  Weak_HandshakeAcceptsAppAhead = TRUE
  Weak_EmptyStoreAcceptsAppAhead = FALSE
  Weak_NoInitialHeightBase = FALSE
  Weak_ReplayDropsParamUpdates = FALSE
  Weak_CrashCopyDropsValUpdates = FALSE
INIT Init
NEXT Next
INVARIANTS JournalWellFormed
CHECK_DEADLOCK FALSE
