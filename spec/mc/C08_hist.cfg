CONSTANTS
  MaxTotal = 24
  IntMax = 199
  Pool = 3
  InitPowers = {1, 10}
  ChangePowers = {0, 1, 10}
  MaxChanges = 2
  MaxTimes = 2
  MaxSteps = 3
  Weak_ApplyBeforeVerify = FALSE
  Weak_IgnoreMissingRemoval = FALSE
  Weak_NoResort = FALSE
  Weak_NoPenalty = FALSE
  Weak_PenaltyMulOverflow = FALSE
  Weak_NoRescale = FALSE
  Weak_NoCentre = FALSE
  Weak_TieHighAddr = FALSE
  Weak_FloorDiv = FALSE
  Weak_RoundSkipSingleIncrement = FALSE
INIT Init
NEXT Next
INVARIANTS SetWellFormed AliasSound
PROPERTY UpdateStep
VIEW View
CHECK_DEADLOCK FALSE
