----------------------------- MODULE C17_alphabet -----------------------------
(* The hostile message-class alphabet as a case set: every case is an initial state, so that
   TLC enumerates it (the -dump is the work list of the Go harnesses) and checks that the
   specified reaction to every case is one the property allows.                          *)
EXTENDS TMReactorAlphabet
VARIABLE cs
AlphaInit == cs \in Cases
AlphaNext == UNCHANGED cs
\* the specification itself never prescribes anything but "drop that peer" or "keep it"
SpecOnlyDrops == Expect(cs) \in {"stop", "keep", "any"} /\ Consequence(cs) = "none"
WellFormedCase == /\ cs.reactor \in Reactors /\ cs.kind \in Kinds(cs.reactor)
                  /\ cs.fc \in FC(cs.reactor, cs.kind) /\ cs.ps \in PS(cs.reactor)
=============================================================================
