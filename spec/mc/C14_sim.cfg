\* simulation: 2 snapshots (twins) x 3 chunks x 2 peers x verdict scripts with <= 6 non-accept answers
CONSTANTS
  Peers <- C14_Peers
  Snaps <- C14_Snaps
  Bytes <- C14_Bytes2
  RefetchChoices <- C14_Refetch2
  RejectChoices <- C14_Reject2
  NChunks1 = 3
  NChunks2 = 2
  SameHF = TRUE
  Fetchers = 2
  MaxPerPeer = 10
  MaxArrive = 8
  MaxBad = 6
  MaxChurn = 5
  Atomic = TRUE
  InitPool <- C14_NoPool
  Fix_DropRejectedSenderChunks = TRUE
  Weak_AppHashFromPeer = FALSE
  Weak_SkipVerifyApp = FALSE
  Weak_VerifyHashOnly = FALSE
  Weak_NextUpAnyOrder = FALSE
  Weak_BlacklistForgets = FALSE
  Weak_RefetchIgnored = FALSE
  Weak_RejectSendersIgnored = FALSE
  Weak_DupOverwrites = FALSE
  Weak_RejectNotBlacklisted = FALSE
  Weak_FormatNotBlacklisted = FALSE
  Weak_NoSyncerLevelCheck = FALSE
  Weak_RemovePeerClearsBlacklist = FALSE
INIT Init
NEXT Next
INVARIANTS TrustedOnly VerifiedBeforeDone InOrder AsRecorded RefetchHonoured NeverReused NoNilChunk PoolClean BlacklistExact ReturnedIsApplied OutcomeShape
VIEW View
CHECK_DEADLOCK FALSE
