CONSTANTS
  Conns = {"consensus", "mempool", "query", "snapshot"}
  MaxCalls = 3
  Kinds = {"Async", "Sync", "FlushSync", "EchoSync"}
  Gates = TRUE
  Prio = TRUE
  Weak_LocalClientPerConnMutex = FALSE
  Weak_SyncWithoutMutex = FALSE
  Weak_CallbackOutsideMutex = FALSE
INIT Init
NEXT Next


CHECK_DEADLOCK FALSE
