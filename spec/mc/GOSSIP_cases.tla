---- MODULE GOSSIP_cases ----
(* Situation export: every compatible (node entry, peer entry, mode) of the menus is one initial state; the scripts the
   Go driver runs and the lack / gap classes the model sees in the situation travel with it. *)
EXTENDS GOSSIP_sys
VARIABLE cs
Classes(S) == {q.c : q \in S}
CaseInit ==
  /\ GInit
  /\ cs = [node |-> act.node, peer |-> act.peer, mode |-> act.mode, nscript |-> ScriptOf(act.node), pscript |-> ScriptOf(act.peer),
           lacks |-> Classes(Lacks(n, x, prs, kh)), gaps |-> Classes(GapItems(n, x, prs, kh)),
           dh |-> n.h - x.h, dr |-> RoundOf(n) - RoundOf(x), pstep |-> StepOf(x)]
CaseNext == UNCHANGED <<vars, cs>>
CaseView == cs
====
