------------------------------ MODULE C11_pool ------------------------------
(* TMEvidencePool on the contexts of C11_defs. *)
EXTENDS TMEvidencePool, C11_defs
=============================================================================
