\* pool facet with a bogus twin: same height and format, other hash / chunk count (ranking ties, chunks of one accepted by the other's queue)
CONSTANTS
  Peers <- C14_Peers
  Snaps <- C14_Snaps
  Bytes <- C14_Bytes
  RefetchChoices <- C14_Refetch0
  RejectChoices <- C14_Reject1
  NChunks1 = 1
  NChunks2 = 1
  SameHF = TRUE
  Fetchers = 0
  MaxPerPeer = 10
  MaxArrive = 2
  MaxBad = 2
  MaxChurn = 3
  Atomic = TRUE
  InitPool <- C14_NoPool
  Fix_DropRejectedSenderChunks = TRUE
  Weak_AppHashFromPeer = FALSE
  Weak_SkipVerifyApp = FALSE
  Weak_VerifyHashOnly = FALSE
  Weak_NextUpAnyOrder = FALSE
  Weak_BlacklistForgets = FALSE
  Weak_RefetchIgnored = FALSE
  Weak_RejectSendersIgnored = FALSE
  Weak_DupOverwrites = FALSE
  Weak_RejectNotBlacklisted = FALSE
  Weak_FormatNotBlacklisted = FALSE
  Weak_NoSyncerLevelCheck = FALSE
  Weak_RemovePeerClearsBlacklist = FALSE
INIT Init
NEXT Next
INVARIANTS TrustedOnly VerifiedBeforeDone InOrder AsRecorded RefetchHonoured NeverReused NoNilChunk PoolClean BlacklistExact ReturnedIsApplied OutcomeShape
VIEW View
CHECK_DEADLOCK FALSE
