----------------------------- MODULE C19_indexer -----------------------------
(* Model-checking instance of TMIndexerSM: a pool of candidate blocks per height with the
   value classes of DESIGN.md C19 (integers, "1.5", "10atom", "abc", "", "007", "y/z",
   multi-valued attributes, unindexed attributes) and a pool of queries covering every
   condition kind, the height / hash shortcuts and their combinations.                *)
EXTENDS TMIndexerSM

A(k, v) == [k |-> k, v |-> v, idx |-> TRUE]
U(k, v) == [k |-> k, v |-> v, idx |-> FALSE]
E(type, attrs) == [type |-> type, attrs |-> attrs]
T(tx, h, i, events) == [tx |-> tx, height |-> h, index |-> i, code |-> 0, events |-> events]
B(h, begin, end, txs) == [height |-> h, begin |-> begin, end |-> end, txs |-> txs]

b1a == B(1, <<E("blk", <<A("n", "5")>>)>>, <<E("blk", <<A("s", "x")>>)>>,
         <<T("t1", 1, 0, <<E("a", <<A("n", "10"), A("s", "x")>>)>>),
           T("t2", 1, 1, <<E("a", <<A("n", "7"), A("s", "xy")>>)>>)>>)
b1b == B(1, <<E("blk", <<A("n", "1.5")>>)>>, << >>,
         <<T("t3", 1, 0, <<E("a", <<A("n", "1.5")>>)>>),
           T("t4", 1, 1, <<E("a", <<A("n", "10atom"), A("s", "y/z")>>)>>)>>)
b1c == B(1, << >>, <<E("blk", <<A("n", "5"), A("s", "xy")>>)>>, << >>)
b2a == B(2, <<E("blk", <<A("n", "7")>>)>>, <<E("blk", <<A("n", "2")>>)>>,
         <<T("t5", 2, 0, <<E("a", <<A("n", "2")>>), E("a", <<A("n", "10")>>)>>)>>)
b2b == B(2, <<E("blk", <<A("s", "y/z")>>)>>, << >>,
         <<T("t6", 2, 0, <<E("a", <<A("n", "abc")>>), E("b", <<U("n", "3")>>)>>),
           T("t7", 2, 1, << >>),
           T("t8", 2, 2, <<E("a", <<A("s", ""), A("n", "007")>>), E("", <<A("n", "10")>>)>>)>>)
b3a == B(3, <<E("blk", <<A("n", "10")>>)>>, << >>,
         <<T("t9", 3, 0, <<E("a", <<A("n", "3"), A("s", "x")>>)>>)>>)
MCBlockPool == <<{b1a, b1b, b1c}, {b2a, b2b}, {b3a}>>

I(key, op, n) == Cond(key, op, "int", n)
F(key, op, n) == Cond(key, op, "float", n)
S(key, op, s) == Cond(key, op, "str", s)
X(key) == Cond(key, "EXISTS", "none", "")

MCTxQueries == {
  <<I("a.n", "=", "10")>>, <<I("a.n", "=", "7")>>, <<I("a.n", "=", "1")>>, <<I("a.n", ">", "5")>>,
  <<I("a.n", ">=", "7")>>, <<I("a.n", "<", "10")>>, <<I("a.n", "<=", "7")>>,
  <<I("a.n", ">", "1"), I("a.n", "<", "9")>>, <<I("a.n", ">=", "3"), I("a.n", "<=", "7")>>,
  <<F("a.n", ">", "2.5")>>, <<I("a.n", ">", "5"), I("a.n", ">", "1")>>,
  <<S("a.s", "=", "x")>>, <<S("a.s", "=", "y")>>, <<S("a.s", "=", "y/z")>>, <<S("a.s", "=", "")>>,
  <<S("a.s", "CONTAINS", "x")>>, <<S("a.s", "CONTAINS", "y")>>, <<S("a.s", "CONTAINS", "")>>,
  <<X("a.s")>>, <<X("a")>>, <<X("a.n")>>, <<X("b.n")>>, <<I("b.n", "=", "3")>>,
  <<I("tx.height", "=", "1")>>, <<I("tx.height", "=", "2")>>, <<I("tx.height", ">", "1")>>,
  <<I("tx.height", ">=", "1"), I("tx.height", "<", "3")>>,
  <<I("tx.height", "=", "1"), S("a.s", "=", "x")>>, <<S("a.s", "=", "x"), I("tx.height", "=", "3")>>,
  <<I("tx.height", "=", "1"), I("a.n", ">", "5")>>, <<I("tx.height", "=", "2"), X("a.n")>>,
  <<S("tx.hash", "=", "H(t1)")>>, <<S("tx.hash", "=", "H(t1)"), S("a.s", "=", "nope")>>,
  <<S("tx.hash", "=", "H(zz)")>>, <<I("tx.height", "=", "2"), S("tx.hash", "=", "H(t2)")>>,
  <<I("a.n", "=", "10"), S("a.s", "=", "x")>>, <<I("a.n", ">", "5"), S("a.s", "CONTAINS", "y")>>,
  <<I("a.n", "=", "2"), I("a.n", "=", "10")>> }

MCBlockQueries == {
  <<I("blk.n", "=", "5")>>, <<I("blk.n", ">", "3")>>, <<I("blk.n", "<", "6")>>, <<I("blk.n", "<=", "7")>>,
  <<I("blk.n", ">", "2"), I("blk.n", "<", "7")>>, <<F("blk.n", ">=", "1.5")>>, <<I("blk.n", "=", "1")>>,
  <<S("blk.s", "=", "x")>>, <<S("blk.s", "=", "y/z")>>, <<S("blk.s", "CONTAINS", "x")>>,
  <<S("blk.s", "CONTAINS", "y")>>, <<X("blk.s")>>, <<X("blk")>>, <<X("block.height")>>,
  <<I("block.height", "=", "1")>>, <<I("block.height", "=", "1"), S("blk.s", "=", "nope")>>,
  <<I("block.height", "=", "4")>>, <<I("block.height", ">", "1")>>,
  <<I("block.height", ">=", "1"), I("block.height", "<=", "2")>>,
  <<I("blk.n", "=", "5"), S("blk.s", "=", "x")>>, <<I("block.height", ">", "1"), I("blk.n", ">", "5")>> }
=============================================================================
