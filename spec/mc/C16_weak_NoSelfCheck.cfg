CONSTANTS
  Weak_NoDialedIDCheck = FALSE
  Weak_NoNodeInfoIDCheck = FALSE
  Weak_NoSelfCheck = TRUE
INIT CaseInit
NEXT CaseNext
INVARIANTS IdentityBound SelfRefused
CHECK_DEADLOCK FALSE
