---- MODULE GOSSIP_sys ----
(* exhaustive configurations of the gossip model: four validators of power 1 (quorum 3), two parts per block *)
EXTENDS TMGossipSys
GPW == [v \in Vals |-> 1]
GPS == <<"v0", "v1", "v2", "v3">>
GValSeq == <<"v0", "v1", "v2", "v3">>
E(hs, tail) == [hs |-> hs, tail |-> tail]
Tails0 == {"newheight", "propose", "prop", "prop_part0", "block", "block_pv2", "block_polka", "block_polka_pc2",
           "prop_polka", "polka_noprop", "nilpolka", "nilpolka_pcnil", "commit_noblock", "commit_part0", "block_pv2_wait", "ahead_pv1", "block_pc_mixed"}
TailsR == {"r1", "r1_prop", "r1_block_pv2", "r1_commit_noblock", "r1v", "r1v_reprop", "r1v_reprop_block", "r1_reprop_nopol",
           "r2", "r2_pv2"}
TailsD == {"decided_strag", "decided_eq", "eq_nil"}
\* quick: a cross-section of every family
QuickNode == {E(0, t) : t \in {"r1v", "prop_part0", "block_polka_pc2", "block_pc_mixed", "polka_noprop", "commit_part0", "r1v_reprop_block", "decided_eq", "ahead_pv1"}}
             \cup {E(1, t) : t \in {"newheight"}} \cup {E(2, t) : t \in {"propose"}}
QuickPeer == {E(0, t) : t \in {"propose", "block_pv2", "nilpolka", "commit_noblock", "r1_prop", "r1_reprop_nopol", "eq_nil", "block_pv2_wait"}}
             \cup {E(1, t) : t \in {"prop_part0"}}
FullNode == {E(0, t) : t \in Tails0 \cup TailsR \cup TailsD} \cup {E(1, t) : t \in Tails0 \cup {"r1_block_pv2", "decided_strag", "decided_eq"}}
            \cup {E(2, t) : t \in {"newheight", "propose", "block_pv2", "commit_part0", "decided_strag"}}
FullPeer == {E(0, t) : t \in Tails0 \cup TailsR \cup {"eq_nil"}} \cup {E(1, t) : t \in Tails0 \cup {"r1", "eq_nil"}}
            \cup {E(2, t) : t \in {"newheight", "propose", "prop_part0"}}
\* one named gap removed from the exemptions: TLC must then refute GossipComplete (the gap is real in the model)
NoG1 == AllGaps \ {"G1_PeerAheadRound"}
NoG2 == AllGaps \ {"G2_CommitOtherRound"}
NoG4 == AllGaps \ {"G4_POLRoundUnknown"}
NoG5 == AllGaps \ {"G5_HeaderUnknown"}
NoG6 == AllGaps \ {"G6_POLShadowedByCatchupRound"}
\* liveness (no starvation under weak fairness of the three routines): small menus, TLC checks the temporal property
LiveNode == {E(0, t) : t \in {"block_polka_pc2", "r1v_reprop_block", "decided_eq"}} \cup {E(2, "propose")}
LivePeer == {E(0, t) : t \in {"propose", "block_pv2_wait", "commit_noblock", "eq_nil"}}
\* non-vacuity menus: small, every Weak_* switch and every gap is exhibited
NVNode == {E(0, t) : t \in {"r1v", "commit_part0", "block_pc_mixed", "prop_part0", "polka_noprop", "r1v_reprop_block", "decided_eq", "ahead_pv1"}} \cup {E(2, "propose")}
NVPeer == {E(0, t) : t \in {"propose", "commit_noblock", "block_pv2_wait", "r1_prop", "r1_reprop_nopol", "eq_nil"}}
G3Node == {E(0, "r1v")}
G3Peer == {E(0, "r1_reprop_nopol")}
LiveNodeQ == {E(0, "decided_eq")}
LivePeerQ == {E(0, t) : t \in {"propose", "eq_nil"}}
====
