CONSTANTS
  N = 4
  Sizes <- MCSizes
  MaxVotes = 10000
  MaxParts = 1601
  Weak_BitArrayOpsAssumeEqualSize = FALSE
  Weak_LastCommitNilDeref = FALSE
  Weak_SetRoundRecreatesRound = TRUE
  MaxMsgs = 3
INIT GInit
NEXT GNext
INVARIANTS NeverCrashes NeverHalts StoredSizesBounded
VIEW GView
CHECK_DEADLOCK FALSE
