CONSTANTS
  Chain = "c"
  Calls <- CallsOne
  MaxCalls = 1
  Retries = 1
  MaxPings = 1
  MaxConns = 2
  DialRetries = 1
  MaxFaults = 2
  Prio = FALSE
  Hostile = FALSE
  Weak_KeepConnOnError = TRUE
  Weak_NoDropOnReadTimeout = FALSE
  Weak_PingNoMutex = FALSE
  Weak_ErrorIgnored = FALSE
  Weak_NoChainCheck = FALSE
  Weak_RetryOnRemoteError = FALSE
  Weak_RetrySwallowsError = FALSE
  Weak_PingSwallowsError = FALSE
  Weak_ReleaseBeforeSave = FALSE
  Weak_CheckHRSIgnoresStep = FALSE
  Weak_SameHRSResigns = FALSE
  Weak_TimestampOnlyComparesNothing = FALSE
  Weak_LoadResetsState = FALSE
  Weak_NoFlushBeforeSign = FALSE
SPECIFICATION FairSpec
PROPERTY SignerRedials
CHECK_DEADLOCK FALSE
