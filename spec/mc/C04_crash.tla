---- MODULE C04_crash ----
EXTENDS TMSignCrash
====
