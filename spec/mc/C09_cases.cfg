CONSTANTS
  H = 5
  CaseNows = {35, 60, 115, 135}
  CaseLevels = {1, 2}
  Weak_SkipTrustLevel = FALSE
  Weak_AdjacentIgnoresNextVals = FALSE
  Weak_NoExpiry = FALSE
  Weak_FutureHeaderOK = FALSE
  Weak_TrustLevelOnNewSet = FALSE
  Weak_MismatchAlsoCountsAsMatch = FALSE
  Weak_NoWitnessNeeded = FALSE
  Weak_BackwardsUnbound = FALSE
  Weak_ReplacementHashUnchecked = FALSE
  Weak_PromotedWitnessStays = FALSE
  Weak_PartialTraceOnBenignError = FALSE
  Weak_LaggingWitnessEqualTimeBenign = FALSE
  Weak_DivergentHeaderExaminedOncePerRun = FALSE
INIT CaseInit
NEXT CaseNext
INVARIANTS VerifierSound AdjacentSound NonAdjacentSound BackwardsSound GenuineAccepted
CHECK_DEADLOCK FALSE
