CONSTANTS
  BlockPool <- MCBlockPool
  TxQueries <- MCTxQueries
  BlockQueries <- MCBlockQueries
  Weak_RangeIgnoresUpper = TRUE
  Weak_PrefixMatchAsEquality = FALSE
  Weak_BatchSkipsFirst = FALSE
  Weak_TxEventLost = FALSE
INIT Init
NEXT Next
INVARIANTS IndexOnce NeverWedged TxSearchExactUpToKnown BlockSearchExactUpToKnown SearchSound
CHECK_DEADLOCK FALSE
