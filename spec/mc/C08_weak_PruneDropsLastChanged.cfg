\* non-vacuity: TLC MUST find a violation with this switch on
CONSTANTS
  MaxTotal = 1000
  IntMax = 8007
  Checkpoint = 4
  InitialHeight = 2
  MaxBlocks = 5
  Scenario = 1
  BootstrapToo = TRUE
  Discard = TRUE
  Weak_ApplyBeforeVerify = FALSE
  Weak_IgnoreMissingRemoval = FALSE
  Weak_NoResort = FALSE
  Weak_NoPenalty = FALSE
  Weak_PenaltyMulOverflow = FALSE
  Weak_NoRescale = FALSE
  Weak_NoCentre = FALSE
  Weak_TieHighAddr = FALSE
  Weak_FloorDiv = FALSE
  Weak_RoundSkipSingleIncrement = FALSE
  Weak_LoadSingleIncrement = FALSE
  Weak_LoadNoIncrement = FALSE
  Weak_LoadOffByOne = FALSE
  Weak_PruneDropsLastChanged = TRUE
  Weak_PruneDropsCheckpoint = FALSE
  Weak_NoCheckpointRecord = FALSE
  Weak_RecoveryCopyDropsValUpdates = FALSE
  Weak_PruneStatesOneTooFar = FALSE
INIT Init
NEXT Next
INVARIANTS LookupExact RecoveryExact ProposerDeterministic PruneKeeps TruthWellFormed ProposerIsMember PruneNeverFails
VIEW View
CHECK_DEADLOCK FALSE
