---- MODULE C09_client ----
EXTENDS TMLightClient
====
