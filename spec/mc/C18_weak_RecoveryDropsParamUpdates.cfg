CONSTANTS
  MaxHeight = 6
  Initial = 1
  Boot = 0
  Batch = 2
  Ckpt = {}
  TwoPart = {2, 5}
  ValChg = {2}
  ParChg = {3}
  MaxCrashes = 1
  MaxPrunes = 1
  Weak_SaveMetaBeforeParts = FALSE
  Weak_BSSBeforeData = FALSE
  Weak_NoHashIndex = FALSE
  Weak_DeleteBeforeBaseMove = FALSE
  Weak_IntermediateBaseOffByOne = FALSE
  Weak_PruneDropsLastChanged = FALSE
  Weak_PruneDropsCheckpoint = FALSE
  Weak_RecoveryDropsParamUpdates = TRUE
  Weak_PruneDropsParamsChanged = FALSE
INIT Init
NEXT Next
INVARIANTS AuditAfterReopen AuditLive MetaBlock PruneExact PruneExactState
CHECK_DEADLOCK FALSE
