------------------------------ MODULE C08_hist ------------------------------
(* One types.ValidatorSet object under a history of API calls:
     UpdateWithChangeSet(batch)   (accepted or refused)
     IncrementProposerPriority(k)
     Copy()                       (the object is replaced by its copy: Proposer no longer aliases)
     GetProposer()
   Behaviours of this machine (exhaustive graph in the quick tier, simulation in the
   thorough tier) are replayed call by call on a real object.                        *)
EXTENDS TMValSet
CONSTANTS Pool, InitPowers, ChangePowers, MaxChanges, MaxTimes, MaxSteps
VARIABLES set, steps, act
vars == <<set, steps, act>>

Addresses == 1..Pool
V(a, p) == [a |-> a, p |-> p]
RECURSIVE SeqsOver(_, _, _)
SeqsOver(addrs, powers, k) ==
  IF k = 0 THEN {<< >>}
  ELSE UNION {{<<V(a, p)>> \o rest : p \in powers, rest \in SeqsOver({b \in addrs : b > a}, powers, k - 1)} : a \in addrs}
Batches == UNION {SeqsOver(Addresses, ChangePowers, k) : k \in 1..MaxChanges}
Inits == {i \in UNION {SeqsOver(Addresses, InitPowers, k) : k \in 1..2} : SumSeq([j \in DOMAIN i |-> i[j].p]) <= MaxTotal}

NoArgs == [batch |-> << >>, times |-> 0, err |-> "none"]
Init == \E i \in Inits :
          /\ set = NewValidatorSet(i).set
          /\ steps = 0
          /\ act = [NoArgs EXCEPT !.batch = i] @@ [name |-> "New"]

Update(b) ==
  LET r == UpdateWithChangeSet(set, b) IN
  /\ set' = r.set
  /\ act' = [NoArgs EXCEPT !.batch = b, !.err = r.err] @@ [name |-> "Update"]
Inc(k) ==
  /\ set' = IncrementProposerPriority(set, k)
  /\ act' = [NoArgs EXCEPT !.times = k] @@ [name |-> "Inc"]
Copy ==
  /\ set.alias
  /\ set' = CopySet(set)
  /\ act' = NoArgs @@ [name |-> "Copy"]
GetProp ==
  /\ set' = GetProposer(set).set
  /\ act' = NoArgs @@ [name |-> "GetProposer"]

Next == /\ steps < MaxSteps
        /\ steps' = steps + 1
        /\ \/ \E b \in Batches : Update(b)
           \/ \E k \in 1..MaxTimes : Inc(k)
           \/ Copy
           \/ (set.prop = NoVal /\ GetProp)
Spec == Init /\ [][Next]_vars

SetWellFormed == WellFormed(set.vals) /\ NoClip(set.vals) /\ Centred(set.vals)
\* an aliasing proposer is a member, value for value
AliasSound == set.alias => \E i \in DOMAIN set.vals : set.vals[i] = set.prop
\* a refused batch leaves the object untouched; an accepted one matches the reference
UpdateStep ==
  [][act'.name = "Update" =>
       /\ (act'.err # "none" => set' = set)
       /\ LET ref == RefUpdate(set.vals, act'.batch) IN (act'.err = "none") = ref.ok /\ set'.vals = ref.vals
       /\ act'.err = "none" => PrioBounded(set'.vals)]_vars
View == <<set, steps>>
=============================================================================
