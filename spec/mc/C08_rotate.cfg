CONSTANTS
  MaxTotal = 24
  IntMax = 199
  Pool = 3
  InitPowers = {1, 2, 10}
  MaxInit = 3
  Warmups = {0, 1, 4}
  FirstBatches = 1
  MaxTimes = 6
  Weak_ApplyBeforeVerify = FALSE
  Weak_IgnoreMissingRemoval = FALSE
  Weak_NoResort = FALSE
  Weak_NoPenalty = FALSE
  Weak_PenaltyMulOverflow = FALSE
  Weak_NoRescale = FALSE
  Weak_NoCentre = FALSE
  Weak_TieHighAddr = FALSE
  Weak_FloorDiv = FALSE
  Weak_RoundSkipSingleIncrement = FALSE
INIT CaseInit
NEXT CaseNext
INVARIANTS RotationMatchesRef Fair ComposesWhenFresh Proportional RotationWindow
CHECK_DEADLOCK FALSE
