CONSTANTS
  Weak_BitArrayUnchecked = TRUE
  Weak_ProposalTotalUnbounded = FALSE
INIT AlphaInit
NEXT AlphaNext
INVARIANTS SpecOnlyDrops WellFormedCase
CHECK_DEADLOCK FALSE
