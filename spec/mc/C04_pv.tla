---- MODULE C04_pv ----
EXTENDS TMSignerPV
====
