CONSTANTS
  MaxHeight = 1
  MaxRound = 1
  Values = {"A", "B"}
  MaxTs = 2
  MaxCrashes = 2
  MaxCalls = 3
  Weak_ReleaseBeforeSave = FALSE
  Weak_CheckHRSIgnoresStep = FALSE
  Weak_SameHRSResigns = FALSE
  Weak_TimestampOnlyComparesNothing = FALSE
  Weak_LoadResetsState = FALSE
  Weak_NoFlushBeforeSign = FALSE
INIT PVInit
NEXT PVNext
INVARIANTS NoConflictingRelease ReleasedSigOverMsg MemAheadOnlyInSave
PROPERTIES PersistBeforeRelease HRSMonotone TmpIgnored
VIEW PVView
CHECK_DEADLOCK FALSE
