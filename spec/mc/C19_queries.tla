----------------------------- MODULE C19_queries -----------------------------
(* Exports the query pools of C19_indexer to the runner: every query is an initial state. *)
EXTENDS C19_indexer
VARIABLE cs
QInit == Init /\ cs \in {[kind |-> "tx", q |-> q] : q \in MCTxQueries} \cup {[kind |-> "block", q |-> q] : q \in MCBlockQueries}
QNext == UNCHANGED <<vars, cs>>
=============================================================================
