CONSTANTS
  MaxHeight = 2
  MaxCrashes = 1
  PlanId = 4
  EmitSched = TRUE
  MaxAppRollback = 0
  MaxTamper = 0
  InitialHeight = 5
  Discard = FALSE
  Weak_EndHeightBeforeSaveBlock = FALSE
  Weak_SaveStateBeforeAppCommit = FALSE
  Weak_NoABCIResponsesSaved = FALSE
  Weak_HandshakeReplaysCommitted = FALSE
  Weak_InitChainAlways = FALSE
  Weak_CommitWithoutMempoolLock = FALSE
  Weak_NoFlushBeforeCommit = FALSE
  Weak_NoEndHeightRepair = FALSE
  Weak_HandshakeAcceptsAppAhead = FALSE
  Weak_EmptyStoreAcceptsAppAhead = FALSE
  Weak_NoInitialHeightBase = FALSE
  Weak_ReplayDropsParamUpdates = FALSE
  Weak_CrashCopyDropsValUpdates = FALSE
INIT Init
NEXT Next
INVARIANTS PcKnown JournalWellFormed HeightsAgree CursorsWithinOne WalEndImpliesStored NoStuck StateIsChainState MempoolBracket ResponsesBeforeCommit
POSTCONDITION PostSched
CHECK_DEADLOCK TRUE
