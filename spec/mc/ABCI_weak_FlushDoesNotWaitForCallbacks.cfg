CONSTANTS
  Threads = {t1, t2}
  MaxCalls = 2
  MaxTimer = 0
  QCap = 2
  CallKinds = {"AsyncA", "SyncB", "FlushSync"}
  Server = "honest"
  Faults = {"panic"}
  MaxFaults = 1
  Chunked = FALSE
  UserStop = FALSE
  SetCb = TRUE
  Gates = FALSE
  Prio = FALSE
  Spill = FALSE
  Weak_FlushDoesNotWaitForCallbacks = TRUE
  Weak_ResponseMatchedByTypeOnly = FALSE
  Weak_NoTypeCheck = FALSE
  Weak_CallbackSetAfterDoneLost = FALSE
  Weak_ErrorLeavesPendingBlocked = FALSE
  Weak_SendBeforeTrack = FALSE
  Weak_ExceptionIgnored = FALSE
  Weak_FlushQueueKeepsSent = FALSE
  Weak_InHandLost = FALSE
  Weak_DeadQueueBlocks = FALSE
INIT Init
NEXT Next
INVARIANTS FlushMeaning
VIEW View
SYMMETRY SymT
CHECK_DEADLOCK FALSE
