CONSTANTS
  Weak_NoCapacityCheck = FALSE
  Weak_EOFIgnored = TRUE
  Weak_SharedRecvBuffer = FALSE
  Weak_NoRecover = FALSE
  Weak_EmptyMsgLost = FALSE
  Cfg <- MCCfg
  Honest = {"h"}
  Hostile = {}
  Sizes = {0, 1, 2, 3, 5, 6}
  MaxMsgs = 1
  MaxHostile = 0
  MaxPings = 1
INIT Init
NEXT Next
INVARIANTS ExactlyOnceInOrder DrainedComplete NoStuckMessage BoundedBuffer QueueSize HostileOnlyDrops
PROPERTY StoppedIsFinal
VIEW SysView
CHECK_DEADLOCK FALSE
