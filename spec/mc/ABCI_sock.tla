---- MODULE ABCI_sock ----
EXTENDS TMAbciSocket
SymT == Permutations(Threads)
====
