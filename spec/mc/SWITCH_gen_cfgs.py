import sys
def gen(name, **ov):
    base={ "NodeIDs":'{"a", "b"}', "Persistent":'{"a"}', "Unconditional":'{"b"}', "Reactors":'{"r1", "r2"}',
     "SameIP":"FALSE","AllowDupIP":"TRUE","MaxInbound":"1","MaxInst":"3","MaxIncoming":"2","MaxDials":"2","MaxStops":"2","MaxTries":"1",
     "DialTids":'{"d1", "d2"}',"StopTids":'{"s1", "s2"}',"RecTids":'{"q1", "q2"}',"SplitMarks":"FALSE","FixedRChoice":"FALSE",
     "AsIs_StopNotExclusive":"FALSE","AsIs_NoLifecycleLock":"FALSE","AsIs_MarksNotAtomic":"FALSE"}
    weak=["NoRemovalFlag","RemoveBeforeReactors","AddPeerBeforeSetAdd","StartAfterAdd","NoDialingMark","DialingMarkLeak","ReconnectMarkLeak",
     "NoCleanupOnAddFail","InboundLimitOffByOne","UnconditionalCounted","NoReconnectOnError","CleanupKeepsConn","StaleStopGuardDropped"]
    for w in weak: base["Weak_"+w]="FALSE"
    inv=["TypeOK","I_CallbackOrder","I_CallbackStates","I_PeerSetCoversActive","I_SetMembersStarted","I_NoZombieAtRest","I_OneDialPerID",
     "I_OneReconnectLoop","I_NoOrphanMarks","I_ConnsCovered","I_ConnsAtRest","I_MembersHaveConn","I_InboundLimit","I_UnconditionalExempt","I_NoOverflow","I_RedialAtRest","I_StaleErrStopIsNoop"]
    view=True; spec=None; props=None
    for k,v in ov.items():
        if k=="INV": inv=v
        elif k=="NOVIEW": view=False
        elif k=="SPEC": spec=v
        elif k=="PROP": props=v
        else:
            assert k in base, k
            base[k]=v
    out="CONSTANTS\n"+"".join("  %s = %s\n"%(k,v) for k,v in base.items())
    out+=("SPECIFICATION %s\n"%spec) if spec else "INIT Init\nNEXT Next\n"
    if view and not props: out+="VIEW View\n"
    out+="CHECK_DEADLOCK FALSE\n"
    if inv: out+="INVARIANTS "+" ".join(inv)+"\n"
    if props: out+="PROPERTIES "+" ".join(props)+"\n"
    open("/verif/spec/mc/SWITCH_%s.cfg"%name,"w").write(out)
T,F="TRUE","FALSE"
gen("base")
gen("mid", MaxDials="1", MaxIncoming="2", MaxStops="2", MaxInst="3")
gen("quick", MaxDials="1", MaxIncoming="1", MaxStops="2", MaxInst="3")
gen("dupip", SameIP=T, AllowDupIP=F, MaxDials="1", MaxStops="1")
gen("nouncond", Unconditional="{}", Persistent='{"a", "b"}', MaxDials="1", MaxStops="1", MaxInbound="1", MaxInst="2")
ASIS=dict(AsIs_StopNotExclusive=T, AsIs_NoLifecycleLock=T)
for inv in ["CallbackOrder","PeerSetCoversActive","MembersHaveConn"]:
    gen("asis_"+inv, INV=["I_"+inv], MaxIncoming="0", MaxDials="1", MaxInst="2", **ASIS)
gen("asis_addafterremove", INV=["I_CallbackOrder"], AsIs_NoLifecycleLock=T, MaxStops="1", MaxIncoming="0")
gen("asis_neveradded", INV=["I_PeerSetCoversActive"], AsIs_NoLifecycleLock=T, MaxStops="1", MaxDials="1", MaxIncoming="1", MaxInst="2")
#gen("asis_rest", INV=["TypeOK","I_CallbackStates","I_SetMembersStarted","I_NoZombieAtRest","I_OneDialPerID","I_OneReconnectLoop","I_NoOrphanMarks",

gen("asis_marks_dial", INV=["I_OneDialPerID"], SplitMarks=T, AsIs_MarksNotAtomic=T, MaxStops="0", MaxIncoming="0")
gen("asis_marks_rec", INV=["I_OneReconnectLoop"], SplitMarks=T, AsIs_MarksNotAtomic=T, MaxStops="1", MaxIncoming="0", MaxDials="2", Persistent='{"a"}')
gen("marks_atomic", SplitMarks=T, MaxDials="2", MaxStops="1", MaxIncoming="0")
W={"NoRemovalFlag":(["I_NoZombieAtRest"],dict(AsIs_NoLifecycleLock=T, MaxDials="1", MaxIncoming="0", MaxStops="1", MaxInst="2")),
   "RemoveBeforeReactors":(["I_PeerSetCoversActive"],{}),
   "AddPeerBeforeSetAdd":(["I_PeerSetCoversActive"],{}),
   "StartAfterAdd":(["I_SetMembersStarted","I_CallbackStates"],{}),
   "NoDialingMark":(["I_OneDialPerID"],{}),
   "DialingMarkLeak":(["I_NoOrphanMarks"],{}),
   "ReconnectMarkLeak":(["I_NoOrphanMarks"],{}),
   "NoCleanupOnAddFail":(["I_ConnsCovered","I_ConnsAtRest"],{}),
   "InboundLimitOffByOne":(["I_InboundLimit"],dict(Unconditional="{}", MaxDials="0", MaxStops="0")),
   "UnconditionalCounted":(["I_UnconditionalExempt"],dict(MaxDials="0", MaxStops="0")),
   "CleanupKeepsConn":(["I_ConnsCovered","I_ConnsAtRest"],dict(MaxDials="1", MaxIncoming="0", MaxStops="1")),
   "StaleStopGuardDropped":(["I_StaleErrStopIsNoop"],dict(AsIs_StopNotExclusive=T, MaxDials="1", MaxIncoming="0", MaxStops="2", MaxInst="2")),
}
for w,(inv,ov) in W.items():
    gen("weak_"+w, INV=inv, **dict(ov, **{"Weak_"+w:T}))
gen("weak_NoReconnectOnError", INV=[], SPEC="FairSpec", PROP=["Redial"], Weak_NoReconnectOnError=T, MaxDials="0", MaxStops="1", MaxIncoming="1", MaxInst="2")
gen("live", INV=[], SPEC="FairSpec", PROP=["Redial"], MaxDials="1", MaxStops="1", MaxIncoming="1", MaxInst="3")
RP=dict(NOVIEW=1, INV=[], FixedRChoice=T, NodeIDs='{"a"}', Unconditional="{}", MaxInst="2", DialTids='{"d1"}', StopTids='{"s1", "s2"}')
gen("replay", MaxDials="1", MaxStops="1", MaxIncoming="0", **dict(RP, **ASIS))
gen("replay_b", MaxDials="0", MaxStops="1", MaxIncoming="1", **dict(RP, **ASIS))
gen("replay_c", MaxDials="1", MaxStops="0", MaxIncoming="1", **dict(RP, **ASIS))
gen("replay_d", MaxDials="0", MaxStops="2", MaxIncoming="1", **dict(RP, **ASIS))
gen("replay_e", MaxDials="1", MaxStops="1", MaxIncoming="1", **dict(RP, **ASIS))
gen("replay_f", MaxDials="1", MaxStops="2", MaxIncoming="0", **dict(RP, MaxInst="3", **ASIS))
gen("sim", NOVIEW=1, INV=[], MaxDials="3", MaxStops="4", MaxIncoming="3", MaxInst="6", MaxTries="0", DialTids='{"d1", "d2", "d3"}', StopTids='{"s1", "s2", "s3"}',
    RecTids='{"q1", "q2", "q3"}', **ASIS)
