CONSTANTS
  Universe <- U4
  Me = "v0"
  Genesis <- G3w
  Menu <- MenuNone
  MaxHeight = 1
  MaxRound = 1
  InvalidValues = {"ZX", "ZC"}
  EnvValues = {"Z0"}
  Weak = {}
  SkipChoices = {FALSE}
  LateRounds = {0, 1}
  OtherHeights = FALSE
  AllowRestart = FALSE
  AllowEquiv = FALSE
  EnvBudget = 0
  Bundles = TRUE
  EagerInternal = TRUE
INIT Init
NEXT Next
CHECK_DEADLOCK FALSE
INVARIANTS LastCommitValid ValsetSchedule ProposerDeterministic RotationNoUpdates NoEquivocation PrecommitJustified SkipOnlyWhenAll RestartPreserves NoPanic
PROPERTIES LastCommitGrows OtherHeightsIgnored
VIEW View
