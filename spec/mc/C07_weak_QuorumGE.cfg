CONSTANTS
  PVTier = 1
  MaxExotic = 1
  MaxExoticSmall = 1
  DeepExotic = 1
  NOf <- MCOf
  NAdd <- MCAdd
  NMul <- MCMul
  NDiv <- MCDiv
  NGt <- MCGt
  NMaxInt64 = 2147483647
  NMaxTotal = 268435455
  Weak_QuorumGE = TRUE
  Weak_LightCountsNil = FALSE
  Weak_NoDoubleSignCheck = FALSE
  Weak_SeenByCommitSlotRange = FALSE
  Weak_TrustsEncodedTotal = FALSE
  Weak_IncompleteIdSignsAsNil = FALSE
  Weak_NoBlockIDCheck = FALSE
  Weak_SignBytesIgnoreRound = FALSE
INIT CaseInit
NEXT CaseNext
INVARIANTS CaseSoundFull CaseSoundLight CaseSoundTrusting
CHECK_DEADLOCK FALSE
