CONSTANTS
  N = 4
  Sizes <- MCSizes
  MaxVotes = 10000
  MaxParts = 1601
  Weak_BitArrayOpsAssumeEqualSize = FALSE
  Weak_LastCommitNilDeref = TRUE
  Weak_SetRoundRecreatesRound = FALSE
  MaxMsgs = 3
INIT GInit
NEXT GNext
INVARIANTS NeverCrashes NeverHalts StoredSizesBounded
VIEW GView
CHECK_DEADLOCK FALSE
