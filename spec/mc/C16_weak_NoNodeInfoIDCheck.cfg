CONSTANTS
  Weak_NoDialedIDCheck = FALSE
  Weak_NoNodeInfoIDCheck = TRUE
  Weak_NoSelfCheck = FALSE
INIT CaseInit
NEXT CaseNext
INVARIANTS IdentityBound SelfRefused
CHECK_DEADLOCK FALSE
