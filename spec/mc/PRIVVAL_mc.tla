---- MODULE PRIVVAL_mc ----
EXTENDS TMRemoteSigner
\* request alphabets (cfg: Calls <- ...)
CallsVotes == {SignQ("c", "prevote", 1, 0, "A", 1), SignQ("c", "prevote", 1, 0, "B", 2), SignQ("c", "prevote", 1, 0, "A", 3),
               SignQ("c", "precommit", 1, 0, "A", 1)}
CallsMixed == {SignQ("c", "prevote", 1, 0, "A", 1), SignQ("c", "prevote", 1, 0, "B", 2), SignQ("c", "proposal", 1, 0, "A", 1),
               SignQ("x", "precommit", 1, 0, "A", 1), PubQ("c"), PubQ("x"), PingQ}
CallsFull  == CallsVotes \cup CallsMixed \cup {SignQ("c", "prevote", 1, 1, "B", 1), SignQ("x", "proposal", 2, 0, "B", 1)}
CallsOne   == {SignQ("c", "prevote", 1, 0, "A", 1), PingQ}
====
