CONSTANTS
  MaxLeaves = 4
  Weak_NoProofIndexBinding = TRUE
  Weak_AuntLenUnchecked = FALSE
  Weak_NoLeafCheck = FALSE
  Weak_TruncatedPosition = FALSE
INIT PSInit
NEXT PSNext
INVARIANTS PartBinds Reassembles
PROPERTY Idempotent
VIEW PSView
CHECK_DEADLOCK FALSE
