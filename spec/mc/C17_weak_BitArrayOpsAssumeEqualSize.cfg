CONSTANTS
  N = 4
  Sizes <- MCSizes
  MaxVotes = 10000
  MaxParts = 1601
  Weak_BitArrayOpsAssumeEqualSize = TRUE
  MaxMsgs = 3
INIT GInit
NEXT GNext
INVARIANTS NeverCrashes StoredSizesBounded
VIEW GView
CHECK_DEADLOCK FALSE
