--------------------------- MODULE HEIGHTS_mc ---------------------------
(* constants for the TLC configurations of TMConsensusHeightsSys *)
EXTENDS TMConsensusHeightsSys
U4 == <<"v0", "v1", "v2", "v3">>
U5 == <<"v0", "v1", "v2", "v3", "v4">>
G4 == <<[a |-> 1, p |-> 1], [a |-> 2, p |-> 1], [a |-> 3, p |-> 1], [a |-> 4, p |-> 1]>>
G3 == <<[a |-> 1, p |-> 1], [a |-> 2, p |-> 1], [a |-> 3, p |-> 1]>>
G4w == <<[a |-> 1, p |-> 2], [a |-> 2, p |-> 3], [a |-> 3, p |-> 1], [a |-> 4, p |-> 1]>>
G3w == <<[a |-> 1, p |-> 1], [a |-> 2, p |-> 2], [a |-> 3, p |-> 1]>>
\* the round-skip divergence (TMConsensusHeightsSys!CorridorSkip)
G572 == <<[a |-> 1, p |-> 5], [a |-> 2, p |-> 7], [a |-> 3, p |-> 2]>>
MenuSkip == {<< >>, <<[a |-> 1, p |-> 11]>>, <<[a |-> 1, p |-> 1]>>}
\* none / remove the node under test (it goes on following the chain without signing)
MenuRm == {<< >>, <<[a |-> 1, p |-> 0]>>}
MenuNone == {<< >>}
\* none / add v3 / lower v1
MenuQ == {<< >>, <<[a |-> 4, p |-> 1]>>, <<[a |-> 2, p |-> 1]>>}
\* none / remove v3 / raise v1
MenuA == {<< >>, <<[a |-> 4, p |-> 0]>>, <<[a |-> 2, p |-> 3]>>}
\* none / add v3 / remove v2
MenuB == {<< >>, <<[a |-> 4, p |-> 2]>>, <<[a |-> 3, p |-> 0]>>}
\* simulation menu: none (twice as likely would need weights; TLC draws uniformly) / power change / add / remove / batch
MenuSim == {<< >>, <<[a |-> 2, p |-> 3]>>, <<[a |-> 4, p |-> 0]>>, <<[a |-> 5, p |-> 2]>>, <<[a |-> 3, p |-> 0]>>,
            <<[a |-> 4, p |-> 3], [a |-> 5, p |-> 1]>>, <<[a |-> 1, p |-> 3]>>}
=============================================================================
