CONSTANTS
  MaxLeaves = 5
  Weak_NoProofIndexBinding = FALSE
  Weak_AuntLenUnchecked = FALSE
  Weak_NoLeafCheck = FALSE
  Weak_TruncatedPosition = FALSE
INIT CaseInit
NEXT CaseNext
INVARIANTS CaseProofBinds CaseGenuineVerifies
CHECK_DEADLOCK FALSE
