------------------------------ MODULE C07_export ------------------------------
(* Writes the case set of C07_cases (same constants) as NDJSON, one case per line, for the
   replay on the real functions.  The cases are produced seed by seed as sequences; the
   runner checks that the number of lines equals the number of cases TLC enumerated.  *)
EXTENDS C07_cases, SequencesExt, Json

SeedSeq == SetToSeq(Seeds)
CasesOfSeed(sd) == LET vv == SetToSeq(VecsOf(sd)) IN [i \in 1..Len(vv) |-> CaseFor(sd, vv[i])]

RECURSIVE ConcatAll(_, _)
ConcatAll(ss, i) == IF i > Len(ss) THEN << >> ELSE CasesOfSeed(ss[i]) \o ConcatAll(ss, i + 1)

ExportInit == /\ seed = 0 /\ cs = 0
              /\ ready = ndJsonSerialize("c07_cases.ndjson", ConcatAll(SeedSeq, 1))
ExportNext == UNCHANGED cvars
=============================================================================
