------------------------------ MODULE C18_node ------------------------------
(* TLC instance of TMStoreNode for property C18 (all C18_*.cfg use this module). *)
EXTENDS TMStoreNode
=============================================================================
