CONSTANTS
  Vals = {"v0", "v1", "v2"}
  Corr = {"v0", "v1"}
  Byz = {"v2"}
  PowerOf <- PW
  ProposerSeq <- PS
  MaxRound = 1
  InvalidValues = {"ZX"}
  ByzValues = {"Z0", "ZX"}
  Weak = {}
  LazyByz = TRUE
  TimeoutsOn = {"NewHeight", "Propose", "PrevoteWait", "PrecommitWait"}
INIT Init
NEXT Next
INVARIANTS Agreement DecisionValid NoPanic DecisionCertified NoEquivocation
VIEW View
CHECK_DEADLOCK FALSE
