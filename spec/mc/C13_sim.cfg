CONSTANTS
  T = 4
  Peers = {"h1", "l1", "l2"}
  Honest = {"h1"}
  ValsAt <- MC_ValsAt
  NilAt = {2}
  LieKinds <- MC_LieAll
  LiarStatus <- MC_StatusAll
  MaxLies = 4
  MaxJoins = 2
  MaxReq = 6
  MaxStatus = 2
  MaxRetry = 1
  MaxPending = 100
  PerPeer = 100
  Weak_NoCommitVerify = FALSE
  Weak_SaveBeforeValidate = FALSE
  Weak_NoRedo = FALSE
  Weak_SeenCommitUnchecked = FALSE
  Weak_ResetKeepsOwner = FALSE
  Weak_AcceptsFromPreviousPeer = FALSE
  Weak_RedoAlwaysCountsPending = FALSE
  Weak_NilSlotAddressUnchecked = FALSE
  Weak_StaleMaxPeerHeight = FALSE
  Weak_NoBlockValidation = FALSE
  Weak_PartSetNotCompared = FALSE
INIT Init
NEXT Next
INVARIANTS OnlyCanonical CommitCovers FullyValidated AppliedIsStored LiarsDropped PendingCounterExact AcceptOnlyFromAsked CleanHandover SeenCommitsClean TipWhenHonest PoolShape
CHECK_DEADLOCK FALSE
