------------------------------ MODULE C13_mc ------------------------------
(* Model-checking instances of TMFastSync for C13. *)
EXTENDS TMFastSync

\* validator sets: {2,1,1} up to height 2, a fourth validator from height 3 on
\* (totals 4 and 5: in both a quorum is reached before the last slot, so "quorum + extra
\* slots" exists; 2:1 sets with total = 0 mod 3 are covered by MC_ValsB)
MC_ValsAt == [h \in 1..(T + 2) |-> IF h <= 2 THEN <<2, 1, 1>> ELSE <<2, 1, 1, 1>>]
MC_ValsB  == [h \in 1..(T + 2) |-> <<1, 1, 1>>]
MC_ValsC  == [h \in 1..(T + 2) |-> <<3, 2, 1>>]

MC_StatusTip   == {[base |-> 1, height |-> T]}
MC_StatusAll   == {[base |-> 1, height |-> T], [base |-> 1, height |-> T - 2], [base |-> 1, height |-> T + 1],
                   [base |-> 2, height |-> T]}
MC_StatusLive  == {[base |-> 1, height |-> T], [base |-> 1, height |-> T + 2]}

MC_LieCommit == {"W", "WC", "noQuorum", "padBad", "padAddr", "addrEarly", "nilAddr"}
MC_LieAll    == {"W", "WC", "commitH", "quorumOnly", "noQuorum", "badEarly", "padBad", "padNil", "padAddr",
                 "addrEarly", "shortSet", "nilAddr", "heightUp", "heightDown"}
MC_LieHash   == {"W", "WC", "commitH", "padBad"}
MC_LieSmall  == {"W", "padBad", "nilAddr", "heightUp"}
=============================================================================
