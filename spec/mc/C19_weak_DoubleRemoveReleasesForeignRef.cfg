CONSTANTS
  Clients <- MCClients
  NQ = 1
  CmdCap = 1
  EvalQE <- MCEval
  Caps = {0, 1}
  EventIds = {1}
  MaxCalls = 6
  Weak_ErrorAbortsPublish = FALSE
  Weak_BlockOnFullBuffer = FALSE
  Weak_UnsubLeavesQuery = FALSE
  Weak_DoubleRemoveReleasesForeignRef = TRUE
INIT Init
NEXT Next
INVARIANTS ExactDelivery
VIEW PSView
CHECK_DEADLOCK FALSE
