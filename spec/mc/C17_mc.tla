------------------------------- MODULE C17_mc -------------------------------
(* Model-checking instance of TMMConnSys for C17: two channels, payload 2 (messages of up
   to 3 packets), send-queue capacities 2 and 1, receive capacities 5 and 4.            *)
EXTENDS TMMConnSys
MCCfg == [chans |-> <<1, 2>>,
          qcap  |-> (1 :> 2 @@ 2 :> 1),
          rcap  |-> (1 :> 5 @@ 2 :> 4),
          payload |-> 2, slack |-> 1]
MCSizesDeliver == {0, 1, 2, 3, 5, 6}      \* 0, 1, payload, payload+1, capacity (3 packets), capacity+1
MCSizesSmall   == {0, 3}
=============================================================================
