CONSTANTS
  Threads = {t1, t2}
  MaxCalls = 2
  MaxTimer = 0
  QCap = 2
  CallKinds = {"AsyncA", "SyncB"}
  Server = "raw"
  Faults = {"exception"}
  MaxFaults = 1
  Chunked = FALSE
  UserStop = TRUE
  SetCb = TRUE
  Gates = FALSE
  Prio = FALSE
  Spill = FALSE
  Weak_FlushDoesNotWaitForCallbacks = FALSE
  Weak_ResponseMatchedByTypeOnly = FALSE
  Weak_NoTypeCheck = FALSE
  Weak_CallbackSetAfterDoneLost = FALSE
  Weak_ErrorLeavesPendingBlocked = FALSE
  Weak_SendBeforeTrack = FALSE
  Weak_ExceptionIgnored = FALSE
  Weak_FlushQueueKeepsSent = FALSE
  Weak_InHandLost = FALSE
  Weak_DeadQueueBlocks = FALSE
INIT Init
NEXT Next
INVARIANTS FIFO_App RespOwn RespType RespOrder FlushMeaning CbOnce CbInOrder CbNotLost CbOwn NoPanic DoneOnce NoStuckCaller FaultStops ErrSticky HonestNoError HonestProgress
VIEW View
SYMMETRY SymT
CHECK_DEADLOCK FALSE
