---- MODULE C09_cases ----
(* Verifier case set: every (trusted block, new block, now, trust level) of the bounded
   universe is an initial state.  The code-shaped Verify of TMLight must imply the
   statement-shaped ValidStep (VerifierSound); every case is also executed on the real
   light.Verify / VerifyAdjacent / VerifyNonAdjacent / VerifyBackwards. *)
EXTENDS TMLight, TMLightWorld
CONSTANTS H, CaseNows, CaseLevels
VARIABLE cs
WBc == WorldBlocks(H)
CfgOf(l) == [period |-> 100, drift |-> 5, num |-> l, den |-> 3, mode |-> "skip"]
\* a trusted block has been verified before: well formed, of this chain, with its own validator set
TrustedCandidates == {b \in DOMAIN WBc : WBc[b].wf /\ WBc[b].vh = WBc[b].vsh}
CaseInit == cs \in [tb : TrustedCandidates, nb : DOMAIN WBc, now : CaseNows, lvl : CaseLevels]
CaseNext == UNCHANGED cs
T == WBc[cs.tb]
N == WBc[cs.nb]
\* what the code accepts is a valid step of the statement
VerifierSound == Verify(T, N, cs.now, CfgOf(cs.lvl)) = "ok" => ValidStep(T, N, cs.now, CfgOf(cs.lvl))
AdjacentSound == VerifyAdjacent(T, N, cs.now, CfgOf(cs.lvl)) = "ok" => ValidStep(T, N, cs.now, CfgOf(cs.lvl))
NonAdjacentSound == VerifyNonAdjacent(T, N, cs.now, CfgOf(cs.lvl)) = "ok" => ValidStep(T, N, cs.now, CfgOf(cs.lvl))
BackwardsSound == VerifyBackwards(N, T) => BackStep(T, N)
\* the genuine chain is accepted (adjacent steps, unexpired, not from the future)
GenuineAccepted ==
  (/\ cs.tb \in {"R1", "R2", "R3", "R4"} /\ cs.nb \in {"R2", "R3", "R4", "R5"} /\ N.h = T.h + 1
   /\ T.t + 100 > cs.now /\ N.t < cs.now + 5)
  => Verify(T, N, cs.now, CfgOf(cs.lvl)) = "ok"
====
