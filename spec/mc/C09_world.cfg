CONSTANTS
  H = 5
  PersonaNames = {"honest", "lunatic", "equiv", "silent", "notfound", "bad", "lag2", "lagcatch", "lagfuture", "flip2", "nopivot", "badpivot", "thin3", "weak3", "bound3", "future3", "past3", "malformed3", "badsig3", "lunatic3", "weak4bad", "weak4hole", "relay3", "relay4", "fwd_m1", "fwd_0", "fwd_p1", "lag3", "lag3adv", "lag23", "dup3", "dup4"}
INIT WInit
NEXT WNext
CHECK_DEADLOCK FALSE
