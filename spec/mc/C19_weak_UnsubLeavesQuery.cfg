CONSTANTS
  Clients <- MCClients
  NQ = 3
  CmdCap = 2
  EvalQE <- MCEval
  Caps = {0, 1}
  EventIds = {1, 2, 3}
  MaxCalls = 3
  Weak_ErrorAbortsPublish = FALSE
  Weak_BlockOnFullBuffer = FALSE
  Weak_UnsubLeavesQuery = TRUE
  Weak_DoubleRemoveReleasesForeignRef = FALSE
INIT Init
NEXT Next
INVARIANTS ExactDelivery ExplicitCancel RefCount NeverBlockedOnBuffered RegistryAgrees
PROPERTY Isolation
VIEW PSView
CHECK_DEADLOCK FALSE
