CONSTANTS
  Weak_StartFailureLeaksClients = TRUE
  Weak_KillWatchesConsensusOnly = FALSE
  Weak_KillIgnoresError = FALSE
INIT Init
NEXT Next
INVARIANTS ProxyProps
CHECK_DEADLOCK FALSE
