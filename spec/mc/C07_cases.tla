------------------------------ MODULE C07_cases ------------------------------
(* C07 case enumeration: every case (validator set, commit, call arguments) is an initial
   state; TLC evaluates the three transcribed functions and the reference predicate on each
   of them, under every trust fraction of Fracs.  The same case set is exported (C07_export)
   and replayed on the real functions.

   Numbers are TLC integers here (arithmetic interface of TMCommitVerify bound to + * \div >). *)
EXTENDS TMCommitVerify

CONSTANTS
  PVTier,      \* 1: quick power vectors, 2: thorough
  MaxExotic,   \* max number of "exotic" slots per commit for 4 validators (plain frame)
  MaxExoticSmall,  \* same for <= 3 validators
  DeepExotic       \* same for the power vector <<2,2,1,1>> (total 6: every 2/3 boundary is hit)

MCOf(k)     == k
MCAdd(a, b) == a + b
MCMul(a, b) == a * b
MCDiv(a, b) == a \div b
MCGt(a, b)  == a > b

\* ---------------------------------------------------------------- alphabet
Chain == "chain"
H == 5
R == 1
TrueBid == "A"          \* hash a, part-set header p
\* other block ids: "B" (other hash), "Ap" (same hash, other part-set header), "Z" (zero)

\* power vectors, non-increasing (NewValidatorSet sorts by power, then address); several
\* totals are divisible by 3 so that  > 2/3  and  >= 2/3  differ, others are 1 and 2 mod 3 so that
\* total*2/3 and total/3*2 differ
PVsQuick == {<< >>, <<1>>, <<1, 1>>, <<2, 1>>, <<1, 1, 1>>, <<3, 2, 1>>, <<1, 1, 1, 1>>, <<2, 2, 1, 1>>, <<2, 1, 1, 1>>, <<5, 2, 1, 1>>}
PVsMore  == {<<3, 3>>, <<2, 2, 2>>, <<4, 1, 1>>, <<7, 1, 1>>, <<3, 1, 1, 1>>, <<3, 3, 2, 1>>, <<4, 4, 3, 1>>,
             <<5, 5, 1, 1>>, <<4, 2, 2, 1>>, <<6, 3, 2, 1>>, <<3, 3, 3, 3>>}
PVs == IF PVTier = 1 THEN PVsQuick ELSE PVsQuick \cup PVsMore

ValId(i) == CASE i = 1 -> "v1" [] i = 2 -> "v2" [] i = 3 -> "v3" [] i = 4 -> "v4" [] OTHER -> "vx"
ValSetOf(pv) == [i \in 1..Len(pv) |-> [id |-> ValId(i), power |-> pv[i]]]

\* trust fractions <<num, den>>: the light client's range, the ends, one above 1, zero denominator
Fracs == {<<1, 3>>, <<1, 2>>, <<2, 3>>, <<1, 1>>, <<0, 1>>, <<3, 4>>, <<4, 3>>, <<1, 0>>}

MkSig(by, chain, type, h, r, bid, ts) == [by |-> by, chain |-> chain, type |-> type, h |-> h, r |-> r, bid |-> bid, ts |-> ts]
Garbage  == MkSig("garbage", "-", "-", 0, 0, "-", 0)    \* 64 bytes that are nobody's signature
EmptySig == MkSig("empty", "-", "-", 0, 0, "-", 0)      \* zero-length signature
OtherHash(b) == IF b = "B" THEN "A" ELSE "B"
OtherPSH(b)  == IF b = "A" THEN "Ap" ELSE "A"

\* the sign context honest signers used: sx = [chain, h, r, bid]
Honest(by, sx, ts) == MkSig(by, sx.chain, "precommit", sx.h, sx.r, sx.bid, ts)
SlotRec(flag, addr, ts, sig) == [flag |-> flag, addr |-> addr, ts |-> ts, sig |-> sig]

CoreKinds == {"absent", "ok", "nil_ok", "garbage"}
BaseKinds == {"absent", "ok", "nil_ok"}
ExoticKinds == {"garbage", "empty", "nil_bad", "nil_as_commit", "commit_as_nil", "oth_block", "oth_psh",
                "oth_height", "oth_round", "oth_chain", "oth_type", "oth_ts", "wrong_signer", "addr_oth",
                "dup", "unknown", "unk_flag", "absent_sig", "nil_dup"}

\* slot content of kind `kind` for the slot whose position-owner is `own`; `oth` is another
\* member of the set (or own when the set has one member)
SlotOf(kind, own, oth, sx, ts) ==
  CASE kind = "absent"        -> SlotRec("absent", "none", 0, EmptySig)
    [] kind = "ok"            -> SlotRec("commit", own, ts, Honest(own, sx, ts))
    [] kind = "nil_ok"        -> SlotRec("nil", own, ts, Honest(own, [sx EXCEPT !.bid = ZeroBid], ts))
    [] kind = "nil_bad"       -> SlotRec("nil", own, ts, Garbage)
    [] kind = "garbage"       -> SlotRec("commit", own, ts, Garbage)
    [] kind = "empty"         -> SlotRec("commit", own, ts, EmptySig)
    \* signed nil, presented with the for-block flag
    [] kind = "nil_as_commit" -> SlotRec("commit", own, ts, Honest(own, [sx EXCEPT !.bid = ZeroBid], ts))
    \* signed the block, presented with the nil flag
    [] kind = "commit_as_nil" -> SlotRec("nil", own, ts, Honest(own, sx, ts))
    [] kind = "oth_block"     -> SlotRec("commit", own, ts, Honest(own, [sx EXCEPT !.bid = OtherHash(sx.bid)], ts))
    [] kind = "oth_psh"       -> SlotRec("commit", own, ts, Honest(own, [sx EXCEPT !.bid = OtherPSH(sx.bid)], ts))
    [] kind = "oth_height"    -> SlotRec("commit", own, ts, Honest(own, [sx EXCEPT !.h = sx.h + 1], ts))
    [] kind = "oth_round"     -> SlotRec("commit", own, ts, Honest(own, [sx EXCEPT !.r = sx.r - 1], ts))
    [] kind = "oth_chain"     -> SlotRec("commit", own, ts, Honest(own, [sx EXCEPT !.chain = "chain2"], ts))
    [] kind = "oth_type"      -> SlotRec("commit", own, ts, MkSig(own, sx.chain, "prevote", sx.h, sx.r, sx.bid, ts))
    [] kind = "oth_ts"        -> SlotRec("commit", own, ts, Honest(own, sx, 99))
    \* right payload, signed by another member, presented in own's slot under own's address
    [] kind = "wrong_signer"  -> SlotRec("commit", own, ts, Honest(oth, sx, ts))
    \* own's signature presented under another member's address
    [] kind = "addr_oth"      -> SlotRec("commit", oth, ts, Honest(own, sx, ts))
    \* a whole copy of another member's vote (address and signature) in this slot
    [] kind = "dup"           -> SlotRec("commit", oth, ts, Honest(oth, sx, ts))
    [] kind = "nil_dup"       -> SlotRec("nil", oth, ts, Honest(oth, [sx EXCEPT !.bid = ZeroBid], ts))
    \* a signer that is not in the set
    [] kind = "unknown"       -> SlotRec("commit", "vx", ts, Honest("vx", sx, ts))
    [] kind = "unk_flag"      -> SlotRec("unknown", own, ts, Honest(own, sx, ts))
    \* flagged absent but carrying a perfectly good for-block signature
    [] kind = "absent_sig"    -> SlotRec("absent", own, ts, Honest(own, sx, ts))

\* ---------------------------------------------------------------- frames
\* a frame fixes what surrounds the slots: commit height / block id, the arguments of the
\* call, how many slots there are and which member owns which position
Frame(name, slots, rot, cH, cBid, aH, aBid, aChain, sx) ==
  [name |-> name, slots |-> slots, rot |-> rot, cH |-> cH, cBid |-> cBid, aH |-> aH, aBid |-> aBid,
   aChain |-> aChain, sx |-> sx]
SX0 == [chain |-> Chain, h |-> H, r |-> R, bid |-> TrueBid]
PlainFrame(n) == Frame("plain", n, 0, H, TrueBid, H, TrueBid, Chain, SX0)
\* frames that VerifyCommit / VerifyCommitLight refuse on their arguments alone (the trusting
\* variant takes none of these arguments): replayed with the base kinds only
ArgFrames(n) ==
  {Frame("arg_height", n, 0, H, TrueBid, H + 1, TrueBid, Chain, SX0),
   Frame("arg_bid_hash", n, 0, H, TrueBid, H, "B", Chain, SX0),
   Frame("arg_bid_psh", n, 0, H, TrueBid, H, "Ap", Chain, SX0),
   Frame("arg_bid_zero", n, 0, H, TrueBid, H, ZeroBid, Chain, SX0),
   Frame("long", n + 1, 0, H, TrueBid, H, TrueBid, Chain, SX0),
   \* incomplete id with part-set total 0, nil signatures flagged "commit"
   Frame("incomplete_bid0_nil_sigs", n, 0, H, "Aj", H, "Aj", Chain, [SX0 EXCEPT !.bid = ZeroBid]),
   \* signatures really made over the incomplete id: these do count
   Frame("incomplete_bid_own_sigs", n, 0, H, "Ai", H, "Ai", Chain, [SX0 EXCEPT !.bid = "Ai"]),
   \* complete commit, the caller passes the incomplete id of the same hash
   Frame("arg_bid_incomplete", n, 0, H, TrueBid, H, "Ai", Chain, SX0)}
  \cup (IF n >= 1 THEN {Frame("short", n - 1, 0, H, TrueBid, H, TrueBid, Chain, SX0)} ELSE {})
\* frames in which arguments and commit agree but the commit (or the chain id) is not what was signed
CommitFrames(n) ==
  {\* the commit claims another height than the one that was signed
   Frame("commit_height_lie", n, 0, H + 1, TrueBid, H + 1, TrueBid, Chain, SX0),
   \* the commit claims another block than the one that was signed
   Frame("commit_bid_lie", n, 0, H, "B", H, "B", Chain, SX0),
   Frame("commit_psh_lie", n, 0, H, "Ap", H, "Ap", Chain, SX0),
   \* commit for the zero block id: for-block and nil votes have the same sign bytes
   Frame("zero_bid", n, 0, H, ZeroBid, H, ZeroBid, Chain, [SX0 EXCEPT !.bid = ZeroBid]),
   Frame("arg_chain", n, 0, H, TrueBid, H, TrueBid, "chain2", SX0),
   \* the commit (and the caller) name an INCOMPLETE block id -- hash present, part-set header empty -- and is
   \* populated with the nil precommits of a timed-out round flagged "commit" ...
   Frame("incomplete_bid_nil_sigs", n, 0, H, "Ai", H, "Ai", Chain, [SX0 EXCEPT !.bid = ZeroBid]),
   \* ... or with signatures over the complete id of the same hash
   Frame("incomplete_bid_complete_sigs", n, 0, H, "Ai", H, "Ai", Chain, SX0)}
  \* the commit's slot order is a rotation of the set's order (a commit of another validator set)
  \cup (IF n >= 2 THEN {Frame("rot", n, 1, H, TrueBid, H, TrueBid, Chain, SX0)} ELSE {})

Owner(n, k, rot)  == IF n = 0 \/ k > n THEN "vx" ELSE ValId(((k - 1 + rot) % n) + 1)
Other(n, k, rot)  == IF n = 0 THEN "vx" ELSE ValId(((k + rot) % n) + 1)

\* ---------------------------------------------------------------- the wire (validator set decoded from its proto form)
\* wire == [path, total, proposer, prio]: how the validator set under test came into being
\*   path      none: built in memory (NewValidatorSet) | valset: ToProto -> bytes -> ValidatorSetFromProto
\*             | lightblock: inside a LightBlock (LightBlockFromProto; the commit travels with it)
\*   total     what the adversary wrote into the unauthenticated total_voting_power field
\*   proposer  which validator record sits in the (equally unauthenticated) proposer field
\*   prio      proposer priorities kept or scrambled
NoWire == [path |-> "none", total |-> "zero", proposer |-> "same", prio |-> "same"]
WV(path, total, proposer, prio) == [path |-> path, total |-> total, proposer |-> proposer, prio |-> prio]
TotalTags == {"zero", "one", "small", "half", "sum", "sum_plus_1", "max", "over"}
WireVariants ==
       {WV("valset", t, "same", "same") : t \in TotalTags}
  \cup {WV("valset", t, pr, "same") : t \in {"zero", "one"}, pr \in {"other", "outsider", "nil"}}
  \cup {WV("valset", t, "same", "scrambled") : t \in {"zero", "one"}}
  \cup {WV("lightblock", t, "same", "same") : t \in {"zero", "one", "small", "sum_plus_1"}}
  \cup {WV("lightblock", "one", "other", "scrambled")}
\* the number behind a tag, for the set vs
ForgedTotal(tag, vs) ==
  CASE tag = "zero"       -> N0                      \* what every honest encoder writes
    [] tag = "one"        -> NOf(1)
    [] tag = "small"      -> vs[1].power
    [] tag = "half"       -> NDiv(Total(vs), NOf(2))
    [] tag = "sum"        -> Total(vs)
    [] tag = "sum_plus_1" -> NAdd(Total(vs), NOf(1))
    [] tag = "max"        -> NMaxTotal
    [] tag = "over"       -> NAdd(NMaxTotal, NOf(1))
ProposerField(tag, vs) ==
  IF tag = "nil" THEN "nil" ELSE IF tag = "outsider" THEN "vx" ELSE IF tag = "other" THEN vs[Len(vs)].id ELSE vs[1].id

CaseOf(pv, f, kinds) ==
  LET n == Len(pv) IN
  [pv |-> pv, frame |-> f.name, kinds |-> kinds, wire |-> NoWire,
   chain |-> f.aChain, h |-> f.aH, bid |-> f.aBid,
   c |-> [height |-> f.cH, round |-> R, bid |-> f.cBid,
          sigs |-> [k \in 1..f.slots |-> SlotOf(kinds[k], Owner(n, k, f.rot), Other(n, k, f.rot), f.sx, 10 + k)]]]

\* ---------------------------------------------------------------- the case set, by seeds
\* A seed = (power vector, frame, which positions are exotic); the cases of a seed are its
\* kind vectors.  Seeds are the initial states, one Next step realizes a case, so that TLC's
\* workers evaluate the cases in parallel and no big set of big records is ever built.
CoreVecs(m) == [1..m -> CoreKinds]
ExoticBudget(pv) == IF pv = <<2, 2, 1, 1>> THEN DeepExotic ELSE IF Len(pv) >= 4 THEN MaxExotic ELSE MaxExoticSmall
LastKinds == {"dup", "nil_dup", "unknown", "addr_oth", "garbage", "ok"}

SeedsOf(pv) ==
  LET n == Len(pv) IN
       {[pv |-> pv, f |-> PlainFrame(n), mode |-> "exotic", P |-> Q, wire |-> NoWire] :
            Q \in {X \in SUBSET (1..n) : Cardinality(X) <= ExoticBudget(pv)}}
  \cup {[pv |-> pv, f |-> f, mode |-> "core", P |-> {}, wire |-> NoWire] : f \in CommitFrames(n)}
  \cup {[pv |-> pv, f |-> f, mode |-> "base", P |-> {}, wire |-> NoWire] : f \in ArgFrames(n)}
  \* extra slot beyond the set (only the trusting variant gets past the size check)
  \cup {[pv |-> pv, f |-> [PlainFrame(n) EXCEPT !.name = "long_exotic", !.slots = n + 1], mode |-> "longex", P |-> {}, wire |-> NoWire]}
  \* FOREIGN commits (what VerifyCommitLightTrusting is for): the commit belongs to another validator set, so its
  \* length m and slot order are decoupled from vs -- shorter and longer than vs, every slot absent, signed by an
  \* unknown key, or a valid for-block signature of ANY member of vs (also members whose index is >= m), the same
  \* member any number of times
  \cup {[pv |-> pv, f |-> [PlainFrame(n) EXCEPT !.name = "foreign", !.slots = m], mode |-> "foreign", P |-> {}, wire |-> NoWire] :
          m \in 1..(IF n = 0 THEN 0 ELSE IF n >= 4 THEN n ELSE n + 1)}
  \* WIRE: the set under test went through its proto form and an adversary rewrote the fields nothing
  \* authenticates; the commits are the plain ones (who signed: every subset of the members)
  \cup (IF n = 0 THEN {} ELSE
        {[pv |-> pv, f |-> [PlainFrame(n) EXCEPT !.name = "wire"], mode |-> "wire", P |-> {}, wire |-> w] : w \in WireVariants})
Seeds == UNION {SeedsOf(pv) : pv \in PVs}

\* a foreign commit from its signer vector: ow[k] = 0 unknown key, 1..n that member of vs, n+1 absent
CaseOfSigners(pv, f, ow) ==
  LET n == Len(pv)
      kindOf(k) == IF ow[k] = n + 1 THEN "absent" ELSE IF ow[k] = 0 THEN "unknown" ELSE "ok"
  IN
  [pv |-> pv, frame |-> f.name, kinds |-> [k \in 1..f.slots |-> kindOf(k)], wire |-> NoWire,
   chain |-> f.aChain, h |-> f.aH, bid |-> f.aBid,
   c |-> [height |-> f.cH, round |-> R, bid |-> f.cBid,
          sigs |-> [k \in 1..f.slots |-> SlotOf(kindOf(k), ValId(ow[k]), ValId(ow[k]), f.sx, 10 + k)]]]

\* kind vectors of a seed.  exotic: exactly the positions P are exotic, the others BaseKinds
VecsOf(sd) ==
  LET m == sd.f.slots IN
  IF sd.mode = "exotic"
  THEN {[k \in 1..m |-> IF k \in sd.P THEN ex[k] ELSE bs[k]] : ex \in [sd.P -> ExoticKinds], bs \in [(1..m) \ sd.P -> BaseKinds]}
  ELSE IF sd.mode = "core" THEN CoreVecs(m)
  ELSE IF sd.mode = "base" THEN [1..m -> BaseKinds]
  ELSE IF sd.mode = "foreign" THEN [1..m -> 0..(Len(sd.pv) + 1)]
  ELSE IF sd.mode = "wire" THEN (IF m >= 4 THEN [1..m -> {"absent", "ok"}] ELSE [1..m -> BaseKinds])
  ELSE {[k \in 1..m |-> IF k < m THEN bs[k] ELSE last] : bs \in [1..(m - 1) -> BaseKinds], last \in LastKinds}

CaseFor(sd, kv) ==
  IF sd.mode = "foreign" THEN CaseOfSigners(sd.pv, sd.f, kv)
  ELSE [CaseOf(sd.pv, sd.f, kv) EXCEPT !.wire = sd.wire]

\* ---------------------------------------------------------------- the checked state space
VARIABLES seed, cs, ready
cvars == <<seed, cs, ready>>
CaseInit == seed \in Seeds /\ cs = << >> /\ ready = FALSE
CaseNext == /\ ~ready
            /\ \E kv \in VecsOf(seed) : cs' = CaseFor(seed, kv)
            /\ ready' = TRUE
            /\ seed' = seed

In(c) == [vs |-> ValSetOf(c.pv), c |-> c.c, chain |-> c.chain, bid |-> c.bid, h |-> c.h]
\* the ValidatorSet object the functions are called on: built in memory, or decoded from the (tampered) wire form
Decoded(c) ==
  LET vs == ValSetOf(c.pv) IN
  IF c.wire.path = "none" THEN [ok |-> TRUE, err |-> "none", set |-> InMemory(vs)]
  ELSE DecodeValSet(Encode(vs, ProposerField(c.wire.proposer, vs), ForgedTotal(c.wire.total, vs)))
NoDecode == Reject("nodecode")
RFull(c)  == LET d == Decoded(c) IN IF d.ok THEN VerifyCommitOn(d.set, c.c, c.chain, c.bid, c.h) ELSE NoDecode
RLight(c) == LET d == Decoded(c) IN IF d.ok THEN VerifyCommitLightOn(d.set, c.c, c.chain, c.bid, c.h) ELSE NoDecode
RTrust(c, f) == LET d == Decoded(c) IN IF d.ok THEN VerifyCommitLightTrustingOn(d.set, c.c, c.chain, f[1], f[2]) ELSE NoDecode

\* C07, on the transcribed functions
CaseSoundFull     == ready => SoundFull(In(cs), RFull(cs))
CaseSoundLight    == ready => SoundLight(In(cs), RLight(cs))
CaseSoundTrusting == ready => \A f \in Fracs : SoundTrusting(In(cs), f[1], f[2], RTrust(cs, f))
CaseAgree         == ready => Agree(In(cs), RFull(cs), RLight(cs))
\* design-level facts about the transcription (not demanded by C07, they keep the spec honest)
\* a genuine commit signed by everybody is accepted by all three
CaseGenuineAccepted ==
  (ready /\ cs.frame = "plain" /\ Len(cs.pv) > 0 /\ \A k \in DOMAIN cs.kinds : cs.kinds[k] = "ok")
     => RFull(cs).ok /\ RLight(cs).ok /\ \A f \in {<<1, 3>>, <<1, 2>>, <<2, 3>>} : RTrust(cs, f).ok
\* decoding yields the same abstract set: nothing the adversary writes into the unauthenticated fields changes a verdict
CaseWireNeutral ==
  (ready /\ cs.wire.path # "none" /\ Decoded(cs).ok) =>
     LET vs == ValSetOf(cs.pv) IN
     /\ RFull(cs) = VerifyCommit(vs, cs.c, cs.chain, cs.bid, cs.h)
     /\ RLight(cs) = VerifyCommitLight(vs, cs.c, cs.chain, cs.bid, cs.h)
     /\ \A f \in Fracs : RTrust(cs, f) = VerifyCommitLightTrusting(vs, cs.c, cs.chain, f[1], f[2])
\* whatever the full variant accepts, the early-exit variant accepts
CaseFullImpliesLight == ready => (RFull(cs).ok => RLight(cs).ok)
\* a fraction above 1 or a zero denominator is never satisfied
CaseSillyFractions == ready => (~RTrust(cs, <<4, 3>>).ok /\ ~RTrust(cs, <<1, 0>>).ok)

\* coverage goals: each must be VIOLATED in the config with a small MaxInt64 / MaxTotalVotingPower
\* stand-in (C07_ovf.cfg) -- the safeMul overflow exit and the total-power panic are reachable
CovNoOverflow   == ready => \A f \in Fracs : RTrust(cs, f).err # "overflow"
CovNoPanicTotal == ready => RFull(cs).err # "panic_total"

\* the quorum formulations coincide on the whole range the cases use
ASSUME \A total \in 0..40 : \A t \in 0..total : QuorumIdentity(total, t)
ASSUME \A total \in 0..24 : \A t \in 0..total : \A f \in Fracs : f[2] # 0 => FractionIdentity(total, t, f[1], f[2])

=============================================================================
