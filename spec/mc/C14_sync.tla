------------------------------ MODULE C14_sync ------------------------------
(* Model-checking instance of TMStateSync: 2 snapshots x <=3 chunks x 2 peers. *)
EXTENDS TMStateSync

CONSTANTS NChunks1, NChunks2, SameHF

\* s1: the genuine-looking snapshot; s2: a second advertisement, either an older height in
\* another format or (SameHF) the same height/format with another hash (a bogus twin)
C14_S1 == [h |-> 2, f |-> 1, n |-> NChunks1, hash |-> "P:hashA", meta |-> "P:metaA"]
C14_S2 == IF SameHF THEN [h |-> 2, f |-> 1, n |-> NChunks2, hash |-> "P:hashB", meta |-> "P:metaB"]
                    ELSE [h |-> 1, f |-> 2, n |-> NChunks2, hash |-> "P:hashB", meta |-> "P:metaB"]
C14_Snaps == {C14_S1, C14_S2}
C14_Peers == {"pA", "pB"}
C14_Bytes == {"x"}
C14_Bytes2 == {"x", "y"}
C14_NoPool == << >>
C14_PoolS1 == (C14_S1 :> C14_Peers)
C14_PoolBoth == (C14_S1 :> {"pA"}) @@ (C14_S2 :> {"pB"})
C14_Refetch2 == {{}, {0}, {1}, {2}, {0, 1}}
C14_Refetch0 == {{}}
C14_Refetch1 == {{}, {0}, {1}}
C14_Reject0 == {{}}
C14_Reject1 == {{}, {"pA"}}
C14_Reject2 == {{}, {"pA"}, {"pB"}}
=============================================================================
