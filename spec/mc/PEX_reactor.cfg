CONSTANTS
  Peers = {"q1", "q2"}
  MaxNow = 5
  MinInterval = 2
  SeedMode = FALSE
  Weak_NoRateLimit = FALSE
  Weak_AcceptUnsolicited = FALSE
  Weak_RequestAlways = FALSE
  Weak_SeedAnswersEveryRequest = FALSE
  Weak_RemoveKeepsState = FALSE
  Weak_NoFreePassTracking = FALSE
INIT Init
NEXT Next
CHECK_DEADLOCK FALSE
VIEW View
INVARIANTS OneOutstanding RateLimited SeedOnce CleanWhenGone
PROPERTIES PropSolicited PropTooSoon
