CONSTANTS
  BlockPool <- MCBlockPool
  TxQueries <- MCTxQueries
  BlockQueries <- MCBlockQueries
  Weak_RangeIgnoresUpper = FALSE
  Weak_PrefixMatchAsEquality = FALSE
  Weak_BatchSkipsFirst = FALSE
  Weak_TxEventLost = FALSE
INIT Init
NEXT Next
INVARIANTS BlockSearchExact
CHECK_DEADLOCK FALSE
