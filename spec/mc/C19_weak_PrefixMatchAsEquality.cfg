CONSTANTS
  BlockPool <- MCBlockPool
  TxQueries <- MCTxQueries
  BlockQueries <- MCBlockQueries
  Weak_RangeIgnoresUpper = FALSE
  Weak_PrefixMatchAsEquality = TRUE
  Weak_BatchSkipsFirst = FALSE
  Weak_TxEventLost = FALSE
INIT Init
NEXT Next
INVARIANTS IndexOnce NeverWedged TxSearchExactUpToKnown BlockSearchExactUpToKnown SearchSound
CHECK_DEADLOCK FALSE
