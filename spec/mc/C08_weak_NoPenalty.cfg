\* non-vacuity: TLC MUST find a violation with this switch on
CONSTANTS
  MaxTotal = 24
  IntMax = 199
  Pool = 3
  InitPowers = {1, 10}
  MaxInit = 3
  Warmups = {3}
  ChangePowers = {0, 1}
  MaxChanges = 2
  FirstBatches = 1
  Weak_ApplyBeforeVerify = FALSE
  Weak_IgnoreMissingRemoval = FALSE
  Weak_NoResort = FALSE
  Weak_NoPenalty = TRUE
  Weak_PenaltyMulOverflow = FALSE
  Weak_NoRescale = FALSE
  Weak_NoCentre = FALSE
  Weak_TieHighAddr = FALSE
  Weak_FloorDiv = FALSE
  Weak_RoundSkipSingleIncrement = FALSE
INIT CaseInit
NEXT CaseNext
INVARIANTS CaseAtomic CaseOrderIndependent CaseWellFormed CaseMatchesRef CaseCopySame PreWellFormed
CHECK_DEADLOCK FALSE
