------------------------------ MODULE C11_ctx ------------------------------
(* Export of the C11 contexts: one state, dumped and handed to the Go harness. *)
EXTENDS C11_defs
VARIABLE out
CtxInit == out = [cases |-> CaseCtx, pool |-> PoolCtx, graph |-> GraphCtx, quick |-> QuickCtx, weak |-> WeakCtx, mid |-> MidCtx]
CtxNext == UNCHANGED out
=============================================================================
