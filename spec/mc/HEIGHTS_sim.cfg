CONSTANTS
  Universe <- U5
  Me = "v0"
  Genesis <- G4
  Menu <- MenuSim
  MaxHeight = 4
  MaxRound = 2
  InvalidValues = {"ZX", "ZC"}
  EnvValues = {"Z0", "ZX"}
  Weak = {}
  SkipChoices = {FALSE, TRUE}
  LateRounds = {0, 1}
  OtherHeights = TRUE
  AllowRestart = TRUE
  AllowEquiv = TRUE
  EnvBudget = 0
  Bundles = TRUE
  EagerInternal = FALSE
INIT Init
NEXT Next
CHECK_DEADLOCK FALSE
ACTION_CONSTRAINT Honestish
INVARIANTS LastCommitValid ValsetSchedule ProposerDeterministic RotationNoUpdates NoEquivocation PrecommitJustified SkipOnlyWhenAll RestartPreserves NoPanic
