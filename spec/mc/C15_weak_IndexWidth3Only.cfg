CONSTANTS
  BufCap = 25
  HeadLimit = 10
  TotalLimit = 0
  MaxRecs = 4
  MaxFiles = 5
  MaxCrash = 0
  MaxStop = 1
  MaxCorrupt = 0
  MaxH = 2
  SmallSize = 10
  BigSize = 40
  MaxBig = 0
  TornSizes = {2, 6, 9}
  ResyncSet = {0}
  ReplayEchoes = FALSE
  Weak_SyncNoFsync = FALSE
  Weak_SyncNoFlush = FALSE
  Weak_NoHeadCheck = FALSE
  Weak_EH0OnEmptyHead = FALSE
  Weak_NoRepair = FALSE
  Weak_RepairDropsLast = FALSE
  Weak_RepairNoFsync = FALSE
  Weak_SearchStopsEarly = FALSE
  Weak_RotateDropsBuf = FALSE
  Weak_DecoderAcceptsBadCRC = FALSE
  Weak_PruneNewest = FALSE
  Weak_IndexWidth3Only = TRUE
  Weak_RecordInTwoGroupWrites = FALSE
  WidthLimit = 2
INIT Init
NEXT Next
INVARIANTS TypeOK AckedDurable AckedReadable NoInvented PruneWholeOldest SearchExact SecondRestartSame ReplayRestores
VIEW View
CHECK_DEADLOCK FALSE
