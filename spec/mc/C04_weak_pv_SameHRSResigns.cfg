CONSTANTS
  MaxHeight = 1
  MaxRound = 1
  Values = {"A", "B"}
  MaxTs = 2
  MaxCrashes = 1
  MaxCalls = 2
  Weak_ReleaseBeforeSave = FALSE
  Weak_CheckHRSIgnoresStep = FALSE
  Weak_SameHRSResigns = TRUE
  Weak_TimestampOnlyComparesNothing = FALSE
  Weak_LoadResetsState = FALSE
  Weak_NoFlushBeforeSign = FALSE
INIT PVInit
NEXT PVNext
INVARIANTS NoConflictingRelease
PROPERTIES PersistBeforeRelease HRSMonotone
VIEW PVView
CHECK_DEADLOCK FALSE
