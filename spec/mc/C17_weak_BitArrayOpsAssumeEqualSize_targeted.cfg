CONSTANTS
  N = 4
  Sizes <- MCSizes
  MaxVotes = 10000
  MaxParts = 1601
  Weak_BitArrayOpsAssumeEqualSize = TRUE
INIT TInit
NEXT TNext
INVARIANTS TargetedNoCrash
CHECK_DEADLOCK FALSE
