CONSTANTS
  N = 4
  Sizes <- MCSizes
  MaxVotes = 10000
  MaxParts = 1601
  Weak_BitArrayOpsAssumeEqualSize = TRUE
  Weak_LastCommitNilDeref = FALSE
  Weak_SetRoundRecreatesRound = FALSE
INIT TInit
NEXT TNext
INVARIANTS TargetedNoCrash TargetedNoHalt
CHECK_DEADLOCK FALSE
