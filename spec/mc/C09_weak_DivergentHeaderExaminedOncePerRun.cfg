CONSTANTS
  H = 4
  NWit = 3
  MaxCalls = 1
  PrimaryPersonas = {"lunatic", "honest"}
  WitnessPersonas = {"lunatic", "relay3", "honest"}
  Modes = {"skip"}
  Roots = {1}
  WithUpdate = FALSE
  Nows = {125}
  Weak_SkipTrustLevel = FALSE
  Weak_AdjacentIgnoresNextVals = FALSE
  Weak_NoExpiry = FALSE
  Weak_FutureHeaderOK = FALSE
  Weak_TrustLevelOnNewSet = FALSE
  Weak_MismatchAlsoCountsAsMatch = FALSE
  Weak_NoWitnessNeeded = FALSE
  Weak_BackwardsUnbound = FALSE
  Weak_ReplacementHashUnchecked = FALSE
  Weak_PromotedWitnessStays = FALSE
  Weak_PartialTraceOnBenignError = FALSE
  Weak_LaggingWitnessEqualTimeBenign = FALSE
  Weak_DivergentHeaderExaminedOncePerRun = TRUE
INIT Init
NEXT Next
INVARIANTS AttackerNeverOutvoted
VIEW CView
CHECK_DEADLOCK FALSE
