CONSTANTS
  Weak_DemoteKeepsOldType = FALSE
  Weak_ReinstateKeepsOldType = FALSE
  Weak_PickAtLeastOne = FALSE
  Weak_BucketFullOffByOne = FALSE
  Weak_NoBanCheck = FALSE
  Weak_NoPrivateCheck = FALSE
  Weak_NoSelfCheck = FALSE
  Weak_NoRoutableCheck = FALSE
  Weak_ExpireKeepsCount = FALSE
  Weak_NoMaxBucketsPerAddr = FALSE
  Weak_MarkBadKeepsAddress = FALSE
  Weak_ReinstateIgnoresBanTime = FALSE
  Weak_LoadSkipsCounts = FALSE
  Weak_OldNotSticky = TRUE
  Weak_SelectionIgnoresMax = FALSE
  Addrs <- MCAddrsS
  Srcs <- MCSrcs
  Invalid <- MCInvalid
  Unroutable <- MCUnroutable
  OwnCand <- MCOwn
  PrivCand <- MCPriv
  BanTimes = {0}
  Ticks = {2}
  MaxNow = 0
  MaxAtt = 0
  MaxRestarts = 1
  P <- PSmall
  Strict = TRUE
  NewBucketOf <- MCNewBucketOf
  OldBucketOf <- MCOldBucketOf
INIT Init
NEXT Next
CHECK_DEADLOCK FALSE
VIEW View
INVARIANTS InvBucketShape InvCountsExact InvBucketBound InvBannedNotKnown InvKeyedById InvPickSound InvSelectionBound TypeOK
PROPERTIES PropAddFilter PropMarkGood PropReinstate PropSaveLoad
