CONSTANTS
  MaxTotal = 24
  IntMax = 199
  Pool = 3
  InitPowers = {1, 2, 10}
  MaxInit = 3
  Warmups = {0, 1, 4}
  ChangePowers = {0, 1, 3, 10}
  MaxChanges = 2
  FirstBatches = 1
  Weak_ApplyBeforeVerify = FALSE
  Weak_IgnoreMissingRemoval = FALSE
  Weak_NoResort = FALSE
  Weak_NoPenalty = FALSE
  Weak_PenaltyMulOverflow = FALSE
  Weak_NoRescale = FALSE
  Weak_NoCentre = FALSE
  Weak_TieHighAddr = FALSE
  Weak_FloorDiv = FALSE
  Weak_RoundSkipSingleIncrement = FALSE
INIT CaseInit
NEXT CaseNext
INVARIANTS CaseAtomic CaseOrderIndependent CaseWellFormed CaseMatchesRef CaseCopySame PreWellFormed
CHECK_DEADLOCK FALSE
