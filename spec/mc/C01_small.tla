---- MODULE C01_small ----
(* 2 correct (power 2 each) + 1 Byzantine (power 1): exhaustive, fully replayed. *)
EXTENDS TMConsensusNet
PW == [v \in Vals |-> IF v \in Byz THEN 1 ELSE 2]
PS == <<"v2", "v0", "v1", "v2">>
====
