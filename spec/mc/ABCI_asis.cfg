CONSTANTS
  Threads = {t1, t2}
  MaxCalls = 3
  MaxTimer = 0
  QCap = 2
  CallKinds = {"AsyncA", "SyncB", "FlushSync"}
  Server = "raw"
  Faults = {"wrongtype", "extra", "swap", "exception", "garbage", "close", "halfclose", "midframe"}
  MaxFaults = 1
  Chunked = FALSE
  UserStop = TRUE
  SetCb = TRUE
  Gates = FALSE
  Prio = FALSE
  Spill = FALSE
  Weak_FlushDoesNotWaitForCallbacks = FALSE
  Weak_ResponseMatchedByTypeOnly = FALSE
  Weak_NoTypeCheck = FALSE
  Weak_CallbackSetAfterDoneLost = FALSE
  Weak_ErrorLeavesPendingBlocked = FALSE
  Weak_SendBeforeTrack = FALSE
  Weak_ExceptionIgnored = FALSE
  Weak_FlushQueueKeepsSent = TRUE
  Weak_InHandLost = TRUE
  Weak_DeadQueueBlocks = TRUE
INIT Init
NEXT Next
INVARIANTS NoPanic NoStuckWaiter NoStuckEnqueuer
VIEW View
SYMMETRY SymT
CHECK_DEADLOCK FALSE
