CONSTANTS
  Weak_NoCapacityCheck = FALSE
  Weak_EOFIgnored = FALSE
  Weak_SharedRecvBuffer = FALSE
  Weak_NoRecover = FALSE
  Weak_EmptyMsgLost = FALSE
  Cfg <- MCCfg
  Honest = {}
  Hostile = {"x"}
  Sizes = {0, 3}
  MaxMsgs = 0
  MaxHostile = 2
  MaxPings = 0
INIT Init
NEXT Next
INVARIANTS ExactlyOnceInOrder DrainedComplete NoStuckMessage BoundedBuffer QueueSize HostileOnlyDrops
PROPERTIES StoppedIsFinal OthersUnaffected
VIEW SysView
CHECK_DEADLOCK FALSE
