CONSTANTS
  Clients <- MCClients
  NQ = 3
  CmdCap = 1
  EvalQE <- MCEval
  Caps = {0, 1}
  EventIds = {1, 2, 3}
  MaxCalls = 3
  Weak_ErrorAbortsPublish = FALSE
  Weak_BlockOnFullBuffer = FALSE
  Weak_UnsubLeavesQuery = FALSE
  Weak_DoubleRemoveReleasesForeignRef = FALSE
INIT Init
NEXT Next
CHECK_DEADLOCK FALSE
