CONSTANTS
  Weak_BitArrayUnchecked = FALSE
  Weak_ProposalTotalUnbounded = FALSE
INIT AlphaInit
NEXT AlphaNext
INVARIANTS SpecOnlyDrops WellFormedCase
CHECK_DEADLOCK FALSE
