INIT AlphaInit
NEXT AlphaNext
INVARIANTS SpecOnlyDrops WellFormedCase
CHECK_DEADLOCK FALSE
