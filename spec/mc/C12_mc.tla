------------------------------- MODULE C12_mc -------------------------------
(* Model-checking instance of TMMempool for C12 (all C12_*.cfg use this module). *)
EXTENDS TMMempool
\* byte length of each tx key: a, b -> 1 byte; c -> 2 bytes; d -> 3 bytes
MCTxSize == [t \in Txs |-> IF t = "c" THEN 2 ELSE IF t = "d" THEN 3 ELSE 1]
\* reap argument alphabets (TLC cfg files cannot hold negative numbers)
MCReapNs == {-1, 0, 1, 2}
MCReapBs == {-1, 0, 3, 6, 7}      \* proto sizes: 1 byte -> 3, 2 bytes -> 4, 3 bytes -> 5
MCReapGs == {-1, 0, 1, 2}
\* small alphabets for the act-augmented replay graphs
MCReapNsSmall == {-1, 0, 1}
MCReapBsSmall == {-1, 3}
MCReapGsSmall == {-1, 1}
=============================================================================
