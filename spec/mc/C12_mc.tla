------------------------------- MODULE C12_mc -------------------------------
(* Model-checking instance of TMMempool for C12 (all C12_*.cfg use this module). *)
EXTENDS TMMempool
\* byte length of each tx key: a, b -> 1 byte; c -> 2 bytes; d -> 3 bytes; p..w: the lengths around
\* the varint steps of the protobuf length prefix (2^7, 2^14) -- 128 and 16384..16511 are the ones
\* a `>` / `>=` slip in a varint loop gets wrong
MCTxSize == [t \in Txs |->
               CASE t = "c" -> 2 [] t = "d" -> 3
                 [] t = "p" -> 127 [] t = "q" -> 128 [] t = "r" -> 129
                 [] t = "s" -> 16383 [] t = "t" -> 16384 [] t = "u" -> 16385
                 [] t = "v" -> 16511 [] t = "w" -> 16512
                 [] OTHER -> 1]
MCTight   == -3..2
MCNoTight == {}
\* reap argument alphabets (TLC cfg files cannot hold negative numbers)
MCReapNs == {-1, 0, 1, 2}
MCReapBs == {-1, 0, 3, 6, 7}      \* proto sizes: 1 byte -> 3, 2 bytes -> 4, 3 bytes -> 5
MCReapGs == {-1, 0, 1, 2}
\* small alphabets for the act-augmented replay graphs
MCReapNsSmall == {-1, 0, 1}
MCReapBsSmall == {-1, 3}
MCReapGsSmall == {-1, 1}
=============================================================================
