---------------------------- MODULE C05_pipeline ----------------------------
(* Model-checking harness for TMCommitPipeline: the node commits heights 1..MaxHeight and
   may crash up to MaxCrashes times, anywhere (also during recovery).                     *)
EXTENDS TMCommitPipeline, Json, SequencesExt

CONSTANTS MaxHeight, MaxCrashes, PlanId, EmitSched, MaxAppRollback, MaxTamper, InitialHeight, Discard

VARIABLES s, act
vars == <<s, act>>

\* chain plans (TLC cfg files cannot hold sequences): #txs per height, heights with validator
\* updates, heights with consensus-param updates, RetainHeight returned by Commit(h)
\* hashc: does the application hash change with every commit (TRUE) or only with transactions (FALSE)
Plans == << [txs |-> <<2, 1, 0, 1, 0>>, vu |-> <<1>>, pu |-> <<2>>, retain |-> <<0, 0, 2, 0, 0>>, hashc |-> TRUE],
            [txs |-> <<1, 0, 2, 1, 0>>, vu |-> <<2>>, pu |-> <<1>>, retain |-> <<0, 1, 0, 3, 0>>, hashc |-> TRUE],
            [txs |-> <<0, 0, 0, 0, 0>>, vu |-> << >>, pu |-> << >>, retain |-> <<0, 0, 0, 0, 0>>, hashc |-> TRUE],
            [txs |-> <<2, 1, 0, 1, 0>>, vu |-> <<1>>, pu |-> <<2>>, retain |-> <<0, 0, 0, 0, 0>>, hashc |-> TRUE],
            [txs |-> <<2, 1, 0, 1, 0>>, vu |-> <<1>>, pu |-> <<2>>, retain |-> <<0, 0, 0, 0, 0>>, hashc |-> FALSE] >>
\* the node commits MaxHeight blocks, the first one at the genesis InitialHeight
Cfg == [maxh |-> InitialHeight - 1 + MaxHeight, ih |-> InitialHeight, discard |-> Discard, txs |-> Plans[PlanId].txs, vu |-> Plans[PlanId].vu, pu |-> Plans[PlanId].pu,
        retain |-> Plans[PlanId].retain, hashc |-> Plans[PlanId].hashc]

Abs(x) == IF x < 0 THEN -x ELSE x

Init == /\ s = InitState(Cfg)
        /\ act = [name |-> "Init", mode |-> "none", h |-> 0, i |-> 0, rb |-> 0, fwd |-> 0, rbs |-> 0, rss |-> 0]
        /\ (EmitSched => TLCSet(1, {}))

Step  == /\ ~Terminal(s)
         /\ s' = Do(s)
         /\ act' = Label(s)
Crash == /\ Crashable(s)
         /\ s.crashes < MaxCrashes
         \* with the restart the application may have lost n commits (MaxAppRollback) and, with
         \* MaxTamper > 0, an operator may have put back an older block store (db blocks older) and/or
         \* state store (ds) with the WAL and key state of that copy, or the app may be fw blocks
         \* ahead: every (store, state, app) triple whose cursors are at most 2 apart
         /\ \E n \in 0..MaxAppRollback, db \in 0..MaxTamper, ds \in 0..MaxTamper, fw \in 0..MaxTamper :
              LET nb == s.bs_h - db  ns == s.ss_st.h - ds  na == s.app_h + fw - n IN
              /\ n <= s.app_h /\ (n = 0 \/ fw = 0)
              /\ (db > 0 => nb >= 1) /\ (ds > 0 => ns >= 1 /\ s.ss_saved)
              /\ ((db > 0 \/ ds > 0 \/ fw > 0) => Abs(nb - ns) <= 2 /\ Abs(na - ns) <= 2 /\ Abs(na - nb) <= 2)
              /\ s' = TamperOf(CrashOf(s, [Label(s) EXCEPT !.rb = n, !.fwd = fw, !.rbs = db, !.rss = ds]), db, ds, fw - n)
         /\ act' = [Label(s) EXCEPT !.name = "Crash"]
\* the node has committed MaxHeight; with EmitSched (and -workers 1) the crash schedule of the
\* behaviour is collected in a TLC register and written out by the POSTCONDITION PostSched
DoneStutter == /\ s.pc = "Done"
               /\ (EmitSched => TLCSet(1, TLCGet(1) \cup {s.sched}))
               /\ UNCHANGED vars
PostSched == JsonSerialize("c05_sched.json", SetToSeq(TLCGet(1)))
\* a node that refused to start (or stalled): with EmitSched its schedule is collected too
RefusedStutter == /\ Terminal(s) /\ s.pc # "Done" /\ EmitSched
                  /\ TLCSet(1, TLCGet(1) \cup {s.sched})
                  /\ UNCHANGED vars

Next == Step \/ Crash \/ DoneStutter \/ RefusedStutter
Spec == Init /\ [][Next]_vars /\ WF_vars(Step)

PcKnown             == s.pc \in AllPcs
JournalWellFormed   == JournalWellFormedAt(s)
HeightsAgree        == HeightsAgreeAt(s)
CursorsWithinOne    == CursorsWithinOneAt(s)
WalEndImpliesStored == WalEndImpliesStoredAt(s)
NoStuck             == NoStuckAt(s)
StateIsChainState   == StateIsChainStateAt(s)
MempoolBracket      == MempoolBracketAt(s)
ResponsesBeforeCommit == ResponsesBeforeCommitAt(s)
\* Progress: whatever the crash schedule, the node ends up having committed MaxHeight
Progress            == <>(s.pc = "Done")
=============================================================================
