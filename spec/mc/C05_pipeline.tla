---------------------------- MODULE C05_pipeline ----------------------------
(* Model-checking harness for TMCommitPipeline: the node commits heights 1..MaxHeight and
   may crash up to MaxCrashes times, anywhere (also during recovery).                     *)
EXTENDS TMCommitPipeline, Json, SequencesExt

CONSTANTS MaxHeight, MaxCrashes, PlanId, EmitSched, MaxAppRollback

VARIABLES s, act
vars == <<s, act>>

\* chain plans (TLC cfg files cannot hold sequences): #txs per height, heights with validator
\* updates, heights with consensus-param updates, RetainHeight returned by Commit(h)
Plans == << [txs |-> <<2, 1, 0, 1, 0>>, vu |-> <<1>>, pu |-> <<2>>, retain |-> <<0, 0, 2, 0, 0>>],
            [txs |-> <<1, 0, 2, 1, 0>>, vu |-> <<2>>, pu |-> <<1>>, retain |-> <<0, 1, 0, 3, 0>>],
            [txs |-> <<0, 0, 0, 0, 0>>, vu |-> << >>, pu |-> << >>, retain |-> <<0, 0, 0, 0, 0>>],
            [txs |-> <<2, 1, 0, 1, 0>>, vu |-> <<1>>, pu |-> <<2>>, retain |-> <<0, 0, 0, 0, 0>>] >>
Cfg == [maxh |-> MaxHeight, txs |-> Plans[PlanId].txs, vu |-> Plans[PlanId].vu, pu |-> Plans[PlanId].pu,
        retain |-> Plans[PlanId].retain]

Init == /\ s = InitState(Cfg)
        /\ act = [name |-> "Init", mode |-> "none", h |-> 0, i |-> 0, rb |-> 0]
        /\ (EmitSched => TLCSet(1, {}))

Step  == /\ ~Terminal(s)
         /\ s' = Do(s)
         /\ act' = Label(s)
Crash == /\ Crashable(s)
         /\ s.crashes < MaxCrashes
         /\ \E n \in 0..MaxAppRollback :
              /\ n <= s.app_h
              /\ s' = RollbackOf(CrashOf(s, [Label(s) EXCEPT !.rb = n]), n)
         /\ act' = [Label(s) EXCEPT !.name = "Crash"]
\* the node has committed MaxHeight; with EmitSched (and -workers 1) the crash schedule of the
\* behaviour is collected in a TLC register and written out by the POSTCONDITION PostSched
DoneStutter == /\ s.pc = "Done"
               /\ (EmitSched => TLCSet(1, TLCGet(1) \cup {s.sched}))
               /\ UNCHANGED vars
PostSched == JsonSerialize("c05_sched.json", SetToSeq(TLCGet(1)))

Next == Step \/ Crash \/ DoneStutter
Spec == Init /\ [][Next]_vars /\ WF_vars(Step)

PcKnown             == s.pc \in AllPcs
JournalWellFormed   == JournalWellFormedAt(s)
HeightsAgree        == HeightsAgreeAt(s)
CursorsWithinOne    == CursorsWithinOneAt(s)
WalEndImpliesStored == WalEndImpliesStoredAt(s)
NoStuck             == NoStuckAt(s)
MempoolBracket      == MempoolBracketAt(s)
ResponsesBeforeCommit == ResponsesBeforeCommitAt(s)
\* Progress: whatever the crash schedule, the node ends up having committed MaxHeight
Progress            == <>(s.pc = "Done")
=============================================================================
