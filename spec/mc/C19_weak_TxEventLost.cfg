CONSTANTS
  BlockPool <- MCBlockPool
  TxQueries <- MCTxQueries
  BlockQueries <- MCBlockQueries
  Weak_RangeIgnoresUpper = FALSE
  Weak_PrefixMatchAsEquality = FALSE
  Weak_BatchSkipsFirst = FALSE
  Weak_TxEventLost = TRUE
INIT Init
NEXT Next
INVARIANTS IndexOnce NeverWedged TxSearchExactUpToKnown BlockSearchExactUpToKnown SearchSound
CHECK_DEADLOCK FALSE
