CONSTANTS
  Honest <- HonestDef
  Ranks <- RanksOne
  EphKinds <- EphPeer
  MEphs <- MEphsDef
  LowPts <- LowDef
  HsEdits = FALSE
  WSizes <- WDuplex
  RSizes <- RDuplex
  MaxFrames = 2
  MaxReads = 2
  MaxEdits = 1
  MaxFaults = 1
  EditOps <- OpsAll
  Weak_ChallengeNotBound = FALSE
  Weak_ChallengeDHOnly = FALSE
  Weak_AcceptLowOrder = FALSE
  Weak_NonceNotIncremented = FALSE
  Weak_RecvNonceNotIncremented = FALSE
  Weak_SameKeyBothDirections = FALSE
  Weak_ReadIgnoresAuthError = FALSE
  Weak_VerifyWrongKey = FALSE
  Weak_NonceAfterTransportWrite = FALSE
  Weak_AuthSkipsVerifyForOtherKeyTypes = FALSE
INIT Init
NEXT Next
INVARIANTS AuthenticatedExceptSelf NonceFresh PrefixExact TamperFails DeliveredExact LowOrderRefused
VIEW View
CHECK_DEADLOCK FALSE
