CONSTANTS
  Universe <- U4
  Me = "v0"
  Genesis <- G572
  Menu <- MenuSkip
  MaxHeight = 4
  MaxRound = 2
  InvalidValues = {"ZX", "ZC"}
  EnvValues = {"Z0"}
  Weak = {}
  SkipChoices = {FALSE}
  LateRounds = {}
  OtherHeights = FALSE
  AllowRestart = FALSE
  AllowEquiv = FALSE
  EnvBudget = 0
  Bundles = TRUE
  EagerInternal = TRUE
INIT Init
NEXT Next
CHECK_DEADLOCK FALSE
ACTION_CONSTRAINT CorridorSkip
INVARIANTS LastCommitValid ValsetSchedule ProposerDeterministic RotationNoUpdates NoEquivocation PrecommitJustified SkipOnlyWhenAll RestartPreserves NoPanic
VIEW View
