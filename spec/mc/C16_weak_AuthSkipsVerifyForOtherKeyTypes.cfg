CONSTANTS
  Honest <- HonestDef
  Ranks <- RanksM
  EphKinds <- EphAll
  MEphs <- MEphsDef
  LowPts <- LowDef
  HsEdits = TRUE
  WSizes <- NoSizes
  RSizes <- NoSizes
  MaxFrames = 0
  MaxReads = 0
  MaxEdits = 2
  MaxFaults = 0
  EditOps <- OpsHs
  Weak_ChallengeNotBound = FALSE
  Weak_ChallengeDHOnly = FALSE
  Weak_AcceptLowOrder = FALSE
  Weak_NonceNotIncremented = FALSE
  Weak_RecvNonceNotIncremented = FALSE
  Weak_SameKeyBothDirections = FALSE
  Weak_ReadIgnoresAuthError = FALSE
  Weak_VerifyWrongKey = FALSE
  Weak_NonceAfterTransportWrite = FALSE
  Weak_AuthSkipsVerifyForOtherKeyTypes = TRUE
INIT Init
NEXT Next
INVARIANTS AuthenticatedExceptSelf
VIEW View
CHECK_DEADLOCK FALSE
