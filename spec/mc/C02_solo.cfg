CONSTANTS
  Vals = {"v0", "v1", "v2"}
  Me = "v2"
  Adv <- ADV
  PowerOf <- PW
  ProposerSeq <- PS
  MaxRound = 1
  InvalidValues = {"ZX"}
  EnvValues = {"Z0", "ZX"}
  Weak = {}
  NoEnv = {}
  WitnessK = 0
INIT Init
NEXT Next
INVARIANTS NoEquivocation PrecommitJustified LockRespected ProposalCarriesValid
VIEW View
CHECK_DEADLOCK FALSE
