---- MODULE C06_chain ----
EXTENDS TMBlockChain
====
