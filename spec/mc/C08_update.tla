------------------------------ MODULE C08_update ------------------------------
(* Update cases.  A case = (initial powers, warm-up rounds, first batch, batch): the
   pre-set is NewValidatorSet(init), rotated `warm` times, optionally updated by `first`
   (so that pre-sets with wide priority windows, penalised newcomers and stale proposer
   pointers occur); the C08 update properties are then evaluated for `batch`, over ALL
   permutations of it.  Initial states carry only (init, warm) and fan out in one step,
   so that TLC's workers share the evaluation.                                       *)
EXTENDS TMValSet
CONSTANTS Pool, InitPowers, MaxInit, Warmups, ChangePowers, MaxChanges, FirstBatches
VARIABLE cs

Addresses == 1..Pool
V(a, p) == [a |-> a, p |-> p]
\* address-sorted sequences of k changes over distinct addresses
RECURSIVE SeqsOver(_, _, _)
SeqsOver(addrs, powers, k) ==
  IF k = 0 THEN {<< >>}
  ELSE UNION {{<<V(a, p)>> \o rest : p \in powers, rest \in SeqsOver({b \in addrs : b > a}, powers, k - 1)} : a \in addrs}

InitLists == UNION {SeqsOver(Addresses, InitPowers, k) : k \in 1..MaxInit}
GoodInits == {i \in InitLists : SumSeq([j \in DOMAIN i |-> i[j].p]) <= MaxTotal}
WellFormedBatches == UNION {SeqsOver(Addresses, ChangePowers, k) : k \in 0..MaxChanges}
Malformed ==
  {<<V(1, 1), V(1, 2)>>, <<V(2, 0), V(2, 3)>>, <<V(1, -1)>>, <<V(1, -1), V(1, 1)>>,
   <<V(2, MaxTotal + 1)>>, <<V(1, MaxTotal)>>, <<V(1, MaxTotal), V(2, 1)>>,
   <<V(1, 1), V(2, 1), V(1, 0)>>, <<V(1, 0), V(2, 0), V(3, 0)>>}
\* first batches (FirstBatches = 0: none; 1: a few that leave wide windows behind)
Firsts == IF FirstBatches = 0 THEN {<< >>}
          ELSE {<< >>, <<V(Pool, 1)>>, <<V(1, 0)>>, <<V(1, 1), V(2, 0)>>}

PreSetOf(init, warm, first) ==
  LET s0 == NewValidatorSet(init).set
      s1 == IF warm = 0 THEN s0 ELSE IncrementProposerPriority(s0, warm)
      u  == UpdateWithChangeSet(s1, first)
  IN IF u.err = "none" THEN u.set ELSE s1
PreSet(c) == PreSetOf(c.init, c.warm, c.first)

CaseInit == cs \in {[init |-> i, warm |-> w, first |-> f, batch |-> << >>, stage |-> 0] :
                      i \in GoodInits, w \in Warmups, f \in Firsts}
CaseNext == /\ cs.stage = 0
            /\ \E b \in WellFormedBatches \cup Malformed : cs' = [cs EXCEPT !.batch = b, !.stage = 1]

Live == cs.stage = 1
CaseAtomic           == Live => UpdateAtomicAt(PreSet(cs), cs.batch)
CaseOrderIndependent == Live => OrderIndependentAt(PreSet(cs), cs.batch)
CaseWellFormed       == Live => WellFormedAt(PreSet(cs), cs.batch)
CaseMatchesRef       == Live => MatchesRefAt(PreSet(cs), cs.batch)
\* the copy the production code updates (updateState) gives the same validators
CaseCopySame == Live =>
  LET a == UpdateWithChangeSet(PreSet(cs), cs.batch)
      b == UpdateWithChangeSet(CopySet(PreSet(cs)), cs.batch)
  IN a.err = b.err /\ a.set.vals = b.set.vals
PreWellFormed == WellFormed(PreSet(cs).vals) /\ NoClip(PreSet(cs).vals)
=============================================================================
