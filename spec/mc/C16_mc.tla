------------------------------ MODULE C16_mc ------------------------------
(* Model-checking instances of TMSecretConn (C16).  One module, several cfgs. *)
EXTENDS TMSecretConn

HonestDef == {"A", "B"}
\* byte order of the ephemerals: lowMin < everything < lowMax; M picks its own key below,
\* between or above the honest ones (it sees them before it answers)
RanksM   == {[lowMin |-> 0, eA |-> 2, eB |-> 4, eM |-> m, lowMax |-> 9] : m \in {1, 3, 5}}
RanksAB  == {[lowMin |-> 0, eA |-> 2, eB |-> 4, eM |-> 5, lowMax |-> 9],
             [lowMin |-> 0, eA |-> 4, eB |-> 2, eM |-> 5, lowMax |-> 9]}
RanksOne == {[lowMin |-> 0, eA |-> 2, eB |-> 4, eM |-> 3, lowMax |-> 9]}

EphAll   == {"peer", "own", "mine", "low"}
EphPeer  == {"peer"}
MEphsDef == {"eM"}
LowDef   == {"lowMin", "lowMax"}
OpsHs    == {"flip", "drop", "replay", "reflect", "inject", "trunc", "eof"}
OpsAll   == {"flip", "drop", "swap", "replay", "reflect", "inject", "trunc", "eof"}

NoSizes  == [X \in HonestDef |-> {}]
\* write-size classes {1, <1024, 1024 = dataMaxSize, 1025, 3000}, read-size classes {0, 1, small, 1024, large}
WOneWay  == [X \in HonestDef |-> IF X = "A" THEN {1, 500, 1024, 1025, 3000} ELSE {}]
ROneWay  == [X \in HonestDef |-> IF X = "B" THEN {0, 1, 100, 1024, 4096} ELSE {}]
WOneWayQ == [X \in HonestDef |-> IF X = "A" THEN {1, 1024, 1025, 3000} ELSE {}]
ROneWayQ == [X \in HonestDef |-> IF X = "B" THEN {1, 1024, 4096} ELSE {}]
\* the quick tier's replay graph: one single-frame and one two-frame write, a one-byte and a large read
WOneWayG == [X \in HonestDef |-> IF X = "A" THEN {1, 1025} ELSE {}]
ROneWayG == [X \in HonestDef |-> IF X = "B" THEN {1, 4096} ELSE {}]
WDuplex  == [X \in HonestDef |-> {1, 1025}]
RDuplex  == [X \in HonestDef |-> {1, 4096}]
WFull    == [X \in HonestDef |-> IF X = "A" THEN {1025} ELSE {1}]
RFull    == [X \in HonestDef |-> {4096}]
=============================================================================
