------------------------------ MODULE C10_cases ------------------------------
(* Proof-binding case enumeration: every case is an initial state. *)
EXTENDS TMMerkle
\* so that TLC evaluates the case properties exhaustively and the evidence counts states
VARIABLE cs
CaseInit == cs \in RealCases
CaseNext == UNCHANGED cs
CaseProofBinds        == ProofBindsCase(cs)
CaseProofBindsUpToShape == ProofBindsUpToShape(cs)
CaseGenuineVerifies   == GenuineVerifies(cs)

CasesView == cs
=============================================================================
