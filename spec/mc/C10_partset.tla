---- MODULE C10_partset ----
EXTENDS TMPartSet
====
