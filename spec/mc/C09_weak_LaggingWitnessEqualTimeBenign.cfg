CONSTANTS
  H = 4
  NWit = 2
  MaxCalls = 1
  PrimaryPersonas = {"fwd_m1", "fwd_0", "fwd_p1"}
  WitnessPersonas = {"fwd_m1", "fwd_0", "fwd_p1", "lag3", "lag3adv", "lag23", "honest"}
  Modes = {"skip"}
  Roots = {1}
  WithUpdate = FALSE
  Nows = {125}
  Weak_SkipTrustLevel = FALSE
  Weak_AdjacentIgnoresNextVals = FALSE
  Weak_NoExpiry = FALSE
  Weak_FutureHeaderOK = FALSE
  Weak_TrustLevelOnNewSet = FALSE
  Weak_MismatchAlsoCountsAsMatch = FALSE
  Weak_NoWitnessNeeded = FALSE
  Weak_BackwardsUnbound = FALSE
  Weak_ReplacementHashUnchecked = FALSE
  Weak_PromotedWitnessStays = FALSE
  Weak_PartialTraceOnBenignError = FALSE
  Weak_LaggingWitnessEqualTimeBenign = TRUE
  Weak_DivergentHeaderExaminedOncePerRun = FALSE
INIT Init
NEXT Next
INVARIANTS AttackerNeverOutvoted
VIEW CView
CHECK_DEADLOCK FALSE
