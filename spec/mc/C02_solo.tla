---- MODULE C02_solo ----
(* one correct node (v2, power 1) against two adversarial validators (v0, v1, power 2 each);
   proposer rotation as measured on the real validator set: v0, v1, v2, ... *)
EXTENDS TMConsensusSolo
PW == [v \in Vals |-> IF v = "v2" THEN 1 ELSE 2]
PS == <<"v0", "v1", "v2", "v0">>
ADV == <<"v0", "v1">>
====
