CONSTANTS
  MaxHeights = 3
  MaxDev = 1
  GenesisChoices = {"g2211", "g511"}
  WithPerturb = TRUE
  StrictMedian = FALSE
  AllSigIdx = FALSE
  Weak_DropLastResultsHash = FALSE
  Weak_DropConsensusHash = FALSE
  Weak_DropNextValsHash = FALSE
  Weak_DropProposerCheck = FALSE
  Weak_TimeGeq = FALSE
  Weak_MedianUnweighted = FALSE
  Weak_ValUpdatesEarly = FALSE
  Weak_ParamsBookkeeping = TRUE
  Weak_CommitAddrUnchecked = FALSE
  Weak_StoredResponsesDropParamUpdates = FALSE
  Weak_BudgetUsesCurrentVals = FALSE
INIT Init
NEXT Next
INVARIANTS MadeBlocksValid PerturbedRejected RebuildJudged AcceptedTimeIsSignerWeightedMedian MedianIsWeightedMedian TwoHeightDelay OneHeightDelay StateWellFormed StoreLookups ProposalFits NextStateSame
VIEW ChainView
CHECK_DEADLOCK FALSE
