CONSTANTS
  MaxLeaves = 4
  Weak_NoProofIndexBinding = FALSE
  Weak_AuntLenUnchecked = FALSE
  Weak_NoLeafCheck = FALSE
  Weak_TruncatedPosition = TRUE
INIT PSInit
NEXT PSNext
INVARIANTS PartBinds Reassembles CompleteMatchesHeader
PROPERTY Idempotent AdmitOnlyProven
VIEW PSView
CHECK_DEADLOCK FALSE
