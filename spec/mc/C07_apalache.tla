---------------------------- MODULE C07_apalache ----------------------------
(* The integer identities behind the quorum tests of types/validator_set.go, on unbounded
   integers (Apalache / SMT; TLC integers are 32 bit):

     VerifyCommit, VerifyCommitLight:  tallied > (total*2) div 3   <=>  3*tallied > 2*total
     VerifyCommitLightTrusting:        tallied > P div den         <=>  den*tallied > P      (P = total*num)

   for every total up to MaxTotalVotingPower and every int64 denominator.  TLC checks the
   same identities on the small range of the case set (ASSUMEs in C07_cases) and the trace
   spec evaluates both sides with TMBigNat on every observed run; this module closes the gap
   in between.  Thorough tier only; not a verdict source.                                *)
EXTENDS Integers

VARIABLES
  \* @type: Int;
  total,
  \* @type: Int;
  tallied,
  \* @type: Int;
  prod,
  \* @type: Int;
  den

MaxTotal == 1152921504606846975     \* MaxTotalVotingPower = MaxInt64 div 8
MaxInt64 == 9223372036854775807

Init ==
  /\ total \in Int /\ tallied \in Int /\ prod \in Int /\ den \in Int
  /\ 0 <= total /\ total <= MaxTotal
  /\ 0 <= tallied /\ tallied <= total
  /\ 0 <= prod /\ prod <= MaxInt64       \* safeMul did not overflow
  /\ 1 <= den /\ den <= MaxInt64

Next == UNCHANGED <<total, tallied, prod, den>>

TwoThirdsIdentityInv == (tallied > (total * 2) \div 3) <=> (3 * tallied > 2 * total)
FractionIdentityInv  == (tallied > prod \div den) <=> (den * tallied > prod)
=============================================================================
