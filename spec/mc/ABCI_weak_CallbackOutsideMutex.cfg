CONSTANTS
  Conns = {"consensus", "mempool", "query", "snapshot"}
  MaxCalls = 2
  Kinds = {"Async", "Sync", "FlushSync", "EchoSync"}
  Gates = TRUE
  Prio = FALSE
  Weak_LocalClientPerConnMutex = FALSE
  Weak_SyncWithoutMutex = FALSE
  Weak_CallbackOutsideMutex = TRUE
INIT Init
NEXT Next
INVARIANTS LocalClientSerialises LocalCallbacks
VIEW View
CHECK_DEADLOCK FALSE
