CONSTANTS
  BufCap = 25
  HeadLimit = 30
  TotalLimit = 70
  MaxRecs = 5
  MaxFiles = 3
  MaxCrash = 0
  MaxStop = 0
  MaxCorrupt = 0
  MaxH = 2
  SmallSize = 10
  BigSize = 40
  MaxBig = 0
  TornSizes = {2, 6, 9}
  ResyncSet = {0}
  ReplayEchoes = FALSE
  Weak_SyncNoFsync = FALSE
  Weak_SyncNoFlush = FALSE
  Weak_NoHeadCheck = FALSE
  Weak_EH0OnEmptyHead = FALSE
  Weak_NoRepair = FALSE
  Weak_RepairDropsLast = FALSE
  Weak_RepairNoFsync = FALSE
  Weak_SearchStopsEarly = TRUE
  Weak_RotateDropsBuf = FALSE
  Weak_DecoderAcceptsBadCRC = FALSE
  Weak_PruneNewest = FALSE
  Weak_IndexWidth3Only = FALSE
  Weak_RecordInTwoGroupWrites = FALSE
  WidthLimit = 1000
INIT Init
NEXT Next
INVARIANTS TypeOK AckedDurable AckedReadable NoInvented PruneWholeOldest SearchExact SecondRestartSame ReplayRestores
VIEW View
CHECK_DEADLOCK FALSE
