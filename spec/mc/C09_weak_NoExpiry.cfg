CONSTANTS
  H = 4
  NWit = 2
  MaxCalls = 1
  PrimaryPersonas = {"honest", "weak3", "lunatic3", "future3", "flip2", "weak4bad", "weak4hole"}
  WitnessPersonas = {"honest", "weak3", "lunatic3", "future3", "silent"}
  Modes = {"skip"}
  Roots = {1, 2, 3}
  WithUpdate = FALSE
  Nows = {125}
  Weak_SkipTrustLevel = FALSE
  Weak_AdjacentIgnoresNextVals = FALSE
  Weak_NoExpiry = TRUE
  Weak_FutureHeaderOK = FALSE
  Weak_TrustLevelOnNewSet = FALSE
  Weak_MismatchAlsoCountsAsMatch = FALSE
  Weak_NoWitnessNeeded = FALSE
  Weak_BackwardsUnbound = FALSE
  Weak_ReplacementHashUnchecked = FALSE
  Weak_PromotedWitnessStays = FALSE
  Weak_PartialTraceOnBenignError = FALSE
  Weak_LaggingWitnessEqualTimeBenign = FALSE
  Weak_DivergentHeaderExaminedOncePerRun = FALSE
INIT Init
NEXT Next
INVARIANTS TrustRootOnly StoreSound WitnessConfirmed IndependentWitness NoConfirmationFromSilence AttackReported OrderIndependent AttackerNeverOutvoted AttackStoresNothing StoreMonotone
VIEW CView
CHECK_DEADLOCK FALSE
