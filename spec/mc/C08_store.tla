------------------------------ MODULE C08_store ------------------------------
(* The state store under a history of blocks (updateState + Save) and prunes.
   truth[h] is the set in force at height h as the chain of real State values defines
   it; LookupExact compares LoadValidators(h) with it for every retained height.   *)
EXTENDS TMValStore
CONSTANTS InitialHeight, MaxBlocks, Scenario, BootstrapToo, Discard

V(a, p) == [a |-> a, p |-> p]
\* scenario 1: three equal validators; a power cut followed by swapping a validator for a
\*   small newcomer makes the priority window outgrow 2*total while rotating (the case in
\*   which one IncrementProposerPriority(k) differs from k calls with 1)
\* scenario 2: weighted set, additions / removals / power changes
\* scenario 3: one validator, growing and shrinking
GenesisVals ==
  CASE Scenario = 1 -> <<V(1, 10), V(2, 10), V(3, 10)>>
    [] Scenario = 2 -> <<V(2, 5), V(1, 3), V(3, 1)>>
    [] Scenario = 3 -> <<V(2, 1)>>
BatchChoices ==
  CASE Scenario = 1 -> {<< >>, <<V(3, 2)>>, <<V(1, 0), V(4, 1)>>, <<V(4, 0)>>}
    [] Scenario = 2 -> {<< >>, <<V(4, 10)>>, <<V(3, 0)>>, <<V(1, 1), V(2, 20)>>, <<V(2, 0), V(3, 3)>>}
    [] Scenario = 3 -> {<< >>, <<V(1, 3)>>, <<V(2, 0)>>, <<V(2, 7), V(3, 1)>>, <<V(1, 0)>>}
VARIABLES st, db, truth, base, act
vars == <<st, db, truth, base, act>>

Genesis == GenesisState(GenesisVals, InitialHeight)

\* statesync-style start: the node bootstraps at the state after `k` empty blocks
RECURSIVE Advance(_, _)
Advance(s, k) == IF k = 0 THEN s ELSE Advance(UpdateState(s, << >>).st, k - 1)

Init ==
  \/ /\ st = Genesis
     /\ db = SaveState(EmptyDB, Genesis).db
     /\ truth = (InitialHeight :> SetView(Genesis.vals)) @@ (InitialHeight + 1 :> SetView(Genesis.nvals))
     /\ base = InitialHeight
     /\ act = [name |-> "Genesis", batch |-> << >>, to |-> 0, crash |-> FALSE]
  \/ /\ BootstrapToo
     /\ LET s1 == Advance(Genesis, 1)
            \* statesync/stateprovider.go State(): LastHeightValidatorsChanged = height of NextValidators
            s2 == [UpdateState(s1, << >>).st EXCEPT !.lhc = s1.h + 1 + 2]
        IN /\ st = s2
           /\ db = BootstrapState(EmptyDB, s2, s1.vals).db
           /\ truth = (s2.h :> SetView(s1.vals)) @@ (s2.h + 1 :> SetView(s2.vals)) @@ (s2.h + 2 :> SetView(s2.nvals))
           /\ base = s2.h
     /\ act = [name |-> "Bootstrap", batch |-> << >>, to |-> 0, crash |-> FALSE]

Blocks == IF st.h = 0 THEN 0 ELSE st.h - st.ih + 1

\* one block: SaveABCIResponses, [crash between Commit and Save, handshake], updateState, Save.
\* crash = FALSE: the state is computed from the responses in memory (ApplyBlockUpdates);
\* crash = TRUE : it is rebuilt from the stored recovery copy (RecoverFromStoredResponses).
\* truth gets the set the batch PRESCRIBES in either case.
ApplyBlock(b, crash) ==
  /\ Blocks < MaxBlocks
  /\ LET resp == [vu |-> b, cpu |-> 0]
         want == ApplyBlockUpdates(st, resp)
         u    == IF crash THEN RecoverFromStoredResponses(st, resp, Discard) ELSE want
     IN
     /\ want.err = "none" /\ u.err = "none"
     /\ st' = u.st
     /\ db' = SaveState(db, u.st).db
     /\ truth' = (want.st.h + 2 :> SetView(want.st.nvals)) @@ truth
  /\ UNCHANGED base
  /\ act' = [name |-> "Apply", batch |-> b, to |-> 0, crash |-> crash]

\* consensus.State.pruneBlocks: PruneStates(base, retainHeight), retainHeight <= store height
Prune(to) ==
  /\ st.h > 0 /\ base < to /\ to <= st.h
  /\ LET r == ConsPrune(db, base, to) IN
     /\ r.err = "none"
     /\ db' = r.db
  /\ base' = to
  /\ UNCHANGED <<st, truth>>
  /\ act' = [name |-> "Prune", batch |-> << >>, to |-> to, crash |-> FALSE]

\* (a crash while applying a block without validator updates recovers trivially; not enumerated)
Next == (\E b \in BatchChoices : ApplyBlock(b, FALSE) \/ (Len(b) > 0 /\ ApplyBlock(b, TRUE))) \/ (\E to \in (base + 1)..(st.h) : Prune(to))
Spec == Init /\ [][Next]_vars

Retained == {h \in DOMAIN truth : h >= base}
LookupExact == \A h \in Retained : LookupExactAt(db, h, truth[h])
PruneKeeps  == \A h \in Retained : PruneKeepsAt(db, h)
\* the node's own state carries the prescribed sets (recovery = uninterrupted application)
RecoveryExact == /\ SetView(st.nvals) = truth[NextBlockHeight(st) + 1]
                 /\ SetView(st.vals) = truth[NextBlockHeight(st)]
\* whoever skips up to 4 rounds at the next height agrees with whoever walks them
ProposerDeterministic == \A k \in 1..4 : ProposerDeterministicAt(st.vals, k) /\ ProposerDeterministicAt(st.nvals, k)
TruthWellFormed == \A h \in DOMAIN truth : WellFormed(truth[h].vals) /\ NoClip(truth[h].vals)
\* the proposer stored with a set is the member its last rotation chose
ProposerIsMember == \A h \in DOMAIN truth : \E i \in DOMAIN truth[h].vals : truth[h].vals[i] = truth[h].prop
\* PruneStates never fails on a reachable store
PruneNeverFails == \A to \in (base + 1)..(st.h) : st.h > 0 => ConsPrune(db, base, to).err = "none"
View == <<st, db, truth, base>>
=============================================================================
