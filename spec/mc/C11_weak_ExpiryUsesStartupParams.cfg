CONSTANTS
  Ctx <- WeakCtx
  AddIds <- QuickIds
  BeginIds <- QuickBegin
  MaxList = 2
  MaxBuf = 1
  MaxInflight = 1
  Bounds <- BoundsAll
  Weak_ExpiryEither = FALSE
  Weak_NoCommittedCheck = FALSE
  Weak_SizeDoubleCount = FALSE
  Weak_DupInBlockOK = FALSE
  Weak_BufferDropped = FALSE
  Weak_NoReloadOnRestart = FALSE
  Weak_PendingSkipsExpiry = FALSE
  Weak_LateAddUnchecked = FALSE
  Weak_ExpiryUsesStartupParams = TRUE
  Weak_UpdateAfterStateSave = FALSE
  Weak_CommittedMarkersDeferred = FALSE
  Weak_BufferDedupIgnoresVoteType = FALSE
  Weak_BufferUsesCurrentValSet = FALSE
INIT Init
NEXT Next
INVARIANTS SizeExact OnceOnly
PROPERTIES AdmitOnlyAdmissible AdmitGenuine BlockCheck ExpiryBoth SurvivesRestart BufferFlushed PendingKept CommittedKept OfferedOnce NoPanic
VIEW View
CHECK_DEADLOCK FALSE
