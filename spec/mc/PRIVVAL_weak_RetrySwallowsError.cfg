CONSTANTS
  Chain = "c"
  Calls <- CallsMixed
  MaxCalls = 2
  Retries = 2
  MaxPings = 1
  MaxConns = 2
  DialRetries = 2
  MaxFaults = 2
  Prio = FALSE
  Hostile = FALSE
  Weak_KeepConnOnError = FALSE
  Weak_NoDropOnReadTimeout = FALSE
  Weak_PingNoMutex = FALSE
  Weak_ErrorIgnored = FALSE
  Weak_NoChainCheck = FALSE
  Weak_RetryOnRemoteError = FALSE
  Weak_RetrySwallowsError = TRUE
  Weak_PingSwallowsError = FALSE
  Weak_ReleaseBeforeSave = FALSE
  Weak_CheckHRSIgnoresStep = FALSE
  Weak_SameHRSResigns = FALSE
  Weak_TimestampOnlyComparesNothing = FALSE
  Weak_LoadResetsState = FALSE
  Weak_NoFlushBeforeSign = FALSE
INIT Init
NEXT Next
INVARIANTS ReturnOKInv
VIEW View
CHECK_DEADLOCK FALSE
