---- MODULE C03_small ----
(* 2 correct (power 2 each) + 1 Byzantine (power 1), proposer rotation as on the real validator set *)
EXTENDS TMConsensusGST
PW == [v \in Vals |-> IF v \in Byz THEN 1 ELSE 2]
PS == <<"v0", "v1", "v2", "v0", "v1", "v0", "v1", "v2">>
====
