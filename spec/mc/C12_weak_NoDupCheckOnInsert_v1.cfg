CONSTANTS
  Version = "v1"
  Txs = {"a", "b"}
  TxSize <- MCTxSize
  Size = 2
  MaxTxsBytes = 3
  MaxTxBytes = 2
  CacheSize = 1
  KeepInvalid = FALSE
  Recheck = TRUE
  TTL = 0
  Peers = {1}
  Gases = {1}
  Prios = {1, 2}
  Senders = {"", "s"}
  PreLimits = {}
  PostLimits = {}
  MaxInflight = 2
  MaxHeight = 0
  MaxBlock = 1
  ReapNs <- MCReapNs
  ReapBs <- MCReapBs
  ReapGs <- MCReapGs
  TightDeltas <- MCNoTight
  MaxDepth = 0
  Weak_NoDupCheckOnInsert = TRUE
  Weak_ReapOffByOne = FALSE
  Weak_FullCheckOnlyOnAdmit = FALSE
  Weak_EvictWithoutBytes = FALSE
  Weak_CacheNotUpdatedOnCommit = FALSE
  Weak_RecheckKeepsRejected = FALSE
  Weak_VarintBoundaryOffByOne = FALSE
  Weak_NonAtomicAdmission = FALSE
INIT Init
NEXT NextCore
CONSTRAINT DepthOK
INVARIANTS InvUnique

VIEW View
CHECK_DEADLOCK FALSE
