CONSTANTS
  Universe <- U4
  Me = "v0"
  Genesis <- G3w
  Menu <- MenuQ
  MaxHeight = 2
  MaxRound = 0
  InvalidValues = {"ZX", "ZC"}
  EnvValues = {"Z0"}
  Weak = {}
  SkipChoices = {FALSE}
  LateRounds = {}
  OtherHeights = FALSE
  AllowRestart = FALSE
  AllowEquiv = FALSE
  EnvBudget = 0
  Bundles = TRUE
  EagerInternal = TRUE
INIT Init
NEXT Next
CHECK_DEADLOCK FALSE
INVARIANTS NeverHeight3
VIEW View
