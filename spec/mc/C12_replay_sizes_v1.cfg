CONSTANTS
  Version = "v1"
  Txs = {"q", "t", "v"}
  TxSize <- MCTxSize
  Size = 3
  MaxTxsBytes = 70000
  MaxTxBytes = 20000
  CacheSize = 0
  KeepInvalid = FALSE
  Recheck = TRUE
  TTL = 0
  Peers = {1}
  Gases = {1}
  Prios = {1, 2}
  Senders = {""}
  PreLimits = {}
  PostLimits = {}
  MaxInflight = 1
  MaxHeight = 0
  MaxBlock = 1
  ReapNs <- MCReapNsSmall
  ReapBs <- MCReapBsSmall
  ReapGs <- MCReapGsSmall
  TightDeltas <- MCTight
  MaxDepth = 0
  Weak_NoDupCheckOnInsert = FALSE
  Weak_ReapOffByOne = FALSE
  Weak_FullCheckOnlyOnAdmit = FALSE
  Weak_EvictWithoutBytes = FALSE
  Weak_CacheNotUpdatedOnCommit = FALSE
  Weak_RecheckKeepsRejected = FALSE
  Weak_VarintBoundaryOffByOne = FALSE
  Weak_NonAtomicAdmission = FALSE
INIT Init
NEXT Next
CONSTRAINT DepthOK
INVARIANTS TypeOK InvUnique InvBounded InvCommittedGone InvCacheConforms InvReapPrefix
CHECK_DEADLOCK FALSE
