------------------------------ MODULE C11_defs ------------------------------
(* Model-checking contexts for C11.  One small chain on which both age limits can be
   exceeded separately and together, with a validator power change; two universes:
     PoolCtx  : the few items the lifecycle model needs (pool state machine, exhaustive)
     CaseCtx  : every genuine item and every single-field perturbation (admission cases) *)
EXTENDS TMEvidenceUniverse

Chain ==
  [N |-> 6, H0 |-> 1, names |-> <<"n1", "n2", "n3", "n4", "n5">>,
   vals |-> << [n1 |-> 2, n2 |-> 1], [n1 |-> 2, n2 |-> 1], [n1 |-> 1, n2 |-> 1, n3 |-> 1],
               [n1 |-> 1, n2 |-> 1], [n1 |-> 1, n2 |-> 1], [n1 |-> 1, n2 |-> 1] >>,
   \* n1 loses power and n3 joins at 3, n3 leaves at 4: late conflicting votes of n1 at 2 / of n3
   \* at 3 (reported when consensus is already one height further) meet another validator set
   \* h:      1   2   3   4   5   6
   time |-> <<10, 20, 60, 62, 64, 70>>,
   signed |-> << <<"n1", "n2">>, <<"n1", "n2">>, <<"n1", "n2", "n3">>, <<"n1", "n2">>, <<"n1", "n2">>, <<"n1", "n2">> >>,
   \* age limits: generous block limit at start-up, LOWERED by the application at 4, duration
   \* limit RAISED at 6
   \* h:          1                  2                  3                  4                  5                  6
   params |-> << [A |-> 2, D |-> 5], [A |-> 2, D |-> 5], [A |-> 2, D |-> 5], [A |-> 1, D |-> 5], [A |-> 1, D |-> 5], [A |-> 1, D |-> 20] >>]
\* item of height 1 (t=10): at H=2,3 over the duration only, at H=4 expired by both
\* item of height 2 (t=20): at H=3 over the duration only; at H=4 expired by both under the
\*                          limits in force (1,5) but not under the start-up limits (2,5)
\* item of height 3 (t=60): at H=5 over the block limit only; at H=6 NOT expired under the
\*                          limits in force (1,20) but expired under (2,5) and (1,5)
\* light-client-attack items need the commits of their heights, which the block store has
\* one block later: lunatic (common 3, conflicting 4) is verifiable at H=5 only,
\* equivocation at 3 at H=4 and H=5

AllItems ==
       DvFamily(Chain, "d1", 1, 1, "n1") \cup DvFamily(Chain, "d2", 2, 2, "n1")
  \cup DvFamily(Chain, "d3", 3, 3, "n3")
  \cup LunaticFamily(Chain, "l3", 4, 3, 4) \cup EquivFamily(Chain, "e3", 5, 3)

AllFn  == ToFn(AllItems)
IsLca(id) == AllFn[id].wsize = 1 /\ "cvals" \in DOMAIN AllFn[id]
DvFn  == [id \in {x \in DOMAIN AllFn : "val" \in DOMAIN AllFn[x]} |-> AllFn[id]]
LcaFn == [id \in {x \in DOMAIN AllFn : "cvals" \in DOMAIN AllFn[x]} |-> AllFn[id]]
AllPairs == [q1 |-> Pair(Chain, "d1", 1, "n1"), q2 |-> Pair(Chain, "d2", 2, "n1"), q3 |-> Pair(Chain, "d3", 3, "n3"),
             v2 |-> PrevotePair(Chain, "d2", 2, "n1"), v3 |-> PrevotePair(Chain, "d3", 3, "n3")]

CaseCtx == Chain @@ [dv |-> DvFn, lca |-> LcaFn, pairs |-> AllPairs]

PoolDv  == {"d2genuine", "d3genuine"}
PoolLca == {"l3genuine", "l3fewer", "e3genuine"}
PoolCtx == Chain @@ [dv |-> Restrict(DvFn, PoolDv \cup {"d2valsnext"}), lca |-> Restrict(LcaFn, PoolLca),
                     pairs |-> Restrict(AllPairs, {"q3"})]
PoolIds == PoolDv \cup PoolLca
PoolBegin == {"d2genuine"}

\* quick tier: five items
QuickDv  == {"d2genuine", "d3genuine"}
QuickLca == {"l3genuine", "l3fewer"}
QuickCtx == Chain @@ [dv |-> Restrict(DvFn, QuickDv \cup {"d2valsnext"}), lca |-> Restrict(LcaFn, QuickLca),
                      pairs |-> Restrict(AllPairs, {"q3"})]
\* the weakened specs are checked with both pairs (late votes of n1 at 2 need q2)
\* ... and with the prevote pair of n1 at 2 next to its precommit pair
WeakCtx == [QuickCtx EXCEPT !.pairs = Restrict(AllPairs, {"q2", "q3", "v2"}),
                            !.dv = Restrict(DvFn, QuickDv \cup {"d2valsnext", "d2prevotes"})]
QuickIds == QuickDv \cup QuickLca
QuickBegin == {"d2genuine"}

\* smaller alphabet for the act-augmented replay graph (no VIEW)
GraphDv  == {"d2genuine", "d3genuine"}
GraphLca == {"l3genuine", "l3fewer"}
GraphCtx == Chain @@ [dv |-> Restrict(DvFn, GraphDv \cup {"d2valsnext"}), lca |-> Restrict(LcaFn, GraphLca),
                      pairs |-> Restrict(AllPairs, {"q3"})]
MidCtx == GraphCtx
GraphIds == GraphDv \cup GraphLca
GraphBegin == {"d2genuine"}
MidIds == GraphIds \ {"l3fewer"}   \* thorough graph: split AddEvidence instead of the second light item
NoIds == {}

BoundsAll == {-1, 1}
BoundsOne == {-1}

=============================================================================
