CONSTANTS
  Threads = {"t1", "t2"}
  MaxCalls = 4
  MaxTimer = 1
  QCap = 2
  CallKinds = {"AsyncA", "AsyncB", "SyncA", "SyncB", "FlushSync", "FlushAsync"}
  Server = "raw"
  Faults = {"wrongtype", "extra", "swap", "exception", "garbage", "close", "halfclose", "midframe"}
  MaxFaults = 1
  Chunked = TRUE
  UserStop = TRUE
  SetCb = TRUE
  Gates = TRUE
  Prio = TRUE
  Spill = FALSE
  Weak_FlushDoesNotWaitForCallbacks = FALSE
  Weak_ResponseMatchedByTypeOnly = FALSE
  Weak_NoTypeCheck = FALSE
  Weak_CallbackSetAfterDoneLost = FALSE
  Weak_ErrorLeavesPendingBlocked = FALSE
  Weak_SendBeforeTrack = FALSE
  Weak_ExceptionIgnored = FALSE
  Weak_FlushQueueKeepsSent = TRUE
  Weak_InHandLost = TRUE
  Weak_DeadQueueBlocks = TRUE
INIT Init
NEXT Next



CHECK_DEADLOCK FALSE
