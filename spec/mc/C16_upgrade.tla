---------------------------- MODULE C16_upgrade ----------------------------
(* IdentityBound case enumeration: every case is an initial state (exported with -dump and
   executed on the real MultiplexTransport.upgrade). *)
EXTENDS TMPeerUpgrade
VARIABLE cs
CaseInit == cs \in Cases
CaseNext == UNCHANGED cs
IdentityBound == IdentityBoundOn(cs, Upgrade(cs))
SelfRefused   == SelfRefusedOn(cs, Upgrade(cs))
=============================================================================
