CONSTANTS
  Weak_StartFailureLeaksClients = FALSE
  Weak_KillWatchesConsensusOnly = FALSE
  Weak_KillIgnoresError = FALSE
INIT Init
NEXT Next
INVARIANTS ProxyProps
CHECK_DEADLOCK FALSE
