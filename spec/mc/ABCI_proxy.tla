---- MODULE ABCI_proxy ----
EXTENDS TMAbciProxy
====
