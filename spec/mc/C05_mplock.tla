----------------------------- MODULE C05_mplock -----------------------------
(* Model-checking harness for TMMempoolLock. *)
EXTENDS TMMempoolLock
=============================================================================
