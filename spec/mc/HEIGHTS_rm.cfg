CONSTANTS
  Universe <- U4
  Me = "v0"
  Genesis <- G3w
  Menu <- MenuRm
  MaxHeight = 3
  MaxRound = 0
  InvalidValues = {"ZX", "ZC"}
  EnvValues = {"Z0"}
  Weak = {}
  SkipChoices = {FALSE}
  LateRounds = {}
  OtherHeights = FALSE
  AllowRestart = FALSE
  AllowEquiv = FALSE
  EnvBudget = 3
  Bundles = TRUE
  EagerInternal = TRUE
INIT Init
NEXT Next
CHECK_DEADLOCK FALSE
INVARIANTS LastCommitValid ValsetSchedule ProposerDeterministic RotationNoUpdates NoEquivocation PrecommitJustified SkipOnlyWhenAll RestartPreserves NoPanic
PROPERTIES LastCommitGrows OtherHeightsIgnored
VIEW View
