------------------------------ MODULE C20_cases ------------------------------
(* C20 design-level case analysis: every case (chain, kind of call, arguments, lie) is an
   initial state.  TLC evaluates RelaySound / RelayComplete / UncommittedOnly on every case;
   the same cases are exported (-dump) and executed on the real light/rpc.Client.        *)
EXTENDS TMLightRPC

CONSTANTS
  LieHeights,     \* heights (and height ranges starting there) at which lies are enumerated
  CaseKinds,      \* kinds of call enumerated (a subset of Kinds; the weakened configs look at one kind)
  WithCoherent    \* also enumerate internally consistent lies (liar recomputes dependent hashes)

V(i, p) == [addr |-> "v" \o I2S(i), pk |-> "pk" \o I2S(i), power |-> p, prio |-> 0]
Params0 == [max_bytes |-> 1048576, max_gas |-> -1, iota |-> 1000, ev_age_blocks |-> 100000, ev_age_dur |-> 48,
            ev_max_bytes |-> 100000, pk_types |-> <<"ed25519">>, app_version |-> 0]
TI(n, code, data, gw, gu, log, ev, cs, set) ==
  [name |-> n, code |-> code, data |-> data, gw |-> gw, gu |-> gu, log |-> log, info |-> "", events |-> ev, cs |-> cs, set |-> set]
TxInfo == << TI("a", 0, "da", 1, 1, "la", <<"ea">>, "", <<"s1", "k1", "va">>),
             TI("b", 0, "db", 2, 1, "", << >>, "", <<"s1", "k2", "vb">>),
             TI("c", 1, "", 1, 0, "lc", << >>, "cs1", <<"s2", "k1", "vc">>),     \* failed tx: no state change
             TI("d", 0, "dd", 3, 3, "", <<"ed1", "ed2">>, "", <<"s2", "k1", "vd">>),
             TI("e", 0, "", 0, 0, "", << >>, "", << >>),
             TI("f", 0, "df", 1, 1, "lf", <<"ef">>, "", <<"s1", "k1", "vf">>) >>
KV0 == << [store |-> "s1", kvs |-> <<[k |-> "k1", v |-> "v0"], [k |-> "k2", v |-> "v0"]>>],
          [store |-> "s2", kvs |-> <<[k |-> "k1", v |-> "w0"]>>] >>
B(txs, bbe, ebe, valupd, parupd) == [txs |-> txs, bbe |-> bbe, ebe |-> ebe, valupd |-> valupd, parupd |-> parupd, ev |-> << >>]
\* evidence carried by blocks of the full chain
Dup(id, tvp, vpow, ts) == [ty |-> "dup", id |-> id, common |-> 0, ch |-> 0, byz |-> << >>, tvp |-> tvp, vpow |-> vpow, ts |-> ts, csigs |-> << >>]
Lca(id, common, ch, byz, tvp, ts, csigs) ==
  [ty |-> "lca", id |-> id, common |-> common, ch |-> ch, byz |-> byz, tvp |-> tvp, vpow |-> 0, ts |-> ts, csigs |-> csigs]
\* a chain with transactions, events, a validator-power change (v4: 10 -> 20, effective at
\* height 4, reorders the set) and a consensus-parameter change (effective at height 4)
DescFull == [id |-> "c20full", vals0 |-> <<V(1, 10), V(2, 10), V(3, 10), V(4, 10)>>, params0 |-> Params0, kv0 |-> KV0,
             txinfo |-> TxInfo,
             blocks |-> << B(<< >>, << >>, << >>, << >>, << >>),
                           B(<<"a">>, <<"bb2">>, <<"eb2">>, <<[pk |-> "pk4", power |-> 20]>>, << >>),
                           [B(<<"b", "c">>, << >>, << >>, << >>, <<[max_bytes |-> 524288, max_gas |-> 1000]>>)
                              EXCEPT !.ev = <<Dup("dv3", 40, 10, 1001)>>],
                           B(<< >>, << >>, <<"eb4">>, << >>, << >>),
                           \* a block with light-client-attack evidence AND duplicate-vote evidence
                           [B(<<"d", "e", "f">>, <<"bb5">>, << >>, << >>, << >>)
                              EXCEPT !.ev = <<Lca("cb5", 2, 4, <<"v1", "v2">>, 40, 1001, <<"cs5a", "cs5b", "cs5c", "cs5d">>),
                                              Dup("dv5", 50, 20, 1003)>>],
                           B(<< >>, << >>, << >>, << >>, << >>) >>]
\* a chain without transactions and events
DescBare == [id |-> "c20bare", vals0 |-> <<V(1, 10), V(2, 10), V(3, 10)>>, params0 |-> Params0, kv0 |-> KV0,
             txinfo |-> TxInfo,
             blocks |-> Force([h \in 1..4 |-> B(<< >>, << >>, << >>, << >>, << >>)])]
ChainFull == ModelChain(DescFull)
ChainBare == ModelChain(DescBare)
ChainOf(id) == IF id = "c20full" THEN ChainFull ELSE ChainBare
ASSUME PrintT(<<"desc", DescFull>>)
ASSUME PrintT(<<"desc", DescBare>>)
ASSUME ChainCoherent(ChainFull) /\ ChainCoherent(ChainBare)

LieArg(C, a) == a.lc = "fresh" /\ (a.h \in LieHeights \/ (a.h = 0 /\ a.lo \in LieHeights))
\* lying primary below the trust height (backwards verification), with and without a broken interim chain
TopLieArgs(C, k) == IF k \in ProviderKinds
                    THEN {[a EXCEPT !.pp = pp] : a \in {x \in HonestArgs(C, k) : x.lc = "top" /\ x.page = 0 /\ x.h \in LieHeights /\ x.h < C.tip},
                                                pp \in {"", "break"}}
                    ELSE {}
\* lying primary asked for its LATEST block (height = nil): the light client behind (fresh: the lie is
\* verified like any block) and up to date (warm: nothing from the primary may be relayed)
LatestLieArgs(C, k) == IF k \in ProviderKinds
                       THEN {x \in HonestArgs(C, k) : x.h = 0 /\ x.page = 0 /\ x.lc \in (IF k = "Commit" THEN {"fresh", "warm"} ELSE {"warm"})}
                       ELSE {}
OtherHeights(C, a) == {h \in 1..C.tip : h # a.h /\ h # a.lo}
CasesOf(id) ==
  LET C == ChainOf(id) IN
  UNION {UNION {{[chain |-> id, kind |-> k, a |-> a, f |-> NoLie]}
                \cup (IF LieArg(C, a)
                      THEN {[chain |-> id, kind |-> k, a |-> a, f |-> f] :
                              f \in {g \in Lies(C, k, a, OtherHeights(C, a)) : WithCoherent \/ ~g.coh}}
                      ELSE {})
                : a \in HonestArgs(C, k)} : k \in Kinds \cap CaseKinds}
  \cup UNION {UNION {{[chain |-> id, kind |-> k, a |-> a, f |-> NoLie]}
                     \cup {[chain |-> id, kind |-> k, a |-> a, f |-> f] :
                             f \in {g \in Lies(C, k, a, OtherHeights(C, a)) : WithCoherent \/ ~g.coh}}
                     : a \in TopLieArgs(C, k) \cup LatestLieArgs(C, k)} : k \in Kinds \cap CaseKinds}
\* searches answered by the full node's rpc/core TxSearch with prove = true (kind "TxSearch": no lie,
\* the subject is the honest server itself)
SearchCasesOf(id) == IF "TxSearch" \in CaseKinds
                     THEN {[chain |-> id, kind |-> "TxSearch", a |-> a, f |-> NoLie] : a \in SearchArgs(ChainOf(id))} ELSE {}
Cases == CasesOf("c20full") \cup CasesOf("c20bare") \cup SearchCasesOf("c20full") \cup SearchCasesOf("c20bare")

\* ph: 0 = the case as enumerated; 1 = the case being judged.  The properties are evaluated on
\* the successor so that TLC's workers evaluate them in parallel (initial states are processed
\* by one thread).
VARIABLES cs, ph
CaseInit == cs \in Cases /\ ph = 0
CaseNext == ph = 0 /\ ph' = 1 /\ UNCHANGED cs

InStatement == cs.kind \in StatementKinds
IsCall      == cs.kind \in Kinds          \* a call of the verifying client (the other cases address the server)
Judged(prop) == ph = 1 => prop
RelaySound        == Judged(InStatement => RelaySoundCase(ChainOf(cs.chain), cs))
RelaySoundStrict  == Judged(InStatement => RelaySoundStrictCase(ChainOf(cs.chain), cs))
RelayComplete     == Judged(InStatement => RelayCompleteCase(ChainOf(cs.chain), cs))
UncommittedOnly   == Judged(IsCall => UncommittedOnlyCase(ChainOf(cs.chain), cs))
ServedProofsVerify == Judged(cs.kind = "TxSearch" => SearchServedOK(ChainOf(cs.chain), cs.a))
AllProps          == Judged(IF IsCall THEN CaseOK(ChainOf(cs.chain), cs) ELSE SearchServedOK(ChainOf(cs.chain), cs.a))
\* the two kinds outside the statement's list (consensus parameters, block metas)
ExtraSound        == Judged((IsCall /\ ~InStatement) => RelaySoundCase(ChainOf(cs.chain), cs))
ExtraComplete     == Judged((IsCall /\ ~InStatement) => RelayCompleteCase(ChainOf(cs.chain), cs))
\* a lie that changes a committed field of a statement kind is never relayed ... implied by the above
=============================================================================
