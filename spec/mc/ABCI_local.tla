---- MODULE ABCI_local ----
EXTENDS TMAbciLocal
====
