CONSTANTS
  NodeIDs = {"a", "b"}
  Persistent = {"a"}
  Unconditional = {"b"}
  Reactors = {"r1", "r2"}
  SameIP = FALSE
  AllowDupIP = TRUE
  MaxInbound = 1
  MaxInst = 2
  MaxIncoming = 0
  MaxDials = 1
  MaxStops = 2
  MaxTries = 1
  DialTids = {"d1", "d2"}
  StopTids = {"s1", "s2"}
  RecTids = {"q1", "q2"}
  SplitMarks = FALSE
  FixedRChoice = FALSE
  AsIs_StopNotExclusive = TRUE
  AsIs_NoLifecycleLock = FALSE
  AsIs_MarksNotAtomic = FALSE
  Weak_NoRemovalFlag = FALSE
  Weak_RemoveBeforeReactors = FALSE
  Weak_AddPeerBeforeSetAdd = FALSE
  Weak_StartAfterAdd = FALSE
  Weak_NoDialingMark = FALSE
  Weak_DialingMarkLeak = FALSE
  Weak_ReconnectMarkLeak = FALSE
  Weak_NoCleanupOnAddFail = FALSE
  Weak_InboundLimitOffByOne = FALSE
  Weak_UnconditionalCounted = FALSE
  Weak_NoReconnectOnError = FALSE
  Weak_CleanupKeepsConn = FALSE
  Weak_StaleStopGuardDropped = TRUE
INIT Init
NEXT Next
VIEW View
CHECK_DEADLOCK FALSE
INVARIANTS I_StaleErrStopIsNoop
