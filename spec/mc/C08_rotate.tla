------------------------------ MODULE C08_rotate ------------------------------
(* Proposer rotation cases.  A case = (initial powers, warm-up, first batch) as in
   C08_update; `fresh` cases (no first batch) are sets whose priorities come from the
   rotation alone.  Checked:
     RotationMatchesRef  IncrementProposerPriority(k) = normalise once + k reference rounds
     Fair                fresh set: every window of `total` rounds gives v exactly power(v) turns
     ComposesWhenFresh   fresh set: one call with k = k calls with 1
     Proportional        any set: after w rounds v has had within 3 turns of w*power/total
     RotationWindow      any set: the priority window never exceeds 3*total while rotating
     NeverClips          no priority reaches a clipping bound                           *)
EXTENDS TMValSet
CONSTANTS Pool, InitPowers, MaxInit, Warmups, FirstBatches, MaxTimes
VARIABLE cs

Addresses == 1..Pool
V(a, p) == [a |-> a, p |-> p]
RECURSIVE SeqsOver(_, _, _)
SeqsOver(addrs, powers, k) ==
  IF k = 0 THEN {<< >>}
  ELSE UNION {{<<V(a, p)>> \o rest : p \in powers, rest \in SeqsOver({b \in addrs : b > a}, powers, k - 1)} : a \in addrs}
InitLists == UNION {SeqsOver(Addresses, InitPowers, k) : k \in 1..MaxInit}
GoodInits == {i \in InitLists : SumSeq([j \in DOMAIN i |-> i[j].p]) <= MaxTotal}
Firsts == IF FirstBatches = 0 THEN {<< >>}
          ELSE {<< >>, <<V(Pool, 1)>>, <<V(1, 0)>>, <<V(1, 1), V(2, 0)>>, <<V(2, 1), V(Pool, 2)>>}

PreSet(c) ==
  LET s0 == NewValidatorSet(c.init).set
      s1 == IF c.warm = 0 THEN s0 ELSE IncrementProposerPriority(s0, c.warm)
      u  == UpdateWithChangeSet(s1, c.first)
  IN IF u.err = "none" THEN u.set ELSE s1
Fresh(c) == c.first = << >>

CaseInit == cs \in {[init |-> i, warm |-> w, first |-> f] : i \in GoodInits, w \in Warmups, f \in Firsts}
CaseNext == UNCHANGED cs

RotationMatchesRef ==
  \A k \in 1..MaxTimes :
     LET c == IncrementProposerPriority(PreSet(cs), k)
         r == RefIncrement(PreSet(cs).vals, k)
     IN c.vals = r.vals /\ c.prop.a = r.prop /\ c.prop \in {c.vals[i] : i \in DOMAIN c.vals}

Fair == Fresh(cs) =>
  LET s == PreSet(cs) IN FairWindows(s.vals, ProposerSeq(s, 2 * TotalPower(s.vals) + 1))

ComposesWhenFresh == Fresh(cs) =>
  \A k \in 1..MaxTimes : SetView(IncrementProposerPriority(PreSet(cs), k)) = SetView(IncrementEach(PreSet(cs), k))

Proportional ==
  LET s == PreSet(cs)
      T == TotalPower(s.vals)
  IN ProportionalPrefix(s.vals, ProposerSeq(s, 2 * T), 3 * T)

RECURSIVE WindowStays(_, _)
WindowStays(set, n) ==
  IF n = 0 THEN TRUE
  ELSE LET s1 == IncrementProposerPriority(set, 1) IN
       /\ MaxMinPriorityDiff(s1.vals) <= 3 * TotalPower(s1.vals)
       /\ NoClip(s1.vals)
       /\ Centred(s1.vals)
       /\ WindowStays(s1, n - 1)
RotationWindow == WindowStays(PreSet(cs), 2 * TotalPower(PreSet(cs).vals))
=============================================================================
