CONSTANTS
  Version = "v0"
  Client = "async"
  Subs = {s1, s2}
  TxPerSub = 2
  Blocks = 2
  Weak_CommitWithoutMempoolLock = FALSE
  Weak_NoFlushBeforeCommit = FALSE
INIT Init
NEXT Next
INVARIANTS NoNewCheckDuringCommit LockExclusive
VIEW LockView
CHECK_DEADLOCK TRUE
