CONSTANTS
  Vals = {"v0", "v1", "v2", "v3"}
  PowerOf <- GPW
  ProposerSeq <- GPS
  MaxRound = 2
  InvalidValues = {}
  Weak = {}
  ValSeq <- GValSeq
  NParts = 2
  Weak_NoCatchupCommitParts = FALSE
  Weak_SkipPOLPrevotes = FALSE
  Weak_HasVoteNotRecorded = FALSE
  Weak_Maj23QueryOnlyCurrentRound = FALSE
  Weak_PartsOnlyForCurrentRoundProposal = FALSE
  Weak_SentVoteNotRecorded = FALSE
  Weak_NoLastCommitForLaggingPeer = FALSE
  Weak_VoteSetBitsIgnored = FALSE
  Weak_NewValidBlockIgnored = FALSE
  Weak_InitMarksPartsHad = FALSE
  Weak_ClaimAppliedInReceive = FALSE
  Weak_VoteMarkedBeforeRoundCheck = FALSE
  Code_POLShadowedByCatchupRound = TRUE
  AllowedGaps <- NoG2
  NodeMenu <- NVNode
  PeerMenu <- NVPeer
  Modes = {"fresh", "live"}
  EnvBudget = 1
INIT GInit
NEXT GNext
INVARIANTS PeerStateSound GossipComplete
PROPERTY StepProps
VIEW GView
CHECK_DEADLOCK FALSE
