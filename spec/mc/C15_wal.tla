------------------------------ MODULE C15_wal ------------------------------
(* TLC entry module for the C15 configurations of TMWal. *)
EXTENDS TMWal
=============================================================================
