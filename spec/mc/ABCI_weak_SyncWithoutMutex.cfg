CONSTANTS
  Conns = {"consensus", "mempool", "query", "snapshot"}
  MaxCalls = 2
  Kinds = {"Async", "Sync", "FlushSync", "EchoSync"}
  Gates = TRUE
  Prio = FALSE
  Weak_LocalClientPerConnMutex = FALSE
  Weak_SyncWithoutMutex = TRUE
  Weak_CallbackOutsideMutex = FALSE
INIT Init
NEXT Next
INVARIANTS LocalClientSerialises LocalCallbacks
VIEW View
CHECK_DEADLOCK FALSE
