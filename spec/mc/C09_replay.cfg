CONSTANTS
  H = 4
  NWit = 2
  MaxCalls = 3
  PrimaryPersonas = {"honest", "lunatic", "equiv", "silent", "notfound", "bad", "flip2", "nopivot", "badpivot", "thin3", "weak3", "bound3", "future3", "past3", "malformed3", "badsig3", "lunatic3", "weak4bad", "weak4hole", "fwd_m1", "fwd_0", "fwd_p1"}
  WitnessPersonas = {"honest", "lunatic", "equiv", "silent", "notfound", "bad", "lag2", "lagcatch", "lagfuture", "flip2", "thin3", "weak3", "bound3", "future3", "malformed3", "lunatic3", "relay3", "relay4", "fwd_0", "lag3", "lag3adv", "lag23"}
  Modes = {"skip", "seq"}
  Roots = {1, 3}
  WithUpdate = TRUE
  Nows = {105, 125}
  Weak_SkipTrustLevel = FALSE
  Weak_AdjacentIgnoresNextVals = FALSE
  Weak_NoExpiry = FALSE
  Weak_FutureHeaderOK = FALSE
  Weak_TrustLevelOnNewSet = FALSE
  Weak_MismatchAlsoCountsAsMatch = FALSE
  Weak_NoWitnessNeeded = FALSE
  Weak_BackwardsUnbound = FALSE
  Weak_ReplacementHashUnchecked = FALSE
  Weak_PromotedWitnessStays = FALSE
  Weak_PartialTraceOnBenignError = FALSE
  Weak_LaggingWitnessEqualTimeBenign = FALSE
  Weak_DivergentHeaderExaminedOncePerRun = FALSE
INIT Init
NEXT Next
INVARIANTS TrustRootOnly StoreSound WitnessConfirmed IndependentWitness NoConfirmationFromSilence AttackReported OrderIndependent AttackerNeverOutvoted AttackStoresNothing StoreMonotone
CHECK_DEADLOCK FALSE
