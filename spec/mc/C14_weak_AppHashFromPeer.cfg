CONSTANTS
  Peers <- C14_Peers
  Snaps <- C14_Snaps
  Bytes <- C14_Bytes
  RefetchChoices <- C14_Refetch1
  RejectChoices <- C14_Reject1
  NChunks1 = 1
  NChunks2 = 1
  SameHF = FALSE
  Fetchers = 0
  MaxPerPeer = 10
  MaxArrive = 1
  MaxBad = 0
  MaxChurn = 0
  Atomic = TRUE
  InitPool <- C14_PoolS1
  Fix_DropRejectedSenderChunks = TRUE
  Weak_AppHashFromPeer = TRUE
  Weak_SkipVerifyApp = FALSE
  Weak_VerifyHashOnly = FALSE
  Weak_NextUpAnyOrder = FALSE
  Weak_BlacklistForgets = FALSE
  Weak_RefetchIgnored = FALSE
  Weak_RejectSendersIgnored = FALSE
  Weak_DupOverwrites = FALSE
  Weak_RejectNotBlacklisted = FALSE
  Weak_FormatNotBlacklisted = FALSE
  Weak_NoSyncerLevelCheck = FALSE
  Weak_RemovePeerClearsBlacklist = FALSE
INIT Init
NEXT Next
INVARIANTS TrustedOnly VerifiedBeforeDone InOrder AsRecorded RefetchHonoured NeverReused
VIEW View
CHECK_DEADLOCK FALSE
