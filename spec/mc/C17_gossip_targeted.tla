-------------------------- MODULE C17_gossip_targeted --------------------------
(* The targeted cases of TMPeerGossip as a case set: every case (node class, sequence) is an initial state (the
   dump is the work list of the consensus sequence harness); TLC runs each through the model, the node's
   carrying on included.                                                                          *)
EXTENDS TMPeerGossip
MCSizes == {0, N - 1, N, N + 1, N + 63, N + 64, N + 128, MaxVotes}
VARIABLE cs
TInit == cs \in TargetedSeqs
TNext == UNCHANGED cs
TargetedNoCrash == ~RunCase(cs).crash
TargetedNoHalt  == ~RunCase(cs).halt
=============================================================================
