-------------------------- MODULE C17_gossip_targeted --------------------------
(* The targeted sequences of TMPeerGossip as a case set: every case is an initial state (the dump
   is the work list of the consensus sequence harness); TLC runs each through the model.        *)
EXTENDS TMPeerGossip
MCSizes == {0, N - 1, N, N + 1, N + 63, N + 64, N + 128, MaxVotes}
VARIABLE sq
TInit == sq \in TargetedSeqs
TNext == UNCHANGED sq
TargetedNoCrash == ~RunSeq(NewPRS, sq).crash
=============================================================================
