CONSTANTS
  T = 3
  Peers = {"h1", "l1"}
  Honest = {"h1"}
  ValsAt <- MC_ValsAt
  NilAt = {2}
  LieKinds <- MC_LieSmall
  LiarStatus <- MC_StatusLive
  MaxLies = 1
  MaxJoins = 2
  MaxReq = 4
  MaxStatus = 2
  MaxRetry = 0
  MaxPending = 100
  PerPeer = 100
  Weak_NoCommitVerify = FALSE
  Weak_SaveBeforeValidate = FALSE
  Weak_NoRedo = FALSE
  Weak_SeenCommitUnchecked = FALSE
  Weak_ResetKeepsOwner = FALSE
  Weak_AcceptsFromPreviousPeer = FALSE
  Weak_RedoAlwaysCountsPending = FALSE
  Weak_NilSlotAddressUnchecked = FALSE
  Weak_StaleMaxPeerHeight = FALSE
  Weak_NoBlockValidation = FALSE
  Weak_PartSetNotCompared = FALSE
SPECIFICATION LiveSpec
PROPERTIES ReachesTip
CHECK_DEADLOCK FALSE
