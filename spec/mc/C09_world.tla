---- MODULE C09_world ----
(* exports the bounded universe (TMLightWorld) so that the Go harness can build the
   real, signed light blocks and the providers' answer tables from it *)
EXTENDS TMLightWorld
CONSTANTS H, PersonaNames
VARIABLE w
WInit == w = [blocks |-> WorldBlocks(H), vsets |-> VSets,
              personas |-> [n \in PersonaNames |-> Persona(H, n)]]
WNext == UNCHANGED w
====
