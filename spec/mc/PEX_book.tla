------------------------------- MODULE PEX_book -------------------------------
(* TLC instance of TMAddrBookSM: tiny bucket counts/sizes so that collisions, evictions
   (expireNew), displacement (moveToOld) and the per-address bucket limit are explored exhaustively. *)
EXTENDS TMAddrBookSM

A(i, e) == [id |-> i, ep |-> e]
MCAddrsS == {A("p1", "e1"), A("p1", "e9"), A("p2", "e2"), A("p3", "e3"), A("p4", "e4"), A("p5", "e5")}
MCAddrsQ == {A("p1", "e1"), A("p1", "e9"), A("p2", "e2"), A("p3", "e3")}
MCAddrsF == {A("p1", "e1"), A("p4", "e4"), A("p5", "e5")}
MCAddrsT == {A("p1", "e1"), A("p2", "e2")}
MCSrcs   == {A("s1", "f1"), A("s2", "f2")}
MCSrc1   == {A("s1", "f1")}
MCInvalid == {A("p5", "e5")}
MCUnroutable == {A("p4", "e4"), A("p5", "e5")}
MCOwn == {A("p2", "e2")}
MCPriv == {"p3", "s2"}
MCNone == {}

Num(s) == CASE s = "p1" -> 1 [] s = "p2" -> 2 [] s = "p3" -> 3 [] s = "p4" -> 4 [] s = "p5" -> 5
            [] s = "s1" -> 0 [] s = "s2" -> 1 [] s = "e9" -> 1 [] OTHER -> 0
\* calcNewBucket depends on the GROUPS of addr and src and on the key; calcOldBucket on the address
MCNewBucketOf(a, s, ep) == (Num(a.id) + Num(a.ep) + Num(s.id) + ep) % P.nb
MCOldBucketOf(a, ep)    == (Num(a.id) + ep) % P.ob
MCOneBucket(a, s, ep)   == 0

PSmall == [nb |-> 2, ob |-> 2, nbs |-> 2, obs |-> 1, maxper |-> 2, minsel |-> 2, maxsel |-> 3, selpct |-> 50, need |-> 4]
PQ     == [PSmall EXCEPT !.nbs = 1]
PPer1  == [PSmall EXCEPT !.maxper = 1]
PSel1  == [PSmall EXCEPT !.maxsel = 1]
PTime  == [nb |-> 1, ob |-> 1, nbs |-> 1, obs |-> 1, maxper |-> 1, minsel |-> 2, maxsel |-> 3, selpct |-> 50, need |-> 4]
=============================================================================
