CONSTANTS
  Values = {"A", "B"}
  MaxRound = 0
  MaxTs = 2
  MaxCrashes = 2
  Proposer = {0}
  EndHeight0IntoEmptyHead = TRUE
  ShortTornUndetected = TRUE
  Weak_ReleaseBeforeSave = FALSE
  Weak_CheckHRSIgnoresStep = FALSE
  Weak_SameHRSResigns = FALSE
  Weak_TimestampOnlyComparesNothing = FALSE
  Weak_LoadResetsState = TRUE
  Weak_NoFlushBeforeSign = FALSE
INIT SCInit
NEXT SCNext
INVARIANTS NoConflictingRelease
PROPERTIES PersistBeforeRelease HRSMonotone
VIEW SCView
CHECK_DEADLOCK FALSE
