CONSTANTS
  Vals = {"v0", "v1", "v2"}
  Corr = {"v0", "v1"}
  Byz = {"v2"}
  PowerOf <- PW
  ProposerSeq <- PS
  MaxRound = 4
  PreMax = 1
  Bound = 2
  ByzAfterGST = FALSE
  InvalidValues = {"ZX"}
  ByzValues = {"Z0"}
  Weak = {}
  LazyByz = TRUE
  TimeoutsOn = {"NewHeight", "Propose", "PrevoteWait", "PrecommitWait"}
INIT GInit
NEXT GNext
INVARIANTS BoundedRounds NoPostGSTDeadlock Agreement
VIEW GView
CHECK_DEADLOCK FALSE
