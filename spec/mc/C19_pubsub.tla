----------------------------- MODULE C19_pubsub -----------------------------
(* Model-checking instance of TMPubSubSM: concrete queries and events of the query
   language, evaluated by TMQuery!Matches (tabulated once).                         *)
EXTENDS TMPubSubSM, TMQuery

\* q1 errors on e2 (tx.height = "abc": the S5 trigger).  q2 and q3 are NEAR-DUPLICATES: they
\* differ only in the white space inside the quoted operand (one blank / two blanks), are
\* different queries of the language (a quoted value is compared exactly) and are told
\* apart by e1 / e2.  A server that identifies subscriptions by anything coarser than the
\* exact query text serves one of them with the other's query.
MCQueries == << <<Cond("tx.height", ">", "int", "5")>>,
                <<Cond("a.s", "=", "str", "x y")>>,
                <<Cond("a.s", "=", "str", "x  y")>> >>
MCEvents == << << [k |-> "tm.event", v |-> <<"Tx">>], [k |-> "tx.height", v |-> <<"7">>], [k |-> "a.s", v |-> <<"x y">>] >>,
               << [k |-> "tm.event", v |-> <<"Tx">>], [k |-> "tx.height", v |-> <<"abc">>], [k |-> "a.s", v |-> <<"x  y">>] >>,
               << [k |-> "tm.event", v |-> <<"NewBlock">>] >> >>
ASSUME Matches(MCQueries[2], MCEvents[1]) = "TRUE" /\ Matches(MCQueries[2], MCEvents[2]) = "FALSE"
ASSUME Matches(MCQueries[3], MCEvents[1]) = "FALSE" /\ Matches(MCQueries[3], MCEvents[2]) = "TRUE"
ASSUME Matches(MCQueries[1], MCEvents[2]) = "ERR"
EvalTab == [q \in 1..Len(MCQueries) |-> [e \in 1..Len(MCEvents) |-> Matches(MCQueries[q], MCEvents[e])]]
MCEval(q, e) == EvalTab[q][e]
MCClients == {"c1", "c2"}
=============================================================================
