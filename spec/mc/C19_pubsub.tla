----------------------------- MODULE C19_pubsub -----------------------------
(* Model-checking instance of TMPubSubSM: concrete queries and events of the query
   language, evaluated by TMQuery!Matches (tabulated once).                         *)
EXTENDS TMPubSubSM, TMQuery

\* q1 errors on e2 (tx.height = "abc": the S5 trigger), q2 is a plain string match,
\* q3 matches everything that has a tm.event
MCQueries == << <<Cond("tx.height", ">", "int", "5")>>,
                <<Cond("tm.event", "=", "str", "Tx")>>,
                <<Cond("tm.event", "EXISTS", "none", "")>> >>
MCEvents == << << [k |-> "tm.event", v |-> <<"Tx">>], [k |-> "tx.height", v |-> <<"7">>] >>,
               << [k |-> "tm.event", v |-> <<"Tx">>], [k |-> "tx.height", v |-> <<"abc">>] >>,
               << [k |-> "tm.event", v |-> <<"NewBlock">>] >> >>
EvalTab == [q \in 1..Len(MCQueries) |-> [e \in 1..Len(MCEvents) |-> Matches(MCQueries[q], MCEvents[e])]]
MCEval(q, e) == EvalTab[q][e]
MCClients == {"c1", "c2"}
=============================================================================
