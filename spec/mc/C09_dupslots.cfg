CONSTANTS
  H = 4
  NWit = 2
  MaxCalls = 2
  PrimaryPersonas = {"dup3", "dup4"}
  WitnessPersonas = {"dup3", "dup4", "honest", "silent"}
  Modes = {"skip", "seq"}
  Roots = {1}
  WithUpdate = FALSE
  Nows = {105}
  Weak_SkipTrustLevel = FALSE
  Weak_AdjacentIgnoresNextVals = FALSE
  Weak_NoExpiry = FALSE
  Weak_FutureHeaderOK = FALSE
  Weak_TrustLevelOnNewSet = FALSE
  Weak_MismatchAlsoCountsAsMatch = FALSE
  Weak_NoWitnessNeeded = FALSE
  Weak_BackwardsUnbound = FALSE
  Weak_ReplacementHashUnchecked = FALSE
  Weak_PromotedWitnessStays = FALSE
  Weak_PartialTraceOnBenignError = FALSE
  Weak_LaggingWitnessEqualTimeBenign = FALSE
  Weak_DivergentHeaderExaminedOncePerRun = FALSE
INIT Init
NEXT Next
INVARIANTS TrustRootOnly StoreSound WitnessConfirmed IndependentWitness NoConfirmationFromSilence AttackReported OrderIndependent AttackerNeverOutvoted AttackStoresNothing StoreMonotone
VIEW CView
CHECK_DEADLOCK FALSE
