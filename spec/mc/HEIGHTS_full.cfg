CONSTANTS
  Universe <- U4
  Me = "v0"
  Genesis <- G4
  Menu <- MenuA
  MaxHeight = 2
  MaxRound = 0
  InvalidValues = {"ZX", "ZC"}
  EnvValues = {"Z0"}
  Weak = {}
  SkipChoices = {FALSE, TRUE}
  LateRounds = {}
  OtherHeights = FALSE
  AllowRestart = TRUE
  AllowEquiv = FALSE
  EnvBudget = 0
  Bundles = TRUE
  EagerInternal = TRUE
INIT Init
NEXT Next
CHECK_DEADLOCK FALSE
INVARIANTS LastCommitValid ValsetSchedule ProposerDeterministic RotationNoUpdates NoEquivocation PrecommitJustified SkipOnlyWhenAll RestartPreserves NoPanic
PROPERTIES LastCommitGrows OtherHeightsIgnored
VIEW View
