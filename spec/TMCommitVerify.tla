------------------------------ MODULE TMCommitVerify ------------------------------
(* Commit verification of types/validator_set.go:

       ValidatorSet.VerifyCommit              (full: every non-absent signature must verify)
       ValidatorSet.VerifyCommitLight         (early exit at the first +2/3 crossing)
       ValidatorSet.VerifyCommitLightTrusting (lookup by address, caller's trust fraction)

   transcribed as operators over values INCLUDING the order of checks and early exits, the
   sign-bytes construction of types/block.go (Commit.GetVote / CommitSig.BlockID /
   Commit.VoteSignBytes) and types/canonical.go (CanonicalizeVote), the total-power
   guard (updateTotalVotingPower) and safeMul; plus the reference predicate  Enough  that
   states what property C07 demands of an accepted commit.

   Operators only (no variables): spec/mc/C07_cases.tla enumerates the case set and checks
   the properties on the operators; spec/trace/TMCommitVerifyTrace.tla evaluates the same
   operators and the same properties on verdicts OBSERVED on the real functions.

   Abstract values
     validator   [id |-> "v2", power |-> Number]        id doubles as address and as key
     valset      sequence of validators (the order of ValidatorSet.Validators)
     signature   [by, chain, type, h, r, bid, ts]       "key `by` signed this canonical vote";
                                                        by = "garbage"/"empty": verifies under no key
     slot        [flag, addr, ts, sig]                  CommitSig; flag in absent/commit/nil/unknown
     commit      [height, round, bid, sigs]
     block id    a string; "Z" is the zero BlockID (what a nil vote is signed over)
   Signatures are symbolic: unforgeability and injectivity of the canonical encoding are
   assumed, ed25519 itself is trusted.

   Numbers (voting powers, trust-level numerator/denominator) go through the arithmetic
   interface N* so that the same text is evaluated on TLC integers (case enumeration) and
   on arbitrary-size naturals (TMBigNat; trace validation at powers near 2^60).          *)
EXTENDS Integers, Sequences, FiniteSets, TLC

CONSTANTS
  NOf(_),          \* small TLC natural -> Number
  NAdd(_, _), NMul(_, _), NDiv(_, _), NGt(_, _),
  NMaxInt64,       \* math.MaxInt64 as a Number          (safeMul)
  NMaxTotal,       \* MaxTotalVotingPower as a Number    (updateTotalVotingPower panics above it)
  \* ---- bug switches: each weakens ONE guard the way a plausible regression would
  Weak_QuorumGE,              \* tallied >= needed accepted (off by one at exactly 2/3)
  Weak_LightCountsNil,        \* VerifyCommitLight skips only absent slots: nil-flag signatures are tallied
  Weak_NoDoubleSignCheck,     \* VerifyCommitLightTrusting without the seenVals check
  Weak_SeenByCommitSlotRange, \* seenVals sized by the COMMIT's length but indexed by the TRUSTED set's validator index:
                              \* a trusted validator whose index is >= len(commit.Signatures) is never remembered
  Weak_TrustsEncodedTotal,    \* ValidatorSetFromProto copies an in-range total_voting_power of the encoded form into the cache
  Weak_IncompleteIdSignsAsNil, \* CanonicalizeBlockID maps every INCOMPLETE block id (not only the zero one) to nil
  Weak_NoBlockIDCheck,        \* VerifyCommit/Light do not compare the blockID argument with commit.BlockID
  Weak_SignBytesIgnoreRound   \* sign bytes do not bind the round

N0 == NOf(0)
NGe(a, b) == ~NGt(b, a)

ZeroBid == "Z"

\* ---------------------------------------------------------------- types/block.go
\* CommitSig.BlockID(commit.BlockID) (block.go:652): panics on an unknown flag;
\* CommitSig.ForBlock / Absent (block.go:627, 632) are the flag tests used below
SlotBlockID(flag, cbid) ==
  IF flag = "commit" THEN cbid
  ELSE IF flag \in {"absent", "nil"} THEN ZeroBid
  ELSE "PANIC"
FlagKnown(flag) == flag \in {"absent", "commit", "nil"}

\* Commit.VoteSignBytes(chainID, idx) (block.go:807) = VoteSignBytes(chainID, commit.GetVote(idx)) (block.go:784,
\* vote.go:93) over CanonicalizeVote (canonical.go:56):
\* canonical vote = (type, height, round, block id per flag, slot timestamp, chain id);
\* neither the validator address nor the index is signed (types/canonical.go)
\* Block ids: "Z" zero (canonicalised to nil), complete ids ("A", "Ap", "B"), and INCOMPLETE ids -- hash present
\* but part-set header empty ("Ai") or with total 0 ("Aj").  Votes carry zero-or-complete ids only, but a Commit may
\* carry an incomplete one (Commit.ValidateBasic refuses only the zero id).  CanonicalizeBlockID (canonical.go:18)
\* maps ONLY the zero id to nil: an incomplete id is its own value in the sign bytes, not nil.
IncompleteBids == {"Ai", "Aj"}
CanonBid(b) == IF Weak_IncompleteIdSignsAsNil /\ b \in IncompleteBids THEN ZeroBid ELSE b
SignBytes(c, chain, s) ==
  [chain |-> chain, type |-> "precommit", h |-> c.height, r |-> c.round,
   bid |-> CanonBid(SlotBlockID(s.flag, c.bid)), ts |-> s.ts]

\* PubKey.VerifySignature(signBytes, sig) (crypto/ed25519) for the key of validator `id`
SigMatches(id, sb, sig, ignoreRound) ==
  /\ sig.by = id
  /\ sig.chain = sb.chain
  /\ sig.type = sb.type
  /\ sig.h = sb.h
  /\ (ignoreRound \/ sig.r = sb.r)
  /\ sig.bid = sb.bid
  /\ sig.ts = sb.ts
VerifySig(id, sb, sig)      == SigMatches(id, sb, sig, Weak_SignBytesIgnoreRound)
VerifySigExact(id, sb, sig) == SigMatches(id, sb, sig, FALSE)     \* reference; never weakened

\* ---------------------------------------------------------------- results
\* err: none | size | height | blockid | wrongsig | notenough | doublevote | zeroden | overflow
\*      | panic_flag | panic_total
\* idx: 0-based slot index named by the error (wrongsig: the slot; doublevote: the second slot), else -1
Res(ok, err, idx, got, needed) == [ok |-> ok, err |-> err, idx |-> idx, got |-> got, needed |-> needed]
Accept          == Res(TRUE, "none", -1, N0, N0)
Reject(err)     == Res(FALSE, err, -1, N0, N0)
RejectAt(err, k) == Res(FALSE, err, k - 1, N0, N0)
NotEnough(g, n) == Res(FALSE, "notenough", -1, g, n)

\* ---------------------------------------------------------------- validator_set.go helpers
RECURSIVE SumPowersFrom(_, _)
SumPowersFrom(vs, k) == IF k > Len(vs) THEN N0 ELSE NAdd(vs[k].power, SumPowersFrom(vs, k + 1))
Total(vs) == SumPowersFrom(vs, 1)
\* TotalVotingPower / updateTotalVotingPower (validator_set.go:316, 298): panics when the running sum exceeds
\* MaxTotalVotingPower (powers
\* are non-negative, so the running sum exceeds it iff the total does)
TotalPanics(vs) == NGt(Total(vs), NMaxTotal)

\* ---------------------------------------------------------------- the set as the functions see it, and the wire
\* A ValidatorSet object = its members + the cache vals.totalVotingPower.  TotalVotingPower()
\* (validator_set.go:316) recomputes only when the cache is 0 -- whatever non-zero value sits in the
\* cache IS the total every verification function uses.
\*     ds == [vals |-> sequence of validators, cached |-> Number]
InMemory(vs) == [vals |-> vs, cached |-> N0]      \* NewValidatorSet / struct literal: the total comes from the members
TVP(ds)       == IF ds.cached = N0 THEN Total(ds.vals) ELSE ds.cached
TVPPanics(ds) == ds.cached = N0 /\ TotalPanics(ds.vals)

\* Wire form (ValidatorSet.ToProto, validator_set.go:932): enc == [vals, proposer, total].  Honest encoders
\* write total = 0; the field, the proposer and the priorities are covered neither by ValidatorSet.Hash()
\* nor by any signature, so an adversary (light-block provider, evidence gossip, tampered record) sets
\* them freely.  proposer: the id of the validator record in the proposer field, "nil" if absent.
Encode(vs, proposer, total) == [vals |-> vs, proposer |-> proposer, total |-> total]

\* ValidatorSetFromProto (validator_set.go:961): members in the encoded order, proposer record must be
\* present, the total is RECOMPUTED from the members (TotalVotingPower() on a zero cache; panics above
\* MaxTotalVotingPower), ValidateBasic refuses the empty set.  Result: the SAME abstract set.
DecodeValSet(enc) ==
  LET cached0 == IF Weak_TrustsEncodedTotal /\ NGt(enc.total, N0) /\ ~NGt(enc.total, NMaxTotal) THEN enc.total ELSE N0
      ds0     == [vals |-> enc.vals, cached |-> cached0]
  IN
  IF enc.proposer = "nil" THEN [ok |-> FALSE, err |-> "proposer", set |-> InMemory(<< >>)]
  ELSE IF TVPPanics(ds0) THEN [ok |-> FALSE, err |-> "panic_total", set |-> InMemory(<< >>)]
  ELSE IF Len(enc.vals) = 0 THEN [ok |-> FALSE, err |-> "empty", set |-> InMemory(<< >>)]
  ELSE [ok |-> TRUE, err |-> "none", set |-> [vals |-> enc.vals, cached |-> TVP(ds0)]]

\* safeMul(a, b) (validator_set.go:1086) reports overflow iff  a # 0 /\ b # 0 /\ |a| > MaxInt64 / |b|
SafeMulOverflows(a, b) == IF a = N0 \/ b = N0 THEN FALSE ELSE NGt(a, NDiv(NMaxInt64, b))

\* GetByAddress (validator_set.go:270): first validator with that address; 0 = not found
IndexOfAddr(vs, addr) ==
  IF \E i \in 1..Len(vs) : vs[i].id = addr
  THEN CHOOSE i \in 1..Len(vs) : vs[i].id = addr /\ \A j \in 1..(i - 1) : vs[j].id # addr
  ELSE 0

\* the two quorum comparisons of the code: VerifyCommit rejects iff got <= needed,
\* the light variants accept iff tallied > needed
Crosses(tallied, needed) == IF Weak_QuorumGE THEN NGe(tallied, needed) ELSE NGt(tallied, needed)

\* ---------------------------------------------------------------- VerifyCommit (validator_set.go:667)
\* NB: the slot's ValidatorAddress is never looked at -- position idx alone selects the key
RECURSIVE VCLoop(_, _, _, _, _, _)
VCLoop(vs, c, chain, k, tallied, needed) ==
  IF k > Len(c.sigs)
  THEN IF Crosses(tallied, needed) THEN Accept ELSE NotEnough(tallied, needed)
  ELSE LET s == c.sigs[k] IN
       IF s.flag = "absent" THEN VCLoop(vs, c, chain, k + 1, tallied, needed)   \* some signatures can be absent
       ELSE IF ~FlagKnown(s.flag) THEN RejectAt("panic_flag", k)                  \* GetVote -> CommitSig.BlockID panics
       ELSE IF ~VerifySig(vs[k].id, SignBytes(c, chain, s), s.sig) THEN RejectAt("wrongsig", k)
       ELSE VCLoop(vs, c, chain, k + 1,
                   IF s.flag = "commit" THEN NAdd(tallied, vs[k].power) ELSE tallied,  \* nil: verified, not tallied
                   needed)

VerifyCommitOn(ds, c, chain, bid, h) ==
  LET vs == ds.vals IN
  IF Len(vs) # Len(c.sigs) THEN Reject("size")
  ELSE IF h # c.height THEN Reject("height")
  ELSE IF ~Weak_NoBlockIDCheck /\ bid # c.bid THEN Reject("blockid")
  ELSE IF TVPPanics(ds) THEN Reject("panic_total")
  ELSE VCLoop(vs, c, chain, 1, N0, NDiv(NMul(TVP(ds), NOf(2)), NOf(3)))
VerifyCommit(vs, c, chain, bid, h) == VerifyCommitOn(InMemory(vs), c, chain, bid, h)

\* ---------------------------------------------------------------- VerifyCommitLight (validator_set.go:722)
RECURSIVE VCLLoop(_, _, _, _, _, _)
VCLLoop(vs, c, chain, k, tallied, needed) ==
  IF k > Len(c.sigs) THEN NotEnough(tallied, needed)
  ELSE LET s == c.sigs[k]
           looked == IF Weak_LightCountsNil THEN s.flag # "absent" ELSE s.flag = "commit"
       IN
       IF ~looked THEN VCLLoop(vs, c, chain, k + 1, tallied, needed)             \* absent or nil: not even verified
       ELSE IF ~FlagKnown(s.flag) THEN RejectAt("panic_flag", k)
       ELSE IF ~VerifySig(vs[k].id, SignBytes(c, chain, s), s.sig) THEN RejectAt("wrongsig", k)
       ELSE LET t == NAdd(tallied, vs[k].power) IN
            IF Crosses(t, needed) THEN Accept                                      \* early exit: the rest is never looked at
            ELSE VCLLoop(vs, c, chain, k + 1, t, needed)

VerifyCommitLightOn(ds, c, chain, bid, h) ==
  LET vs == ds.vals IN
  IF Len(vs) # Len(c.sigs) THEN Reject("size")
  ELSE IF h # c.height THEN Reject("height")
  ELSE IF ~Weak_NoBlockIDCheck /\ bid # c.bid THEN Reject("blockid")
  ELSE IF TVPPanics(ds) THEN Reject("panic_total")
  ELSE VCLLoop(vs, c, chain, 1, N0, NDiv(NMul(TVP(ds), NOf(2)), NOf(3)))
VerifyCommitLight(vs, c, chain, bid, h) == VerifyCommitLightOn(InMemory(vs), c, chain, bid, h)

\* ---------------------------------------------------------------- VerifyCommitLightTrusting (validator_set.go:775)
\* seenVals is written before the signature is checked; a wrong signature returns at once, so
\* "seen" only ever holds validators whose signature verified
RECURSIVE VCLTLoop(_, _, _, _, _, _, _)
VCLTLoop(vs, c, chain, k, tallied, needed, seen) ==
  IF k > Len(c.sigs) THEN NotEnough(tallied, needed)
  ELSE LET s  == c.sigs[k]
           vi == IndexOfAddr(vs, s.addr)
       IN
       IF s.flag # "commit" THEN VCLTLoop(vs, c, chain, k + 1, tallied, needed, seen)
       ELSE IF vi = 0 THEN VCLTLoop(vs, c, chain, k + 1, tallied, needed, seen)   \* signer unknown to this set
       ELSE IF vi \in seen /\ ~Weak_NoDoubleSignCheck THEN RejectAt("doublevote", k)
       ELSE IF ~VerifySig(vs[vi].id, SignBytes(c, chain, s), s.sig) THEN RejectAt("wrongsig", k)
       ELSE LET t == NAdd(tallied, vs[vi].power) IN
            IF Crosses(t, needed) THEN Accept
            ELSE VCLTLoop(vs, c, chain, k + 1, t, needed,
                          \* seenVals[valIdx] = idx  (a map keyed by the validator's index in vs: any index is remembered)
                          IF Weak_SeenByCommitSlotRange /\ vi > Len(c.sigs) THEN seen ELSE seen \cup {vi})

\* no size / height / blockID argument: the commit's own height, round and block id are what is verified.
\* The commit belongs to ANOTHER validator set: its length and slot order are unrelated to vs, a slot's address
\* may map to any index of vs (also to indices >= Len(c.sigs)) or to none
VerifyCommitLightTrustingOn(ds, c, chain, num, den) ==
  IF den = N0 THEN Reject("zeroden")
  ELSE IF TVPPanics(ds) THEN Reject("panic_total")
  ELSE IF SafeMulOverflows(TVP(ds), num) THEN Reject("overflow")
  ELSE VCLTLoop(ds.vals, c, chain, 1, N0, NDiv(NMul(TVP(ds), num), den), {})
VerifyCommitLightTrusting(vs, c, chain, num, den) == VerifyCommitLightTrustingOn(InMemory(vs), c, chain, num, den)

\* ================================================================ reference (property C07)
\* A slot counts for validator `id` iff it is flagged for-the-block and carries a signature
\* of `id`'s key over this chain id, height, round and exactly this block id.  `relax`
\* names ONE requirement that is dropped -- used only to classify a failure.
SlotCountsFor(s, id, chain, h, r, bid, relax) ==
  /\ s.sig.by = id
  /\ \/ s.flag = "commit"
     \/ relax = "nil_flag" /\ s.flag = "nil"
  /\ (relax = "chain" \/ s.sig.chain = chain)
  /\ (relax = "height" \/ s.sig.h = h)
  /\ (relax = "round" \/ s.sig.r = r)
  /\ \/ s.sig.bid = bid
     \/ relax = "blockid"
     \/ relax = "nil_flag" /\ s.flag = "nil" /\ s.sig.bid = ZeroBid

\* the DISTINCT members of vs that validly signed
ValidSigners(vs, c, chain, h, bid, relax) ==
  {i \in 1..Len(vs) : \E k \in 1..Len(c.sigs) : SlotCountsFor(c.sigs[k], vs[i].id, chain, h, c.round, bid, relax)}

RECURSIVE PowerOfFrom(_, _, _)
PowerOfFrom(vs, S, k) ==
  IF k > Len(vs) THEN N0
  ELSE IF k \in S THEN NAdd(vs[k].power, PowerOfFrom(vs, S, k + 1)) ELSE PowerOfFrom(vs, S, k + 1)
PowerOf(vs, S) == PowerOfFrom(vs, S, 1)

\* strictly more than num/den of the set's total power:  den * signed > num * total
\* (exact, no integer division)
Enough(vs, c, chain, h, bid, num, den) ==
  NGt(NMul(den, PowerOf(vs, ValidSigners(vs, c, chain, h, bid, "none"))), NMul(num, Total(vs)))

\* --- failure classification (only evaluated when Enough is false but the code accepted)
\* power with multiplicity: every counting slot adds its signer's power again
RECURSIVE PowerWithRepeatsFrom(_, _, _, _, _, _)
PowerWithRepeatsFrom(vs, c, chain, h, bid, k) ==
  IF k > Len(c.sigs) THEN N0
  ELSE LET S == {i \in 1..Len(vs) : SlotCountsFor(c.sigs[k], vs[i].id, chain, h, c.round, bid, "none")} IN
       NAdd(PowerOf(vs, S), PowerWithRepeatsFrom(vs, c, chain, h, bid, k + 1))
\* power of every member named (by position, or by address) in a for-block slot, signature unchecked
ClaimedPower(vs, c) ==
  PowerOf(vs, {i \in 1..Len(vs) : \E k \in 1..Len(c.sigs) :
                   c.sigs[k].flag = "commit" /\ (c.sigs[k].addr = vs[i].id \/ k = i)})
EnoughRelaxed(vs, c, chain, h, bid, num, den, relax) ==
  NGt(NMul(den, PowerOf(vs, ValidSigners(vs, c, chain, h, bid, relax))), NMul(num, Total(vs)))
WhyNotEnough(vs, c, chain, h, bid, num, den) ==
  LET valid == PowerOf(vs, ValidSigners(vs, c, chain, h, bid, "none")) IN
  IF EnoughRelaxed(vs, c, chain, h, bid, num, den, "nil_flag") THEN "nil_counted"
  ELSE IF NGt(NMul(den, PowerWithRepeatsFrom(vs, c, chain, h, bid, 1)), NMul(num, Total(vs))) THEN "repeated_signer_counted"
  ELSE IF EnoughRelaxed(vs, c, chain, h, bid, num, den, "round") THEN "other_round_counted"
  ELSE IF EnoughRelaxed(vs, c, chain, h, bid, num, den, "blockid") THEN "other_block_counted"
  ELSE IF EnoughRelaxed(vs, c, chain, h, bid, num, den, "height") THEN "other_height_counted"
  ELSE IF EnoughRelaxed(vs, c, chain, h, bid, num, den, "chain") THEN "other_chain_counted"
  \* the valid power reaches the code's integer threshold floor(num*total/den) without exceeding num/den
  ELSE IF den # N0 /\ NGe(valid, NDiv(NMul(num, Total(vs)), den)) THEN "quorum_off_by_one"
  ELSE IF NGt(NMul(den, ClaimedPower(vs, c)), NMul(num, Total(vs))) THEN "unverified_counted"
  ELSE "other"

\* "a commit all of whose signatures are valid": one slot per validator, and every non-absent
\* slot has a known flag and a signature of the validator at that position over the vote the
\* slot stands for (the block for commit-flag, nil for nil-flag)
AllSigsValid(vs, c, chain) ==
  /\ Len(c.sigs) = Len(vs)
  /\ \A k \in 1..Len(c.sigs) :
       LET s == c.sigs[k] IN
       \/ s.flag = "absent"
       \/ s.flag \in {"commit", "nil"} /\ VerifySigExact(vs[k].id, SignBytes(c, chain, s), s.sig)

\* ---------------------------------------------------------------- the properties, per input
\* in == [vs, c, chain, bid, h]; the verdict records are parameters so that the same formulas
\* judge the operators (case enumeration) and observed verdicts (trace validation)
SoundFull(in, r)  == r.ok => Enough(in.vs, in.c, in.chain, in.h, in.bid, NOf(2), NOf(3))
SoundLight(in, r) == r.ok => Enough(in.vs, in.c, in.chain, in.h, in.bid, NOf(2), NOf(3))
\* the trusting variant is given no height/blockID: "that block" is the commit's own
SoundTrusting(in, num, den, r) == r.ok => Enough(in.vs, in.c, in.chain, in.c.height, in.c.bid, num, den)
Agree(in, rFull, rLight) == AllSigsValid(in.vs, in.c, in.chain) => (rFull.ok <=> rLight.ok)

\* ---------------------------------------------------------------- spec-level lemmas (checked on the case set)
\* the code's  tallied > total*2/3  (integer division) is the statement's  3*tallied > 2*total
QuorumIdentity(total, tallied) ==
  NGt(tallied, NDiv(NMul(total, NOf(2)), NOf(3))) <=> NGt(NMul(NOf(3), tallied), NMul(NOf(2), total))
\* same for  tallied > total*num/den
FractionIdentity(total, tallied, num, den) ==
  NGt(tallied, NDiv(NMul(total, num), den)) <=> NGt(NMul(den, tallied), NMul(num, total))
=============================================================================
