--------------------------- MODULE TMConsensusHeights ---------------------------
(* The consensus state machine of Tendermint Core v0.34 ACROSS heights: one real node
   (consensus/state.go) over a chain of heights, with the state/execution.go validator-set
   pipeline and cs.LastCommit.

   What one height does is NOT repeated here: every step inside a height is the operator of
   TMConsensusNode (instantiated per height with that height's validator set, powers and
   proposer rotation:  N(V, P, PS)!HandleMsg ...).  This module adds what happens BETWEEN
   heights, as operators over one "world" record w (so that the design state machine
   TMConsensusHeightsSys and the trace spec TMConsensusHeightsTrace share them):

     finalizeCommit -> ApplyBlock/updateState -> updateToState -> scheduleRound0     Rollover
     cs.LastCommit (precommits of the commit round; nil at the initial height)       w.lc
     addVote, "precommit for the previous height" branch (late precommits)           HLate
     SkipTimeoutCommit (both call sites of enterNewRound(cs.Height, 0) in addVote)    EarlyRound0
     messages for other heights (ignored)                                            HMsg
     state.Validators / NextValidators / LastValidators, LastHeightValidatorsChanged  w.vs
     cs.Validators along the node's round path (enterNewRound)                       w.rv
     restart at a height boundary: NewState + reconstructLastCommit + WAL catch-up    HRestart

   Validator sets are values of TMValSet (C08's transcription of types/validator_set.go:
   UpdateWithChangeSet, IncrementProposerPriority) -- the arithmetic is reused, not re-written.
   A validator is named Universe[a] where a is its ADDRESS RANK (1 = lowest address); the
   harness draws its keys so that this holds for the real addresses.

   PROPERTIES (what a user of the component relies on; sources in brackets)

   P1 LastCommitValid   [state.go createProposalBlock/updateToState doc; spec/consensus/consensus.md
                         "LastCommit"; types.Block.ValidateBasic; state/validation.go]
        At every height H above the initial one, cs.LastCommit is a vote set of (H-1, commit round of
        H-1, precommit) that has +2/3 -- counted with the validator set OF HEIGHT H-1 -- for exactly
        the BlockID the node stored as block H-1; it never holds a vote of another height or round; it
        changes only by late precommits (a "commit" entry never disappears).  The LastCommit the node
        puts into its own proposal block is MakeCommit() of it at that moment.
   P2 ValsetSchedule    [state/execution.go updateState: "Change results from this height but only
                         applies to the next next height"; spec/abci EndBlock]
        The validator set in force at height H (votes, proposer) is the genesis set changed by the
        EndBlock updates of heights <= H-2, in order; NextValidators = ... <= H-1; LastValidators = the
        set of H-1; LastHeightValidatorsChanged = (last height with an update) + 2.
   P3 ProposerDeterministic [spec/consensus/proposer-selection.md: "deterministic ... consistent results";
                         "R1: ... all correct processes agree on the proposer of (h, r)"]
        The proposer the node uses at (H, r) is a function of the state at H and of r alone: the
        result of r single IncrementProposerPriority(1) steps on state.Validators -- whatever rounds the
        node itself went through (round skips).  Without updates, state.Validators at H is the genesis set
        rotated H-1 times.
   P4 SignedInOrder     [consensus.md, signing.md]
        The node signs at height H only when it is AT height H (block H-1 stored, state H-1 saved); never
        two different messages for one (H, type, round); a non-nil precommit at (H, r) has a polka at
        (H, r) counted with the validator set OF HEIGHT H (P2), for a block it holds.
   P5 OtherHeightsIgnored [state.go addVote "Height mismatch is ignored", addProposalBlockPart,
                         defaultSetProposal "Does not apply"]
        A vote, proposal or block part whose height is not the node's height changes nothing, with the
        single exception of a precommit for height-1 while the node is in step NewHeight (P1).
   P6 SkipOnlyWhenAll   [config: skip_timeout_commit "Make progress as soon as we have all the precommits"]
        The node leaves step NewHeight before the NewHeight timeout only if SkipTimeoutCommit is set and
        LastCommit holds a precommit of EVERY validator of the previous height.
   P7 RestartPreserves  [state.go reconstructLastCommit, replay.go catchupReplay]
        A new State on the same stores and WAL, at a height boundary (step NewHeight), is in the same
        abstract state: height/round/step, the validator-set triple, and a LastCommit that has the same
        entry for every validator whose precommit of the commit round was not for ANOTHER block (those
        entries are not part of the stored seen-commit).
   P8 NoPanic           the node does not crash (a late precommit at the initial height met a nil
                        LastCommit before fix 30343ca: switch Weak "NilLastCommitPanics").

   Judged on observed traces only (TMConsensusHeightsTrace): P4 also demands that every signature is made while
   cs.Height = block-store height + 1 = saved-state height + 1 and that a prevote / precommit is for a block of THAT
   height which the node holds (a round state carried over the boundary would break it); P1 also demands that the
   LastCommit inside the node's own proposal block equals MakeCommit(cs.LastCommit) with valid signatures, and P6 that
   StartTime = CommitTime + TimeoutCommit while the node waits in step NewHeight.

   Not modelled: CreateEmptyBlocks = false / needProofBlock (the configuration under test always proposes), crashes inside finalizeCommit (C05).

   Weak switches of this module (elements of Weak; the ones of TMConsensusNode pass through):
     NilLastCommitPanics, LastCommitFromRound0, LateAnyRound, ValUpdatesEarly, NoRotationAcrossHeights,
     SkipOnQuorum, RestartNoCatchup, RoundSkipSingleIncrement (= the code as it is, see P3 / FINDINGS).
*)
EXTENDS Integers, Sequences, FiniteSets, TLC

CONSTANTS
  Universe,       \* <<"v0", "v1", ...>>: every validator that can ever exist, in address order
  Me,             \* the node under test
  MaxRound,       \* rounds 0..MaxRound per height (TMConsensusNode)
  InvalidValues,  \* blocks failing ValidateBlock
  Weak

HW(name) == name \in Weak
HNil  == "nil"
HNone == "none"
HStNewHeight == 1

VS == INSTANCE TMValSet WITH MaxTotal <- 1000000, IntMax <- 2000000000,
        Weak_ApplyBeforeVerify <- FALSE, Weak_IgnoreMissingRemoval <- FALSE, Weak_NoResort <- FALSE,
        Weak_NoPenalty <- FALSE, Weak_PenaltyMulOverflow <- FALSE, Weak_NoRescale <- FALSE,
        Weak_NoCentre <- FALSE, Weak_TieHighAddr <- FALSE, Weak_FloorDiv <- FALSE,
        Weak_RoundSkipSingleIncrement <- FALSE   \* TMValSet's own switch (C08); this module has its own (HW("RoundSkipSingleIncrement"))

N(V, P, PS) == INSTANCE TMConsensusNode WITH Vals <- V, PowerOf <- P, ProposerSeq <- PS

Addr(n) == CHOOSE i \in DOMAIN Universe : Universe[i] = n
NameOf(a) == Universe[a]
Names == {Universe[i] : i \in DOMAIN Universe}

\* ------------------------------------------------------------------ validator-set context of a height
\* the canonical proposers of rounds 0..MaxRound+1: state.Validators.GetProposer(), then one
\* IncrementProposerPriority(1) per round
CanonProposers(set) ==
  [k \in 1..(MaxRound + 2) |-> NameOf((IF k = 1 THEN VS!GetProposer(set).prop ELSE VS!IncrementEach(set, k - 1).prop).a)] \o << >>

SetNames(set) == {NameOf(set.vals[i].a) : i \in DOMAIN set.vals}
SetPower(set, n) == IF VS!HasAddress(set.vals, Addr(n)) THEN VS!GetByAddress(set.vals, Addr(n)).p ELSE 0
Cx(set) ==
  LET V == SetNames(set) IN
  [V |-> V, P |-> [n \in V |-> SetPower(set, n)], PS |-> CanonProposers(set)]
NoCx == [V |-> {}, P |-> << >>, PS |-> << >>]

NInit(cx)                 == N(cx.V, cx.P, cx.PS)!InitNode
NEmptyVS(cx)              == N(cx.V, cx.P, cx.PS)!EmptyVS
NVSAdd(cx, vs, src, val)  == N(cx.V, cx.P, cx.PS)!VSAdd(vs, src, val)
NHasAll(cx, vs)           == N(cx.V, cx.P, cx.PS)!HasAll(vs)
NSum(cx, S)               == N(cx.V, cx.P, cx.PS)!SumPower(S)
NTotal(cx)                == N(cx.V, cx.P, cx.PS)!Total
NHandleMsg(cx, s, m, peer)   == N(cx.V, cx.P, cx.PS)!HandleMsg(Me, s, m, peer)
NHandleTimeout(cx, s, k, r)  == N(cx.V, cx.P, cx.PS)!HandleTimeout(Me, s, k, r)
NAddVote(cx, s, m, peer)     == N(cx.V, cx.P, cx.PS)!AddVote(s, m.t, m.r, m.src, m.v, peer).s
NEnterRound0(cx, s)          == N(cx.V, cx.P, cx.PS)!EnterNewRound(Me, s, 0)

\* signAddVote / decideProposal do nothing when the node is not in the validator set of the height:
\* the node's rules run, nothing is signed (the outputs of a step are only ever appended, never read)
Unsigned(cx, s) == IF Me \in cx.V THEN s ELSE [s EXCEPT !.out = SelectSeq(s.out, LAMBDA x : x.t = "sched")]

\* ------------------------------------------------------------------ the world
NoLC == [nil |-> TRUE, h |-> 0, r |-> -1, vs |-> NEmptyVS(NoCx), cx |-> NoCx, alien |-> FALSE]

\* sm.MakeGenesisState: Validators = NewValidatorSet(gen), NextValidators = its copy rotated once,
\* LastValidators empty, LastHeightValidatorsChanged = InitialHeight (1)
InitWorld(gen, skip) ==
  LET g  == VS!NewValidatorSet(gen).set
      nx == VS!IncrementProposerPriority(VS!CopySet(g), 1)
      cx == Cx(g)
  IN [ h    |-> 1,                 \* cs.Height
       s    |-> NInit(cx),         \* the round state of height h (TMConsensusNode record; its own height field is 1 while
                                   \* the height runs and 2 for the instant in which finalizeCommit has run)
       cx   |-> cx,                \* validators / powers / canonical proposers of height h
       vs   |-> [last |-> VS!EmptySet, cur |-> g, next |-> nx, lhvc |-> 1],   \* sm.State
       rv   |-> g,                 \* cs.Validators (rotated along the rounds the node went through)
       lc   |-> NoLC,              \* cs.LastCommit
       seen |-> NEmptyVS(NoCx),    \* the precommits at the moment of the commit (= SeenCommit in the block store)
       late |-> << >>,             \* late precommits handled since (what the WAL holds after #ENDHEIGHT), while in NewHeight
       dec  |-> << >>,             \* dec[H] = [v, r]: BlockID stored at H and its commit round
       app  |-> << >>,             \* app[H] = validator updates returned by EndBlock(H)
       gen  |-> gen,
       skip |-> skip,              \* config.SkipTimeoutCommit
       early |-> "no" ]            \* ghost: how step NewHeight was left early ("no" | "all" | "notall")

Dead(w) == w.s.panic # "none" \/ w.s.stuck

\* enterNewRound: validators.IncrementProposerPriority(round - cs.Round) -- ONE call for a round skip of k rounds.
\* One call of k differs from k calls of 1 when the priority window is rescaled on the way (TMValSet / C08): the repaired
\* code rotates one round at a time, the code as it is makes the single call.
IncRV(rv, k) ==
  IF HW("RoundSkipSingleIncrement") THEN VS!IncrementProposerPriority(VS!CopySet(rv), k)
  ELSE VS!IncrementEach(VS!CopySet(rv), k)

\* may the application answer EndBlock(w.h) with the updates u?  (an update the set refuses makes ApplyBlock fail and
\* the node stop; a menu may remove the node under test: Unsigned() then drops what it would have signed)
ValidUpdate(w, u) == Len(u) = 0 \/ VS!UpdateWithChangeSet(VS!CopySet(w.vs.next), u).err = "none"

\* finalizeCommit(H): SaveBlock(block, parts, seenCommit) - WAL #ENDHEIGHT - ApplyBlock (EndBlock -> u, updateState,
\* state saved) - updateToState - scheduleRound0.   s2: the node record as TMConsensusNode!TryFinalizeCommit left it;
\* pc: the precommit vote sets of H at that moment.
Rollover(w, s2, pc, u) ==
  LET H    == w.h
      cr   == s2.lastCommit.r
      base == VS!CopySet(w.vs.next)
      upd  == IF Len(u) > 0 THEN VS!UpdateWithChangeSet(base, u).set ELSE base
      nset == IF HW("NoRotationAcrossHeights") THEN upd ELSE VS!IncrementProposerPriority(upd, 1)
      cur2 == IF HW("ValUpdatesEarly") THEN nset ELSE base
      cx2  == Cx(cur2)
      lcr  == IF HW("LastCommitFromRound0") THEN 0 ELSE cr        \* updateToState: cs.Votes.Precommits(cs.CommitRound)
  IN [ h    |-> H + 1,
       s    |-> [NInit(cx2) EXCEPT !.out = s2.out],
       cx   |-> cx2,
       vs   |-> [last |-> VS!CopySet(w.vs.cur), cur |-> cur2, next |-> nset,
                 lhvc |-> IF Len(u) > 0 THEN H + 2 ELSE w.vs.lhvc],
       rv   |-> cur2,
       lc   |-> [nil |-> FALSE, h |-> H, r |-> lcr, vs |-> pc[lcr], cx |-> w.cx, alien |-> FALSE],
       seen |-> pc[lcr],
       late |-> << >>,
       dec  |-> Append(w.dec, [v |-> s2.decision, r |-> cr]),
       app  |-> Append(w.app, u),
       gen  |-> w.gen,
       skip |-> w.skip,
       early |-> "no" ]

\* addVote: "if cs.config.SkipTimeoutCommit && ...HasAll() { cs.enterNewRound(cs.Height, 0) }" (only effective in step NewHeight)
EarlyRound0(w) ==
  IF w.s.step # HStNewHeight \/ Dead(w) THEN w
  ELSE [w EXCEPT !.s = Unsigned(w.cx, NEnterRound0(w.cx, w.s)),
                 !.early = IF w.lc.nil \/ NHasAll(w.lc.cx, w.lc.vs) THEN "all" ELSE "notall",
                 !.late = << >>]

\* what follows a handler of the current height.  isPc: the input was a precommit (addVote's precommit branch is the only
\* place where SkipTimeoutCommit is looked at after a commit)
After(w, s2, pc, isPc, u) ==
  LET s3 == Unsigned(w.cx, s2) IN
  IF s3.height = 1
  THEN [w EXCEPT !.s = s3,
                 !.rv = IF s3.round > w.s.round /\ ~s3.stuck THEN IncRV(w.rv, s3.round - w.s.round) ELSE w.rv,
                 !.late = IF s3.step = HStNewHeight THEN w.late ELSE << >>]
  ELSE LET w2 == Rollover(w, s3, pc, u) IN
       IF isPc /\ w.skip /\ (HW("SkipOnQuorum") \/ NHasAll(w.cx, pc[s3.lastCommit.r])) THEN EarlyRound0(w2) ELSE w2

Foreign(vs, v) == vs.votes[v] \notin {HNone, HNil, vs.maj}

\* one late precommit on a vote set of the previous height (VoteSet.AddVote on cs.LastCommit): [vs, added, alien]
LateAdd(lc, m) ==
  IF m.src \notin lc.cx.V THEN [vs |-> lc.vs, added |-> FALSE, alien |-> FALSE]                   \* no such validator at that height
  ELSE IF m.r # lc.r /\ ~HW("LateAnyRound") THEN [vs |-> lc.vs, added |-> FALSE, alien |-> FALSE] \* ErrVoteUnexpectedStep
  ELSE LET a == NVSAdd(lc.cx, lc.vs, m.src, m.v) IN [vs |-> a.vs, added |-> a.added, alien |-> m.r # lc.r]

\* addVote, branch "vote.Height+1 == cs.Height && vote.Type == Precommit"
HLate(w, m) ==
  IF w.s.step # HStNewHeight THEN w                          \* "Late precommit at prior height is ignored"
  ELSE IF w.lc.nil THEN                                       \* initial height: there is no last commit (fix 30343ca)
       (IF HW("NilLastCommitPanics") THEN [w EXCEPT !.s.panic = "other: nil LastCommit"] ELSE w)
  ELSE LET a  == LateAdd(w.lc, m)
           \* the WAL holds every message; kept here: the ones that changed LastCommit or can change the reconstructed one
           keepm == (a.vs # w.lc.vs \/ (m.src \in w.lc.cx.V /\ Foreign(w.seen, m.src))) /\ ~(\E i \in DOMAIN w.late : w.late[i] = m)
           w1 == [w EXCEPT !.lc.vs = a.vs, !.lc.alien = w.lc.alien \/ (a.alien /\ a.vs # w.lc.vs),
                           !.late = IF keepm THEN Append(w.late, m) ELSE w.late]
       IN IF a.added /\ w.skip /\ (HW("SkipOnQuorum") \/ NHasAll(w.lc.cx, a.vs)) THEN EarlyRound0(w1) ELSE w1

\* peers that are not validators of the height share one catch-up counter in the model
PeerKey(w, peer) == IF peer \in w.cx.V THEN peer ELSE "ext"

\* cs.handleMsg for a message of absolute height hh.  m as in TMConsensusNode!HandleMsg; u: EndBlock's answer if this
\* step commits the block
HMsg(w, hh, m, peer, u) ==
  IF Dead(w) THEN w
  ELSE IF hh = w.h THEN
       IF m.t \in {"prevote", "precommit"} /\ m.src \notin w.cx.V THEN
            \* not a validator of this height: VoteSet.AddVote refuses the vote -- after HeightVoteSet.AddVote has made room for
            \* its round (a peer may open two "catch-up" rounds)
            IF m.r \notin w.s.tracked /\ w.s.catchup[PeerKey(w, peer)] < 2
            THEN [w EXCEPT !.s.tracked = @ \cup {m.r}, !.s.catchup[PeerKey(w, peer)] = @ + 1] ELSE w
       ELSE LET s2 == NHandleMsg(w.cx, w.s, m, PeerKey(w, peer))
                pc == IF m.t = "precommit" THEN NAddVote(w.cx, w.s, m, PeerKey(w, peer)).pc ELSE w.s.pc
            IN After(w, s2, pc, m.t = "precommit", u)
  ELSE IF hh = w.h - 1 /\ m.t = "precommit" THEN HLate(w, m)
  ELSE w                                                                          \* P5

\* cs.handleTimeout(ti): "timeouts must be for current height, round, step"
HTimeout(w, hh, k, r, u) ==
  IF Dead(w) \/ hh # w.h THEN w
  ELSE After(w, NHandleTimeout(w.cx, w.s, k, r), w.s.pc, FALSE, u)

\* ------------------------------------------------------------------ restart at a height boundary
\* MakeCommit (seen commit) + CommitToVoteSet: precommits for ANOTHER block are not part of a commit
Reconstruct(cx, vs) ==
  LET keep(v) == vs.votes[v] = vs.maj \/ vs.votes[v] = HNil
      votes2  == [v \in cx.V |-> IF keep(v) THEN vs.votes[v] ELSE HNone]
  IN [votes |-> votes2, by |-> {<<votes2[v], v>> : v \in {x \in cx.V : votes2[x] # HNone}}, pm |-> {}, maj |-> vs.maj]

RECURSIVE ReplayLate(_, _)
ReplayLate(lc, q) == IF q = << >> THEN lc ELSE ReplayLate([lc EXCEPT !.vs = LateAdd(lc, Head(q)).vs], Tail(q))

\* NewState(state from the state store) -> reconstructLastCommit(SeenCommit) -> catchupReplay(WAL since #ENDHEIGHT h-1).
\* Enabled at a boundary only: step NewHeight and nothing of the new height handled yet beyond late precommits.
HRestart(w) ==
  IF w.lc.nil THEN w
  ELSE LET base == [w.lc EXCEPT !.vs = Reconstruct(w.lc.cx, w.seen)]
       IN [w EXCEPT !.lc = IF HW("RestartNoCatchup") THEN base ELSE ReplayLate(base, w.late),
                    !.seen = Reconstruct(w.lc.cx, w.seen)]

\* ------------------------------------------------------------------ commit view of a vote set (VoteSet.MakeCommit)
Flag(vs, v) == IF vs.votes[v] = HNone THEN "absent" ELSE IF vs.votes[v] = HNil THEN "nil"
               ELSE IF vs.votes[v] = vs.maj THEN "commit" ELSE "absent"
CommitOf(cx, vs) == [v \in cx.V |-> Flag(vs, v)]

\* ------------------------------------------------------------------ reference for P2 (independent of TMValSet)
RECURSIVE RefPowers(_, _, _)
RefPowers(gen, app, k) ==
  IF k <= 0 THEN [n \in Names |-> IF \E i \in DOMAIN gen : gen[i].a = Addr(n)
                                  THEN gen[CHOOSE i \in DOMAIN gen : gen[i].a = Addr(n)].p ELSE 0]
  ELSE LET p == RefPowers(gen, app, k - 1)
           u == app[k]
       IN [n \in Names |-> IF \E i \in DOMAIN u : u[i].a = Addr(n) THEN u[CHOOSE i \in DOMAIN u : u[i].a = Addr(n)].p ELSE p[n]]
\* powers in force at height H: updates of heights <= H-2
RefAt(w, H) == RefPowers(w.gen, w.app, IF H - 2 > Len(w.app) THEN Len(w.app) ELSE H - 2)
RefQuorum(pw, S) ==
  LET RECURSIVE Sum(_)
      Sum(T) == IF T = {} THEN 0 ELSE LET x == CHOOSE y \in T : TRUE IN pw[x] + Sum(T \ {x})
  IN 3 * Sum(S) > 2 * Sum(Names)
SetAgrees(set, pw) == \A n \in Names : SetPower(set, n) = pw[n]
RefLhvc(app) == LET S == {k \in DOMAIN app : Len(app[k]) > 0} IN IF S = {} THEN 1 ELSE 2 + CHOOSE k \in S : \A j \in S : j <= k

\* ------------------------------------------------------------------ properties as predicates on a world
P1LastCommitValid(w) ==
  w.h > 1 =>
    /\ Len(w.dec) >= w.h - 1
    /\ ~w.lc.nil /\ w.lc.h = w.h - 1 /\ ~w.lc.alien
    /\ w.lc.r = w.dec[w.h - 1].r
    /\ w.lc.vs.maj = w.dec[w.h - 1].v
    /\ RefQuorum(RefAt(w, w.h - 1), {v \in w.lc.cx.V : w.lc.vs.votes[v] = w.dec[w.h - 1].v})
P2ValsetSchedule(w) ==
  /\ SetAgrees(w.vs.cur, RefAt(w, w.h))
  /\ SetAgrees(w.vs.next, RefAt(w, w.h + 1))
  /\ (w.h > 1 => SetAgrees(w.vs.last, RefAt(w, w.h - 1)))
  /\ w.vs.lhvc = RefLhvc(w.app)
  /\ \A n \in Names : n \in w.cx.V <=> RefAt(w, w.h)[n] > 0
P3ProposerDeterministic(w) ==
  (~Dead(w) /\ w.s.round <= MaxRound) => NameOf(VS!GetProposer(w.rv).prop.a) = w.cx.PS[w.s.round + 1]
P3RotationNoUpdates(w) ==
  (\A k \in DOMAIN w.app : Len(w.app[k]) = 0) =>
     w.vs.cur.vals = (IF w.h = 1 THEN VS!NewValidatorSet(w.gen).set ELSE VS!IncrementEach(VS!NewValidatorSet(w.gen).set, w.h - 1)).vals
P6SkipOnlyWhenAll(w) == w.early # "notall" /\ (w.early = "all" => w.skip)
\* "+2/3 committed / prevoted an invalid block" is the documented reaction to MORE than 1/3 faulty power (the scripted
\* validators can do that); every other crash counts
P8NoPanic(w) == w.s.panic \in {"none", "committed an invalid block", "+2/3 prevoted for an invalid block"}
\* P7, between a world and its restart
P7RestartPreserves(w, w2) ==
  /\ w2.h = w.h /\ w2.s = w.s /\ w2.vs = w.vs /\ w2.rv = w.rv
  /\ w2.lc.nil = w.lc.nil
  /\ (~w.lc.nil => /\ w2.lc.r = w.lc.r /\ w2.lc.vs.maj = w.lc.vs.maj
                   /\ \A v \in w.lc.cx.V : ~Foreign(w.seen, v) => Flag(w2.lc.vs, v) = Flag(w.lc.vs, v))
=============================================================================
