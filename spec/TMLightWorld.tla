----------------------------- MODULE TMLightWorld -----------------------------
(* The bounded universe the design model of the light client is checked in:

   * a reference chain R1..R5 with validator churn and a power vector whose total is
     divisible by three (2:2:1:1 -- otherwise ">" and ">=" thresholds coincide):
        h1,h2: A = v1:2 v2:2 v3:1 v4:1     h3: Bs = v2:2 v3:2 v4:1 v5:1
        h4,h5: C = v5:2 v6:2 v3:1 v4:1
     so that 1 -> 4 and 1 -> 5 cannot be trusted directly (C has exactly 1/3 of A) and
     bisection has to fetch pivots;
   * forgeable headers, by coalition class relative to the trusted set A (total 6):
        {v3}        power 1  (< 1/3)              W3
        {v1}        power 2  (= 1/3, the boundary: the statement's ">= trust level" holds,
                                the code's "> total/3" does not)      Q3
        {v1,v3}     power 3  (> 1/3, < 2/3)       lunatic chain L3 L4 L5 with its own set
        {v1,v2,v3}  power 5  (> 2/3)              equivocation E2 on the genuine set
     and variants with arbitrary time (T3 future, P3 not later than the trusted header),
     supplied set not matching the header (V3), malformed (M3), an invalid signature (S3),
     headers whose own set did not sign enough (N2, N3), a genuine header with a thin commit
     (R3x: same header hash as R3), a foreign header G2 for backwards verification, and headers
     whose own set lists one validator of a coalition below the trust level in several slots
     (D3, D4: the commit repeats its signature per slot).

   Provider behaviours (tables: height+1 -> sequence of answers to successive requests)
   are the "personas" below.                                                          *)
EXTENDS Integers, Sequences, FiniteSets, TLC

V(n, p) == [v |-> n, p |-> p]
SetA  == <<V("v1", 2), V("v2", 2), V("v3", 1), V("v4", 1)>>
SetB  == <<V("v2", 2), V("v3", 2), V("v4", 1), V("v5", 1)>>
SetC  == <<V("v5", 2), V("v6", 2), V("v3", 1), V("v4", 1)>>
SetX13 == <<V("v1", 2), V("v3", 1)>>
SetX3 == <<V("v3", 1)>>
SetX1 == <<V("v1", 2)>>
\* a hand-built set listing the SAME validator in several slots (ValidatorSet.ValidateBasic and
\* LightBlock.ValidateBasic accept it); the commit repeats that validator's one precommit per slot
SetXD3 == <<V("v3", 1), V("v3", 1), V("v3", 1)>>
VSets == [A |-> SetA, B |-> SetB, C |-> SetC, X13 |-> SetX13, X3 |-> SetX3, X1 |-> SetX1, XD3 |-> SetXD3]

\* commit in which exactly the validators of `signers` (all with valid signatures except
\* those in `bad`) committed, the others are absent
SigsOf(vals, signers, bad) ==
  [i \in DOMAIN vals |->
     [v |-> vals[i].v,
      f |-> IF vals[i].v \in signers THEN "commit" ELSE "absent",
      ok |-> vals[i].v \in signers /\ vals[i].v \notin bad]]
Names(vals) == {vals[i].v : i \in DOMAIN vals}

Blk(id, hid, h, t, vh, nvh, vsh, signers, bad, last, wf) ==
  [id |-> id, hid |-> hid, h |-> h, t |-> t, vh |-> vh, nvh |-> nvh, vsh |-> vsh,
   vals |-> VSets[vsh], sigs |-> SigsOf(VSets[vsh], signers, bad), last |-> last,
   wf |-> wf, hwf |-> wf]

Ref(h, vh, nvh, last) == Blk("R" \o ToString(h), "R" \o ToString(h), h, 10 * h, vh, nvh, vh, Names(VSets[vh]), {}, last, TRUE)

AllBlocks ==
  [R1 |-> Ref(1, "A", "A", "nil"),
   R2 |-> Ref(2, "A", "B", "R1"),
   R3 |-> Ref(3, "B", "C", "R2"),
   R4 |-> Ref(4, "C", "C", "R3"),
   R5 |-> Ref(5, "C", "C", "R4"),
   R3x |-> Blk("R3x", "R3", 3, 30, "B", "C", "B", {"v2", "v3"}, {}, "R2", TRUE),
   L3 |-> Blk("L3", "L3", 3, 31, "X13", "X13", "X13", {"v1", "v3"}, {}, "R2", TRUE),
   L4 |-> Blk("L4", "L4", 4, 41, "X13", "X13", "X13", {"v1", "v3"}, {}, "L3", TRUE),
   L5 |-> Blk("L5", "L5", 5, 51, "X13", "X13", "X13", {"v1", "v3"}, {}, "L4", TRUE),
   E2 |-> Blk("E2", "E2", 2, 21, "A", "A", "A", {"v1", "v2", "v3"}, {}, "R1", TRUE),
   W3 |-> Blk("W3", "W3", 3, 31, "X3", "X3", "X3", {"v3"}, {}, "R2", TRUE),
   \* forward lunatic family: forged at height 4 by {v1,v3}, time chosen relative to the
   \* genuine head R3 (t = 30) a lagging honest witness still has: one tick before, equal, one after
   F4b |-> Blk("F4b", "F4b", 4, 29, "X13", "X13", "X13", {"v1", "v3"}, {}, "R3", TRUE),
   F4e |-> Blk("F4e", "F4e", 4, 30, "X13", "X13", "X13", {"v1", "v3"}, {}, "R3", TRUE),
   F4a |-> Blk("F4a", "F4a", 4, 31, "X13", "X13", "X13", {"v1", "v3"}, {}, "R3", TRUE),
   \* duplicate-slot family: forged by {v3} alone (1 of 6 of A, below the trust level), its own set
   \* lists v3 three times and is "fully signed" by index; a trusted validator counts ONCE
   D3 |-> Blk("D3", "D3", 3, 31, "XD3", "XD3", "XD3", {"v3"}, {}, "R2", TRUE),
   D4 |-> Blk("D4", "D4", 4, 41, "XD3", "XD3", "XD3", {"v3"}, {}, "R3", TRUE),
   W4 |-> Blk("W4", "W4", 4, 41, "X3", "X3", "X3", {"v3"}, {}, "R3", TRUE),
   N2 |-> Blk("N2", "N2", 2, 21, "A", "A", "A", {"v1", "v2"}, {}, "R1", TRUE),
   Q3 |-> Blk("Q3", "Q3", 3, 31, "X1", "X1", "X1", {"v1"}, {}, "R2", TRUE),
   N3 |-> Blk("N3", "N3", 3, 31, "B", "B", "B", {"v2", "v3"}, {}, "R2", TRUE),
   T3 |-> Blk("T3", "T3", 3, 1000, "X13", "X13", "X13", {"v1", "v3"}, {}, "R2", TRUE),
   P3 |-> Blk("P3", "P3", 3, 10, "X13", "X13", "X13", {"v1", "v3"}, {}, "R2", TRUE),
   \* malformed = header of another chain (its signatures do not verify for this chain)
   M3 |-> Blk("M3", "M3", 3, 31, "X13", "X13", "X13", {"v1", "v3"}, {"v1", "v3"}, "R2", FALSE),
   V3 |-> Blk("V3", "V3", 3, 31, "X13", "X13", "B", {"v2", "v3", "v4", "v5"}, {}, "R2", TRUE),
   S3 |-> Blk("S3", "S3", 3, 31, "X13", "X13", "X13", {"v1", "v3"}, {"v1"}, "R2", TRUE),
   G2 |-> Blk("G2", "G2", 2, 19, "X13", "X13", "X13", {"v1", "v3"}, {}, "R1", TRUE)]

WorldBlocks(H) == [id \in {i \in DOMAIN AllBlocks : AllBlocks[i].h <= H} |-> AllBlocks[id]]

\* ---------------------------------------------------------------- personas
\* a table: index 1 = height 0 ("latest"), index h+1 = height h
Tab(H, latest, f(_)) == [i \in 1..(H + 1) |-> IF i = 1 THEN latest ELSE f(i - 1)]
RName(h) == "R" \o ToString(h)
LName(h) == "L" \o ToString(h)

Persona(H, name) ==
  CASE name = "honest"    -> Tab(H, <<RName(H)>>, LAMBDA h : <<RName(h)>>)
    [] name = "lunatic"   -> Tab(H, <<LName(H)>>, LAMBDA h : IF h >= 3 THEN <<LName(h)>> ELSE <<RName(h)>>)
    [] name = "equiv"     -> Tab(H, <<"E2">>, LAMBDA h : IF h = 2 THEN <<"E2">> ELSE IF h > 2 THEN <<"TooHigh">> ELSE <<RName(h)>>)
    [] name = "silent"    -> Tab(H, <<"NoResponse">>, LAMBDA h : <<"NoResponse">>)
    [] name = "notfound"  -> Tab(H, <<"NotFound">>, LAMBDA h : <<"NotFound">>)
    [] name = "bad"       -> Tab(H, <<"BadBlock">>, LAMBDA h : <<"BadBlock">>)
    [] name = "lag2"      -> Tab(H, <<"R2">>, LAMBDA h : IF h > 2 THEN <<"TooHigh">> ELSE <<RName(h)>>)
    [] name = "lagcatch"  -> Tab(H, <<"R2", RName(H)>>, LAMBDA h : IF h > 2 THEN <<"TooHigh", RName(h)>> ELSE <<RName(h)>>)
    [] name = "lagfuture" -> Tab(H, <<"T3">>, LAMBDA h : IF h > 3 THEN <<"TooHigh">> ELSE IF h = 3 THEN <<"T3">> ELSE <<RName(h)>>)
    [] name = "flip2"     -> Tab(H, <<RName(H)>>, LAMBDA h : IF h = 2 THEN <<"G2", "R2">> ELSE <<RName(h)>>)
    [] name = "nopivot"   -> Tab(H, <<RName(H)>>, LAMBDA h : IF h \in {2, 3} /\ h < H THEN <<"NotFound">> ELSE <<RName(h)>>)
    [] name = "badpivot"  -> Tab(H, <<RName(H)>>, LAMBDA h : IF h \in {2, 3} /\ h < H THEN <<"N3">> ELSE <<RName(h)>>)
    [] name = "thin3"     -> Tab(H, <<RName(H)>>, LAMBDA h : IF h = 3 THEN <<"R3x">> ELSE <<RName(h)>>)
    [] name = "weak3"     -> Tab(H, <<RName(H)>>, LAMBDA h : IF h = 3 THEN <<"W3">> ELSE <<RName(h)>>)
    [] name = "bound3"    -> Tab(H, <<RName(H)>>, LAMBDA h : IF h = 3 THEN <<"Q3">> ELSE <<RName(h)>>)
    [] name = "future3"   -> Tab(H, <<RName(H)>>, LAMBDA h : IF h = 3 THEN <<"T3">> ELSE <<RName(h)>>)
    [] name = "past3"     -> Tab(H, <<RName(H)>>, LAMBDA h : IF h = 3 THEN <<"P3">> ELSE <<RName(h)>>)
    [] name = "malformed3" -> Tab(H, <<RName(H)>>, LAMBDA h : IF h = 3 THEN <<"M3">> ELSE <<RName(h)>>)
    [] name = "badsig3"   -> Tab(H, <<RName(H)>>, LAMBDA h : IF h = 3 THEN <<"S3">> ELSE <<RName(h)>>)
    \* a target that cannot be trusted directly, and invalid headers at the pivot heights
    [] name = "weak4bad"  -> Tab(H, <<RName(H)>>, LAMBDA h : IF h = 4 THEN <<"W4">> ELSE IF h = 2 THEN <<"N2">> ELSE IF h = 3 THEN <<"N3">> ELSE <<RName(h)>>)
    \* a target below the trust level, an honest first pivot, nothing at the following pivot
    [] name = "weak4hole" -> Tab(H, <<RName(H)>>, LAMBDA h : IF h = 4 THEN <<"W4">> ELSE IF h = 3 THEN <<"NotFound">> ELSE <<RName(h)>>)
    \* a relay: has the block of one height only (and reports it as its latest), nothing else --
    \* it returns the genuine header but cannot back it against a trace
    [] name = "relay3"    -> Tab(H, <<"R3">>, LAMBDA h : IF h = 3 THEN <<"R3">> ELSE <<"NotFound">>)
    [] name = "relay4"    -> Tab(H, <<"R4">>, LAMBDA h : IF h = 4 THEN <<"R4">> ELSE <<"NotFound">>)
    \* forward lunatic primaries/accomplices (time offset -1, 0, +1 to the head R3) and honest
    \* witnesses whose head is R3: staying there, advancing to R4 during the wait, or reaching R3 only
    \* at the second look
    [] name = "fwd_m1"    -> Tab(H, <<"F4b">>, LAMBDA h : IF h = 4 THEN <<"F4b">> ELSE IF h > 4 THEN <<"TooHigh">> ELSE <<RName(h)>>)
    [] name = "fwd_0"     -> Tab(H, <<"F4e">>, LAMBDA h : IF h = 4 THEN <<"F4e">> ELSE IF h > 4 THEN <<"TooHigh">> ELSE <<RName(h)>>)
    [] name = "fwd_p1"    -> Tab(H, <<"F4a">>, LAMBDA h : IF h = 4 THEN <<"F4a">> ELSE IF h > 4 THEN <<"TooHigh">> ELSE <<RName(h)>>)
    [] name = "lag3"      -> Tab(H, <<"R3">>, LAMBDA h : IF h > 3 THEN <<"TooHigh">> ELSE <<RName(h)>>)
    [] name = "lag3adv"   -> Tab(H, <<"R3", "R4">>, LAMBDA h : IF h = 4 THEN <<"TooHigh", "R4">> ELSE IF h > 4 THEN <<"TooHigh">> ELSE <<RName(h)>>)
    [] name = "lag23"     -> Tab(H, <<"R2", "R3">>, LAMBDA h : IF h > 3 THEN <<"TooHigh">> ELSE <<RName(h)>>)
    [] name = "dup3"      -> Tab(H, <<RName(H)>>, LAMBDA h : IF h = 3 THEN <<"D3">> ELSE <<RName(h)>>)
    [] name = "dup4"      -> Tab(H, <<IF H = 4 THEN "D4" ELSE RName(H)>>, LAMBDA h : IF h = 4 THEN <<"D4">> ELSE <<RName(h)>>)
    [] name = "lunatic3"  -> Tab(H, <<RName(H)>>, LAMBDA h : IF h = 3 THEN <<"L3">> ELSE <<RName(h)>>)

=============================================================================
