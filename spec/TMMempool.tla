------------------------------ MODULE TMMempool ------------------------------
(* C12 design specification: the mempool (v0 CListMempool / v1 TxMempool) as a state
   machine over the step operators of TMMempoolOps.  One action per critical section /
   API call of the Go code; CheckTx is TWO actions (admit, response) so that responses
   interleave with other submissions, reaps, flushes and -- in v1 -- block updates.

   Protocol restrictions that are part of the model (they are what callers must respect):
     v0: Update is called with Lock() held after FlushAppConn(), i.e. with no outstanding
         ABCI request (state/execution.go Commit); otherwise reqResCb panics ("recheck
         cursor is not nil").  Flush and RemoveTxByKey during an unfinished recheck make
         resCbRecheck remove an already removed list element (clist panics; Flush is
         documented "XXX: Unsafe!") -- not enabled while rcur # 0.
     v1: none; CheckTxSync runs outside every lock, so Update, Flush, RemoveTxByKey
         interleave freely with outstanding first-time checks and rechecks.            *)
EXTENDS TMMempoolOps

CONSTANTS Version,        \* "v0" | "v1"
          Txs,            \* tx keys (strings)
          TxSize,         \* tx key -> byte length
          Size, MaxTxsBytes, MaxTxBytes, CacheSize, KeepInvalid, Recheck, TTL,
          Peers,          \* mempool peer ids (SenderID)
          Gases, Prios, Senders,   \* application verdict alphabet
          PreLimits, PostLimits,   \* filters an Update may install (besides "keep")
          MaxInflight,    \* bound on outstanding first-time CheckTx requests
          MaxHeight,      \* number of Updates
          MaxBlock,       \* txs per block
          ReapNs, ReapBs, ReapGs,  \* argument alphabets of the reaps
          TightDeltas,    \* reap actions with byte limits at (exact encoded prefix size + d), d in this set
          MaxDepth        \* history depth bound for BFS (0 = none)

VARIABLES st, act
vars == <<st, act>>

Cfg == [version |-> Version, size |-> Size, maxTxsBytes |-> MaxTxsBytes, maxTxBytes |-> MaxTxBytes,
        cacheSize |-> CacheSize, keepInvalid |-> KeepInvalid, recheck |-> Recheck, ttl |-> TTL,
        txsize |-> TxSize]

Reject   == [ok |-> FALSE, gas |-> 0, prio |-> 0, sender |-> ""]
Verdicts == {Reject} \cup [ok : {TRUE}, gas : Gases, prio : Prios, sender : Senders]

NewCount == Cardinality({i \in DOMAIN st.inflight : st.inflight[i].kind # "recheck"})

\* blocks: sequences of distinct txs, any of which may be unknown to this mempool
Blocks == UNION {{s \in [1..n -> Txs] : \A i, j \in 1..n : i # j => s[i] # s[j]} : n \in 0..MaxBlock}

Init == /\ st = EmptyState(0, NoneV, NoneV)
        /\ act = [name |-> "Init"]

DoAdmit(tx, peer) ==
  /\ NewCount < MaxInflight
  /\ LET r == Admit(Cfg, st, tx, peer) IN
       /\ st' = r.st
       /\ act' = [name |-> "CheckTx_Admit", tx |-> tx, peer |-> peer, res |-> r.res]

\* i: which outstanding request is answered (v0: always the oldest)
DoResponse(i, v) ==
  /\ i \in DOMAIN st.inflight
  /\ Version = "v0" => i = FirstLive(st)
  /\ st.inflight[i].kind = "new"
  /\ LET r == IF Version = "v0" THEN ResponseV0(Cfg, st, v) ELSE ResponseV1(Cfg, st, i, v) IN
       /\ st' = r.st
       /\ act' = [name |-> "CheckTx_Response", tx |-> st.inflight[i].tx, i |-> i, v |-> v, res |-> r.res]

\* enabled only with Weak_NonAtomicAdmission (no "adding" request exists otherwise)
DoInsert(i) ==
  /\ i \in DOMAIN st.inflight
  /\ st.inflight[i].kind = "adding"
  /\ st' = InsertV0(Cfg, st, i).st
  /\ act' = [name |-> "CheckTx_Insert", tx |-> st.inflight[i].tx, i |-> i]

DoRecheck(i, v) ==
  /\ i \in DOMAIN st.inflight
  /\ Version = "v0" => i = 1
  /\ st.inflight[i].kind = "recheck"
  /\ LET r == IF Version = "v0" THEN RecheckV0(Cfg, st, v) ELSE RecheckV1(Cfg, st, i, v) IN
       /\ st' = r.st
       /\ act' = [name |-> "RecheckResponse", tx |-> st.inflight[i].tx, i |-> i, v |-> v, res |-> r.res]

DoUpdate(txs, oks, npre, npost) ==
  /\ st.height < MaxHeight
  /\ Version = "v0" => st.inflight = << >>
  /\ LET r == Update(Cfg, st, st.height + 1, txs, oks, npre, npost) IN
       /\ st' = r.st
       /\ act' = [name |-> "Update", h |-> st.height + 1, txs |-> txs, oks |-> oks,
                  npre |-> npre, npost |-> npost]

DoFlush ==
  /\ Version = "v0" => st.rcur = 0
  /\ st' = Flush(Cfg, st).st
  /\ act' = [name |-> "Flush"]

DoRemove(tx) ==
  /\ Version = "v0" => st.rcur = 0
  /\ LET r == RemoveTxByKey(Cfg, st, tx) IN
       /\ st' = r.st
       /\ act' = [name |-> "RemoveTxByKey", tx |-> tx, res |-> r.res]

DoReapN(n) ==
  /\ st' = st
  /\ act' = [name |-> "ReapMaxTxs", n |-> n, result |-> ReapN(Cfg, st, n)]

DoReapBG(b, g) ==
  /\ st' = st
  /\ act' = [name |-> "ReapMaxBytesMaxGas", b |-> b, g |-> g, result |-> ReapBG(Cfg, st, b, g)]

\* everything that can change the state (the exhaustive configs use this as NEXT and cover
\* the reaps by the invariant InvReapPrefix, which quantifies over the reap arguments)
NextCore ==
  \/ \E tx \in Txs, p \in Peers : DoAdmit(tx, p)
  \/ \E i \in DOMAIN st.inflight, v \in Verdicts : DoResponse(i, v) \/ DoRecheck(i, v)
  \/ \E i \in DOMAIN st.inflight : DoInsert(i)
  \/ \E txs \in Blocks : \E oks \in [DOMAIN txs -> BOOLEAN] :
       \E npre \in {KeepF} \cup PreLimits, npost \in {KeepF} \cup PostLimits : DoUpdate(txs, oks, npre, npost)
  \/ DoFlush
  \/ \E tx \in Txs : DoRemove(tx)

Next ==
  \/ NextCore
  \/ \E n \in ReapNs : DoReapN(n)
  \/ \E b \in ReapBs, g \in ReapGs : DoReapBG(b, g)
  \/ \E b \in TightBytes(Cfg, st.pool, TightDeltas) : DoReapBG(b, -1)

Spec == Init /\ [][Next]_vars

\* bounds: history depth (BFS level), and -- only relevant with Weak_ switches on -- pool growth
DepthOK == (MaxDepth = 0 \/ TLCGet("level") <= MaxDepth) /\ Len(st.pool) <= Size + 2
View == st

-----------------------------------------------------------------------------
(* properties *)
InvUnique        == Unique(st) /\ IndexExact(st)
InvBounded       == CountBounded(Cfg, st) /\ BytesBounded(Cfg, st) /\ BytesExact(st)
InvCommittedGone == CommittedGone(st)
InvCommittedGoneStrict == CommittedGoneStrict(st)     \* holds for v0; refuted for v1 (finding)
InvCacheConforms == CacheConforms(st)
\* every reap the argument alphabet allows, in every reachable state
InvReapPrefix ==
  /\ \A n \in ReapNs : ReapPrefixN(Cfg, st.pool, n, ReapN(Cfg, st, n))
  /\ \A b \in ReapBs, g \in ReapGs : ReapPrefixBG(Cfg, st.pool, b, g, ReapBG(Cfg, st, b, g))
  \* ... and every byte limit tight around the encoded size of a prefix (varint boundaries)
  /\ \A b \in TightBytes(Cfg, st.pool, TightDeltaAll) : ReapPrefixBG(Cfg, st.pool, b, -1, ReapBG(Cfg, st, b, -1))
\* structural sanity of the model itself
TypeOK ==
  /\ st.bytes >= 0 /\ st.rcur \in 0..Len(st.pool) /\ st.rend \in 0..Len(st.pool)
  /\ Len(st.cache) <= CacheSize
  /\ \A i \in DOMAIN st.pool : st.pool[i].peers \subseteq Peers

PropUpdateRemoves  == [][act'.name = "Update" => UpdateRemoves(st', act'.txs)]_vars
PropRecheckFilters == [][act'.name = "RecheckResponse" => RecheckFilters(st, st', act'.tx, act'.v)]_vars
\* reaps, flushes of nothing etc. never change the state
PropReadsPure      == [][act'.name \in {"ReapMaxTxs", "ReapMaxBytesMaxGas"} => st' = st]_vars
=============================================================================
