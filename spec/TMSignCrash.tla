----------------------------- MODULE TMSignCrash -----------------------------
(* The signing pipeline of a validator node, split at every persistence operation in the
   code's order, with crashes between any two of them, restart and WAL catch-up replay.

     consensus/state.go   receiveRoutine : wal.Write(peer msg | timeout) ; handleMsg/handleTimeout
                                           wal.WriteSync(own msg)        ; handleMsg
                          signVote / defaultDecideProposal :
                               wal.FlushAndSync()            FlushWal
                               privValidator.SignVote/SignProposal
     privval/file.go            CheckHRS + same-HRS branch   Check
                                PrivKey.Sign                 ComputeSig   (volatile)
                                saveSigned -> Save ->
     libs/tempfile                WriteFileAtomic: temp file WriteTmp     (O_SYNC)
                                                   rename    Rename       (atomic replace)
                                return nil                   Release      (the signature can now
                                                                            leave the process)
                          sendInternalMessage(own msg)       (part of Release: inq)
                          receiveRoutine, internalMsgQueue:  OwnAppend ; OwnSync ; OwnHandle
     consensus/replay.go  catchupReplay                      Restart ; ReplayStep*
     consensus/wal.go     repairWalFile (drop the torn tail) (part of Restart)
                          processFlushTicks / autofile RotateFile  BackgroundSync

   Durable : pv_file, pv_tmp, wal_synced, wal_unsynced, wal_head
             (wal_unsynced: written, not yet fsync'ed; a crash keeps ANY prefix of it and
             possibly a torn next record.  wal_head: where the current head file begins)
   Volatile: up, pv_mem, rs, inq, pc, replay
   Ghost   : released, ncrash, act

   The node is one validator in one height.  Its round state is kept abstract,
       rs = [r, st, pp, pb, lk, pk, opv]
                                round; st = -1 new height, 0 round entered, 1 proposal attempted,
                                2 prevote attempted, 3 precommit attempted; pp the proposal
                                message it has in this round, pb the complete proposal block it
                                holds; lk the block it is locked on; pk a polka of this round it
                                has seen but could not act on yet; opv its own prevote of this
                                round is in its vote set
   and the environment is the adversary: it chooses which inputs arrive (a complete proposal
   from the round's proposer, the propose timeout, a polka for any value or nil, +2/3-any and
   the wait timeouts), what the node's own freshly created proposal block is EVERY time
   decideProposal runs (createProposalBlock depends on the mempool and is not in the WAL),
   the timestamp of every signing attempt, where the crashes fall and how much of the unsynced
   WAL tail survives.  After a restart the WAL is replayed and the environment continues with
   possibly different inputs, so the value the node wants to sign at an HRS it has already
   signed may differ.                                                                      *)
EXTENDS TMSigner

CONSTANTS Values,       \* block classes
          MaxRound,     \* rounds 0..MaxRound
          MaxTs,        \* timestamps 1..MaxTs (only equality matters)
          MaxCrashes,   \* crashes in the height
          Proposer,     \* the rounds in which this node is the proposer
          EndHeight0IntoEmptyHead,
             (* TRUE = the code as it is: BaseWAL.OnStart writes "#ENDHEIGHT 0" whenever the HEAD file
                is empty, also when the group has rotated files.  catchupReplay searches for that
                marker from the newest file backwards, finds the fresh one and never looks at the
                records of the height in the rotated files again.  An empty head behind rotated
                files is what a crash right after RotateFile, or the repair of a head that held
                only a torn record, leaves.  (WAL defect, property C15; does not endanger C04.)
                FALSE = the marker is written into a new log only.                            *)
          ShortTornUndetected
             (* TRUE = the code as it is: a torn WAL tail of 1..3 bytes is taken for a clean end of
                the log (WALDecoder.Decode returns io.EOF when the 4-byte CRC read comes back short),
                is not repaired at start-up, later records are appended behind it, and the NEXT
                start-up finds the corruption in the middle of the log and repairWalFile drops
                everything from there on - records that had been fsync'ed.  (Found while binding
                this spec to the code; it is a defect of the WAL, property C15, and does not
                endanger C04.)  FALSE = every torn tail is detected and repaired.             *)

VARIABLES pv_file, pv_tmp, wal_synced, wal_unsynced,   \* durable
          wal_head,     \* durable: how many records of wal_synced are in rotated files (0: never rotated)
          up, pv_mem, rs, inq, pc, replay,             \* volatile
          released, ncrash, act                        \* ghost

scvars == <<pv_file, pv_tmp, wal_synced, wal_unsynced, wal_head, up, pv_mem, rs, inq, pc, replay, released, ncrash, act>>
durable  == <<pv_file, pv_tmp, wal_synced, wal_unsynced, wal_head>>

H == 1
Marker(k) == [h |-> k, r |-> k, s |-> k, sb |-> NoSB, sig |-> NoSig]
Down    == Marker(-1)
TmpNone == Marker(-1)
TmpTorn == Marker(-2)

\* ---------------------------------------------------------------- WAL records
\* k = "in"  : t in {"start","tprop","prop","polka","twait","any","next"}  (peer messages, timeouts)
\* k = "own" : t in {"proposal","part","prevote","precommit"}      (internalMsgQueue; an own proposal
\*                                                                  is two messages: the proposal and the block part)
\* k = "torn": a partially written record; t = "long" (>= 4 bytes: detected) or "short" (1..3 bytes)
Rec(k, t, r, v, ts) == [k |-> k, t |-> t, r |-> r, v |-> v, ts |-> ts]
TornRec(kind) == Rec("torn", kind, 0, Nil, 0)
IsTorn(m) == m.k = "torn"
InRec(t, r, v) == Rec("in", t, r, v, 0)

\* ---------------------------------------------------------------- the abstract node
NoPolka == "none"
InitRS == [r |-> 0, st |-> -1, pp |-> Nil, pb |-> Nil, lk |-> Nil, pk |-> NoPolka, opv |-> FALSE]

NoWant == [t |-> "none", r |-> 0, v |-> Nil]
Want(t, r, v) == [t |-> t, r |-> r, v |-> v]

\* enterPrecommit with a polka for block v: relock / lock and precommit it if it is the locked
\* block or the proposal block, otherwise unlock and precommit nil
PrecommitOn(s, v) ==
  IF s.lk = v \/ s.pb = v
  THEN [rs |-> [s EXCEPT !.st = 3, !.lk = v, !.pk = NoPolka], want |-> Want("precommit", s.r, v)]
  ELSE [rs |-> [s EXCEPT !.st = 3, !.lk = Nil, !.pb = Nil, !.pk = NoPolka], want |-> Want("precommit", s.r, Nil)]

(* handleMsg / handleTimeout on one WAL record (live or replayed): the new round state and
   the message the node now wants signed.  fv is the block createProposalBlock would make
   right now.  Guards that do not hold make the call a no-op, as enterX does.              *)
Handle(s, m, fv) ==
  IF m.k = "in" /\ m.t = "start" /\ s.st = -1 THEN              \* timeout NewHeight -> enterNewRound(0) -> enterPropose
    IF 0 \in Proposer THEN [rs |-> [s EXCEPT !.st = 1], want |-> Want("proposal", 0, fv)]
                      ELSE [rs |-> [s EXCEPT !.st = 0], want |-> NoWant]
  ELSE IF m.k = "in" /\ m.t = "tprop" /\ m.r = s.r /\ s.st \in {0, 1} THEN     \* timeoutPropose -> enterPrevote
    [rs |-> [s EXCEPT !.st = 2], want |-> Want("prevote", s.r, IF s.lk # Nil THEN s.lk ELSE s.pb)]
  ELSE IF m.k = "own" /\ m.t = "proposal" /\ m.r = s.r /\ s.pp = Nil THEN        \* defaultSetProposal
    [rs |-> [s EXCEPT !.pp = m.v], want |-> NoWant]
  ELSE IF /\ m.r = s.r /\ s.pb = Nil
          /\ (s.pk = NoPolka \/ s.pk = m.v)                      \* parts of another block no longer fit the header
          /\ \/ (m.k = "in" /\ m.t = "prop" /\ s.pp = Nil)        \* peer's proposal + all block parts
             \/ (m.k = "own" /\ m.t = "part" /\ s.pp = m.v)       \* own block part: addProposalBlockPart completes the block
       THEN
    IF s.st \in {0, 1}
    THEN [rs |-> [s EXCEPT !.st = 2, !.pp = m.v, !.pb = m.v], want |-> Want("prevote", s.r, IF s.lk # Nil THEN s.lk ELSE m.v)]
    ELSE [rs |-> [s EXCEPT !.pp = m.v, !.pb = m.v], want |-> NoWant]
  ELSE IF m.k = "own" /\ m.t = "prevote" /\ m.r = s.r /\ ~s.opv THEN
    \* addVote of the own prevote (a duplicate is not added): with a polka on record and the
    \* block meanwhile complete, "ok && isProposalComplete()" now holds: enterPrecommit
    IF s.st = 2 /\ s.pk # NoPolka /\ s.pb = s.pk
    THEN LET x == PrecommitOn(s, s.pk) IN [rs |-> [x.rs EXCEPT !.opv = TRUE], want |-> x.want]
    ELSE [rs |-> [s EXCEPT !.opv = TRUE], want |-> NoWant]
  ELSE IF m.k = "in" /\ m.t = "polka" /\ m.r = s.r /\ s.st = 2 /\ s.pk = NoPolka THEN    \* +2/3 prevotes
    IF m.v = Nil THEN [rs |-> [s EXCEPT !.st = 3, !.lk = Nil], want |-> Want("precommit", s.r, Nil)]
    ELSE IF s.pb = m.v THEN PrecommitOn(s, m.v)                  \* isProposalComplete: enterPrecommit now
    \* addVote: "valid block we do not know about; set ProposalBlock=nil", parts header := the
    \* polka's; the proposal is no longer complete: enterPrevoteWait
    ELSE [rs |-> [s EXCEPT !.pk = m.v, !.pb = Nil], want |-> NoWant]
  ELSE IF m.k = "in" /\ m.t = "twait" /\ m.r = s.r /\ s.st = 2 /\ s.pk # NoPolka THEN     \* timeoutPrevoteWait -> enterPrecommit
    PrecommitOn(s, s.pk)
  ELSE IF m.k = "in" /\ m.t = "any" /\ m.r = s.r /\ s.st = 2 /\ s.pk = NoPolka THEN    \* +2/3 any, timeoutPrevoteWait
    [rs |-> [s EXCEPT !.st = 3], want |-> Want("precommit", s.r, Nil)]
  ELSE IF m.k = "in" /\ m.t = "next" /\ m.r = s.r /\ s.st = 3 /\ s.r < MaxRound THEN  \* timeoutPrecommitWait -> enterNewRound(r+1)
    IF (s.r + 1) \in Proposer
    THEN [rs |-> [r |-> s.r + 1, st |-> 1, pp |-> Nil, pb |-> Nil, lk |-> s.lk, pk |-> NoPolka, opv |-> FALSE],
          want |-> Want("proposal", s.r + 1, IF s.lk # Nil THEN s.lk ELSE fv)]
    ELSE [rs |-> [r |-> s.r + 1, st |-> 0, pp |-> Nil, pb |-> Nil, lk |-> s.lk, pk |-> NoPolka, opv |-> FALSE], want |-> NoWant]
  ELSE [rs |-> s, want |-> NoWant]

\* what the environment may deliver to a node in round state s
Inputs(s) ==
  (IF s.st = -1 THEN {InRec("start", 0, Nil)} ELSE {})
  \cup (IF s.st \in {0, 1} THEN {InRec("tprop", s.r, Nil)} ELSE {})
  \cup (IF s.st = 0 /\ s.r \notin Proposer /\ s.pp = Nil THEN {InRec("prop", s.r, v) : v \in Values} ELSE {})
  \cup (IF s.st = 2 /\ s.pk = NoPolka THEN {InRec("polka", s.r, v) : v \in Values \cup {Nil}} \cup {InRec("any", s.r, Nil)} ELSE {})
  \cup (IF s.st = 2 /\ s.pk # NoPolka THEN {InRec("twait", s.r, Nil)} ELSE {})
  \cup (IF s.st = 3 /\ s.r < MaxRound THEN {InRec("next", s.r, Nil)} ELSE {})

\* ---------------------------------------------------------------- pipeline
NoReq  == [t |-> "none", h |-> 0, r |-> 0, v |-> Nil, ts |-> 0]
IdlePC == [stage |-> "idle", want |-> NoWant, req |-> NoReq, new |-> EmptyLSS, out |-> NoOut, done |-> FALSE]

SCInit ==
  /\ pv_file = EmptyLSS /\ pv_tmp = TmpNone /\ wal_synced = << >> /\ wal_unsynced = << >> /\ wal_head = 0
  /\ up = TRUE /\ pv_mem = EmptyLSS /\ rs = InitRS /\ inq = << >> /\ pc = IdlePC /\ replay = 0
  /\ released = {} /\ ncrash = 0 /\ act = [name |-> "Init"]

\* after handling a record: enter the signing path, or go back to the loop
AfterHandle(res) ==
  /\ rs' = res.rs
  /\ pc' = IF res.want = NoWant THEN IdlePC ELSE [IdlePC EXCEPT !.stage = "flush", !.want = res.want]

\* receiveRoutine: wal.Write(msg) ; handleMsg(msg) / handleTimeout(ti)
Deliver(m, fv) ==
  /\ up /\ pc.stage = "idle" /\ replay = 0
  /\ m \in Inputs(rs)
  /\ wal_unsynced' = Append(wal_unsynced, m)
  /\ AfterHandle(Handle(rs, m, fv))
  /\ act' = [name |-> "Deliver", m |-> m, fv |-> fv]
  /\ UNCHANGED <<pv_file, pv_tmp, wal_synced, wal_head, up, pv_mem, inq, replay, released, ncrash>>

\* signVote / defaultDecideProposal: cs.wal.FlushAndSync()
FlushWal ==
  /\ up /\ pc.stage = "flush"
  /\ IF Weak_NoFlushBeforeSign
     THEN UNCHANGED <<wal_synced, wal_unsynced>>
     ELSE /\ wal_unsynced' = << >>
          /\ wal_synced' =
               \* during catch-up replay the flush puts the buffered round-step records behind a
               \* short torn tail; the replay reader then runs into garbage, the log is repaired
               \* (cut at the tail) and replayed again, which changes nothing
               IF replay > 0 /\ Len(wal_synced) > 0 /\ wal_synced[Len(wal_synced)] = TornRec("short")
               THEN SubSeq(wal_synced, 1, Len(wal_synced) - 1)
               ELSE wal_synced \o wal_unsynced
  /\ pc' = [pc EXCEPT !.stage = "check"]
  /\ act' = [name |-> "FlushWal"]
  /\ UNCHANGED <<pv_file, pv_tmp, wal_head, up, pv_mem, rs, inq, replay, released, ncrash>>

\* back to the caller of signAddVote / decideProposal
Back == IdlePC

(* Timestamps are only ever compared for equality, and only between sign bytes of one HRS.
   They are therefore named canonically: an attempt uses a timestamp already used at its HRS
   (the clock did not move: voteTime() can return block time + iota twice) or the next unused
   one.  This is a renaming, not a restriction.                                            *)
UsedTs(r, s) ==
  {x.ts : x \in {y \in released : y.h = H /\ y.r = r /\ y.s = s}}
  \cup (IF pv_mem.h = H /\ pv_mem.r = r /\ pv_mem.s = s THEN {pv_mem.sb.ts} ELSE {})
  \cup (IF pv_file.h = H /\ pv_file.r = r /\ pv_file.s = s THEN {pv_file.sb.ts} ELSE {})
MaxOf(S) == IF S = {} THEN 0 ELSE CHOOSE m \in S : \A x \in S : x <= m
TsChoices(r, s) == LET u == UsedTs(r, s) IN u \cup {IF MaxOf(u) < MaxTs THEN MaxOf(u) + 1 ELSE MaxTs}

\* FilePV.signVote / signProposal: CheckHRS and the same-HRS branch
Check(ts) ==
  /\ up /\ pc.stage = "check"
  /\ ts \in TsChoices(pc.want.r, StepOf(pc.want.t))
  /\ LET req == [t |-> pc.want.t, h |-> H, r |-> pc.want.r, v |-> pc.want.v, ts |-> ts]
         res == SignResult(pv_mem, req)
     IN /\ pc' = IF res.kind = "err" THEN Back
                 ELSE IF res.kind = "new" THEN [pc EXCEPT !.stage = "sign", !.req = req, !.new = res.lss, !.out = res.out]
                 ELSE [pc EXCEPT !.stage = "release", !.req = req, !.out = res.out]
        /\ act' = [name |-> "Check", req |-> req, kind |-> res.kind, err |-> res.err, replaying |-> replay > 0]
  /\ UNCHANGED <<pv_file, pv_tmp, wal_synced, wal_unsynced, wal_head, up, pv_mem, rs, inq, replay, released, ncrash>>

\* the own message(s) as the WAL and the handlers see them (the timestamp plays no role there);
\* defaultDecideProposal queues the proposal and then the block parts
OwnRecs(req, out) ==
  IF req.t = "proposal" THEN <<Rec("own", "proposal", req.r, out.v, 0), Rec("own", "part", req.r, out.v, 0)>>
  ELSE <<Rec("own", req.t, req.r, out.v, 0)>>

\* PrivKey.Sign; saveSigned sets pv.LastSignState in memory
ComputeSig ==
  /\ up /\ pc.stage = "sign"
  /\ pv_mem' = pc.new
  /\ IF Weak_ReleaseBeforeSave
     THEN /\ released' = released \cup {Rel(pc.req, pc.out)}
          /\ inq' = inq \o OwnRecs(pc.req, pc.out)
          /\ pc' = [pc EXCEPT !.stage = "computed", !.done = TRUE]
     ELSE /\ UNCHANGED <<released, inq>>
          /\ pc' = [pc EXCEPT !.stage = "computed"]
  /\ act' = [name |-> "ComputeSig"]
  /\ UNCHANGED <<pv_file, pv_tmp, wal_synced, wal_unsynced, wal_head, up, rs, replay, ncrash>>

WriteTmp ==
  /\ up /\ pc.stage = "computed"
  /\ pv_tmp' = pc.new
  /\ pc' = [pc EXCEPT !.stage = "tmp"]
  /\ act' = [name |-> "WriteTmp"]
  /\ UNCHANGED <<pv_file, wal_synced, wal_unsynced, wal_head, up, pv_mem, rs, inq, replay, released, ncrash>>

Rename ==
  /\ up /\ pc.stage = "tmp"
  /\ pv_file' = pv_tmp /\ pv_tmp' = TmpNone
  /\ pc' = [pc EXCEPT !.stage = "renamed"]
  /\ act' = [name |-> "Rename"]
  /\ UNCHANGED <<wal_synced, wal_unsynced, wal_head, up, pv_mem, rs, inq, replay, released, ncrash>>

\* SignVote/SignProposal returns nil; signAddVote/decideProposal: sendInternalMessage
Release ==
  /\ up /\ pc.stage \in {"renamed", "release"}
  /\ IF pc.done
     THEN UNCHANGED <<released, inq>>
     ELSE /\ released' = released \cup {Rel(pc.req, pc.out)}
          /\ inq' = inq \o OwnRecs(pc.req, pc.out)
  /\ pc' = Back
  /\ act' = [name |-> "Release", req |-> pc.req, out |-> pc.out]
  /\ UNCHANGED <<pv_file, pv_tmp, wal_synced, wal_unsynced, wal_head, up, pv_mem, rs, replay, ncrash>>

\* receiveRoutine, case mi := <-cs.internalMsgQueue:  cs.wal.WriteSync(mi) = Write ; FlushAndSync
OwnAppend ==
  /\ up /\ pc.stage = "idle" /\ replay = 0 /\ inq # << >>
  /\ wal_unsynced' = Append(wal_unsynced, Head(inq))
  /\ pc' = [pc EXCEPT !.stage = "ownsync"]
  /\ act' = [name |-> "OwnAppend", m |-> Head(inq)]
  /\ UNCHANGED <<pv_file, pv_tmp, wal_synced, wal_head, up, pv_mem, rs, inq, replay, released, ncrash>>

OwnSync ==
  /\ up /\ pc.stage = "ownsync"
  /\ wal_synced' = wal_synced \o wal_unsynced /\ wal_unsynced' = << >>
  /\ pc' = [pc EXCEPT !.stage = "ownhandle"]
  /\ act' = [name |-> "OwnSync"]
  /\ UNCHANGED <<pv_file, pv_tmp, wal_head, up, pv_mem, rs, inq, replay, released, ncrash>>

OwnHandle(fv) ==
  /\ up /\ pc.stage = "ownhandle"
  /\ inq' = Tail(inq)
  /\ AfterHandle(Handle(rs, Head(inq), fv))
  /\ act' = [name |-> "OwnHandle", m |-> Head(inq)]
  /\ UNCHANGED <<pv_file, pv_tmp, wal_synced, wal_unsynced, wal_head, up, pv_mem, replay, released, ncrash>>

(* Two background goroutines make buffered WAL data durable on their own: BaseWAL's flush
   ticker (processFlushTicks: FlushAndSync every 2 s) and the autofile group's size check
   (processTicks -> checkHeadSizeLimit -> RotateFile: flush, fsync, close the head, rename it
   to <head>.NNN, open a new head).  Neither changes the contents of the log.  They are
   offered between two iterations of the receive routine, where the harness can place them. *)
BackgroundSync(how) ==
  /\ up /\ pc.stage = "idle" /\ replay = 0 /\ wal_unsynced # << >>
  /\ wal_synced' = wal_synced \o wal_unsynced /\ wal_unsynced' = << >>
  /\ wal_head' = IF how = "rotate" THEN Len(wal_synced') ELSE wal_head     \* the new head file is empty
  /\ act' = [name |-> "BackgroundSync", how |-> how]
  /\ UNCHANGED <<pv_file, pv_tmp, up, pv_mem, rs, inq, pc, replay, released, ncrash>>

(* process death at any point.  Everything volatile is gone.  Of the unsynced WAL tail any
   prefix survives; if the cut falls inside a record that record is torn.  A crash in the
   middle of the temp-file write leaves a torn temp file.                                   *)
Crash ==
  /\ up /\ ncrash < MaxCrashes
  /\ \E n \in 0..Len(wal_unsynced), torn \in {"no", "long", "short"}, tmptorn \in BOOLEAN :
       /\ torn # "no" => n < Len(wal_unsynced)
       /\ torn = "short" => ShortTornUndetected
       /\ tmptorn => pc.stage = "computed"
       /\ wal_synced' = wal_synced \o SubSeq(wal_unsynced, 1, n) \o (IF torn # "no" THEN <<TornRec(torn)>> ELSE << >>)
       /\ wal_unsynced' = << >>
       /\ pv_tmp' = IF tmptorn THEN TmpTorn ELSE pv_tmp
       /\ act' = [name |-> "Crash", stage |-> pc.stage, keep |-> n, torn |-> torn, tmptorn |-> tmptorn,
                  unsynced |-> Len(wal_unsynced), replaying |-> replay > 0]
  /\ up' = FALSE /\ pv_mem' = Down /\ rs' = InitRS /\ inq' = << >> /\ pc' = IdlePC /\ replay' = 0
  /\ ncrash' = ncrash + 1
  /\ UNCHANGED <<pv_file, wal_head, released>>

(* What catch-up replay makes of the log.  Reading stops at the first torn record.  If that is
   a short one at the very end it looks like the end of the log and stays where it is; in every
   other case the decoder reports corruption, State.OnStart runs repairWalFile, which keeps the
   records before it and drops everything after it.                                         *)
FirstTorn(w) == IF \E i \in DOMAIN w : IsTorn(w[i]) THEN CHOOSE i \in DOMAIN w : IsTorn(w[i]) /\ \A j \in 1..(i - 1) : ~IsTorn(w[j]) ELSE 0
Repaired(w) == LET i == FirstTorn(w) IN
               IF i = 0 \/ (i = Len(w) /\ w[i] = TornRec("short")) THEN w ELSE SubSeq(w, 1, i - 1)

\* node start: LoadFilePV (ignores temp files), open the WAL (repair), begin catch-up replay
Restart ==
  /\ ~up
  /\ up' = TRUE
  /\ pv_mem' = LoadLSS(pv_file)
  /\ LET w == Repaired(wal_synced)
         \* the head file is empty when the WAL is (re)opened, older files exist: "#ENDHEIGHT 0"
         \* goes into the head and hides them from every later search
         shadowed == EndHeight0IntoEmptyHead /\ wal_head > 0 /\ Len(w) <= wal_head
     IN /\ wal_synced' = IF shadowed THEN << >> ELSE w
        /\ wal_head' = IF shadowed THEN 0 ELSE wal_head
        /\ act' = [name |-> "Restart", repaired |-> w # wal_synced, shadowed |-> shadowed]
  /\ replay' = 1
  /\ UNCHANGED <<pv_file, pv_tmp, wal_unsynced, rs, inq, pc, released, ncrash>>

\* catchupReplay: readReplayMessage -> handleMsg / handleTimeout (nothing is written for it)
ReplayStep(fv) ==
  /\ up /\ pc.stage = "idle" /\ replay > 0
  /\ IF replay > Len(wal_synced) \/ IsTorn(wal_synced[replay])
     THEN /\ replay' = 0 /\ UNCHANGED <<rs, pc>>
          /\ act' = [name |-> "ReplayDone"]
     ELSE /\ replay' = replay + 1
          /\ AfterHandle(Handle(rs, wal_synced[replay], fv))
          /\ act' = [name |-> "ReplayStep", m |-> wal_synced[replay], fv |-> fv]
  /\ UNCHANGED <<pv_file, pv_tmp, wal_synced, wal_unsynced, wal_head, up, pv_mem, inq, released, ncrash>>

SCNext ==
  \/ \E m \in Inputs(rs), fv \in Values : Deliver(m, fv)
  \/ FlushWal \/ (\E ts \in 1..MaxTs : Check(ts)) \/ ComputeSig \/ WriteTmp \/ Rename \/ Release
  \/ OwnAppend \/ OwnSync \/ (\E fv \in Values : OwnHandle(fv))
  \/ (\E how \in {"ticker", "rotate"} : BackgroundSync(how))
  \/ Crash \/ Restart \/ (\E fv \in Values : ReplayStep(fv))

SCSpec == SCInit /\ [][SCNext]_scvars

\* ---------------------------------------------------------------- properties
\* C04
NoConflictingRelease == NoConflictIn(released)
PersistBeforeRelease == [][\A x \in released' \ released : Persisted(pv_file, x)]_scvars
HRSMonotone          == [][LssLeq(pv_file, pv_file')]_scvars

\* the mechanisms the property's anchors name; not part of the statement
\* (a) everything that led to the decision is durable when the signer is asked
FlushBeforeSign == pc.stage \in {"check", "sign", "computed", "tmp", "renamed", "release"} => wal_unsynced = << >>
\* (b) therefore replay recomputes the same VOTE and the signer never refuses the node's own
\*     vote as conflicting (a proposal can be refused: its block is made anew every time).
\*     Holds with ShortTornUndetected = FALSE and EndHeight0IntoEmptyHead = FALSE only: a log
\*     that loses synced records breaks it.
NoSelfLockout == [][(act'.name = "Check" /\ act'.err = "err_conflict") => act'.req.t = "proposal"]_scvars
\* (c) an own message is handled only after it is durable in the WAL
OwnDurableBeforeHandled == pc.stage = "ownhandle" => (wal_unsynced = << >> /\ \E i \in DOMAIN wal_synced : wal_synced[i] = Head(inq))
\* memory never behind the file
MemNotBehind == up => LssLeq(pv_file, pv_mem)
ReleasedSigOverMsg == \A x \in released : SigOverMessage(x)

SCView == <<pv_file, pv_tmp, wal_synced, wal_unsynced, wal_head, up, pv_mem, rs, inq, pc, replay, released, ncrash>>
=============================================================================
