------------------------------ MODULE TMLightRPC ------------------------------
(* The verifying RPC client of light/rpc/client.go: an rpcclient.Client whose answers
   come from an untrusted full node (`next`) and are relayed to the caller only after
   they have been tied to a header verified by the light client (`lc`).

   This is an operator-only module (no VARIABLES).  It contains
     (1) the symbolic hash model of the chain objects a response can carry
         (types/block.go Header.Hash, Commit.Hash, Data.Hash; types/tx.go; types/results.go;
          types/validator_set.go Hash; types/params.go HashConsensusParams;
          crypto/merkle/proof_value.go ValueOp, proof_op.go Verify),
     (2) a small chain model (ModelChain) built from a description the way
         state/execution.go builds it (results hash / app hash / validator updates land in
         the NEXT header, validator updates two heights later),
     (3) per response kind: Honest (what rpc/core answers), Fields/Falsify (every
         field-level lie), Relay (a transcription of each method of light/rpc/client.go in
         its order of checks), Consistent (what "consistent with a verified header" means),
         Uncommitted (fields no header commits to: S19, a stated limit),
     (4) the properties RelaySound / RelayComplete / ServedProofsVerify over cases,
     (5) the serving side of rpc/core/tx.go (Tx and TxSearch with prove: sort, paginate, one
         proof per result) for the statement's last sentence.
   It is used by spec/mc/C20_cases.tla (design-level exhaustive case analysis, cases are
   exported and executed on the real client) and by spec/trace/TMLightRPCTrace.tla (TLC
   judges what the REAL client did).

   Hashes are symbolic and injective by construction (strings built by constructors).
   Header hashes of blocks that ARE on the chain are abbreviated "HH<h>" (hash-consing,
   keeps terms short); every other header hashes to its full term.

   The spec models the code AS REPAIRED by /verif/proposed-fixes/C20-latest-when-up-to-date.diff
   (height = nil when the light client is already at the primary's latest height) and by
   /verif/proposed-fixes/C20-light-rpc-binding.diff
   (BlockResults preimage + height, Tx bound to its proof, complete BlockID and LastCommit
   binding in Block/BlockByHash/BlockchainInfo, key path for absence proofs); the behaviour of
   the unrepaired v0.34.24 code is kept as Weak_* switches (marked "(v0.34.24)").
   Two bindings cannot be repaired in light/rpc and are known findings: ConsistentStrict
   demands them, Consistent does not (Tx.TxResult vs LastResultsHash; Validator.Address vs
   PubKey).  The commit of a block obtained by BACKWARDS verification used to be stored
   unverified (repaired in light/client.go by 88ebf12; Weak_BackwardsCommitUnverified).  Deliberate deviations of the code are modelled as such and named where they
   occur: BlockchainInfo advances the light client only to the lowest returned height (honest
   multi-height answers are rejected by a light client that has not seen the higher heights --
   outside the statement's list, reported as an observation); a malformed commit block id
   served by the primary makes the light client PANIC (LCVerify "lc:panic").             *)
EXTENDS Integers, Sequences, FiniteSets, TLC

CONSTANTS
  Weak_NoTrustedHashCompare,   \* Block/BlockByHash/BlockchainInfo: header hash not compared with the light block's
  Weak_NoBlockIDCompare,       \* (v0.34.24, S7) Block*: BlockID.PartSetHeader never compared with the verified commit's
  Weak_NoLastCommitBinding,    \* (v0.34.24) Block*: LastCommit.Height/BlockID not tied to Height-1 / Header.LastBlockID
  Weak_TxNotBound,             \* (v0.34.24, S7) Tx: res.Tx / res.Hash / res.Index not tied to the proven Proof.Data / Proof.Index
  Weak_NoTxProofCheck,         \* Tx: proof not validated at all
  Weak_ResultsPreimage,        \* (v0.34.24, S6) BlockResults: hashes [bbe, results.Hash(), ebe] instead of results.Hash()
  Weak_ResultsHeightUnbound,   \* (v0.34.24) BlockResults: res.Height not compared with the requested height
  Weak_NoResultsHashCompare,   \* BlockResults: no comparison with LastResultsHash at all
  Weak_NoQueryProofCheck,      \* ABCIQuery: value proof not verified
  Weak_AbsenceRawKey,          \* (v0.34.24) ABCIQuery: absence proofs verified with string(resp.Key) instead of the key path
  Weak_NoParamsHashCompare,    \* ConsensusParams: no comparison with ConsensusHash
  Weak_ValsNotHashed,          \* light block: validator set not hashed against ValidatorsHash
  Weak_BackwardsTargetNotRechecked, \* light/client.go backwards(): after a lying primary was replaced in the middle of a backwards
                               \*   verification, the new primary's block for the TARGET height is not compared with the header the
                               \*   caller fetched first (and is about to store)
  Weak_LatestPanicsWhenUpToDate, \* (v0.34.24..88ebf12) light/rpc updateLightClientIfNeededTo(nil): light.Client.Update returns (nil, nil)
                               \*   when the primary has nothing newer than the latest trusted block; Commit(nil)/Validators(nil)
                               \*   dereference the nil light block and panic
  Weak_LatestUnverifiedWhenUpToDate, \* light.Client.Update hands out the primary's latest block UNVERIFIED when it is not newer
                               \*   than the latest trusted block
  Weak_BackwardsCommitUnverified, \* (before 88ebf12) light/client.go verifyLightBlock: a block verified BACKWARDS is stored without
                               \*   ValidateBasic / VerifyCommitLight of its commit against its own validator set
  CommitBlockIDValidated,      \* NOT a weakening -- which of two acceptable behaviours the tree has: FALSE (v0.34.24..88ebf12):
                               \*   SignedHeader.ValidateBasic does not validate Commit.BlockID and a malformed PartSetHeader hash
                               \*   PANICS the light client in VerifyCommitLight*; TRUE: it is validated (proposed-fixes/
                               \*   C20-commit-blockid-validate.diff) and such a block is refused like any malformed one
  Weak_EvidenceBoundByIdOnly,  \* types/evidence.go EvidenceList.Hash: leaves are evidence.Hash() instead of evidence.Bytes(); the hash of
                               \*   LightClientAttackEvidence covers only the conflicting header hash and the common height
  Weak_SearchProofFromCachedBlock  \* rpc/core TxSearch: the block is re-loaded only when the result's height is ABOVE the
                               \*   cached block's ("don't load the same block for every tx"): wrong for descending pages

Nil == "nil"
I2S(i) == ToString(i)
\* TLC keeps [i \in S |-> e] as an unevaluated closure that is RE-evaluated at every application;
\* concatenating with << >> turns it into an explicit tuple, once.
Force(s) == s \o << >>
MapSeq(s, Op(_)) == Force([i \in 1..Len(s) |-> Op(s[i])])
RECURSIVE Join(_, _)
Join(s, sep) == IF Len(s) = 0 THEN "" ELSE IF Len(s) = 1 THEN s[1] ELSE s[1] \o sep \o Join(Tail(s), sep)
RECURSIVE SumSeq(_)
SumSeq(s) == IF Len(s) = 0 THEN 0 ELSE s[1] + SumSeq(Tail(s))
Last(s) == s[Len(s)]

\* ------------------------------------------------------------------ (0) RFC-6962 Merkle tree (crypto/merkle tree.go, proof.go)
\* Same constructors as spec/TMMerkle.tla (C10, where the tree itself is the subject); kept local so that
\* this module depends only on the shape of ITS proof records [total, index, leaf, aunts].
MkLeafH(x)     == "L(" \o x \o ")"
MkInnerH(l, r) == "I(" \o l \o "," \o r \o ")"
RECURSIVE MkPow2Below(_, _)
MkPow2Below(n, k) == IF 2 * k < n THEN MkPow2Below(n, 2 * k) ELSE k
MkSplit(n) == MkPow2Below(n, 1)                     \* getSplitPoint: largest power of two strictly below n
RECURSIVE MkRoot(_)
MkRoot(leaves) ==
  IF Len(leaves) = 0 THEN "E()"
  ELSE IF Len(leaves) = 1 THEN MkLeafH(leaves[1])
  ELSE LET k == MkSplit(Len(leaves)) IN MkInnerH(MkRoot(SubSeq(leaves, 1, k)), MkRoot(SubSeq(leaves, k + 1, Len(leaves))))
RECURSIVE MkAunts(_, _)
MkAunts(leaves, i) ==                               \* aunts of leaf i (0-based), sibling first
  IF Len(leaves) <= 1 THEN << >>
  ELSE LET n == Len(leaves)
           k == MkSplit(n)
           l == SubSeq(leaves, 1, k)
           r == SubSeq(leaves, k + 1, n)
       IN IF i < k THEN Append(MkAunts(l, i), MkRoot(r)) ELSE Append(MkAunts(r, i - k), MkRoot(l))
MkProof(leaves, i) == [total |-> Len(leaves), index |-> i, leaf |-> MkLeafH(leaves[i + 1]), aunts |-> MkAunts(leaves, i)]
RECURSIVE MkComputeRoot(_, _, _, _)
MkComputeRoot(index, total, leaf, aunts) ==         \* computeHashFromAunts; Nil on any structural mismatch
  IF index >= total \/ index < 0 \/ total <= 0 THEN Nil
  ELSE IF total = 1 THEN (IF Len(aunts) # 0 THEN Nil ELSE leaf)
  ELSE IF Len(aunts) = 0 THEN Nil
  ELSE LET k    == MkSplit(total)
           last == aunts[Len(aunts)]
           rest == SubSeq(aunts, 1, Len(aunts) - 1)
       IN IF index < k
          THEN LET h == MkComputeRoot(index, k, leaf, rest) IN IF h = Nil THEN Nil ELSE MkInnerH(h, last)
          ELSE LET h == MkComputeRoot(index - k, total - k, leaf, rest) IN IF h = Nil THEN Nil ELSE MkInnerH(last, h)
MkVerify(p, root, item) ==                          \* Proof.Verify(root, item) = nil
  /\ p.total >= 0 /\ p.index >= 0 /\ p.leaf = MkLeafH(item)
  /\ MkComputeRoot(p.index, p.total, p.leaf, p.aunts) = root

\* ------------------------------------------------------------------ (1) hash model
\* A hash value is well formed when it is 32 bytes; "" (empty) is allowed by
\* types.ValidateHash, "BAD" stands for any other length.
WFHash(x)   == x # "BAD"
WFHash32(x) == x # "BAD" /\ x # ""

TxHash(tx)      == "T(" \o tx \o ")"                         \* types/tx.go Tx.Hash
TxHashes(txs)   == MapSeq(txs, TxHash)
DataHashOf(txs) == MkRoot(TxHashes(txs))                      \* Txs.Hash: leaves are the tx hashes
\* types/results.go deterministicResponseDeliverTx: only Code, Data, GasWanted, GasUsed
ResTerm(r)      == "R(" \o I2S(r.code) \o "," \o r.data \o "," \o I2S(r.gw) \o "," \o I2S(r.gu) \o ")"
ResultsHash(rs) == MkRoot(MapSeq(rs, ResTerm))
\* types/validator.go Bytes(): pubkey and voting power only
ValTerm(v)      == "VAL(" \o v.pk \o "," \o I2S(v.power) \o ")"
ValsHash(vs)    == MkRoot(MapSeq(vs, ValTerm))
\* types/params.go HashConsensusParams: Block.MaxBytes and Block.MaxGas only (S19)
ParamsHash(p)   == "P(" \o I2S(p.max_bytes) \o "," \o I2S(p.max_gas) \o ")"
\* types/block.go Commit.Hash: the CommitSigs only -- not height, round or block id
SigTerm(s)      == "S(" \o I2S(s.flag) \o "," \o s.addr \o "," \o I2S(s.ts) \o "," \o s.sig \o ")"
CommitHash(sigs) == MkRoot(MapSeq(sigs, SigTerm))
\* Evidence (types/evidence.go).  One record shape for both kinds:
\*   ty "dup" DuplicateVoteEvidence : id = the two votes, tvp / vpow / ts the ABCI fields
\*   ty "lca" LightClientAttackEvidence : id = hash of the conflicting header (height ch), common = common
\*      height, byz = byzantine validators, tvp, ts, csigs = signatures of the conflicting commit
\* Header.EvidenceHash is the Merkle root over evidence.Bytes(): the FULL encoding.  evidence.Hash() is
\* the identity used by the evidence pool: for "lca" it covers (id, common) only.
EvTerm(e)   == "EV(" \o Join(<<e.ty, e.id, I2S(e.common), I2S(e.ch), Join(e.byz, ","), I2S(e.tvp), I2S(e.vpow),
                              I2S(e.ts), Join(e.csigs, ",")>>, ";") \o ")"
EvIdTerm(e) == IF e.ty = "lca" THEN "LCAH(" \o e.id \o "," \o I2S(e.common) \o ")" ELSE "EVH(" \o EvTerm(e) \o ")"
EvLeaf(e)   == IF Weak_EvidenceBoundByIdOnly THEN EvIdTerm(e) ELSE EvTerm(e)
EvHash(evs) == MkRoot(MapSeq(evs, EvLeaf))
\* Evidence.ValidateBasic as far as the modelled fields go
EvBasic(e)  == e.ty = "lca" => (e.tvp > 0 /\ e.common > 0 /\ e.common <= e.ch)
\* the piece of evidence a liar adds (a well-formed DuplicateVoteEvidence of his own)
JunkEv == [ty |-> "dup", id |-> "zz", common |-> 0, ch |-> 0, byz |-> << >>, tvp |-> 10, vpow |-> 10, ts |-> 1000, csigs |-> << >>]
BidTerm(b)      == b.hash \o "/" \o I2S(b.pst) \o "/" \o b.psh
ZeroBid         == [hash |-> "", pst |-> 0, psh |-> ""]
HeaderTerm(H)   == "H(" \o Join(<<I2S(H.vb), I2S(H.va), H.chain, I2S(H.height), I2S(H.time), BidTerm(H.last),
                                 H.lch, H.dh, H.vh, H.nvh, H.ch, H.ah, H.lrh, H.eh, H.prop>>, ";") \o ")"
\* types/block.go Header.Hash: nil when ValidatorsHash is empty
HeaderHash(C, H) ==
  IF H.vh = "" THEN ""
  ELSE IF \E h \in 1..C.tip : C.blocks[h].header = H
       THEN "HH" \o I2S(CHOOSE h \in 1..C.tip : C.blocks[h].header = H)
       ELSE HeaderTerm(H)

\* the application's state commitment: a two-level "simple map" (multi-store -> store ->
\* key) whose leaves are what merkle.ValueOp.Run hashes: KVPair(key, sha256(value))
KVTerm(k, v)    == "K(" \o k \o ",V(" \o v \o "))"
KVLeaves(kvs)   == Force([i \in 1..Len(kvs) |-> KVTerm(kvs[i].k, kvs[i].v)])
StoreRoot(kvs)  == MkRoot(KVLeaves(kvs))
AppLeaves(sts)  == Force([i \in 1..Len(sts) |-> KVTerm(sts[i].store, StoreRoot(sts[i].kvs))])
AppHashOf(sts)  == MkRoot(AppLeaves(sts))

\* crypto/merkle/proof.go ProofFromProto / Proof.ValidateBasic
WFProof(p) == p.total >= 0 /\ p.index >= 0 /\ WFHash32(p.leaf) /\ \A i \in 1..Len(p.aunts) : WFHash32(p.aunts[i])

\* types/tx.go TxProof.Validate(dataHash)
TxProofValidate(tp, dataHash) ==
  /\ tp.root = dataHash
  /\ tp.proof.index >= 0
  /\ tp.proof.total > 0
  /\ MkVerify(tp.proof, tp.root, TxHash(tp.data))

\* crypto/merkle/proof_op.go ProofOperators.Verify with ValueOp (proof_value.go) and the
\* harness' absence operator "c20:absent" (stands for any registered absence op, e.g. IAVL's):
\*   it carries the proof of the neighbouring leaf and yields the store root when given no value.
OpKnown(op) == op.type \in {"simple:v", "c20:absent"}
RECURSIVE RunOps(_, _, _)
RunOps(ops, keys, val) ==      \* val = Nil means "no argument" (absence)
  IF Len(ops) = 0 THEN [ok |-> TRUE, val |-> val, keys |-> keys]
  ELSE LET op    == Head(ops)
           keyok == op.key = "" \/ (Len(keys) > 0 /\ Last(keys) = op.key)
           keys2 == IF op.key = "" THEN keys ELSE SubSeq(keys, 1, Len(keys) - 1)
           fail  == [ok |-> FALSE, val |-> Nil, keys |-> keys]
           out   == MkComputeRoot(op.proof.index, op.proof.total, op.proof.leaf, op.proof.aunts)
       IN IF ~keyok THEN fail
          ELSE IF op.type = "simple:v"
               THEN IF val = Nil \/ op.proof.leaf # MkLeafH(KVTerm(op.key, val)) THEN fail
                    ELSE RunOps(Tail(ops), keys2, out)
          ELSE \* c20:absent: no argument allowed; the witness leaf must not be a leaf of op.key
               IF val # Nil \/ op.wit = op.key \/ op.proof.leaf # MkLeafH(KVTerm(op.wit, op.witv)) THEN fail
               ELSE RunOps(Tail(ops), keys2, out)
VerifyOps(ops, root, keys, val) ==
  /\ \A i \in 1..Len(ops) : OpKnown(ops[i]) /\ WFProof(ops[i].proof)        \* DecodeProof
  /\ LET r == RunOps(ops, keys, val) IN r.ok /\ r.val = root /\ Len(r.keys) = 0

\* ------------------------------------------------------------------ (2) chain model
\* Description D: [id, vals0, params0, kv0, txinfo, blocks]; blocks[h] = [txs, bbe, ebe, valupd, parupd]
\* txinfo: sequence of [name, code, data, gw, gu, log, info, events, cs, set] with set = <<>> or <<store,key,value>>
TxInfoOf(D, tx) == LET i == CHOOSE i \in 1..Len(D.txinfo) : D.txinfo[i].name = tx IN D.txinfo[i]
ResultOf(D, tx) == LET t == TxInfoOf(D, tx) IN
  [code |-> t.code, data |-> t.data, log |-> t.log, info |-> t.info, gw |-> t.gw, gu |-> t.gu, events |-> t.events, cs |-> t.cs]

\* address = first 20 bytes of sha256(pubkey): derivable, hence checkable.  "pk<i>" <-> "v<i>"
AddrOfPk(pk) == CASE pk = "pk1" -> "v1" [] pk = "pk2" -> "v2" [] pk = "pk3" -> "v3" [] pk = "pk4" -> "v4"
                  [] pk = "pk5" -> "v5" [] pk = "pk6" -> "v6" [] OTHER -> "v?"
ValRank(a) == CASE a = "v1" -> 1 [] a = "v2" -> 2 [] a = "v3" -> 3 [] a = "v4" -> 4 [] a = "v5" -> 5 [] a = "v6" -> 6 [] OTHER -> 9
\* types/validator_set.go: sorted by voting power (descending) then address (ascending)
ValLess(a, b) == a.power > b.power \/ (a.power = b.power /\ ValRank(a.addr) < ValRank(b.addr))
ApplyValUpd(vals, upd) ==
  LET changed(pk) == \E i \in 1..Len(upd) : upd[i].pk = pk
      kept  == SelectSeq(vals, LAMBDA v : ~changed(v.pk))
      fresh == Force([i \in 1..Len(upd) |-> [addr |-> AddrOfPk(upd[i].pk), pk |-> upd[i].pk, power |-> upd[i].power, prio |-> 0]])
      all   == kept \o SelectSeq(fresh, LAMBDA v : v.power > 0)
  IN SortSeq(all, ValLess)
ApplyParUpd(p, upd) == IF Len(upd) = 0 THEN p ELSE [p EXCEPT !.max_bytes = upd[1].max_bytes, !.max_gas = upd[1].max_gas]
SetKV(sts, w) == IF Len(w) = 0 THEN sts ELSE
  Force([i \in 1..Len(sts) |-> IF sts[i].store # w[1] THEN sts[i] ELSE
     [sts[i] EXCEPT !.kvs = Force([j \in 1..Len(sts[i].kvs) |-> IF sts[i].kvs[j].k = w[2] THEN [k |-> w[2], v |-> w[3]] ELSE sts[i].kvs[j]])]])
RECURSIVE ApplyTxs(_, _, _)
ApplyTxs(D, sts, txs) == IF Len(txs) = 0 THEN sts ELSE
  LET t == TxInfoOf(D, txs[1]) IN ApplyTxs(D, IF t.code = 0 THEN SetKV(sts, t.set) ELSE sts, Tail(txs))

\* Vals[1..m], Pars[1..m], KV after block 0..m-1 -- built as explicit sequences (see Force)
RECURSIVE ValsUpTo(_, _)
ValsUpTo(D, m) == IF m = 0 THEN << >> ELSE
  LET p == ValsUpTo(D, m - 1) IN Append(p, IF m <= 2 THEN D.vals0 ELSE ApplyValUpd(p[m - 1], D.blocks[m - 2].valupd))
RECURSIVE ParsUpTo(_, _)
ParsUpTo(D, m) == IF m = 0 THEN << >> ELSE
  LET p == ParsUpTo(D, m - 1) IN Append(p, IF m = 1 THEN D.params0 ELSE ApplyParUpd(p[m - 1], D.blocks[m - 1].parupd))
RECURSIVE KVUpTo(_, _)     \* element h+1 = application state after block h
KVUpTo(D, m) == IF m = 0 THEN <<D.kv0>> ELSE
  LET p == KVUpTo(D, m - 1) IN Append(p, ApplyTxs(D, p[m], D.blocks[m].txs))

ModelChain(D) ==
  LET n == Len(D.blocks)
      Vals == ValsUpTo(D, n + 2)
      Pars == ParsUpTo(D, n + 1)
      KVs  == KVUpTo(D, n)
      KV(h)    == KVs[h + 1]
      Res(h)   == Force([i \in 1..Len(D.blocks[h].txs) |-> ResultOf(D, D.blocks[h].txs[i])])
      Sigs(h)  == Force([i \in 1..Len(Vals[h]) |-> [flag |-> 2, addr |-> Vals[h][i].addr, ts |-> 1000 + h,
                                                    sig |-> "sg" \o I2S(h) \o Vals[h][i].addr]])
      Bid(h)   == [hash |-> "HH" \o I2S(h), pst |-> 1, psh |-> "ps" \o I2S(h)]
      Cmt(h)   == IF h = 0 THEN [height |-> 0, round |-> 0, bid |-> ZeroBid, sigs |-> << >>]
                  ELSE [height |-> h, round |-> 0, bid |-> Bid(h), sigs |-> Sigs(h)]
      Hdr(h)   == [vb |-> 11, va |-> 0, chain |-> D.id, height |-> h, time |-> 1000 + h - 1,
                   last |-> IF h = 1 THEN ZeroBid ELSE Bid(h - 1),
                   lch |-> CommitHash(Cmt(h - 1).sigs), dh |-> DataHashOf(D.blocks[h].txs),
                   vh |-> ValsHash(Vals[h]), nvh |-> ValsHash(Vals[h + 1]), ch |-> ParamsHash(Pars[h]),
                   ah |-> AppHashOf(KV(h - 1)), lrh |-> IF h = 1 THEN "" ELSE ResultsHash(Res(h - 1)),
                   eh |-> EvHash(D.blocks[h].ev), prop |-> Vals[h][1].addr]
  IN [id |-> D.id, tip |-> n,
      blocks |-> Force([h \in 1..n |-> [header |-> Hdr(h), bid |-> Bid(h), txs |-> D.blocks[h].txs, evidence |-> D.blocks[h].ev,
                                  last_commit |-> Cmt(h - 1), commit |-> Cmt(h), vals |-> Vals[h],
                                  params |-> Pars[h], results |-> Res(h), bbe |-> D.blocks[h].bbe,
                                  ebe |-> D.blocks[h].ebe, valupd |-> D.blocks[h].valupd,
                                  parupd |-> D.blocks[h].parupd, kv |-> KV(h), size |-> 0]])]

\* internal coherence of a chain value (used on the OBSERVED chain: validates this hash
\* model and the harness' naming against the real code's hashes)
ChainCoherent(C) == \A h \in 1..C.tip : LET b == C.blocks[h] IN
  /\ b.header.height = h
  /\ b.header.dh = DataHashOf(b.txs)
  /\ b.header.lch = CommitHash(b.last_commit.sigs)
  /\ b.header.eh = EvHash(b.evidence)
  /\ b.header.vh = ValsHash(b.vals)
  /\ b.header.ch = ParamsHash(b.params)
  /\ b.bid.hash = "HH" \o I2S(h)
  /\ b.commit.bid = b.bid /\ b.commit.height = h
  /\ h > 1 => /\ b.header.last = C.blocks[h - 1].bid
              /\ b.header.lrh = ResultsHash(C.blocks[h - 1].results)
              /\ b.header.ah = AppHashOf(C.blocks[h - 1].kv)
              /\ b.header.vh = C.blocks[h - 1].header.nvh
              /\ b.last_commit.bid = C.blocks[h - 1].bid
              /\ b.last_commit.sigs = C.blocks[h - 1].commit.sigs

\* ------------------------------------------------------------------ (3a) honest answers (rpc/core)
Kinds == {"Block", "BlockByHash", "Tx", "ABCIQuery", "BlockResults", "ConsensusParams", "BlockchainInfo",
          "Commit", "Validators"}
\* kinds named by the property statement; the other two are modelled and reported separately
StatementKinds == {"Block", "BlockByHash", "Tx", "ABCIQuery", "BlockResults", "Commit", "Validators"}
\* kinds answered from the light client's own primary (no call to `next` in v0.34): the lie is
\* in the light block the primary serves
ProviderKinds == {"Commit", "Validators"}

\* uniform argument record: h (height), i (0-based tx index), store, key, lo, hi, page, per, lc, ord
\*   lc = "fresh": the light client holds only the trusted height 1;  "warm": it holds every height
\*        "top": it holds only the trusted height tip -- lower heights are verified BACKWARDS
\*   ord = order_by of a TxSearch ("" elsewhere)
\*   pp  = persona of the light client's primary AFTER its first answer for height h: "" honest,
\*         "break": it serves an interim header that does not chain to the trusted one (backwards
\*         verification fails, the primary is replaced by an honest witness)
Arg(h, i, store, key, lo, hi, page, per, lc) ==
  [h |-> h, i |-> i, store |-> store, key |-> key, lo |-> lo, hi |-> hi, page |-> page, per |-> per, lc |-> lc, ord |-> "", pp |-> ""]

HonestBlock(C, h) == LET b == C.blocks[h] IN
  [block_id |-> b.bid, block |-> [header |-> b.header, txs |-> b.txs, evidence |-> b.evidence, last_commit |-> b.last_commit]]
HonestTx(C, h, i) == LET b == C.blocks[h] IN       \* rpc/core/tx.go Tx(hash, prove = true)
  [hash |-> TxHash(b.txs[i + 1]), height |-> h, index |-> i, result |-> b.results[i + 1], tx |-> b.txs[i + 1],
   proof |-> [root |-> DataHashOf(b.txs), data |-> b.txs[i + 1], proof |-> MkProof(TxHashes(b.txs), i)]]
StoreIdx(sts, s) == CHOOSE i \in 1..Len(sts) : sts[i].store = s
HasKey(kvs, k)   == \E j \in 1..Len(kvs) : kvs[j].k = k
KeyIdx(kvs, k)   == CHOOSE j \in 1..Len(kvs) : kvs[j].k = k
VOp(key, proof)  == [type |-> "simple:v", key |-> key, dkey |-> key, proof |-> proof, wit |-> "", witv |-> ""]
HonestQuery(C, h, s, k) ==                          \* the application's Query at version h, with proof
  LET sts == C.blocks[h].kv
      si  == StoreIdx(sts, s)
      kvs == sts[si].kvs
      sop == VOp(s, MkProof(AppLeaves(sts), si - 1))
      base == [code |-> 0, log |-> "", info |-> "", index |-> 0, key |-> k, height |-> h, cs |-> ""]
  IN IF HasKey(kvs, k)
     THEN LET j == KeyIdx(kvs, k) IN
          base @@ [value |-> kvs[j].v, ops |-> <<VOp(k, MkProof(KVLeaves(kvs), j - 1)), sop>>]
     ELSE \* absence: witnessed by the proof of the first leaf of the store (harness convention)
          base @@ [value |-> Nil,
                   ops |-> <<[type |-> "c20:absent", key |-> k, dkey |-> k, proof |-> MkProof(KVLeaves(kvs), 0),
                              wit |-> kvs[1].k, witv |-> kvs[1].v], sop>>]
HonestResults(C, h) == LET b == C.blocks[h] IN
  [height |-> h, results |-> b.results, bbe |-> b.bbe, ebe |-> b.ebe, valupd |-> b.valupd, parupd |-> b.parupd]
HonestParams(C, h) == [height |-> h, params |-> C.blocks[h].params]
HonestMeta(C, h) == LET b == C.blocks[h] IN [block_id |-> b.bid, header |-> b.header, num_txs |-> Len(b.txs), size |-> b.size]
HonestInfo(C, lo, hi) == [last_height |-> C.tip, metas |-> Force([i \in 1..(hi - lo + 1) |-> HonestMeta(C, hi - i + 1)])]
\* what the light client's primary serves for height h (light/provider)
HonestLightBlock(C, h) == LET b == C.blocks[h] IN [header |-> b.header, commit |-> b.commit, vals |-> b.vals]

\* a.h = 0 stands for height = nil, "the latest": the tip for Block / Commit / Validators, tip - 1 for
\* BlockResults (light/rpc Client.BlockResults asks Status and takes LatestBlockHeight - 1)
ReqH(C, k, a) == IF a.h # 0 THEN a.h ELSE IF k = "BlockResults" THEN C.tip - 1 ELSE C.tip
Honest(C, k, a0) ==
  LET a == [a0 EXCEPT !.h = IF k \in {"Block", "BlockResults", "Commit", "Validators"} THEN ReqH(C, k, a0) ELSE a0.h] IN
  CASE k = "Block"           -> HonestBlock(C, a.h)
    [] k = "BlockByHash"     -> HonestBlock(C, a.h)
    [] k = "Tx"              -> HonestTx(C, a.h, a.i)
    [] k = "ABCIQuery"       -> HonestQuery(C, a.h, a.store, a.key)
    [] k = "BlockResults"    -> HonestResults(C, a.h)
    [] k = "ConsensusParams" -> HonestParams(C, a.h)
    [] k = "BlockchainInfo"  -> HonestInfo(C, a.lo, a.hi)
    [] k = "Commit"          -> HonestLightBlock(C, a.h)
    [] k = "Validators"      -> HonestLightBlock(C, a.h)

PerPage(per) == IF per < 1 THEN 30 ELSE IF per > 100 THEN 100 ELSE per
Min(x, y) == IF x < y THEN x ELSE y
PageOK(a, total) == LET pages == IF total = 0 THEN 1 ELSE ((total - 1) \div PerPage(a.per)) + 1 IN a.page = 0 \/ a.page \in 1..pages
\* a request an honest node can answer AND whose proving header exists on the (static) chain
ValidArg(C, k, a) ==
  CASE k \in {"Block", "Commit"} -> a.h \in 0..C.tip
    [] k \in {"BlockByHash", "ConsensusParams"} -> a.h \in 1..C.tip
    [] k = "Tx"             -> a.h \in 1..C.tip /\ a.i >= 0 /\ a.i < Len(C.blocks[a.h].txs)
    [] k = "BlockResults"   -> a.h \in 0..(C.tip - 1)
    [] k = "ABCIQuery"      -> a.h \in 1..(C.tip - 1) /\ \E i \in 1..Len(C.blocks[a.h].kv) : C.blocks[a.h].kv[i].store = a.store
    [] k = "BlockchainInfo" -> a.lo >= 1 /\ a.lo <= a.hi /\ a.hi <= C.tip /\ a.hi - a.lo <= 2
    [] k = "Validators"     -> a.h \in 0..C.tip /\ PageOK(a, Len(C.blocks[ReqH(C, k, a)].vals))
\* honest requests whose proving header exists on the (static) chain
HonestArgs(C, k) ==
  LET H == 1..C.tip
      lcs == {"fresh", "warm", "top"}
  IN CASE k \in {"Block", "Commit"} -> {Arg(h, 0, "", "", 0, 0, 0, 0, lc) : h \in H \cup {0}, lc \in lcs}
       [] k \in {"BlockByHash", "ConsensusParams"} -> {Arg(h, 0, "", "", 0, 0, 0, 0, lc) : h \in H, lc \in lcs}
       [] k = "Tx" -> UNION {{Arg(h, i - 1, "", "", 0, 0, 0, 0, lc) : i \in 1..Len(C.blocks[h].txs), lc \in lcs} : h \in H}
       [] k = "BlockResults" -> {Arg(h, 0, "", "", 0, 0, 0, 0, lc) : h \in 0..(C.tip - 1), lc \in lcs}
       [] k = "ABCIQuery" -> UNION {UNION {{Arg(h, 0, st.store, key, 0, 0, 0, 0, lc) :
                                             key \in {st.kvs[j].k : j \in 1..Len(st.kvs)} \cup {"k9"}, lc \in lcs} :
                                           st \in {C.blocks[h].kv[i] : i \in 1..Len(C.blocks[h].kv)}} : h \in 1..(C.tip - 1)}
       [] k = "BlockchainInfo" -> {Arg(0, 0, "", "", p[1], p[2], 0, 0, lc) : p \in {q \in H \X H : q[1] <= q[2] /\ q[2] - q[1] <= 2}, lc \in lcs}
       [] k = "Validators" -> {x \in {Arg(h, 0, "", "", 0, 0, pg[1], pg[2], lc) : h \in H, lc \in lcs, pg \in {<<0, 0>>, <<1, 2>>, <<2, 3>>, <<2, 2>>}} :
                                 PageOK(x, Len(C.blocks[x.h].vals))}
                              \cup {Arg(0, 0, "", "", 0, 0, 0, 0, lc) : lc \in lcs}


\* ------------------------------------------------------------------ (3b) falsification
\* A lie is a sequence of edits [path, how, oh]; path is a sequence of strings (sequence
\* positions as "1".."9"), `how` names the replacement, `oh` the height whose honest answer
\* supplies the value for how = "other".  coh = TRUE: the liar also recomputes the hashes
\* that depend on the edited field (a lie that is internally consistent).
IdxOf == ("1" :> 1) @@ ("2" :> 2) @@ ("3" :> 3) @@ ("4" :> 4) @@ ("5" :> 5) @@ ("6" :> 6) @@ ("7" :> 7) @@ ("8" :> 8) @@ ("9" :> 9)
RECURSIVE GetPath(_, _)
GetPath(r, p) == IF Len(p) = 0 THEN r
                 ELSE LET k == Head(p) IN GetPath(IF k \in DOMAIN IdxOf THEN r[IdxOf[k]] ELSE r[k], Tail(p))
RECURSIVE SetPath(_, _, _)
SetPath(r, p, v) == IF Len(p) = 0 THEN v
                    ELSE LET k == Head(p) IN
                         IF k \in DOMAIN IdxOf THEN [r EXCEPT ![IdxOf[k]] = SetPath(r[IdxOf[k]], Tail(p), v)]
                         ELSE [r EXCEPT ![k] = SetPath(r[k], Tail(p), v)]
RECURSIVE HasPath(_, _)
HasPath(r, p) == IF Len(p) = 0 THEN TRUE
                 ELSE LET k == Head(p) IN
                      IF k \in DOMAIN IdxOf THEN IdxOf[k] \in DOMAIN r /\ HasPath(r[IdxOf[k]], Tail(p))
                      ELSE k \in DOMAIN r /\ HasPath(r[k], Tail(p))

\* the attacker's own validator set (how = "forge" on the validator set of a light block).  With
\* coh = TRUE the liar also recomputes ValidatorsHash and the commit's block hash and SIGNS the
\* commit with his own key: a self-made, perfectly well-formed light block.
ForgedVals == <<[addr |-> "vz", pk |-> "pkz", power |-> 10, prio |-> 0]>>
ForgedSigTerm(c, ts) == "SGZ(" \o BidTerm(c.bid) \o "," \o I2S(c.round) \o "," \o I2S(c.height) \o "," \o I2S(ts) \o ")"

NewVal(how, old, oth) ==
  CASE how = "hjunk"  -> "X1"
    [] how = "hbad"   -> "BAD"
    [] how = "hempty" -> ""
    [] how = "sjunk"  -> "zz"
    [] how = "other"  -> oth
    [] how = "inc"    -> old + 1
    [] how = "dec"    -> old - 1
    [] how = "zero"   -> 0
    [] how = "neg"    -> -1
    [] how = "flip"   -> ~old
    [] how = "drop"   -> SubSeq(old, 1, Len(old) - 1)
    [] how = "dup"    -> Append(old, Last(old))
    [] how = "addh"   -> Append(old, "X1")
    [] how = "adds"   -> Append(old, "zz")
    [] how = "swap"   -> Force([i \in 1..Len(old) |-> IF i = 1 THEN old[2] ELSE IF i = 2 THEN old[1] ELSE old[i]])
    [] how = "clear"  -> << >>
    [] how = "forge"  -> ForgedVals
    [] how = "adde"   -> Append(old, JunkEv)

\* replacements tried for a field of a given type
Hows(ty, old) ==
  CASE ty = "hash" -> {"hjunk", "hbad", "hempty", "other"}
    [] ty = "int"  -> {"inc", "zero", "neg", "other"}
    [] ty = "uint" -> {"inc", "zero", "other"}
    [] ty = "id"   -> {"sjunk", "other"}
    [] ty = "bool" -> {"flip"}
    [] ty = "hseq" -> (IF Len(old) > 0 THEN {"drop"} ELSE {}) \cup {"addh"} \cup (IF Len(old) > 1 THEN {"swap"} ELSE {})
    [] ty = "sseq" -> (IF Len(old) > 0 THEN {"drop"} ELSE {}) \cup {"adds"} \cup (IF Len(old) > 1 THEN {"swap"} ELSE {})
    [] ty = "rseq" -> (IF Len(old) > 0 THEN {"drop", "dup"} ELSE {}) \cup (IF Len(old) > 1 THEN {"swap"} ELSE {})
    [] ty = "intx" -> {"inc", "zero", "neg"}                            \* no transplant (the other answer may hold another kind of evidence)
    [] ty = "idj"  -> {"sjunk"}                                         \* an identity that cannot be transplanted
    [] ty = "eseq" -> (IF Len(old) > 0 THEN {"drop"} ELSE {}) \cup {"adde"} \cup (IF Len(old) > 1 THEN {"swap"} ELSE {})
    [] ty = "vseq" -> {"drop", "dup", "swap", "forge"}                 \* the validator set of a light block
    [] ty = "opt"  -> IF Len(old) > 0 THEN {"drop"} ELSE {}          \* a nullable record

P(path, ty) == [path |-> path, ty |-> ty]
Pre(pfx, set) == {[path |-> pfx \o x.path, ty |-> x.ty] : x \in set}
Ix(n) == {I2S(i) : i \in 1..n}

BidFields == {P(<<"hash">>, "hash"), P(<<"pst">>, "uint"), P(<<"psh">>, "hash")}
HeaderFields ==
  {P(<<"vb">>, "uint"), P(<<"va">>, "uint"), P(<<"chain">>, "id"), P(<<"height">>, "int"), P(<<"time">>, "int"),
   P(<<"lch">>, "hash"), P(<<"dh">>, "hash"), P(<<"vh">>, "hash"), P(<<"nvh">>, "hash"), P(<<"ch">>, "hash"),
   P(<<"ah">>, "hash"), P(<<"lrh">>, "hash"), P(<<"eh">>, "hash"), P(<<"prop">>, "id")}
  \cup Pre(<<"last">>, BidFields)
SigFields == {P(<<"flag">>, "uint"), P(<<"addr">>, "id"), P(<<"ts">>, "int"), P(<<"sig">>, "id")}
CommitFields(c) ==
  {P(<<"height">>, "int"), P(<<"round">>, "int"), P(<<"sigs">>, "rseq")} \cup Pre(<<"bid">>, BidFields)
  \cup UNION {Pre(<<"sigs", i>>, SigFields) : i \in Ix(Len(c.sigs))}
ResultFields == {P(<<"code">>, "uint"), P(<<"data">>, "id"), P(<<"log">>, "id"), P(<<"info">>, "id"), P(<<"gw">>, "int"),
                 P(<<"gu">>, "int"), P(<<"events">>, "sseq"), P(<<"cs">>, "id")}
MProofFields == {P(<<"total">>, "int"), P(<<"index">>, "int"), P(<<"leaf">>, "hash"), P(<<"aunts">>, "hseq")}
ValFields == {P(<<"addr">>, "id"), P(<<"pk">>, "id"), P(<<"power">>, "int"), P(<<"prio">>, "int")}
ParamFields == {P(<<f>>, "int") : f \in {"max_bytes", "max_gas", "iota", "ev_age_blocks", "ev_age_dur", "ev_max_bytes"}}
               \cup {P(<<"app_version">>, "uint"), P(<<"pk_types">>, "sseq")}
EvFields(e) == {P(<<"id">>, "idj"), P(<<"tvp">>, "intx"), P(<<"ts">>, "intx")}
               \cup (IF e.ty = "lca" THEN {P(<<"common">>, "intx"), P(<<"byz">>, "sseq"), P(<<"csigs">>, "sseq")}
                                    ELSE {P(<<"vpow">>, "intx")})
OpFields == {P(<<"type">>, "id"), P(<<"key">>, "id"), P(<<"dkey">>, "id")} \cup Pre(<<"proof">>, MProofFields)

\* EVERY field of the response of kind k (r is the honest response: it fixes the sequence lengths)
Fields(k, r) ==
  CASE k \in {"Block", "BlockByHash"} ->
         Pre(<<"block_id">>, BidFields) \cup Pre(<<"block", "header">>, HeaderFields)
         \cup {P(<<"block", "txs">>, "sseq"), P(<<"block", "evidence">>, "eseq")}
         \* every field of every piece of evidence: "same header, other body"
         \cup UNION {Pre(<<"block", "evidence", i>>, EvFields(r.block.evidence[IdxOf[i]])) : i \in Ix(Len(r.block.evidence))}
         \cup {P(<<"block", "txs", i>>, "id") : i \in Ix(Len(r.block.txs))}
         \cup Pre(<<"block", "last_commit">>, CommitFields(r.block.last_commit))
    [] k = "Tx" ->
         {P(<<"hash">>, "hash"), P(<<"height">>, "int"), P(<<"index">>, "uint"), P(<<"tx">>, "id"),
          P(<<"proof", "root">>, "hash"), P(<<"proof", "data">>, "id")}
         \cup Pre(<<"result">>, ResultFields) \cup Pre(<<"proof", "proof">>, MProofFields)
    [] k = "ABCIQuery" ->
         {P(<<"code">>, "uint"), P(<<"log">>, "id"), P(<<"info">>, "id"), P(<<"index">>, "int"), P(<<"key">>, "id"),
          P(<<"value">>, "id"), P(<<"height">>, "int"), P(<<"cs">>, "id"), P(<<"ops">>, "rseq")}
         \cup UNION {Pre(<<"ops", i>>, OpFields) : i \in Ix(Len(r.ops))}
    [] k = "BlockResults" ->
         {P(<<"height">>, "int"), P(<<"results">>, "rseq"), P(<<"bbe">>, "sseq"), P(<<"ebe">>, "sseq"),
          P(<<"valupd">>, "rseq"), P(<<"parupd">>, "opt")}
         \cup UNION {Pre(<<"results", i>>, ResultFields) : i \in Ix(Len(r.results))}
         \cup UNION {{P(<<"valupd", i, "power">>, "int"), P(<<"valupd", i, "pk">>, "id")} : i \in Ix(Len(r.valupd))}
         \cup UNION {{P(<<"parupd", i, "max_bytes">>, "int"), P(<<"parupd", i, "max_gas">>, "int")} : i \in Ix(Len(r.parupd))}
    [] k = "ConsensusParams" -> {P(<<"height">>, "int")} \cup Pre(<<"params">>, ParamFields)
    [] k = "BlockchainInfo" ->
         {P(<<"last_height">>, "int"), P(<<"metas">>, "rseq")}
         \cup UNION {Pre(<<"metas", i, "block_id">>, BidFields) \cup Pre(<<"metas", i, "header">>, HeaderFields)
                     \cup {P(<<"metas", i, "num_txs">>, "uint"), P(<<"metas", i, "size">>, "uint")} : i \in Ix(Len(r.metas))}
    [] k \in ProviderKinds ->
         Pre(<<"header">>, HeaderFields) \cup Pre(<<"commit">>, CommitFields(r.commit))
         \cup {P(<<"vals">>, "vseq")} \cup UNION {Pre(<<"vals", i>>, ValFields) : i \in Ix(Len(r.vals))}

\* the hashes a consistent liar recomputes after editing `path`
Under(path, pfx) == Len(path) >= Len(pfx) /\ SubSeq(path, 1, Len(pfx)) = pfx
CohereBlockLike(C, r, path, bp, idp) ==      \* bp: path of the block-ish record, idp: path of the block id
  LET b0 == GetPath(r, bp)
      h1 == IF Under(path, bp \o <<"txs">>) THEN [b0.header EXCEPT !.dh = DataHashOf(b0.txs)] ELSE b0.header
      h2 == IF Under(path, bp \o <<"last_commit", "sigs">>) THEN [h1 EXCEPT !.lch = CommitHash(b0.last_commit.sigs)] ELSE h1
      h3 == IF Under(path, bp \o <<"evidence">>) THEN [h2 EXCEPT !.eh = EvHash(b0.evidence)] ELSE h2
      r1 == SetPath(r, bp \o <<"header">>, h3)
  IN IF Under(path, bp) THEN SetPath(r1, idp \o <<"hash">>, HeaderHash(C, h3)) ELSE r1
Cohere(C, k, r, path) ==
  CASE k \in {"Block", "BlockByHash"} -> CohereBlockLike(C, r, path, <<"block">>, <<"block_id">>)
    \* a lie about the tx keeps the GENUINE proof and fixes up the hash (only the tx/proof binding can
    \* catch it); a lie about the proven data drags tx, hash and leaf hash along (only the root can)
    [] k = "Tx" -> IF path = <<"tx">>
                   THEN [r EXCEPT !.hash = TxHash(r.tx)]
                   ELSE IF path = <<"proof", "data">>
                   THEN [r EXCEPT !.hash = TxHash(r.proof.data), !.tx = r.proof.data, !.proof.proof.leaf = MkLeafH(TxHash(r.proof.data))]
                   ELSE r
    [] k = "BlockchainInfo" ->
         IF Len(path) >= 3 /\ path[1] = "metas" /\ path[3] = "header"
         THEN SetPath(r, <<"metas", path[2], "block_id", "hash">>, HeaderHash(C, r.metas[IdxOf[path[2]]].header))
         ELSE r
    [] k \in ProviderKinds ->
         LET h1 == IF Under(path, <<"vals">>) THEN [r.header EXCEPT !.vh = ValsHash(r.vals)] ELSE r.header
             r1 == [r EXCEPT !.header = h1]
             r2 == IF Under(path, <<"vals">>) \/ Under(path, <<"header">>)
                   THEN [r1 EXCEPT !.commit.bid.hash = HeaderHash(C, h1)] ELSE r1
         IN IF r2.vals = ForgedVals /\ Len(r.commit.sigs) > 0
            THEN [r2 EXCEPT !.commit.sigs = <<[flag |-> 2, addr |-> "vz", ts |-> r.commit.sigs[1].ts,
                                               sig |-> ForgedSigTerm(r2.commit, r.commit.sigs[1].ts)]>>]
            ELSE r2
    [] OTHER -> r
CohKinds == {"Block", "BlockByHash", "Tx", "BlockchainInfo", "Commit", "Validators"}

\* the argument record whose honest answer supplies "other" values
OtherArg(a, oh) == IF a.lo = 0 THEN [a EXCEPT !.h = oh] ELSE [a EXCEPT !.lo = oh, !.hi = oh + (a.hi - a.lo)]
ApplyEdit(C, k, a, r, e) ==
  LET old == GetPath(r, e.path)
      oa  == OtherArg(a, e.oh)
      oth == IF e.how = "other" /\ ValidArg(C, k, oa) /\ HasPath(Honest(C, k, oa), e.path)
             THEN GetPath(Honest(C, k, oa), e.path) ELSE old
  IN SetPath(r, e.path, NewVal(e.how, old, oth))
RECURSIVE ApplyEdits(_, _, _, _, _, _)
ApplyEdits(C, k, a, r, es, coh) ==
  IF Len(es) = 0 THEN r
  ELSE LET r1 == ApplyEdit(C, k, a, r, es[1])
           r2 == IF coh THEN Cohere(C, k, r1, es[1].path) ELSE r1
       IN ApplyEdits(C, k, a, r2, Tail(es), coh)
\* f = [edits, coh]
Falsify(C, k, a, f) == ApplyEdits(C, k, a, Honest(C, k, a), f.edits, f.coh)
NoLie == [edits |-> << >>, coh |-> FALSE]

\* ------------------------------------------------------------------ (3c) the light client, as far as C20 needs it
\* (light/client.go VerifyLightBlockAtHeight; its own correctness is C09's subject)
\* have: heights already in the trusted store.  The primary serves lb for the asked height.
\* Result: "ok" (lb verified and stored), or an error class.
HonestSig(C, h, i)  == C.blocks[h].commit.sigs[i]
\* the vote sign bytes cover type, height, round, block id, timestamp, chain id -- not the validator address
SameSig(s, t) == s.flag = t.flag /\ s.ts = t.ts /\ s.sig = t.sig
\* a commit signature verifies iff it is the validator's signature over exactly the honest
\* vote (ed25519 is deterministic; unforgeability assumed)
HonestSigOK(C, lb, i) ==
  LET h == lb.header.height IN
  /\ h \in 1..C.tip /\ i <= Len(C.blocks[h].commit.sigs) /\ i <= Len(lb.vals)
  /\ SameSig(lb.commit.sigs[i], HonestSig(C, h, i))
  /\ lb.commit.height = h /\ lb.commit.round = C.blocks[h].commit.round /\ lb.commit.bid = C.blocks[h].bid
  /\ lb.header.chain = C.id
  /\ lb.vals[i].pk = C.blocks[h].vals[i].pk
\* ... or the attacker's signature, with his own key, over exactly this commit's vote
ForgedSigOK(C, lb, i) ==
  /\ i <= Len(lb.vals) /\ lb.vals[i].pk = "pkz" /\ lb.commit.sigs[i].flag = 2 /\ lb.header.chain = C.id
  /\ lb.commit.sigs[i].sig = ForgedSigTerm(lb.commit, lb.commit.sigs[i].ts)
SigOK(C, lb, i) == HonestSigOK(C, lb, i) \/ ForgedSigOK(C, lb, i)
TotalPower(vals) == SumSeq([i \in 1..Len(vals) |-> vals[i].power])
\* types/validator_set.go VerifyCommitLight: in order, stop at the first time > 2/3 is reached;
\* a bad signature met before that is an error
RECURSIVE VCLight(_, _, _, _)
VCLight(C, lb, i, tallied) ==
  IF 3 * tallied > 2 * TotalPower(lb.vals) THEN TRUE
  ELSE IF i > Len(lb.commit.sigs) THEN FALSE
  ELSE IF lb.commit.sigs[i].flag # 2 THEN VCLight(C, lb, i + 1, tallied)
  ELSE IF ~SigOK(C, lb, i) THEN FALSE
  ELSE VCLight(C, lb, i + 1, tallied + lb.vals[i].power)

HeaderBasic(H) ==          \* types/block.go Header.ValidateBasic
  /\ H.vb = 11 /\ H.height > 0
  /\ WFHash(H.last.hash) /\ WFHash(H.last.psh)
  /\ WFHash(H.lch) /\ WFHash(H.dh) /\ WFHash(H.eh) /\ WFHash(H.vh) /\ WFHash(H.nvh) /\ WFHash(H.ch) /\ WFHash(H.lrh)
  /\ H.prop # "BAD"
SigBasic(s) ==             \* CommitSig.ValidateBasic
  /\ s.flag \in {1, 2, 3}
  /\ IF s.flag = 1 THEN s.addr = "" /\ s.ts = 0 /\ s.sig = "" ELSE s.addr \notin {"", "BAD"} /\ s.sig # ""
BidZero(b) == b.hash = "" /\ b.pst = 0 /\ b.psh = ""
BidBasic(b) == WFHash(b.hash) /\ WFHash(b.psh) /\ b.pst >= 0
CommitBasic(c) ==          \* Commit.ValidateBasic
  /\ c.height >= 0 /\ c.round >= 0
  /\ c.height >= 1 => (~BidZero(c.bid) /\ Len(c.sigs) > 0 /\ \A i \in 1..Len(c.sigs) : SigBasic(c.sigs[i]))
ValBasic(v) == v.pk # "" /\ v.power >= 0 /\ v.addr \notin {"", "BAD"}

\* types/light.go LightBlock.ValidateBasic (provider side and light/verifier.go)
LightBlockBasic(C, lb) ==
  /\ HeaderBasic(lb.header) /\ CommitBasic(lb.commit)
  /\ lb.header.chain = C.id
  /\ lb.commit.height = lb.header.height
  /\ lb.commit.bid.hash = HeaderHash(C, lb.header)
  /\ CommitBlockIDValidated => BidBasic(lb.commit.bid)
  /\ Len(lb.vals) > 0 /\ \A i \in 1..Len(lb.vals) : ValBasic(lb.vals[i])
  /\ Weak_ValsNotHashed \/ ValsHash(lb.vals) = lb.header.vh
\* types/validator_set.go VerifyCommitLightTrusting (non-adjacent steps, light/verifier.go VerifyNonAdjacent):
\* signatures are attributed to TRUSTED validators by the ADDRESS in the CommitSig.  TRUE = an error
\* is met before 1/3 of the trusted power is tallied: a signature that does not verify under the
\* key of the trusted validator carrying that address, or an address seen twice.  Too little trusted
\* power is no error here: the client bisects down to adjacent steps, which do not run this check.
RECURSIVE VCTrustErr(_, _, _, _, _, _)
VCTrustErr(C, tvals, lb, i, tallied, seen) ==
  IF 3 * tallied > TotalPower(tvals) \/ i > Len(lb.commit.sigs) THEN FALSE
  ELSE LET sg == lb.commit.sigs[i]
           js == {j \in 1..Len(tvals) : tvals[j].addr = sg.addr}
       IN IF sg.flag # 2 \/ js = {} THEN VCTrustErr(C, tvals, lb, i + 1, tallied, seen)
          ELSE IF sg.addr \in seen THEN TRUE
          ELSE LET tv == tvals[CHOOSE j \in js : TRUE]
                   h  == lb.header.height IN
               IF ~(HonestSigOK(C, lb, i) /\ tv.pk = C.blocks[h].vals[i].pk) THEN TRUE
               ELSE VCTrustErr(C, tvals, lb, i + 1, tallied + tv.power, seen \cup {sg.addr})

\* verification of lb (served for height h) against the store, then witness cross-check
\* (light/detector.go: the witness serves the honest header; hashes must agree)
LCVerify(C, have, h, lb) ==
  IF h < 1 \/ h > C.tip THEN "lc:height"
  ELSE IF ~LightBlockBasic(C, lb) \/ lb.header.height # h THEN "lc:basic"
  \* named deviation: Commit.ValidateBasic does not validate the block id; computing the vote sign
  \* bytes panics on a malformed one (types/canonical.go CanonicalizeBlockID) -- the call dies
  ELSE IF ~BidBasic(lb.commit.bid) THEN "lc:panic"
  ELSE LET below == {t \in have : t < h}
           base  == CHOOSE t \in below : \A u \in below : u <= t IN
       IF below # {} /\ base # h - 1 /\ base \in 1..C.tip /\ VCTrustErr(C, C.blocks[base].vals, lb, 1, 0, {}) THEN "lc:commit"
  ELSE IF Len(lb.commit.sigs) # Len(lb.vals) \/ ~VCLight(C, lb, 1, 0) THEN "lc:commit"
  ELSE IF HeaderHash(C, lb.header) # C.blocks[h].bid.hash THEN "lc:witness"
  ELSE "ok"
\* what updateLightClientIfNeededTo(h) yields: the stored block when h is already trusted,
\* else the verified block of the primary.  sent = the light block the primary serves.
\* The provider in front of the (possibly lying) node validates what it hands to the light client the
\* way light/provider/http does: right height, LightBlock.ValidateBasic.  A bad block is answered
\* with ErrBadLightBlock; light/client.go lightBlockFromPrimary then REPLACES the primary by a
\* witness (honest here, two witnesses so that one remains) and goes on with the witness' block.
ProviderRejects(C, h, lb) == ~LightBlockBasic(C, lb) \/ lb.header.height # h
MinOf(S) == CHOOSE t \in S : \A u \in S : t <= u
\* light/client.go backwards(): h below the first trusted height.  Only the HEADER is tied to the
\* trusted header, by the hash chain of interim headers fetched from the primary; the final check
\* requires the chain to end in the header fetched first.  pp = "break": the first interim header
\* does not chain -> VerifyBackwards fails -> findNewPrimary(h) -> the witness' (honest) block must
\* have the hash of the header fetched first, else the original error is returned.
\* [repaired by 88ebf12] the hash chain binds the header only; the block is stored and served with its
\* commit and validator set, so it is validated and its commit verified against its OWN validator set
\* (VerifyCommitLight) before it is stored.
LCBackwards(C, h, lb, pp) ==
  LET match == HeaderHash(C, lb.header) = C.blocks[h].bid.hash IN
  IF ~((pp = "break" /\ Weak_BackwardsTargetNotRechecked) \/ match) THEN "lc:backwards"
  ELSE IF Weak_BackwardsCommitUnverified THEN "ok"
  ELSE IF ~LightBlockBasic(C, lb) THEN "lc:basic"
  ELSE IF ~BidBasic(lb.commit.bid) THEN "lc:panic"        \* same named deviation as in LCVerify
  ELSE IF Len(lb.commit.sigs) # Len(lb.vals) \/ ~VCLight(C, lb, 1, 0) THEN "lc:commit"
  ELSE "ok"
LCGet(C, have, h, sent, pp) ==
  IF h \in have /\ h \in 1..C.tip THEN [st |-> "ok", lb |-> HonestLightBlock(C, h)]
  ELSE IF h < 1 \/ h > C.tip THEN [st |-> "lc:height", lb |-> sent]
  ELSE LET replaced == ProviderRejects(C, h, sent)
           lb == IF replaced THEN HonestLightBlock(C, h) ELSE sent
           st == IF h < MinOf(have) THEN LCBackwards(C, h, lb, IF replaced THEN "" ELSE pp)
                 ELSE LCVerify(C, have, h, lb)
       IN [st |-> st, lb |-> lb]
\* for backend kinds the primary is honest
LCHonest(C, have, h) == IF h \in 1..C.tip THEN LCGet(C, have, h, HonestLightBlock(C, h), "") ELSE [st |-> "lc:height", lb |-> Nil]
Have(C, a) == IF a.lc = "warm" THEN 1..C.tip ELSE IF a.lc = "top" THEN {C.tip} ELSE {1}
\* the block for a.h was (or would be) obtained by backwards verification
Backwards(C, a) == a.h >= 1 /\ a.h < MinOf(Have(C, a))
MaxOf(S) == CHOOSE t \in S : \A u \in S : u <= t
\* height = nil: light/rpc updateLightClientIfNeededTo(nil) -> light.Client.Update: fetch the primary's
\* LATEST block (request for height 0: the provider checks ValidateBasic but no height); when it is
\* above the latest trusted height it is verified like any other block and returned; otherwise
\* Update returns (nil, nil) and -- [repair C20-latest-when-up-to-date] -- the latest TRUSTED block is used.
LatestGet(C, have, sent) ==
  LET lb   == IF ~LightBlockBasic(C, sent) THEN HonestLightBlock(C, C.tip) ELSE sent
      hh   == lb.header.height
      last == MaxOf(have)
  IN IF hh > last
     THEN IF hh > C.tip THEN [st |-> "lc:height", lb |-> lb] ELSE [st |-> LCVerify(C, have, hh, lb), lb |-> lb]
     ELSE IF Weak_LatestUnverifiedWhenUpToDate THEN [st |-> "ok", lb |-> lb]
     ELSE IF Weak_LatestPanicsWhenUpToDate THEN [st |-> "lc:panic", lb |-> lb]
     ELSE [st |-> "ok", lb |-> HonestLightBlock(C, last)]
LCGetA(C, a, sent) == IF a.h = 0 THEN LatestGet(C, Have(C, a), sent) ELSE LCGet(C, Have(C, a), a.h, sent, a.pp)
\* what actually reaches the client: the primary is not even asked for a height already trusted
EffSent(C, k, a, f) == IF k \in ProviderKinds /\ a.h # 0 /\ a.h \in Have(C, a) THEN Honest(C, k, a) ELSE Falsify(C, k, a, f)

\* ------------------------------------------------------------------ (3d) Relay: light/rpc/client.go, check by check
OK      == [ok |-> TRUE, err |-> "none"]
Rej(e)  == [ok |-> FALSE, err |-> e]

BlockBasic(b) ==           \* types/block.go Block.ValidateBasic
  /\ HeaderBasic(b.header)
  /\ CommitBasic(b.last_commit)
  /\ b.header.lch = CommitHash(b.last_commit.sigs)
  /\ b.header.dh = DataHashOf(b.txs)
  /\ \A i \in 1..Len(b.evidence) : EvBasic(b.evidence[i])
  /\ b.header.eh = EvHash(b.evidence)
\* [repair C20-block-binding] the returned LastCommit is the commit OF the previous block
LastCommitBound(b) ==
  /\ b.last_commit.bid = b.header.last
  /\ BidZero(b.header.last) \/ b.last_commit.height = b.header.height - 1

RelayBlock(C, a, r) ==     \* Client.Block / Client.BlockByHash
  IF ~BidBasic(r.block_id) \/ ~BlockBasic(r.block) THEN Rej("basic")
  ELSE IF r.block_id.hash # HeaderHash(C, r.block.header) THEN Rej("hash")
  ELSE LET l == LCHonest(C, Have(C, a), r.block.header.height) IN
       IF l.st # "ok" THEN Rej("lc")
       ELSE IF ~Weak_NoTrustedHashCompare /\ HeaderHash(C, r.block.header) # HeaderHash(C, l.lb.header) THEN Rej("hash")
       ELSE IF ~Weak_NoBlockIDCompare /\ r.block_id # l.lb.commit.bid THEN Rej("hash")
       ELSE IF ~Weak_NoLastCommitBinding /\ ~LastCommitBound(r.block) THEN Rej("hash")
       ELSE OK

RelayTx(C, a, r) ==        \* Client.Tx(hash, prove = true)
  IF r.height <= 0 THEN Rej("basic")
  ELSE LET l == LCHonest(C, Have(C, a), r.height) IN
       IF l.st # "ok" THEN Rej("lc")
       ELSE IF ~Weak_NoTxProofCheck /\ ~TxProofValidate(r.proof, l.lb.header.dh) THEN Rej("proof")
       \* [repair C20-tx-binding] the proof must be about THIS response
       ELSE IF ~Weak_TxNotBound /\ (r.tx # r.proof.data \/ r.hash # TxHash(r.tx) \/ r.index # r.proof.proof.index) THEN Rej("proof")
       ELSE OK

\* DefaultMerkleKeyPathFn: "/store/<name>/key" -> keys <<name, key>>
RelayQuery(C, a, r) ==     \* Client.ABCIQueryWithOptions
  IF r.code # 0 \/ r.key = "" \/ Len(r.ops) = 0 \/ r.height <= 0 THEN Rej("basic")
  ELSE LET l == LCHonest(C, Have(C, a), r.height + 1) IN
       IF l.st # "ok" THEN Rej("lc")
       ELSE IF Weak_NoQueryProofCheck THEN OK
       ELSE IF r.value # Nil
            THEN IF VerifyOps(r.ops, l.lb.header.ah, <<a.store, r.key>>, r.value) THEN OK ELSE Rej("proof")
            \* [repair C20-absence-keypath] same key path for absence proofs
            ELSE IF Weak_AbsenceRawKey THEN Rej("proof")      \* string(resp.Key) is not a key path: never verifies
            ELSE IF VerifyOps(r.ops, l.lb.header.ah, <<a.store, r.key>>, Nil) THEN OK ELSE Rej("proof")

RelayResults(C, a, r) ==   \* Client.BlockResults(&h)
  IF r.height <= 0 THEN Rej("basic")
  \* [repair C20-blockresults] the answer must be about the requested height
  ELSE IF ~Weak_ResultsHeightUnbound /\ r.height # a.h THEN Rej("hash")
  ELSE LET l == LCHonest(C, Have(C, a), a.h + 1) IN
       IF l.st # "ok" THEN Rej("lc")
       \* [repair C20-blockresults] the header commits to NewResults(DeliverTxs).Hash() only
       ELSE IF Weak_NoResultsHashCompare THEN OK
       ELSE IF Weak_ResultsPreimage THEN Rej("hash")     \* hash of [bbe, results hash, ebe] never equals LastResultsHash
       ELSE IF ResultsHash(r.results) # l.lb.header.lrh THEN Rej("hash")
       ELSE OK

MaxBlockSize == 104857600
ParamsBasic(p) ==          \* types.ValidateConsensusParams
  /\ p.max_bytes > 0 /\ p.max_bytes <= MaxBlockSize /\ p.max_gas >= -1 /\ p.iota > 0
  /\ p.ev_age_blocks > 0 /\ p.ev_age_dur > 0 /\ p.ev_max_bytes <= p.max_bytes /\ p.ev_max_bytes >= 0
  /\ Len(p.pk_types) > 0 /\ \A i \in 1..Len(p.pk_types) : p.pk_types[i] \in {"ed25519", "sr25519", "secp256k1"}
RelayParams(C, a, r) ==    \* Client.ConsensusParams
  IF ~ParamsBasic(r.params) \/ r.height <= 0 THEN Rej("basic")
  ELSE LET l == LCHonest(C, Have(C, a), r.height) IN
       IF l.st # "ok" THEN Rej("lc")
       ELSE IF ~Weak_NoParamsHashCompare /\ ParamsHash(r.params) # l.lb.header.ch THEN Rej("hash")
       ELSE OK

MetaBasic(C, m) == BidBasic(m.block_id) /\ m.block_id.hash = HeaderHash(C, m.header)
\* the verification loop over the metas, in order; light.Client.TrustedLightBlock(0) is the LATEST trusted block
RECURSIVE CheckMetas(_, _, _, _)
CheckMetas(C, have, metas, i) ==
  IF i > Len(metas) THEN OK
  ELSE LET m  == metas[i]
           mh == m.header.height
           h  == IF mh = 0 THEN CHOOSE t \in have : \A u \in have : u <= t ELSE mh IN
       IF h \notin have \/ h \notin 1..C.tip THEN Rej("lc")                 \* TrustedLightBlock: not found
       ELSE IF ~Weak_NoTrustedHashCompare /\ HeaderHash(C, m.header) # C.blocks[h].bid.hash THEN Rej("hash")
       ELSE IF ~Weak_NoBlockIDCompare /\ m.block_id # C.blocks[h].bid THEN Rej("hash")
       ELSE CheckMetas(C, have, metas, i + 1)
RelayInfo(C, a, r) ==      \* Client.BlockchainInfo
  IF \E i \in 1..Len(r.metas) : ~MetaBasic(C, r.metas[i]) THEN Rej("basic")
  ELSE IF Len(r.metas) = 0 THEN OK
  ELSE \* the light client is advanced to the LAST returned meta only -- the lowest height, rpc/core
       \* returns metas in descending order -- the others must already be trusted
       LET low == Last(r.metas).header.height
           l   == LCHonest(C, Have(C, a), low) IN
       IF l.st # "ok" THEN Rej("lc")
       ELSE CheckMetas(C, Have(C, a) \cup {low}, r.metas, 1)

\* Client.Commit / Client.Validators: answered from the light block itself
RelayLight(C, a, sent) == LET l == LCGetA(C, a, sent) IN
  IF l.st = "ok" THEN OK ELSE IF l.st = "lc:panic" THEN Rej("panic") ELSE Rej("lc")
\* what the client hands to the caller for the provider kinds
ShapeCommit(lb) == [header |-> lb.header, commit |-> lb.commit, canonical |-> TRUE]
ShapeValidators(a, lb) ==
  LET total == Len(lb.vals)
      per   == PerPage(a.per)
      skip  == IF a.page <= 1 THEN 0 ELSE (a.page - 1) * per
      cnt   == Min(per, total - skip)
  IN [height |-> lb.header.height, validators |-> SubSeq(lb.vals, skip + 1, skip + cnt), count |-> cnt, total |-> total]

Relay(C, k, a0, r) ==
  LET a == IF k \in {"Block", "BlockResults"} THEN [a0 EXCEPT !.h = ReqH(C, k, a0)] ELSE a0 IN
  CASE k \in {"Block", "BlockByHash"} -> RelayBlock(C, a, r)
    [] k = "Tx"              -> RelayTx(C, a, r)
    [] k = "ABCIQuery"       -> RelayQuery(C, a, r)
    [] k = "BlockResults"    -> RelayResults(C, a, r)
    [] k = "ConsensusParams" -> RelayParams(C, a, r)
    [] k = "BlockchainInfo"  -> RelayInfo(C, a, r)
    [] k = "Commit"          -> RelayLight(C, a, r)
    [] k = "Validators"      -> LET x == RelayLight(C, a, r) IN      \* paging over the validator set actually held
                                IF x.ok /\ ~PageOK(a, Len(LCGetA(C, a, r).lb.vals)) THEN Rej("basic") ELSE x
\* the value handed to the caller when relayed
Returned(C, k, a, r) ==
  CASE k = "Commit"     -> ShapeCommit(LCGetA(C, a, r).lb)
    [] k = "Validators" -> ShapeValidators(a, LCGetA(C, a, r).lb)
    [] OTHER            -> r

\* ------------------------------------------------------------------ (3e) Consistent: the statement, per kind
\* T = the set of heights whose header the light client has verified (its trusted store);
\* a trusted header IS the chain's header (C09).  got = the value handed to the caller.
OnChain(C, T, h) == h \in T /\ h \in 1..C.tip

ConsBlock(C, T, g) ==
  LET h == g.block.header.height IN
  /\ OnChain(C, T, h)
  /\ g.block.header = C.blocks[h].header                     \* = header hash equality (injective)
  \* the body is the chain's body, field by field (what DataHash / LastCommitHash / EvidenceHash of the
  \* verified header commit to; stated on the content so that the oracle does not depend on the hash
  \* functions the code under test happens to implement -- ChainCoherent checks those separately)
  /\ g.block.txs = C.blocks[h].txs
  /\ g.block.evidence = C.blocks[h].evidence
  /\ g.block.last_commit.sigs = C.blocks[h].last_commit.sigs
  /\ g.block_id = C.blocks[h].commit.bid                     \* hash AND part-set header of the verified commit
  /\ LastCommitBound(g.block)
\* the inclusion proof proves the returned tx at the returned index under the verified DataHash
ConsTxProof(C, T, g) ==
  /\ OnChain(C, T, g.height)
  /\ g.proof.root = C.blocks[g.height].header.dh
  /\ g.proof.proof.total > 0 /\ g.proof.proof.index >= 0
  /\ MkVerify(g.proof.proof, C.blocks[g.height].header.dh, TxHash(g.tx))
  /\ g.proof.data = g.tx
  /\ g.proof.proof.index = g.index
  /\ g.hash = TxHash(g.tx)
\* the execution result is the one committed by LastResultsHash of the next header
ConsTxResult(C, T, g) ==
  /\ g.height \in 1..C.tip /\ g.index >= 0 /\ g.index < Len(C.blocks[g.height].results)
  /\ ResTerm(g.result) = ResTerm(C.blocks[g.height].results[g.index + 1])
ConsQuery(C, T, a, g) ==
  /\ OnChain(C, T, g.height + 1)
  /\ g.code = 0
  /\ VerifyOps(g.ops, C.blocks[g.height + 1].header.ah, <<a.store, g.key>>, g.value)
ConsResults(C, T, g) ==
  /\ OnChain(C, T, g.height + 1)
  /\ ResultsHash(g.results) = C.blocks[g.height + 1].header.lrh
ConsParams(C, T, g) ==
  /\ OnChain(C, T, g.height)
  /\ ParamsHash(g.params) = C.blocks[g.height].header.ch
ConsInfo(C, T, g) == \A i \in 1..Len(g.metas) : LET h == g.metas[i].header.height IN
  /\ OnChain(C, T, h)
  /\ g.metas[i].header = C.blocks[h].header
  /\ g.metas[i].block_id = C.blocks[h].commit.bid
\* a commit is consistent when it is a commit FOR the verified header carrying > 2/3 of valid
\* signatures (signatures beyond the quorum are not examined by VerifyCommitLight: S18)
ConsCommitHdr(C, T, g) ==
  LET h == g.header.height IN
  /\ OnChain(C, T, h)
  /\ g.header = C.blocks[h].header
  /\ g.commit.height = h
  /\ g.commit.bid.hash = C.blocks[h].bid.hash
ConsCommitFull(C, T, g) ==
  LET h == g.header.height IN
  /\ ConsCommitHdr(C, T, g)
  /\ g.commit.bid = C.blocks[h].bid
  /\ g.commit.round = C.blocks[h].commit.round
  /\ Len(g.commit.sigs) = Len(C.blocks[h].vals)
  /\ 3 * SumSeq([i \in 1..Len(g.commit.sigs) |->
                   IF SameSig(g.commit.sigs[i], HonestSig(C, h, i)) /\ g.commit.sigs[i].flag = 2 THEN C.blocks[h].vals[i].power ELSE 0])
       > 2 * TotalPower(C.blocks[h].vals)
ConsCommit(C, T, a, g) == ConsCommitFull(C, T, g)
ConsVals(C, T, a, g) ==
  LET h == g.height IN
  /\ OnChain(C, T, h)
  /\ g.total = Len(C.blocks[h].vals)
  /\ g.count = Len(g.validators)
  /\ LET skip == IF a.page <= 1 THEN 0 ELSE (a.page - 1) * PerPage(a.per) IN
     /\ skip + g.count <= g.total
     /\ \A i \in 1..g.count : /\ g.validators[i].pk = C.blocks[h].vals[skip + i].pk
                              /\ g.validators[i].power = C.blocks[h].vals[skip + i].power
ConsValAddr(g) == \A i \in 1..Len(g.validators) : g.validators[i].addr = AddrOfPk(g.validators[i].pk)

\* The statement.  ConsistentStrict adds the two bindings that v0.34 cannot check without a
\* protocol change and that are recorded as known findings.
Consistent(C, T, k, a, g) ==
  CASE k \in {"Block", "BlockByHash"} -> ConsBlock(C, T, g)
    [] k = "Tx"              -> ConsTxProof(C, T, g)
    [] k = "ABCIQuery"       -> ConsQuery(C, T, a, g)
    [] k = "BlockResults"    -> ConsResults(C, T, g)
    [] k = "ConsensusParams" -> ConsParams(C, T, g)
    [] k = "BlockchainInfo"  -> ConsInfo(C, T, g)
    [] k = "Commit"          -> ConsCommit(C, T, a, g)
    [] k = "Validators"      -> ConsVals(C, T, a, g)
ConsistentStrict(C, T, k, a, g) ==
  /\ Consistent(C, T, k, a, g)
  /\ k = "Tx" => ConsTxResult(C, T, g)
  /\ k = "Validators" => ConsValAddr(g)
  /\ k = "Commit" => ConsCommitFull(C, T, g)

\* Fields no header commits to (S19 and friends): falsifying them cannot be detected by ANY
\* client; relaying such a lie is a stated limit, not a violation.  (Consistent above does
\* not mention them, so this list is documentation + a cross-check: UncommittedOnly.)
LastOf(path) == Last(path)
Uncommitted(k, path) ==
  CASE k \in {"Block", "BlockByHash"} -> path = <<"block", "last_commit", "round">>          \* bound by the signatures only
    [] k = "Tx"              -> Under(path, <<"result">>) /\ LastOf(path) \in {"log", "info", "events", "cs"}
    [] k = "ABCIQuery"       -> path \in {<<"log">>, <<"info">>, <<"index">>, <<"cs">>} \/ LastOf(path) = "dkey"
    [] k = "BlockResults"    -> \/ Under(path, <<"bbe">>) \/ Under(path, <<"ebe">>) \/ Under(path, <<"valupd">>) \/ Under(path, <<"parupd">>)
                                \/ (Under(path, <<"results">>) /\ LastOf(path) \in {"log", "info", "events", "cs"})
    [] k = "ConsensusParams" -> Under(path, <<"params">>) /\ LastOf(path) \notin {"max_bytes", "max_gas"}
    [] k = "BlockchainInfo"  -> path = <<"last_height">> \/ LastOf(path) \in {"num_txs", "size"}
    [] k = "Commit"          -> Under(path, <<"vals">>) \/ Under(path, <<"commit", "sigs">>)            \* see ConsCommit
    [] k = "Validators"      -> Under(path, <<"commit">>) \/ LastOf(path) = "prio"

\* ------------------------------------------------------------------ (4) cases and properties
\* case = [chain (description id), kind, a (args), f (lie)]
Lies(C, k, a, ohs) ==
  LET r    == Honest(C, k, a)
      vohs == {o \in ohs : ValidArg(C, k, OtherArg(a, o))}
      oth  == [o \in vohs |-> Honest(C, k, OtherArg(a, o))]
      \* one "other" per field: the lowest height whose honest answer has a DIFFERENT value there
      ohFor(path) == LET cand == {o \in vohs : HasPath(oth[o], path) /\ GetPath(oth[o], path) # GetPath(r, path)} IN
                     IF cand = {} THEN {} ELSE {CHOOSE o \in cand : \A q \in cand : o <= q}
  IN UNION {UNION {{[edits |-> <<[path |-> fl.path, how |-> hw, oh |-> oh]>>, coh |-> coh] :
                      oh \in IF hw = "other" THEN ohFor(fl.path) ELSE {0}} : hw \in Hows(fl.ty, GetPath(r, fl.path))} :
            coh \in IF k \in CohKinds THEN {FALSE, TRUE} ELSE {FALSE}, fl \in Fields(k, r)}

\* RelaySound: whatever is handed to the caller is consistent with a verified header.
\* (the trusted store after the call contains every height the call verified: here all of 1..tip may be
\*  verified by an honest primary, so T = 1..tip is the weakest assumption)
RelaySoundCase(C, cs) ==
  LET sent == EffSent(C, cs.kind, cs.a, cs.f)
      rl   == Relay(C, cs.kind, cs.a, sent)
  IN rl.ok => Consistent(C, 1..C.tip, cs.kind, cs.a, Returned(C, cs.kind, cs.a, sent))
RelaySoundStrictCase(C, cs) ==
  LET sent == EffSent(C, cs.kind, cs.a, cs.f)
      rl   == Relay(C, cs.kind, cs.a, sent)
  IN rl.ok => ConsistentStrict(C, 1..C.tip, cs.kind, cs.a, Returned(C, cs.kind, cs.a, sent))
\* RelayComplete: every honest answer is relayed, unchanged
RelayCompleteCase(C, cs) ==
  cs.f = NoLie => /\ Relay(C, cs.kind, cs.a, Honest(C, cs.kind, cs.a)).ok
                  /\ ConsistentStrict(C, 1..C.tip, cs.kind, cs.a, Returned(C, cs.kind, cs.a, Honest(C, cs.kind, cs.a)))
\* a relayed single-field lie is either not a lie (the field kept its value), or about an
\* uncommitted field, or still consistent for a reason Consistent knows (e.g. Merkle shape alias)
UncommittedOnlyCase(C, cs) ==
  LET sent == EffSent(C, cs.kind, cs.a, cs.f)
      rl   == Relay(C, cs.kind, cs.a, sent)
  IN (rl.ok /\ Len(cs.f.edits) = 1 /\ sent # Honest(C, cs.kind, cs.a) /\ cs.kind \in StatementKinds)
        => \/ Uncommitted(cs.kind, cs.f.edits[1].path)
           \/ (cs.kind = "Tx" /\ cs.f.edits[1].path = <<"proof", "proof", "total">>)     \* shape alias (C10 known finding)
           \/ (cs.kind = "Tx" /\ Under(cs.f.edits[1].path, <<"result">>))                 \* known finding C20-tx-result-unproven
           \/ (cs.kind = "Validators" /\ LastOf(cs.f.edits[1].path) = "addr")             \* known finding C20-validator-address-unbound
           \/ Returned(C, cs.kind, cs.a, sent) = Returned(C, cs.kind, cs.a, Honest(C, cs.kind, cs.a))
           \/ \E a2 \in HonestArgs(C, cs.kind) : sent = Honest(C, cs.kind, a2)              \* a different but genuine answer

\* all four, sharing the evaluation of Falsify / Relay (what the exhaustive config checks)
CaseOK(C, cs) ==
  LET k    == cs.kind
      hon  == Honest(C, k, cs.a)
      sent == IF cs.f = NoLie THEN hon ELSE EffSent(C, k, cs.a, cs.f)
      rl   == Relay(C, k, cs.a, sent)
      ret  == Returned(C, k, cs.a, sent)
      T    == 1..C.tip
  IN /\ rl.ok => Consistent(C, T, k, cs.a, ret)                                                   \* RelaySound (+ ExtraSound)
     /\ (cs.f = NoLie /\ k \in StatementKinds) => (rl.ok /\ ConsistentStrict(C, T, k, cs.a, ret))   \* RelayComplete
     /\ (rl.ok /\ Len(cs.f.edits) = 1 /\ sent # hon /\ k \in StatementKinds)                       \* UncommittedOnly
           => \/ Uncommitted(k, cs.f.edits[1].path)
              \/ (k = "Tx" /\ cs.f.edits[1].path = <<"proof", "proof", "total">>)
              \/ (k = "Tx" /\ Under(cs.f.edits[1].path, <<"result">>))
              \/ (k = "Validators" /\ LastOf(cs.f.edits[1].path) = "addr")
              \/ ret = Returned(C, k, cs.a, hon)                          \* the lie was discarded (primary replaced)
              \/ \E a2 \in HonestArgs(C, k) : sent = Honest(C, k, a2)

\* ServedProofsVerify: the inclusion proof rpc/core serves for tx i of block h verifies
\* against that block's DataHash and proves that tx at that index
ServedOK(C, h, i, tp) ==
  /\ TxProofValidate(tp, C.blocks[h].header.dh)
  /\ tp.data = C.blocks[h].txs[i + 1]
  /\ tp.proof.index = i /\ tp.proof.total = Len(C.blocks[h].txs)

\* ------------------------------------------------------------------ (5) the serving side: rpc/core/tx.go
\* "Inclusion proofs served by a full node's RPC verify against the data hash of the block they
\* refer to" is about the FULL NODE.  Two endpoints serve proofs: Tx(hash, prove) and
\* TxSearch(query, prove, page, per_page, order_by).
ServeTxProof(C, h, i) == HonestTx(C, h, i).proof          \* types.Txs.Proof(i) of block h

\* every indexed transaction as [h, i], ascending (height, index)
RECURSIVE TxRefsUpTo(_, _)
TxRefsUpTo(C, n) == IF n = 0 THEN << >>
                    ELSE TxRefsUpTo(C, n - 1) \o Force([j \in 1..Len(C.blocks[n].txs) |-> [h |-> n, i |-> j - 1]])
Reverse(s) == Force([j \in 1..Len(s) |-> s[Len(s) + 1 - j]])
\* one ResultTx; bh = the block the handler took the proof from (= h unless weakened)
SearchItem(C, r, bh) == LET b == C.blocks[r.h] IN
  [h |-> r.h, i |-> r.i, tx |-> b.txs[r.i + 1], hash |-> TxHash(b.txs[r.i + 1]), proof |-> ServeTxProof(C, bh, r.i)]
\* the result loop of TxSearch; cached = height of the block held across iterations (0 = none).
\* Result "panic" when the cached block has no transaction r.i (Txs.Proof indexes out of range).
RECURSIVE SearchLoop(_, _, _, _)
SearchLoop(C, refs, k, cached) ==
  IF k > Len(refs) THEN [ok |-> TRUE, txs |-> << >>]
  ELSE LET r  == refs[k]
           bh == IF Weak_SearchProofFromCachedBlock /\ cached # 0 /\ ~(cached < r.h) THEN cached ELSE r.h
       IN IF r.i >= Len(C.blocks[bh].txs) THEN [ok |-> FALSE, txs |-> << >>]
          ELSE LET rest == SearchLoop(C, refs, k + 1, bh) IN
               IF ~rest.ok THEN rest ELSE [ok |-> TRUE, txs |-> <<SearchItem(C, r, bh)>> \o rest.txs]
\* TxSearch("tx.height >= a.lo AND tx.height <= a.hi", prove = true, a.page, a.per, a.ord):
\* search the index, sort, paginate, then attach a proof to every result of the page
ServeSearch(C, a) ==
  LET all     == TxRefsUpTo(C, C.tip)
      matched == SelectSeq(all, LAMBDA r : r.h >= a.lo /\ r.h <= a.hi)
      sorted  == IF a.ord = "desc" THEN Reverse(matched) ELSE matched
      total   == Len(sorted)
      per     == PerPage(a.per)
      skip    == IF a.page <= 1 THEN 0 ELSE (a.page - 1) * per
      size    == Min(per, total - skip)
  IN IF ~PageOK(a, total) \/ a.ord \notin {"asc", "desc", ""} THEN [ok |-> FALSE, total |-> total, txs |-> << >>]
     ELSE LET r == SearchLoop(C, SubSeq(sorted, skip + 1, skip + size), 1, 0) IN [ok |-> r.ok, total |-> total, txs |-> r.txs]
ValidSearch(C, a) == LET all == TxRefsUpTo(C, C.tip) IN
  a.ord \in {"asc", "desc", ""} /\ PageOK(a, Len(SelectSeq(all, LAMBDA r : r.h >= a.lo /\ r.h <= a.hi)))
\* ServedProofsVerify for one search: the request is answered and every returned transaction comes
\* with THE proof of that transaction in the block at ITS height
SearchItemOK(C, t) ==
  /\ t.h \in 1..C.tip /\ t.i >= 0 /\ t.i < Len(C.blocks[t.h].txs)
  /\ t.tx = C.blocks[t.h].txs[t.i + 1] /\ t.hash = TxHash(t.tx)
  /\ ServedOK(C, t.h, t.i, t.proof)
SearchServedOK(C, a) ==
  LET r == ServeSearch(C, a) IN ValidSearch(C, a) => (r.ok /\ \A k \in 1..Len(r.txs) : SearchItemOK(C, r.txs[k]))
\* the searches enumerated: height ranges x order x per_page x every valid page
SearchArgs(C) ==
  LET base(lo, hi, pg, per, o) == [Arg(0, 0, "", "", lo, hi, pg, per, "warm") EXCEPT !.ord = o] IN
  {x \in {base(q[1], q[2], pg, per, o) : q \in {<<1, C.tip>>, <<2, 3>>, <<3, C.tip>>, <<C.tip - 1, C.tip - 1>>},
                                         pg \in 0..7, per \in {0, 1, 2, 4}, o \in {"asc", "desc", ""}} : ValidSearch(C, x)}
=============================================================================
