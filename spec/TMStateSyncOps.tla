------------------------------ MODULE TMStateSyncOps ------------------------------
(* State sync of tendermint v0.34, as pure operators (values in, values out):
   statesync/snapshots.go (snapshotPool: Add, Ranked/Best, GetPeers, Reject, RejectFormat,
   RejectPeer, RemovePeer), statesync/chunks.go (chunkQueue: Add, Allocate, Discard,
   DiscardSender, Next in its two critical sections, Retry, RetryAll, Close),
   statesync/syncer.go (SyncAny, Sync, offerSnapshot, applyChunks, verifyApp, fetchChunks,
   requestChunk) and the StateProvider contract of statesync/stateprovider.go.

   The applier (the goroutine that runs SyncAny) is a program counter machine with ONE step
   per lock acquisition / external call (XPick ... XAfterSync), so that environment events
   (advertisements, peer removal, chunk arrival in any order, duplicates, late chunks,
   chunks from rejected peers) can fall between any two of them.  Fetcher goroutines are
   abstracted to the set of indices some live fetcher is responsible for (ft.want) plus
   the cancelled-fetcher quirk (ft.stale, XStaleFetch).

   The application is a verdict script; the state provider answers with the light-verified
   values TAppHash / TState / TCommit (functions of the height only, disjoint from anything
   a snapshot peer can claim) or fails.  SPAppHashOf / SPStateOf / SPCommitOf say from which
   verified blocks the real lightClientStateProvider must take them.

   Properties are the *Ok predicates, evaluated at the step that could break them; the
   design state machine (TMStateSync.tla) accumulates the names of broken ones in gh.bad
   (history free), the trace specification (trace/TMStateSyncTrace.tla) evaluates the same
   predicates on the calls OBSERVED on the real code.

   Deviations of the code that are modelled on purpose (named where they occur):
   chunkReturned is set before Next() waits (XNext); a cancelled fetcher allocates once
   more (XStaleFetch); retry / retry_snapshot re-apply stored chunks of a sender that was
   rejected meanwhile (SenderFreshOk).  The code as repaired by
   proposed-fixes/C14-reject-late-chunks-from-rejected-sender.diff is the default
   (Fix_DropRejectedSenderChunks = TRUE); the old behaviour is a weakened config.         *)
EXTENDS Integers, Sequences, FiniteSets, TLC

CONSTANTS
  Fetchers,         \* cfg.ChunkFetchers
  MaxPerPeer,       \* recentSnapshots (10 in the code)
  Fix_DropRejectedSenderChunks,  \* TRUE = code as repaired (proposed-fixes/C14-*.diff): chunks whose
                                 \* sender is blacklisted are ignored by syncer.AddChunk / chunkQueue.Add
  Weak_AppHashFromPeer,      \* Offer/verify use the hash the snapshot peer claims
  Weak_SkipVerifyApp,        \* verifyApp not called
  Weak_VerifyHashOnly,       \* verifyApp compares only the app hash
  Weak_NextUpAnyOrder,       \* Next returns any stored unreturned chunk (arrival order)
  Weak_BlacklistForgets,     \* blacklists cleared when a snapshot is retried
  Weak_RefetchIgnored,       \* refetch_chunks not discarded
  Weak_RejectSendersIgnored, \* reject_senders ignored
  Weak_DupOverwrites,        \* a duplicate chunk overwrites the stored bytes, not the sender
  Weak_RejectNotBlacklisted, \* Reject(snapshot) removes it but does not blacklist it
  Weak_FormatNotBlacklisted, \* RejectFormat removes the snapshots of the format but does not blacklist it
  Weak_NoSyncerLevelCheck,   \* only the queue remembers rejected senders (syncer.AddChunk does not ask the pool)
  Weak_RemovePeerClearsBlacklist \* a disconnect (RemovePeer) of a rejected peer erases its ban

Nil == "nil"
NoSnap == [h |-> 0, f |-> 0, n |-> 0, hash |-> Nil, meta |-> Nil]
SetMin(S) == CHOOSE x \in S : \A y \in S : x <= y

\* ---------------------------------------------------------------- trusted (light-verified) values
\* What the StateProvider returns for a height.  stateprovider.go: AppHash(h) is the
\* AppHash field of the verified header h+1, State(h) is assembled from the verified light
\* blocks h, h+1, h+2, Commit(h) is the commit of light block h.
TAppHash(h) == "T:ah" \o ToString(h)
AppVer(h)   == 10 + h
TState(h)   == [height |-> h, apphash |-> TAppHash(h), appver |-> AppVer(h),
                lbid |-> "T:bid" \o ToString(h), lrh |-> "T:lrh" \o ToString(h),
                lastvals |-> "T:lv" \o ToString(h), vals |-> "T:v" \o ToString(h),
                nextvals |-> "T:nv" \o ToString(h), chain |-> "T:chain"]
TCommit(h)  == [height |-> h, bid |-> "T:bid" \o ToString(h)]
TInfo(h)    == [hash |-> TAppHash(h), height |-> h, ver |-> AppVer(h)]
NoState     == [height |-> 0, apphash |-> Nil, appver |-> 0, lbid |-> Nil, lrh |-> Nil,
                lastvals |-> Nil, vals |-> Nil, nextvals |-> Nil, chain |-> Nil]
NoCommit    == [height |-> 0, bid |-> Nil]

\* ---------------------------------------------------------------- snapshot pool (snapshots.go)
\* pool: function  snapshot -> set of peers that advertise it  (DOMAIN = snapshots held).
\* A snapshot is held iff it has at least one peer (removePeer/removeSnapshot).
\* bl = [snap, fmt, peer]: snapshotBlacklist, formatBlacklist, peerBlacklist.
EmptyBl == [snap |-> {}, fmt |-> {}, peer |-> {}]
PeerSnaps(pool, p) == {s \in DOMAIN pool : p \in pool[s]}            \* peerIndex[p]
FnRestrict(f, D) == [x \in D |-> f[x]]

\* snapshotPool.Add -> [pool, added]
PoolAdd(pool, bl, p, s, maxpp) ==
  IF s.f \in bl.fmt \/ p \in bl.peer \/ s \in bl.snap \/ Cardinality(PeerSnaps(pool, p)) >= maxpp
  THEN [pool |-> pool, added |-> FALSE]
  ELSE IF s \in DOMAIN pool
       THEN [pool |-> [pool EXCEPT ![s] = @ \cup {p}], added |-> FALSE]
       ELSE [pool |-> [x \in DOMAIN pool \cup {s} |-> IF x = s THEN {p} ELSE pool[x]], added |-> TRUE]

PoolRemoveSnap(pool, s) == FnRestrict(pool, DOMAIN pool \ {s})
\* removePeer: drop p everywhere, drop snapshots left without peers
PoolRemovePeer(pool, p) ==
  LET D == {s \in DOMAIN pool : pool[s] \ {p} # {}} IN [s \in D |-> pool[s] \ {p}]
PoolRejectFormat(pool, f) == FnRestrict(pool, {s \in DOMAIN pool : s.f # f})

\* Ranked(): height desc, format desc, number of peers desc; ties in map/sort order
Better(pool, a, b) ==
  \/ a.h > b.h
  \/ a.h = b.h /\ a.f > b.f
  \/ a.h = b.h /\ a.f = b.f /\ Cardinality(pool[a]) > Cardinality(pool[b])
BestSet(pool) == {s \in DOMAIN pool : \A t \in DOMAIN pool : ~Better(pool, t, s)}
\* GetPeers(snapshot)
PeersOf(pool, s) == IF s \in DOMAIN pool THEN pool[s] ELSE {}

\* ---------------------------------------------------------------- chunk queue (chunks.go)
\* q = [open, n, e, rej], e[i] = [b, s, alloc, ret]: chunkFiles (content), chunkSenders,
\* chunkAllocated, chunkReturned.  b = Nil: no file.  rej: senders discarded by DiscardSender
\* (the `rejected` set of the repaired queue; always empty in the code before the repair).
EmptyEntry == [b |-> Nil, s |-> Nil, alloc |-> FALSE, ret |-> FALSE]
QNew(n)    == [open |-> TRUE, n |-> n, e |-> [i \in 0..(n - 1) |-> EmptyEntry], rej |-> {}]
NoQueue    == [open |-> FALSE, n |-> 0, e |-> [i \in {} |-> EmptyEntry], rej |-> {}]
QIdx(q)    == 0..(q.n - 1)
QHas(q, i) == i \in QIdx(q) /\ q.e[i].b # Nil

\* chunkQueue.Add for a chunk c = [h, f, i, b, s] against snapshot snap -> [q, res]
\* res: "added" | "dup" | "closed" | "err" | "rejected"
QAdd(q, snap, c) ==
  IF ~q.open THEN [q |-> q, res |-> "closed"]
  ELSE IF c.h # snap.h \/ c.f # snap.f \/ c.i < 0 \/ c.i >= q.n THEN [q |-> q, res |-> "err"]
  ELSE IF QHas(q, c.i) THEN
       IF Weak_DupOverwrites THEN [q |-> [q EXCEPT !.e[c.i].b = c.b], res |-> "dup"]
                             ELSE [q |-> q, res |-> "dup"]
  ELSE IF c.s \in q.rej THEN [q |-> q, res |-> "rejected"]
  ELSE [q |-> [q EXCEPT !.e[c.i].b = c.b, !.e[c.i].s = c.s], res |-> "added"]

\* discard(index): only a stored chunk is discarded; it becomes allocatable and unreturned
QDiscard(q, i) ==
  IF ~q.open \/ ~QHas(q, i) THEN q ELSE [q EXCEPT !.e[i] = EmptyEntry]
\* DiscardSender: all *unreturned* stored chunks of that sender
QDiscardSender(q, p) ==
  IF ~q.open THEN q
  ELSE [q EXCEPT !.e = [i \in QIdx(q) |->
          IF q.e[i].b # Nil /\ q.e[i].s = p /\ ~q.e[i].ret THEN EmptyEntry ELSE q.e[i]],
                 !.rej = IF Fix_DropRejectedSenderChunks THEN @ \cup {p} ELSE @]
QRetry(q, i)  == [q EXCEPT !.e[i].ret = FALSE]
QRetryAll(q)  == [q EXCEPT !.e = [i \in QIdx(q) |-> [q.e[i] EXCEPT !.ret = FALSE]]]
QClose(q)     == [q EXCEPT !.open = FALSE]
Unreturned(q) == {i \in QIdx(q) : ~q.e[i].ret}
Unallocated(q) == {i \in QIdx(q) : ~q.e[i].alloc}
\* nextUp: lowest unreturned index, -1 = errDone
NextUp(q) == IF ~q.open \/ Unreturned(q) = {} THEN -1 ELSE SetMin(Unreturned(q))
\* indices Next() may return now
NextChoices(q) ==
  IF Weak_NextUpAnyOrder
  THEN (IF \E i \in Unreturned(q) : QHas(q, i) THEN {i \in Unreturned(q) : QHas(q, i)} ELSE {NextUp(q)})
  ELSE {NextUp(q)}
\* Allocate: lowest unallocated index, -1 = errDone
AllocUp(q) == IF ~q.open \/ Unallocated(q) = {} THEN -1 ELSE SetMin(Unallocated(q))

\* ---------------------------------------------------------------- state provider (stateprovider.go)
\* lightClientStateProvider over the chain its light client verified:
\*   lb : height -> [apphash, appver, lrh, vals, bid]   (fields of the verified light block)
\* AppHash(h) is the AppHash of header h+1 (and h+2 must be verifiable too), Commit(h) the
\* commit of block h, State(h) is assembled from blocks h (last), h+1 (current), h+2 (next).
SPNeeds(call, h)   == IF call = "commit" THEN {h} ELSE {h, h + 1, h + 2} \ (IF call = "apphash" THEN {h} ELSE {})
SPAppHashOf(lb, h) == lb[h + 1].apphash
SPCommitOf(lb, h)  == [height |-> h, bid |-> lb[h].bid]
SPStateOf(lb, h)   == [height |-> h, apphash |-> lb[h + 1].apphash, appver |-> lb[h + 1].appver,
                       lbid |-> lb[h].bid, lrh |-> lb[h + 1].lrh,
                       lastvals |-> lb[h].vals, vals |-> lb[h + 1].vals, nextvals |-> lb[h + 2].vals,
                       chain |-> "T:chain"]

\* ---------------------------------------------------------------- property predicates
\* (evaluated at the step named; used by the design spec and by the trace spec)

\* InOrder: the index handed to the app is the lowest one the app has not (validly) applied
InOrderOk(n, applied, idx) ==
  LET un == (0..(n - 1)) \ applied IN un # {} /\ idx = SetMin(un)
\* effect of an ApplySnapshotChunk verdict on the set of validly applied chunks
AppliedAfter(applied, idx, v, rf) ==
  IF v = "retry_snapshot" THEN {}
  ELSE (IF v = "accept" THEN applied \cup {idx} ELSE applied) \ rf
\* Done only when every chunk is applied and nothing waits to be refetched
DoneChunksOk(n, applied, must) == applied = 0..(n - 1) /\ must = {}
\* AsRecorded: (bytes, sender) given to the app are those of the accepted arrival held for idx
AsRecordedOk(inst, idx, b, s) == inst[idx].b = b /\ inst[idx].s = s
\* RefetchHonoured: a chunk the app asked to refetch reaches it only from a NEW arrival
RefetchOk(must, idx) == idx \notin must
\* TrustedOnly
OfferTrustedOk(snap, apphash) == apphash = TAppHash(snap.h)
ResultTrustedOk(snap, st, cm) == st = TState(snap.h) /\ cm = TCommit(snap.h)
\* VerifiedBeforeDone
InfoVerifies(snap, ans) == ans = TInfo(snap.h)
\* NeverReused
OfferFreshOk(rej, snap) == snap \notin rej.snap /\ snap.f \notin rej.fmt
AskFreshOk(rej, snap, p) == p \notin rej.peer /\ snap \notin rej.snap /\ snap.f \notin rej.fmt
\* a chunk of a rejected sender reaches the app only if that very chunk instance had
\* already been handed to the app before (retry / retry_snapshot re-apply stored chunks:
\* ABCI: "chunks already applied will not be refetched unless explicitly requested")
SenderFreshOk(rej, used, idx, s) == s \notin rej.peer \/ idx \in used

\* ================================================================ step operators (values)
\* S = [pool, bl, sy, q, ft, gh]
\*   sy : applier   [pc, cur, keep, active, tah, st, cm, w, ld, v, rf, rs, ret]
\*   ft : fetchers  [live, want, stale]
\*   gh : ghost     [rej, applied, must, used, inst, verified, bad, out]
NoLoad == [i |-> -1, b |-> Nil, s |-> Nil]
NoOut  == [kind |-> "none", st |-> NoState, cm |-> NoCommit]
Sy0 == [pc |-> "init", cur |-> NoSnap, keep |-> FALSE, active |-> FALSE, tah |-> Nil,
        st |-> NoState, cm |-> NoCommit, w |-> -1, ld |-> NoLoad, v |-> Nil, rf |-> {}, rs |-> {},
        ret |-> Nil]
Gh0 == [rej |-> EmptyBl, applied |-> {}, must |-> {}, used |-> {}, inst |-> << >>, verified |-> FALSE,
        bad |-> {}, out |-> NoOut]
Ft0 == [live |-> FALSE, want |-> {}, stale |-> 0]
S0  == [pool |-> << >>, bl |-> EmptyBl, sy |-> Sy0, q |-> NoQueue, ft |-> Ft0, gh |-> Gh0]

Flag(cond, name) == IF cond THEN {} ELSE {name}
End(kind, st, cm) == [kind |-> kind, st |-> st, cm |-> cm]
NoInst(n) == [i \in 0..(n - 1) |-> [b |-> Nil, s |-> Nil]]

\* the applier is blocked on the environment at these pcs (gates of the replay driver)
BlockedPcs  == {"init", "apphash", "offer", "state", "commit", "wait", "apply", "verify", "end", "panic"}
IsBlocked(S) == S.sy.pc \in BlockedPcs

\* Sync returned with an error: deferred s.chunks = nil, fetch context cancelled
SyncRet(S, why) ==
  [S EXCEPT !.sy.pc = "ret", !.sy.ret = why, !.sy.active = FALSE,
            !.ft = [live |-> FALSE, want |-> {}, stale |-> IF S.ft.live THEN Fetchers ELSE 0]]

\* ---------------------------------------------------------------- environment: peers
\* reactor.go ReceiveEnvelope(SnapshotsResponse) -> syncer.AddSnapshot -> [S, added]
XAddSnapshot(S, p, s) ==
  LET r == PoolAdd(S.pool, S.bl, p, s, MaxPerPeer) IN [S |-> [S EXCEPT !.pool = r.pool], added |-> r.added]
\* reactor.go RemovePeer -> syncer.RemovePeer -> snapshotPool.RemovePeer: the switch's ordinary
\* disconnect notification, also for a peer that was rejected before (its ban must survive)
XRemovePeer(S, p) ==
  [S EXCEPT !.pool = PoolRemovePeer(S.pool, p),
            !.bl.peer = IF Weak_RemovePeerClearsBlacklist THEN @ \ {p} ELSE @]

\* reactor.go ReceiveEnvelope(ChunkResponse) -> syncer.AddChunk -> chunkQueue.Add.
\* c = [h, f, i, b, s]; -> [S, res]; res: nosync | rejected | added | dup | closed | err
XArrive(S, c) ==
  IF ~S.sy.active THEN [S |-> S, res |-> "nosync"]            \* s.chunks == nil
  ELSE IF Fix_DropRejectedSenderChunks /\ ~Weak_NoSyncerLevelCheck /\ c.s \in S.bl.peer THEN [S |-> S, res |-> "rejected"]
  ELSE LET r == QAdd(S.q, S.sy.cur, c) IN
       IF r.res # "added" THEN [S |-> [S EXCEPT !.q = r.q], res |-> r.res]
       ELSE [S |-> [S EXCEPT !.q = r.q,
                      !.gh.must = @ \ {c.i}, !.gh.used = @ \ {c.i},
                      !.gh.inst = [@ EXCEPT ![c.i] = [b |-> c.b, s |-> c.s]],
                      \* waiters are signalled: the fetcher waiting for i goes on, Next() wakes up
                      !.ft.want = @ \ {c.i},
                      !.sy.pc = IF S.sy.pc = "wait" /\ S.sy.w = c.i THEN "woken" ELSE @],
             res |-> "added"]

\* ---------------------------------------------------------------- gates: provider and app
\* stateProvider.AppHash / State / Commit (snapshot.Height); ans: ok | fail | nowit
XProvider(S, ans) ==
  IF ans # "ok" THEN SyncRet(S, IF ans = "nowit" THEN "fatal" ELSE "reject_internal")
  ELSE CASE S.sy.pc = "apphash" ->
              [S EXCEPT !.sy.pc = "offer",
                        !.sy.tah = IF Weak_AppHashFromPeer THEN S.sy.cur.hash ELSE TAppHash(S.sy.cur.h)]
         [] S.sy.pc = "state"  -> [S EXCEPT !.sy.pc = "commit", !.sy.st = TState(S.sy.cur.h)]
         [] S.sy.pc = "commit" -> [S EXCEPT !.sy.pc = "next", !.sy.cm = TCommit(S.sy.cur.h)]

\* offerSnapshot: OfferSnapshotSync(snapshot, AppHash: trustedAppHash)
XOffer(S, v) ==
  LET G == [S EXCEPT !.gh.bad = @ \cup Flag(OfferTrustedOk(S.sy.cur, S.sy.tah), "TrustedOnly")
                                  \cup Flag(OfferFreshOk(S.gh.rej, S.sy.cur), "NeverReused"),
                     !.gh.applied = {}, !.gh.verified = FALSE]
  IN IF v = "accept" THEN [G EXCEPT !.sy.pc = "state", !.ft = [live |-> TRUE, want |-> {}, stale |-> @.stale]]
     ELSE SyncRet(G, CASE v = "abort" -> "abort" [] v = "reject" -> "reject"
                       [] v = "reject_format" -> "reject_format" [] v = "reject_sender" -> "reject_sender"
                       [] OTHER -> "fatal")

\* time.After(chunkTimeout) in Next: errTimeout
XTimeout(S) == SyncRet(S, "timeout")

\* ApplySnapshotChunkSync(Index, Chunk, Sender) and the app's verdict
XApply(S, v, rf, rs) ==
  LET ld == S.sy.ld IN
  [S EXCEPT
     !.gh.bad = @ \cup Flag(InOrderOk(S.q.n, S.gh.applied, ld.i), "InOrder")
                  \cup Flag(AsRecordedOk(S.gh.inst, ld.i, ld.b, ld.s), "AsRecorded")
                  \cup Flag(RefetchOk(S.gh.must, ld.i), "RefetchHonoured")
                  \cup Flag(SenderFreshOk(S.gh.rej, S.gh.used, ld.i, ld.s), "NeverReused"),
     !.gh.used = @ \cup {ld.i},
     !.gh.applied = AppliedAfter(@, ld.i, v, rf),
     \* a connection error skips the refetch / reject handling
     !.sy.pc = IF v = "error" THEN "ret0" ELSE "h_refetch", !.sy.v = v, !.sy.rf = rf, !.sy.rs = rs]

\* verifyApp: InfoSync; app version, app hash, height.  ans = [hash, height, ver]
XInfo(S, ans) ==
  LET okv == ans.ver = S.sy.st.appver
      okh == ans.hash = S.sy.tah
      okn == ans.height = S.sy.cur.h
      pass == IF Weak_VerifyHashOnly THEN okh ELSE okv /\ okh /\ okn
      G == [S EXCEPT !.gh.verified = InfoVerifies(S.sy.cur, ans)]
  IN IF pass THEN [G EXCEPT !.sy.pc = "finish"] ELSE SyncRet(G, "fatal")

\* ---------------------------------------------------------------- applier: internal steps
\* one step per lock acquisition; the SET of possible successors (Pick and, when weakened,
\* Next are the only choices)
InternalPcs == {"pick", "next", "woken", "ret0", "h_refetch", "h_rej", "h_rej2", "h_res", "finish", "ret"}

\* SyncAny loop head: Best() unless the snapshot is retried; newChunkQueue; Sync sets s.chunks
XPick(S) ==
  IF S.sy.keep THEN {[S EXCEPT !.sy.pc = "apphash", !.sy.active = TRUE, !.sy.keep = FALSE]}
  ELSE IF DOMAIN S.pool = {}
  THEN {[S EXCEPT !.sy.pc = "end", !.gh.out = End("nosnapshots", NoState, NoCommit)]}
  ELSE {[S EXCEPT !.sy.pc = "apphash", !.sy.cur = s, !.sy.active = TRUE, !.sy.tah = Nil,
                  !.sy.st = NoState, !.sy.cm = NoCommit, !.q = QNew(s.n),
                  !.gh.applied = {}, !.gh.must = {}, !.gh.used = {}, !.gh.inst = NoInst(s.n)]
         : s \in BestSet(S.pool)}

\* chunkQueue.Next, first critical section
XNext(S) ==
  {IF i < 0 THEN [S EXCEPT !.sy.pc = IF Weak_SkipVerifyApp THEN "finish" ELSE "verify"]
   ELSE IF QHas(S.q, i)
   THEN [S EXCEPT !.q.e[i].ret = TRUE, !.sy.pc = "apply",
                  !.sy.ld = [i |-> i, b |-> S.q.e[i].b, s |-> S.q.e[i].s]]
   \* load() returned (nil, nil): chunkReturned[i] is set all the same, then WaitFor(i)
   ELSE [S EXCEPT !.q.e[i].ret = TRUE, !.sy.pc = "wait", !.sy.w = i]
   : i \in NextChoices(S.q)}

\* chunkQueue.Next, second critical section after WaitFor fired.  load() returning
\* (nil, nil) here would make applyChunks dereference nil (DESIGN.md S12): pc "panic".
XWake(S) ==
  LET w == S.sy.w IN
  IF QHas(S.q, w)
  THEN [S EXCEPT !.q.e[w].ret = TRUE, !.sy.pc = "apply",
                 !.sy.ld = [i |-> w, b |-> S.q.e[w].b, s |-> S.q.e[w].s], !.sy.w = -1]
  ELSE [S EXCEPT !.sy.pc = "panic"]

\* for _, index := range resp.RefetchChunks { chunks.Discard(index) }
XRefetch(S) ==
  IF S.sy.rf = {} THEN [S EXCEPT !.sy.pc = "h_rej"]
  ELSE LET j == SetMin(S.sy.rf) IN
       [S EXCEPT !.q = IF Weak_RefetchIgnored THEN @ ELSE QDiscard(@, j),
                 !.gh.must = @ \cup {j}, !.gh.used = @ \ {j}, !.sy.rf = @ \ {j}]

\* for _, sender := range resp.RejectSenders { snapshots.RejectPeer(sender); ...
XRejectPeer(S) ==
  IF S.sy.rs = {} THEN [S EXCEPT !.sy.pc = "h_res"]
  ELSE LET p == CHOOSE x \in S.sy.rs : TRUE
           G == [S EXCEPT !.gh.rej.peer = @ \cup {p}, !.sy.pc = "h_rej2"]
       IN IF Weak_RejectSendersIgnored THEN G
          ELSE [G EXCEPT !.pool = PoolRemovePeer(@, p), !.bl.peer = @ \cup {p}]
\* ... chunks.DiscardSender(sender) }
XDiscardSender(S) ==
  LET p == CHOOSE x \in S.sy.rs : TRUE IN
  [S EXCEPT !.q = IF Weak_RejectSendersIgnored THEN @ ELSE QDiscardSender(@, p),
            !.sy.pc = "h_rej", !.sy.rs = @ \ {p}]

\* switch resp.Result
XResult(S) ==
  CASE S.sy.v = "accept" -> [S EXCEPT !.sy.pc = "next"]
    [] S.sy.v = "retry"  -> [S EXCEPT !.q = QRetry(@, S.sy.ld.i), !.sy.pc = "next"]   \* chunks.Retry(chunk.Index)
    [] S.sy.v = "abort"  -> SyncRet(S, "abort")
    [] S.sy.v = "retry_snapshot"  -> SyncRet(S, "retry_snapshot")
    [] S.sy.v = "reject_snapshot" -> SyncRet(S, "reject")

\* Sync returns (state, commit, nil); SyncAny returns them; deferred chunks.Close()
XFinish(S) ==
  [S EXCEPT !.sy.pc = "end", !.sy.active = FALSE, !.q = QClose(@), !.ft = Ft0,
            !.gh.out = End("done", S.sy.st, S.sy.cm),
            !.gh.bad = @ \cup Flag(ResultTrustedOk(S.sy.cur, S.sy.st, S.sy.cm), "TrustedOnly")
                         \cup Flag(S.gh.verified, "VerifiedBeforeDone")
                         \cup Flag(DoneChunksOk(S.q.n, S.gh.applied, S.gh.must), "InOrder")]

\* SyncAny's switch on Sync's error
XAfterSync(S) ==
  LET cur == S.sy.cur
      closed == [S EXCEPT !.q = QClose(@), !.ft.stale = 0]
      again  == [closed EXCEPT !.sy.pc = "pick", !.sy.cur = NoSnap]
  IN CASE S.sy.ret \in {"abort", "fatal"} ->
            [closed EXCEPT !.sy.pc = "end", !.gh.out = End(S.sy.ret, NoState, NoCommit)]
       [] S.sy.ret = "retry_snapshot" ->                                   \* chunks.RetryAll()
            [S EXCEPT !.q = QRetryAll(@), !.sy.pc = "pick", !.sy.keep = TRUE,
                      !.bl = IF Weak_BlacklistForgets THEN EmptyBl ELSE @]
       [] S.sy.ret \in {"reject", "reject_internal", "timeout"} ->          \* snapshots.Reject
            [again EXCEPT !.pool = PoolRemoveSnap(@, cur),
                          !.bl.snap = IF Weak_RejectNotBlacklisted THEN @ ELSE @ \cup {cur},
                          !.gh.rej.snap = @ \cup {cur}]
       [] S.sy.ret = "reject_format" ->                                     \* snapshots.RejectFormat
            [again EXCEPT !.pool = PoolRejectFormat(@, cur.f),
                          !.bl.fmt = IF Weak_FormatNotBlacklisted THEN @ ELSE @ \cup {cur.f},
                          !.gh.rej.fmt = @ \cup {cur.f}]
       [] S.sy.ret = "reject_sender" ->                                     \* RejectPeer(each of GetPeers)
            LET ps == PeersOf(S.pool, cur) IN
            [again EXCEPT !.pool = [s \in {x \in DOMAIN S.pool : S.pool[x] \ ps # {}} |-> S.pool[s] \ ps],
                          !.bl.peer = @ \cup ps, !.gh.rej.peer = @ \cup ps]

XInternal(S) ==
  CASE S.sy.pc = "pick"      -> XPick(S)
    [] S.sy.pc = "next"      -> XNext(S)
    [] S.sy.pc = "woken"     -> {XWake(S)}
    [] S.sy.pc = "ret0"      -> {SyncRet(S, "fatal")}
    [] S.sy.pc = "h_refetch" -> {XRefetch(S)}
    [] S.sy.pc = "h_rej"     -> {XRejectPeer(S)}
    [] S.sy.pc = "h_rej2"    -> {XDiscardSender(S)}
    [] S.sy.pc = "h_res"     -> {XResult(S)}
    [] S.sy.pc = "finish"    -> {XFinish(S)}
    [] S.sy.pc = "ret"       -> {XAfterSync(S)}
    [] OTHER -> {}

\* every state in which the applier is blocked again, reachable by internal steps only
RECURSIVE SettleSet(_)
SettleSet(S) == IF S.sy.pc \in InternalPcs THEN UNION {SettleSet(T) : T \in XInternal(S)} ELSE {S}

\* ---------------------------------------------------------------- fetchers (syncer.go fetchChunks)
\* a live fetcher without a chunk allocates the lowest unallocated index
XFetcherAllocate(S) ==
  LET i == AllocUp(S.q) IN [S EXCEPT !.q.e[i].alloc = TRUE, !.ft.want = @ \cup {i}]
\* requestChunk: GetPeer picks any current peer of the snapshot; the first request and every
\* retry-timer re-request look the same
XRequest(S, i, p) == [S EXCEPT !.gh.bad = @ \cup Flag(AskFreshOk(S.gh.rej, S.sy.cur, p), "NeverReused")]
\* Deviation of the code, modelled as a named action: a fetcher whose context was cancelled
\* while it slept in the errDone poll (or raced ctx.Done with a chunk arrival) calls
\* Allocate() once more before it looks at ctx.Done: when the same queue is retried
\* (retry_snapshot) it takes an index, requests it once and exits; nobody retries that index.
XStaleFetch(S, p) ==
  LET i == AllocUp(S.q) IN
  [S EXCEPT !.q.e[i].alloc = TRUE, !.ft.stale = @ - 1,
            !.gh.bad = @ \cup (IF p = Nil THEN {} ELSE Flag(AskFreshOk(S.gh.rej, S.sy.cur, p), "NeverReused"))]

\* ---------------------------------------------------------------- verdict alphabets
SPAnswers     == {"ok", "fail", "nowit"}
OfferVerdicts == {"accept", "abort", "reject", "reject_format", "reject_sender", "error"}
ApplyVerdicts == {"accept", "abort", "retry", "retry_snapshot", "reject_snapshot", "error"}
InfoAnswers(s) == LET g == TInfo(s.h) IN
  {g, [g EXCEPT !.hash = s.hash], [g EXCEPT !.hash = "X:other"], [g EXCEPT !.height = s.h + 1],
   [g EXCEPT !.ver = g.ver + 1]}
=============================================================================
