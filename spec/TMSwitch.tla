------------------------------ MODULE TMSwitch ------------------------------
(* The p2p Switch peer lifecycle (tendermint v0.34.x):
     p2p/switch.go      DialPeerWithAddress, addOutboundPeerWithConfig, acceptRoutine, filterPeer, addPeer,
                        StopPeerForError, StopPeerGracefully, stopAndRemovePeer, reconnectToPeer
     p2p/peer_set.go    PeerSet.Add / Remove (keyed by node ID, removalAttemptFailed flag)
     p2p/peer.go        peer lifecycle only: Start / Stop through service.BaseService (started / stopped)
     p2p/transport.go   filterConn / conns (ConnSet keyed by the REMOTE ADDRESS string) / Cleanup / wrapPeer
     p2p/base_reactor.go the Reactor contract  InitPeer -> AddPeer -> RemovePeer

   GRAIN.  The Switch is a set of goroutines ("threads") over shared objects that each have their own lock
   (PeerSet.mtx, the dialing / reconnecting CMaps, connSet.RWMutex, the peer's atomic started / stopped flags);
   there is no lock around a whole operation.  A thread is modelled as a program counter that stops at the points
   where the real goroutine calls OUT of the Switch into an object supplied by its environment:
        Transport.Dial, Transport.Accept, Transport.Cleanup, a PeerFilterFunc, Peer.Start (before / after),
        Reactor.InitPeer / AddPeer / RemovePeer, the Logger line "Reconnecting to peer", time.Sleep of the
        reconnect loop.
   These are exactly the points at which the harness can hold a real goroutine ("gates"), so one step of the
   model  =  "release thread t from its gate; it runs real code up to its next gate or its end", and every
   behaviour of the model at this grain can be forced on the real Switch.  The two check-then-set pairs that have
   no call-out in between (dialing.Has..dialing.Set in DialPeerWithAddress, reconnecting.Has..reconnecting.Set in
   reconnectToPeer) are split into two steps when SplitMarks = TRUE (model checking only; on real code the
   window is reached by a stress driver, not by a schedule).

   PROPERTIES (what a Reactor author / a user of Switch relies on; sources in brackets):
     CallbackOrder        for every reactor r and peer INSTANCE p: InitPeer(r,p) exactly once and first; AddPeer(r,p)
                          at most once, only for a started peer; RemovePeer(r,p) at most once and only for a
                          stopped peer; AddPeer(r,p) never after RemovePeer(r,p).  RemovePeer without AddPeer is
                          allowed (a peer that errored while being added) and so is InitPeer alone (peer that lost
                          the duplicate-ID race or failed to start).        [base_reactor.go doc of Reactor;
                          switch.go addPeer/stopAndRemovePeer comments; spec/p2p/peer.md]
     PeerSetCoversActive  an instance some reactor is working with (AddPeer delivered, RemovePeer not yet) IS the
                          PeerSet's entry for its node ID: Switch.Peers() is how reactors find, count and
                          broadcast to their peers; at most one such instance per node ID.
                          ["a node will only ever connect to one at a time", spec/p2p/peer.md; PeerSet doc]
     SetMembersStarted    a peer in the PeerSet has been started ("Must start it before adding it to the peer set")
     NoZombieAtRest       when no operation is in flight every PeerSet entry is a running peer
     OneDialPerID         at most one thread is inside Transport.Dial / addPeer for one node ID on behalf of
                          DialPeerWithAddress  ["If we're currently dialing this address or it belongs to an
                          existing peer, ErrCurrentlyDialingOrExistingAddress is returned"]
     OneReconnectLoop     at most one reconnectToPeer loop per node ID
     NoOrphanMarks        a dialing mark belongs to a thread inside DialPeerWithAddress, a reconnecting mark to a
                          live reconnect loop (a leaked mark blocks dialing that node for ever)
     ConnsCovered         every conns entry belongs to a connection that is pending, in the PeerSet, or in the
                          hands of a thread that will clean it up; ConnsAtRest: at rest conns = the connections of
                          the PeerSet members (so that the same address / IP can connect again after a removal);
                          MembersHaveConn: every live connection (PeerSet member, peer being added, pending one)
                          that nobody is stopping has its entry (the duplicate-IP filter sees every live connection)
     InboundLimit         #inbound, non-unconditional PeerSet members <= MaxInbound; UnconditionalExempt
     StaleErrStopIsNoop   StopPeerForError on a peer that is not running does nothing
     RedialAtRest         (safety face of Redial) at rest no persistent peer that was stopped for error is left
                          without a dial attempt made / witnessed or a reconnect loop that will make one
     Redial (liveness)    after a persistent peer was stopped for error the Switch dials it again, or finds it being
                          dialled / connected again, under weak fairness of the threads  ["If the peer is persistent,
                          it will attempt to reconnect"].  NOT claimed: that the node is connected in the end - a
                          reconnect loop that finds another DialPeerWithAddress in flight gives up, and when that
                          dial then fails inside addPeer (duplicate, filter) nobody retries; addOutboundPeerWithConfig
                          documents "If handshake fails, it's over" (TLC shows the run with the stronger property)

   AS-IS SWITCHES.  The spec models the code as repaired by proposed-fixes/SWITCH-*.diff; the behaviour of the
   unchanged tree is obtained with
     AsIs_StopNotExclusive  stopAndRemovePeer runs for every caller, also for a peer that another caller has
                            stopped already (two concurrent StopPeerForError, or a stale StopPeerGracefully):
                            RemovePeer twice; PeerSet.Remove(by ID) and conns.RemoveAddr(by address) then hit the
                            NEW instance of the same node
     AsIs_NoLifecycleLock    addPeer continues with AddPeer on the reactors after the peer was stopped and
                            removed by a concurrent StopPeerForError (no lock spans Add..AddPeer / RemovePeer..Remove)
     AsIs_MarksNotAtomic    (only with SplitMarks) check-then-set on dialing / reconnecting is not atomic: two
                            DialPeerWithAddress / two reconnect loops for one node get past the check together
   The repair (proposed-fixes/SWITCH-peer-lifecycle-races.diff): stopAndRemovePeer starts with peer.Stop() and
   returns when the peer was stopped already; one mutex spans addPeer as a whole and the RemovePeer loop with
   peers.Remove; one mutex makes the two check-then-set pairs atomic.
   The Weak_* switches each drop one guard the way a regression would; TLC must refute each (non-vacuity).      *)
EXTENDS Integers, Sequences, FiniteSets, TLC

CONSTANTS
  NodeIDs, Persistent, Unconditional, Reactors,
  SameIP,            \* all remote nodes share one IP address
  AllowDupIP,        \* config.AllowDuplicateIP (also: no ConnDuplicateIPFilter on the transport, as node.go does)
  MaxInbound, MaxInst, MaxIncoming, MaxDials, MaxStops, MaxTries,
  DialTids, StopTids, RecTids,
  SplitMarks,
  FixedRChoice,      \* replay graphs only: one (arbitrary) reactor order instead of all - the real order is Go's map order anyway
  AsIs_StopNotExclusive, AsIs_NoLifecycleLock, AsIs_MarksNotAtomic,
  Weak_NoRemovalFlag, Weak_RemoveBeforeReactors, Weak_AddPeerBeforeSetAdd, Weak_StartAfterAdd,
  Weak_NoDialingMark, Weak_DialingMarkLeak, Weak_ReconnectMarkLeak, Weak_NoCleanupOnAddFail,
  Weak_InboundLimitOffByOne, Weak_UnconditionalCounted, Weak_NoReconnectOnError, Weak_CleanupKeepsConn,
  Weak_StaleStopGuardDropped

Tids == {"acc"} \cup DialTids \cup StopTids \cup RecTids
NoThread == [k |-> "-", pc |-> "free", id |-> "-", i |-> 0, rs |-> {}, cur |-> "-", why |-> "-", tries |-> 0, out |-> "-"]
AccIdle  == [NoThread EXCEPT !.k = "acc", !.pc = "idle"]

IpOf(id)   == IF SameIP THEN "ip" ELSE "ip-" \o id
OutAddr(id) == "o-" \o id
InAddr(n)   == "i-" \o ToString(n)

InitState ==
  [peers |-> [n \in NodeIDs |-> 0], dialing |-> {}, reconn |-> {}, conns |-> {}, pend |-> << >>, inst |-> << >>,
   thr |-> [t \in Tids |-> IF t = "acc" THEN AccIdle ELSE NoThread],
   cb |-> [r \in Reactors |-> << >>], nin |-> 0, nd |-> 0, ns |-> 0,
   lk |-> "-",       \* repaired code: holder of the Switch's peer-lifecycle mutex (peers.Add..AddPeer loop | RemovePeer loop..peers.Remove)
   ovf |-> FALSE,    \* model bound hit: a reconnect goroutine could not be represented (must stay FALSE)
   redial |-> [n \in NodeIDs |-> TRUE]]

\* ------------------------------------------------------------------------------------------ helpers
Running(S, i) == S.inst[i].st /\ ~S.inst[i].sp
T(S, t) == S.thr[t]
SetT(S, t, rec) == [S EXCEPT !.thr[t] = rec]
Free(S, t) == SetT(S, t, IF t = "acc" THEN AccIdle ELSE NoThread)
Done(S, t, res) == SetT(S, t, [NoThread EXCEPT !.k = S.thr[t].k, !.pc = "done", !.id = S.thr[t].id, !.i = S.thr[t].i,
                                                 !.why = S.thr[t].why, !.out = res,
                                                 !.tries = IF S.thr[t].k = "stop" THEN S.thr[t].tries ELSE 0])
CbAdd(S, r, i, c) == [S EXCEPT !.cb[r][i] = Append(@, c)]
SetInst(S, i, f, v) ==
  [S EXCEPT !.inst[i] = CASE f = "st" -> [@ EXCEPT !.st = v] [] f = "sp" -> [@ EXCEPT !.sp = v] [] f = "remf" -> [@ EXCEPT !.remf = v]]
ConnsMinus(S, a) == IF Weak_CleanupKeepsConn THEN S ELSE [S EXCEPT !.conns = {c \in @ : c.a # a}]

\* switch.go IsDialingOrExistingAddress
Existing(S, id) ==
  \/ id \in S.dialing
  \/ S.peers[id] # 0
  \/ ~AllowDupIP /\ \E n \in NodeIDs : S.peers[n] # 0 /\ S.inst[S.peers[n]].ip = IpOf(id)

\* transport.go filterConn: conns.Has(c) by remote address; ConnDuplicateIPFilter; conns.Set
ConnRejected(S, a, ip) == (\E c \in S.conns : c.a = a) \/ (~AllowDupIP /\ \E c \in S.conns : c.ip = ip)

NewInst(S, id, out, a) ==
  LET n == Len(S.inst) + 1 IN
  [S EXCEPT !.inst = Append(@, [id |-> id, out |-> out, pers |-> id \in Persistent, addr |-> a, ip |-> IpOf(id),
                                st |-> FALSE, sp |-> FALSE, remf |-> FALSE]),
            !.cb = [r \in Reactors |-> Append(S.cb[r], << >>)]]

FreeRec(S) == {t \in RecTids : S.thr[t].pc = "free"}
CanSpawnRec(S) == FreeRec(S) # {}

\* `go sw.reconnectToPeer(addr)`.  At gate grain the new goroutine runs its reconnecting.Has / Set at once.
SpawnRec(S, id) ==
  IF FreeRec(S) = {} THEN (IF id \in S.reconn /\ ~(SplitMarks /\ AsIs_MarksNotAtomic) THEN S ELSE [S EXCEPT !.ovf = TRUE])
  ELSE LET t == CHOOSE x \in FreeRec(S) : TRUE IN
       IF SplitMarks /\ AsIs_MarksNotAtomic
         THEN SetT(S, t, [NoThread EXCEPT !.k = "rec", !.pc = "rcheck", !.id = id])
       ELSE IF id \in S.reconn THEN S
       ELSE SetT([S EXCEPT !.reconn = @ \cup {id}], t, [NoThread EXCEPT !.k = "rec", !.pc = "RecLog", !.id = id])

\* the thread leaves DialPeerWithAddress / addPeer with result res (after `defer sw.dialing.Delete`)
Return(S, t, res) ==
  LET th == S.thr[t]
      S0 == IF S.lk = t THEN [S EXCEPT !.lk = "-"] ELSE S
      S1 == IF th.k \in {"dial", "rec"} /\ ~(Weak_DialingMarkLeak /\ res # "ok")
              THEN [S0 EXCEPT !.dialing = @ \ {th.id}] ELSE S0
  IN CASE th.k = "acc"  -> Free(S1, t)
       [] th.k = "dial" -> Done(S1, t, res)
       [] th.k = "rec"  -> IF res = "ok"
                             THEN Free([S1 EXCEPT !.reconn = @ \ {th.id}], t)            \* `defer sw.reconnecting.Delete`
                             ELSE SetT(S1, t, [th EXCEPT !.pc = "Sleep", !.tries = @ + 1, !.i = 0, !.rs = {}, !.cur = "-", !.out = res])

\* addPeer fails after the peer was created: caller does transport.Cleanup(p); if p.IsRunning() p.Stop()
Fail(S, t, err) ==
  IF Weak_NoCleanupOnAddFail
    THEN Return(S, t, err)
    ELSE SetT(IF S.lk = t THEN [S EXCEPT !.lk = "-"] ELSE S, t, [S.thr[t] EXCEPT !.pc = "CleanupF", !.out = err, !.rs = {}, !.cur = "-"])

\* switch.go addPeer, first part: filterPeer's peers.Has
AddPeerBegin(S, t, i) ==
  LET S1 == SetT([S EXCEPT !.lk = IF AsIs_NoLifecycleLock THEN @ ELSE t], t, [S.thr[t] EXCEPT !.i = i]) IN
  IF S1.peers[S1.inst[i].id] # 0 THEN Fail(S1, t, "ErrRejectedDup")
  ELSE SetT(S1, t, [S1.thr[t] EXCEPT !.pc = "Filter"])

\* DialPeerWithAddress from its beginning (thread record already carries k and id)
DialMark(S, t) ==
  LET id == S.thr[t].id IN
  SetT(IF Weak_NoDialingMark THEN [S EXCEPT !.redial[id] = TRUE] ELSE [S EXCEPT !.dialing = @ \cup {id}, !.redial[id] = TRUE],
       t, [S.thr[t] EXCEPT !.pc = "Dial"])

DialBegin(S, t) ==
  LET th == S.thr[t] IN
  IF Existing(S, th.id)
    THEN IF th.k = "dial" THEN Done(S, t, "ErrExisting")
         \* reconnect loop: somebody else is dialing the node or it is connected again - the loop's job is done
         ELSE Free(IF Weak_ReconnectMarkLeak THEN [S EXCEPT !.redial[th.id] = TRUE]
                   ELSE [S EXCEPT !.reconn = @ \ {th.id}, !.redial[th.id] = TRUE], t)
  ELSE IF SplitMarks /\ AsIs_MarksNotAtomic THEN SetT(S, t, [th EXCEPT !.pc = "dmark"])
  ELSE DialMark(S, t)

\* peers.Remove at the end of stopAndRemovePeer (PeerSet.Remove looks the peer up BY ID), then StopPeerForError's
\* reconnect
StopFinal(S, t) ==
  LET th == S.thr[t]
      id == S.inst[th.i].id
      S1 == IF Weak_RemoveBeforeReactors THEN S
            ELSE IF S.peers[id] # 0 THEN [S EXCEPT !.peers[id] = 0] ELSE SetInst(S, th.i, "remf", TRUE)
      pe == th.why = "err" /\ S.inst[th.i].pers
      S1b == IF pe THEN [S1 EXCEPT !.redial[id] = FALSE] ELSE S1
      S2 == IF pe /\ ~Weak_NoReconnectOnError THEN SpawnRec(S1b, id) ELSE S1b
  IN Done(IF S2.lk = t THEN [S2 EXCEPT !.lk = "-"] ELSE S2, t, "ok")

\* ------------------------------------------------------------------------------------------ one step of a thread
(* Release thread t from its gate; r = the reactor whose callback comes next if a callback loop follows
   (Go map iteration order: any), o = outcome of Transport.Dial chosen by the environment.                     *)
Step(S, t, r, o) ==
  LET th == S.thr[t]
      i  == th.i
      id == th.id
      rest == th.rs \ {th.cur}
  IN
  CASE th.pc = "dmark" -> DialMark(S, t)
    [] th.pc = "rcheck" -> IF id \in S.reconn THEN Free(S, t) ELSE SetT(S, t, [th EXCEPT !.pc = "rmark"])
    [] th.pc = "rmark" -> SetT([S EXCEPT !.reconn = @ \cup {id}], t, [th EXCEPT !.pc = "RecLog"])
    [] th.pc = "RecLog" -> DialBegin(S, t)
    [] th.pc = "Sleep"  -> DialBegin(S, t)
    [] th.pc = "Dial" ->
         LET a == OutAddr(id) IN
         IF o = "fail" \/ ConnRejected(S, a, IpOf(id))
           \* transport.Dial returned an error: `if sw.IsPeerPersistent(addr) go sw.reconnectToPeer(addr)`
           THEN Return(IF id \in Persistent THEN SpawnRec(S, id) ELSE S, t, IF o = "fail" THEN "ErrDial" ELSE "ErrConnRejected")
           ELSE LET S1 == NewInst([S EXCEPT !.conns = @ \cup {[a |-> a, ip |-> IpOf(id)]}, !.redial[id] = TRUE], id, TRUE, a)
                IN AddPeerBegin(S1, t, Len(S1.inst))
    [] th.pc = "Filter" ->
         SetT(S, t, [th EXCEPT !.pc = "Init", !.rs = Reactors, !.cur = r])
    [] th.pc = "Init" ->
         LET S1 == CbAdd(S, th.cur, i, "I") IN
         IF rest # {} THEN SetT(S1, t, [th EXCEPT !.rs = rest, !.cur = r])
         ELSE SetT(S1, t, [th EXCEPT !.pc = IF Weak_StartAfterAdd THEN "Add" ELSE "Start", !.rs = {}, !.cur = "-"])
    [] th.pc = "Start" ->
         LET S1 == SetInst(S, i, "st", TRUE) IN
         IF Weak_StartAfterAdd THEN Return(S1, t, "ok")
         ELSE IF Weak_AddPeerBeforeSetAdd THEN SetT(S1, t, [th EXCEPT !.pc = "AddPeer", !.rs = Reactors, !.cur = r])
         ELSE SetT(S1, t, [th EXCEPT !.pc = "Add"])
    [] th.pc = "Add" ->
         IF S.peers[id] # 0 THEN Fail(S, t, "ErrDupID")
         ELSE IF S.inst[i].remf /\ ~Weak_NoRemovalFlag THEN Fail(S, t, "ErrPeerRemoval")
         ELSE IF Weak_AddPeerBeforeSetAdd THEN Return([S EXCEPT !.peers[id] = i, !.redial[id] = TRUE], t, "ok")
         ELSE SetT([S EXCEPT !.peers[id] = i, !.redial[id] = TRUE], t, [th EXCEPT !.pc = "AddPeer", !.rs = Reactors, !.cur = r])
    [] th.pc = "AddPeer" ->
         LET S1 == CbAdd(S, th.cur, i, "A") IN
         IF rest # {} THEN SetT(S1, t, [th EXCEPT !.rs = rest, !.cur = r])
         ELSE IF Weak_StartAfterAdd THEN SetT(S1, t, [th EXCEPT !.pc = "Start", !.rs = {}, !.cur = "-"])
         ELSE IF Weak_AddPeerBeforeSetAdd THEN SetT(S1, t, [th EXCEPT !.pc = "Add", !.rs = {}, !.cur = "-"])
         ELSE Return(S1, t, "ok")
    [] th.pc = "CleanupF" ->
         LET S1 == ConnsMinus(S, S.inst[i].addr)
             S2 == IF Running(S1, i) THEN SetInst(S1, i, "sp", TRUE) ELSE S1
         IN Return(S2, t, th.out)
    [] th.pc = "CleanupL" -> Free(ConnsMinus(S, S.inst[i].addr), t)
    [] th.pc = "Cleanup" ->
         \* as-is: transport.Cleanup(peer); peer.Stop() (error only logged); repaired: Stop came first (see SpawnStop)
         LET S1 == ConnsMinus(S, S.inst[i].addr)
             S2 == IF Running(S1, i) THEN SetInst(S1, i, "sp", TRUE) ELSE S1
             S3 == IF Weak_RemoveBeforeReactors
                     THEN IF S2.peers[id] # 0 THEN [S2 EXCEPT !.peers[id] = 0] ELSE SetInst(S2, i, "remf", TRUE)
                     ELSE S2
         IN SetT([S3 EXCEPT !.lk = IF AsIs_NoLifecycleLock THEN @ ELSE t], t, [th EXCEPT !.pc = "Rem", !.rs = Reactors, !.cur = r])
    [] th.pc = "Rem" ->
         LET S1 == CbAdd(S, th.cur, i, "R") IN
         IF rest # {} THEN SetT(S1, t, [th EXCEPT !.rs = rest, !.cur = r])
         ELSE StopFinal(S1, t)

\* which reactor choices / dial outcomes make a difference for the step of t
RChoicesAll(S, t) ==
  LET th == S.thr[t] IN
  CASE th.pc \in {"Filter", "Add", "Cleanup"} \/ (th.pc = "Start" /\ Weak_AddPeerBeforeSetAdd) -> Reactors
    [] th.pc \in {"Init", "AddPeer", "Rem"}   -> IF th.rs \ {th.cur} # {} THEN th.rs \ {th.cur} ELSE {"-"}
    [] OTHER -> {"-"}
RChoices(S, t) == IF FixedRChoice THEN {CHOOSE r \in RChoicesAll(S, t) : TRUE} ELSE RChoicesAll(S, t)
OChoices(S, t) == IF S.thr[t].pc = "Dial" THEN {"ok", "fail"} ELSE {"-"}
Steppable(S, t) ==
  /\ S.thr[t].pc \notin {"free", "idle", "done"}
  /\ S.thr[t].pc = "Sleep" => S.thr[t].tries < MaxTries
  \* repaired code: sw.peerLifecycleMtx is taken in the code that follows these gates (addPeer as a whole; the
  \* RemovePeer loop with peers.Remove); a thread is not released into a held mutex
  /\ (S.thr[t].pc \in {"Dial", "Cleanup"} /\ ~AsIs_NoLifecycleLock) => S.lk = "-"

\* ------------------------------------------------------------------------------------------ environment
\* somebody (PEX ensurePeers, DialPeersAsync, RPC dial_peers) calls DialPeerWithAddress(id) on thread t
SpawnDial(S, t, id) ==
  DialBegin(SetT([S EXCEPT !.nd = @ + 1], t, [NoThread EXCEPT !.k = "dial", !.id = id]), t)

(* a reactor (or the peer's MConnection through onPeerError) calls StopPeerForError(p, reason) / StopPeerGracefully(p)
   with a reference to an instance it got through AddPeer / Receive - possibly a stale one.
   repaired code: stopAndRemovePeer begins with peer.Stop() and returns when the peer was stopped already.      *)
SpawnStop(S, t, i, why) ==
  LET S0 == SetT([S EXCEPT !.ns = @ + 1], t, [NoThread EXCEPT !.k = "stop", !.id = S.inst[i].id, !.i = i, !.why = why,
                                                               !.tries = IF Running(S, i) THEN 0 ELSE 1]) IN   \* tries = 1: called on a stopped peer
  IF why = "err" /\ ~Running(S, i) /\ ~Weak_StaleStopGuardDropped THEN Done(S0, t, "noop")
  ELSE IF ~AsIs_StopNotExclusive
    THEN IF ~Running(S, i) THEN Done(S0, t, "noop")
         ELSE SetT(SetInst(S0, i, "sp", TRUE), t, [S0.thr[t] EXCEPT !.pc = "Cleanup"])
  ELSE SetT(S0, t, [S0.thr[t] EXCEPT !.pc = "Cleanup"])

(* transport.acceptPeers: a connection from node id arrives; filterConn (+ upgrade, not modelled: C16) runs in a
   goroutine of the transport; the result waits in acceptc for the acceptRoutine.                               *)
Incoming(S, id) ==
  LET n == Len(S.inst) + 1
      a == InAddr(n)
      S0 == [S EXCEPT !.nin = @ + 1]
  IN IF ConnRejected(S0, a, IpOf(id)) THEN S0           \* ErrRejected: acceptRoutine logs and continues
     ELSE LET S1 == NewInst([S0 EXCEPT !.conns = @ \cup {[a |-> a, ip |-> IpOf(id)]}], id, FALSE, a)
          IN [S1 EXCEPT !.pend = Append(@, n)]

InboundCount(S) ==
  Cardinality({n \in NodeIDs : S.peers[n] # 0 /\ ~S.inst[S.peers[n]].out /\ (n \notin Unconditional \/ Weak_UnconditionalCounted)})

\* acceptRoutine: Accept returns the head of acceptc; limit check; addPeer
AccTake(S) ==
  LET i == Head(S.pend)
      id == S.inst[i].id
      S1 == SetT([S EXCEPT !.pend = Tail(@)], "acc", [AccIdle EXCEPT !.pc = "taken", !.id = id, !.i = i])
      over == IF Weak_InboundLimitOffByOne THEN InboundCount(S1) > MaxInbound ELSE InboundCount(S1) >= MaxInbound
  IN IF (id \notin Unconditional \/ Weak_UnconditionalCounted) /\ over
       THEN SetT(S1, "acc", [S1.thr["acc"] EXCEPT !.pc = "CleanupL"])
       ELSE AddPeerBegin(S1, "acc", i)

\* ------------------------------------------------------------------------------------------ properties (on a state)
Insts(S) == 1..Len(S.inst)
Has(s, c) == \E k \in DOMAIN s : s[k] = c
Count(s, c) == Cardinality({k \in DOMAIN s : s[k] = c})
Pos(s, c) == CHOOSE k \in DOMAIN s : s[k] = c

CbOk(s) ==
  /\ s # << >> => s[1] = "I"
  /\ Count(s, "I") <= 1 /\ Count(s, "A") <= 1 /\ Count(s, "R") <= 1
  /\ (Has(s, "A") /\ Has(s, "R")) => Pos(s, "A") < Pos(s, "R")
CallbackOrder(S) == \A r \in Reactors : \A i \in Insts(S) : CbOk(S.cb[r][i])
CallbackStates(S) ==
  \A r \in Reactors : \A i \in Insts(S) :
    /\ Has(S.cb[r][i], "A") => S.inst[i].st
    /\ Has(S.cb[r][i], "R") => S.inst[i].sp \/ ~S.inst[i].st

Active(S, r, i) == Has(S.cb[r][i], "A") /\ ~Has(S.cb[r][i], "R")
PeerSetCoversActive(S) ==
  \A r \in Reactors : \A i \in Insts(S) : Active(S, r, i) => S.peers[S.inst[i].id] = i
SetMembersStarted(S) == \A n \in NodeIDs : S.peers[n] # 0 => S.inst[S.peers[n]].st

InAdd(S, t)  == S.thr[t].pc \in {"Dial", "dmark", "Filter", "Init", "Start", "Add", "AddPeer", "CleanupF", "CleanupL", "taken"}
InStop(S, t) == S.thr[t].pc \in {"Cleanup", "Rem"}
AtRest(S) ==
  /\ \A t \in Tids : S.thr[t].pc \in {"free", "idle", "done", "Sleep"}
  /\ S.pend = << >>
NoZombieAtRest(S) == AtRest(S) => \A n \in NodeIDs : S.peers[n] # 0 => Running(S, S.peers[n])

OneDialPerID(S) ==
  \A t1, t2 \in DialTids \cup RecTids :
     (t1 # t2 /\ S.thr[t1].pc \in {"Dial", "Filter", "Init", "Start", "Add", "AddPeer", "CleanupF"}
              /\ S.thr[t2].pc \in {"Dial", "Filter", "Init", "Start", "Add", "AddPeer", "CleanupF"})
        => S.thr[t1].id # S.thr[t2].id
OneReconnectLoop(S) ==
  \A t1, t2 \in RecTids : (t1 # t2 /\ S.thr[t1].pc \notin {"free", "rcheck", "rmark"} /\ S.thr[t2].pc \notin {"free", "rcheck", "rmark"})
                             => S.thr[t1].id # S.thr[t2].id
NoOrphanMarks(S) ==
  /\ \A n \in S.dialing : \E t \in DialTids \cup RecTids : S.thr[t].id = n /\ InAdd(S, t)
  /\ \A n \in S.reconn : \E t \in RecTids : S.thr[t].id = n /\ S.thr[t].pc \notin {"free", "rcheck", "rmark"}

Holder(S, i) == \/ \E k \in DOMAIN S.pend : S.pend[k] = i
                \/ S.peers[S.inst[i].id] = i
                \/ \E t \in Tids : S.thr[t].i = i /\ (InAdd(S, t) \/ InStop(S, t))
ConnsCovered(S) == \A c \in S.conns : \E i \in Insts(S) : S.inst[i].addr = c.a /\ Holder(S, i)
ConnsAtRest(S) ==
  AtRest(S) => {c.a : c \in S.conns} = {S.inst[S.peers[n]].addr : n \in {m \in NodeIDs : S.peers[m] # 0}}
\* a live connection - a running member of the PeerSet, an instance in the hands of addPeer, a pending one - that
\* nobody is stopping has its conns entry (the duplicate-IP filter sees it; its address cannot be connected twice)
Live(S, i) ==
  /\ ~S.inst[i].sp
  /\ ~\E t \in Tids : S.thr[t].i = i /\ InStop(S, t)
  /\ \/ S.peers[S.inst[i].id] = i /\ Running(S, i)
     \/ \E t \in Tids : S.thr[t].i = i /\ S.thr[t].pc \in {"Filter", "Init", "Start", "Add", "AddPeer"}
     \/ \E k \in DOMAIN S.pend : S.pend[k] = i
MembersHaveConn(S) == \A i \in Insts(S) : Live(S, i) => \E c \in S.conns : c.a = S.inst[i].addr
InboundLimit(S) ==
  Cardinality({n \in NodeIDs : S.peers[n] # 0 /\ ~S.inst[S.peers[n]].out /\ n \notin Unconditional}) <= MaxInbound
UnconditionalExempt(S) == S.thr["acc"].pc = "CleanupL" => S.thr["acc"].id \notin Unconditional

\* safety face of Redial: when everything is at rest no persistent peer that was stopped for error is left without
\* a dial attempt made / witnessed or a reconnect loop that will make one
RedialAtRest(S) ==
  AtRest(S) => \A n \in Persistent : S.redial[n] \/ \E t \in RecTids : S.thr[t].id = n /\ S.thr[t].pc = "Sleep"

\* StopPeerForError on a peer that is not running does nothing ("if !peer.IsRunning() return")
StaleErrStopIsNoop(S) ==
  \A t \in StopTids : (S.thr[t].why = "err" /\ S.thr[t].tries = 1) => S.thr[t].pc \notin {"Cleanup", "Rem"}

PropNames == <<"StaleErrStopIsNoop", "RedialAtRest", "CallbackOrder", "CallbackStates", "PeerSetCoversActive", "SetMembersStarted", "NoZombieAtRest", "OneDialPerID",
               "OneReconnectLoop", "NoOrphanMarks", "ConnsCovered", "ConnsAtRest", "MembersHaveConn", "InboundLimit",
               "UnconditionalExempt">>
Holds(S, p) ==
  CASE p = "StaleErrStopIsNoop" -> StaleErrStopIsNoop(S) [] p = "RedialAtRest" -> RedialAtRest(S) [] p = "CallbackOrder" -> CallbackOrder(S) [] p = "CallbackStates" -> CallbackStates(S)
    [] p = "PeerSetCoversActive" -> PeerSetCoversActive(S) [] p = "SetMembersStarted" -> SetMembersStarted(S)
    [] p = "NoZombieAtRest" -> NoZombieAtRest(S) [] p = "OneDialPerID" -> OneDialPerID(S)
    [] p = "OneReconnectLoop" -> OneReconnectLoop(S) [] p = "NoOrphanMarks" -> NoOrphanMarks(S)
    [] p = "ConnsCovered" -> ConnsCovered(S) [] p = "ConnsAtRest" -> ConnsAtRest(S)
    [] p = "MembersHaveConn" -> MembersHaveConn(S) [] p = "InboundLimit" -> InboundLimit(S)
    [] p = "UnconditionalExempt" -> UnconditionalExempt(S)
Failing(S) == {p \in {PropNames[k] : k \in DOMAIN PropNames} : ~Holds(S, p)}
=============================================================================
