---------------------------- MODULE TMAddrBookPex ----------------------------
(* The PEX reactor's request/response discipline (p2p/pex/pex_reactor.go: Receive, receiveRequest,
   RequestAddrs, ReceiveAddrs, AddPeer, RemovePeer, seed mode) against scripted - possibly hostile -
   peers.  Second module of the auxiliary check PEX; design level (TLC), see lib/props/pex.py for
   what is bound to the real code.

   Contract ('Preventing abuse', doc comment of pex.Reactor):
     'Only accept pexAddrsMsg from peers we sent a corresponding pexRequestMsg too.
      Only accept one pexRequestMsg every ~defaultEnsurePeersPeriod.'
   Properties
     OneOutstanding   we never have two unanswered PexRequests out to the same peer
     SolicitedOnly    addresses enter the book only from a PexAddrs that answers our request; a peer
                      that sends an unsolicited PexAddrs is disconnected and marked bad
     RateLimited      per connection a peer gets at most 2 + (elapsed since its second request)/MinInterval
                      answers (receiveRequest gives the first two requests a free pass, then enforces
                      ensurePeersPeriod/3); a request that comes too soon gets the peer disconnected and
                      marked bad, and is not answered
     SeedOnce         in seed mode an inbound peer is answered once and disconnected
     CleanOnRemove    RemovePeer forgets both maps (a reconnecting peer starts afresh)            *)
EXTENDS Integers, FiniteSets, TLC

CONSTANTS Peers, MaxNow, MinInterval, SeedMode,
          Weak_NoRateLimit, Weak_AcceptUnsolicited, Weak_RequestAlways, Weak_SeedAnswersEveryRequest,
          Weak_RemoveKeepsState, Weak_NoFreePassTracking

None == -2
Zero == -1
VARIABLES conn,      \* peer -> "none" | "in" | "out"
          reqSent,   \* requestsSent: peers we have an unanswered request out to
          lastRecv,  \* lastReceivedRequests: peer -> None (absent) | Zero (time.Time{}) | time >= 0
          bad,       \* peers marked bad (book.MarkBad)
          now,
          \* ghosts
          outReq,    \* peer -> number of our requests in flight / unanswered on this connection
          answers,   \* peer -> number of PexAddrs we sent on this connection
          second,    \* peer -> time of its second accepted request on this connection (-1: none yet)
          learnedFrom, \* peers whose PexAddrs were put into the book
          act
vars == <<conn, reqSent, lastRecv, bad, now, outReq, answers, second, learnedFrom, act>>

Init == /\ conn = [p \in Peers |-> "none"] /\ reqSent = {} /\ lastRecv = [p \in Peers |-> None]
        /\ bad = {} /\ now = 0 /\ outReq = [p \in Peers |-> 0] /\ answers = [p \in Peers |-> 0]
        /\ second = [p \in Peers |-> -1] /\ learnedFrom = {} /\ act = [name |-> "Init", p |-> "none", ok |-> TRUE]

Forget(p) == /\ reqSent' = IF Weak_RemoveKeepsState THEN reqSent ELSE reqSent \ {p}      \* RemovePeer
             /\ lastRecv' = IF Weak_RemoveKeepsState THEN lastRecv ELSE [lastRecv EXCEPT ![p] = None]
             /\ outReq' = [outReq EXCEPT ![p] = 0] /\ answers' = [answers EXCEPT ![p] = 0]
             /\ second' = [second EXCEPT ![p] = -1]

\* Switch.StopPeerForError -> RemovePeer; book.MarkBad
Punish(p) == /\ conn' = [conn EXCEPT ![p] = "none"] /\ bad' = bad \cup {p} /\ Forget(p)

Connect(p, dir) == /\ conn[p] = "none"
                   /\ conn' = [conn EXCEPT ![p] = dir]
                   /\ UNCHANGED <<reqSent, lastRecv, bad, now, outReq, answers, second, learnedFrom>>
                   /\ act' = [name |-> "Connect", p |-> p, ok |-> TRUE]
Disconnect(p) == /\ conn[p] # "none"
                 /\ conn' = [conn EXCEPT ![p] = "none"] /\ Forget(p)
                 /\ UNCHANGED <<bad, now, learnedFrom>>
                 /\ act' = [name |-> "Disconnect", p |-> p, ok |-> TRUE]

\* RequestAddrs(p) (AddPeer for outbound peers, ensurePeers, crawlPeers)
RequestAddrs(p) == /\ conn[p] # "none"
                   /\ IF p \in reqSent /\ ~Weak_RequestAlways
                      THEN UNCHANGED <<reqSent, outReq>>
                      ELSE reqSent' = reqSent \cup {p} /\ outReq' = [outReq EXCEPT ![p] = @ + 1]
                   /\ UNCHANGED <<conn, lastRecv, bad, now, answers, second, learnedFrom>>
                   /\ act' = [name |-> "RequestAddrs", p |-> p, ok |-> TRUE]

\* Receive(PexRequest) from p
RecvRequest(p) ==
  /\ conn[p] # "none"
  /\ IF SeedMode /\ conn[p] = "in"
     THEN \* answer once with GetSelectionWithBias and disconnect (FlushStop + StopPeerGracefully)
          IF lastRecv[p] # None /\ ~Weak_SeedAnswersEveryRequest
          THEN UNCHANGED <<conn, reqSent, lastRecv, bad, outReq, answers, second>> /\ act' = [name |-> "RecvRequest", p |-> p, ok |-> FALSE]
          ELSE /\ answers' = [answers EXCEPT ![p] = @ + 1]
               /\ lastRecv' = [lastRecv EXCEPT ![p] = now]
               /\ UNCHANGED <<conn, reqSent, bad, outReq, second>>       \* the disconnect is the SeedHangUp step
               /\ act' = [name |-> "RecvRequest", p |-> p, ok |-> TRUE]
     ELSE LET lr == lastRecv[p]
              tooSoon == lr \notin {None, Zero} /\ now - lr < MinInterval /\ ~Weak_NoRateLimit
          IN IF tooSoon
             THEN Punish(p) /\ act' = [name |-> "RecvRequest", p |-> p, ok |-> FALSE]
             ELSE /\ lastRecv' = [lastRecv EXCEPT ![p] = IF lr = None /\ ~Weak_NoFreePassTracking THEN Zero ELSE now]
                  /\ answers' = [answers EXCEPT ![p] = @ + 1]            \* SendAddrs(GetSelection())
                  /\ second' = [second EXCEPT ![p] = IF lr = Zero \/ (lr = None /\ Weak_NoFreePassTracking) THEN now ELSE @]
                  /\ UNCHANGED <<conn, reqSent, bad, outReq>>
                  /\ act' = [name |-> "RecvRequest", p |-> p, ok |-> TRUE]
  /\ UNCHANGED <<now, learnedFrom>>

\* the goroutine started by the seed after its single answer
SeedHangUp(p) == /\ SeedMode /\ conn[p] = "in" /\ answers[p] > 0
                 /\ conn' = [conn EXCEPT ![p] = "none"] /\ Forget(p)
                 /\ UNCHANGED <<bad, now, learnedFrom>>
                 /\ act' = [name |-> "SeedHangUp", p |-> p, ok |-> TRUE]

\* Receive(PexAddrs) from p -> ReceiveAddrs
RecvAddrs(p) ==
  /\ conn[p] # "none"
  /\ IF p \in reqSent \/ Weak_AcceptUnsolicited
     THEN /\ reqSent' = reqSent \ {p} /\ outReq' = [outReq EXCEPT ![p] = IF @ > 0 THEN @ - 1 ELSE 0]
          /\ learnedFrom' = learnedFrom \cup {p}
          /\ UNCHANGED <<conn, lastRecv, bad, answers, second>>
          /\ act' = [name |-> "RecvAddrs", p |-> p, ok |-> TRUE]
     ELSE /\ Punish(p) /\ UNCHANGED learnedFrom                          \* ErrUnsolicitedList
          /\ act' = [name |-> "RecvAddrs", p |-> p, ok |-> FALSE]
  /\ UNCHANGED now

Tick == /\ now < MaxNow /\ now' = now + 1
        /\ UNCHANGED <<conn, reqSent, lastRecv, bad, outReq, answers, second, learnedFrom>>
        /\ act' = [name |-> "Tick", p |-> "none", ok |-> TRUE]

Next == \/ \E p \in Peers : \/ Connect(p, "in") \/ Connect(p, "out") \/ Disconnect(p) \/ RequestAddrs(p)
                            \/ RecvRequest(p) \/ RecvAddrs(p) \/ SeedHangUp(p)
        \/ Tick

\* ------------------------------------------------------------------ properties
OneOutstanding == \A p \in Peers : outReq[p] <= 1
RateLimited == \A p \in Peers : (~SeedMode \/ conn[p] = "out") =>
                  answers[p] <= 2 + (IF second[p] >= 0 THEN (now - second[p]) \div MinInterval ELSE 0)
SeedOnce == SeedMode => \A p \in Peers : conn[p] = "in" => answers[p] <= 1
CleanWhenGone == \A p \in Peers : conn[p] = "none" => p \notin reqSent /\ lastRecv[p] = None
\* step properties
StepSolicited == act'.name = "RecvAddrs" =>
                    /\ act'.p \notin reqSent => /\ learnedFrom' = learnedFrom /\ conn'[act'.p] = "none" /\ act'.p \in bad'
                    /\ learnedFrom' # learnedFrom => act'.p \in reqSent
StepTooSoon == act'.name = "RecvRequest" /\ ~act'.ok /\ ~(SeedMode /\ conn[act'.p] = "in") =>
                    conn'[act'.p] = "none" /\ act'.p \in bad' /\ answers'[act'.p] = 0
PropSolicited == [][StepSolicited]_vars
PropTooSoon   == [][StepTooSoon]_vars
View == <<conn, reqSent, lastRecv, bad, now, outReq, answers, second, learnedFrom>>
=============================================================================
