---------------------------- MODULE TMPeerGossip ----------------------------
(* Hostile-input SEQUENCES against the consensus reactor (consensus/reactor.go): the state
   the reactor keeps about one peer (cstypes.PeerRoundState inside PeerState), the messages
   that write it, and the node's own per-peer goroutines that read it
   (gossipDataRoutine, gossipVotesRoutine, queryMaj23Routine -- started with a bare `go` in
   Reactor.AddPeer: a panic there is not inside MConnection's recover, it ends the PROCESS).

   Everything a peer can put into its PeerRoundState is written by a handful of messages, none of
   which needs a key:
     NewRoundStep            Height / Round / Step  (resets the arrays on a new height or round)
     Proposal                Proposal, ProposalBlockPartSetHeader, ProposalBlockParts := NewBitArray(Total),
                             ProposalPOLRound          (PeerState.SetHasProposal: BEFORE any signature check)
     ProposalPOL             ProposalPOL := the peer's bit array, if ProposalPOLRound matches
     NewValidBlock           ProposalBlockPartSetHeader, ProposalBlockParts := the peer's bit array
     Vote                    EnsureVoteBitArrays (allocation with the validator-set size), SetHasVote
     HasVote                 SetHasVote
     VoteSetMaj23            (node's vote set: peerMaj23; the node answers with VoteSetBits)
     VoteSetBits             votes.Sub(ourVotes).Or(msg.Votes) -> Update  /  Update(msg.Votes)

   RULE (what TMReactorAlphabet's BitArray well-formedness does NOT give): a stored peer bit array
   is well formed but may have ANY size in 1..MaxVotesCount (ProposalPOL, VoteSetBits; 1..MaxBlockPartsCount
   for NewValidBlock), unrelated to the validator-set size the node's own arrays have.  Every use of
   a stored array -- Sub, Or, Update, Not, Copy, PickRandom, SetIndex in the goroutines above and in
   ApplyVoteSetBitsMessage -- must be TOTAL over unequal sizes.  libs/bits is written that way
   (Sub/Or iterate over the smaller of the two, SetIndex/GetIndex check the index).
   Weak_BitArrayOpsAssumeEqualSize: BitArray.Sub iterates over the ARGUMENT's words (out of range when the
   argument is at least one 64-bit word longer than the receiver).

   Bit arrays are abstracted to their size in bits (contents do not decide totality); NilBA = no array. *)
EXTENDS Integers, Sequences, FiniteSets, TLC

CONSTANTS
  N,                                 \* validators (size of every bit array the node allocates itself)
  Sizes,                             \* bit-array sizes a peer uses
  MaxVotes,                          \* types.MaxVotesCount
  MaxParts,                          \* types.MaxBlockPartsCount
  Weak_BitArrayOpsAssumeEqualSize,
  Weak_LastCommitNilDeref,           \* State.addVote hands a precommit for height-1 to cs.LastCommit without looking whether
                                     \* there is one (there is none at the chain's initial height): the unrepaired tree
  Weak_SetRoundRecreatesRound        \* HeightVoteSet.SetRound adds the new top round without looking whether a peer's
                                     \* catch-up vote has created it already

\* The node, by class.  Heights are relative: NodeH stands for the node's current height; nd.abs is the
\* number it really has (1 or 5 = a chain's initial height, 2 = after one commit), which only matters for
\* "is height-2 negative".
\*   step   "newheight"  RoundStepNewHeight: waiting for the NewHeight timeout (at the initial height: until
\*                       genesis time); no proposal, no own votes, HeightVoteSet holds round 0 only
\*          "later"      in round nd.r with a complete proposal and its own prevote out; HeightVoteSet holds 0..nd.r+1
\*          "done"       the height was committed (end of the model)
\*   hasLC  cs.LastCommit present (never at the initial height: updateToState leaves it nil)
\*   rounds rounds that have vote sets in cs.Votes (incl. the ones a peer's catch-up vote created)
\*   catchup  HeightVoteSet.peerCatchupRounds of this peer (at most 2 per height)
\*   halted "CONSENSUS FAILURE!!!": receiveRoutine recovered a panic and stopped for good
NodeH == 1
NodeParts == 1
NodeClasses ==
  { [step |-> "newheight", hasLC |-> FALSE, abs |-> 1, r |-> 0, rounds |-> {0}, catchup |-> 0, halted |-> FALSE],
    [step |-> "newheight", hasLC |-> FALSE, abs |-> 5, r |-> 0, rounds |-> {0}, catchup |-> 0, halted |-> FALSE],
    [step |-> "newheight", hasLC |-> TRUE,  abs |-> 2, r |-> 0, rounds |-> {0}, catchup |-> 0, halted |-> FALSE],
    [step |-> "later",     hasLC |-> TRUE,  abs |-> 2, r |-> 0, rounds |-> {0, 1}, catchup |-> 0, halted |-> FALSE] }
HasProp(nd) == nd.step = "later"
ClassName(nd) == IF nd.step = "later" THEN "later" ELSE IF nd.hasLC THEN "nh_commit"
                 ELSE IF nd.abs = 5 THEN "nh_init5" ELSE "nh_init"

NilBA == -1
Words(n) == (n + 63) \div 64
MaxOf(a, b) == IF a > b THEN a ELSE b

\* RoundStepType
StepNewHeight == 1
StepPropose == 3
StepPrevoteWait == 5
StepPrecommitWait == 7
Prevote == 1
Precommit == 2

\* ------------------------------------------------------------------ libs/bits (sizes only)
\* each operator: [ba |-> resulting size, panic |-> BOOLEAN]
BASub(a, b) == IF a = NilBA \/ b = NilBA THEN [ba |-> NilBA, panic |-> FALSE]
               ELSE [ba |-> a, panic |-> Weak_BitArrayOpsAssumeEqualSize /\ Words(b) > Words(a)]
BAOr(a, b)  == IF a = NilBA THEN b ELSE IF b = NilBA THEN a ELSE MaxOf(a, b)      \* total
\* Update (copy of the common prefix), Not, Copy, PickRandom, SetIndex/GetIndex (index checked): total, size kept

\* ------------------------------------------------------------------ PeerRoundState
NewPRS == [h |-> 0, r |-> -1, step |-> 0, proposal |-> FALSE,
           pbpHdr |-> "none", pbp |-> NilBA,        \* ProposalBlockPartSetHeader, ProposalBlockParts
           polR |-> -1, pol |-> NilBA,              \* ProposalPOLRound, ProposalPOL
           pv |-> NilBA, pc |-> NilBA,              \* Prevotes, Precommits
           lcR |-> -1, lc |-> NilBA,                \* LastCommitRound, LastCommit
           ccR |-> -1, cc |-> NilBA]                \* CatchupCommitRound, CatchupCommit

\* PeerState.getVoteBitArray
GetVBA(p, h, r, t) ==
  IF t \notin {Prevote, Precommit} THEN NilBA
  ELSE IF p.h = h THEN
         IF p.r = r THEN (IF t = Prevote THEN p.pv ELSE p.pc)
         ELSE IF p.ccR = r THEN (IF t = Prevote THEN NilBA ELSE p.cc)
         ELSE IF p.polR = r THEN (IF t = Prevote THEN p.pol ELSE NilBA)
         ELSE NilBA
  ELSE IF p.h = h + 1 THEN (IF p.lcR = r /\ t = Precommit THEN p.lc ELSE NilBA)
  ELSE NilBA

\* PeerState.ensureVoteBitArrays(height, numValidators)
Ensure(p, h, n) ==
  IF n <= 0 THEN p
  ELSE IF p.h = h THEN [p EXCEPT !.pv = IF @ = NilBA THEN n ELSE @, !.pc = IF @ = NilBA THEN n ELSE @,
                                 !.cc = IF @ = NilBA THEN n ELSE @, !.pol = IF @ = NilBA THEN n ELSE @]
  ELSE IF p.h = h + 1 THEN [p EXCEPT !.lc = IF @ = NilBA THEN n ELSE @]
  ELSE p

\* ------------------------------------------------------------------ messages
\* one record shape for every kind: [k, h, r, s, pol, size, hdr, commit, t, idx]; h is relative (NodeH = the
\* node's height, NodeH - 1 = the height before, ...)
Msg(k, h, r, s, pol, size, hdr, commit, t, idx) ==
  [k |-> k, h |-> h, r |-> r, s |-> s, pol |-> pol, size |-> size, hdr |-> hdr, commit |-> commit, t |-> t, idx |-> idx]
NRS(h, r, s)            == Msg("NRS", h, r, s, -1, 0, "none", FALSE, 0, 0)
Proposal(r, pol, hdr, tot) == Msg("Proposal", NodeH, r, 0, pol, tot, hdr, FALSE, 0, 0)
ProposalPOL(pol, size)  == Msg("ProposalPOL", NodeH, 0, 0, pol, size, "none", FALSE, 0, 0)
NVB(r, hdr, size, c)    == Msg("NVB", NodeH, r, 0, -1, size, hdr, c, 0, 0)
HasVote(r, t, idx)      == Msg("HasVote", NodeH, r, 0, -1, 0, "none", FALSE, t, idx)
\* sig: "junk" = 64 arbitrary bytes under a validator's address; "nonval" = a VALID signature of a key that is
\* not in the validator set (its own address in the vote)
Vote(h, r, t, idx, sig) == Msg("Vote", h, r, 0, -1, 0, sig, FALSE, t, idx)
Maj23(r, t)             == Msg("Maj23", NodeH, r, 0, -1, 0, "node", FALSE, t, 0)
VSBits(r, t, hdr, size) == Msg("VSBits", NodeH, r, 0, -1, size, hdr, FALSE, t, 0)

MaxInt32 == 2147483647
\* the number the relative height h really is
Abs(nd, h) == nd.abs + h - NodeH

\* ValidateBasic / ValidateHeight of the message: FALSE = the peer is stopped
Valid(nd, m) ==
  CASE m.k = "NRS"         -> m.h >= NodeH /\ m.r >= 0 /\ m.s \in 1..8
    [] m.k = "Proposal"    -> m.r >= 0 /\ m.pol >= -1 /\ m.size >= 1 /\ m.size <= MaxParts
    [] m.k = "ProposalPOL" -> m.pol >= 0 /\ m.size >= 1 /\ m.size <= MaxVotes
    [] m.k = "NVB"         -> m.r >= 0 /\ m.size >= 1 /\ m.size <= MaxParts
    [] m.k = "HasVote"     -> m.r >= 0 /\ m.idx >= 0 /\ m.t \in {Prevote, Precommit}
    \* types.Vote.ValidateBasic: only NEGATIVE heights / rounds / indexes are refused (height 0 is accepted)
    [] m.k = "Vote"        -> Abs(nd, m.h) >= 0 /\ m.r >= 0 /\ m.idx >= 0 /\ m.t \in {Prevote, Precommit}
    [] m.k = "Maj23"       -> m.r >= 0 /\ m.t \in {Prevote, Precommit}
    [] m.k = "VSBits"      -> m.size >= 0 /\ m.size <= MaxVotes /\ m.t \in {Prevote, Precommit}

CompareHRS(h1, r1, s1, h2, r2, s2) ==
  IF h1 < h2 THEN -1 ELSE IF h1 > h2 THEN 1 ELSE IF r1 < r2 THEN -1 ELSE IF r1 > r2 THEN 1
  ELSE IF s1 < s2 THEN -1 ELSE IF s1 > s2 THEN 1 ELSE 0

\* PeerState.ApplyNewRoundStepMessage (in the order of the code: the arrays are cleared first, so
\* "shift Precommits to LastCommit" shifts what is left after the clearing / the catch-up restore)
ApplyNRS(nd, p, m) ==
  IF CompareHRS(m.h, m.r, m.s, p.h, p.r, p.step) <= 0 THEN p
  ELSE LET lcr == IF Abs(nd, m.h) <= (IF nd.hasLC THEN nd.abs - 1 ELSE nd.abs) THEN -1 ELSE 0
           p1 == [p EXCEPT !.h = m.h, !.r = m.r, !.step = m.s]
           p2 == IF p.h # m.h \/ p.r # m.r
                 THEN [p1 EXCEPT !.proposal = FALSE, !.pbpHdr = "none", !.pbp = NilBA, !.polR = -1, !.pol = NilBA,
                                 !.pv = NilBA, !.pc = NilBA]
                 ELSE p1
           p3 == IF p.h = m.h /\ p.r # m.r /\ m.r = p.ccR THEN [p2 EXCEPT !.pc = p.cc] ELSE p2
           p4 == IF p.h # m.h
                 THEN [p3 EXCEPT !.lcR = lcr, !.lc = IF p.h + 1 = m.h /\ p.r = lcr THEN p3.pc ELSE NilBA,
                                 !.ccR = -1, !.cc = NilBA]
                 ELSE p3
       IN p4

\* PeerState.SetHasProposal
ApplyProposal(p, m) ==
  IF p.h # m.h \/ p.r # m.r \/ p.proposal THEN p
  ELSE IF p.pbp # NilBA THEN [p EXCEPT !.proposal = TRUE]
  ELSE [p EXCEPT !.proposal = TRUE, !.pbpHdr = m.hdr, !.pbp = m.size, !.polR = m.pol, !.pol = NilBA]

\* PeerState.ApplyProposalPOLMessage
ApplyPOL(p, m) == IF p.h # m.h \/ p.polR # m.pol THEN p ELSE [p EXCEPT !.pol = m.size]

\* PeerState.ApplyNewValidBlockMessage
ApplyNVB(p, m) ==
  IF p.h # m.h \/ (p.r # m.r /\ ~m.commit) THEN p ELSE [p EXCEPT !.pbpHdr = m.hdr, !.pbp = m.size]

\* the votes of the node for BlockID `hdr` in (round, type): VoteSet.BitArrayByBlockID
OurVotes(nd, m) == IF HasProp(nd) /\ m.hdr = "node" /\ m.r = nd.r /\ m.t = Prevote THEN N ELSE NilBA

\* consensus.State.addVote for a vote the reactor queued (handleMsg in receiveRoutine, under its recover):
\* [nd |-> node', halt |-> the state machine panicked: "CONSENSUS FAILURE!!!"]
\* The signature and the validator are looked at only inside VoteSet.AddVote, i.e. AFTER the set was chosen
\* and, for an unknown round of the current height, AFTER HeightVoteSet created the round for the peer.
HandleVote(nd, m) ==
  IF m.h + 1 = NodeH /\ m.t = Precommit THEN
       IF nd.step # "newheight" THEN [nd |-> nd, halt |-> FALSE]                 \* late precommit: ignored
       ELSE IF ~nd.hasLC THEN [nd |-> nd, halt |-> Weak_LastCommitNilDeref]       \* no LastCommit: ignored (repaired)
       ELSE [nd |-> nd, halt |-> FALSE]                                          \* LastCommit.AddVote: refused (signature)
  ELSE IF m.h # NodeH THEN [nd |-> nd, halt |-> FALSE]                           \* other height: ignored
  ELSE IF m.r \in nd.rounds THEN [nd |-> nd, halt |-> FALSE]                     \* VoteSet.AddVote: refused (signature)
  ELSE IF nd.catchup < 2
       THEN [nd |-> [nd EXCEPT !.rounds = @ \cup {m.r}, !.catchup = @ + 1], halt |-> FALSE]   \* catch-up round created
       ELSE [nd |-> nd, halt |-> FALSE]                                          \* ErrGotVoteFromUnwantedRound

\* Reactor.ReceiveEnvelope for message m:
\* [p |-> PRS', nd |-> node', stop |-> peer stopped, halt |-> consensus state machine halted]
Receive(nd, p, m) ==
  LET keep(q) == [p |-> q, nd |-> nd, stop |-> FALSE, halt |-> FALSE] IN
  IF ~Valid(nd, m) THEN [p |-> p, nd |-> nd, stop |-> TRUE, halt |-> FALSE]
  ELSE CASE m.k = "NRS"         -> keep(ApplyNRS(nd, p, m))
         [] m.k = "Proposal"    -> keep(ApplyProposal(p, m))
         [] m.k = "ProposalPOL" -> keep(ApplyPOL(p, m))
         [] m.k = "NVB"         -> keep(ApplyNVB(p, m))
         \* setHasVote: getVoteBitArray(...).SetIndex(idx): index checked, nothing changes in size
         [] m.k = "HasVote"     -> keep(p)
         \* EnsureVoteBitArrays(height, valSize); EnsureVoteBitArrays(height-1, LastCommit.Size()); SetHasVote; queue
         [] m.k = "Vote"        ->
              LET q == Ensure(Ensure(p, NodeH, N), NodeH - 1, IF nd.hasLC THEN N ELSE 0)
                  hv == HandleVote(nd, m)
              IN [p |-> q, nd |-> hv.nd, stop |-> FALSE, halt |-> hv.halt]
         [] m.k = "Maj23"       -> keep(p)
         [] m.k = "VSBits"      ->
              LET arr == GetVBA(p, m.h, m.r, m.t)
                  ours == IF m.h = NodeH THEN OurVotes(nd, m) ELSE NilBA
              IN IF arr = NilBA \/ ours = NilBA THEN keep(p)
                 ELSE LET sb == BASub(arr, ours) IN   \* votes.Sub(ourVotes).Or(msg.Votes), votes.Update(..)
                      \* a panic here is inside recvRoutine: MConnection._recover stops the peer
                      [p |-> p, nd |-> nd, stop |-> sb.panic, halt |-> FALSE]

\* ------------------------------------------------------------------ the node's goroutines for this peer
\* gossipVotesRoutine: the PickSendVote attempts of gossipVotesForHeight in the order of the code, and the
\* "peer is one height behind" attempt.  [on, h, r, t, commit] = the node's vote set handed to PickSendVote.
VotesTries == {"lastcommit", "pol_early", "prevotes", "precommits", "prevotes_vb", "pol_late", "behind_lastcommit"}
TryTarget(nd, p, which) ==
  LET sameH == p.h = NodeH IN
  CASE which = "lastcommit" -> [on |-> sameH /\ p.step = StepNewHeight /\ nd.hasLC, h |-> NodeH - 1, r |-> 0, t |-> Precommit, commit |-> TRUE]
    [] which = "pol_early"  -> [on |-> sameH /\ p.step <= StepPropose /\ p.r # -1 /\ p.r <= nd.r /\ p.polR # -1 /\ p.polR \in nd.rounds,
                                h |-> NodeH, r |-> p.polR, t |-> Prevote, commit |-> FALSE]
    [] which = "prevotes"   -> [on |-> sameH /\ p.step <= StepPrevoteWait /\ p.r # -1 /\ p.r <= nd.r /\ p.r \in nd.rounds,
                                h |-> NodeH, r |-> p.r, t |-> Prevote, commit |-> FALSE]
    [] which = "precommits" -> [on |-> sameH /\ p.step <= StepPrecommitWait /\ p.r # -1 /\ p.r <= nd.r /\ p.r \in nd.rounds,
                                h |-> NodeH, r |-> p.r, t |-> Precommit, commit |-> FALSE]
    [] which = "prevotes_vb" -> [on |-> sameH /\ p.r # -1 /\ p.r <= nd.r /\ p.r \in nd.rounds, h |-> NodeH, r |-> p.r, t |-> Prevote, commit |-> FALSE]
    [] which = "pol_late"   -> [on |-> sameH /\ p.polR # -1 /\ p.polR \in nd.rounds, h |-> NodeH, r |-> p.polR, t |-> Prevote, commit |-> FALSE]
    [] which = "behind_lastcommit" -> [on |-> p.h # 0 /\ p.h + 1 = NodeH /\ nd.hasLC, h |-> NodeH - 1, r |-> 0, t |-> Precommit, commit |-> TRUE]
\* PeerState.ensureCatchupCommitRound
EnsureCatchup(p, h, r) ==
  IF p.h # h \/ p.ccR = r THEN p
  ELSE [p EXCEPT !.ccR = r, !.cc = IF r = p.r THEN p.pc ELSE N]
\* PeerState.PickVoteToSend(votes): ensureCatchupCommitRound (a commit), ensureVoteBitArrays, getVoteBitArray,
\* votes.BitArray().Sub(psVotes).PickRandom()
PickVote(nd, p, which) ==
  LET tg == TryTarget(nd, p, which) IN
  IF nd.step = "done" \/ ~tg.on THEN [p |-> p, panic |-> FALSE]
  ELSE LET p0 == IF tg.commit THEN EnsureCatchup(p, tg.h, tg.r) ELSE p
           p1 == Ensure(p0, tg.h, N)
           arr == GetVBA(p1, tg.h, tg.r, tg.t)
       IN [p |-> p1, panic |-> BASub(N, arr).panic]

\* gossipDataRoutine, one iteration
GossipData(nd, p) ==
  IF nd.step = "done" THEN [p |-> p, panic |-> FALSE]
  ELSE IF HasProp(nd) /\ p.pbpHdr = "node"
  THEN \* rs.ProposalBlockParts.BitArray().Sub(prs.ProposalBlockParts.Copy()).PickRandom(); SetHasProposalBlockPart
       [p |-> p, panic |-> BASub(NodeParts, p.pbp).panic]
  ELSE IF nd.hasLC /\ p.h # 0 /\ p.h < NodeH
  THEN \* catch-up: InitProposalBlockParts(stored header) or prs.ProposalBlockParts.Not().PickRandom(): total
       [p |-> IF p.pbp = NilBA THEN [p EXCEPT !.pbpHdr = "stored", !.pbp = NodeParts] ELSE p, panic |-> FALSE]
  ELSE IF p.h # NodeH \/ p.r # nd.r THEN [p |-> p, panic |-> FALSE]
  ELSE IF HasProp(nd) /\ ~p.proposal
       THEN \* sends its own Proposal (POLRound -1), then ps.SetHasProposal(rs.Proposal)
            [p |-> ApplyProposal(p, Proposal(nd.r, -1, "node", NodeParts)), panic |-> FALSE]
  ELSE [p |-> p, panic |-> FALSE]

\* ------------------------------------------------------------------ the node carries on
\* HeightVoteSet.SetRound(round): creates the rounds above hvs.round up to `round` that do not exist yet
\* (a peer's catch-up vote may have created some).  [nd, halt]
SetRound(nd, round) ==
  [nd |-> [nd EXCEPT !.rounds = @ \cup {round}], halt |-> Weak_SetRoundRecreatesRound /\ round \in nd.rounds]
\* NewHeight timeout: enterNewRound(H, 0) -> Votes.SetRound(1); proposal complete, own prevote
StartHeight(nd) == LET x == SetRound(nd, 1) IN [nd |-> [x.nd EXCEPT !.step = "later", !.r = 0], halt |-> x.halt]
\* the round fails (+2/3 any, timeouts): enterNewRound(H, r+1) -> Votes.SetRound(r+2)
NextRound(nd) == LET x == SetRound(nd, nd.r + 2) IN [nd |-> [x.nd EXCEPT !.r = nd.r + 1], halt |-> x.halt]
Commit(nd) == [nd |-> [nd EXCEPT !.step = "done"], halt |-> FALSE]

\* ------------------------------------------------------------------ the alphabet of one hostile peer
\* rounds r-1 .. r+3 and a huge one (the node is in round 0 or 1), heights H-2 .. H+1
VoteRounds == {-1, 0, 1, 2, 3, MaxInt32}
VoteMsgs ==
       {Vote(h, r, t, idx, "junk") : h \in {NodeH - 2, NodeH - 1, NodeH, NodeH + 1}, r \in VoteRounds,
                                     t \in {Prevote, Precommit}, idx \in {-1, 1, N, MaxInt32}}
  \cup {Vote(h, r, t, 1, "nonval") : h \in {NodeH - 2, NodeH - 1, NodeH, NodeH + 1}, r \in VoteRounds, t \in {Prevote, Precommit}}
HostileMsgs ==
       {NRS(h, r, s) : h \in {NodeH, NodeH + 1}, r \in {0, 1}, s \in {1, 3, 6, 8}}
  \cup {Proposal(r, pol, "foreign", tot) : r \in {0, 1}, pol \in {-1, 0}, tot \in (Sizes \cap 1..MaxParts)}
  \cup {Proposal(r, pol, "node", NodeParts) : r \in {0, 1}, pol \in {-1, 0}}
  \cup {ProposalPOL(pol, size) : pol \in {0, 1}, size \in Sizes}
  \cup {NVB(r, "foreign", size, c) : r \in {0, 1}, size \in Sizes, c \in BOOLEAN}
  \cup {NVB(r, "node", NodeParts, c) : r \in {0, 1}, c \in BOOLEAN}
  \cup {HasVote(r, t, idx) : r \in {0, 1}, t \in {Prevote, Precommit}, idx \in {0, N, MaxInt32}}
  \cup VoteMsgs
  \cup {Maj23(r, t) : r \in {0, 1}, t \in {Prevote, Precommit}}
  \cup {VSBits(r, t, hdr, size) : r \in {0, 1}, t \in {Prevote, Precommit}, hdr \in {"node", "foreign"}, size \in Sizes}

\* ------------------------------------------------------------------ targeted sequences
\* (1) every message that carries a bit array, in every size, after every state-setting prefix that makes the
\*     reactor look at it; node in a later step with its proposal and prevote out
LaterClass == CHOOSE nd \in NodeClasses : nd.step = "later"
SetupPrefixes ==
  { << >>,
    <<NRS(NodeH, 0, StepPropose)>>,
    <<NRS(NodeH, 1, StepPropose)>>,
    <<NRS(NodeH, 1, StepNewHeight)>>,
    <<NRS(NodeH, 0, StepPropose), Proposal(0, 0, "foreign", N)>>,
    <<NRS(NodeH, 1, StepPropose), Proposal(1, 0, "foreign", N)>>,
    <<NRS(NodeH, 1, StepPropose), Proposal(1, 0, "node", NodeParts)>>,
    <<NRS(NodeH, 0, StepPropose), Vote(NodeH, 0, Prevote, 1, "junk")>>,
    <<NRS(NodeH, 0, StepPropose), Maj23(0, Prevote)>>,
    <<NRS(NodeH, 0, StepPropose), HasVote(0, Prevote, 1)>>,
    <<NRS(NodeH, 1, StepPropose), Proposal(1, 0, "foreign", N), Maj23(0, Prevote)>>,
    <<NRS(NodeH, 1, StepPropose), Proposal(1, 0, "foreign", N), Vote(NodeH, 0, Prevote, 1, "junk")>> }
BitArrayMsgs ==
       {ProposalPOL(0, size) : size \in Sizes}
  \cup {NVB(r, "foreign", size, c) : r \in {0, 1}, size \in Sizes, c \in BOOLEAN}
  \cup {NVB(0, "node", NodeParts, FALSE)}
  \cup {VSBits(r, t, hdr, size) : r \in {0, 1}, t \in {Prevote, Precommit}, hdr \in {"node", "foreign"}, size \in Sizes}
\* (2) every vote class (height H-2 .. H+1, rounds up to r+2 and huge, both types, index classes) in every node
\*     class; at a chain's initial height a fresh node per sequence, hence the smaller index set there
VoteTargets(nd) ==
  IF nd.hasLC THEN {<<v>> : v \in VoteMsgs} \cup {<<NRS(NodeH, 0, StepNewHeight), v>> : v \in VoteMsgs}
  ELSE IF nd.abs = 1 THEN {<<v>> : v \in {w \in VoteMsgs : w.idx = 1}}
  ELSE {<<v>> : v \in {w \in VoteMsgs : w.idx = 1 /\ w.hdr = "junk" /\ w.h < NodeH /\ w.r \in {0, 2}}}
\* a targeted case: the node class the sequence is fed in, and the sequence
TargetedSeqs ==
       {[nd |-> LaterClass, sq |-> Append(pre, m)] : pre \in SetupPrefixes, m \in BitArrayMsgs}
  \cup UNION {{[nd |-> nd, sq |-> s] : s \in VoteTargets(nd)} : nd \in NodeClasses}

\* every goroutine step after a message (the goroutines loop all the time)
GossipAll(nd, p) ==
  LET d  == GossipData(nd, p)
      RECURSIVE Tries(_, _)
      Tries(q, ws) == IF ws = {} THEN [p |-> q, panic |-> FALSE]
                      ELSE LET w == CHOOSE x \in ws : TRUE
                               a == PickVote(nd, q, w)
                               b == Tries(a.p, ws \ {w})
                           IN [p |-> b.p, panic |-> a.panic \/ b.panic]
      v  == Tries(d.p, VotesTries)
  IN [p |-> v.p, panic |-> d.panic \/ v.panic]
\* feed a whole sequence in node class nd: [nd, p, crash, halt, stopAt]
RECURSIVE FeedSeq(_, _, _)
FeedSeq(nd, p, sq) ==
  IF sq = << >> THEN [nd |-> nd, p |-> p, crash |-> FALSE, halt |-> FALSE]
  ELSE LET x == Receive(nd, p, Head(sq)) IN
       IF x.stop \/ x.halt THEN [nd |-> x.nd, p |-> x.p, crash |-> FALSE, halt |-> x.halt]
       ELSE LET g == GossipAll(x.nd, x.p) IN
            IF g.panic THEN [nd |-> x.nd, p |-> g.p, crash |-> TRUE, halt |-> FALSE]
            ELSE FeedSeq(x.nd, g.p, Tail(sq))
\* ... and then the node carries on: (start the height,) two failed rounds (r -> r+1 -> r+2), one committed
\* height; the goroutines keep running on what the sequence left in the peer state
CarryOn(nd, p) ==
  LET a == IF nd.step = "newheight" THEN StartHeight(nd) ELSE [nd |-> nd, halt |-> FALSE]
      g1 == GossipAll(a.nd, p)
      b == NextRound(a.nd)
      g2 == GossipAll(b.nd, g1.p)
      c == NextRound(b.nd)
      g3 == GossipAll(c.nd, g2.p)
  IN [crash |-> g1.panic \/ g2.panic \/ g3.panic, halt |-> a.halt \/ b.halt \/ c.halt]
\* [crash |-> a goroutine panicked (the process dies), halt |-> consensus halted (the node is wedged)]
RunCase(c) ==
  LET f == FeedSeq(c.nd, NewPRS, c.sq)
      o == IF f.crash \/ f.halt THEN [crash |-> FALSE, halt |-> FALSE] ELSE CarryOn(f.nd, f.p)
  IN [crash |-> f.crash \/ o.crash, halt |-> f.halt \/ o.halt]

StoredBounded(p) ==
  /\ p.pol \in {NilBA} \cup 1..MaxVotes
  /\ p.pbp \in {NilBA} \cup 1..MaxParts
  /\ \A f \in {p.pv, p.pc, p.cc, p.lc} : f \in {NilBA, N}
=============================================================================
