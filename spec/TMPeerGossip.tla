---------------------------- MODULE TMPeerGossip ----------------------------
(* Hostile-input SEQUENCES against the consensus reactor (consensus/reactor.go): the state
   the reactor keeps about one peer (cstypes.PeerRoundState inside PeerState), the messages
   that write it, and the node's own per-peer goroutines that read it
   (gossipDataRoutine, gossipVotesRoutine, queryMaj23Routine -- started with a bare `go` in
   Reactor.AddPeer: a panic there is not inside MConnection's recover, it ends the PROCESS).

   Everything a peer can put into its PeerRoundState is written by a handful of messages, none of
   which needs a key:
     NewRoundStep            Height / Round / Step  (resets the arrays on a new height or round)
     Proposal                Proposal, ProposalBlockPartSetHeader, ProposalBlockParts := NewBitArray(Total),
                             ProposalPOLRound          (PeerState.SetHasProposal: BEFORE any signature check)
     ProposalPOL             ProposalPOL := the peer's bit array, if ProposalPOLRound matches
     NewValidBlock           ProposalBlockPartSetHeader, ProposalBlockParts := the peer's bit array
     Vote                    EnsureVoteBitArrays (allocation with the validator-set size), SetHasVote
     HasVote                 SetHasVote
     VoteSetMaj23            (node's vote set: peerMaj23; the node answers with VoteSetBits)
     VoteSetBits             votes.Sub(ourVotes).Or(msg.Votes) -> Update  /  Update(msg.Votes)

   RULE (what TMReactorAlphabet's BitArray well-formedness does NOT give): a stored peer bit array
   is well formed but may have ANY size in 1..MaxVotesCount (ProposalPOL, VoteSetBits; 1..MaxBlockPartsCount
   for NewValidBlock), unrelated to the validator-set size the node's own arrays have.  Every use of
   a stored array -- Sub, Or, Update, Not, Copy, PickRandom, SetIndex in the goroutines above and in
   ApplyVoteSetBitsMessage -- must be TOTAL over unequal sizes.  libs/bits is written that way
   (Sub/Or iterate over the smaller of the two, SetIndex/GetIndex check the index).
   Weak_BitArrayOpsAssumeEqualSize: BitArray.Sub iterates over the ARGUMENT's words (out of range when the
   argument is at least one 64-bit word longer than the receiver).

   Bit arrays are abstracted to their size in bits (contents do not decide totality); NilBA = no array. *)
EXTENDS Integers, Sequences, FiniteSets, TLC

CONSTANTS
  N,                                 \* validators (size of every bit array the node allocates itself)
  Sizes,                             \* bit-array sizes a peer uses
  MaxVotes,                          \* types.MaxVotesCount
  MaxParts,                          \* types.MaxBlockPartsCount
  Weak_BitArrayOpsAssumeEqualSize

\* the node: height 1, round 0, step Prevote, its own complete proposal (NodeParts parts) and its own prevote
\* for it in round 0; HeightVoteSet holds rounds 0 and 1; nothing stored yet (blockStore.Base() = 0)
NodeH == 1
NodeR == 0
NodeParts == 1
NodeRounds == {0, 1}

NilBA == -1
Words(n) == (n + 63) \div 64
MaxOf(a, b) == IF a > b THEN a ELSE b

\* RoundStepType
StepNewHeight == 1
StepPropose == 3
StepPrevoteWait == 5
StepPrecommitWait == 7
Prevote == 1
Precommit == 2

\* ------------------------------------------------------------------ libs/bits (sizes only)
\* each operator: [ba |-> resulting size, panic |-> BOOLEAN]
BASub(a, b) == IF a = NilBA \/ b = NilBA THEN [ba |-> NilBA, panic |-> FALSE]
               ELSE [ba |-> a, panic |-> Weak_BitArrayOpsAssumeEqualSize /\ Words(b) > Words(a)]
BAOr(a, b)  == IF a = NilBA THEN b ELSE IF b = NilBA THEN a ELSE MaxOf(a, b)      \* total
\* Update (copy of the common prefix), Not, Copy, PickRandom, SetIndex/GetIndex (index checked): total, size kept

\* ------------------------------------------------------------------ PeerRoundState
NewPRS == [h |-> 0, r |-> -1, step |-> 0, proposal |-> FALSE,
           pbpHdr |-> "none", pbp |-> NilBA,        \* ProposalBlockPartSetHeader, ProposalBlockParts
           polR |-> -1, pol |-> NilBA,              \* ProposalPOLRound, ProposalPOL
           pv |-> NilBA, pc |-> NilBA,              \* Prevotes, Precommits
           lcR |-> -1, lc |-> NilBA,                \* LastCommitRound, LastCommit
           ccR |-> -1, cc |-> NilBA]                \* CatchupCommitRound, CatchupCommit

\* PeerState.getVoteBitArray
GetVBA(p, h, r, t) ==
  IF t \notin {Prevote, Precommit} THEN NilBA
  ELSE IF p.h = h THEN
         IF p.r = r THEN (IF t = Prevote THEN p.pv ELSE p.pc)
         ELSE IF p.ccR = r THEN (IF t = Prevote THEN NilBA ELSE p.cc)
         ELSE IF p.polR = r THEN (IF t = Prevote THEN p.pol ELSE NilBA)
         ELSE NilBA
  ELSE IF p.h = h + 1 THEN (IF p.lcR = r /\ t = Precommit THEN p.lc ELSE NilBA)
  ELSE NilBA

\* PeerState.ensureVoteBitArrays(height, numValidators)
Ensure(p, h, n) ==
  IF n <= 0 THEN p
  ELSE IF p.h = h THEN [p EXCEPT !.pv = IF @ = NilBA THEN n ELSE @, !.pc = IF @ = NilBA THEN n ELSE @,
                                 !.cc = IF @ = NilBA THEN n ELSE @, !.pol = IF @ = NilBA THEN n ELSE @]
  ELSE IF p.h = h + 1 THEN [p EXCEPT !.lc = IF @ = NilBA THEN n ELSE @]
  ELSE p

\* ------------------------------------------------------------------ messages
\* one record shape for every kind: [k, h, r, s, pol, size, hdr, commit, t, idx]
Msg(k, h, r, s, pol, size, hdr, commit, t, idx) ==
  [k |-> k, h |-> h, r |-> r, s |-> s, pol |-> pol, size |-> size, hdr |-> hdr, commit |-> commit, t |-> t, idx |-> idx]
NRS(h, r, s)            == Msg("NRS", h, r, s, -1, 0, "none", FALSE, 0, 0)
Proposal(r, pol, hdr, tot) == Msg("Proposal", NodeH, r, 0, pol, tot, hdr, FALSE, 0, 0)
ProposalPOL(pol, size)  == Msg("ProposalPOL", NodeH, 0, 0, pol, size, "none", FALSE, 0, 0)
NVB(r, hdr, size, c)    == Msg("NVB", NodeH, r, 0, -1, size, hdr, c, 0, 0)
HasVote(r, t, idx)      == Msg("HasVote", NodeH, r, 0, -1, 0, "none", FALSE, t, idx)
Vote(r, t, idx)         == Msg("Vote", NodeH, r, 0, -1, 0, "none", FALSE, t, idx)
Maj23(r, t)             == Msg("Maj23", NodeH, r, 0, -1, 0, "node", FALSE, t, 0)
VSBits(r, t, hdr, size) == Msg("VSBits", NodeH, r, 0, -1, size, hdr, FALSE, t, 0)

\* ValidateBasic / ValidateHeight of the message: FALSE = the peer is stopped
Valid(m) ==
  CASE m.k = "NRS"         -> m.h >= 1 /\ m.r >= 0 /\ m.s \in 1..8
    [] m.k = "Proposal"    -> m.r >= 0 /\ m.pol >= -1 /\ m.size >= 1 /\ m.size <= MaxParts
    [] m.k = "ProposalPOL" -> m.pol >= 0 /\ m.size >= 1 /\ m.size <= MaxVotes
    [] m.k = "NVB"         -> m.r >= 0 /\ m.size >= 1 /\ m.size <= MaxParts
    [] m.k = "HasVote"     -> m.r >= 0 /\ m.idx >= 0 /\ m.t \in {Prevote, Precommit}
    [] m.k = "Vote"        -> m.r >= 0 /\ m.idx >= 0 /\ m.t \in {Prevote, Precommit}
    [] m.k = "Maj23"       -> m.r >= 0 /\ m.t \in {Prevote, Precommit}
    [] m.k = "VSBits"      -> m.size >= 0 /\ m.size <= MaxVotes /\ m.t \in {Prevote, Precommit}

CompareHRS(h1, r1, s1, h2, r2, s2) ==
  IF h1 < h2 THEN -1 ELSE IF h1 > h2 THEN 1 ELSE IF r1 < r2 THEN -1 ELSE IF r1 > r2 THEN 1
  ELSE IF s1 < s2 THEN -1 ELSE IF s1 > s2 THEN 1 ELSE 0

\* PeerState.ApplyNewRoundStepMessage (in the order of the code: the arrays are cleared first, so
\* "shift Precommits to LastCommit" shifts what is left after the clearing / the catch-up restore)
ApplyNRS(p, m) ==
  IF CompareHRS(m.h, m.r, m.s, p.h, p.r, p.step) <= 0 THEN p
  ELSE LET lcr == IF m.h = 1 THEN -1 ELSE 0
           p1 == [p EXCEPT !.h = m.h, !.r = m.r, !.step = m.s]
           p2 == IF p.h # m.h \/ p.r # m.r
                 THEN [p1 EXCEPT !.proposal = FALSE, !.pbpHdr = "none", !.pbp = NilBA, !.polR = -1, !.pol = NilBA,
                                 !.pv = NilBA, !.pc = NilBA]
                 ELSE p1
           p3 == IF p.h = m.h /\ p.r # m.r /\ m.r = p.ccR THEN [p2 EXCEPT !.pc = p.cc] ELSE p2
           p4 == IF p.h # m.h
                 THEN [p3 EXCEPT !.lcR = lcr, !.lc = IF p.h + 1 = m.h /\ p.r = lcr THEN p3.pc ELSE NilBA,
                                 !.ccR = -1, !.cc = NilBA]
                 ELSE p3
       IN p4

\* PeerState.SetHasProposal
ApplyProposal(p, m) ==
  IF p.h # m.h \/ p.r # m.r \/ p.proposal THEN p
  ELSE IF p.pbp # NilBA THEN [p EXCEPT !.proposal = TRUE]
  ELSE [p EXCEPT !.proposal = TRUE, !.pbpHdr = m.hdr, !.pbp = m.size, !.polR = m.pol, !.pol = NilBA]

\* PeerState.ApplyProposalPOLMessage
ApplyPOL(p, m) == IF p.h # m.h \/ p.polR # m.pol THEN p ELSE [p EXCEPT !.pol = m.size]

\* PeerState.ApplyNewValidBlockMessage
ApplyNVB(p, m) ==
  IF p.h # m.h \/ (p.r # m.r /\ ~m.commit) THEN p ELSE [p EXCEPT !.pbpHdr = m.hdr, !.pbp = m.size]

\* the votes of the node for BlockID `hdr` in (round, type): VoteSet.BitArrayByBlockID
OurVotes(m) == IF m.hdr = "node" /\ m.r = NodeR /\ m.t = Prevote THEN N ELSE NilBA

\* Reactor.ReceiveEnvelope for message m: [p |-> PRS', stop |-> peer stopped, panic |-> panic INSIDE Receive]
Receive(p, m) ==
  IF ~Valid(m) THEN [p |-> p, stop |-> TRUE, panic |-> FALSE]
  ELSE CASE m.k = "NRS"         -> [p |-> ApplyNRS(p, m), stop |-> FALSE, panic |-> FALSE]
         [] m.k = "Proposal"    -> [p |-> ApplyProposal(p, m), stop |-> FALSE, panic |-> FALSE]
         [] m.k = "ProposalPOL" -> [p |-> ApplyPOL(p, m), stop |-> FALSE, panic |-> FALSE]
         [] m.k = "NVB"         -> [p |-> ApplyNVB(p, m), stop |-> FALSE, panic |-> FALSE]
         \* setHasVote: getVoteBitArray(...).SetIndex(idx): index checked, nothing changes in size
         [] m.k = "HasVote"     -> [p |-> p, stop |-> FALSE, panic |-> FALSE]
         \* EnsureVoteBitArrays(height, valSize); EnsureVoteBitArrays(height-1, lastCommitSize = 0); SetHasVote
         [] m.k = "Vote"        -> [p |-> Ensure(p, NodeH, N), stop |-> FALSE, panic |-> FALSE]
         [] m.k = "Maj23"       -> [p |-> p, stop |-> FALSE, panic |-> FALSE]
         [] m.k = "VSBits"      ->
              LET arr == GetVBA(p, m.h, m.r, m.t)
                  ours == IF m.h = NodeH THEN OurVotes(m) ELSE NilBA
              IN IF arr = NilBA \/ ours = NilBA THEN [p |-> p, stop |-> FALSE, panic |-> FALSE]
                 ELSE LET s == BASub(arr, ours) IN   \* votes.Sub(ourVotes).Or(msg.Votes), votes.Update(..)
                      \* a panic here is inside recvRoutine: MConnection._recover stops the peer
                      [p |-> p, stop |-> s.panic, panic |-> s.panic]

\* ------------------------------------------------------------------ the node's goroutines for this peer
\* gossipVotesForHeight: the PickSendVote attempts, in the order of the code; which = the attempt.
\* [round, type] of the node's vote set handed to PickSendVote, or "skip" when the guard is false.
VotesTries == {"lastcommit", "pol_early", "prevotes", "precommits", "prevotes_vb", "pol_late"}
TryTarget(p, which) ==
  CASE which = "lastcommit" -> [on |-> FALSE, r |-> 0, t |-> Precommit]   \* rs.LastCommit is nil at height 1 (Size() = 0)
    [] which = "pol_early"  -> [on |-> p.step <= StepPropose /\ p.r # -1 /\ p.r <= NodeR /\ p.polR # -1 /\ p.polR \in NodeRounds,
                                r |-> p.polR, t |-> Prevote]
    [] which = "prevotes"   -> [on |-> p.step <= StepPrevoteWait /\ p.r # -1 /\ p.r <= NodeR, r |-> p.r, t |-> Prevote]
    [] which = "precommits" -> [on |-> p.step <= StepPrecommitWait /\ p.r # -1 /\ p.r <= NodeR, r |-> p.r, t |-> Precommit]
    [] which = "prevotes_vb" -> [on |-> p.r # -1 /\ p.r <= NodeR, r |-> p.r, t |-> Prevote]
    [] which = "pol_late"   -> [on |-> p.polR # -1 /\ p.polR \in NodeRounds, r |-> p.polR, t |-> Prevote]
\* PeerState.PickVoteToSend(votes): ensureVoteBitArrays, getVoteBitArray, votes.BitArray().Sub(psVotes).PickRandom()
PickVote(p, which) ==
  LET tg == TryTarget(p, which) IN
  IF p.h # NodeH \/ ~tg.on THEN [p |-> p, panic |-> FALSE]
  ELSE LET p1 == Ensure(p, NodeH, N)
           arr == GetVBA(p1, NodeH, tg.r, tg.t)
       IN [p |-> p1, panic |-> BASub(N, arr).panic]

\* gossipDataRoutine, one iteration
GossipData(p) ==
  IF p.pbpHdr = "node"
  THEN \* rs.ProposalBlockParts.BitArray().Sub(prs.ProposalBlockParts.Copy()).PickRandom(); SetHasProposalBlockPart
       [p |-> p, panic |-> BASub(NodeParts, p.pbp).panic]
  ELSE IF p.h # NodeH \/ p.r # NodeR THEN [p |-> p, panic |-> FALSE]      \* (no catch-up: nothing stored yet)
  ELSE IF ~p.proposal
       THEN \* sends its own Proposal (POLRound -1), then ps.SetHasProposal(rs.Proposal)
            [p |-> ApplyProposal(p, Proposal(NodeR, -1, "node", NodeParts)), panic |-> FALSE]
  ELSE [p |-> p, panic |-> FALSE]

\* ------------------------------------------------------------------ the alphabet of one hostile peer
HostileMsgs ==
       {NRS(h, r, s) : h \in {NodeH, NodeH + 1}, r \in {0, 1}, s \in {1, 3, 6, 8}}
  \cup {Proposal(r, pol, "foreign", tot) : r \in {0, 1}, pol \in {-1, 0}, tot \in (Sizes \cap 1..MaxParts)}
  \cup {Proposal(r, pol, "node", NodeParts) : r \in {0, 1}, pol \in {-1, 0}}
  \cup {ProposalPOL(pol, size) : pol \in {0, 1}, size \in Sizes}
  \cup {NVB(r, "foreign", size, c) : r \in {0, 1}, size \in Sizes, c \in BOOLEAN}
  \cup {NVB(r, "node", NodeParts, c) : r \in {0, 1}, c \in BOOLEAN}
  \cup {HasVote(r, t, idx) : r \in {0, 1}, t \in {Prevote, Precommit}, idx \in {0, N, 2147483647}}
  \cup {Vote(r, t, idx) : r \in {0, 1}, t \in {Prevote, Precommit}, idx \in {1, N}}
  \cup {Maj23(r, t) : r \in {0, 1}, t \in {Prevote, Precommit}}
  \cup {VSBits(r, t, hdr, size) : r \in {0, 1}, t \in {Prevote, Precommit}, hdr \in {"node", "foreign"}, size \in Sizes}

\* ------------------------------------------------------------------ targeted sequences
\* every message that carries a bit array, in every size, after every state-setting prefix that
\* makes the reactor look at it
SetupPrefixes ==
  { << >>,
    <<NRS(NodeH, 0, StepPropose)>>,
    <<NRS(NodeH, 1, StepPropose)>>,
    <<NRS(NodeH, 1, StepNewHeight)>>,
    <<NRS(NodeH, 0, StepPropose), Proposal(0, 0, "foreign", N)>>,
    <<NRS(NodeH, 1, StepPropose), Proposal(1, 0, "foreign", N)>>,
    <<NRS(NodeH, 1, StepPropose), Proposal(1, 0, "node", NodeParts)>>,
    <<NRS(NodeH, 0, StepPropose), Vote(0, Prevote, 1)>>,
    <<NRS(NodeH, 0, StepPropose), Maj23(0, Prevote)>>,
    <<NRS(NodeH, 0, StepPropose), HasVote(0, Prevote, 1)>>,
    <<NRS(NodeH, 1, StepPropose), Proposal(1, 0, "foreign", N), Maj23(0, Prevote)>>,
    <<NRS(NodeH, 1, StepPropose), Proposal(1, 0, "foreign", N), Vote(0, Prevote, 1)>> }
BitArrayMsgs ==
       {ProposalPOL(0, size) : size \in Sizes}
  \cup {NVB(r, "foreign", size, c) : r \in {0, 1}, size \in Sizes, c \in BOOLEAN}
  \cup {NVB(0, "node", NodeParts, FALSE)}
  \cup {VSBits(r, t, hdr, size) : r \in {0, 1}, t \in {Prevote, Precommit}, hdr \in {"node", "foreign"}, size \in Sizes}
TargetedSeqs == {Append(pre, m) : pre \in SetupPrefixes, m \in BitArrayMsgs}

\* run a whole sequence with every goroutine step after every message (the goroutines loop all the time)
GossipAll(p) ==
  LET d  == GossipData(p)
      RECURSIVE Tries(_, _)
      Tries(q, ws) == IF ws = {} THEN [p |-> q, panic |-> FALSE]
                      ELSE LET w == CHOOSE x \in ws : TRUE
                               a == PickVote(q, w)
                               b == Tries(a.p, ws \ {w})
                           IN [p |-> b.p, panic |-> a.panic \/ b.panic]
      v  == Tries(d.p, VotesTries)
  IN [p |-> v.p, panic |-> d.panic \/ v.panic]
RECURSIVE RunSeq(_, _)
\* [crash |-> a goroutine panicked, stopAt |-> index of the message that got the peer stopped, 0 = none]
RunSeq(p, sq) ==
  IF sq = << >> THEN [crash |-> FALSE, stopAt |-> 0]
  ELSE LET x == Receive(p, Head(sq)) IN
       IF x.stop THEN [crash |-> FALSE, stopAt |-> 1]
       ELSE LET g == GossipAll(x.p)
                rest == RunSeq(g.p, Tail(sq))
            IN [crash |-> g.panic \/ rest.crash,
                stopAt |-> IF g.panic THEN 0 ELSE IF rest.stopAt = 0 THEN 0 ELSE rest.stopAt + 1]

StoredBounded(p) ==
  /\ p.pol \in {NilBA} \cup 1..MaxVotes
  /\ p.pbp \in {NilBA} \cup 1..MaxParts
  /\ \A f \in {p.pv, p.pc, p.cc, p.lc} : f \in {NilBA, N}
=============================================================================
