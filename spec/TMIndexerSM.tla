----------------------------- MODULE TMIndexerSM -----------------------------
(* Committing blocks, publishing their events as state/execution.go fireEvents does, and
   the IndexerService goroutine (state/txindex/indexer_service.go) that turns them into
   index entries.

     chain   committed blocks, heights 1..Len(chain)
     bus     events published and not yet taken by the service.  The service owns two
             UNBUFFERED subscriptions (NewBlockHeader, Tx); the pub-sub loop hands events
             over in publication order and waits for the service at each one, so the two
             channels behave as ONE queue of which the service takes the head only if it
             is of the kind it is waiting for (otherwise bus and service are wedged --
             what losing a Tx event causes, see S5)
     svc     [phase "hdr" | "txs", hdr (block being collected), batch (tx results by index)]
     txdb, blkdb   the kv stores (TMIndexer)
     act     the step taken (replay drivers read it)                                   *)
EXTENDS TMIndexer

CONSTANTS BlockPool,        \* sequence: BlockPool[h] = set of candidate blocks of height h
          TxQueries,        \* set of tx search queries checked in every quiescent state
          BlockQueries,     \* set of block search queries
          Weak_TxEventLost  \* one Tx event of a block never reaches the service (what S5 did)

VARIABLES chain, bus, svc, txdb, blkdb, act
vars == <<chain, bus, svc, txdb, blkdb, act>>

NoBlock == [height |-> 0, begin |-> << >>, end |-> << >>, txs |-> << >>]
IdleSvc == [phase |-> "hdr", hdr |-> NoBlock, batch |-> << >>]

Init == /\ chain = << >> /\ bus = << >> /\ svc = IdleSvc
        /\ txdb = EmptyTxDB /\ blkdb = EmptyBlockDB /\ act = [name |-> "Init"]

TxEvents(b) == [i \in 1..Len(b.txs) |-> [t |-> "tx", b |-> NoBlock, r |-> b.txs[i]]]
NoTx == [tx |-> "", height |-> 0, index |-> 0, code |-> 0, events |-> << >>]
DropAt(s, k) == SubSeq(s, 1, k - 1) \o SubSeq(s, k + 1, Len(s))

\* BlockExecutor.ApplyBlock -> fireEvents: NewBlockHeader, then one Tx event per transaction
Commit(b) ==
  /\ Len(chain) < Len(BlockPool) /\ b \in BlockPool[Len(chain) + 1]
  /\ chain' = Append(chain, b)
  /\ \E lost \in (IF Weak_TxEventLost THEN 0..Len(b.txs) ELSE {0}) :
        bus' = bus \o <<[t |-> "hdr", b |-> b, r |-> NoTx]>>
                   \o (IF lost = 0 THEN TxEvents(b) ELSE DropAt(TxEvents(b), lost))
  /\ act' = [name |-> "Commit", b |-> b]
  /\ UNCHANGED <<svc, txdb, blkdb>>

\* indexing of a complete batch: blockIdxr.Index(header) then txIdxr.AddBatch(batch)
Flush(hdr, batch) == /\ blkdb' = BlockIndex(blkdb, hdr)
                     /\ txdb' = TxAddBatch(txdb, batch)

\* `msg := <-blockHeadersSub.Out()`
SvcHeader ==
  /\ svc.phase = "hdr" /\ bus # << >> /\ Head(bus).t = "hdr"
  /\ LET b == Head(bus).b IN
       IF Len(b.txs) = 0
       THEN svc' = IdleSvc /\ Flush(b, << >>)
       ELSE svc' = [phase |-> "txs", hdr |-> b, batch |-> << >>] /\ UNCHANGED <<txdb, blkdb>>
  /\ bus' = Tail(bus)
  /\ act' = [name |-> "SvcHeader"]
  /\ UNCHANGED chain

\* `msg2 := <-txsSub.Out()`; batch.Add puts the result at Ops[result.Index] (the model keeps
\* arrival order: with every event delivered once and in order the two coincide)
SvcTx ==
  /\ svc.phase = "txs" /\ bus # << >> /\ Head(bus).t = "tx"
  /\ LET batch == Append(svc.batch, Head(bus).r) IN
       IF Len(batch) = Len(svc.hdr.txs)
       THEN svc' = IdleSvc /\ Flush(svc.hdr, batch)
       ELSE svc' = [svc EXCEPT !.batch = batch] /\ UNCHANGED <<txdb, blkdb>>
  /\ bus' = Tail(bus)
  /\ act' = [name |-> "SvcTx"]
  /\ UNCHANGED chain

Next == (\E h \in 1..Len(BlockPool) : \E b \in BlockPool[h] : Commit(b)) \/ SvcHeader \/ SvcTx
Spec == Init /\ [][Next]_vars

\* ------------------------------------------------------------------ properties
Quiescent == bus = << >> /\ svc.phase = "hdr"
Wedged == bus # << >> /\ ~ENABLED (SvcHeader \/ SvcTx)
AllTxs == UNION {SeqToSet(chain[h].txs) : h \in 1..Len(chain)}

\* every committed transaction and block is indexed once under its height, position and events
IndexOnce == Quiescent => /\ \A r \in AllTxs : TxIndexedOnce(txdb, r)
                          /\ \A h \in 1..Len(chain) : BlockIndexedOnce(blkdb, chain[h])
                          /\ blkdb.prim = 1..Len(chain)
                          /\ {p.h : p \in txdb.prim} = {HashOf(r.tx) : r \in AllTxs}
NeverWedged == ~Wedged

TxDisagree(q)    == LET got == {[tx |-> p.tx, height |-> p.height, index |-> p.index] : p \in TxSearch(txdb, q)}
                        want == {[tx |-> r.tx, height |-> r.height, index |-> r.index] : r \in TxBrute(AllTxs, q)}
                    IN {r \in AllTxs : ([tx |-> r.tx, height |-> r.height, index |-> r.index] \in got)
                                        # ([tx |-> r.tx, height |-> r.height, index |-> r.index] \in want)}
BlockDisagree(q) == LET got == BlockSearch(blkdb, q)
                        want == BlockBrute(SeqToSet(chain), q)
                    IN {b \in SeqToSet(chain) : (b.height \in got) # (b.height \in want)}

\* SearchExact, as the statement has it (refuted: S14, S17) ...
TxSearchExact    == Quiescent => \A q \in TxQueries : TxDisagree(q) = {}
BlockSearchExact == Quiescent => \A q \in BlockQueries : BlockDisagree(q) = {}
\* ... and up to the recorded reasons: any OTHER disagreement is a defect of the model or the code
TxSearchExactUpToKnown ==
  Quiescent => \A q \in TxQueries : \A r \in TxDisagree(q) : Cause("tx", q, TxEventsOf(r), FALSE) # "none"
BlockSearchExactUpToKnown ==
  Quiescent => \A q \in BlockQueries : \A b \in BlockDisagree(q) : Cause("block", q, BlockEventsOf(b), FALSE) # "none"
\* Search never invents items
SearchSound == /\ \A q \in TxQueries : \A p \in TxSearch(txdb, q) : \E r \in AllTxs : PrimOf(r) = p
               /\ \A q \in BlockQueries : BlockSearch(blkdb, q) \subseteq 1..Len(chain)

IdxView == <<chain, bus, svc, txdb, blkdb>>
=============================================================================
