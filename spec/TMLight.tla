------------------------------- MODULE TMLight -------------------------------
(* The light client of tendermint v0.34: light/verifier.go (Verify, VerifyAdjacent,
   VerifyNonAdjacent, verifyNewHeaderAndVals, VerifyBackwards), light/client.go
   (NewClient / initializeWithTrustOptions, VerifyLightBlockAtHeight, Update, verifyLightBlock,
   verifySequential, verifySkipping with its 9/16 pivot rule and block cache,
   verifySkippingAgainstPrimary, backwards, lightBlockFromPrimary, findNewPrimary,
   removeWitnesses) and light/detector.go (detectDivergence, compareNewHeaderWithWitness,
   getTargetBlockOrLatest, handleConflictingHeaders, examineConflictingHeaderAgainstTrace),
   with the two commit checks of types/validator_set.go it relies on.

   This module has no variables: everything is an operator over values so that the design
   state machine (TMLightClient.tla), the verifier case set (mc/C09_cases.tla) and the
   trace specification (trace/TMLightTrace.tla) evaluate the SAME definitions.

   VALUES
     validator set  : sequence of [v |-> name, p |-> power] in the order of
                      types.ValidatorSet.Validators (power desc, address asc)
     light block    : [id, hid, h, t, vh, nvh, vsh, vals, sigs, last, wf, hwf]
        id   names the LightBlock (header + commit + supplied validator set)
        hid  names the header hash (two light blocks with the same header but different
             commits have the same hid: LightBlock.Hash() is the header hash)
        vh/nvh  Header.ValidatorsHash / NextValidatorsHash (names of validator-set hashes)
        vsh  hash of the SUPPLIED LightBlock.ValidatorSet,  vals  its content
        sigs Commit.Signatures: sequence of [v |-> name, f |-> "commit"|"nil"|"absent",
             ok |-> signature verifies under v's key]
        last Header.LastBlockID.Hash as a header-hash name, wf = SignedHeader.ValidateBasic
             passes, hwf = Header.ValidateBasic passes and the chain id is right
     scenario sc    : [blocks |-> id :> block, prov |-> name :> table, cfg |-> [...]]
        table       : sequence indexed by height+1 (index 1 = "latest", height 0) of
                      sequences of responses; the k-th request for that height gets the
                      k-th element (the last one repeats).  A response is a block id or
                      one of "NotFound" "NoResponse" "TooHigh" "BadBlock".
        cfg         : [period, drift, num, den, mode, rollback]  (trusting period, max clock
                      drift, trust level num/den, mode "skip" | "seq", findNewPrimary rolls
                      a promotion back when no witness would be left)
     client cl      : [store |-> set of block ids, latest |-> id, primary |-> name,
                       wits |-> sequence of names]
     execution x    : [cl, cnt (request counters), reqs (requests of this call, in the
                       order the specification makes them), ev (evidence reports), ph]
     schedule sched : a sequence of orders (sequences of witness names), one per fan-out of
                      the call -- the order in which concurrent witness replies are
                      consumed (detector.go detectDivergence, client.go findNewPrimary,
                      compareFirstHeaderWithWitnesses).  THE nondeterministic choice of the
                      component.                                                          *)
EXTENDS Integers, Sequences, FiniteSets, TLC

CONSTANTS
  Weak_SkipTrustLevel,            \* VerifyNonAdjacent does not call VerifyCommitLightTrusting
  Weak_AdjacentIgnoresNextVals,   \* VerifyAdjacent does not compare ValidatorsHash with trusted.NextValidatorsHash
  Weak_NoExpiry,                  \* HeaderExpired never true
  Weak_FutureHeaderOK,            \* no "header from the future" check
  Weak_TrustLevelOnNewSet,        \* trust level tallied on the new block's set instead of the trusted one
  Weak_MismatchAlsoCountsAsMatch, \* S2: compareNewHeaderWithWitness sends nil after errConflictingHeaders
  Weak_NoWitnessNeeded,           \* detectDivergence returns nil when no witness matched
  Weak_BackwardsUnbound,          \* backwards() never compares the verified chain's end with the target header
  Weak_ReplacementHashUnchecked,  \* after replacing the primary its block is not compared with the target header
  Weak_DivergentHeaderExaminedOncePerRun, \* detectDivergence examines a divergent header only for the first witness reporting it
  Weak_LaggingWitnessEqualTimeBenign, \* a lagging witness whose head has EXACTLY the primary header's time is "behind", not conflicting
  Weak_PartialTraceOnBenignError, \* verifySkipping returns the partial trace (not nil) when the next pivot cannot be fetched
  Weak_PromotedWitnessStays       \* findNewPrimary leaves the promoted provider in the witness list when
                                  \* removing it would empty the list (shipped behaviour; scenario flag cfg.rollback)

Nil == "nil"
Benign == {"NotFound", "NoResponse", "TooHigh"}       \* client.go: provider errors that keep the provider
ErrKinds == Benign \cup {"BadBlock"}

Range(s) == {s[i] : i \in DOMAIN s}
Min2(a, b) == IF a < b THEN a ELSE b

RECURSIVE SumP(_)
SumP(vals) == IF vals = << >> THEN 0 ELSE Head(vals).p + SumP(Tail(vals))

IndexOf(vals, v) == IF \E i \in DOMAIN vals : vals[i].v = v
                    THEN CHOOSE i \in DOMAIN vals : vals[i].v = v ELSE 0

\* ------------------------------------------------------------------ types/validator_set.go
\* VerifyCommitLight(chainID, blockID, height, commit): 1-to-1 correspondence of the
\* set and the signatures, signatures checked in order, EARLY EXIT once > 2/3 tallied.
RECURSIVE VCLScan(_, _, _, _, _)
VCLScan(vals, sigs, i, tally, need) ==
  IF i > Len(sigs) THEN "power"
  ELSE LET s == sigs[i] IN
       IF s.f # "commit" THEN VCLScan(vals, sigs, i + 1, tally, need)
       ELSE IF ~(s.ok /\ s.v = vals[i].v) THEN "badsig"
       ELSE IF tally + vals[i].p > need THEN "ok"
       ELSE VCLScan(vals, sigs, i + 1, tally + vals[i].p, need)

VerifyCommitLight(vals, sigs) ==
  IF Len(vals) # Len(sigs) THEN "size"
  ELSE VCLScan(vals, sigs, 1, 0, (SumP(vals) * 2) \div 3)

\* VerifyCommitLightTrusting(chainID, commit, trustLevel): validators looked up by address,
\* double votes rejected, early exit once > total*num/den tallied.
RECURSIVE VCLTScan(_, _, _, _, _, _)
VCLTScan(tvals, sigs, i, tally, need, seen) ==
  IF i > Len(sigs) THEN "power"
  ELSE LET s == sigs[i]
           k == IndexOf(tvals, s.v) IN
       IF s.f # "commit" \/ k = 0 THEN VCLTScan(tvals, sigs, i + 1, tally, need, seen)
       ELSE IF k \in seen THEN "double"
       ELSE IF ~s.ok THEN "badsig"
       ELSE IF tally + tvals[k].p > need THEN "ok"
       ELSE VCLTScan(tvals, sigs, i + 1, tally + tvals[k].p, need, seen \cup {k})

VerifyCommitLightTrusting(tvals, sigs, num, den) ==
  VCLTScan(tvals, sigs, 1, 0, (SumP(tvals) * num) \div den, {})

\* ------------------------------------------------------------------ light/verifier.go
HeaderExpired(tb, now, cfg) == ~Weak_NoExpiry /\ ~(tb.t + cfg.period > now)

\* verifyNewHeaderAndVals, in the code's order
NewHeaderAndValsOK(tb, nb, now, cfg) ==
  /\ nb.wf                                                \* untrustedHeader.ValidateBasic(chainID)
  /\ nb.h > tb.h
  /\ nb.t > tb.t                                          \* Time.After
  /\ (Weak_FutureHeaderOK \/ nb.t < now + cfg.drift)      \* Time.Before(now.Add(maxClockDrift))
  /\ nb.vh = nb.vsh                                       \* ValidatorsHash = untrustedVals.Hash()

\* result classes: "ok" | "expired" (ErrOldHeaderExpired) | "invalid" (ErrInvalidHeader)
\* | "cantTrust" (ErrNewValSetCantBeTrusted) | "nextvals" | "other" (plain errors)
VerifyNonAdjacent(tb, nb, now, cfg) ==
  IF nb.h = tb.h + 1 THEN "other"
  ELSE IF HeaderExpired(tb, now, cfg) THEN "expired"
  ELSE IF ~NewHeaderAndValsOK(tb, nb, now, cfg) THEN "invalid"
  ELSE LET tv == IF Weak_TrustLevelOnNewSet THEN nb.vals ELSE tb.vals
           tr == IF Weak_SkipTrustLevel THEN "ok"
                 ELSE VerifyCommitLightTrusting(tv, nb.sigs, cfg.num, cfg.den) IN
       IF tr = "power" THEN "cantTrust"
       ELSE IF tr # "ok" THEN "other"
       ELSE IF VerifyCommitLight(nb.vals, nb.sigs) # "ok" THEN "invalid"
       ELSE "ok"

VerifyAdjacent(tb, nb, now, cfg) ==
  IF nb.h # tb.h + 1 THEN "other"
  ELSE IF HeaderExpired(tb, now, cfg) THEN "expired"
  ELSE IF ~NewHeaderAndValsOK(tb, nb, now, cfg) THEN "invalid"
  ELSE IF ~Weak_AdjacentIgnoresNextVals /\ nb.vh # tb.nvh THEN "nextvals"
  ELSE IF VerifyCommitLight(nb.vals, nb.sigs) # "ok" THEN "invalid"
  ELSE "ok"

Verify(tb, nb, now, cfg) ==
  IF nb.h # tb.h + 1 THEN VerifyNonAdjacent(tb, nb, now, cfg) ELSE VerifyAdjacent(tb, nb, now, cfg)

\* VerifyBackwards(untrustedHeader, trustedHeader)
VerifyBackwards(ib, tb) == ib.hwf /\ ib.t < tb.t /\ ib.hid = tb.last

\* ------------------------------------------------------------------ the property's step relation
\* Written as the STATEMENT of C09 puts it (not as the code computes it): well formed,
\* later in height and time, not from the future, > 2/3 of its own validator set signed,
\* adjacent => matching next-validator hash, otherwise >= trust level of the previous
\* trusted set signed; all within the trusting period.
OwnSigned(b) ==
  LET n == Min2(Len(b.vals), Len(b.sigs))
      good == {i \in 1..n : b.sigs[i].f = "commit" /\ b.sigs[i].ok /\ b.sigs[i].v = b.vals[i].v}
      F[k \in 0..n] == IF k = 0 THEN 0 ELSE F[k - 1] + (IF k \in good THEN b.vals[k].p ELSE 0)
  IN F[n]

SignedOf(tvals, sigs) ==
  LET n == Len(tvals)
      good == {k \in 1..n : \E i \in DOMAIN sigs : sigs[i].v = tvals[k].v /\ sigs[i].f = "commit" /\ sigs[i].ok}
      F[k \in 0..n] == IF k = 0 THEN 0 ELSE F[k - 1] + (IF k \in good THEN tvals[k].p ELSE 0)
  IN F[n]

ValidStep(tb, nb, now, cfg) ==
  /\ nb.wf
  /\ nb.h > tb.h
  /\ nb.t > tb.t
  /\ nb.t < now + cfg.drift
  /\ nb.vh = nb.vsh
  /\ Len(nb.sigs) = Len(nb.vals)
  /\ 3 * OwnSigned(nb) > 2 * SumP(nb.vals)
  /\ IF nb.h = tb.h + 1 THEN nb.vh = tb.nvh
     ELSE cfg.den * SignedOf(tb.vals, nb.sigs) >= cfg.num * SumP(tb.vals)
  /\ tb.t + cfg.period > now

\* the backwards step of client.go backwards(): an older header whose hash is the
\* trusted header's LastBlockID (a named extension of "valid verification step")
BackStep(tb, ob) == ob.hwf /\ ob.h < tb.h /\ ob.t < tb.t /\ ob.hid = tb.last

\* ------------------------------------------------------------------ providers
B(sc, id) == sc.blocks[id]
IsBlk(sc, r) == r \in DOMAIN sc.blocks

\* light/provider/http LightBlock (and provider/mock): a block failing
\* LightBlock.ValidateBasic is answered with ErrBadLightBlock
Filter(sc, r) == IF IsBlk(sc, r) /\ ~(B(sc, r).wf /\ B(sc, r).vh = B(sc, r).vsh) THEN "BadBlock" ELSE r

\* one request: returns [x, r]
Ask(sc, x, p, h) ==
  LET tab == sc.prov[p]
      k   == x.cnt[p][h + 1] + 1
      row == IF h + 1 \in DOMAIN tab THEN tab[h + 1] ELSE <<"TooHigh">>
      r   == Filter(sc, IF row = << >> THEN "NotFound" ELSE row[Min2(k, Len(row))]) IN
  [x |-> [x EXCEPT !.cnt[p][h + 1] = k, !.reqs = Append(@, [p |-> p, h |-> h, r |-> r, ph |-> x.ph])],
   r |-> r]

\* order in which the replies of the witnesses `wits` are consumed under schedule sched:
\* names of sched that are current witnesses (first occurrence), then the others
RECURSIVE Dedup(_, _)
Dedup(s, seen) == IF s = << >> THEN << >>
                  ELSE IF Head(s) \in seen THEN Dedup(Tail(s), seen)
                  ELSE <<Head(s)>> \o Dedup(Tail(s), seen \cup {Head(s)})
FanOrder(perm, wits) ==
  LET a == Dedup(SelectSeq(perm, LAMBDA n : n \in Range(wits)), {})
      b == Dedup(SelectSeq(wits, LAMBDA n : n \notin Range(a)), {}) IN a \o b
\* a schedule is a sequence of such orders, one per fan-out of the call (the last repeats);
\* x.fan counts the fan-outs made so far
Bump(x) == [x EXCEPT !.fan = @ + 1]
OrderAt(sched, x, wits) ==
  IF sched = << >> THEN wits ELSE FanOrder(sched[Min2(IF x.fan < 1 THEN 1 ELSE x.fan, Len(sched))], wits)

\* client.go removeWitnesses: descending index order, swap with last
RECURSIVE RemoveDesc(_, _)
RemoveDesc(w, idxs) ==
  IF idxs = << >> THEN w
  ELSE LET i == Head(idxs)
           n == Len(w) IN
       RemoveDesc([j \in 1..(n - 1) |-> IF j = i THEN w[n] ELSE w[j]], Tail(idxs))
RECURSIVE SortDesc(_)
SortDesc(S) == IF S = {} THEN << >> ELSE LET m == CHOOSE a \in S : \A b \in S : b <= a IN <<m>> \o SortDesc(S \ {m})
\* [ok, wits]
RemoveWitnesses(wits, idxset) ==
  IF Len(wits) <= Cardinality(idxset) THEN [ok |-> FALSE, wits |-> wits]
  ELSE [ok |-> TRUE, wits |-> RemoveDesc(wits, SortDesc(idxset))]

\* ------------------------------------------------------------------ client.go findNewPrimary
\* Every witness gets the request (one goroutine each); responses are processed in the
\* schedule's order; the first good one wins.  [x, err, b]
RECURSIVE AskAll(_, _, _, _, _, _)
AskAll(sc, x, names, h, i, acc) ==
  IF i > Len(names) THEN [x |-> x, rs |-> acc]
  ELSE LET a == Ask(sc, x, names[i], h) IN AskAll(sc, a.x, names, h, i + 1, Append(acc, a.r))

RECURSIVE FNPLoop(_, _, _, _, _, _, _, _)
FNPLoop(sc, x, rs, order, i, toRemove, lastErr, remove) ==
  LET wits == x.cl.wits IN
  IF i > Len(order) THEN
       LET rm == RemoveWitnesses(wits, toRemove) IN           \* failure only logged
       [x |-> [x EXCEPT !.cl.wits = rm.wits], err |-> lastErr, b |-> Nil]
  ELSE LET idx == IndexOf([j \in DOMAIN wits |-> [v |-> wits[j]]], order[i])
           r   == rs[idx] IN
       IF IsBlk(sc, r) THEN
            LET w2  == IF remove THEN wits ELSE Append(wits, x.cl.primary)
                rm  == RemoveWitnesses(w2, toRemove \cup {idx})
                x2  == [x EXCEPT !.cl.primary = wits[idx], !.cl.wits = rm.wits] IN
            IF rm.ok THEN [x |-> x2, err |-> Nil, b |-> r]
            \* removeWitnesses refuses to empty the list.  As shipped, c.primary has already
            \* been overwritten: the provider is now primary AND the only witness, and confirms
            \* its own headers from then on.  Repaired (cfg.rollback): the lists stay as they were.
            ELSE IF sc.cfg.rollback THEN [x |-> x, err |-> "NoWitnesses", b |-> Nil]
            ELSE [x |-> x2, err |-> "NoWitnesses", b |-> Nil]
       ELSE IF r \in Benign THEN FNPLoop(sc, x, rs, order, i + 1, toRemove, r, remove)
       ELSE FNPLoop(sc, x, rs, order, i + 1, toRemove \cup {idx}, r, remove)

FindNewPrimary(sc, x, h, remove, sched) ==
  IF Len(x.cl.wits) = 0 THEN [x |-> x, err |-> "NoWitnesses", b |-> Nil]
  ELSE LET a == AskAll(sc, Bump(x), x.cl.wits, h, 1, << >>) IN
       FNPLoop(sc, a.x, a.rs, OrderAt(sched, a.x, x.cl.wits), 1, {}, Nil, remove)

\* client.go lightBlockFromPrimary  [x, err, b]
LightBlockFromPrimary(sc, x, h, sched) ==
  LET a == Ask(sc, x, x.cl.primary, h) IN
  IF IsBlk(sc, a.r) THEN [x |-> a.x, err |-> Nil, b |-> a.r]
  ELSE FindNewPrimary(sc, a.x, h, a.r \notin Benign, sched)

\* ------------------------------------------------------------------ client.go verifySkipping
\* blockCache is 0-based in the code; cache[depth + 1] here.  The pivot is appended to
\* the cache TWICE (client.go:754 and :765) -- modelled as the code does it (S16): every
\* pivot that cannot be trusted is verified a second time before the next pivot is fetched.
\* [x, err, tr, to]   err: "nil" | "cantTrust" (raw ErrNewValSetCantBeTrusted) | "VF:<reason>"
RECURSIVE VSLoop(_, _, _, _, _, _, _, _)
VSLoop(sc, x, src, verified, cache, depth, trace, now) ==
  LET cur == cache[depth + 1]
      v   == Verify(B(sc, verified), B(sc, cur), now, sc.cfg) IN
  IF v = "ok" THEN
       IF depth = 0 THEN [x |-> x, err |-> Nil, tr |-> Append(trace, cache[1]), to |-> 0]
       ELSE VSLoop(sc, x, src, cur, SubSeq(cache, 1, depth), 0, Append(trace, cur), now)
  ELSE IF v = "cantTrust" THEN
       IF depth = Len(cache) - 1 THEN
            LET pivot == B(sc, verified).h + ((B(sc, cur).h - B(sc, verified).h) * 9) \div 16
                a     == Ask(sc, x, src, pivot) IN
            IF IsBlk(sc, a.r) THEN VSLoop(sc, a.x, src, verified, cache \o <<a.r, a.r>>, depth + 1, trace, now)
            \* `return nil, err`: the bare ErrNewValSetCantBeTrusted AND a nil trace.  The nil trace
            \* is load-bearing: verifySkippingAgainstPrimary mistakes this error for success (below)
            \* and only detectDivergence's "nil or single block primary trace" check stops it.
            ELSE IF a.r \in Benign THEN [x |-> a.x, err |-> "cantTrust",
                                         tr |-> IF Weak_PartialTraceOnBenignError THEN trace ELSE << >>, to |-> 0]
            ELSE [x |-> a.x, err |-> "VF:" \o a.r, tr |-> << >>, to |-> pivot]
       ELSE VSLoop(sc, x, src, verified, cache, depth + 1, trace, now)
  ELSE [x |-> x, err |-> "VF:" \o v, tr |-> << >>, to |-> B(sc, cur).h]

VerifySkipping(sc, x, src, trusted, new, now) == VSLoop(sc, x, src, trusted, <<new>>, 0, <<trusted>>, now)

\* ------------------------------------------------------------------ light/detector.go
Reply(k, b, w) == [k |-> k, b |-> b, w |-> w]

\* getTargetBlockOrLatest  [x, err, isT, b]
GetTargetOrLatest(sc, x, w, h) ==
  LET a == Ask(sc, x, w, 0) IN
  IF ~IsBlk(sc, a.r) THEN [x |-> a.x, err |-> a.r, isT |-> FALSE, b |-> Nil]
  ELSE IF B(sc, a.r).h = h THEN [x |-> a.x, err |-> Nil, isT |-> TRUE, b |-> a.r]
  ELSE IF B(sc, a.r).h > h THEN
       LET a2 == Ask(sc, a.x, w, h) IN
       IF IsBlk(sc, a2.r) THEN [x |-> a2.x, err |-> Nil, isT |-> TRUE, b |-> a2.r]
       ELSE [x |-> a2.x, err |-> a2.r, isT |-> TRUE, b |-> Nil]
  ELSE [x |-> a.x, err |-> Nil, isT |-> FALSE, b |-> a.r]

\* the comparison at the end of compareNewHeaderWithWitness.  As shipped the function sends
\* errConflictingHeaders and then FALLS THROUGH to `errc <- nil` (S2); the specification
\* models the repaired function, the shipped behaviour is Weak_MismatchAlsoCountsAsMatch.
HashCompare(sc, T, b, w) ==
  IF B(sc, b).hid = B(sc, T).hid THEN <<Reply("match", b, w)>>
  ELSE IF Weak_MismatchAlsoCountsAsMatch THEN <<Reply("conflict", b, w), Reply("match", b, w)>>
  ELSE <<Reply("conflict", b, w)>>

\* compareNewHeaderWithWitness: the sequence of values this witness' goroutine sends  [x, rep]
\* The witness' head is BELOW the primary's header height.  Block time strictly increases with
\* height, so a lower block that is NOT EARLIER in time than the primary's header conflicts with
\* it: `!lightBlock.Time.Before(h.Time)` -- equal times included.  (strict = the statement's
\* reading, used for the ghost set of backing witnesses whatever the weak switches say.)
LagConflict(strict, wt, ht) ==
  IF ~strict /\ Weak_LaggingWitnessEqualTimeBenign THEN wt > ht ELSE ~(wt < ht)

CompareWithWitness(sc, x, w, T, strict) ==
  LET th == B(sc, T).h
      a  == Ask(sc, x, w, th) IN
  IF IsBlk(sc, a.r) THEN [x |-> a.x, rep |-> HashCompare(sc, T, a.r, w)]
  ELSE IF a.r \in {"NoResponse", "NotFound"} THEN [x |-> a.x, rep |-> <<Reply("benign", Nil, w)>>]
  ELSE IF a.r = "TooHigh" THEN
       LET g1 == GetTargetOrLatest(sc, a.x, w, th) IN
       IF g1.err # Nil THEN [x |-> g1.x, rep |-> <<Reply("benign", Nil, w)>>]   \* raw provider error
       ELSE IF g1.isT THEN [x |-> g1.x, rep |-> HashCompare(sc, T, g1.b, w)]
       ELSE IF LagConflict(strict, B(sc, g1.b).t, B(sc, T).t) THEN [x |-> g1.x, rep |-> <<Reply("conflict", g1.b, w)>>]
       ELSE \* time.Sleep(2*maxClockDrift + maxBlockLag), then once more
            LET g2 == GetTargetOrLatest(sc, g1.x, w, th) IN
            IF g2.err # Nil THEN [x |-> g2.x, rep |-> <<Reply("bad", Nil, w)>>]  \* errBadWitness
            ELSE IF g2.isT THEN [x |-> g2.x, rep |-> HashCompare(sc, T, g2.b, w)]
            ELSE IF LagConflict(strict, B(sc, g2.b).t, B(sc, T).t) THEN [x |-> g2.x, rep |-> <<Reply("conflict", g2.b, w)>>]
            ELSE [x |-> g2.x, rep |-> <<Reply("benign", Nil, w)>>]               \* provider.ErrNoResponse
  ELSE [x |-> a.x, rep |-> <<Reply("bad", Nil, w)>>]                            \* errBadWitness

\* examineConflictingHeaderAgainstTrace  [x, err, tr, b]
ExRes(x, err, tr, b) == [x |-> x, err |-> err, tr |-> tr, b |-> b]
RECURSIVE ExLoop(_, _, _, _, _, _, _, _, _)
ExLoop(sc, x, trace, T, src, now, idx, prev, strace) ==
  IF idx > Len(trace) THEN ExRes(x, "nodivergence", << >>, Nil)
  ELSE LET tb == trace[idx] IN
    IF B(sc, tb).h > B(sc, T).h THEN                        \* forward lunatic attack
         IF B(sc, tb).t > B(sc, T).t THEN ExRes(x, "sanity", << >>, Nil)
         ELSE IF B(sc, prev).h # B(sc, T).h THEN
              LET v == VerifySkipping(sc, x, src, prev, T, now) IN
              IF v.err # Nil THEN ExRes(v.x, "verify", << >>, Nil) ELSE ExRes(v.x, Nil, v.tr, tb)
         ELSE ExRes(x, Nil, strace, tb)
    ELSE
      LET a == IF B(sc, tb).h = B(sc, T).h THEN [x |-> x, r |-> T] ELSE Ask(sc, x, src, B(sc, tb).h) IN
      IF ~IsBlk(sc, a.r) THEN ExRes(a.x, "fetch", << >>, Nil)
      ELSE IF idx = 1 THEN
           IF B(sc, a.r).hid # B(sc, tb).hid THEN ExRes(a.x, "firstdiffers", << >>, Nil)
           ELSE ExLoop(sc, a.x, trace, T, src, now, idx + 1, a.r, strace)
      ELSE LET v == VerifySkipping(sc, a.x, src, prev, a.r, now) IN
           IF v.err # Nil THEN ExRes(v.x, "verify", << >>, Nil)
           ELSE IF B(sc, a.r).hid # B(sc, tb).hid THEN ExRes(v.x, Nil, v.tr, tb)   \* bifurcation point
           ELSE ExLoop(sc, v.x, trace, T, src, now, idx + 1, a.r, v.tr)

Examine(sc, x, trace, T, src, now) ==
  IF B(sc, T).h < B(sc, trace[1]).h THEN ExRes(x, "toolow", << >>, Nil)
  ELSE ExLoop(sc, x, trace, T, src, now, 1, Nil, << >>)

\* newLightClientAttackEvidence: lunatic (the conflicting header could not have been
\* produced by the trusted state) => common height, else the trusted block's height
Lunatic(cb, tb) == cb.vh # tb.vh \/ cb.nvh # tb.nvh
Evidence(sc, to, conflicted, trusted, common) ==
  [to |-> to, conf |-> conflicted,
   common |-> IF Lunatic(B(sc, conflicted), B(sc, trusted)) THEN B(sc, common).h ELSE B(sc, trusted).h]

\* handleConflictingHeaders  [x, attack]
HandleConflict(sc, x, ptrace, wb, w, now) ==
  LET e1 == Examine(sc, x, ptrace, wb, w, now) IN
  IF e1.err # Nil THEN [x |-> e1.x, attack |-> FALSE]
  ELSE
    LET wtrace == e1.tr
        pblock == e1.b
        x1 == [e1.x EXCEPT !.ev = Append(@, Evidence(sc, w, pblock, wtrace[Len(wtrace)], wtrace[1]))]
        e2 == Examine(sc, x1, wtrace, pblock, x1.cl.primary, now) IN
    IF e2.err # Nil THEN [x |-> e2.x, attack |-> TRUE]
    ELSE [x |-> [e2.x EXCEPT !.ev = Append(@, Evidence(sc, e2.x.cl.primary, e2.b, e2.tr[Len(e2.tr)], e2.tr[1]))],
          attack |-> TRUE]

\* the values in the channel, in the order they are received: the witnesses' reply
\* sequences concatenated in the schedule's order
RECURSIVE Channel(_, _)
Channel(order, rep) == IF order = << >> THEN << >> ELSE rep[Head(order)] \o Channel(Tail(order), rep)

RECURSIVE CompareAll(_, _, _, _, _, _, _)
CompareAll(sc, x, wits, T, i, acc, strict) ==
  IF i > Len(wits) THEN [x |-> x, rep |-> acc]
  ELSE LET c == CompareWithWitness(sc, x, wits[i], T, strict) IN
       CompareAll(sc, c.x, wits, T, i + 1, acc @@ (wits[i] :> c.rep), strict)

\* detectDivergence: the loop reads exactly len(witnesses) values  [x, res]
\* The verdict on a conflicting header is PER (witness, header): every witness that reports a
\* different header is examined on its own ability to back it -- another witness' failure to
\* back the very same header says nothing about this one.  (Weak_DivergentHeaderExaminedOncePerRun:
\* a header that was examined once without an attack error is not examined again in this run;
\* the later reporter is only put on the removal list, so the outcome depends on arrival order.)
RECURSIVE DetectLoop(_, _, _, _, _, _, _, _, _)
DetectLoop(sc, x, trace, chan, i, matched, toRemove, now, examined) ==
  LET wits == x.cl.wits IN
  IF i > Min2(Len(chan), Len(wits)) THEN
       LET rm == RemoveWitnesses(wits, toRemove) IN
       IF ~rm.ok THEN [x |-> x, res |-> "NoWitnesses"]
       ELSE [x |-> [x EXCEPT !.cl.wits = rm.wits],
             res |-> IF matched \/ Weak_NoWitnessNeeded THEN Nil ELSE "FailedCrossRef"]
  ELSE LET r   == chan[i]
           idx == IndexOf([j \in DOMAIN wits |-> [v |-> wits[j]]], r.w) IN
       IF r.k = "match" THEN DetectLoop(sc, x, trace, chan, i + 1, TRUE, toRemove, now, examined)
       ELSE IF r.k = "conflict" THEN
            IF Weak_DivergentHeaderExaminedOncePerRun /\ B(sc, r.b).hid \in examined
            THEN DetectLoop(sc, x, trace, chan, i + 1, matched, toRemove \cup {idx}, now, examined)
            ELSE
            LET hc == HandleConflict(sc, x, trace, r.b, r.w, now) IN
            IF hc.attack THEN [x |-> hc.x, res |-> "Attack"]
            ELSE DetectLoop(sc, hc.x, trace, chan, i + 1, matched, toRemove \cup {idx}, now,
                            examined \cup {B(sc, r.b).hid})
       ELSE IF r.k = "bad" THEN DetectLoop(sc, x, trace, chan, i + 1, matched, toRemove \cup {idx}, now, examined)
       ELSE DetectLoop(sc, x, trace, chan, i + 1, matched, toRemove, now, examined)

\* Ghost: the witnesses that CAN BACK A DIFFERENT HEADER -- their first reply is a
\* conflicting block and handleConflictingHeaders, run right after the comparison round,
\* verifies it (independent of the order in which replies are consumed: examining one
\* witness only sends requests to that witness and, once it succeeded, to the primary).
\* tos = the providers that evidence is sent to when this witness' reply is handled.
Attackers(sc, x, trace, rep, now) ==
  LET W == {w \in DOMAIN rep : rep[w][1].k = "conflict"}
      hc(w) == HandleConflict(sc, [x EXCEPT !.ev = << >>], trace, rep[w][1].b, w, now) IN
  {[w |-> w, tos |-> {e.to : e \in Range(hc(w).x.ev)}] : w \in {v \in W : hc(v).attack}}

Detect(sc, x0, trace, now, sched) ==
  IF Len(trace) < 2 THEN [x |-> x0, res |-> "NilTrace"]
  ELSE IF Len(x0.cl.wits) = 0 THEN [x |-> x0, res |-> "NoWitnesses"]
  ELSE LET x == [x0 EXCEPT !.ph = "det", !.tr = trace, !.fan = @ + 1]
           c == CompareAll(sc, x, x.cl.wits, trace[Len(trace)], 1, << >>, FALSE)
           \* the ghost is judged on the statement's reading of "conflicting witness"
           g == IF Weak_LaggingWitnessEqualTimeBenign
                THEN CompareAll(sc, x, x.cl.wits, trace[Len(trace)], 1, << >>, TRUE) ELSE c
           y == [c.x EXCEPT !.att = Attackers(sc, g.x, trace, g.rep, now)] IN
       DetectLoop(sc, y, trace, Channel(OrderAt(sched, x, x.cl.wits), c.rep), 1, FALSE, {}, now, {})

\* ------------------------------------------------------------------ client.go verification modes
\* verifySkippingAgainstPrimary  [x, res]
RECURSIVE VerifySkippingAgainstPrimary(_, _, _, _, _, _)
VerifySkippingAgainstPrimary(sc, x, trusted, new, now, sched) ==
  LET v == VerifySkipping(sc, x, x.cl.primary, trusted, new, now) IN
  IF v.err = "VF:invalid" THEN
       IF v.to = B(sc, new).h THEN [x |-> v.x, res |-> v.err]
       ELSE LET f == FindNewPrimary(sc, v.x, B(sc, new).h, TRUE, sched) IN
            IF f.err # Nil THEN [x |-> f.x, res |-> v.err]
            ELSE IF ~Weak_ReplacementHashUnchecked /\ B(sc, f.b).hid # B(sc, new).hid THEN [x |-> f.x, res |-> v.err]
            ELSE VerifySkippingAgainstPrimary(sc, f.x, trusted, f.b, now, sched)
  ELSE IF v.err = Nil THEN Detect(sc, v.x, v.tr, now, sched)
  \* errors.Unwrap(ErrNewValSetCantBeTrusted) = nil -> `case nil` (the success branch!) ->
  \* detectDivergence(trace) with the trace verifySkipping returned: nil -> "NilTrace" error.
  \* Were the trace the partial one, the LAST VERIFIED PIVOT would be cross-checked, match, and
  \* verifyLightBlock would store the target although it was never verified.
  ELSE IF v.err = "cantTrust" THEN Detect(sc, v.x, v.tr, now, sched)
  ELSE [x |-> v.x, res |-> v.err]

\* verifySequential  [x, res]
RECURSIVE SeqLoop(_, _, _, _, _, _, _, _)
SeqLoop(sc, x, verified, new, height, trace, now, sched) ==
  IF height > B(sc, new).h THEN Detect(sc, x, trace, now, sched)
  ELSE
    LET f == IF height = B(sc, new).h THEN [x |-> x, err |-> Nil, b |-> new]
             ELSE LightBlockFromPrimary(sc, x, height, sched) IN
    IF f.err # Nil THEN [x |-> f.x, res |-> "VF:" \o f.err]
    ELSE LET v == VerifyAdjacent(B(sc, verified), B(sc, f.b), now, sc.cfg) IN
      IF v = "ok" THEN SeqLoop(sc, f.x, f.b, new, height + 1, Append(trace, f.b), now, sched)
      ELSE IF v = "invalid" /\ B(sc, f.b).h # B(sc, new).h THEN
           LET g == FindNewPrimary(sc, f.x, B(sc, new).h, TRUE, sched) IN
           IF g.err # Nil THEN [x |-> g.x, res |-> "VF:invalid"]
           ELSE IF ~Weak_ReplacementHashUnchecked /\ B(sc, g.b).hid # B(sc, new).hid THEN [x |-> g.x, res |-> "VF:invalid"]
           ELSE SeqLoop(sc, g.x, verified, new, height, trace, now, sched)   \* height--; continue
      ELSE [x |-> f.x, res |-> "VF:" \o v]

VerifySequential(sc, x, trusted, new, now, sched) ==
  SeqLoop(sc, x, trusted, new, B(sc, trusted).h + 1, <<trusted>>, now, sched)

\* backwards  [x, res].  As shipped the loop only uses newHeader.Height: the header the
\* caller is going to store is never compared with the end of the hash chain that was
\* verified (Weak_BackwardsUnbound = shipped behaviour; the specification models the repair).
RECURSIVE Backwards(_, _, _, _, _)
Backwards(sc, x, verified, new, sched) ==
  IF ~(B(sc, verified).h > B(sc, new).h) THEN
       IF ~Weak_BackwardsUnbound /\ B(sc, verified).hid # B(sc, new).hid
       THEN [x |-> x, res |-> "invalid"] ELSE [x |-> x, res |-> Nil]
  ELSE LET f == LightBlockFromPrimary(sc, x, B(sc, verified).h - 1, sched) IN
    IF f.err # Nil THEN [x |-> f.x, res |-> "other"]
    ELSE IF VerifyBackwards(B(sc, f.b), B(sc, verified)) THEN Backwards(sc, f.x, f.b, new, sched)
    ELSE LET g == FindNewPrimary(sc, f.x, B(sc, new).h, TRUE, sched) IN
         IF g.err # Nil THEN [x |-> g.x, res |-> "invalid"]
         ELSE IF ~Weak_ReplacementHashUnchecked /\ B(sc, g.b).hid # B(sc, new).hid THEN [x |-> g.x, res |-> "invalid"]
         ELSE Backwards(sc, g.x, verified, g.b, sched)

StoredAt(sc, cl, h) == {b \in cl.store : B(sc, b).h = h}
FirstStored(sc, cl) == CHOOSE b \in cl.store : \A c \in cl.store : B(sc, b).h <= B(sc, c).h
StoredBefore(sc, cl, h) ==
  LET S == {b \in cl.store : B(sc, b).h < h} IN CHOOSE b \in S : \A c \in S : B(sc, c).h <= B(sc, b).h

\* verifyLightBlock + updateTrustedLightBlock  [x, res]
VerifyLightBlock(sc, x, l, now, sched) ==
  LET cl == x.cl
      r  == IF B(sc, l).h >= B(sc, cl.latest).h THEN
                 IF sc.cfg.mode = "seq" THEN VerifySequential(sc, x, cl.latest, l, now, sched)
                 ELSE VerifySkippingAgainstPrimary(sc, x, cl.latest, l, now, sched)
            ELSE IF B(sc, l).h < B(sc, FirstStored(sc, cl)).h THEN
                 \* the hash chain binds the header only; the light block is stored with its
                 \* validator set and commit, so after backwards() the block is validated and its
                 \* commit verified against its own validator set (plain errors)
                 LET bw == Backwards(sc, x, FirstStored(sc, cl), l, sched) IN
                 IF bw.res # Nil THEN bw
                 ELSE IF ~(B(sc, l).wf /\ B(sc, l).vh = B(sc, l).vsh) THEN [x |-> bw.x, res |-> "other"]
                 ELSE IF VerifyCommitLight(B(sc, l).vals, B(sc, l).sigs) # "ok" THEN [x |-> bw.x, res |-> "other"]
                 ELSE bw
            ELSE LET c == StoredBefore(sc, cl, B(sc, l).h) IN
                 IF sc.cfg.mode = "seq" THEN VerifySequential(sc, x, c, l, now, sched)
                 ELSE VerifySkippingAgainstPrimary(sc, x, c, l, now, sched) IN
  IF r.res # Nil THEN r
  ELSE [x |-> [r.x EXCEPT !.cl.store = @ \cup {l},
                          !.cl.latest = IF B(sc, l).h > B(sc, cl.latest).h THEN l ELSE @],
        res |-> Nil]

NewExec(cl, cnt) == [cl |-> cl, cnt |-> cnt, reqs |-> << >>, ev |-> << >>, ph |-> "pri",
                     tr |-> << >>, att |-> {}, fan |-> 0]

\* VerifyLightBlockAtHeight(ctx, height, now)  [x, res]
VerifyAtHeight(sc, cl, cnt, h, now, sched) ==
  LET x == NewExec(cl, cnt) IN
  IF StoredAt(sc, cl, h) # {} THEN [x |-> x, res |-> Nil]
  ELSE LET f == LightBlockFromPrimary(sc, x, h, sched) IN
       IF f.err # Nil THEN [x |-> f.x, res |-> f.err]
       ELSE VerifyLightBlock(sc, f.x, f.b, now, sched)

\* Update(ctx, now): the primary's latest block, verified if it is above the latest trusted one
UpdateCall(sc, cl, cnt, now, sched) ==
  LET x == NewExec(cl, cnt) IN
  IF cl.store = {} THEN [x |-> x, res |-> Nil]
  ELSE LET f == LightBlockFromPrimary(sc, x, 0, sched) IN
       IF f.err # Nil THEN [x |-> f.x, res |-> f.err]
       ELSE IF B(sc, f.b).h > B(sc, cl.latest).h THEN VerifyLightBlock(sc, f.x, f.b, now, sched)
       ELSE [x |-> f.x, res |-> Nil]

\* NewClient with an empty store: initializeWithTrustOptions + compareFirstHeaderWithWitnesses
RECURSIVE FirstLoop(_, _, _, _, _)
FirstLoop(sc, x, chan, i, toRemove) ==
  LET wits == x.cl.wits IN
  IF i > Min2(Len(chan), Len(wits)) THEN
       LET rm == RemoveWitnesses(wits, toRemove) IN [x |-> [x EXCEPT !.cl.wits = rm.wits], res |-> Nil]
  ELSE LET r == chan[i]
           idx == IndexOf([j \in DOMAIN wits |-> [v |-> wits[j]]], r.w) IN
       IF r.k = "conflict" THEN [x |-> x, res |-> "ConflictingFirst"]
       ELSE IF r.k = "bad" THEN FirstLoop(sc, x, chan, i + 1, toRemove \cup {idx})
       ELSE FirstLoop(sc, x, chan, i + 1, toRemove)

InitClient(sc, primary, wits, cnt, rootH, rootHid, sched) ==
  LET cl0 == [store |-> {}, latest |-> Nil, primary |-> primary, wits |-> wits]
      x   == NewExec(cl0, cnt) IN
  IF Len(wits) = 0 THEN [x |-> x, res |-> "NoWitnesses"]
  ELSE LET f == LightBlockFromPrimary(sc, x, rootH, sched) IN
    IF f.err # Nil THEN [x |-> f.x, res |-> f.err]
    ELSE IF B(sc, f.b).hid # rootHid THEN [x |-> f.x, res |-> "other"]
    ELSE IF VerifyCommitLight(B(sc, f.b).vals, B(sc, f.b).sigs) # "ok" THEN [x |-> f.x, res |-> "other"]
    ELSE IF Len(f.x.cl.wits) = 0 THEN [x |-> f.x, res |-> "NoWitnesses"]
    ELSE LET x1 == [f.x EXCEPT !.ph = "det", !.fan = @ + 1]
             c  == CompareAll(sc, x1, x1.cl.wits, f.b, 1, << >>, FALSE)
             r  == FirstLoop(sc, c.x, Channel(OrderAt(sched, x1, x1.cl.wits), c.rep), 1, {}) IN
         IF r.res # Nil THEN r
         ELSE [x |-> [r.x EXCEPT !.cl.store = {f.b}, !.cl.latest = f.b], res |-> Nil]

\* ------------------------------------------------------------------ the properties, on what a call showed
\* A call is summarised by:  pre-store / post-store (sets of header ids), the responses the
\* providers returned to the client during the call (obs: sequence of [p, h, r, ph]), the
\* result class, the evidence reports.  The same predicates judge the specification's own
\* calls (design model) and calls observed on the real client (trace specification).
ObsBlocks(sc, obs) == {obs[i].r : i \in {j \in DOMAIN obs : IsBlk(sc, obs[j].r)}}
Variants(sc, ids, hids) == {b \in ids : B(sc, b).hid \in hids}

\* closure of ValidStep / BackStep from the stored headers through the blocks the client
\* was shown (every intermediate header of a verification was fetched from a provider)
RECURSIVE ReachFrom(_, _, _, _)
ReachFrom(sc, R, pool, now) ==
  LET add == {n \in pool \ R : \E t \in R : \/ ValidStep(B(sc, t), B(sc, n), now, sc.cfg)
                                         \/ BackStep(B(sc, t), B(sc, n))} IN
  IF add = {} THEN R ELSE ReachFrom(sc, R \cup add, pool, now)

\* header ids stored by this call that no chain of steps reaches
Unsound(sc, preHids, postHids, obs, now) ==
  LET ids   == DOMAIN sc.blocks
      \* a stored block's facts: any light block with that header whose supplied set is the header's
      roots == {b \in Variants(sc, ids, preHids) : B(sc, b).vh = B(sc, b).vsh}
      pool  == ObsBlocks(sc, obs)
      R     == ReachFrom(sc, roots, pool, now) IN
  {hd \in postHids \ preHids : ~\E b \in R : B(sc, b).hid = hd}

\* header ids stored by forward verification (at or above the lowest trusted height)
\* although no witness returned the identical header in the cross-check
MinH(sc, hids) == LET S == {B(sc, b).h : b \in Variants(sc, DOMAIN sc.blocks, hids)} IN
                  CHOOSE m \in S : \A k \in S : m <= k
\* the answers given in the cross-check: requests made after detectDivergence started
\* (ph = "det"); if the observer could not tell the phases apart, every answer of a
\* provider that is not the primary at the end of the call
DetResponses(obs, postPrimary) ==
  IF \E i \in DOMAIN obs : obs[i].ph = "det"
  THEN {i \in DOMAIN obs : obs[i].ph = "det"}
  ELSE {i \in DOMAIN obs : obs[i].p # postPrimary}
Unconfirmed(sc, preHids, postHids, obs, postPrimary) ==
  {hd \in postHids \ preHids :
     /\ \E b \in Variants(sc, DOMAIN sc.blocks, {hd}) : B(sc, b).h > MinH(sc, preHids)
     /\ ~\E i \in DetResponses(obs, postPrimary) : IsBlk(sc, obs[i].r) /\ B(sc, obs[i].r).hid = hd}
\* header ids stored by forward verification whose only confirmation in the cross-check
\* came from the provider that is the primary itself (a provider listed as witness too)
SelfConfirmed(sc, preHids, postHids, obs, postPrimary) ==
  {hd \in (postHids \ preHids) \ Unconfirmed(sc, preHids, postHids, obs, postPrimary) :
     /\ \E b \in Variants(sc, DOMAIN sc.blocks, {hd}) : B(sc, b).h > MinH(sc, preHids)
     /\ \A i \in DetResponses(obs, postPrimary) :
          (IsBlk(sc, obs[i].r) /\ B(sc, obs[i].r).hid = hd) => obs[i].p = postPrimary}
\* the "silent" answers seen in the cross-check of such a call
SilentKinds(sc, obs, postPrimary) ==
  {obs[i].r : i \in {j \in DetResponses(obs, postPrimary) : ~IsBlk(sc, obs[j].r)}}

\* a witness that can back a different header => attack error, evidence to that witness
\* (against the primary's block) and -- when the primary in turn backs its header along
\* the witness' trace, i.e. when the second evidence can be formed at all -- to the primary
AttackHandled(att, res, evTos) ==
  att # {} => /\ res = "Attack"
              /\ \E a \in att : a.w \in evTos /\ a.tos \subseteq evTos

=============================================================================
