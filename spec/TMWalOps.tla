------------------------------ MODULE TMWalOps ------------------------------
(* The consensus write-ahead log as VALUES and OPERATORS (no variables): shared by the
   design state machine TMWal.tla and by the trace specification trace/TMWalTrace.tla.

   Code modelled (tendermint v0.34.x):
     consensus/wal.go          BaseWAL: OnStart, Write, WriteSync, FlushAndSync,
                               SearchForEndHeight, WALEncoder/WALDecoder (crc32c + length framing)
     libs/autofile/group.go    Group: bufio head buffer, FlushAndSync, checkHeadSizeLimit/RotateFile,
                               checkTotalSizeLimit, readGroupInfo, GroupReader (reads ACROSS files,
                               opens files with O_CREATE)
     libs/autofile/autofile.go AutoFile: O_APPEND head file, Sync
     consensus/state.go        OnStart (catch-up loop, repair), repairWalFile
     consensus/replay.go       catchupReplay

   ---------------------------------------------------------------- values
   A RECORD is what one WALEncoder.Encode call hands to the group in one Write:
        [id, kind, h, size]    id   > 0, unique, increasing in write order
                               kind "eh" (EndHeightMessage h) | "in" (msgInfo / timeoutInfo: an
                                    input that catch-up replays) | "rs" (EventDataRoundState)
                               size = 8 + len(data) bytes  (4 crc + 4 length + data)
   An ITEM is what lies in a file:  a record plus its state
        st = "good"    intact
             "badcrc"  one byte of the crc or data field changed: the decoder reports
                       DataCorruptionError and stays ALIGNED (it consumed 8+length bytes)
             "badlen"  one byte of the length field changed: the decoder reports an error and is
                       DESYNCHRONISED from there on
             "torn"    the first `size` bytes of a record (a crash cut the unsynced tail);
                       identity dropped: [id 0, kind "torn", h 0]
             "hdr" / "pay"  the first / the remaining bytes of a record that reached the group in two
                       Writes with something (a rotation) in between: contiguous in one file they
                       ARE the record (Stitch); split over two files only a reader that runs across
                       the file boundary sees the record, each file on its own is damaged
   A CHUNK is what one Group.Write call carries: a record plus ck = "all" | "hdr" | "pay" (size = bytes
   of the chunk).  The real encoder makes exactly one chunk per record (Chunks); that a record is
   appended atomically with respect to RotateFile rests on this and on nothing else.
   The WAL state is one record w:
        disk   sequence of [idx, items], ascending idx: the rotated files <head>.NNN that exist
        hs     items of the head file that are durable (written and fsync'ed)
        hu     items of the head file written to the file but not fsync'ed (flushed_unsynced)
        part   > 0: the first `part` bytes of buf[1] are already in the head file (the bufio
               buffer filled up in the middle of a record)
        buf    records still in the bufio buffer (lost by a crash)
        gmin, gmax  the Group's in-memory minIndex / maxIndex (gmin is NOT refreshed by pruning)
        open   a BaseWAL object is open on the files
        extra  bytes of files that share the head's name prefix without being rotated files
               (<head>.CORRUPTED written by the repair): readGroupInfo counts them
        cap    size of the head's bufio.Writer (group.go OpenGroup: 4096*10)
        hlim   headSizeLimit (0 = no rotation)      tlim  totalSizeLimit (0 = no pruning)
   ---------------------------------------------------------------------------------------- *)
EXTENDS Integers, Sequences, FiniteSets, TLC

CONSTANTS
  \* ---- bug switches: FALSE = the code as repaired by /verif/proposed-fixes/C15-*.diff
  Weak_SyncNoFsync,       \* FlushAndSync flushes but does not fsync
  Weak_SyncNoFlush,       \* FlushAndSync fsyncs without flushing the bufio buffer first
  Weak_NoHeadCheck,       \* OnStart does not verify/repair the head file before appending (v0.34.24 as found)
  Weak_EH0OnEmptyHead,    \* BaseWAL.OnStart writes #ENDHEIGHT 0 into any empty head file (v0.34.24 as found)
  Weak_NoRepair,          \* a data-corruption error of catch-up is treated like any other error ("proceeding anyway")
  Weak_RepairDropsLast,   \* repairWalFile loses the last decodable record
  Weak_RepairNoFsync,     \* repairWalFile does not fsync the rewritten file (v0.34.24 as found)
  Weak_SearchStopsEarly,  \* SearchForEndHeight looks at the head file only
  Weak_RotateDropsBuf,    \* RotateFile resets the buffer instead of flushing it
  Weak_DecoderAcceptsBadCRC, \* WALDecoder does not compare checksums
  Weak_PruneNewest,       \* checkTotalSizeLimit removes the newest rotated file instead of the oldest
  Weak_IndexWidth3Only,   \* readGroupInfo recognises only names with exactly three digits (<head>.NNN)
  Weak_RecordInTwoGroupWrites, \* WALEncoder.Encode hands a record to the group in two Writes: header (crc+length), then payload
  WidthLimit              \* first index whose name is wider than three digits: 1000 (filePathForIndex uses %03d, a MINIMUM width)

MaxFilesToRemove == 4   \* group.go
HdrCrc == 4
HdrLen == 8

TornClass(n) == IF n < HdrCrc THEN "crc" ELSE IF n < HdrLen THEN "len" ELSE "data"

MkItem(r, st) == [id |-> r.id, kind |-> r.kind, h |-> r.h, size |-> r.size, st |-> st]
GoodItem(r)   == MkItem(r, "good")
TornItem(n)   == [id |-> 0, kind |-> "torn", h |-> 0, size |-> n, st |-> "torn"]
RecOf(it)     == [id |-> it.id, kind |-> it.kind, h |-> it.h, size |-> it.size]

RECURSIVE SumSize(_)
SumSize(s) == IF Len(s) = 0 THEN 0 ELSE s[1].size + SumSize(Tail(s))

\* ---- chunks: WALEncoder.Encode -> enc.wr.Write(...) calls
Chunk(r, ck, n) == [id |-> r.id, kind |-> r.kind, h |-> r.h, size |-> n, ck |-> ck]
Whole(r)  == Chunk(r, "all", r.size)
Chunks(r) == IF Weak_RecordInTwoGroupWrites THEN <<Chunk(r, "hdr", HdrLen), Chunk(r, "pay", r.size - HdrLen)>>
             ELSE <<Whole(r)>>
ChunkItem(c) == MkItem(c, IF c.ck = "all" THEN "good" ELSE c.ck)
GoodItems(cs) == [k \in 1..Len(cs) |-> ChunkItem(cs[k])]
\* header and payload of one record next to each other are that record
RECURSIVE Stitch(_)
Stitch(s) ==
  IF Len(s) < 2 THEN s
  ELSE IF s[1].st = "hdr" /\ s[2].st = "pay" /\ s[1].id = s[2].id
       THEN <<[s[1] EXCEPT !.st = "good", !.size = s[1].size + s[2].size]>> \o Stitch(SubSeq(s, 3, Len(s)))
       ELSE <<s[1]>> \o Stitch(Tail(s))
\* bytes `add` appended to the head file behind its synced part hs and unsynced part hu
PutHead(hs, hu, add) ==
  LET u == Stitch(hu \o add) IN
  IF Len(hs) > 0 /\ Len(u) > 0 /\ hs[Len(hs)].st = "hdr" /\ u[1].st = "pay" /\ hs[Len(hs)].id = u[1].id
  THEN [hs |-> SubSeq(hs, 1, Len(hs) - 1),
        hu |-> <<[u[1] EXCEPT !.st = "good", !.size = hs[Len(hs)].size + u[1].size]>> \o Tail(u)]
  ELSE [hs |-> hs, hu |-> u]
RECURSIVE Flat(_)
Flat(ss) == IF Len(ss) = 0 THEN << >> ELSE ss[1] \o Flat(Tail(ss))
WSetOf(s) == {s[k] : k \in 1..Len(s)}
IdsOf(items) == {items[k].id : k \in {j \in 1..Len(items) : items[j].st = "good"}}
WMin(S) == CHOOSE x \in S : \A y \in S : x <= y
WMax(S) == CHOOSE x \in S : \A y \in S : x >= y
WLast(s) == s[Len(s)]

\* a is a subsequence of b (order preserved, not necessarily contiguous)
RECURSIVE WIsSubSeq(_, _)
WIsSubSeq(a, b) ==
  IF Len(a) = 0 THEN TRUE
  ELSE IF Len(b) = 0 THEN FALSE
  ELSE IF a[1] = b[1] THEN WIsSubSeq(Tail(a), Tail(b))
  ELSE WIsSubSeq(a, Tail(b))

WIsPrefix(a, b) == Len(a) <= Len(b) /\ SubSeq(b, 1, Len(a)) = a

StrictlyIncreasing(s) == \A i, j \in 1..Len(s) : i < j => s[i] < s[j]

\* ------------------------------------------------------------------ files
EmptyWal(cap, hlim, tlim) ==
  [disk |-> << >>, hs |-> << >>, hu |-> << >>, part |-> 0, buf |-> << >>,
   gmin |-> 0, gmax |-> 0, open |-> FALSE, extra |-> 0, cap |-> cap, hlim |-> hlim, tlim |-> tlim]

Idxs(w) == {w.disk[k].idx : k \in 1..Len(w.disk)}
DiskFile(w, i) == LET k == CHOOSE k \in 1..Len(w.disk) : w.disk[k].idx = i IN w.disk[k].items

\* what a reader of the head FILE sees: the bufio content is not in the file
HeadView(w) == w.hs \o w.hu \o (IF w.part > 0 THEN <<TornItem(w.part)>> ELSE << >>)
HeadFileSize(w) == SumSize(w.hs) + SumSize(w.hu) + w.part
Buffered(w) == SumSize(w.buf) - w.part

\* ascending insert / removal in disk
RECURSIVE InsertFile(_, _)
InsertFile(d, f) ==
  IF Len(d) = 0 THEN <<f>>
  ELSE IF d[1].idx = f.idx THEN <<f>> \o Tail(d)                 \* rename over an existing path
  ELSE IF d[1].idx > f.idx THEN <<f>> \o d
  ELSE <<d[1]>> \o InsertFile(Tail(d), f)
RemoveFile(d, i) == SelectSeq(d, LAMBDA f : f.idx # i)

\* GroupReader.openFile: index = maxIndex is the head path, anything else <head>.NNN; O_CREATE
\* makes a missing file appear, empty (S13 in DESIGN.md section 8)
ReadFile(w, i) == IF i = w.gmax THEN HeadView(w)
                  ELSE IF i \in Idxs(w) THEN DiskFile(w, i) ELSE << >>
RECURSIVE Stream(_, _)
Stream(w, i) == IF i > w.gmax THEN << >> ELSE ReadFile(w, i) \o Stream(w, i + 1)

RECURSIVE TouchRange(_, _, _)
TouchRange(d, lo, hi) ==     \* create empty files for the missing indices lo..hi-1
  IF lo >= hi THEN d
  ELSE TouchRange(IF \E k \in 1..Len(d) : d[k].idx = lo THEN d ELSE InsertFile(d, [idx |-> lo, items |-> << >>]),
                  lo + 1, hi)
Touch(w, lo) == [w EXCEPT !.disk = TouchRange(w.disk, lo, w.gmax)]

(* Group.readGroupInfo: scans the directory.  Rotated files are recognised by NAME:
   filePathForIndex writes "%v.%03d" (at least three digits: <head>.000 .. <head>.999, <head>.1000, ...)
   and readGroupInfo parses the index back with ^.+\.([0-9]{3,})$.  Both sides must agree for
   every index a long history reaches; Weak_IndexWidth3Only is the disagreement "exactly three
   digits": files with index >= WidthLimit exist but are invisible to a Group opened later
   (MinIndex/MaxIndex too small: markers in them are not searched, the next RotateFile renames
   the head over an existing file).  Every file whose name starts with the head's name counts
   for the total size, recognised or not.                                                   *)
VisibleIdxs(w) == IF Weak_IndexWidth3Only THEN {i \in Idxs(w) : i < WidthLimit} ELSE Idxs(w)
GInfo(w) ==
  LET I == VisibleIdxs(w) IN
  [min   |-> IF I = {} THEN 0 ELSE WMin(I),
   max   |-> IF I = {} THEN 0 ELSE WMax(I) + 1,
   total |-> SumSize([k \in 1..Len(w.disk) |-> [size |-> SumSize(w.disk[k].items)]])
             + HeadFileSize(w) + w.extra]

\* ------------------------------------------------------------------ decoding (WALDecoder.Decode)
(* Outcome list of decoding the item sequence s from position i to the end of the stream,
   continuing after errors (what SearchForEndHeight does with IgnoreDataCorruptionErrors).
   An outcome is the decoded record as a good item, ErrOut for a DataCorruptionError, or
   Invented for a record nobody wrote.  A strict reader's output is the prefix up to and
   including the first ErrOut.
   - torn crc fragment (1..3 bytes) at the very end: GroupReader.Read returns (n>0, io.EOF)
     and Decode reports a CLEAN io.EOF;  a torn length/data fragment at the end: one error.
   - badlen, or a torn fragment followed by more bytes: the decoder is desynchronised; it
     steps through garbage in 8-byte strides and MAY fall back onto a record boundary
     (observed on real files).  rsy = 0: never resynchronises; rsy = k > 0: resumes k items
     after the culprit.  Properties must hold for every rsy.                               *)
ErrOut   == [id |-> 0,  kind |-> "err", h |-> 0, size |-> 0, st |-> "err"]
Invented == [id |-> -1, kind |-> "rs",  h |-> 0, size |-> 0, st |-> "good"]
IsErr(x) == x.id = 0
IsRec(x) == x.id # 0

RECURSIVE Dec(_, _, _)
Dec(s, i, rsy) ==
  IF i > Len(s) THEN << >>
  ELSE LET it == s[i]
           resync == IF rsy = 0 \/ i + rsy > Len(s) THEN << >> ELSE Dec(s, i + rsy, rsy)
       IN CASE it.st = "good"   -> <<it>> \o Dec(s, i + 1, rsy)
            [] it.st = "badcrc" -> (IF Weak_DecoderAcceptsBadCRC THEN <<Invented>> ELSE <<ErrOut>>) \o Dec(s, i + 1, rsy)
            [] it.st = "badlen" -> <<ErrOut>> \o resync
            [] it.st = "hdr" /\ i < Len(s) /\ s[i + 1].st = "pay" /\ s[i + 1].id = it.id
                                \* a reader that runs across the file boundary puts the two together
                                -> <<[it EXCEPT !.st = "good", !.size = it.size + s[i + 1].size]>> \o Dec(s, i + 2, rsy)
            [] OTHER            -> \* "torn", or a lone "hdr" / "pay": a fragment
                                   IF i = Len(s)
                                   THEN (IF TornClass(it.size) = "crc" THEN << >> ELSE <<ErrOut>>)
                                   ELSE <<ErrOut>> \o resync

Decode(s, rsy) == Dec(s, 1, rsy)

\* strict view: up to and including the first error
RECURSIVE StrictOf(_)
StrictOf(d) == IF Len(d) = 0 THEN << >> ELSE IF IsErr(d[1]) THEN <<d[1]>> ELSE <<d[1]>> \o StrictOf(Tail(d))
RecsOf(d) == SelectSeq(d, IsRec)
IdSeq(d) == [k \in 1..Len(d) |-> d[k].id]
HasErr(d) == \E k \in 1..Len(d) : IsErr(d[k])

\* a reader that opens the file with os.Open (repairWalFile, scripts/wal2json): a short read of
\* the crc is not an EOF there -- every torn tail is an error
SoloClean(items) == \A k \in 1..Len(items) : items[k].st = "good"
RECURSIVE GoodPrefix(_)
GoodPrefix(items) == IF Len(items) = 0 \/ items[1].st # "good" THEN << >>
                     ELSE <<items[1]>> \o GoodPrefix(Tail(items))

FirstIdx(d, P(_)) == LET S == {k \in 1..Len(d) : P(d[k])} IN IF S = {} THEN 0 ELSE WMin(S)

\* ------------------------------------------------------------------ BaseWAL.SearchForEndHeight
(* for index := max; index >= min; index-- { reader at index reads index..max as ONE stream ... }
   result: found, err ("none" | "corrupt"), rest = ignore-mode outcome list of what follows the
   marker in the reader, low = lowest index opened (everything in low..max now exists)      *)
RECURSIVE SearchFrom(_, _, _, _, _, _)
SearchFrom(w, h, ignore, rsy, index, lastH) ==
  IF index < w.gmin \/ (Weak_SearchStopsEarly /\ index < w.gmax)
  THEN [found |-> FALSE, err |-> "none", rest |-> << >>, low |-> index + 1]
  ELSE LET s    == Stream(w, index)
           d    == Decode(s, rsy)
           isEH(x) == x.kind = "eh" /\ x.id # 0
           isMark(x) == isEH(x) /\ x.h = h
           kf   == FirstIdx(d, isMark)
           ke   == FirstIdx(d, IsErr)
           ehs  == SelectSeq(d, isEH)
           lh   == IF Len(ehs) = 0 THEN lastH ELSE WLast(ehs).h
       IN IF ~ignore /\ ke > 0 /\ (kf = 0 \/ ke < kf)
          THEN [found |-> FALSE, err |-> "corrupt", rest |-> << >>, low |-> index]
          ELSE IF kf > 0
          THEN [found |-> TRUE, err |-> "none", rest |-> SubSeq(d, kf + 1, Len(d)), low |-> index]
          \* "OPTIMISATION: no need to look for height in older files if we've seen h < height"
          ELSE IF lh > 0 /\ lh < h
          THEN [found |-> FALSE, err |-> "none", rest |-> << >>, low |-> index]
          ELSE SearchFrom(w, h, ignore, rsy, index - 1, lh)

Search(w, h, ignore, rsy) == SearchFrom(w, h, ignore, rsy, w.gmax, -1)

\* ------------------------------------------------------------------ writing
(* Group.Write -> bufio.Writer.Write(p): while len(p) > Available(): if the buffer is empty the
   rest of p goes straight to the file, otherwise the buffer is topped up and flushed.       *)
ToFile(w, add) == LET ph == PutHead(w.hs, w.hu, add) IN [w EXCEPT !.hs = ph.hs, !.hu = ph.hu]
WriteRec(w, r) ==        \* r: one chunk = one Group.Write call
  LET B == Buffered(w) IN
  IF r.size <= w.cap - B THEN [w EXCEPT !.buf = Append(w.buf, r)]
  ELSE IF B = 0 THEN ToFile(w, <<ChunkItem(r)>>)
  ELSE LET first == w.cap - B          \* bytes of r that go out with the flush
           rem   == r.size - first
       IN IF rem > w.cap
          THEN [ToFile(w, GoodItems(w.buf) \o <<ChunkItem(r)>>) EXCEPT !.buf = << >>, !.part = 0]
          ELSE [ToFile(w, GoodItems(w.buf)) EXCEPT !.buf = <<r>>, !.part = first]
\* the bufio buffer handed to the file, no fsync (first half of FlushAndSync, or a full buffer)
FlushOnly(w) == [ToFile(w, GoodItems(w.buf)) EXCEPT !.buf = << >>, !.part = 0]

\* Group.FlushAndSync: headBuf.Flush(); Head.Sync()
FlushSync(w) ==
  IF Weak_SyncNoFlush THEN [w EXCEPT !.hs = w.hs \o w.hu, !.hu = << >>]
  ELSE IF Weak_SyncNoFsync THEN FlushOnly(w)
  ELSE [w EXCEPT !.hs = Stitch(w.hs \o w.hu \o GoodItems(w.buf)), !.hu = << >>, !.buf = << >>, !.part = 0]

\* ids a nil return of FlushAndSync acknowledges
AckedBy(w) == {w.hu[k].id : k \in 1..Len(w.hu)} \cup {w.buf[k].id : k \in 1..Len(w.buf)}

\* Group.RotateFile: Flush, Sync, close, rename head -> <head>.<maxIndex>, maxIndex++
Rotate(w) ==
  LET items == Stitch(w.hs \o w.hu \o (IF Weak_RotateDropsBuf THEN << >> ELSE GoodItems(w.buf))) IN
  [w EXCEPT !.disk = InsertFile(w.disk, [idx |-> w.gmax, items |-> items]),
            !.hs = << >>, !.hu = << >>, !.buf = << >>, !.part = 0, !.gmax = w.gmax + 1]

\* Group.checkHeadSizeLimit: uses the FILE size (buffered bytes do not count)
WouldRotate(w) == w.hlim > 0 /\ HeadFileSize(w) >= w.hlim
CheckHead(w) == IF WouldRotate(w) THEN Rotate(w) ELSE w

\* Group.checkTotalSizeLimit: gInfo is read ONCE from the directory; up to 4 iterations, each
\* either removes <head>.<min+i> or `continue`s when the file does not exist
RECURSIVE PruneLoop(_, _, _, _, _, _)
PruneLoop(d, gi, i, total, removed, limit) ==
  IF i >= MaxFilesToRemove \/ total < limit THEN [disk |-> d, removed |-> removed]
  ELSE LET index == IF Weak_PruneNewest THEN gi.max - 1 - i ELSE gi.min + i IN
       IF index = gi.max \/ index < 0 THEN [disk |-> d, removed |-> removed]
       ELSE IF ~(\E k \in 1..Len(d) : d[k].idx = index) THEN PruneLoop(d, gi, i + 1, total, removed, limit)
       ELSE LET f == d[CHOOSE k \in 1..Len(d) : d[k].idx = index] IN
            PruneLoop(RemoveFile(d, index), gi, i + 1, total - SumSize(f.items), Append(removed, index), limit)
CheckTotal(w) ==
  IF w.tlim = 0 THEN [disk |-> w.disk, removed |-> << >>]
  ELSE LET gi == GInfo(w) IN PruneLoop(w.disk, gi, 0, gi.total, << >>, w.tlim)

\* ------------------------------------------------------------------ crash and damage
(* Power loss: the process and the bufio buffer are gone; the head file keeps its durable part,
   the first j unsynced items and, when tk > 0, the first tk bytes of the next one.          *)
CrashChoices(w, tornSizes(_)) ==
  UNION {{[j |-> j, tk |-> tk] :
            tk \in {0} \cup (IF j < Len(w.hu) THEN tornSizes(w.hu[j + 1].size)
                             ELSE IF w.part > 0 THEN {n \in tornSizes(w.buf[1].size) : n <= w.part} \cup {w.part}
                             ELSE {})} : j \in 0..Len(w.hu)}
CrashAt(w, j, tk) ==
  [w EXCEPT !.hs = w.hs \o SubSeq(w.hu, 1, j) \o (IF tk > 0 THEN <<TornItem(tk)>> ELSE << >>),
            !.hu = << >>, !.buf = << >>, !.part = 0, !.open = FALSE]

\* one byte of item p of a closed file changes; cls = field hit ("crc" | "len" | "data")
DamageSt(cls) == IF cls = "len" THEN "badlen" ELSE "badcrc"
DamageHead(w, p, cls) == [w EXCEPT !.hs[p].st = DamageSt(cls)]
DamageDisk(w, k, p, cls) == [w EXCEPT !.disk[k].items[p].st = DamageSt(cls)]

\* ------------------------------------------------------------------ start-up (state.go OnStart)
\* repairWalFile(src = <head>.CORRUPTED copy, dst = head): decode until the first error,
\* re-encode what was decoded.  The rewritten file is fsync'ed only in the repaired code.
RepairHead(w) ==
  LET keep0 == GoodPrefix(HeadView(w))
      keep  == IF Weak_RepairDropsLast /\ Len(keep0) > 0 THEN SubSeq(keep0, 1, Len(keep0) - 1) ELSE keep0
  IN [w EXCEPT !.extra = HeadFileSize(w),
               !.hs = IF Weak_RepairNoFsync THEN << >> ELSE keep,
               !.hu = IF Weak_RepairNoFsync THEN keep ELSE << >>,
               !.buf = << >>, !.part = 0]

(* OpenGroup (readGroupInfo) + BaseWAL.OnStart.  A brand-new WAL gets EndHeightMessage{0},
   WriteSync'ed.  v0.34.24 as found writes it whenever the HEAD FILE is empty, i.e. also after a
   rotation followed by a restart; catch-up of the initial height then finds this newest
   #ENDHEIGHT 0 and replays nothing of what the rotated files hold (Weak_EH0OnEmptyHead).    *)
WroteEH0(w) == HeadFileSize(w) = 0 /\ (Weak_EH0OnEmptyHead \/ GInfo(w).max = 0)   \* wal.group.MaxIndex() == 0
OpenWal(w, eh0) ==
  LET gi == GInfo(w)
      w1 == [w EXCEPT !.gmin = gi.min, !.gmax = gi.max, !.open = TRUE, !.buf = << >>, !.part = 0]
  IN IF WroteEH0(w) THEN FlushSync(WriteRec(w1, Whole(eh0))) ELSE w1

(* catchupReplay(csH): res = "hasend"   #ENDHEIGHT csH is in the WAL         (plain error)
                             "nomarker" #ENDHEIGHT csH-1 not found           (plain error)
                             "corrupt"  DataCorruptionError while reading the unfinished height
                             "ok"       replayed `replay` (ids of the input records)
   Both searches ignore data corruption; both may create empty files.                     *)
Catchup(w, csH, rsy) ==
  LET s1 == Search(w, csH, TRUE, rsy)
      wa == Touch(w, s1.low)
  IN IF s1.found THEN [w |-> wa, res |-> "hasend", replay |-> << >>]
     ELSE LET s2 == Search(wa, csH - 1, TRUE, rsy)
              wb == Touch(wa, s2.low)
              strict == StrictOf(s2.rest)
              ins == IdSeq(SelectSeq(strict, LAMBDA x : x.kind = "in" /\ x.id > 0))
          IN IF ~s2.found THEN [w |-> wb, res |-> "nomarker", replay |-> << >>]
             ELSE IF HasErr(strict) THEN [w |-> wb, res |-> "corrupt", replay |-> ins]
             ELSE [w |-> wb, res |-> "ok", replay |-> ins]

(* State.OnStart, WAL part.  eh0a / eh0b: the records to use should an EndHeightMessage{0} be
   written by the first / second OpenWAL.  Result:
     w, res ("ok" | "nomarker" | "hasend" | "fail"), replay, precheck (head repaired before the
     WAL was opened), repaired (repair inside the catch-up loop), neh0 (how many EH0 written) *)
StartUp(w, csH, rsy, eh0a, eh0b) ==
  LET needPre == ~Weak_NoHeadCheck /\ HeadFileSize(w) > 0 /\ ~SoloClean(HeadView(w))
      w0  == IF needPre THEN RepairHead(w) ELSE w
      n1  == IF WroteEH0(w0) THEN 1 ELSE 0
      w1  == OpenWal(w0, eh0a)
      c1  == Catchup(w1, csH, rsy)
  IN IF c1.res # "corrupt" \/ Weak_NoRepair
     THEN [w |-> c1.w, res |-> IF c1.res = "corrupt" THEN "ok" ELSE c1.res, replay |-> c1.replay,
           precheck |-> needPre, repaired |-> FALSE, neh0 |-> n1]
     ELSE \* wal.Stop() (flush+sync+close), copy head -> .CORRUPTED, repairWalFile, loadWalFile, retry once
          LET w2 == RepairHead(FlushSync(c1.w))
              n2 == IF WroteEH0(w2) THEN 1 ELSE 0
              w3 == OpenWal(w2, IF n1 = 1 THEN eh0b ELSE eh0a)
              c2 == Catchup(w3, csH, rsy)
          IN IF c2.res = "corrupt"
             THEN [w |-> [c2.w EXCEPT !.open = FALSE], res |-> "fail", replay |-> << >>,
                   precheck |-> needPre, repaired |-> TRUE, neh0 |-> n1 + n2]
             ELSE [w |-> c2.w, res |-> c2.res, replay |-> c2.replay,
                   precheck |-> needPre, repaired |-> TRUE, neh0 |-> n1 + n2]

\* graceful stop: BaseWAL.OnStop = FlushAndSync + group.Stop + Close
StopWal(w) == [FlushSync(w) EXCEPT !.open = FALSE]

\* ------------------------------------------------------------------ what the properties talk about
AllFiles(w) == [k \in 1..Len(w.disk) |-> w.disk[k].items] \o <<HeadView(w)>>
\* the log as the reader of the whole group sees it (a record split over two files counts)
WholeLog(w) == Stitch(Flat(AllFiles(w)))
OnDiskIds(w) == IdsOf(WholeLog(w))
DurableIds(w) == IdsOf(Stitch(Flat([k \in 1..Len(w.disk) |-> w.disk[k].items] \o <<w.hs>>)))
AllClean(w) == \A k \in 1..Len(w.disk) + 1 : SoloClean(AllFiles(w)[k])
\* the natural reader: a group reader opened at the lowest index, strict
MinReadIndex(w) == IF Idxs(w) = {} THEN w.gmax ELSE IF WMin(Idxs(w)) < w.gmax THEN WMin(Idxs(w)) ELSE w.gmax
EHOnDisk(w, h) == \E p \in 1..Len(WholeLog(w)) :
                     LET it == WholeLog(w)[p] IN it.st = "good" /\ it.kind = "eh" /\ it.h = h
\* the marker is reachable by a reader that starts at the beginning of its own file
EHReachable(w, h) == \E k \in 1..Len(w.disk) + 1 : \E p \in 1..Len(AllFiles(w)[k]) :
                     LET f == AllFiles(w)[k] IN
                       /\ f[p].st = "good" /\ f[p].kind = "eh" /\ f[p].h = h
                       /\ \A q \in 1..(p - 1) : f[q].st \in {"good", "badcrc"}
=============================================================================
