--------------------------- MODULE TMConsensusGST ---------------------------
(* C03 — termination after synchrony.  TMConsensusNet plus
     gst      : the moment from which "all messages between correct nodes are delivered
                before their timeouts fire"
     tick[n]  : the ONE pending timeout of n's ticker, with the overwrite rule of
                consensus/ticker.go timeoutRoutine (a schedule for an earlier or equal
                height/round/step is ignored).  A soup-style "any scheduled timeout may
                fire" model would hide lost timeouts, which is a liveness bug.
     last[n]  : the precommits a decided node keeps (its seen commit), still gossiped.

   Before GST: every behaviour of TMConsensusNet (rounds limited to 0..PreMax).
   After GST :
     - idealised gossip: every proposal, block and vote that some correct node holds is
       deliverable to every other correct node that does not hold it (majority claims
       included: the votes behind a polka or a commit are votes somebody holds);
     - a timeout fires only at quiescence (no own queue non-empty, nothing deliverable), and
       it is the timeout the ticker slot holds;
     - faulty validators keep sending anything at any time.
   Properties: BoundedRounds (invariant) and Termination (gst ~> all decided, under weak
   fairness of the correct nodes' post-GST actions).                                    *)
EXTENDS TMConsensusNet

CONSTANTS
  PreMax,       \* highest round a node may reach before GST
  Bound,        \* claimed bound: rounds after GST within which every correct node decides
  ByzAfterGST   \* whether faulty validators stay active after GST

VARIABLES gst, tick, last
gvars == <<rs, inq, soup, signed, act, gst, tick, last>>

NoTick == [set |-> FALSE, r |-> -1, k |-> "-", fired |-> FALSE]

\* timeoutRoutine: ignore a tick for an old round / not-later step (height is 1 throughout)
SlotAfter(sl, k, r) ==
  IF W("TickerKeepsFirst") /\ sl.set /\ ~sl.fired THEN sl
  ELSE IF sl.set /\ (r < sl.r \/ (r = sl.r /\ StepOfKind(k) <= StepOfKind(sl.k))) THEN sl
  ELSE [set |-> TRUE, r |-> r, k |-> k, fired |-> FALSE]

RECURSIVE SlotFold(_, _)
SlotFold(sl, out) ==
  IF out = << >> THEN sl
  ELSE LET h == Head(out) IN
       IF h.t = "sched" /\ h.v # "NewHeight" THEN SlotFold(SlotAfter(sl, h.v, h.r), Tail(out))
       ELSE SlotFold(sl, Tail(out))

GInit ==
  /\ Init
  /\ gst = [on |-> FALSE, round |-> 0]
  \* OnStart: scheduleRound0 puts the NewHeight timeout into the ticker
  /\ tick = [n \in Corr |-> [set |-> TRUE, r |-> 0, k |-> "NewHeight", fired |-> FALSE]]
  /\ last = [n \in Corr |-> [r |-> -1, votes |-> [v \in Vals |-> None]]]

MaxRoundOf == LET S == {rs[n].round : n \in Corr} IN CHOOSE x \in S : \A y \in S : y <= x

\* ------------------------------------------------------------------ what gossip can deliver
HeldBlocks == UNION {({rs[c].propBlock, rs[c].lockedV, rs[c].validV, rs[c].decision} \ {Nil}) : c \in Corr}
HeldProposals ==
  {m \in soup : m.t = "proposal"} \cup
  {[t |-> "proposal", src |-> Proposer(rs[c].prop.r), r |-> rs[c].prop.r, v |-> rs[c].prop.v, pol |-> rs[c].prop.pol] :
      c \in {x \in Corr : rs[x].height = 1 /\ rs[x].prop # NoProp}}
VotesOf(vs, t, r) ==
  {[t |-> t, src |-> v, r |-> r, v |-> vs.votes[v], pol |-> -2] : v \in {x \in Vals : vs.votes[x] # None}} \cup
  {[t |-> t, src |-> p[2], r |-> r, v |-> p[1], pol |-> -2] : p \in vs.by}
HeldVotes ==
  UNION {UNION {VotesOf(rs[c].pv[r], "prevote", r) \cup VotesOf(rs[c].pc[r], "precommit", r) : r \in Rounds} :
         c \in {x \in Corr : rs[x].height = 1}}
  \cup UNION {{[t |-> "precommit", src |-> v, r |-> last[c].r, v |-> last[c].votes[v], pol |-> -2] :
                    v \in {x \in Vals : last[c].votes[x] # None}} : c \in {x \in Corr : last[x].r >= 0}}
\* majority claims (VoteSetMaj23): a node that holds +2/3 for a block in (type, round) tells its peers
HeldClaims ==
  UNION {UNION {(IF HasMaj23(rs[c].pv[r]) THEN {[t |-> "claim_prevote", src |-> c, r |-> r, v |-> Maj23(rs[c].pv[r]), pol |-> -2]} ELSE {}) \cup
                (IF HasMaj23(rs[c].pc[r]) THEN {[t |-> "claim_precommit", src |-> c, r |-> r, v |-> Maj23(rs[c].pc[r]), pol |-> -2]} ELSE {}) :
                r \in Rounds} : c \in {x \in Corr : rs[x].height = 1}}
  \cup {[t |-> "claim_precommit", src |-> c, r |-> last[c].r, v |-> rs[c].decision, pol |-> -2] : c \in {x \in Corr : last[x].r >= 0}}

Needs(n, m) ==
  /\ rs[n].height = 1 /\ ~Dead(rs[n])
  /\ CASE m.t = "proposal" -> m.src # n /\ rs[n].prop = NoProp /\ rs[n].round = m.r
       [] m.t = "block"    -> rs[n].partsHdr = m.v /\ rs[n].propBlock = Nil
       \* a claim only matters to a node that holds a conflicting vote it could then replace/record
       [] m.t \in {"claim_prevote", "claim_precommit"} ->
            m.src # n /\ LET vs == IF m.t = "claim_prevote" THEN rs[n].pv[m.r] ELSE rs[n].pc[m.r] IN
                         /\ ~Claimed(vs, m.v) /\ ~(\E c \in vs.pm : c[1] = m.src)
                         /\ \E v \in Vals : vs.votes[v] \notin {None, m.v} /\ ~(<<m.v, v>> \in vs.by)
       [] OTHER            -> m.src # n /\ LET vs == IF m.t = "prevote" THEN rs[n].pv[m.r] ELSE rs[n].pc[m.r] IN
                                           ~(<<m.v, m.src>> \in vs.by) /\ (vs.votes[m.src] = None \/ Claimed(vs, m.v))

GossipSet(n) ==
  {m \in HeldProposals \cup HeldVotes \cup HeldClaims \cup {[t |-> "block", src |-> "-", r |-> -1, v |-> b, pol |-> -2] : b \in HeldBlocks} :
      Needs(n, m)}

Quiescent == /\ \A c \in Corr : inq[c] = << >>
             /\ \A c \in Corr : \A m \in GossipSet(c) : HandleMsg(c, rs[c], m, IF m.t = "block" THEN c ELSE m.src) = rs[c]

\* ------------------------------------------------------------------ actions
NodeStep(n, s2, firedNow, a) ==
  /\ rs' = [rs EXCEPT ![n] = ClearOut(s2)]
  /\ signed' = signed \cup SignedBy(n, s2.out)
  /\ tick' = [tick EXCEPT ![n] = SlotFold(IF firedNow THEN [tick[n] EXCEPT !.fired = TRUE] ELSE tick[n], s2.out)]
  /\ last' = [last EXCEPT ![n] = IF rs[n].decision = Nil /\ s2.decision # Nil
                                 THEN s2.lastCommit ELSE last[n]]
  /\ act' = a
  /\ UNCHANGED gst

\* before GST: the asynchronous network of TMConsensusNet, rounds limited to PreMax
PreDeliver(n, m) ==
  /\ ~gst.on
  /\ (m.t = "block" \/ m.src # n)
  /\ LET peer == IF m.t = "block" THEN n ELSE m.src
         s2   == HandleMsg(n, rs[n], m, peer) IN
     /\ s2 # rs[n] /\ s2.round <= PreMax
     /\ (LazyByz /\ m \in ByzVotes) => s2 # AddVote(rs[n], m.t, m.r, m.src, m.v, peer).s
     /\ (m \in ByzClaims) => ClaimUseful(rs[n], m)
     /\ NodeStep(n, s2, FALSE, [name |-> "Deliver", n |-> n, m |-> m, k |-> "-"])
     /\ inq' = [inq EXCEPT ![n] = inq[n] \o OutToMsgs(n, s2.out)]
     /\ soup' = soup

GProcessInternal(n) ==
  /\ inq[n] # << >>
  /\ LET m  == Head(inq[n])
         s2 == HandleMsg(n, rs[n], m, n) IN
     /\ NodeStep(n, s2, FALSE, [name |-> "ProcessInternal", n |-> n, m |-> m, k |-> "-"])
     /\ inq' = [inq EXCEPT ![n] = Tail(inq[n]) \o OutToMsgs(n, s2.out)]
     /\ soup' = soup \cup {m}

PreTimeout(n, k) ==
  /\ ~gst.on
  /\ TimeoutEnabled(rs[n], k)
  /\ LET s2 == HandleTimeout(n, rs[n], k, rs[n].round) IN
     /\ s2 # rs[n] /\ s2.round <= PreMax
     /\ NodeStep(n, s2, tick[n].set /\ tick[n].k = k /\ tick[n].r = rs[n].round,
                 [name |-> "Timeout", n |-> n, m |-> [t |-> "-", src |-> "-", r |-> rs[n].round, v |-> "-", pol |-> -2], k |-> k])
     /\ inq' = [inq EXCEPT ![n] = inq[n] \o OutToMsgs(n, s2.out)]
     /\ soup' = soup

GST ==
  /\ ~gst.on
  /\ gst' = [on |-> TRUE, round |-> MaxRoundOf]
  /\ act' = [name |-> "GST", n |-> "-", m |-> [t |-> "-", src |-> "-", r |-> -1, v |-> "-", pol |-> -2], k |-> "-"]
  /\ UNCHANGED <<rs, inq, soup, signed, tick, last>>

GossipDeliver(n, m) ==
  /\ gst.on
  /\ m \in GossipSet(n)
  /\ LET peer == IF m.t = "block" THEN n ELSE m.src
         s2   == HandleMsg(n, rs[n], m, peer) IN
     /\ s2 # rs[n]
     /\ NodeStep(n, s2, FALSE, [name |-> "Deliver", n |-> n, m |-> m, k |-> "-"])
     /\ inq' = [inq EXCEPT ![n] = inq[n] \o OutToMsgs(n, s2.out)]
     /\ soup' = soup

ByzDeliver(n, m) ==
  /\ gst.on /\ ByzAfterGST
  /\ LET s2 == HandleMsg(n, rs[n], m, m.src) IN
     /\ s2 # rs[n]
     /\ (LazyByz /\ m \in ByzVotes) => s2 # AddVote(rs[n], m.t, m.r, m.src, m.v, m.src).s
     /\ (m \in ByzClaims) => ClaimUseful(rs[n], m)
     /\ NodeStep(n, s2, FALSE, [name |-> "Deliver", n |-> n, m |-> m, k |-> "-"])
     /\ inq' = [inq EXCEPT ![n] = inq[n] \o OutToMsgs(n, s2.out)]
     /\ soup' = soup

\* at quiescence the timeout held by n's ticker fires (stale ones are dropped by handleTimeout)
\* Timers run at comparable speed on all correct nodes: a timeout that was scheduled for an earlier
\* (round, step) was scheduled earlier and fires first.
Pending(n) == rs[n].height = 1 /\ ~Dead(rs[n]) /\ tick[n].set /\ ~tick[n].fired
Earlier(a, b) == a.r < b.r \/ (a.r = b.r /\ StepOfKind(a.k) < StepOfKind(b.k))
TickFire(n) ==
  /\ gst.on /\ Quiescent
  /\ Pending(n)
  /\ \A o \in Corr : Pending(o) => ~Earlier(tick[o], tick[n])
  /\ LET s2 == HandleTimeout(n, rs[n], tick[n].k, tick[n].r) IN
     /\ NodeStep(n, s2, TRUE, [name |-> "Timeout", n |-> n, m |-> [t |-> "tick", src |-> "-", r |-> tick[n].r, v |-> "-", pol |-> -2], k |-> tick[n].k])
     /\ inq' = [inq EXCEPT ![n] = inq[n] \o OutToMsgs(n, s2.out)]
     /\ soup' = soup

CorrectPostGST(n) ==
  \/ \E m \in GossipSet(n) : GossipDeliver(n, m)
  \/ (gst.on /\ GProcessInternal(n))
  \/ TickFire(n)

GNext ==
  \/ GST
  \/ \E n \in Corr :
       \/ \E m \in soup \cup ByzMsgs : PreDeliver(n, m)
       \/ (~gst.on /\ GProcessInternal(n))
       \/ \E k \in {"NewHeight", "Propose", "PrevoteWait", "PrecommitWait"} : PreTimeout(n, k)
       \/ CorrectPostGST(n)
       \/ \E m \in ByzMsgs : ByzDeliver(n, m)

GSpec == GInit /\ [][GNext]_gvars /\ \A n \in Corr : WF_gvars(CorrectPostGST(n))

\* ------------------------------------------------------------------ properties (C03)
AllDecided == \A n \in Corr : rs[n].decision # Nil
BoundedRounds == gst.on => \A n \in Corr : rs[n].decision = Nil => rs[n].round <= gst.round + Bound /\ ~rs[n].stuck
Termination == gst.on ~> AllDecided
\* no post-GST state in which the correct nodes are undecided and none of them can act
CanAct(n) ==
  \/ inq[n] # << >>
  \/ \E m \in GossipSet(n) : HandleMsg(n, rs[n], m, IF m.t = "block" THEN n ELSE m.src) # rs[n]
  \/ (Quiescent /\ Pending(n) /\ \A o \in Corr : Pending(o) => ~Earlier(tick[o], tick[n]))
NoPostGSTDeadlock == (gst.on /\ ~AllDecided) => \E n \in Corr : CanAct(n)
GView == <<rs, inq, soup, gst, tick, last>>
=============================================================================
