------------------------------ MODULE TMIndexer ------------------------------
(* The event indexers behind /tx_search and /block_search and the service that feeds them:
     state/txindex/indexer_service.go   IndexerService (subscriber of the event bus)
     state/txindex/kv/kv.go             TxIndex.AddBatch / Index / Get / Search
     state/indexer/block/kv/kv.go       BlockerIndexer.Index / Has / Search
     state/indexer/query_range.go       LookForRanges, Lower/UpperBoundValue
   written as operators over values (no variables): the state machine is TMIndexerSM, the
   trace specification is trace/TMIndexerTrace.tla.

   A transaction result  r = [tx, height, index, code, events]
        events = sequence of [type, attrs = sequence of [k, v, idx]]      (abci.Event)
   A block               b = [height, begin, end, txs]     begin/end = events of Begin/EndBlock

   tx store    = [keys : set of [k |-> "<type.key>/<value>/<height>/<index>", h |-> hash],
                  prim : set of [h, tx, height, index, code]]   (primary record, key = hash)
                 -- the REAL key strings, because the search code dissects them textually
                    (isTagKey counts "/", extractValueFromKey splits at "/")
   block store = [prim : set of heights, keys : set of [key, value, height, typ]]
                 -- orderedcode tuples; orderedcode is an injective, component-wise prefix code

   Matches (TMQuery) is the ONE definition of "satisfies the query"; the property compares
   what Search returns with Brute = {indexed item : Matches(q, EventsOf(item)) = "TRUE"}.
   EventsOf = the attributes flagged index:true plus the implicit tx.height / tx.hash
   (block.height), i.e. what "indexed under its events" means.

   The search operators below model the code AS IT IS (S14 / S17 of DESIGN.md section 8 are
   reproduced by them); Cause names the reason of a disagreement with Brute, narrowly.     *)
EXTENDS TMQuery, TLC

CONSTANTS
  Weak_RangeIgnoresUpper,      \* matchRange forgets the upper bound
  Weak_PrefixMatchAsEquality,  \* equality scans with prefix "key/value" instead of "key/value/"
  Weak_BatchSkipsFirst         \* AddBatch does not write the first transaction of a batch

SeqToSet(s) == {s[i] : i \in 1..Len(s)}
HashOf(tx) == "H(" \o tx \o ")"        \* types.Tx.Hash, symbolic and injective
TxHashKey == "tx.hash"
TxHeightKey == "tx.height"
BlockHeightKey == "block.height"
Sep == "/"

\* ---------------------------------------------------------------- events of an item
\* the indexable attributes of a list of abci events, in order: <<composite key, value>>
RECURSIVE FlatAttrs(_, _, _)
FlatAttrs(events, i, j) ==
  IF i > Len(events) THEN << >>
  ELSE IF j > Len(events[i].attrs) THEN FlatAttrs(events, i + 1, 1)
  ELSE LET a == events[i].attrs[j] IN
       IF Len(events[i].type) > 0 /\ Len(a.k) > 0 /\ a.idx
       THEN <<[key |-> events[i].type \o "." \o a.k, value |-> a.v]>> \o FlatAttrs(events, i, j + 1)
       ELSE FlatAttrs(events, i, j + 1)
IndexedAttrs(events) == FlatAttrs(events, 1, 1)

RECURSIVE GroupAttrs(_, _, _)
\* map[string][]string as a sequence of [k, v]: first occurrence order of keys, values in order
GroupAttrs(fa, i, acc) ==
  IF i > Len(fa) THEN acc
  ELSE LET p == {j \in 1..Len(acc) : acc[j].k = fa[i].key} IN
       IF p = {} THEN GroupAttrs(fa, i + 1, Append(acc, [k |-> fa[i].key, v |-> <<fa[i].value>>]))
       ELSE LET j == CHOOSE x \in p : TRUE IN
            GroupAttrs(fa, i + 1, [acc EXCEPT ![j].v = Append(@, fa[i].value)])

AddValue(m, key, value) == GroupAttrs(<<[key |-> key, value |-> value]>>, 1, m)

\* what a transaction is indexed under
TxEventsOf(r) == AddValue(AddValue(GroupAttrs(IndexedAttrs(r.events), 1, << >>), TxHashKey, HashOf(r.tx)),
                          TxHeightKey, ToString(r.height))
\* what a block is indexed under (begin events, then end events, as the event bus joins them)
BlockEventsOf(b) == AddValue(GroupAttrs(IndexedAttrs(b.begin \o b.end), 1, << >>), BlockHeightKey, ToString(b.height))

\* ---------------------------------------------------------------- what the event bus publishes
\* types/event_bus.go validateAndStringifyEvents: EVERY attribute (indexed or not) of events
\* with a type and a key; then the predefined keys are APPENDED (an application attribute
\* named tx.height is kept next to the real height -- the realistic trigger of S5)
RECURSIVE FlatAll(_, _, _)
FlatAll(events, i, j) ==
  IF i > Len(events) THEN << >>
  ELSE IF j > Len(events[i].attrs) THEN FlatAll(events, i + 1, 1)
  ELSE LET a == events[i].attrs[j] IN
       IF Len(events[i].type) > 0 /\ Len(a.k) > 0
       THEN <<[key |-> events[i].type \o "." \o a.k, value |-> a.v]>> \o FlatAll(events, i, j + 1)
       ELSE FlatAll(events, i, j + 1)
Stringify(events) == GroupAttrs(FlatAll(events, 1, 1), 1, << >>)
EventTypeKey == "tm.event"
\* EventBus.PublishEventTx
BusEventsTx(r) == AddValue(AddValue(AddValue(Stringify(r.events), EventTypeKey, "Tx"), TxHashKey, HashOf(r.tx)),
                           TxHeightKey, ToString(r.height))
\* EventBus.PublishEventNewBlock / PublishEventNewBlockHeader (which = "NewBlock" | "NewBlockHeader")
BusEventsBlock(b, which) == AddValue(Stringify(b.begin \o b.end), EventTypeKey, which)

ValuesFor(m, key) == IF HasKey(m, key) THEN ValuesOf(m, key) ELSE << >>

\* ---------------------------------------------------------------- tx index: writing
EmptyTxDB == [keys |-> {}, prim |-> {}]
KeyForEvent(key, value, r) == key \o Sep \o value \o Sep \o ToString(r.height) \o Sep \o ToString(r.index)
KeyForHeight(r) == KeyForEvent(TxHeightKey, ToString(r.height), r)
PrimOf(r) == [h |-> HashOf(r.tx), tx |-> r.tx, height |-> r.height, index |-> r.index, code |-> r.code]

TxKeysOf(r) ==
  LET fa == IndexedAttrs(r.events) IN
  {[k |-> KeyForEvent(fa[i].key, fa[i].value, r), h |-> HashOf(r.tx)] : i \in 1..Len(fa)}
  \cup {[k |-> KeyForHeight(r), h |-> HashOf(r.tx)]}

\* one transaction of AddBatch / Index: event keys, height key, primary record (overwritten)
TxPut(db, r) == [keys |-> {e \in db.keys : e.k \notin {x.k : x \in TxKeysOf(r)}} \cup TxKeysOf(r),
                 prim |-> {p \in db.prim : p.h # HashOf(r.tx)} \cup {PrimOf(r)}]

RECURSIVE TxPutAll(_, _, _)
TxPutAll(db, txs, i) == IF i > Len(txs) THEN db ELSE TxPutAll(TxPut(db, txs[i]), txs, i + 1)
\* TxIndex.AddBatch
TxAddBatch(db, txs) == TxPutAll(db, txs, IF Weak_BatchSkipsFirst THEN 2 ELSE 1)

\* TxIndex.Index: a failed result does not replace an earlier successful one
TxIndexOne(db, r) ==
  IF r.code # 0 /\ \E p \in db.prim : p.h = HashOf(r.tx) /\ p.code = 0 THEN db ELSE TxPut(db, r)

\* ---------------------------------------------------------------- tx index: Search
IsTagKey(k) == StrCount(k, Sep) = 3
\* strings.SplitN(key, "/", 3)[1]
ExtractValue(k) == LET a == StrNth(k, Sep, 1)
                       b == StrNth(k, Sep, 2)
                   IN SubSeq(k, a + 1, b - 1)

\* strconv.ParseInt(s, 10, 64): optional sign, then digits
GoParseInt(s) ==
  LET neg == Len(s) > 0 /\ Ch(s, 1) = "-"
      d   == IF Len(s) > 0 /\ Ch(s, 1) \in {"-", "+"} THEN SubSeq(s, 2, Len(s)) ELSE s
  IN IF Len(d) = 0 \/ \E i \in 1..Len(d) : Ch(d, i) \notin DigitSet THEN [ok |-> FALSE, n |-> 0]
     ELSE [ok |-> TRUE, n |-> IF neg THEN 0 - DigitsVal(d) ELSE DigitsVal(d)]

\* fmt.Sprintf("%v", operand): int64 and string as written; float64 12.0 prints as "12"
OperandText(c) ==
  IF c.kind = "float" THEN
       LET p  == StrNth(c.arg, ".", 1)
           fp == SubSeq(c.arg, p + 1, Len(c.arg))
           z  == \A i \in 1..Len(fp) : Ch(fp, i) = "0"
       IN IF z THEN SubSeq(c.arg, 1, p - 1) ELSE c.arg
  ELSE c.arg

\* indexer.LookForRanges: one range per key; a later bound of the same side replaces an earlier one
RangeKeys(q) == {q[i].key : i \in {j \in 1..Len(q) : IsRangeOp(q[j].op)}}
NoBound == [set |-> FALSE, x |-> 0, incl |-> FALSE, isfloat |-> FALSE]
LastIdx(q, key, ops) == LET P == {i \in 1..Len(q) : q[i].key = key /\ q[i].op \in ops} IN
                        IF P = {} THEN 0 ELSE CHOOSE i \in P : \A j \in P : i >= j
BoundOf(q, key, ops, inclop) ==
  LET i == LastIdx(q, key, ops) IN
  IF i = 0 THEN NoBound
  ELSE [set |-> TRUE, x |-> ParseNum(q[i].arg).x \div 1000,
        \* IncludeXBound is only ever SET (by <= / >=), never cleared by a later < / >
        incl |-> \E j \in 1..Len(q) : q[j].key = key /\ q[j].op = inclop,
        isfloat |-> q[i].kind = "float"]
RangeOf(q, key) == [key |-> key, lo |-> BoundOf(q, key, {">", ">="}, ">="), hi |-> BoundOf(q, key, {"<", "<="}, "<=")]
\* QueryRange.AnyBound is an int64
AnyBoundIsInt(qr) == IF qr.lo.set THEN ~qr.lo.isfloat ELSE ~qr.hi.isfloat
LowerBoundValue(qr) == IF qr.lo.incl THEN qr.lo.x ELSE qr.lo.x + 1
UpperBoundValue(qr) == IF qr.hi.incl THEN qr.hi.x ELSE qr.hi.x - 1

InRange(qr, v) ==
  /\ (qr.lo.set => v >= LowerBoundValue(qr))
  /\ (qr.hi.set /\ ~Weak_RangeIgnoresUpper => v <= UpperBoundValue(qr))

\* TxIndex.matchRange: hashes of the tag keys under "key/" whose value parses as an integer in range
TxMatchRange(db, qr) ==
  IF ~AnyBoundIsInt(qr) THEN {}
  ELSE {e.h : e \in {x \in db.keys :
                       /\ StrHasPrefix(x.k, qr.key \o Sep)
                       /\ IsTagKey(x.k)
                       /\ LET v == GoParseInt(ExtractValue(x.k)) IN v.ok /\ InRange(qr, v.n)}}

\* lookForHeight: the first "tx.height = N" (0 = none)
TxHeightOf(q) == LET P == {i \in 1..Len(q) : q[i].key = TxHeightKey /\ q[i].op = "="} IN
                 IF P = {} THEN 0 ELSE ParseNum(q[CHOOSE i \in P : \A j \in P : i <= j].arg).x \div 1000

\* startKeyForCondition
StartKey(c, height) ==
  c.key \o Sep \o OperandText(c) \o (IF Weak_PrefixMatchAsEquality THEN "" ELSE Sep)
        \o (IF height > 0 THEN ToString(height) \o Sep ELSE "")

\* TxIndex.match for one non-range condition
TxMatchCond(db, c, height) ==
  CASE c.op = "="        -> {e.h : e \in {x \in db.keys : StrHasPrefix(x.k, StartKey(c, height))}}
    [] c.op = "EXISTS"   -> {e.h : e \in {x \in db.keys : StrHasPrefix(x.k, c.key \o Sep)}}
    [] c.op = "CONTAINS" -> {e.h : e \in {x \in db.keys : /\ StrHasPrefix(x.k, c.key \o Sep)
                                                           /\ IsTagKey(x.k)
                                                           /\ StrContains(ExtractValue(x.k), c.arg)}}

HashConds(q) == {i \in 1..Len(q) : q[i].key = TxHashKey}
\* the intersection of all condition results (the code intersects incrementally; an empty
\* query has no conditions and cannot be written in the grammar)
TxSearchHashes(db, q) ==
  LET rk   == RangeKeys(q)
      rest == {i \in 1..Len(q) : ~IsRangeOp(q[i].op)}
      sets == {TxMatchRange(db, RangeOf(q, k)) : k \in rk} \cup {TxMatchCond(db, q[i], TxHeightOf(q)) : i \in rest}
  IN {h \in UNION sets : \A s \in sets : h \in s}

\* TxIndex.Search: the set of primary records returned
TxSearch(db, q) ==
  IF HashConds(q) # {} THEN
       \* "if there is a hash condition, return the result immediately": every other condition is ignored
       LET c == q[CHOOSE i \in HashConds(q) : \A j \in HashConds(q) : i <= j] IN
       {p \in db.prim : p.h = c.arg}
  ELSE {p \in db.prim : p.h \in TxSearchHashes(db, q)}

\* ---------------------------------------------------------------- block index
EmptyBlockDB == [prim |-> {}, keys |-> {}]
BlockKeysOf(b) ==
  LET fb == IndexedAttrs(b.begin)
      fe == IndexedAttrs(b.end)
  IN {[key |-> fb[i].key, value |-> fb[i].value, height |-> b.height, typ |-> "begin_block"] : i \in 1..Len(fb)}
     \cup {[key |-> fe[i].key, value |-> fe[i].value, height |-> b.height, typ |-> "end_block"] : i \in 1..Len(fe)}
\* BlockerIndexer.Index (an event attribute named block.height makes the whole call fail: not modelled)
BlockIndex(db, b) == [prim |-> db.prim \cup {b.height}, keys |-> db.keys \cup BlockKeysOf(b)]

BlockHeightEq(q) == {i \in 1..Len(q) : q[i].key = BlockHeightKey /\ q[i].op = "="}

BlockMatchRange(db, qr) ==
  IF ~AnyBoundIsInt(qr) THEN {}
  ELSE IF qr.key = BlockHeightKey THEN {h \in db.prim : InRange(qr, h)}
  ELSE {e.height : e \in {x \in db.keys : x.key = qr.key /\ LET v == GoParseInt(x.value) IN v.ok /\ InRange(qr, v.n)}}

BlockMatchCond(db, c) ==
  CASE c.op = "="        -> {e.height : e \in {x \in db.keys : x.key = c.key /\
                                  IF Weak_PrefixMatchAsEquality THEN StrHasPrefix(x.value, OperandText(c))
                                  ELSE x.value = OperandText(c)}}
    [] c.op = "EXISTS"   -> {e.height : e \in {x \in db.keys : x.key = c.key}}
                              \cup (IF c.key = BlockHeightKey THEN db.prim ELSE {})
    [] c.op = "CONTAINS" -> {e.height : e \in {x \in db.keys : x.key = c.key /\ StrContains(x.value, c.arg)}}

\* BlockerIndexer.Search: the set of heights returned
BlockSearch(db, q) ==
  IF BlockHeightEq(q) # {} THEN
       \* "If there is an exact height query, return the result immediately"
       LET n == ParseNum(q[CHOOSE i \in BlockHeightEq(q) : \A j \in BlockHeightEq(q) : i <= j].arg).x \div 1000 IN
       {h \in db.prim : h = n}
  ELSE LET rk   == RangeKeys(q)
           rest == {i \in 1..Len(q) : ~IsRangeOp(q[i].op)}
           sets == {BlockMatchRange(db, RangeOf(q, k)) : k \in rk} \cup {BlockMatchCond(db, q[i]) : i \in rest}
       IN {h \in UNION sets : (\A s \in sets : h \in s) /\ h \in db.prim}

\* ---------------------------------------------------------------- the property
TxBrute(txs, q)    == {r \in txs : Matches(q, TxEventsOf(r)) = "TRUE"}
BlockBrute(bs, q)  == {b.height : b \in {x \in bs : Matches(q, BlockEventsOf(x)) = "TRUE"}}

\* IndexOnce for one committed transaction against a tx store
TxIndexedOnce(db, r) ==
  /\ \E p \in db.prim : p = PrimOf(r)
  /\ \A e \in TxKeysOf(r) : e \in db.keys
  \* nothing else in the store claims the same position
  /\ \A e \in db.keys : e.h = HashOf(r.tx) => e \in TxKeysOf(r)
BlockIndexedOnce(db, b) == b.height \in db.prim /\ \A e \in BlockKeysOf(b) : e \in db.keys

\* ---------------------------------------------------------------- queries on which Search panics
\* (type switches / type assertions on the operand that only expect int64 resp. string; the
\*  RPC layer turns the panic into an internal error).  "none" = no panic possible.
\*   - QueryRange.LowerBoundValue/UpperBoundValue: an EXCLUSIVE bound that is a float64 -> panic("not implemented")
\*   - matchRange: lower bound int64, upper bound float64 -> upperBound.(int64) (only when an integer value is scanned)
\*   - lookForHeight: c.Operand.(int64);  lookForHash: c.Operand.(string)
FirstOf(P) == CHOOSE i \in P : \A j \in P : i <= j
FloatExclusive(q) == \E k \in RangeKeys(q) : LET qr == RangeOf(q, k) IN
                        \/ qr.lo.set /\ qr.lo.isfloat /\ ~qr.lo.incl
                        \/ qr.hi.set /\ qr.hi.isfloat /\ ~qr.hi.incl
MixedBounds(q) == \E k \in RangeKeys(q) : LET qr == RangeOf(q, k) IN
                        qr.lo.set /\ ~qr.lo.isfloat /\ qr.hi.set /\ qr.hi.isfloat
RangePanic(q) == IF FloatExclusive(q) THEN "exclusive_float_bound"
                 ELSE IF MixedBounds(q) THEN "int_and_float_bound_on_one_key" ELSE "none"
PanicReason(kind, q) ==
  IF kind = "tx" THEN
       IF HashConds(q) # {} THEN (IF q[FirstOf(HashConds(q))].kind # "str" THEN "hash_operand_not_a_string" ELSE "none")
       ELSE IF RangePanic(q) # "none" THEN RangePanic(q)
       ELSE LET P == {i \in 1..Len(q) : q[i].key = TxHeightKey /\ q[i].op = "="} IN
            IF P # {} /\ q[FirstOf(P)].kind # "int" THEN "height_operand_not_an_integer" ELSE "none"
  ELSE IF BlockHeightEq(q) # {} THEN
            (IF q[FirstOf(BlockHeightEq(q))].kind # "int" THEN "height_operand_not_an_integer" ELSE "none")
       ELSE RangePanic(q)

\* ---------------------------------------------------------------- why Search and Brute can disagree
\* (evaluated for an item on which they disagree; the first applicable reason, narrow on purpose)
HasSep(s) == StrContains(s, Sep)
NumericConds(q) == {i \in 1..Len(q) : q[i].kind \in {"int", "float"}}
Cause(kind, q, m, dup) ==  \* kind = "tx" | "block", m = EventsOf(item), dup = the same tx bytes were committed twice
  IF dup THEN "same_tx_bytes_committed_twice"     \* the primary record is keyed by the hash: the later one wins
  ELSE IF kind = "tx" /\ HashConds(q) # {} /\ Len(q) > 1 THEN "hash_shortcut_ignores_other_conditions"
  ELSE IF kind = "block" /\ BlockHeightEq(q) # {} /\ Len(q) > 1 THEN "height_shortcut_ignores_other_conditions"
  ELSE IF kind = "tx" /\ \E i \in 1..Len(q) :
             \/ q[i].kind = "str" /\ HasSep(q[i].arg)
             \/ \E j \in 1..Len(ValuesFor(m, q[i].key)) : HasSep(ValuesFor(m, q[i].key)[j])
       THEN "separator_in_value"
  ELSE IF \E i \in NumericConds(q) : \E j \in 1..Len(ValuesFor(m, q[i].key)) : ~IsCanonInt(ValuesFor(m, q[i].key)[j])
       THEN "noncanonical_numeric_value"
  ELSE IF \E i \in NumericConds(q) : q[i].kind = "float" THEN "float_operand"
  ELSE IF \E k \in RangeKeys(q) : Cardinality({i \in 1..Len(q) : q[i].key = k /\ IsRangeOp(q[i].op)}) > 1
                                  /\ Len(ValuesFor(m, k)) > 1
       THEN "range_conditions_on_multivalued_attribute"
  ELSE IF \E i, j \in 1..Len(q) : i # j /\ q[i].key = q[j].key /\ IsRangeOp(q[i].op) /\ IsRangeOp(q[j].op)
                                  /\ (q[i].op \in {">", ">="}) = (q[j].op \in {">", ">="})
       THEN "repeated_range_bound"
  ELSE IF \E i \in 1..Len(q) : q[i].op = "EXISTS" /\ ~StrContains(q[i].key, ".") THEN "exists_on_key_prefix"
  ELSE "none"
=============================================================================
