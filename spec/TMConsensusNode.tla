--------------------------- MODULE TMConsensusNode ---------------------------
(* One consensus node of Tendermint Core v0.34 (consensus/state.go,
   consensus/types/height_vote_set.go, types/vote_set.go), for one height.

   The node state is ONE record `s`; every operator takes `s` and returns the next
   record.  Each operator transcribes one Go function, guard by guard, in the code's
   order; sequential composition mirrors consecutive calls made while cs.mtx is held
   (nobody can observe the middle).  Outputs of a step (messages signed and pushed on
   cs.internalMsgQueue, timeouts handed to the ticker) accumulate in s.out.

   The operators are used by
     - TMConsensusNet  : N nodes + message soup + Byzantine soup       (C01, C03)
     - TMConsensusSolo : one node against a fully adversarial peer set  (C02)
     - TMConsensusTrace: validation of traces recorded from real consensus.State
   so there is one source of truth for the node's rules.

   Abstract values: a block is a string; "nil" is the nil vote / absent block; "none"
   means "no vote / no majority".  A block id (hash + part-set header) is identified
   with the block: the code compares hashes for LockedBlock/ProposalBlock and part-set
   headers for ProposalBlockParts; with collision-free hashing both identify the block.
*)
EXTENDS Integers, Sequences, FiniteSets, TLC

CONSTANTS
  Vals,          \* all validators (strings)
  PowerOf,       \* [Vals -> Nat \ {0}]
  ProposerSeq,   \* sequence: ProposerSeq[r+1] = proposer of round r (types.ValidatorSet rotation, see TMValSet)
  MaxRound,      \* rounds 0..MaxRound are modelled; entering a later round marks the node "stuck" (model boundary)
  InvalidValues, \* blocks that fail BlockExecutor.ValidateBlock
  Weak           \* set of names of deliberately weakened guards (empty in the real spec)

Nil  == "nil"
None == "none"
Rounds == 0..MaxRound
W(name) == name \in Weak

\* cstypes.RoundStepType (numeric values as in consensus/types/round_state.go)
StNewHeight == 1  StNewRound == 2  StPropose == 3  StPrevote == 4  StPrevoteWait == 5
StPrecommit == 6  StPrecommitWait == 7  StCommit == 8

RECURSIVE SumPower(_)
SumPower(S) == IF S = {} THEN 0 ELSE LET x == CHOOSE y \in S : TRUE IN PowerOf[x] + SumPower(S \ {x})
Total == SumPower(Vals)

\* the property's wording and the code's arithmetic (types/vote_set.go: quorum := total*2/3 + 1)
IsQuorum(p)     == IF W("QuorumOffByOne") THEN p >= (Total * 2) \div 3 ELSE p >= (Total * 2) \div 3 + 1
StrictQuorum(p) == 3 * p > 2 * Total
IsTwoThirdsAny(p) == p > (Total * 2) \div 3
ASSUME QuorumArithmetic == W("QuorumOffByOne") \/ \A p \in 0..Total : IsQuorum(p) <=> StrictQuorum(p)

Proposer(r) == ProposerSeq[r + 1]
\* the block a correct proposer creates at this height (state.MakeBlock: at the initial
\* height the block time is the genesis time and the mempool is empty, so the block depends
\* on the proposer only)
FreshValue(n) == "B" \o n
\* Block identity.  A vote, a proposal and a part set carry a BlockID = (block hash, part-set header); the values of this
\* spec are names of BlockIDs.  The same block can be cut into parts in more than one way (protobuf encodings are not
\* unique: an unknown trailing field decodes to the same block), so two BlockIDs can share the hash: "Z0~" / "Z1~" name a
\* second encoding of the blocks Z0 / Z1.  Canon(v) is the name of the BLOCK (its hash).  The operators below compare with
\* SameBlock where the code calls Block.HashesTo(blockID.Hash) and with = where it compares BlockIDs / part-set headers.
Canon(v) == IF v = "Z0~" THEN "Z0" ELSE IF v = "Z1~" THEN "Z1" ELSE v
SameBlock(a, b) == Canon(a) = Canon(b)
Valid(v) == Canon(v) \notin InvalidValues
\* cs.proposalBlockIs(blockID): the proposal block hashes to the BlockID's hash AND was assembled from the part set the
\* BlockID names.  (Invariant of the record: propBlock # Nil => propBlock is the name of the part set it came from.)
\* Before fix c64c7a4 only the hash was compared (Weak switch BlockMatchedByHashOnly): a node holding another encoding of the
\* voted block kept it while replacing its part set by an empty one for the voted header, locked on that pair and crashed in
\* finalizeCommit/SaveBlock ("BlockStore can only save complete block part sets").
PropIs(s, v) == s.propBlock # Nil /\ (IF W("BlockMatchedByHashOnly") THEN SameBlock(s.propBlock, v) ELSE s.propBlock = v /\ s.partsHdr = v)

\* ------------------------------------------------------------------ vote sets (types/vote_set.go)
\* votes : the primary vote per validator (VoteSet.votes)            -- what is gossiped / put in a commit
\* by    : {<<block, validator>>}  votes recorded per block (VoteSet.votesByBlock)
\* pm    : {<<peer, block>>}       +2/3 claims received from peers (VoteSet.peerMaj23s); a conflicting
\*                                 vote is only recorded for a block that some peer has claimed
\* maj   : the FIRST block whose recorded votes crossed the quorum (VoteSet.maj23), None if none
EmptyVS == [votes |-> [v \in Vals |-> None], by |-> {}, pm |-> {}, maj |-> None]
Voters(vs)     == {v \in Vals : vs.votes[v] # None}
ByFor(vs, x)   == {p[2] : p \in {q \in vs.by : q[1] = x}}
Claimed(vs, x) == \E c \in vs.pm : c[2] = x
Maj23(vs)    == vs.maj                                   \* VoteSet.TwoThirdsMajority
HasMaj23(vs) == vs.maj # None
AnyQ(vs)     == IsTwoThirdsAny(SumPower(Voters(vs)))     \* VoteSet.HasTwoThirdsAny (sum of first votes)
HasAll(vs)   == Voters(vs) = Vals

\* VoteSet.addVote / addVerifiedVote for a verified vote of `src` for `val`: [vs, added]
VSAdd(vs, src, val) ==
  IF <<val, src>> \in vs.by \/ vs.votes[src] = val THEN [vs |-> vs, added |-> FALSE]        \* duplicate
  ELSE
  LET conflicting == vs.votes[src] # None
      \* a conflicting vote for the block that already has the majority replaces the primary entry
      votes1 == IF conflicting
                THEN (IF vs.maj # None /\ vs.maj = val THEN [vs.votes EXCEPT ![src] = val] ELSE vs.votes)
                ELSE [vs.votes EXCEPT ![src] = val]
  IN IF conflicting /\ ~Claimed(vs, val) /\ ~W("ConflictingVotesBothCounted")
     THEN [vs |-> [vs EXCEPT !.votes = votes1], added |-> FALSE]                             \* ErrVoteConflictingVotes
     ELSE LET by1   == vs.by \cup {<<val, src>>}
              old   == SumPower(ByFor(vs, val))
              cross == ~IsQuorum(old) /\ IsQuorum(old + PowerOf[src]) /\ vs.maj = None
          IN [vs |-> [votes |-> IF cross THEN [v \in Vals |-> IF <<val, v>> \in by1 THEN val ELSE votes1[v]] ELSE votes1,
                      by |-> by1, pm |-> vs.pm, maj |-> IF cross THEN val ELSE vs.maj],
              added |-> TRUE]

\* VoteSet.SetPeerMaj23: one claim per peer and vote set
VSClaim(vs, peer, val) ==
  IF \E c \in vs.pm : c[1] = peer THEN vs ELSE [vs EXCEPT !.pm = vs.pm \cup {<<peer, val>>}]

\* ------------------------------------------------------------------ node state
NoProp == [r |-> -1, v |-> Nil, pol |-> -1]

InitNode ==
  [ height   |-> 1,
    round    |-> 0,  step |-> StNewHeight,
    lockedR  |-> -1, lockedV |-> Nil,
    validR   |-> -1, validV  |-> Nil,
    prop     |-> NoProp,
    propBlock |-> Nil,        \* cs.ProposalBlock
    partsHdr |-> Nil,         \* header of cs.ProposalBlockParts (Nil = no part set)
    ttp      |-> FALSE,       \* cs.TriggeredTimeoutPrecommit
    commitR  |-> -1,
    pv       |-> [r \in Rounds |-> EmptyVS],
    pc       |-> [r \in Rounds |-> EmptyVS],
    tracked  |-> {0},         \* rounds that have a RoundVoteSet (HeightVoteSet.roundVoteSets)
    catchup  |-> [p \in Vals \cup {"ext"} |-> 0],   \* HeightVoteSet.peerCatchupRounds sizes ("ext": any other peer id)
    lastCommit |-> [r |-> -1, votes |-> [v \in Vals |-> None]],   \* cs.LastCommit: the precommits of the commit round
    decision |-> Nil,         \* block saved by finalizeCommit
    panic    |-> "none",      \* reason if the code would panic
    stuck    |-> FALSE,       \* left the modelled rounds
    out      |-> << >> ]

Msg(t, r, v, pol) == [t |-> t, r |-> r, v |-> v, pol |-> pol]
Emit(s, m)     == [s EXCEPT !.out = Append(s.out, m)]
Sched(s, k, r) == Emit(s, Msg("sched", r, k, -2))
Panic(s, why)  == IF s.panic = "none" THEN [s EXCEPT !.panic = why] ELSE s
Dead(s) == s.panic # "none" \/ s.stuck

Unlock(s) == [s EXCEPT !.lockedR = -1, !.lockedV = Nil]

\* cs.isProposalComplete
ProposalComplete(s) ==
  /\ s.prop # NoProp
  /\ s.propBlock # Nil
  /\ (s.prop.pol < 0 \/ HasMaj23(s.pv[s.prop.pol]))

\* ------------------------------------------------------------------ finalizeCommit
\* tryFinalizeCommit + finalizeCommit (persistence steps are refined in TMCommitPipeline)
TryFinalizeCommit(s) ==
  LET maj == Maj23(s.pc[s.commitR]) IN
  IF maj = None \/ maj = Nil THEN s
  ELSE IF ~PropIs(s, maj) THEN s
  \* finalizeCommit: "expected ProposalBlockParts header to be commit header" — the block is stored under the header of
  \* the part set it was assembled from, which must be the one the precommits are for
  ELSE IF s.partsHdr # maj /\ ~W("CommitIgnoresPartsHeader") THEN Panic(s, "parts header differs from commit header")
  \* SaveBlock: "BlockStore can only save complete block part sets" (the part set is complete iff the block came from it)
  ELSE IF s.propBlock # s.partsHdr /\ ~W("CommitIgnoresPartsHeader") THEN Panic(s, "incomplete part set at commit")
  ELSE IF ~Valid(maj) /\ ~W("CommitSkipsValidate") THEN Panic(s, "committed an invalid block")
  ELSE \* SaveBlock, WAL end-height, ApplyBlock, updateToState (height+1, round 0, NewHeight), scheduleRound0
       Sched([s EXCEPT !.decision = s.partsHdr, !.lastCommit = [r |-> s.commitR, votes |-> s.pc[s.commitR].votes], !.height = 2, !.round = 0, !.step = StNewHeight,
                       !.prop = NoProp, !.propBlock = Nil, !.partsHdr = Nil,
                       !.lockedR = -1, !.lockedV = Nil, !.validR = -1, !.validV = Nil,
                       !.ttp = FALSE, !.commitR = -1,
                       !.pv = [r \in Rounds |-> EmptyVS], !.pc = [r \in Rounds |-> EmptyVS],
                       !.tracked = {0}, !.catchup = [p \in Vals \cup {"ext"} |-> 0]],
             "NewHeight", 0)

\* cs.enterCommit(height, commitRound)
EnterCommit(s, cr) ==
  IF Dead(s) \/ s.height # 1 \/ StCommit <= s.step THEN s ELSE
  LET maj == Maj23(s.pc[cr]) IN
  IF maj = None THEN Panic(s, "enterCommit without +2/3 precommits") ELSE
  LET s1 == IF s.lockedV # Nil /\ SameBlock(s.lockedV, maj)
            THEN [s EXCEPT !.propBlock = s.lockedV, !.partsHdr = s.lockedV] ELSE s
      s2 == IF ~PropIs(s1, maj) /\ s1.partsHdr # maj
            THEN [s1 EXCEPT !.propBlock = Nil, !.partsHdr = maj] ELSE s1
      s3 == [s2 EXCEPT !.step = StCommit, !.commitR = cr]
  IN TryFinalizeCommit(s3)

\* cs.enterPrecommitWait(height, round)
EnterPrecommitWait(s, r) ==
  IF Dead(s) \/ s.height # 1 \/ r < s.round \/ (r = s.round /\ s.ttp) THEN s
  ELSE IF ~AnyQ(s.pc[r]) THEN Panic(s, "enterPrecommitWait without +2/3 any")
  ELSE [Sched(s, "PrecommitWait", r) EXCEPT !.ttp = TRUE]

\* cs.enterPrecommit(height, round)
EnterPrecommit(s, r) ==
  IF Dead(s) \/ s.height # 1 \/ r < s.round \/ (r = s.round /\ StPrecommit <= s.step) THEN s ELSE
  LET maj == Maj23(s.pv[r])
      fin(x, val) == [Emit(x, Msg("precommit", x.round, val, -2)) EXCEPT !.round = r, !.step = StPrecommit]
  IN IF maj = None THEN
        IF W("PrecommitWithoutPolka") /\ s.propBlock # Nil /\ Valid(s.propBlock)
        THEN fin([s EXCEPT !.lockedR = r, !.lockedV = s.propBlock], s.propBlock)
        ELSE fin(s, Nil)
     ELSE IF maj = Nil THEN fin(Unlock(s), Nil)
     ELSE IF s.lockedV # Nil /\ SameBlock(s.lockedV, maj) THEN fin(IF W("RelockKeepsRound") THEN s ELSE [s EXCEPT !.lockedR = r], maj)
     ELSE IF PropIs(s, maj) THEN
        IF ~Valid(maj) THEN Panic(s, "+2/3 prevoted for an invalid block")
        ELSE fin([s EXCEPT !.lockedR = r, !.lockedV = s.propBlock], maj)      \* LockedBlock(Parts) = ProposalBlock(Parts); the precommit is for the polka's BlockID
     ELSE IF W("PrecommitUnheldBlock") THEN fin([s EXCEPT !.lockedR = r, !.lockedV = maj], maj)
     ELSE LET u == Unlock(s)
              w == IF u.partsHdr # maj THEN [u EXCEPT !.propBlock = Nil, !.partsHdr = maj] ELSE u
          IN fin(w, Nil)
\* NOTE signAddVote signs with cs.Round, which at this point is still the OLD round when
\* enterPrecommit(r) is entered from a later round's vote; enterNewRound(r) always precedes
\* it on those paths, so x.round = r whenever something is signed.

\* cs.enterPrevoteWait(height, round)
EnterPrevoteWait(s, r) ==
  IF Dead(s) \/ s.height # 1 \/ r < s.round \/ (r = s.round /\ StPrevoteWait <= s.step) THEN s
  ELSE IF ~AnyQ(s.pv[r]) THEN Panic(s, "enterPrevoteWait without +2/3 any")
  ELSE [Sched(s, "PrevoteWait", r) EXCEPT !.round = r, !.step = StPrevoteWait]

\* cs.enterPrevote(height, round) + defaultDoPrevote
EnterPrevote(s, r) ==
  IF Dead(s) \/ s.height # 1 \/ r < s.round \/ (r = s.round /\ StPrevote <= s.step) THEN s ELSE
  LET val == IF s.lockedV # Nil /\ ~W("PrevoteIgnoresLock")
                /\ ~(W("PolProposalOverridesLock") /\ s.prop # NoProp /\ s.prop.pol >= s.lockedR /\ ProposalComplete(s))
             THEN s.lockedV
             ELSE IF s.propBlock = Nil THEN Nil
             ELSE IF ~Valid(s.propBlock) /\ ~W("PrevoteSkipsValidate") THEN Nil
             ELSE s.propBlock
  IN [Emit(s, Msg("prevote", s.round, val, -2)) EXCEPT !.round = r, !.step = StPrevote]

\* cs.enterPropose(height, round) + defaultDecideProposal
EnterPropose(me, s, r) ==
  IF Dead(s) \/ s.height # 1 \/ r < s.round \/ (r = s.round /\ StPropose <= s.step) THEN s ELSE
  LET s1 == Sched(s, "Propose", r)
      v  == IF s1.validV # Nil /\ ~W("ProposeFreshDespiteValid") THEN s1.validV ELSE FreshValue(me)
      s2 == IF Proposer(r) = me THEN Emit(s1, Msg("proposal", r, v, s1.validR)) ELSE s1
      s3 == [s2 EXCEPT !.round = r, !.step = StPropose]
  IN IF ProposalComplete(s3) THEN EnterPrevote(s3, s3.round) ELSE s3

\* cs.enterNewRound(height, round)
EnterNewRound(me, s, r) ==
  IF Dead(s) \/ s.height # 1 \/ r < s.round \/ (r = s.round /\ s.step # StNewHeight) THEN s
  ELSE IF r > MaxRound THEN [s EXCEPT !.stuck = TRUE]
  ELSE LET s1 == [s EXCEPT !.round = r, !.step = StNewRound, !.ttp = FALSE,
                           !.prop      = IF r = 0 THEN s.prop ELSE NoProp,
                           !.propBlock = IF r = 0 THEN s.propBlock ELSE Nil,
                           !.partsHdr  = IF r = 0 THEN s.partsHdr ELSE Nil,
                           \* Votes.SetRound(round+1): rounds max(hvs.round-1,0)..round+1 get vote sets
                           !.tracked   = s.tracked \cup {x \in Rounds : x <= r + 1}]
       IN EnterPropose(me, s1, r)

\* ------------------------------------------------------------------ message handlers
\* cs.defaultSetProposal
HandleProposal(s, src, p) ==
  IF s.prop # NoProp THEN s
  ELSE IF p.r # s.round THEN s
  ELSE IF p.pol < -1 \/ (p.pol >= 0 /\ p.pol >= p.r) THEN s           \* ErrInvalidProposalPOLRound
  ELSE IF src # Proposer(s.round) /\ ~W("ProposalAnySigner") THEN s    \* ErrInvalidProposalSignature
  ELSE [s EXCEPT !.prop = [r |-> p.r, v |-> p.v, pol |-> p.pol],
                 \* "We don't update cs.ProposalBlockParts if it is already set": in the commit step it is the part set of
                 \* the DECIDED block; a proposal for another block must not displace it (the node would wait for ever)
                 !.partsHdr = IF s.partsHdr = Nil \/ (W("ProposalResetsParts") /\ s.partsHdr # p.v) THEN p.v ELSE s.partsHdr]

\* cs.handleCompleteProposal
HandleCompleteProposal(s) ==
  LET maj == Maj23(s.pv[s.round])
      has == maj # None
      s1  == IF has /\ maj # Nil /\ s.validR < s.round /\ PropIs(s, maj)
             THEN [s EXCEPT !.validR = s.round, !.validV = s.propBlock] ELSE s
  IN IF s1.step <= StPropose /\ ProposalComplete(s1)
     THEN LET a == EnterPrevote(s1, s1.round) IN IF has THEN EnterPrecommit(a, a.round) ELSE a
     ELSE IF s1.step = StCommit THEN TryFinalizeCommit(s1) ELSE s1

\* cs.addProposalBlockPart for a whole block (all parts of `v`; the part set verifies each
\* part against the expected header, so only the expected block can complete it — C10)
HandleBlock(s, v) ==
  IF s.partsHdr # v \/ s.propBlock = v THEN s
  ELSE HandleCompleteProposal([s EXCEPT !.propBlock = v])

\* HeightVoteSet.AddVote + VoteSet.addVote: returns [s, added]
AddVote(s, t, r, src, val, peer) ==
  LET known == r \in s.tracked
      canCatch == s.catchup[peer] < 2
      s1 == IF known THEN s
            ELSE IF canCatch THEN [s EXCEPT !.tracked = s.tracked \cup {r}, !.catchup[peer] = s.catchup[peer] + 1]
            ELSE s
      a  == VSAdd(IF t = "prevote" THEN s1.pv[r] ELSE s1.pc[r], src, val)
  IN IF ~known /\ ~canCatch THEN [s |-> s, added |-> FALSE]            \* ErrGotVoteFromUnwantedRound
     ELSE [s |-> IF t = "prevote" THEN [s1 EXCEPT !.pv[r] = a.vs] ELSE [s1 EXCEPT !.pc[r] = a.vs], added |-> a.added]

\* HeightVoteSet.SetPeerMaj23 (the reactor calls it on a VoteSetMaj23Message): no step logic runs
HandleClaim(s, t, r, peer, val) ==
  IF Dead(s) \/ s.height # 1 \/ ~(r \in s.tracked) THEN s
  ELSE IF t = "prevote" THEN [s EXCEPT !.pv[r] = VSClaim(s.pv[r], peer, val)]
  ELSE [s EXCEPT !.pc[r] = VSClaim(s.pc[r], peer, val)]

\* cs.addVote, prevote branch (after the vote was added)
AfterPrevote(me, s, vr) ==
  LET maj == Maj23(s.pv[vr])
      s2 == IF maj = None THEN s ELSE
            LET u == IF s.lockedV # Nil
                        /\ (IF W("UnlockOnOlderPolka") THEN TRUE ELSE s.lockedR < vr)
                        /\ vr <= s.round /\ ~SameBlock(s.lockedV, maj)
                     THEN Unlock(s) ELSE s
            IN IF maj # Nil /\ u.validR < vr /\ vr = u.round
               THEN LET w == IF PropIs(u, maj) THEN [u EXCEPT !.validR = vr, !.validV = u.propBlock]
                                           ELSE [u EXCEPT !.propBlock = Nil]
                    IN IF w.partsHdr # maj THEN [w EXCEPT !.partsHdr = maj] ELSE w
               ELSE u
  IN IF s2.round < vr /\ AnyQ(s2.pv[vr]) THEN EnterNewRound(me, s2, vr)
     ELSE IF s2.round = vr /\ StPrevote <= s2.step THEN
        IF maj # None /\ (ProposalComplete(s2) \/ maj = Nil) THEN EnterPrecommit(s2, vr)
        ELSE IF AnyQ(s2.pv[vr]) THEN EnterPrevoteWait(s2, vr) ELSE s2
     ELSE IF s2.prop # NoProp /\ 0 <= s2.prop.pol /\ s2.prop.pol = vr THEN
        IF ProposalComplete(s2) THEN EnterPrevote(s2, s2.round) ELSE s2
     ELSE s2

\* cs.addVote, precommit branch
AfterPrecommit(me, s, vr) ==
  LET maj == Maj23(s.pc[vr]) IN
  IF maj # None THEN
     LET a == EnterPrecommit(EnterNewRound(me, s, vr), vr) IN
     IF maj # Nil THEN EnterCommit(a, vr)      \* (SkipTimeoutCommit is off in the modelled configuration)
     ELSE EnterPrecommitWait(a, vr)
  ELSE IF s.round <= vr /\ AnyQ(s.pc[vr]) THEN EnterPrecommitWait(EnterNewRound(me, s, vr), vr)
  ELSE s

\* cs.tryAddVote / cs.addVote for a vote of the current height
HandleVote(me, s, t, r, src, val, peer) ==
  LET a == AddVote(s, t, r, src, val, peer) IN
  IF ~a.added THEN a.s
  ELSE IF t = "prevote" THEN AfterPrevote(me, a.s, r) ELSE AfterPrecommit(me, a.s, r)

\* cs.handleTimeout(ti, rs): k in {"NewHeight","NewRound","Propose","PrevoteWait","PrecommitWait"}
StepOfKind(k) == CASE k = "NewHeight" -> StNewHeight [] k = "NewRound" -> StNewRound [] k = "Propose" -> StPropose
                   [] k = "PrevoteWait" -> StPrevoteWait [] k = "PrecommitWait" -> StPrecommitWait
HandleTimeout(me, s, k, r) ==
  IF Dead(s) \/ s.height # 1 THEN s
  ELSE IF r < s.round \/ (r = s.round /\ StepOfKind(k) < s.step) THEN s          \* stale
  ELSE IF k = "NewHeight" THEN EnterNewRound(me, s, 0)
  ELSE IF k = "NewRound" THEN EnterPropose(me, s, 0)
  ELSE IF k = "Propose" THEN EnterPrevote(s, r)
  ELSE IF k = "PrevoteWait" THEN EnterPrecommit(s, r)
  ELSE IF k = "PrecommitWait" THEN EnterNewRound(me, EnterPrecommit(s, r), r + 1)
  ELSE s

\* cs.handleMsg(mi) for a message record m:
\*   proposal [t,src,r,v,pol] | block [t,v] | vote [t,src,r,v]  ; peer = the delivering peer
HandleMsg(me, s, m, peer) ==
  IF Dead(s) \/ s.height # 1 THEN s
  ELSE IF m.t = "proposal" THEN HandleProposal(s, m.src, m)
  ELSE IF m.t = "block" THEN HandleBlock(s, m.v)
  ELSE IF m.t = "noop" THEN s          \* a message the code ignores (other height, incomplete part, ...)
  ELSE IF m.t = "claim_prevote" THEN HandleClaim(s, "prevote", m.r, peer, m.v)
  ELSE IF m.t = "claim_precommit" THEN HandleClaim(s, "precommit", m.r, peer, m.v)
  ELSE HandleVote(me, s, m.t, m.r, m.src, m.v, peer)

ClearOut(s) == [s EXCEPT !.out = << >>]
SignedOf(s) == {s.out[i] : i \in {j \in DOMAIN s.out : s.out[j].t # "sched"}}
=============================================================================
