-------------------------- MODULE TMCommitPipeline --------------------------
(* The commit pipeline of a Tendermint node and its recovery (property C05).

   Code modelled (tendermint v0.34.x):
     consensus/state.go   finalizeCommit, updateToState, OnStart/catchupReplay entry
     state/execution.go   BlockExecutor.ApplyBlock, Commit, execBlockOnProxyApp, ExecCommitBlock
     state/store.go       dbStore.Save (validators / params / state key), SaveABCIResponses,
                          LoadLastABCIResponse, LoadValidators, PruneStates
     store/store.go       BlockStore.SaveBlock (parts, meta, hash, commit, seen commit, then the
                          BlockStoreState descriptor), PruneBlocks
     consensus/replay.go  Handshaker.Handshake, ReplayBlocks (full case analysis), replayBlocks,
                          replayBlock, catchupReplay;  consensus/replay_stubs.go mockProxyApp
     consensus/wal.go     #ENDHEIGHT markers, SearchForEndHeight

   The node is a sequential program (one goroutine holds cs.mtx through finalizeCommit) that
   can CRASH between any two operations; the whole state is one record `s`, the program
   counter s.pc names the next operation, Do(s) executes it.  Durable fields (bs_*, ss_*, wal)
   and the APPLICATION (app_*, journal) survive a crash; everything else is rebuilt by the
   restart sequence  LoadState -> Handshake -> NewState -> catchupReplay.
   One action per write / ABCI call / mempool call, in the code's order.

   The ten fail.Fail() sites of the commit path are crash points of this model (a crash
   "before" the named operation):
     consensus/state.go finalizeCommit   #1 before SaveBlock            = FC_BSPart
                                         #2 after SaveBlock             = FC_WalEndHeight
                                         #3 after #ENDHEIGHT            = AB_Begin
                                         #4 after ApplyBlock            = FC_PruneBSState / CS(h+1)
                                         #5 after updateToState         = CS(h+1)
     state/execution.go ApplyBlock       #1 after execBlockOnProxyApp   = AB_SaveABCIResp1
                                         #2 after SaveABCIResponses     = AB_MempoolLock
                                         #3 after Commit + evpool.Update = AB_SaveVals
                                         #4 after store.Save            = (as finalizeCommit #4)
     consensus/state.go receiveRoutine   after WriteSync of an own vote = CS (between WAL writes)  The step logic is
   written as operators over the record so that TMCommitPipelineTrace.tla can run the same
   machine next to a trace observed on the real code.                                        *)
EXTENDS Integers, Sequences, FiniteSets, TLC

CONSTANTS
  Weak_EndHeightBeforeSaveBlock,   \* finalizeCommit writes #ENDHEIGHT before SaveBlock
  Weak_SaveStateBeforeAppCommit,   \* ApplyBlock saves the state before Commit
  Weak_NoABCIResponsesSaved,       \* ApplyBlock does not call SaveABCIResponses
  Weak_HandshakeReplaysCommitted,  \* ReplayBlocks uses the real app when app = store = state+1
  Weak_InitChainAlways,            \* Handshake sends InitChain whatever the app height is
  Weak_CommitWithoutMempoolLock,   \* BlockExecutor.Commit does not lock the mempool
  Weak_NoFlushBeforeCommit,        \* BlockExecutor.Commit does not flush the mempool connection
  Weak_NoEndHeightRepair,          \* catchupReplay does not write a missing #ENDHEIGHT of the last committed block
  Weak_HandshakeAcceptsAppAhead,   \* ReplayBlocks: no "store < app" error case; store = state treats any app >= store as synced
  Weak_EmptyStoreAcceptsAppAhead,  \* ReplayBlocks: with an empty block store only the app hash is compared, not the heights
  Weak_NoInitialHeightBase,        \* ReplayBlocks compares the store with state.LastBlockHeight = 0 even when InitialHeight > 1
  Weak_ReplayDropsParamUpdates,    \* mockProxyApp.EndBlock hands back the stored validator updates but not the ConsensusParamUpdates
  Weak_CrashCopyDropsValUpdates    \* SaveABCIResponses with DiscardABCIResponses stores the crash-recovery copy without ValidatorUpdates

Nil == "nil"

\* ----------------------------------------------------------------------------- chain plan
\* cfg = [maxh, txs (seq: #txs of block h), vu (seq of heights with validator updates),
\*        pu (seq of heights with consensus-param updates), retain (seq: RetainHeight of Commit(h)),
\*        hashc (BOOLEAN: the application hash covers the number of commits; FALSE = it only
\*        changes with transactions, like kvstore's: empty blocks leave it where it was),
\*        ih (genesis InitialHeight: the chain's first block has height ih; txs/vu/pu/retain are
\*        indexed by BLOCK NUMBER 1, 2, ..., block number n has height ih - 1 + n; maxh is a height),
\*        discard (BOOLEAN: the state store runs with DiscardABCIResponses, only the crash-recovery
\*        copy lastABCIResponseKey is written)]
\* The sm.State is the record [h, hash, lhvc (LastHeightValidatorsChanged), lhpc
\* (LastHeightConsensusParamsChanged), pid (which parameter update is in force = the height whose EndBlock
\* returned it, 0 = genesis parameters; it also fixes Version.Consensus.App), nv (size of NextValidators)].
\* Heights: state.LastBlockHeight, the app height and the store height are 0 until the first block and
\* jump to ih with it.
InSeq(x, q)   == \E k \in DOMAIN q : q[k] = x
Idx(c, h)     == h - c.ih + 1                                  \* block number of height h
NextH(c, h)   == IF h = 0 THEN c.ih ELSE h + 1                  \* the height after "last height h"
NTxs(c, h)    == IF Idx(c, h) \in DOMAIN c.txs THEN c.txs[Idx(c, h)] ELSE 0
HasVU(c, h)   == InSeq(Idx(c, h), c.vu)
HasPU(c, h)   == InSeq(Idx(c, h), c.pu)
Retain(c, h)  == IF Idx(c, h) \in DOMAIN c.retain /\ c.retain[Idx(c, h)] > 0 THEN c.retain[Idx(c, h)] + c.ih - 1 ELSE 0

RECURSIVE SumTxs(_, _)
SumTxs(c, h) == IF h < c.ih THEN 0 ELSE NTxs(c, h) + SumTxs(c, h - 1)
Commits(c, h) == IF h < c.ih THEN 0 ELSE h - c.ih + 1
\* the application hash after the chain's blocks up to height h: (number of commits, number of txs)
HashAfter(c, h) == [c |-> IF c.hashc THEN Commits(c, h) ELSE 0, t |-> SumTxs(c, h)]
Hash0 == [c |-> 0, t |-> 0]
\* the hash after one more Commit of a block with nd transactions
NextHash(c, hash, nd) == [c |-> IF c.hashc THEN hash.c + 1 ELSE 0, t |-> hash.t + nd]
\* sm.State after block h of the plan (what a data directory restored from a backup taken at h holds)
MaxUpTo(c, q, h) == LET S == {q[k] + c.ih - 1 : k \in DOMAIN q} \cap 0..h IN
                    IF S = {} THEN 0 ELSE CHOOSE x \in S : \A y \in S : y <= x
StateAfter(c, h) == [h |-> h, hash |-> HashAfter(c, h),
                     lhvc |-> IF MaxUpTo(c, c.vu, h) = 0 THEN c.ih ELSE MaxUpTo(c, c.vu, h) + 2,
                     lhpc |-> IF MaxUpTo(c, c.pu, h) = 0 THEN c.ih ELSE MaxUpTo(c, c.pu, h) + 1,
                     pid  |-> MaxUpTo(c, c.pu, h),
                     nv   |-> IF MaxUpTo(c, c.vu, h) = 0 THEN 1 ELSE 2]
\* Version.Consensus.App of a state whose parameters are those of update pid (the app of the runs sets
\* AppVersion 100 + height together with every parameter update; 1 is what Info reports at genesis)
AppVersionOf(pid) == IF pid = 0 THEN 1 ELSE 100 + pid

\* ----------------------------------------------------------------------------- journal
JE(t, h, i) == [t |-> t, h |-> h, i |-> i]

\* Online monitor of the application's call journal = the property, event by event.
\*   ch: last committed height     open: height of the block begun and not committed (0 none)
\*   nd: txs delivered in it       ended: EndBlock seen      inited: InitChain seen
\*   crashed: the node crashed since that block was begun (its segment may not be continued)
\*   ih: the chain's initial height (the first block the app may be asked to begin)
MonInitOf(ih) == [ch |-> 0, open |-> 0, nd |-> 0, ended |-> FALSE, inited |-> FALSE, crashed |-> FALSE, ih |-> ih]
MonInit == MonInitOf(1)
MonNextH(m) == IF m.ch = 0 THEN m.ih ELSE m.ch + 1

\* class of the violation committed by event e in monitor state m ("" = allowed);
\* nblk = number of transactions of the block being executed
MonBad(m, e, nblk) ==
  CASE e.t = "Crash"     -> ""
    [] e.t = "Rollback"  -> ""
    [] e.t = "InitChain" -> IF m.ch # 0 THEN "initchain_after_commit"
                            ELSE IF m.open # 0 /\ ~m.crashed THEN "initchain_inside_block" ELSE ""
    [] e.t = "Begin"     -> IF ~m.inited THEN "begin_before_initchain"
                            ELSE IF e.h <= m.ch THEN "begin_committed_height"
                            ELSE IF e.h < MonNextH(m) THEN "begin_below_initial_height"
                            ELSE IF e.h > MonNextH(m) THEN "begin_skips_height"
                            ELSE IF m.open # 0 /\ ~m.crashed THEN "begin_inside_open_block" ELSE ""
    [] e.t = "Deliver"   -> IF m.open = 0 \/ e.h # m.open THEN "deliver_outside_block"
                            ELSE IF m.crashed THEN "segment_continued_after_crash"
                            ELSE IF m.ended THEN "deliver_after_end"
                            ELSE IF e.i # m.nd THEN "deliver_out_of_order"
                            ELSE IF m.nd >= nblk THEN "deliver_beyond_block" ELSE ""
    [] e.t = "End"       -> IF m.open = 0 \/ e.h # m.open THEN "end_outside_block"
                            ELSE IF m.crashed THEN "segment_continued_after_crash"
                            ELSE IF m.ended THEN "end_twice"
                            ELSE IF m.nd # nblk THEN "end_before_all_txs" ELSE ""
    [] e.t = "Commit"    -> IF m.open = 0 THEN "commit_outside_block"
                            ELSE IF m.crashed THEN "segment_continued_after_crash"
                            ELSE IF ~m.ended THEN "commit_without_end" ELSE ""
    [] OTHER             -> "unknown_event"

MonNext(m, e) ==
  CASE e.t = "Crash"     -> [m EXCEPT !.crashed = TRUE]
    \* the application itself restarted and reports an older height: that is the height that counts
    [] e.t = "Rollback"  -> [m EXCEPT !.ch = e.h, !.open = 0, !.nd = 0, !.ended = FALSE, !.crashed = FALSE]
    [] e.t = "InitChain" -> [m EXCEPT !.inited = TRUE]
    [] e.t = "Begin"     -> [m EXCEPT !.open = e.h, !.nd = 0, !.ended = FALSE, !.crashed = FALSE]
    [] e.t = "Deliver"   -> [m EXCEPT !.nd = m.nd + 1]
    [] e.t = "End"       -> [m EXCEPT !.ended = TRUE]
    [] e.t = "Commit"    -> [m EXCEPT !.ch = IF m.open # 0 THEN m.open ELSE MonNextH(m), !.open = 0, !.nd = 0,
                                     !.ended = FALSE, !.crashed = FALSE]
    [] OTHER             -> m

RECURSIVE JournalBad(_, _, _, _)
\* first violation class in journal j from position k on, "" if none
JournalBad(c, j, k, m) ==
  IF k > Len(j) THEN ""
  ELSE LET b == MonBad(m, j[k], NTxs(c, j[k].h)) IN
       IF b # "" THEN b ELSE JournalBad(c, j, k + 1, MonNext(m, j[k]))

JournalOK(c, j) == JournalBad(c, j, 1, MonInitOf(c.ih)) = ""

\* ----------------------------------------------------------------------------- initial state
GenesisStateOf(c) == [h |-> 0, hash |-> Hash0, lhvc |-> c.ih, lhpc |-> c.ih, pid |-> 0, nv |-> 1]   \* sm.MakeGenesisState

InitState(c) == [
  cfg       |-> c,
  \* ---- durable: block store (store/store.go)
  bs_h      |-> 0,          \* BlockStoreState.Height
  bs_base   |-> 0,          \* BlockStoreState.Base
  bs_w      |-> {},         \* kinds of records already written for block bs_h+1
  \* ---- durable: state store (state/store.go)
  ss_saved  |-> FALSE,      \* stateKey exists
  ss_st     |-> GenesisStateOf(c),  \* the saved sm.State: LastBlockHeight, AppHash, LastHeight*Changed
  ss_vals   |-> {},         \* validatorsKey:<h>  as <<h, lastHeightChanged>>
  ss_params |-> {},         \* consensusParamsKey:<h> as <<h, lastHeightChanged>>
  ss_abci   |-> {},         \* abciResponsesKey:<h>
  ss_last   |-> [h |-> 0, vu |-> FALSE, pu |-> FALSE],   \* lastABCIResponseKey
  \* ---- durable: WAL (markers and the messages that matter for catch-up)
  wal       |-> << [t |-> "end", h |-> 0, k |-> ""] >>,  \* BaseWAL.OnStart writes #ENDHEIGHT 0
  \* ---- durable: the validator key's last-sign state (privval/file.go FilePVLastSignState), as far
  \* as it matters here: height, and how far round 0 got (1 proposal, 2 prevote, 3 precommit signed)
  pv        |-> [h |-> 0, step |-> 0],
  \* ---- the application (survives the node's crashes)
  app_h     |-> 0,
  app_hash  |-> Hash0,
  app_open  |-> [h |-> 0, nd |-> 0, ended |-> FALSE],
  journal   |-> << >>,
  \* ---- volatile
  pc        |-> "R_LoadState",
  mode      |-> "none",     \* who runs ApplyBlock: fc (finalizeCommit) | real | mock (Handshake)
  h         |-> 0,          \* block being executed
  i         |-> 0,          \* next tx index
  st        |-> GenesisStateOf(c),   \* the sm.State in memory
  nst       |-> GenesisStateOf(c),   \* the state returned by updateState (AppHash filled at Commit)
  resp      |-> [vu |-> FALSE, pu |-> FALSE],   \* ABCIResponses of the block being executed
  hs_app_h  |-> 0,          \* ResponseInfo.LastBlockHeight
  hs_hash   |-> Hash0,      \* appHash variable of Handshake/ReplayBlocks
  hs_ec     |-> Hash0,      \* appHash variable of replayBlocks ...
  hs_ecset  |-> FALSE,      \* ... which is nil until a block was replayed
  hs_to     |-> 0,          \* last block replayed with ExecCommitBlock
  hs_final  |-> "none",     \* last block replayed with ApplyBlock on: none | real | mock
  lock      |-> FALSE,      \* mempool lock held by BlockExecutor.Commit
  flushed   |-> FALSE,
  committed |-> FALSE,
  retain    |-> 0,
  cs_h      |-> 0,          \* consensus height
  cs_n      |-> 0,          \* WAL writes of the current height done by this incarnation
  cu        |-> "",         \* result class of catchupReplay
  err       |-> "",
  \* ---- ghosts
  crashes   |-> 0,
  rolled    |-> FALSE,      \* the application has lost committed blocks at some crash (AppSetOf)
  tampered  |-> FALSE,      \* an operator restored (parts of) the data directory / the app ran ahead (TamperOf)
  sched     |-> << >>       \* labels of the operations the crashes preceded
]

\* ----------------------------------------------------------------------------- helpers
Put(set, h, lc) == {p \in set : p[1] # h} \cup {<<h, lc>>}
\* LoadValidators(x): the record exists, and if it is a pointer its target holds a full set
ValsLoadable(s, x) == \E p \in s.ss_vals : p[1] = x /\ (p[2] = x \/ <<p[2], p[2]>> \in s.ss_vals)

J(s, t, h, i) == Append(s.journal, JE(t, h, i))
OnApp(s) == s.mode # "mock"      \* the mock app of replay_stubs.go swallows the calls

HasEnd(w, h) == \E k \in DOMAIN w : w[k].t = "end" /\ w[k].h = h
FirstEnd(w, h) == CHOOSE k \in DOMAIN w : w[k].t = "end" /\ w[k].h = h /\
                                          \A k2 \in DOMAIN w : (w[k2].t = "end" /\ w[k2].h = h) => k <= k2
\* after the marker of h-1 the WAL holds this node's own precommit for h: replaying it ends in finalizeCommit
\* the #ENDHEIGHT marker catchupReplay(h) looks for: the previous height's, 0 for the chain's first height
EndBefore(c, h) == IF h = c.ih THEN 0 ELSE h - 1
DecisionInWal(c, w, h) == HasEnd(w, EndBefore(c, h)) /\
                       \E k \in DOMAIN w : k > FirstEnd(w, EndBefore(c, h)) /\ w[k].t = "msg" /\ w[k].h = h /\ w[k].k = "precommit"

Fail(s, why) == [s EXCEPT !.pc = "Panic", !.err = why]

\* Handshaker.ReplayBlocks: the outcome table on (store height, store base, state height, app height),
\* in the order of the code's switch.  It holds for EVERY triple, not only for those a crash of this
\* node's own pipeline can leave behind (operator restores, lost writes, an app that ran ahead).
\* ih = genesis InitialHeight.  A chain that starts above 1 has no blocks below ih: until its first
\* block is applied (state.LastBlockHeight = 0) the state counts as "at ih - 1" for the store/state/app
\* comparisons (Weak_NoInitialHeightBase: the raw 0 is compared, as the code did).
HandshakeCase(ih, storeH, base, stateH0, appH) ==
  LET stateH == IF stateH0 = 0 /\ ~Weak_NoInitialHeightBase THEN ih - 1 ELSE stateH0 IN
  IF storeH = 0 THEN                                       \* nothing to replay: the app hash is compared ...
       IF appH > stateH0 /\ ~Weak_EmptyStoreAcceptsAppAhead
       THEN "err_app_too_high"                             \* ... unless the app knows blocks this node does not
       ELSE "store_empty"
  ELSE IF appH = 0 /\ ih < base THEN "err_app_too_low"     \* ErrAppBlockHeightTooLow
  ELSE IF appH > 0 /\ appH < base - 1 THEN "err_app_too_low"
  ELSE IF storeH < appH /\ ~Weak_HandshakeAcceptsAppAhead THEN "err_app_too_high"   \* ErrAppBlockHeightTooHigh
  ELSE IF storeH < stateH THEN "panic_state_ahead_of_store"
  ELSE IF storeH > stateH + 1 THEN "panic_store_two_ahead_of_state"
  ELSE IF storeH = stateH THEN
         IF appH < storeH THEN "replay_app_behind"
         ELSE IF appH = storeH \/ Weak_HandshakeAcceptsAppAhead THEN "synced"
         ELSE "uncovered"
  ELSE \* storeH = stateH + 1
         IF appH < stateH THEN "replay_app_behind_then_last"
         ELSE IF appH = stateH THEN "replay_last_real"
         ELSE IF appH = storeH THEN "replay_last_mock"
         ELSE IF Weak_HandshakeAcceptsAppAhead THEN "err_app_too_high"   \* the weakened code returns the error here
         ELSE "uncovered"
\* The node starts height cs_h WITHOUT replaying its WAL.  If the key already signed a vote in
\* round 0 of this height (in an earlier incarnation) FilePV refuses both a new proposal ("step
\* regression") and any other vote ("conflicting data"): alone, the node cannot leave round 0.
Fresh(s) == IF s.pv.h = s.cs_h /\ s.pv.step >= 2
            THEN [s EXCEPT !.pc = "Stalled", !.err = "privval refuses to re-sign round 0 and the WAL cannot be replayed"]
            ELSE [s EXCEPT !.pc = "CS"]
HsErr(s, why) == [s EXCEPT !.pc = "HS_Error", !.err = why]

\* where ApplyBlock goes after the last write of state.Save
AfterApply(s) ==
  IF s.mode = "fc"
  THEN [s EXCEPT !.pc = IF s.retain > s.bs_base /\ s.retain > 0 THEN "FC_PruneBSState" ELSE "FC_UpdateToState",
                 !.st = s.nst]
  ELSE [s EXCEPT !.pc = "HS_AssertDone", !.st = s.nst, !.hs_hash = s.nst.hash]

\* first operation of BlockExecutor.Commit and of the part after it, given the Weak_ switches
PcCommitStart == IF Weak_CommitWithoutMempoolLock
                 THEN (IF Weak_NoFlushBeforeCommit THEN "AB_AppCommit" ELSE "AB_FlushMempoolConn")
                 ELSE "AB_MempoolLock"
PcAfterResponses(s) ==
  IF Weak_SaveStateBeforeAppCommit THEN "AB_SaveVals"
  ELSE IF s.mode = "fc" THEN PcCommitStart ELSE "AB_AppCommit"
PcAfterBlockExec(s) == IF Weak_NoABCIResponsesSaved THEN PcAfterResponses(s)
                       ELSE IF s.cfg.discard THEN "AB_SaveABCIResp2"     \* DiscardABCIResponses: no abciResponsesKey:<h>
                       ELSE "AB_SaveABCIResp1"

\* updateState (state/execution.go): the next sm.State, AppHash still unknown
UpdateState(s) ==
  [h    |-> s.h, hash |-> s.st.hash,
   lhvc |-> IF s.resp.vu THEN s.h + 2 ELSE s.st.lhvc,
   lhpc |-> IF s.resp.pu THEN s.h + 1 ELSE s.st.lhpc,
   pid  |-> IF s.resp.pu THEN s.h ELSE s.st.pid,       \* types.UpdateConsensusParams + Version.Consensus.App
   nv   |-> IF s.resp.vu THEN 2 ELSE s.st.nv]          \* NextValidators.UpdateWithChangeSet

\* validateBlock as far as this model can see it: height and AppHash of the header
BlockValid(s, h) == h = NextH(s.cfg, s.st.h) /\ HashAfter(s.cfg, h - 1) = s.st.hash

\* ----------------------------------------------------------------------------- the program
\* Silent steps (pure computation / reads) are actions too; the trace spec closes over them.
SilentPcs == {"R_LoadState", "HS_Cases", "HS_AssertDone", "R_Reload", "R_NewState", "R_Catchup",
              "FC_Start", "FC_UpdateToState", "EC_Next", "RB_Start", "AB_Start", "AB_Finish"}

Do(s) ==
  LET c == s.cfg IN
  CASE
  \* ======================================================================= restart (node.NewNode)
     s.pc = "R_LoadState" ->          \* stateStore.LoadFromDBOrGenesisDoc
       [s EXCEPT !.st = IF s.ss_saved THEN s.ss_st ELSE GenesisStateOf(c), !.pc = "HS_Info"]
  \* ----------------------------------------------------------------------- Handshaker.Handshake
  [] s.pc = "HS_Info" ->              \* proxyApp.Query().InfoSync
       [s EXCEPT !.hs_app_h = s.app_h, !.hs_hash = s.app_hash, !.hs_ec = Hash0, !.hs_ecset = FALSE,
                 !.pc = IF s.app_h = 0 \/ Weak_InitChainAlways THEN "HS_InitChain" ELSE "HS_Cases"]
  [] s.pc = "HS_InitChain" ->         \* ReplayBlocks: appBlockHeight == 0 -> InitChainSync
       [s EXCEPT !.journal = J(s, "InitChain", 0, 0), !.hs_hash = Hash0,
                 !.pc = IF s.st.h = 0 THEN "HS_SaveGenVals1" ELSE "HS_Cases"]
  [] s.pc = "HS_SaveGenVals1" ->      \* stateStore.Save(genesis state): validatorsKey:1
       [s EXCEPT !.ss_vals = Put(s.ss_vals, c.ih, c.ih), !.pc = "HS_SaveGenVals2"]
  [] s.pc = "HS_SaveGenVals2" ->      \*   validatorsKey:2 (pointer to 1)
       [s EXCEPT !.ss_vals = Put(s.ss_vals, c.ih + 1, s.st.lhvc), !.pc = "HS_SaveGenParams"]
  [] s.pc = "HS_SaveGenParams" ->     \*   consensusParamsKey:1
       [s EXCEPT !.ss_params = Put(s.ss_params, c.ih, s.st.lhpc), !.pc = "HS_SaveGenState"]
  [] s.pc = "HS_SaveGenState" ->      \*   stateKey (SetSync)
       [s EXCEPT !.ss_saved = TRUE, !.ss_st = s.st, !.pc = "HS_Cases"]
  [] s.pc = "HS_Cases" ->             \* ReplayBlocks: the case analysis on (app, store, state) heights
       LET storeH == s.bs_h  stateH == s.st.h  appH == s.hs_app_h
           case == HandshakeCase(c.ih, storeH, s.bs_base, stateH, appH) IN
       (CASE case = "store_empty"       -> [s EXCEPT !.pc = "HS_AssertDone", !.hs_final = "none"]
         [] case = "err_app_too_low"   -> HsErr(s, "app block height too low")
         [] case = "err_app_too_high"  -> HsErr(s, "app block height too high")
         [] case = "panic_state_ahead_of_store"     -> Fail(s, "StateBlockHeight > StoreBlockHeight")
         [] case = "panic_store_two_ahead_of_state" -> Fail(s, "StoreBlockHeight > StateBlockHeight + 1")
         [] case = "uncovered"         -> Fail(s, "uncovered case")
         [] case = "replay_app_behind" ->           \* replayBlocks(mutateState = false)
              [s EXCEPT !.h = NextH(c, appH), !.hs_to = storeH, !.hs_final = "none", !.pc = "EC_Next"]
         [] case = "synced"            -> [s EXCEPT !.hs_final = "none", !.pc = "HS_AssertDone"]
         [] case = "replay_app_behind_then_last" -> \* replayBlocks(mutateState = true)
              [s EXCEPT !.h = NextH(c, appH), !.hs_to = storeH - 1, !.hs_final = "real", !.pc = "EC_Next"]
         [] case = "replay_last_real"  -> [s EXCEPT !.h = storeH, !.hs_final = "real", !.pc = "RB_Start"]
         [] case = "replay_last_mock"  ->           \* Commit ran, state not saved -> mock app fed with the saved responses
              IF Weak_HandshakeReplaysCommitted
              THEN [s EXCEPT !.h = storeH, !.hs_final = "real", !.pc = "RB_Start"]
              ELSE IF s.ss_last.h # storeH     \* LoadLastABCIResponse(storeBlockHeight)
              THEN HsErr(s, "no last ABCI response for the stored block")
              ELSE [s EXCEPT !.h = storeH, !.hs_final = "mock", !.pc = "RB_Start"])
  \* ----------------------------------------------------------------------- replayBlocks loop: sm.ExecCommitBlock
  [] s.pc = "EC_Next" ->
       IF s.h > s.hs_to
       THEN IF s.hs_final = "real" THEN [s EXCEPT !.h = s.hs_to + 1, !.pc = "RB_Start"]
            ELSE [s EXCEPT !.hs_hash = IF s.hs_ecset THEN s.hs_ec ELSE s.hs_hash, !.pc = "HS_AssertDone"]
       ELSE IF s.hs_ecset /\ s.hs_ec # Hash0 /\ s.hs_ec # HashAfter(c, s.h - 1)
            THEN Fail(s, "block.AppHash does not match AppHash after replay")   \* assertAppHashEqualsOneFromBlock
            ELSE [s EXCEPT !.mode = "ec", !.i = 0, !.pc = "EC_Begin"]
  [] s.pc = "EC_Begin" ->
       IF s.h > c.ih /\ ~ValsLoadable(s, s.h - 1) THEN Fail(s, "LoadValidators failed")
       ELSE [s EXCEPT !.journal = J(s, "Begin", s.h, 0), !.app_open = [h |-> s.h, nd |-> 0, ended |-> FALSE],
                      !.pc = IF NTxs(c, s.h) > 0 THEN "EC_Deliver" ELSE "EC_End"]
  [] s.pc = "EC_Deliver" ->
       [s EXCEPT !.journal = J(s, "Deliver", s.h, s.i), !.app_open.nd = s.app_open.nd + 1, !.i = s.i + 1,
                 !.pc = IF s.i + 1 < NTxs(c, s.h) THEN "EC_Deliver" ELSE "EC_End"]
  [] s.pc = "EC_End" ->
       [s EXCEPT !.journal = J(s, "End", s.h, 0), !.app_open.ended = TRUE, !.pc = "EC_Commit"]
  [] s.pc = "EC_Commit" ->
       LET nh == NextHash(c, s.app_hash, s.app_open.nd) IN
       [s EXCEPT !.journal = J(s, "Commit", s.app_open.h, 0), !.app_h = NextH(c, s.app_h), !.app_hash = nh,
                 !.app_open = [h |-> 0, nd |-> 0, ended |-> FALSE], !.hs_ec = nh, !.hs_ecset = TRUE,
                 !.h = s.h + 1, !.i = 0, !.pc = "EC_Next"]
  \* ----------------------------------------------------------------------- replayBlock: ApplyBlock during Handshake
  [] s.pc = "RB_Start" ->             \* NewBlockExecutor(emptyMempool, EmptyEvidencePool); validateBlock
       IF ~BlockValid(s, s.h) THEN HsErr(s, "replayBlock: invalid block")
       ELSE [s EXCEPT !.mode = s.hs_final, !.i = 0, !.pc = "AB_Begin"]
  [] s.pc = "HS_AssertDone" ->        \* assertAppHashEqualsOneFromState
       IF s.hs_hash # s.st.hash THEN Fail(s, "state.AppHash does not match AppHash after replay")
       ELSE [s EXCEPT !.pc = "HS_Done"]
  [] s.pc = "HS_Done" ->              \* Handshake returned nil
       [s EXCEPT !.mode = "none", !.pc = "R_Reload"]
  [] s.pc = "R_Reload" ->             \* state = stateStore.Load()
       [s EXCEPT !.st = IF s.ss_saved THEN s.ss_st ELSE GenesisStateOf(c), !.pc = "R_NewState"]
  [] s.pc = "R_NewState" ->           \* NewState: reconstructLastCommit needs the seen commit of state.LastBlockHeight
       IF s.st.h > 0 /\ (s.st.h > s.bs_h \/ s.st.h < s.bs_base)
       THEN Fail(s, "failed to reconstruct last commit")
       ELSE [s EXCEPT !.cs_h = NextH(c, s.st.h), !.cs_n = 0, !.pc = "R_Catchup"]
  [] s.pc = "R_Catchup" ->            \* catchupReplay(cs.Height); errors are logged and the node starts anyway
       IF HasEnd(s.wal, s.cs_h) THEN Fresh([s EXCEPT !.cu = "wal should not contain #ENDHEIGHT"])
       ELSE IF ~HasEnd(s.wal, EndBefore(c, s.cs_h))
            THEN IF ~Weak_NoEndHeightRepair /\ EndBefore(c, s.cs_h) > 0 /\ s.st.h = s.cs_h - 1 /\ s.bs_h >= s.cs_h - 1
                 THEN [s EXCEPT !.pc = "R_RepairEndHeight"]
                 ELSE Fresh([s EXCEPT !.cu = "WAL does not contain #ENDHEIGHT"])
       ELSE IF DecisionInWal(c, s.wal, s.cs_h) THEN [s EXCEPT !.cu = "", !.cs_n = 2, !.pc = "CS"]
       ELSE [s EXCEPT !.cu = "", !.pc = "CS"]      \* what the WAL holds of cs_h is replayed, then the round goes on
  [] s.pc = "R_RepairEndHeight" ->    \* the block of cs_h-1 is committed (Handshake finished it) but the crash fell between
                                      \* SaveBlock and the #ENDHEIGHT write: write the marker now, before anything of cs_h
       [s EXCEPT !.wal = Append(s.wal, [t |-> "end", h |-> s.cs_h - 1, k |-> ""]), !.cu = "", !.pc = "CS"]
  \* ======================================================================= consensus for height cs_h
  [] s.pc = "CS" ->                   \* WAL writes of the round (WriteSync for own messages)
       IF s.cs_h > c.maxh THEN [s EXCEPT !.pc = "Done"]
       \* proposal + block parts reach the WAL; handling the last part signs the prevote
       ELSE IF s.cs_n = 0 THEN [s EXCEPT !.wal = Append(s.wal, [t |-> "msg", h |-> s.cs_h, k |-> "other"]), !.cs_n = 1,
                                         !.pv = [h |-> s.cs_h, step |-> 2]]
       \* (prevote, then) the own precommit reaches the WAL
       ELSE IF s.cs_n = 1 THEN [s EXCEPT !.wal = Append(s.wal, [t |-> "msg", h |-> s.cs_h, k |-> "precommit"]), !.cs_n = 2,
                                         !.pv = [h |-> s.cs_h, step |-> 3]]
       ELSE [s EXCEPT !.pc = "FC_Start"]
  \* ======================================================================= finalizeCommit(cs_h)
  [] s.pc = "FC_Start" ->             \* blockExec.ValidateBlock; "if cs.blockStore.Height() < block.Height"
       LET s1 == [s EXCEPT !.h = s.cs_h, !.i = 0, !.mode = "fc", !.retain = 0, !.lock = FALSE,
                           !.flushed = FALSE, !.committed = FALSE] IN
       \* the block was built by this node on its own state (header.AppHash = state.AppHash): only the
       \* height can be off
       IF s1.h # NextH(c, s1.st.h) THEN Fail(s1, "+2/3 committed an invalid block")
       ELSE IF Weak_EndHeightBeforeSaveBlock THEN [s1 EXCEPT !.pc = "FC_WalEndHeight"]
       ELSE IF s1.bs_h < s1.h THEN [s1 EXCEPT !.pc = "FC_BSPart"] ELSE [s1 EXCEPT !.pc = "FC_WalEndHeight"]
  [] s.pc = "FC_BSPart"   -> [s EXCEPT !.bs_w = s.bs_w \cup {"part"},   !.pc = "FC_BSMeta"]    \* P:<h>:<i>
  [] s.pc = "FC_BSMeta"   -> [s EXCEPT !.bs_w = s.bs_w \cup {"meta"},   !.pc = "FC_BSHash"]    \* H:<h>
  [] s.pc = "FC_BSHash"   -> [s EXCEPT !.bs_w = s.bs_w \cup {"hash"},   !.pc = "FC_BSCommit"]  \* BH:<hash>
  [] s.pc = "FC_BSCommit" -> [s EXCEPT !.bs_w = s.bs_w \cup {"commit"}, !.pc = "FC_BSSeen"]    \* C:<h-1>
  [] s.pc = "FC_BSSeen"   -> [s EXCEPT !.bs_w = s.bs_w \cup {"seen"},   !.pc = "FC_BSState"]   \* SC:<h>
  [] s.pc = "FC_BSState"  ->          \* SaveBlockStoreState (SetSync): the block becomes visible
       [s EXCEPT !.bs_h = s.h, !.bs_base = IF s.bs_base = 0 THEN s.h ELSE s.bs_base, !.bs_w = {},
                 !.pc = IF Weak_EndHeightBeforeSaveBlock THEN "AB_Start" ELSE "FC_WalEndHeight"]
  [] s.pc = "FC_WalEndHeight" ->      \* cs.wal.WriteSync(EndHeightMessage{height})
       [s EXCEPT !.wal = Append(s.wal, [t |-> "end", h |-> s.h, k |-> ""]),
                 !.pc = IF Weak_EndHeightBeforeSaveBlock /\ s.bs_h < s.h THEN "FC_BSPart" ELSE "AB_Start"]
  \* ======================================================================= BlockExecutor.ApplyBlock (mode fc | real | mock)
  [] s.pc = "AB_Start" -> [s EXCEPT !.i = 0, !.pc = "AB_Begin"]
  [] s.pc = "AB_Begin" ->             \* execBlockOnProxyApp: getBeginBlockValidatorInfo + BeginBlockSync
       IF s.h > c.ih /\ ~ValsLoadable(s, s.h - 1) THEN Fail(s, "LoadValidators failed")
       ELSE LET s1 == [s EXCEPT !.pc = IF NTxs(c, s.h) > 0 THEN "AB_Deliver" ELSE "AB_End"] IN
            IF OnApp(s) THEN [s1 EXCEPT !.journal = J(s, "Begin", s.h, 0),
                                        !.app_open = [h |-> s.h, nd |-> 0, ended |-> FALSE]]
            ELSE s1
  [] s.pc = "AB_Deliver" ->           \* DeliverTxAsync, block order
       LET s1 == [s EXCEPT !.i = s.i + 1, !.pc = IF s.i + 1 < NTxs(c, s.h) THEN "AB_Deliver" ELSE "AB_End"] IN
       IF OnApp(s) THEN [s1 EXCEPT !.journal = J(s, "Deliver", s.h, s.i), !.app_open.nd = s.app_open.nd + 1]
       ELSE s1
  [] s.pc = "AB_End" ->               \* EndBlockSync: validator / param updates come back here
       LET r  == IF OnApp(s) THEN [vu |-> HasVU(c, s.h), pu |-> HasPU(c, s.h)]
                 ELSE [vu |-> s.ss_last.vu,                          \* mock: from the saved responses
                       pu |-> s.ss_last.pu /\ ~Weak_ReplayDropsParamUpdates]
           s1 == [s EXCEPT !.resp = r, !.pc = PcAfterBlockExec(s)] IN
       IF OnApp(s) THEN [s1 EXCEPT !.journal = J(s, "End", s.h, 0), !.app_open.ended = TRUE] ELSE s1
  [] s.pc = "AB_SaveABCIResp1" ->     \* SaveABCIResponses: abciResponsesKey:<h>
       [s EXCEPT !.ss_abci = s.ss_abci \cup {s.h}, !.pc = "AB_SaveABCIResp2"]
  [] s.pc = "AB_SaveABCIResp2" ->     \*   lastABCIResponseKey (SetSync); then updateState
       [s EXCEPT !.ss_last = [h |-> s.h, vu |-> s.resp.vu /\ ~(Weak_CrashCopyDropsValUpdates /\ s.cfg.discard),
                              pu |-> s.resp.pu],
                 !.pc = PcAfterResponses(s)]
  [] s.pc = "AB_MempoolLock" ->       \* Commit: blockExec.mempool.Lock()
       [s EXCEPT !.lock = TRUE, !.pc = IF Weak_NoFlushBeforeCommit THEN "AB_AppCommit" ELSE "AB_FlushMempoolConn"]
  [] s.pc = "AB_FlushMempoolConn" ->  \*   mempool.FlushAppConn()
       [s EXCEPT !.flushed = TRUE, !.pc = "AB_AppCommit"]
  [] s.pc = "AB_AppCommit" ->         \*   proxyApp.CommitSync()
       LET onapp == OnApp(s)
           nh == IF onapp THEN NextHash(c, s.app_hash, s.app_open.nd)
                 ELSE s.hs_hash        \* mockProxyApp.Commit returns the hash Info reported
           s1 == [s EXCEPT !.nst = [UpdateState(s) EXCEPT !.hash = nh], !.committed = TRUE,
                           !.retain = IF onapp /\ s.mode = "fc" THEN Retain(c, s.h) ELSE 0,
                           !.pc = IF s.mode = "fc" THEN "AB_MempoolUpdate"
                                  ELSE IF Weak_SaveStateBeforeAppCommit THEN "AB_Finish" ELSE "AB_SaveVals"] IN
       IF onapp THEN [s1 EXCEPT !.journal = J(s, "Commit", s.app_open.h, 0), !.app_h = NextH(c, s.app_h), !.app_hash = nh,
                                !.app_open = [h |-> 0, nd |-> 0, ended |-> FALSE]]
       ELSE s1
  [] s.pc = "AB_MempoolUpdate" ->     \*   mempool.Update(height, txs, responses, pre, post)
       [s EXCEPT !.pc = IF Weak_CommitWithoutMempoolLock THEN "AB_EvpoolUpdate" ELSE "AB_MempoolUnlock"]
  [] s.pc = "AB_MempoolUnlock" ->     \*   deferred mempool.Unlock()
       [s EXCEPT !.lock = FALSE, !.pc = "AB_EvpoolUpdate"]
  [] s.pc = "AB_EvpoolUpdate" ->      \* blockExec.evpool.Update(state, evidence)
       [s EXCEPT !.pc = IF Weak_SaveStateBeforeAppCommit THEN "AB_Finish" ELSE "AB_SaveVals"]
  [] s.pc = "AB_SaveVals" ->          \* store.Save(state): validatorsKey:<h+2>
       LET ns == IF Weak_SaveStateBeforeAppCommit THEN UpdateState(s) ELSE s.nst IN
       [s EXCEPT !.nst = ns, !.ss_vals = Put(s.ss_vals, s.h + 2, ns.lhvc), !.pc = "AB_SaveParams"]
  [] s.pc = "AB_SaveParams" ->        \*   consensusParamsKey:<h+1>
       [s EXCEPT !.ss_params = Put(s.ss_params, s.h + 1, s.nst.lhpc), !.pc = "AB_SaveStateKey"]
  [] s.pc = "AB_SaveStateKey" ->      \*   stateKey (SetSync)
       LET s1 == [s EXCEPT !.ss_saved = TRUE, !.ss_st = s.nst] IN
       IF Weak_SaveStateBeforeAppCommit
       THEN [s1 EXCEPT !.pc = IF s.mode = "fc" THEN PcCommitStart ELSE "AB_AppCommit"]
       ELSE AfterApply(s1)
  [] s.pc = "AB_Finish" -> AfterApply(s)      \* only reached with Weak_SaveStateBeforeAppCommit
  \* ======================================================================= finalizeCommit, after ApplyBlock
  [] s.pc = "FC_PruneBSState" ->      \* pruneBlocks: PruneBlocks -> flush(): bs.base = retain; saveState()
       [s EXCEPT !.bs_base = s.retain, !.pc = "FC_PruneBSBatch"]
  [] s.pc = "FC_PruneBSBatch" ->      \*   batch.WriteSync() deleting the block records below the base
       [s EXCEPT !.pc = "FC_PruneSSBatch"]
  [] s.pc = "FC_PruneSSBatch" ->      \*   PruneStates(base, retain): one batch; keeps what `retain` points to
       LET to   == s.retain
           keepV == {p[2] : p \in {q \in s.ss_vals : q[1] = to /\ q[2] # to}}
           keepP == {p[2] : p \in {q \in s.ss_params : q[1] = to /\ q[2] # to}} IN
       [s EXCEPT !.ss_vals   = {p \in s.ss_vals : p[1] >= to \/ p[1] \in keepV} \cup {<<x, x>> : x \in keepV},
                 !.ss_params = {p \in s.ss_params : p[1] >= to \/ p[1] \in keepP} \cup {<<x, x>> : x \in keepP},
                 !.ss_abci   = {x \in s.ss_abci : x >= to},
                 !.pc = "FC_UpdateToState"]
  [] s.pc = "FC_UpdateToState" ->     \* cs.updateToState(stateCopy); scheduleRound0
       [s EXCEPT !.cs_h = s.h + 1, !.cs_n = 0, !.mode = "none", !.pc = "CS"]
  [] OTHER -> s                       \* Done, HS_Error, Panic, Stalled: no further step

\* A process crash: volatile fields are lost, durable ones and the application stay.
CrashOf(s, label) ==
  LET z == InitState(s.cfg) IN
  [z EXCEPT !.bs_h = s.bs_h, !.bs_base = s.bs_base, !.bs_w = s.bs_w,
            !.ss_saved = s.ss_saved, !.ss_st = s.ss_st, !.ss_vals = s.ss_vals, !.ss_params = s.ss_params,
            !.ss_abci = s.ss_abci, !.ss_last = s.ss_last, !.wal = s.wal, !.pv = s.pv,
            !.app_h = s.app_h, !.app_hash = s.app_hash, !.app_open = s.app_open,
            !.journal = Append(s.journal, JE("Crash", 0, 0)),
            !.crashes = s.crashes + 1, !.rolled = s.rolled, !.tampered = s.tampered, !.sched = Append(s.sched, label)]

\* Together with the node the APPLICATION restarts and reports another height than it had: it
\* lost its last commits (an app that persists asynchronously) or it is AHEAD (it went on alone /
\* the node's data is older).  Lost commits are the reason ReplayBlocks has its "app is behind"
\* branches (ExecCommitBlock); the journal property is relative to the height the app reports.
AppSetOf(s, newh) ==
  IF newh = s.app_h THEN s
  ELSE [s EXCEPT !.app_h = newh,
                 !.app_hash = IF newh < s.app_h THEN HashAfter(s.cfg, newh)
                              ELSE [c |-> IF s.cfg.hashc THEN Commits(s.cfg, newh) ELSE 0, t |-> s.app_hash.t],   \* empty blocks of its own
                 !.app_open = [h |-> 0, nd |-> 0, ended |-> FALSE],
                 !.journal = Append(s.journal, JE("Rollback", newh, 0)),
                 !.rolled = TRUE, !.tampered = s.tampered \/ newh > s.app_h]
RollbackOf(s, n) == AppSetOf(s, s.app_h - n)

\* An operator puts back an older copy of (part of) the node's data directory, taken when height k
\* was the last committed one.  (Plans without pruning: the base of such a copy is 1.)
MinI(a, b) == IF a < b THEN a ELSE b
RestoreBS(s, k) == [s EXCEPT !.bs_h = k, !.bs_w = {}, !.bs_base = IF s.bs_base = 0 THEN 0 ELSE MinI(s.bs_base, k),
                             !.tampered = TRUE]
RestoreSS(s, k) == [s EXCEPT !.ss_saved = TRUE, !.ss_st = StateAfter(s.cfg, k),
                             !.ss_vals = {p \in s.ss_vals : p[1] <= k + 2},
                             !.ss_params = {p \in s.ss_params : p[1] <= k + 1},
                             !.ss_abci = {x \in s.ss_abci : x <= k},
                             !.ss_last = [h |-> k, vu |-> HasVU(s.cfg, k), pu |-> HasPU(s.cfg, k)],
                             !.tampered = TRUE]
\* the WAL and the validator key's last-sign state of that copy
RestoreWP(s, k) == [s EXCEPT !.wal = IF HasEnd(s.wal, k) THEN SubSeq(s.wal, 1, FirstEnd(s.wal, k)) ELSE s.wal,
                             !.pv = [h |-> k, step |-> 3], !.tampered = TRUE]
\* db / ds: how many blocks older the restored block store / state store are; da: app height change
TamperOf(s, db, ds, da) ==
  LET nb == s.bs_h - db
      ns == s.ss_st.h - ds
      s1 == IF db > 0 THEN RestoreBS(s, nb) ELSE s
      s2 == IF ds > 0 THEN RestoreSS(s1, ns) ELSE s1
      k  == IF db > 0 /\ ds > 0 THEN MinI(nb, ns) ELSE IF db > 0 THEN nb ELSE ns
      s3 == IF db > 0 \/ ds > 0 THEN RestoreWP(s2, k) ELSE s2
  IN AppSetOf(s3, s.app_h + da)

\* label of the operation Do(s) is about to execute (what a crash "before it" is named after)
Label(s) == [name |-> IF s.pc = "CS" THEN (IF s.cs_n = 0 THEN "CS_WalOther" ELSE IF s.cs_n = 1 THEN "CS_WalPrecommit" ELSE "CS_Decide")
                      ELSE s.pc,
             mode |-> s.mode,
             h    |-> IF s.pc = "CS" THEN s.cs_h ELSE s.h,
             i    |-> IF s.pc = "FC_BSState" THEN (IF s.bs_base = 0 THEN s.h ELSE s.bs_base)
                      ELSE IF s.pc = "FC_PruneBSState" THEN s.retain ELSE s.i,
             rb   |-> 0,       \* blocks the application loses at a crash before this operation
             fwd  |-> 0,       \* blocks the application is ahead by after it
             rbs  |-> 0,       \* how many blocks older the block store put back after it is
             rss  |-> 0]       \* ... and the state store

AllPcs == SilentPcs \cup {"HS_Info", "HS_InitChain", "HS_SaveGenVals1", "HS_SaveGenVals2", "HS_SaveGenParams",
  "HS_SaveGenState", "EC_Begin", "EC_Deliver", "EC_End", "EC_Commit", "HS_Done", "CS", "FC_BSPart", "FC_BSMeta",
  "FC_BSHash", "FC_BSCommit", "FC_BSSeen", "FC_BSState", "FC_WalEndHeight", "AB_Start", "AB_Begin", "AB_Deliver",
  "AB_End", "AB_SaveABCIResp1", "AB_SaveABCIResp2", "AB_MempoolLock", "AB_FlushMempoolConn", "AB_AppCommit",
  "AB_MempoolUpdate", "AB_MempoolUnlock", "AB_EvpoolUpdate", "AB_SaveVals", "AB_SaveParams", "AB_SaveStateKey",
  "AB_Finish", "FC_PruneBSState", "FC_PruneBSBatch", "FC_PruneSSBatch", "R_RepairEndHeight", "Done", "HS_Error",
  "Panic", "Stalled"}
Terminal(s) == s.pc \in {"Done", "HS_Error", "Panic", "Stalled"}
\* a crash immediately before a silent step is the same as before the next operation
Crashable(s) == ~Terminal(s) /\ s.pc \notin SilentPcs /\ ~(s.pc = "CS" /\ s.cs_n >= 2)

\* ----------------------------------------------------------------------------- properties on a state
JournalWellFormedAt(s) == JournalOK(s.cfg, s.journal)
HeightsAgreeAt(s) ==
  s.pc = "HS_Done" => /\ s.app_h = s.ss_st.h /\ s.bs_h = s.ss_st.h
                      /\ s.app_hash = s.ss_st.hash
CursorsWithinOneAt(s) == \/ s.tampered
                         \/ /\ s.bs_h \in {s.ss_st.h, NextH(s.cfg, s.ss_st.h)}
                            /\ s.app_h <= NextH(s.cfg, s.ss_st.h)
                            /\ (~s.rolled => s.app_h >= s.ss_st.h)
                            /\ s.app_h <= s.bs_h
WalEndImpliesStoredAt(s) == \A k \in DOMAIN s.wal : s.wal[k].t = "end" => s.wal[k].h <= s.bs_h
NoStuckAt(s) == s.pc \notin {"HS_Error", "Panic", "Stalled"}
\* the saved state is the CHAIN's state for its height: what an uncrashed ApplyBlock computes - heights of
\* the last validator / parameter changes, the parameters in force (and the app version with them), the
\* next validator set, the app hash (not comparable once an operator let the app diverge)
StateIsChainStateAt(s) ==
  s.ss_saved => LET t == StateAfter(s.cfg, s.ss_st.h) IN
                IF s.tampered THEN [s.ss_st EXCEPT !.hash = t.hash] = t ELSE s.ss_st = t
MempoolBracketAt(s) == /\ (s.pc = "AB_AppCommit" /\ s.mode = "fc") => (s.lock /\ s.flushed)
                       /\ s.pc = "AB_MempoolUpdate" => s.lock
ResponsesBeforeCommitAt(s) == (s.pc = "AB_AppCommit" /\ s.mode = "fc") => s.ss_last.h = s.h
=============================================================================
