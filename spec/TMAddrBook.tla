------------------------------ MODULE TMAddrBook ------------------------------
(* The p2p address book of tendermint v0.34 (p2p/pex/addrbook.go, known_address.go, params.go,
   file.go) as a sequential state machine at the grain of its public API: every operator below is
   one critical section under addrBook.mtx.  Auxiliary check PEX (not a listed property).

   This module has no variables: every API call is an operator
        Call(b, args, now)  ->  SET of outcomes [b |-> book', ...results...]
   (a set because the code draws random numbers and iterates Go maps: tmrand, map order).  The
   design state machine (TMAddrBookSM), and the trace specification (trace/TMAddrBookTrace) that
   judges behaviour OBSERVED on the real code, both reuse these operators.

   ABSTRACT STATE  b  (a record; 'the book')
     p       parameters (params.go): nb/ob bucket counts, nbs/obs bucket sizes, maxper
             (maxNewBucketsPerAddress), minsel/maxsel/selpct (GetSelection), need (needAddressThreshold)
     strict  routabilityStrict
     our     set of addresses (ourAddrs, keyed by the address STRING  id@ip:port)
     priv    set of peer ids (privateIDs)
     ka      function  id -> knownAddress  = addrLookup (keyed by peer ID).  A knownAddress is
             [addr, src, bkts (SET of bucket indexes = ka.Buckets), att, typ 'new'|'old', la, ls, lb]
             la/ls/lb = LastAttempt/LastSuccess/LastBanTime in whole minutes, NoTime = zero time.
             The bucket maps bucketsNew/bucketsOld of the code are REDUNDANT with ka.Buckets; the
             abstract state keeps one copy and the trace spec checks that the observed copies agree
             (property RepAgree there).
     bad     function  id -> knownAddress = badPeers
     nNew, nOld   the counters of the code (redundant with ka, kept explicitly: CountsExact)

   An address is a record [id, ep] (peer ID, 'ip:port'); calcNewBucket/calcOldBucket are keyed hashes:
   they are INPUTS here (arguments nb/ob/nbf supplied by the model's bucket function or, in the
   trace spec, reported by the harness from the real code) and the spec checks the structural rules.

   PROPERTIES (what a user of AddrBook relies on; sources: the doc comments of the AddrBook
   interface and of its methods, params.go, the 'Preventing abuse' comment of pex.Reactor)
     BucketShape      a known address is either NEW and in 1..maxNewBucketsPerAddress new buckets,
                      or OLD and in exactly one old bucket - never both            (state)
     CountsExact      nNew/nOld (hence Size, Empty, NeedMoreAddrs) are the real counts (state)
     BucketBound      no bucket holds more than newBucketSize / oldBucketSize addresses
                      ('max addresses in each new/old address bucket', params.go)  (state)
     BannedNotKnown   a banned peer is not in the book (so it is never picked nor gossiped) (state)
     KeyedById        addrLookup[id].Addr.ID = id                                   (state)
     AddFilter        AddAddress refuses - error, book unchanged - nil/invalid addresses, banned
                      and private ids, addresses learnt from a private source, our own addresses and,
                      when routabilityStrict, non-routable ones; otherwise a not yet known address
                      is in the book afterwards ('Does not add self', the ErrAddrBook errors)     (step)
     OldIsSticky      AddAddress never changes a peer that is already old (eclipse protection,
                      comment in addAddress)                                        (step)
     MarkGoodKeeps    MarkGood(id) makes IsGood(id) true and neither loses nor invents an address:
                      'If the destination bucket is full, demote the oldest one to a new bucket'
                      (moveToOld); at most one NEW address may fall victim to expireNew in the
                      bucket the demoted entry goes to - an OLD address is never lost  (step)
     ReinstateKeeps   ReinstateBadPeers 'removes bad peers from ban list and places them into a
                      new bucket': afterwards exactly the peers whose ban time has passed have
                      left the ban list and each is in the book again (unless its new bucket was
                      full and it fell victim to expireNew)                         (step)
     BanHolds         a peer whose ban has not expired stays banned                  (step)
     PickSound        PickAddress returns a known address; nil only if the book is empty or the
                      class it draws from is empty                                  (result)
     SelectionSound   GetSelection/GetSelectionWithBias return known, pairwise different, non-nil
                      addresses, never more than maxGetSelection ('this must match maxMsgSize')
                      nor more than the book holds; GetSelection returns exactly
                      min(max, max(min(minGetSelection,size), size*pct/100))        (result)
     SaveLoadIdentity saveToFile + loadFromFile into a fresh book reproduce addrLookup, the
                      buckets and the counters exactly (ban list, own and private ids are not
                      persisted - by design)                                        (step)
     QueriesAgree     HasAddress/IsGood/IsBanned/OurAddress/Size/Empty/NeedMoreAddrs answer
                      according to the state                                        (result)

   Weak_* switches: each weakens ONE guard the way a plausible regression would.  Four of them
   describe the code AS IT IS in v0.34 (findings, see lib/props/pex.py FINDINGS):
     Weak_DemoteKeepsOldType     moveToOld never resets BucketType of the displaced entry, so
                                 addToNewBucket refuses it (errAddrBookOldAddressNewBucket, only
                                 logged) and the address is silently dropped      -> MarkGoodKeeps
     Weak_ReinstateKeepsOldType  the same for a banned peer that had been old     -> ReinstateKeeps
     Weak_PickAtLeastOne         randomPickAddresses(num<=0) returns one address  -> SelectionSound
     Weak_BucketFullOffByOne     'len(bucket) > size' lets a bucket grow to size+1 -> BucketBound *)
EXTENDS Integers, Sequences, FiniteSets, TLC

CONSTANTS Weak_DemoteKeepsOldType, Weak_ReinstateKeepsOldType, Weak_PickAtLeastOne, Weak_BucketFullOffByOne,
          Weak_NoBanCheck, Weak_NoPrivateCheck, Weak_NoSelfCheck, Weak_NoRoutableCheck,
          Weak_ExpireKeepsCount, Weak_NoMaxBucketsPerAddr, Weak_MarkBadKeepsAddress,
          Weak_ReinstateIgnoresBanTime, Weak_LoadSkipsCounts, Weak_OldNotSticky, Weak_SelectionIgnoresMax

NoTime  == -1
NilAddr == [id |-> "nil", ep |-> "nil"]
NoAddr  == [id |-> "none", ep |-> "none"]     \* "PickAddress returned nil"

\* known_address.go isBad, params.go - minutes
RecentWin   == 1            \* "has been attempted in the last minute"
MissingAge  == 7 * 24 * 60  \* numMissingDays
NumRetries  == 3
MaxFailures == 10
MinBadAge   == 7 * 24 * 60  \* minBadDays

KeyOf(a) == a.id \o "@" \o a.ep                 \* NetAddress.String()

Put(f, i, v) == (i :> v) @@ f
Drop(f, i)   == [j \in DOMAIN f \ {i} |-> f[j]]
Min2(a, b) == IF a < b THEN a ELSE b
Max2(a, b) == IF a > b THEN a ELSE b

Known(b)  == DOMAIN b.ka
NewIds(b) == {i \in Known(b) : b.ka[i].typ = "new"}
OldIds(b) == {i \in Known(b) : b.ka[i].typ = "old"}
NewBucket(b, x) == {i \in NewIds(b) : x \in b.ka[i].bkts}     \* bucketsNew[x]
OldBucket(b, x) == {i \in OldIds(b) : x \in b.ka[i].bkts}     \* bucketsOld[x]
Size(b) == b.nNew + b.nOld                                   \* addrBook.size()

NewKA(addr, src, now) ==                                      \* newKnownAddress
  [addr |-> addr, src |-> src, bkts |-> {}, att |-> 0, typ |-> "new", la |-> now, ls |-> NoTime, lb |-> NoTime]

EmptyBook(p, strict) ==
  [p |-> p, strict |-> strict, our |-> {}, priv |-> {}, ka |-> << >>, bad |-> << >>, nNew |-> 0, nOld |-> 0]

\* ------------------------------------------------------------------ known_address.go
IsBad(k, now) ==                                              \* knownAddress.isBad
  /\ k.typ = "new"
  /\ ~(k.la > now - RecentWin)
  /\ \/ k.la < now - MissingAge
     \/ k.ls = NoTime /\ k.att >= NumRetries
     \/ (k.ls = NoTime \/ k.ls < now - MinBadAge) /\ k.att >= MaxFailures

IsBannedKA(k, now) == k.lb # NoTime /\ k.lb > now             \* knownAddress.isBanned

Oldest(b, ids) == {i \in ids : \A j \in ids : b.ka[i].la <= b.ka[j].la}    \* pickOldest (ties: map order)

\* a bucket with n entries is "full": the code tests  len(bucket) > size  (one too late)
Full(n, size) == IF Weak_BucketFullOffByOne THEN n > size ELSE n >= size

\* ------------------------------------------------------------------ bucket plumbing
\* removeFromBucket(ka, type, x): drop one reference; the last one removes the address
RemoveFromBucket(b, i, x) ==
  LET k  == b.ka[i]
      bk == k.bkts \ {x}
  IN IF bk # {} THEN [b EXCEPT !.ka = Put(b.ka, i, [k EXCEPT !.bkts = bk])]
     ELSE [b EXCEPT !.ka = Drop(b.ka, i),
                    !.nNew = IF k.typ = "new" /\ ~Weak_ExpireKeepsCount THEN @ - 1 ELSE @,
                    !.nOld = IF k.typ = "old" THEN @ - 1 ELSE @]

\* removeFromAllBuckets(ka)
RemoveFromAllBuckets(b, i) ==
  LET k == b.ka[i]
  IN [b EXCEPT !.ka = Drop(b.ka, i),
               !.nNew = IF k.typ = "new" THEN @ - 1 ELSE @,
               !.nOld = IF k.typ = "old" THEN @ - 1 ELSE @]

\* expireNew(x): throw away a bad entry, else the oldest one
ExpireNew(b, x, now) ==
  LET m   == NewBucket(b, x)
      bad == {i \in m : IsBad(b.ka[i], now)}
  IN IF bad # {} THEN {RemoveFromBucket(b, i, x) : i \in bad}
     ELSE {RemoveFromBucket(b, i, x) : i \in Oldest(b, m)}

\* addToNewBucket(ka, x); k is the knownAddress VALUE (it may or may not be in addrLookup yet)
AddToNewBucket(b, k, x, now) ==
  IF k.typ = "old" THEN {[b |-> b, err |-> "old_in_new"]}       \* errAddrBookOldAddressNewBucket
  ELSE IF x \in k.bkts THEN {[b |-> b, err |-> "nil"]}           \* already in that bucket
  ELSE LET bs == IF Full(Cardinality(NewBucket(b, x)), b.p.nbs) THEN ExpireNew(b, x, now) ELSE {b}
       IN { LET k2 == [k EXCEPT !.bkts = @ \cup {x}]
            IN [b |-> [b1 EXCEPT !.ka = Put(b1.ka, k.addr.id, k2),
                                 !.nNew = IF Cardinality(k2.bkts) = 1 THEN @ + 1 ELSE @],
                err |-> "nil"] : b1 \in bs }

\* addToOldBucket(ka, x) -> [b, added]
AddToOldBucket(b, k, x) ==
  IF k.typ = "new" \/ k.bkts # {} THEN [b |-> b, added |-> FALSE]
  ELSE IF Full(Cardinality(OldBucket(b, x)), b.p.obs) THEN [b |-> b, added |-> FALSE]
  ELSE [b |-> [b EXCEPT !.ka = Put(b.ka, k.addr.id, [k EXCEPT !.bkts = {x}]), !.nOld = @ + 1], added |-> TRUE]

\* moveToOld(ka): i is known and new; ob = calcOldBucket(ka.Addr); nbf[j] = calcNewBucket of the
\* members j of old bucket ob (needed when one of them is displaced)
MoveToOld(b, i, ob, nbf, now) ==
  LET k  == b.ka[i]
      b1 == RemoveFromAllBuckets(b, i)
      k1 == [k EXCEPT !.bkts = {}, !.typ = "old"]
      r1 == AddToOldBucket(b1, k1, ob)
  IN IF r1.added THEN {r1.b}
     ELSE \* no room: the oldest member goes back to a new bucket, then try again
       UNION { LET b2 == RemoveFromBucket(b1, o, ob)
                   ko == [b1.ka[o] EXCEPT !.bkts = {},
                                          !.typ = IF Weak_DemoteKeepsOldType THEN "old" ELSE "new"]
               IN { (AddToOldBucket(r.b, k1, ob)).b : r \in AddToNewBucket(b2, ko, nbf[o], now) }
             : o \in Oldest(b1, OldBucket(b1, ob)) }

\* ------------------------------------------------------------------ the API
AddOurAddress(b, a) == [b EXCEPT !.our = @ \cup {a}]
AddPrivateIDs(b, ids) == [b EXCEPT !.priv = @ \cup ids]

\* the error AddAddress must return for (addr, src); "nil" = passes the filter
AddVerdict(b, addr, src, valid, routable) ==
  IF addr = NilAddr \/ src = NilAddr THEN "nil_addr"
  ELSE IF ~valid THEN "invalid"
  ELSE IF addr.id \in DOMAIN b.bad /\ ~Weak_NoBanCheck THEN "banned"
  ELSE IF addr.id \in b.priv /\ ~Weak_NoPrivateCheck THEN "private"
  ELSE IF src.id \in b.priv /\ ~Weak_NoPrivateCheck THEN "private_src"
  ELSE IF addr \in b.our /\ ~Weak_NoSelfCheck THEN "self"
  ELSE IF b.strict /\ ~routable /\ ~Weak_NoRoutableCheck THEN "nonroutable"
  ELSE "nil"

\* AddAddress(addr, src); nb = calcNewBucket(addr, src).  coin: "na" | "skip" | "add" (rand.Int31n)
AddAddress(b, addr, src, valid, routable, nb, now) ==
  LET v == AddVerdict(b, addr, src, valid, routable)
  IN IF v # "nil" THEN {[b |-> b, err |-> v, coin |-> "na"]}
     ELSE IF addr.id \in Known(b)
     THEN LET k == b.ka[addr.id]
          IN IF k.typ = "old" /\ ~Weak_OldNotSticky THEN {[b |-> b, err |-> "nil", coin |-> "na"]}
             ELSE IF Cardinality(k.bkts) = b.p.maxper /\ ~Weak_NoMaxBucketsPerAddr
                  THEN {[b |-> b, err |-> "nil", coin |-> "na"]}
             ELSE {[b |-> b, err |-> "nil", coin |-> "skip"]}
                  \cup {[b |-> r.b, err |-> r.err, coin |-> "add"] : r \in AddToNewBucket(b, k, nb, now)}
     ELSE {[b |-> r.b, err |-> r.err, coin |-> "na"] : r \in AddToNewBucket(b, NewKA(addr, src, now), nb, now)}

RemoveAddress(b, addr) == IF addr.id \in Known(b) THEN RemoveFromAllBuckets(b, addr.id) ELSE b

MarkGood(b, id, ob, nbf, now) ==
  IF id \notin Known(b) THEN {b}
  ELSE LET k1 == [b.ka[id] EXCEPT !.la = now, !.att = 0, !.ls = now]      \* markGood
           b1 == [b EXCEPT !.ka = Put(b.ka, id, k1)]
       IN IF k1.typ = "new" THEN MoveToOld(b1, id, ob, nbf, now) ELSE {b1}

MarkAttempt(b, addr, now) ==
  IF addr.id \notin Known(b) THEN b
  ELSE [b EXCEPT !.ka = Put(b.ka, addr.id, [b.ka[addr.id] EXCEPT !.la = now, !.att = @ + 1])]

\* MarkBad(addr, banTime): addBadPeer + removeAddress (both keyed by ID)
MarkBad(b, addr, ban, now) ==
  IF addr.id \notin Known(b) THEN b
  ELSE LET k  == b.ka[addr.id]
           kb == [k EXCEPT !.lb = IF k.lb = NoTime \/ k.lb < now + ban THEN now + ban ELSE k.lb, !.bkts = {}]
           b1 == IF addr.id \in DOMAIN b.bad THEN b ELSE [b EXCEPT !.bad = Put(b.bad, addr.id, kb)]
       IN IF Weak_MarkBadKeepsAddress THEN b1 ELSE RemoveFromAllBuckets(b1, addr.id)

\* ReinstateBadPeers: nbf[i] = calcNewBucket(ka.Addr, ka.Src) for i in badPeers.  The loop runs in
\* Go map order; the order only matters when a target bucket is full (expireNew).
Due(b, now) == {i \in DOMAIN b.bad : Weak_ReinstateIgnoresBanTime \/ ~IsBannedKA(b.bad[i], now)}

ReinstateOne(b, i, nbf, now) ==
  LET k0 == b.bad[i]
      k  == IF Weak_ReinstateKeepsOldType THEN k0 ELSE [k0 EXCEPT !.typ = "new"]
  IN { [r.b EXCEPT !.bad = Drop(r.b.bad, i)] : r \in AddToNewBucket(b, k, nbf[i], now) }

RECURSIVE ReinstateAll(_, _, _, _, _)
ReinstateAll(b, todo, nbf, now, anyOrder) ==
  IF todo = {} THEN {b}
  ELSE LET pick == IF anyOrder THEN todo ELSE {CHOOSE i \in todo : TRUE}
       IN UNION { UNION { ReinstateAll(b1, todo \ {i}, nbf, now, anyOrder) : b1 \in ReinstateOne(b, i, nbf, now) }
                : i \in pick }

ReinstateBadPeers(b, nbf, now) ==
  LET due == Due(b, now)
      \* could some target bucket overflow on the way?  (only then the order is visible)
      crowded == \E i \in due :
                    Cardinality(NewBucket(b, nbf[i])) + Cardinality({j \in due : nbf[j] = nbf[i]}) > b.p.nbs
  IN ReinstateAll(b, due, nbf, now, crowded /\ Cardinality(due) <= 4)

\* ------------------------------------------------------------------ queries
HasAddress(b, a) == a.id \in Known(b)
IsGood(b, a)     == a.id \in Known(b) /\ b.ka[a.id].typ = "old"
IsBanned(b, a)   == a.id \in DOMAIN b.bad
OurAddress(b, a) == a \in b.our
NeedMoreAddrs(b) == Size(b) < b.p.need
Empty(b)         == Size(b) = 0

Clamp(x) == Max2(0, Min2(100, x))

\* PickAddress(bias): the set of possible results.  pickFromOldBucket :=
\*   (newCorr+oldCorr)*rand < oldCorr,  oldCorr = sqrt(nOld)*(100-bias), newCorr = sqrt(nNew)*bias, rand in [0,1)
PickAddress(b, bias0) ==
  LET bias   == Clamp(bias0)
      oldPos == b.nOld > 0 /\ bias < 100          \* oldCorr > 0
      newPos == b.nNew > 0 /\ bias > 0            \* newCorr > 0
      canOld == oldPos
      canNew == ~oldPos \/ newPos
  IN IF Size(b) = 0 THEN {NoAddr}
     ELSE (IF canOld THEN {b.ka[i].addr : i \in OldIds(b)} ELSE {})
          \cup (IF canNew THEN (IF b.nNew = 0 THEN {NoAddr} ELSE {b.ka[i].addr : i \in NewIds(b)}) ELSE {})

\* number of addresses GetSelection* hand out for a book of n addresses
NumSel(p, n) == Min2(p.maxsel, Max2(Min2(p.minsel, n), (n * p.selpct) \div 100))
PctOf(pc, n) == (pc * n + 50) \div 100            \* percentageOfNum: math.Round(p/100*n)

\* randomPickAddresses(type, num) returns this many addresses when avail are there
PickCount(num, avail) ==
  IF num <= 0 THEN (IF Weak_PickAtLeastOne THEN Min2(1, avail) ELSE 0) ELSE Min2(num, avail)

\* GetSelectionWithBias(bias) -> [nnew, nold]: how many new and old addresses it returns
BiasCounts(b, bias0) ==
  LET bias == Clamp(bias0)
      num  == IF Weak_SelectionIgnoresMax THEN Max2(Min2(b.p.minsel, Size(b)), (Size(b) * b.p.selpct) \div 100)
              ELSE NumSel(b.p, Size(b))
      req  == Max2(PctOf(bias, num), num - b.nOld)
      nn   == PickCount(req, Cardinality(NewIds(b)))
      no   == PickCount(num - nn, Cardinality(OldIds(b)))
  IN IF Size(b) = 0 THEN [nnew |-> 0, nold |-> 0] ELSE [nnew |-> nn, nold |-> no]

SelCount(b) == IF Size(b) = 0 THEN 0
               ELSE IF Weak_SelectionIgnoresMax THEN Max2(Min2(b.p.minsel, Size(b)), (Size(b) * b.p.selpct) \div 100)
               ELSE NumSel(b.p, Size(b))

\* ------------------------------------------------------------------ persistence (file.go)
\* saveToFile writes addrLookup (and the key); loadFromFile into a fresh book restores buckets,
\* addrLookup and the counters.  ourAddrs, privateIDs, badPeers are not persisted.
Saved(b) == b.ka
Load(p, strict, file) ==
  [EmptyBook(p, strict) EXCEPT
      !.ka = file,
      !.nNew = Cardinality({i \in DOMAIN file : file[i].typ = "new"}),
      !.nOld = IF Weak_LoadSkipsCounts THEN 0 ELSE Cardinality({i \in DOMAIN file : file[i].typ = "old"})]

\* ------------------------------------------------------------------ properties of a state
BucketShape(b) ==
  \A i \in Known(b) : LET k == b.ka[i] IN
     /\ k.typ \in {"new", "old"}
     /\ k.typ = "new" => /\ Cardinality(k.bkts) \in 1..b.p.maxper
                         /\ k.bkts \subseteq 0..(b.p.nb - 1)
     /\ k.typ = "old" => /\ Cardinality(k.bkts) = 1
                         /\ k.bkts \subseteq 0..(b.p.ob - 1)
CountsExact(b)    == b.nNew = Cardinality(NewIds(b)) /\ b.nOld = Cardinality(OldIds(b))
BucketBound(b)    == /\ \A x \in 0..(b.p.nb - 1) : Cardinality(NewBucket(b, x)) <= b.p.nbs
                     /\ \A x \in 0..(b.p.ob - 1) : Cardinality(OldBucket(b, x)) <= b.p.obs
BannedNotKnown(b) == DOMAIN b.bad \cap Known(b) = {}
KeyedById(b)      == (\A i \in Known(b) : b.ka[i].addr.id = i) /\ (\A i \in DOMAIN b.bad : b.bad[i].addr.id = i)

\* ------------------------------------------------------------------ properties of a step  b -> b2
\* AddAddress(addr, src) returned err
AddFilterOK(b, addr, src, valid, routable, err, b2) ==
  LET must == IF addr = NilAddr \/ src = NilAddr THEN "nil_addr"
              ELSE IF ~valid THEN "invalid"
              ELSE IF addr.id \in DOMAIN b.bad THEN "banned"
              ELSE IF addr.id \in b.priv THEN "private"
              ELSE IF src.id \in b.priv THEN "private_src"
              ELSE IF addr \in b.our THEN "self"
              ELSE IF b.strict /\ ~routable THEN "nonroutable"
              ELSE "nil"
  IN /\ err = must
     /\ must # "nil" => b2 = b
     /\ must = "nil" /\ addr.id \notin Known(b) => addr.id \in Known(b2) /\ b2.ka[addr.id].typ = "new"
OldStickyOK(b, addr, b2) ==
  addr # NilAddr /\ addr.id \in Known(b) /\ b.ka[addr.id].typ = "old" => b2 = b
\* the only address MarkGood may cost is a NEW one that expireNew throws out of the crowded new bucket
\* the displaced old entry is demoted to; an old address is never lost
MarkGoodOK(b, id, ob, nbf, b2) ==
  /\ Known(b2) \subseteq Known(b)
  /\ id \in Known(b) => id \in Known(b2) /\ b2.ka[id].typ = "old"
  /\ Cardinality(Known(b) \ Known(b2)) <= 1
  /\ \A i \in Known(b) \ Known(b2) :
        /\ b.ka[i].typ = "new"
        /\ \E o \in OldBucket(b, ob) : i \in NewBucket(b, nbf[o])
ReinstateOK(b, nbf, now, b2) ==
  /\ \A i \in DOMAIN b.bad : IsBannedKA(b.bad[i], now) => i \in DOMAIN b2.bad          \* BanHolds
  /\ \A i \in DOMAIN b.bad : ~IsBannedKA(b.bad[i], now) =>
        /\ i \notin DOMAIN b2.bad
        /\ \/ i \in Known(b2)
           \/ Cardinality(NewBucket(b2, nbf[i])) >= b.p.nbs                            \* crowded out
  /\ Known(b) \subseteq Known(b2) \/ \E i \in DOMAIN b.bad : Cardinality(NewBucket(b2, nbf[i])) >= b.p.nbs
SaveLoadOK(b, b2) == b2.ka = b.ka /\ b2.nNew = b.nNew /\ b2.nOld = b.nOld

\* results
PickOK(b, bias, res) ==
  /\ res # NoAddr => \E i \in Known(b) : b.ka[i].addr = res
  /\ res = NoAddr => \/ Size(b) = 0
                     \/ b.nNew = 0 /\ Clamp(bias) = 100      \* "we try to pick from an empty bucket"
  /\ Size(b) > 0 /\ ~(b.nNew = 0 /\ Clamp(bias) = 100) => res # NoAddr
\* sel: a sequence of addresses
NoDups(sel) == \A x, y \in DOMAIN sel : x # y => sel[x] # sel[y]
SelectionOK(b, sel) ==
  /\ \A x \in DOMAIN sel : \E i \in Known(b) : b.ka[i].addr = sel[x]
  /\ NoDups(sel)
  /\ Len(sel) <= NumSel(b.p, Size(b))
=============================================================================
