---------------------------- MODULE TMGossipSys ----------------------------
(* State machine over TMGossip: ONE node (a real Reactor + consensus.State in the harness) gossiping to ONE
   connected correct peer (a real consensus.State behind a scripted p2p.Peer in the harness).

   A behaviour starts in a SITUATION: node and peer have each handled a script of consensus inputs
   (TMConsensusNode operators; the Go driver runs the same script through handleMsg / handleTimeout of real
   consensus.State objects), and the peer state prs is what the peer's announcements produced ("live": the peer was
   connected all along, "fresh": it connected just now and only its NewRoundStep arrived).  Then the scheduler runs
       DataStep    one iteration of gossipDataRoutine
       VotesStep   one iteration of gossipVotesRoutine
       Maj23Step   one iteration of queryMaj23Routine
   each with delivery to the peer, the peer's reaction (its consensus.State handles the message, its reactor
   announces HasVote / NewValidBlock / NewRoundStep, answers VoteSetMaj23 with VoteSetBits) and Receive of those
   announcements, as ONE step -- the harness is the only scheduler and does exactly that.  Environment moves:
       PeerTimeout   a timeout the peer has scheduled fires (the peer moves on: new needs)
       PeerClaim     the peer sends VoteSetMaj23 for a majority it holds; the node answers VoteSetBits          *)
EXTENDS TMGossip

CONSTANTS NodeMenu, PeerMenu, Modes, EnvBudget

VARIABLES n, x, prs, kv, kp, kprop, kh, env, mid, act
vars == <<n, x, prs, kv, kp, kprop, kh, env, mid, act>>

\* ---------------------------------------------------------------------- scripts
HS == <<"1", "2", "3", "4", "5">>
BA(h) == "A" \o HS[h]
BB(h) == "B" \o HS[h]
V3 == <<ValSeq[1], ValSeq[2], ValSeq[3]>>            \* three of the four validators: +2/3
V2 == <<ValSeq[1], ValSeq[2]>>
VotesBy(t, r, who, v) == [k \in DOMAIN who |-> ElVote(t, r, who[k], v)]
PartsAll(v) == [k \in 1..NParts |-> ElPart(v, k - 1)]
NH == <<ElTo("NewHeight", 0)>>

\* a whole height decided in round 0 with block A<h>, precommits of three validators
CommitHeight(h) == NH \o <<ElProp(0, BA(h), -1)>> \o PartsAll(BA(h)) \o VotesBy(Prevote, 0, V3, BA(h)) \o VotesBy(Precommit, 0, V3, BA(h))
RECURSIVE CommitHeights(_, _)
CommitHeights(from, to) == IF from > to THEN << >> ELSE CommitHeight(from) \o CommitHeights(from + 1, to)

\* round r without a decision: nothing proposed, +2/3 nil prevotes and precommits, precommit timeout -> round r+1
NilRound(r) == <<ElTo("Propose", r)>> \o VotesBy(Prevote, r, V3, Nil) \o VotesBy(Precommit, r, V3, Nil) \o <<ElTo("PrecommitWait", r)>>
\* round r with a polka for v but no decision (the party locks v if it has the block): -> round r+1, valid block v
PolkaRound(r, v) == <<ElProp(r, v, -1)>> \o PartsAll(v) \o VotesBy(Prevote, r, V3, v) \o VotesBy(Precommit, r, V3, Nil) \o <<ElTo("PrecommitWait", r)>>

\* the current-height tails (h = the party's height when the tail starts)
Tail0(name, h) ==
  LET A == BA(h)  B == BB(h) IN
  CASE name = "newheight"     -> << >>
    [] name = "propose"       -> NH
    [] name = "prop"          -> NH \o <<ElProp(0, A, -1)>>
    [] name = "prop_part0"    -> NH \o <<ElProp(0, A, -1), ElPart(A, 0)>>
    [] name = "block"         -> NH \o <<ElProp(0, A, -1)>> \o PartsAll(A)
    [] name = "block_pv2"     -> NH \o <<ElProp(0, A, -1)>> \o PartsAll(A) \o VotesBy(Prevote, 0, V2, A)
    \* +2/3 any prevotes without a polka (the fourth validator prevotes nil), prevote timeout: Precommit step with 2 prevotes for A
    [] name = "block_pv2_wait" -> NH \o <<ElProp(0, A, -1)>> \o PartsAll(A) \o VotesBy(Prevote, 0, V2, A)
                                     \o <<ElVote(Prevote, 0, ValSeq[4], Nil), ElTo("PrevoteWait", 0)>>
    \* votes of the NEXT round held while still in round 0 (HeightVoteSet keeps round+1)
    [] name = "ahead_pv1"     -> NH \o VotesBy(Prevote, 1, V2, B)
    [] name = "block_polka"   -> NH \o <<ElProp(0, A, -1)>> \o PartsAll(A) \o VotesBy(Prevote, 0, V3, A)
    [] name = "block_polka_pc2" -> NH \o <<ElProp(0, A, -1)>> \o PartsAll(A) \o VotesBy(Prevote, 0, V3, A) \o VotesBy(Precommit, 0, V2, A)
    \* precommits of different values in one vote set (the fourth validator precommits nil): what VoteSetBits must tell apart
    [] name = "block_pc_mixed" -> NH \o <<ElProp(0, A, -1)>> \o PartsAll(A) \o VotesBy(Prevote, 0, V3, A)
                                     \o <<ElVote(Precommit, 0, ValSeq[1], A), ElVote(Precommit, 0, ValSeq[4], Nil)>>
    [] name = "prop_polka"    -> NH \o <<ElProp(0, A, -1)>> \o VotesBy(Prevote, 0, V3, A)
    [] name = "polka_noprop"  -> NH \o VotesBy(Prevote, 0, V3, A)
    [] name = "nilpolka"      -> NH \o <<ElTo("Propose", 0)>> \o VotesBy(Prevote, 0, V3, Nil)
    [] name = "nilpolka_pcnil" -> NH \o <<ElTo("Propose", 0)>> \o VotesBy(Prevote, 0, V3, Nil) \o VotesBy(Precommit, 0, V3, Nil)
    [] name = "commit_noblock" -> NH \o VotesBy(Precommit, 0, V3, A)
    [] name = "commit_part0"  -> NH \o <<ElProp(0, A, -1), ElPart(A, 0)>> \o VotesBy(Precommit, 0, V3, A)
    [] name = "decided"       -> CommitHeight(h)
    [] name = "decided_strag" -> CommitHeight(h) \o <<ElStrag(0, ValSeq[4], BA(h))>>
    \* equivocation of the fourth validator: precommits for A to one party, nil to the other
    [] name = "decided_eq"    -> NH \o <<ElProp(0, A, -1)>> \o PartsAll(A) \o VotesBy(Prevote, 0, V3, A)
                                    \o VotesBy(Precommit, 0, V2, A) \o <<ElVote(Precommit, 0, ValSeq[4], A)>>
    [] name = "eq_nil"        -> NH \o <<ElProp(0, A, -1)>> \o PartsAll(A) \o VotesBy(Prevote, 0, V3, A)
                                    \o VotesBy(Precommit, 0, V2, A) \o <<ElVote(Precommit, 0, ValSeq[4], Nil)>>
    \* round 1 after a nil round
    [] name = "r1"            -> NH \o NilRound(0)
    [] name = "r1_prop"       -> NH \o NilRound(0) \o <<ElProp(1, B, -1)>>
    [] name = "r1_block_pv2"  -> NH \o NilRound(0) \o <<ElProp(1, B, -1)>> \o PartsAll(B) \o VotesBy(Prevote, 1, V2, B)
    [] name = "r1_commit_noblock" -> NH \o NilRound(0) \o VotesBy(Precommit, 1, V3, B)
    \* round 1 after a polka round: re-proposal of the valid block with its POL round
    [] name = "r1v"           -> NH \o PolkaRound(0, A)
    [] name = "r1v_reprop"    -> NH \o PolkaRound(0, A) \o <<ElProp(1, A, 0)>>
    [] name = "r1v_reprop_block" -> NH \o PolkaRound(0, A) \o <<ElProp(1, A, 0)>> \o PartsAll(A)
    \* the peer saw the polka of round 0 only partly: it needs the POL prevotes to accept the re-proposal
    [] name = "r1_reprop_nopol" -> NH \o <<ElProp(0, A, -1)>> \o PartsAll(A) \o VotesBy(Prevote, 0, V2, A) \o <<ElTo("PrevoteWait", 0)>>
                                      \o VotesBy(Precommit, 0, V3, Nil) \o <<ElTo("PrecommitWait", 0), ElProp(1, A, 0)>>
    \* round 2 after two nil rounds
    [] name = "r2"            -> NH \o NilRound(0) \o NilRound(1)
    [] name = "r2_pv2"        -> NH \o NilRound(0) \o NilRound(1) \o <<ElTo("Propose", 2)>> \o VotesBy(Prevote, 2, V2, Nil)

\* Node and peer live in the same world: what a validator voted in (height, round) is a fact both can only see parts of
\* (the fourth validator may equivocate: decided_eq / eq_nil).  Worlds of a height:
\*   "A0"  round 0: A proposed, prevotes and precommits for A                       (the height is decided in round 0)
\*   "P0"  round 0: A proposed, polka for A, precommits nil; round 1: A re-proposed with POLRound 0
\*   "N0a" round 0: nil votes; round 1: B proposed, votes for B
\*   "N0b" rounds 0 and 1: nil votes; round 2
WorldsOf(tail) ==
     (IF tail \in {"newheight", "propose", "prop", "prop_part0", "block", "block_pv2", "block_pv2_wait", "block_polka", "block_polka_pc2", "block_pc_mixed", "prop_polka",
                   "polka_noprop", "commit_noblock", "commit_part0", "decided", "decided_strag", "decided_eq", "eq_nil"} THEN {"A0"} ELSE {})
\cup (IF tail \in {"newheight", "propose", "prop", "prop_part0", "block", "block_pv2", "block_pv2_wait", "block_polka", "prop_polka", "polka_noprop",
                   "r1v", "r1v_reprop", "r1v_reprop_block", "r1_reprop_nopol"} THEN {"P0"} ELSE {})
\cup (IF tail \in {"newheight", "propose", "nilpolka", "nilpolka_pcnil", "r1", "r1_prop", "r1_block_pv2", "r1_commit_noblock", "ahead_pv1"} THEN {"N0a"} ELSE {})
\cup (IF tail \in {"newheight", "propose", "nilpolka", "nilpolka_pcnil", "r1", "r2", "r2_pv2"} THEN {"N0b"} ELSE {})
Compatible(ne, pe) ==
  IF ne.hs = pe.hs THEN WorldsOf(ne.tail) \cap WorldsOf(pe.tail) # {}
  ELSE IF ne.hs > pe.hs THEN "A0" \in WorldsOf(pe.tail) ELSE "A0" \in WorldsOf(ne.tail)

\* a menu entry: [hs |-> number of heights decided before, tail |-> name]
ScriptOf(e) == CommitHeights(1, e.hs) \o Tail0(e.tail, e.hs + 1)
PartyOf(e) == RunScript(NewParty, ScriptOf(e))

\* ---------------------------------------------------------------------- the peer's announcements
RECURSIVE LiveAnn(_, _, _)
LiveAnn(y, sq, acc) == IF sq = << >> THEN acc ELSE LET s1 == Step1(y, Head(sq)) IN LiveAnn(s1.x, Tail(sq), acc \o s1.ann)

RECURSIVE RecvAll(_, _, _)
RecvAll(nn, p, ms) == IF ms = << >> THEN [n |-> nn, prs |-> p]
                      ELSE LET r == Receive(nn, p, Head(ms)) IN RecvAll(HandleAll(r.n, r.queued), r.prs, Tail(ms))
RECURSIVE DeliverAll(_, _, _)
DeliverAll(y, ms, acc) == IF ms = << >> THEN [x |-> y, ann |-> acc]
                          ELSE LET d == Deliver(y, Head(ms)) IN DeliverAll(d.x, Tail(ms), acc \o d.ann)
RECURSIVE KVAll(_, _)
KVAll(k, ms) == IF ms = << >> THEN k ELSE KVAll(KnownV(k, Head(ms)), Tail(ms))
RECURSIVE KPAll(_, _)
KPAll(k, ms) == IF ms = << >> THEN k ELSE KPAll(KnownP(k, Head(ms)), Tail(ms))
RECURSIVE KPropAll(_, _)
KPropAll(k, ms) == IF ms = << >> THEN k ELSE KPropAll(KnownProp(k, Head(ms)), Tail(ms))
RECURSIVE KHAll(_, _)
KHAll(k, ms) == IF ms = << >> THEN k ELSE KHAll(KnownH(k, Head(ms)), Tail(ms))

\* ---------------------------------------------------------------------- situations
\* the peer's own gossipDataRoutine is not part of the model; its one contribution the node's gossip depends on is
\* kept: a peer that holds the proposal of the round both are in sends it to a node that lacks it
PeerProposal(nn, y) ==
  IF nn.h = y.h /\ RoundOf(nn) = RoundOf(y) /\ y.cn.prop # NoProp /\ nn.cn.prop = NoProp
  THEN <<MProposal(y.h, y.cn.prop.r, y.cn.prop.v, y.cn.prop.pol)>> ELSE << >>
InitAnn(nn, pe, mode) ==
  (IF mode = "live" THEN LiveAnn(NewParty, ScriptOf(pe), <<AnnNRS(NewParty)>>) ELSE <<AnnNRS(PartyOf(pe))>>)
  \o PeerProposal(nn, PartyOf(pe))
Situation(ne, pe, mode) ==
  LET nn == PartyOf(ne)
      ann == InitAnn(nn, pe, mode)
      r0 == RecvAll(nn, NewPRS, ann)
  IN [n |-> r0.n, x |-> PartyOf(pe), prs |-> r0.prs, ann |-> ann]

GInit ==
  \E ne \in NodeMenu, pe \in PeerMenu, mode \in Modes :
     Compatible(ne, pe) /\
     LET s == Situation(ne, pe, mode) IN
     /\ n = s.n /\ x = s.x /\ prs = s.prs
     /\ kv = KVAll({}, s.ann) /\ kp = KPAll({}, s.ann) /\ kprop = KPropAll({}, s.ann) /\ kh = KHAll({}, s.ann)
     /\ env = 0 /\ mid = s.prs
     /\ act = [name |-> "Init", node |-> ne, peer |-> pe, mode |-> mode, sent |-> << >>, ann |-> << >>]

\* ---------------------------------------------------------------------- steps
DoStep(kind, o) ==
  LET d == DeliverAll(x, o.sent, << >>)
      r == RecvAll(n, o.prs, d.ann)
      all == o.sent \o d.ann
  IN /\ x' = d.x /\ n' = r.n /\ prs' = r.prs
     /\ kv' = KVAll(kv, all) /\ kp' = KPAll(kp, all) /\ kprop' = KPropAll(kprop, all) /\ kh' = KHAll(kh, all)
     /\ act' = [name |-> kind, node |-> act.node, peer |-> act.peer, mode |-> act.mode, sent |-> o.sent, ann |-> d.ann]
     /\ mid' = o.prs
     /\ UNCHANGED env

DataStep  == \E o \in DataOutcomes(n, prs) : DoStep("data", o)
VotesStep == \E o \in VotesOutcomes(n, prs) : DoStep("votes", o)
Maj23Step == DoStep("maj23", [prs |-> prs, sent |-> Maj23Sends(n, prs)])

\* a timeout the peer's ticker holds (TMConsensusNode: scheduled by the step the peer is in)
PeerTimeouts(y) ==
       (IF StepOf(y) = StNewHeight THEN {ElTo("NewHeight", 0)} ELSE {})
  \cup (IF StepOf(y) = StPropose THEN {ElTo("Propose", RoundOf(y))} ELSE {})
  \cup (IF StepOf(y) = StPrevoteWait THEN {ElTo("PrevoteWait", RoundOf(y))} ELSE {})
  \cup (IF y.cn.ttp /\ RoundOf(y) < MaxRound THEN {ElTo("PrecommitWait", RoundOf(y))} ELSE {})
PeerTimeout ==
  /\ env < EnvBudget
  /\ \E e \in PeerTimeouts(x) :
       LET s1 == Step1(x, e)
           r == RecvAll(n, prs, s1.ann)
       IN /\ x' = s1.x /\ n' = r.n /\ prs' = r.prs
          /\ kv' = KVAll(kv, s1.ann) /\ kp' = KPAll(kp, s1.ann) /\ kprop' = KPropAll(kprop, s1.ann) /\ kh' = KHAll(kh, s1.ann)
          /\ act' = [name |-> "peertimeout", node |-> act.node, peer |-> act.peer, mode |-> act.mode, sent |-> <<e>>, ann |-> s1.ann]
  /\ env' = env + 1 /\ mid' = prs

\* the peer gets a vote the node also holds from a third party (another peer serves it concurrently) and announces it
PeerGetsVote ==
  /\ env < EnvBudget
  /\ \E it \in {q \in Held(n, x.h) : x.h = n.h /\ ~HasVoteAt(x, q.h, q.r, q.t, q.i)} :
       LET e  == ElVote(it.t, it.r, ValAt(it.i), it.v)
           s1 == Step1(x, e)
           r  == RecvAll(n, prs, s1.ann)
       IN /\ x' = s1.x /\ n' = r.n /\ prs' = r.prs
          /\ kv' = KVAll(kv, s1.ann) /\ kp' = KPAll(kp, s1.ann) /\ kprop' = KPropAll(kprop, s1.ann) /\ kh' = KHAll(kh, s1.ann)
          /\ act' = [name |-> "peergetsvote", node |-> act.node, peer |-> act.peer, mode |-> act.mode, sent |-> <<e>>, ann |-> s1.ann]
  /\ env' = env + 1 /\ mid' = prs

\* the peer claims a majority it holds; the node records the claim and answers with VoteSetBits
PeerClaims(y) == {MMaj23(y.h, r, t, VS(y, t, r).maj) : r \in {q \in y.cn.tracked : q = RoundOf(y)}, t \in {Prevote, Precommit}}
\* the answer shows exactly the node's votes for the claimed block in the vote sets as they were when the claim arrived
\* (nn = the node BEFORE the claim is handled; empty array if there is no entry for the block; no answer across heights)
AnswerOK(nn, m, a) ==
  IF nn.h # m.h THEN a = << >> ELSE
  LET ours == IF VoteSetTracked(nn, m) THEN ByBits(VS(nn, m.t, m.r), m.v) ELSE NilBA IN
  /\ Len(a) = 1 /\ a[1].k = "VSBits" /\ a[1].h = m.h /\ a[1].r = m.r /\ a[1].t = m.t /\ a[1].v = m.v
  /\ a[1].bits = (IF ours = NilBA THEN {} ELSE ours) /\ a[1].s = (IF ours = NilBA THEN 0 ELSE NVal)
PeerClaim ==
  /\ env < EnvBudget
  /\ \E m \in {c \in PeerClaims(x) : c.v # None} :
       LET r == Receive(n, prs, m) IN
       /\ n' = HandleAll(r.n, r.queued) /\ prs' = r.prs
       /\ act' = [name |-> "peerclaim", node |-> act.node, peer |-> act.peer, mode |-> act.mode, sent |-> r.sent, ann |-> <<m>>]
  /\ env' = env + 1 /\ mid' = prs
  /\ UNCHANGED <<x, kv, kp, kprop, kh>>

GNext == DataStep \/ VotesStep \/ Maj23Step \/ PeerTimeout \/ PeerClaim \/ PeerGetsVote
GSpec == GInit /\ [][GNext]_vars /\ WF_vars(DataStep) /\ WF_vars(VotesStep) /\ WF_vars(Maj23Step)

\* ---------------------------------------------------------------------- properties
PeerStateSound == PeerStateSoundP(prs, kv, kp, kprop)

\* nothing to send, nothing to prepare, and a whole claim exchange changes nothing
Quiescent ==
  /\ DataIdle(n, prs) /\ VotesIdle(n, prs)
  /\ LET d == DeliverAll(x, Maj23Sends(n, prs), << >>)
         r == RecvAll(n, prs, d.ann)
     IN d.x = x /\ r.prs = prs

\* GossipComplete, safety form: when the routines have come to rest nothing servable is lacking and every due claim
\* is part of the claim iteration
GossipComplete == Quiescent => (Lacks(n, x, prs, kh) = {} /\ ClaimsMissing(n, x, prs) = {})

\* (to be refuted: a state at rest in which the peer waits for a block the node holds as locked / valid block only)
NoG3AtRest == ~(Quiescent /\ LockedBlockItems(n, x) # {})

\* every send is something the node holds, that the peer state did not already show, and is recorded afterwards;
\* every announcement of the peer is recorded; a claim of the peer is answered with exactly the node's votes for the block.
\* (action properties: act / mid are outside the VIEW, every transition is examined)
StepOK ==
  /\ act'.name \in {"data", "votes", "maj23"} =>
        \A k \in DOMAIN act'.sent : Truthful(n, act'.sent[k]) /\ ~Redundant(prs, act'.sent[k]) /\ Recorded(mid', act'.sent[k])
  /\ act'.name \in {"data", "votes", "maj23", "peertimeout", "peergetsvote"} =>
        \A k \in DOMAIN act'.ann : k = Len(act'.ann) \/ act'.ann[k + 1].k # "NRS" => AnnRecorded(prs', act'.ann[k])
  \* ... and the claim itself reaches the vote sets only through the queue (Receive leaves the node's state alone)
  /\ act'.name = "peerclaim" => AnswerOK(n, act'.ann[1], act'.sent) /\ Receive(n, prs, act'.ann[1]).n = n
StepProps == [][StepOK]_vars

\* GossipComplete, liveness form (no starvation under weak fairness of the three routines)
Starvation == <>[](Lacks(n, x, prs, kh) = {})

GView == <<n, x, prs, kv, kp, kprop, kh, env>>
=============================================================================
