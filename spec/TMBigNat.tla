------------------------------ MODULE TMBigNat ------------------------------
(* Natural numbers of arbitrary size for TLC (whose integers are 32 bit).

   A number is a sequence of limbs, base 10^4, least significant limb first, without
   most-significant zero limbs (0 is << >>).  Limb products stay below 10^8 and sums of a
   dozen of them below 2^31, so every intermediate value is an exact TLC integer.

   Used by the C07 trace spec to evaluate the transcribed commit-verification functions
   and the reference predicate on the REAL voting powers (up to MaxTotalVotingPower = 2^60-ish)
   that the Go harness logs as limb arrays: the arithmetic of the judge is independent of
   int64 and of the code's  total*2/3  /  safeMul  formulation.                       *)
EXTENDS Integers, Sequences, TLC

BNBase == 10000

RECURSIVE BNNorm(_)
BNNorm(a) == IF Len(a) > 0 /\ a[Len(a)] = 0 THEN BNNorm(SubSeq(a, 1, Len(a) - 1)) ELSE a

BNLimb(a, i) == IF i <= Len(a) THEN a[i] ELSE 0
BNMaxLen(a, b) == IF Len(a) >= Len(b) THEN Len(a) ELSE Len(b)

\* small TLC natural (< 10^8) -> number
RECURSIVE BNOf(_)
BNOf(k) == IF k = 0 THEN << >> ELSE <<k % BNBase>> \o BNOf(k \div BNBase)

RECURSIVE BNAddFrom(_, _, _, _)
BNAddFrom(a, b, i, carry) ==
  IF i > BNMaxLen(a, b) THEN (IF carry = 0 THEN << >> ELSE <<carry>>)
  ELSE LET s == BNLimb(a, i) + BNLimb(b, i) + carry IN
       <<s % BNBase>> \o BNAddFrom(a, b, i + 1, s \div BNBase)
BNAdd(a, b) == BNNorm(BNAddFrom(a, b, 1, 0))

\* a * k for a limb k (0 <= k < 10^4)
RECURSIVE BNMulLimbFrom(_, _, _, _)
BNMulLimbFrom(a, k, i, carry) ==
  IF i > Len(a) THEN (IF carry = 0 THEN << >> ELSE <<carry>>)
  ELSE LET s == a[i] * k + carry IN
       <<s % BNBase>> \o BNMulLimbFrom(a, k, i + 1, s \div BNBase)

Zeros(n) == [i \in 1..n |-> 0]

\* schoolbook: sum over limbs of b of (a * b[j]) shifted by j-1
RECURSIVE BNMulFrom(_, _, _)
BNMulFrom(a, b, j) ==
  IF j > Len(b) THEN << >>
  ELSE BNAdd(Zeros(j - 1) \o BNMulLimbFrom(a, b[j], 1, 0), BNMulFrom(a, b, j + 1))
BNMul(a, b) == BNNorm(BNMulFrom(a, b, 1))

\* floor(a / k) for a limb k (1 <= k < 10^4): long division from the top limb.
\* BNDivRem(a,k,i,top) = remainder carried into position i, i.e. (limbs top..i+1 of a) mod k
RECURSIVE BNDivRem(_, _, _, _)
BNDivRem(a, k, i, top) ==
  IF i = top THEN 0
  ELSE (BNDivRem(a, k, i + 1, top) * BNBase + a[i + 1]) % k
BNDivLimb(a, k) ==
  BNNorm([i \in 1..Len(a) |-> (BNDivRem(a, k, i, Len(a)) * BNBase + a[i]) \div k])

\* floor(a / b) -- only single-limb divisors are needed (3, small trust-level denominators,
\* small numerators in safeMul's MaxInt64/|b|); anything else is a harness/format error
BNDiv(a, b) ==
  IF Len(b) = 1 THEN BNDivLimb(a, b[1])
  ELSE IF Len(b) = 0 THEN Assert(FALSE, "TMBigNat: division by zero")
  ELSE Assert(FALSE, "TMBigNat: multi-limb divisor not supported")

\* a > b, both normalized
RECURSIVE BNGtFrom(_, _, _)
BNGtFrom(a, b, i) ==
  IF i = 0 THEN FALSE
  ELSE IF a[i] # b[i] THEN a[i] > b[i]
  ELSE BNGtFrom(a, b, i - 1)
BNGt(a, b) ==
  LET x == BNNorm(a) y == BNNorm(b) IN
  IF Len(x) # Len(y) THEN Len(x) > Len(y) ELSE BNGtFrom(x, y, Len(x))

\* 2^63 - 1 = 9223372036854775807 and (2^63 - 1) \div 8 = 1152921504606846975
BNMaxInt64 == <<5807, 5477, 368, 3372, 922>>
BNMaxTotalVotingPower == <<6975, 684, 5046, 2921, 115>>
=============================================================================
