---------------------------- MODULE TMPeerUpgrade ----------------------------
(* p2p/transport.go MultiplexTransport.upgrade as a pure function of what the remote side
   does: the step that binds the key authenticated by the secret connection
   (TMSecretConn) to the node identity the switch works with.            (C16, IdentityBound)

   Identities are names: "S" is our own node key, "P" and "Q" are other keys.  ID(k) is
   PubKeyToID = the address of the key, assumed injective (hash collision freedom).   *)
EXTENDS Integers, Sequences, FiniteSets, TLC

CONSTANTS
  Weak_NoDialedIDCheck,     \* upgrade does not compare the connection key with the dialed ID
  Weak_NoNodeInfoIDCheck,   \* upgrade does not compare the connection key with NodeInfo.ID()
  Weak_NoSelfCheck          \* upgrade does not refuse a NodeInfo carrying our own ID

Self == "S"
Keys == {"S", "P", "Q"}

\* one case = the remote side's behaviour + how we reached it
\*   dialed  : "none" (inbound, dialedAddr = nil) or the ID we dialed
\*   scOK    : the secret connection handshake completes
\*   connKey : RemotePubKey() of the secret connection (whose private key the remote proved)
\*   infoOK  : a NodeInfo message arrives and decodes
\*   infoID  : NodeInfo.DefaultNodeID the remote claims
\*   valid   : NodeInfo.Validate() = nil
\*   compat  : our NodeInfo.CompatibleWith(theirs) = nil
Cases ==
  [dialed : {"none"} \cup Keys, scOK : BOOLEAN, connKey : Keys, infoOK : BOOLEAN, infoID : Keys,
   valid : BOOLEAN, compat : BOOLEAN]
\* cases that differ only in fields the code never reaches are kept: they are cheap

\* the ErrRejected flavour, in the code's order
Upgrade(c) ==
  IF ~c.scOK THEN "secret_conn_failed"                                   \* isAuthFailure
  ELSE IF c.dialed # "none" /\ c.connKey # c.dialed /\ ~Weak_NoDialedIDCheck
       THEN "dialed_id_mismatch"                                          \* isAuthFailure
  ELSE IF ~c.infoOK THEN "handshake_failed"                               \* isAuthFailure
  ELSE IF ~c.valid THEN "nodeinfo_invalid"
  ELSE IF c.connKey # c.infoID /\ ~Weak_NoNodeInfoIDCheck THEN "nodeinfo_id_mismatch"   \* isAuthFailure
  ELSE IF c.infoID = Self /\ ~Weak_NoSelfCheck THEN "self"
  ELSE IF ~c.compat THEN "incompatible"
  ELSE "ok"

\* IdentityBound: a peer is accepted only if dialed ID = authenticated key's ID = NodeInfo ID
IdentityBoundOn(c, res) ==
  res = "ok" => /\ c.scOK
                /\ (c.dialed # "none" => c.dialed = c.connKey)
                /\ c.infoID = c.connKey
\* the transport never hands the switch a connection that authenticated as our own key
\* (this is what keeps finding C16-own-identity-reflection away from the switch)
SelfRefusedOn(c, res) == res = "ok" => c.connKey # Self
IdClass(c) ==
  IF c.dialed # "none" /\ c.dialed # c.connKey THEN "dialed_id_ne_conn_key"
  ELSE IF c.infoID # c.connKey THEN "nodeinfo_id_ne_conn_key"
  ELSE IF ~c.scOK THEN "no_secret_conn"
  ELSE "other"
=============================================================================
