----------------------------- MODULE TMAddrBookSM -----------------------------
(* Design state machine of the address book: every history of API calls over a small universe of
   addresses, with the bucket functions (calcNewBucket / calcOldBucket) given by the model
   (constant operators, re-keyed by `epoch`: hashKey is NOT persisted by saveToFile, so a restarted
   book hashes differently).  Operators: TMAddrBook.  One action = one public method = one critical
   section under addrBook.mtx.                                                                  *)
EXTENDS TMAddrBook

CONSTANTS Addrs,          \* universe of addresses [id, ep]
          Srcs,           \* sources used with AddAddress
          Invalid,        \* addresses for which NetAddress.Valid() fails
          Unroutable,     \* addresses for which NetAddress.Routable() is false
          OwnCand,        \* candidates for AddOurAddress
          PrivCand,       \* candidates for AddPrivateIDs
          BanTimes, Ticks, MaxNow, MaxAtt, MaxRestarts,
          P, Strict,
          NewBucketOf(_, _, _), OldBucketOf(_, _)      \* (addr, src, epoch), (addr, epoch)

VARIABLES book, now, epoch, act
vars == <<book, now, epoch, act>>

NoAct(n) == [name |-> n, a |-> NoAddr, s |-> NoAddr, id |-> "none", d |-> 0, coin |-> "na", err |-> "nil"]

Init == /\ book = EmptyBook(P, Strict)
        /\ now = 0
        /\ epoch = 0
        /\ act = NoAct("Init")

NbfOld(b, ob) == [i \in OldBucket(b, ob) |-> NewBucketOf(b.ka[i].addr, b.ka[i].src, epoch)]
NbfBad(b)     == [i \in DOMAIN b.bad |-> NewBucketOf(b.bad[i].addr, b.bad[i].src, epoch)]

DoAddOur == \E a \in OwnCand : /\ a \notin book.our
                               /\ book' = AddOurAddress(book, a)
                               /\ act' = [NoAct("AddOurAddress") EXCEPT !.a = a]
                               /\ UNCHANGED <<now, epoch>>
DoAddPriv == \E i \in PrivCand : /\ i \notin book.priv
                                 /\ book' = AddPrivateIDs(book, {i})
                                 /\ act' = [NoAct("AddPrivateIDs") EXCEPT !.id = i]
                                 /\ UNCHANGED <<now, epoch>>
DoAdd == \E a \in Addrs, s \in Srcs :
           \E r \in AddAddress(book, a, s, a \notin Invalid, a \notin Unroutable, NewBucketOf(a, s, epoch), now) :
              /\ book' = r.b
              /\ act' = [NoAct("AddAddress") EXCEPT !.a = a, !.s = s, !.coin = r.coin, !.err = r.err]
              /\ UNCHANGED <<now, epoch>>
DoMarkGood == \E a \in Addrs :
                LET ob == OldBucketOf(IF a.id \in Known(book) THEN book.ka[a.id].addr ELSE a, epoch) IN
                \E b2 \in MarkGood(book, a.id, ob, NbfOld(book, ob), now) :
                   /\ book' = b2
                   /\ act' = [NoAct("MarkGood") EXCEPT !.id = a.id]
                   /\ UNCHANGED <<now, epoch>>
DoMarkAttempt == \E a \in Addrs : /\ a.id \in Known(book) => book.ka[a.id].att < MaxAtt
                                  /\ book' = MarkAttempt(book, a, now)
                                  /\ act' = [NoAct("MarkAttempt") EXCEPT !.a = a]
                                  /\ UNCHANGED <<now, epoch>>
DoMarkBad == \E a \in Addrs, d \in BanTimes : /\ book' = MarkBad(book, a, d, now)
                                              /\ act' = [NoAct("MarkBad") EXCEPT !.a = a, !.d = d]
                                              /\ UNCHANGED <<now, epoch>>
DoReinstate == \E b2 \in ReinstateBadPeers(book, NbfBad(book), now) :
                  /\ book' = b2
                  /\ act' = NoAct("ReinstateBadPeers")
                  /\ UNCHANGED <<now, epoch>>
DoRemove == \E a \in Addrs : /\ book' = RemoveAddress(book, a)
                             /\ act' = [NoAct("RemoveAddress") EXCEPT !.a = a]
                             /\ UNCHANGED <<now, epoch>>
\* Save(); process exit; NewAddrBook + OnStart/loadFromFile
DoRestart == /\ epoch < MaxRestarts
             /\ book' = Load(P, Strict, Saved(book))
             /\ epoch' = epoch + 1
             /\ act' = NoAct("Restart")
             /\ UNCHANGED now
DoTick == \E d \in Ticks : /\ now + d <= MaxNow
                           /\ now' = now + d
                           /\ act' = [NoAct("Tick") EXCEPT !.d = d]
                           /\ UNCHANGED <<book, epoch>>

Next == DoAddOur \/ DoAddPriv \/ DoAdd \/ DoMarkGood \/ DoMarkAttempt \/ DoMarkBad \/ DoReinstate
        \/ DoRemove \/ DoRestart \/ DoTick
Spec == Init /\ [][Next]_vars

\* ------------------------------------------------------------------ invariants
InvBucketShape    == BucketShape(book)
InvCountsExact    == CountsExact(book)
InvBucketBound    == BucketBound(book)
InvBannedNotKnown == BannedNotKnown(book)
InvKeyedById      == KeyedById(book)
\* every possible result of PickAddress / GetSelectionWithBias in this state is sound
Biases == {-5, 0, 30, 50, 100, 120}
InvPickSound      == \A bias \in Biases : \A r \in PickAddress(book, bias) : PickOK(book, bias, r)
InvSelectionBound == \A bias \in Biases : LET c == BiasCounts(book, bias) IN
                        /\ c.nnew + c.nold <= NumSel(book.p, Size(book))
                        /\ c.nnew + c.nold <= book.p.maxsel
                        /\ SelCount(book) <= book.p.maxsel
TypeOK == /\ now \in 0..MaxNow /\ epoch \in 0..MaxRestarts
          /\ book.nNew \in Int /\ book.nOld \in Int

\* ------------------------------------------------------------------ step properties (on act)
StepAddFilter ==
  act'.name = "AddAddress" =>
     /\ AddFilterOK(book, act'.a, act'.s, act'.a \notin Invalid, act'.a \notin Unroutable, act'.err, book')
     /\ OldStickyOK(book, act'.a, book')
StepMarkGood  == act'.name = "MarkGood" =>
                   LET ob == IF act'.id \in Known(book) THEN OldBucketOf(book.ka[act'.id].addr, epoch) ELSE 0
                   IN MarkGoodOK(book, act'.id, ob, NbfOld(book, ob), book')
StepReinstate == act'.name = "ReinstateBadPeers" => ReinstateOK(book, NbfBad(book), now, book')
StepSaveLoad  == act'.name = "Restart" => SaveLoadOK(book, book')
PropAddFilter == [][StepAddFilter]_vars
PropMarkGood  == [][StepMarkGood]_vars
PropReinstate == [][StepReinstate]_vars
PropSaveLoad  == [][StepSaveLoad]_vars

View == <<book, now, epoch>>
=============================================================================
