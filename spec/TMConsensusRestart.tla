------------------------- MODULE TMConsensusRestart -------------------------
(* TMConsensusNet + the write-ahead log + stop/start of a node inside a height.

   consensus/state.go receiveRoutine writes every input to the WAL before it handles it:
       peerMsgQueue      -> wal.Write(mi)      ; handleMsg(mi)
       internalMsgQueue  -> wal.WriteSync(mi)  ; handleMsg(mi)
       ticker            -> wal.Write(ti)      ; handleTimeout(ti, rs)
   and consensus/replay.go catchupReplay rebuilds the round state of the height by handling the
   logged inputs again, in order, from the state the height started in.  The own messages this
   produces (signAddVote / decideProposal run again) are queued again.

   rb[n]   : what catchupReplay would rebuild for node n at this moment — [s: round state, q: own messages queued
             again, g: messages signed again].  It is the fold of the handlers over the inputs n has logged so far,
             kept incrementally (rb' = handler(rb, input) for every LOGGED input), which is the same thing as
             carrying the log and folding it at the restart, without an order-sensitive sequence in the state.
             (The trace specification TMConsensusTrace carries the literal log of the observed run and folds it at
             each observed restart; clean stop: nothing logged is lost — crash points and torn tails are C04/C15.)
   nr      : number of restarts so far (bounds the exhaustive configurations)

   What is NOT an input of receiveRoutine is not in the WAL: a peer's +2/3 claim (VoteSetMaj23) is applied to
   the vote sets by the reactor directly (consensus/reactor.go Receive, StateChannel), so a restarted node has
   forgotten every claim — and with it every conflicting vote that only the claim made admissible.
   That was the code until /repo ca33f6d (a genuine agreement defect: spec/attacks/C01/ClaimForgottenByRestart*, DESIGN 11.3);
   since then the reactor hands the claim over through the peer queue and it is logged like a vote.  The old
   behaviour is the weak switch ClaimsNotLogged.

   Properties:  the invariants of TMConsensusNet (Agreement, ...) over behaviours with restarts, and
     ReplayFaithful : at every moment the WAL rebuilds exactly the state the node is in (then a restart is
                      invisible to everybody else and all properties of TMConsensusNet carry over)
     LockSurvives   : the part of it that agreement rests on
   Weak switches (refuted by TLC on every run):
     ClaimsNotLogged        a peer's +2/3 claim is applied without being logged
     WalSkipsBlockParts     block parts are not logged
     WalSkipsTimeouts       timeouts are not logged
     WalSkipsOwnVotes       the node's own votes are not logged                                        *)
EXTENDS TMConsensusNet

CONSTANTS MaxRestarts

VARIABLES rb, nr
rvars == <<rs, inq, soup, signed, act, rb, nr>>

IsClaim(m) == m.t \in {"claim_prevote", "claim_precommit"}

Logged(ev, m) ==
  /\ ~(W("ClaimsNotLogged") /\ IsClaim(m))
  /\ ~(W("WalSkipsBlockParts") /\ m.t = "block")
  /\ ~(W("WalSkipsTimeouts") /\ ev = "Timeout")
  /\ ~(W("WalSkipsOwnVotes") /\ ev = "ProcessInternal" /\ m.t \in {"prevote", "precommit"})

Rb0 == [s |-> InitNode, q |-> << >>, g |-> {}]

\* one more logged input handled by the replay
RbStep(n, acc, ev, m, peer, k) ==
  LET s2 == IF ev = "Timeout" THEN HandleTimeout(n, acc.s, k, m.r) ELSE HandleMsg(n, acc.s, m, peer)
  IN [s |-> ClearOut(s2), q |-> acc.q \o OutToMsgs(n, s2.out), g |-> acc.g \cup SignedBy(n, s2.out)]

Log(n, ev, m, peer, k) ==
  rb' = [rb EXCEPT ![n] = IF Logged(ev, m) THEN RbStep(n, @, ev, m, peer, k) ELSE @]

RInit == Init /\ rb = [n \in Corr |-> Rb0] /\ nr = 0

RDeliver(n, m) ==
  /\ Deliver(n, m)
  /\ Log(n, "Deliver", m, IF m.t = "block" THEN n ELSE m.src, "-")
  /\ UNCHANGED nr

RProcessInternal(n) ==
  /\ ProcessInternal(n)
  /\ Log(n, "ProcessInternal", Head(inq[n]), n, "-")
  /\ UNCHANGED nr

RTimeout(n, k) ==
  /\ Timeout(n, k)
  /\ Log(n, "Timeout", [t |-> "-", src |-> "-", r |-> rs[n].round, v |-> "-", pol |-> -2], "-", k)
  /\ UNCHANGED nr

Restartable(n) == rs[n].height = 1 /\ rs[n].decision = Nil /\ ~Dead(rs[n])

Restart(n) ==
  /\ Restartable(n)
  /\ nr < MaxRestarts
  /\ rs' = [rs EXCEPT ![n] = rb[n].s]
  /\ inq' = [inq EXCEPT ![n] = rb[n].q]     \* what was queued but not yet handled (hence not logged) is gone;
                                            \* everything the replay signs again is queued again
  /\ signed' = signed \cup rb[n].g
  /\ nr' = nr + 1
  /\ act' = [name |-> "Restart", n |-> n, m |-> [t |-> "-", src |-> "-", r |-> -1, v |-> "-", pol |-> -2], k |-> "-"]
  /\ UNCHANGED <<soup, rb>>

RNext ==
  \E n \in Corr :
     \/ \E m \in soup \cup ByzMsgs : RDeliver(n, m)
     \/ RProcessInternal(n)
     \/ \E k \in {"NewHeight", "Propose", "PrevoteWait", "PrecommitWait"} : RTimeout(n, k)
     \/ Restart(n)

RSpec == RInit /\ [][RNext]_rvars

\* ---------------------------------------------------------------- properties
ReplayFaithful == \A n \in Corr : Restartable(n) => rb[n].s = rs[n]

LockSurvives == \A n \in Corr : Restartable(n) =>
                  rb[n].s.lockedR = rs[n].lockedR /\ rb[n].s.lockedV = rs[n].lockedV

RView == <<rs, inq, soup, rb, nr>>
=============================================================================
