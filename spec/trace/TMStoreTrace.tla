---------------------------- MODULE TMStoreTrace ----------------------------
(* Trace validation for C18: observations of the real store.BlockStore and state.dbStore
   (journalled, crashed after every single DB write, reopened and audited) against TMStore.

   Lines (NDJSON, written by harness/inpkg/{store,state}/zz_verif_c18_test.go):
     Reset   cfg                       new run: empty databases, chain description
     Op      op a b c res mem0 journal one API call was executed on the real store(s) (op = "Load":
                                       the whole content of the real databases is installed); journal =
                                       the single DB writes it issued, in order, each with the
                                       BlockStore's in-memory base/height (mb, mh) at that moment
     A       k dbase dheight mbase mheight ranges [win]
                                       the disk image "first k writes of the current Op" was
                                       reopened with NewBlockStore / NewStore and audited:
                                       ranges = run-length encoded per-height projection
                                       (TMStore!Proj) of what the real loaders return
     Push / Pop                        branch point of a tree of histories (see StepPush)
     Reopen  k mbase mheight           the run continues from crash image k (stores reopened);
                                       k = -1: reopened between two operations

   Level 1 (drift): the journal is the write sequence TMStore predicts for that call on the
   spec's disk; the projection of every image equals TMStore!Proj of the spec's disk.
   Level 2 (viol): the C18 statement evaluated on the OBSERVED projection: Audit after reopen,
   Audit for the live store, MetaImpliesBlock, PruneExact.  The observed disk is installed
   after every line, so one deviation does not cascade.                                    *)
EXTENDS TMStore, TraceKit

Trace == LoadTrace("trace.ndjson")

VARIABLES l, cfg, disk0, cur, curk, mem0, opl, stack, bad, viol, drift
vars == <<l, cfg, disk0, cur, curk, mem0, opl, stack, bad, viol, drift>>

NoCfg == [lo |-> 0, hi |-> 0, initial |-> 1, boot |-> 0, batch |-> 1000, ckpt |-> {},
          nparts |-> [h \in 0 .. 0 |-> 1], vs |-> [h \in 0 .. 0 |-> 0], ps |-> [h \in 0 .. 0 |-> 0],
          chk |-> {"block", "state"}, full |-> TRUE]

NormCfg(c) ==
  [lo |-> c.lo, hi |-> c.hi, initial |-> c.initial, boot |-> c.boot, batch |-> c.batch,
   ckpt |-> ToSet(c.ckpt),
   nparts |-> [h \in c.lo .. c.hi |-> c.nparts[h - c.lo + 1]],
   vs |-> [h \in c.lo .. c.hi |-> c.vs[h - c.lo + 1]],
   ps |-> [h \in c.lo .. c.hi |-> c.ps[h - c.lo + 1]],
   chk |-> ToSet(c.chk), full |-> c.full]

Init ==
  /\ l = 1 /\ cfg = NoCfg /\ disk0 = EmptyDisk(NoCfg) /\ cur = EmptyDisk(NoCfg) /\ curk = 0
  /\ mem0 = [base |-> 0, height |-> 0] /\ opl = 0 /\ stack = << >> /\ bad = {} /\ viol = {} /\ drift = {}

V(inv, class, op, k) == [l |-> l, inv |-> inv, class |-> class, op |-> op, k |-> k]
Dr(what) == [l |-> l, what |-> what]

\* journal of the operation in progress (entries carry mb/mh in addition to the step fields)
Journal == IF opl = 0 THEN << >> ELSE Trace[opl].journal
JW(j) == [t |-> "w", k |-> j.k, h |-> j.h, i |-> j.i, a |-> j.a, b |-> j.b, del |-> j.del]
JWrites(js) == [x \in 1 .. Len(js) |-> JW(js[x])]

RECURSIVE ApplyJ(_, _, _, _, _)
\* apply the journal entries js[from..to] (divide and conquer, see TMStore!ApplyWrites)
ApplyJ(c, d, js, from, to) ==
  IF from > to THEN d
  ELSE IF from = to THEN ApplyWrite(c, d, JW(js[from]))
  ELSE LET mid  == (from + to) \div 2
           left == ApplyJ(c, d, js, from, mid)
       IN IF left.state >= -1 THEN ApplyJ(c, left, js, mid + 1, to) ELSE left     \* (test forces left first)

\* disk after the whole operation in progress
DiskAtEnd == ApplyJ(cfg, cur, Journal, curk + 1, Len(Journal))

\* ------------------------------------------------------------------ Reset
StepReset(e) ==
  LET c == NormCfg(e.cfg) IN
  /\ cfg' = c
  /\ disk0' = EmptyDisk(c) /\ cur' = EmptyDisk(c) /\ curk' = 0
  /\ mem0' = [base |-> 0, height |-> 0]
  /\ opl' = 0 /\ stack' = << >> /\ bad' = {}
  /\ drift' = drift \cup FailIf(\E h \in c.lo .. c.hi - 1 : c.vs[h] > c.vs[h + 1] \/ c.ps[h] > c.ps[h + 1],
                                Dr("cfg.vs / cfg.ps not monotone"))
  /\ UNCHANGED viol

\* ------------------------------------------------------------------ Op
Predicted(e, d, m) ==
  CASE e.op = "Genesis"     -> SaveSteps(cfg, 0, e.b, e.c)
    [] e.op = "Save"        -> SaveSteps(cfg, e.a, e.b, e.c)
    [] e.op = "SaveABCI"    -> SaveABCISteps(e.a)
    [] e.op = "ApplyBlock"  -> LET s == SaveSteps(cfg, e.a, e.b, e.c) IN
                               [steps |-> SaveABCISteps(e.a).steps \o s.steps, res |-> s.res]
    \* restart after a crash between the application's Commit and Save: the stored block is applied
    \* again with the persisted ABCI responses (consensus/replay.go, mock app): same writes
    [] e.op = "Recover"     -> LET s == SaveSteps(cfg, e.a, e.b, e.c) IN
                               [steps |-> SaveABCISteps(e.a).steps \o s.steps, res |-> s.res]
    [] e.op = "Bootstrap"   -> IF "block" \in cfg.chk
                               THEN [steps |-> BootstrapSteps(cfg, e.a, e.b).steps \o SaveSeenCommitSteps(e.a).steps,
                                     res |-> "ok"]
                               ELSE BootstrapSteps(cfg, e.a, e.b)
    [] e.op = "SaveBlock"   -> SaveBlockSteps(cfg, m, e.a)
    [] e.op = "PruneBlocks" -> PruneBlocksSteps(cfg, d, m, e.a)
    [] e.op = "PruneStates" -> PruneStatesSteps(cfg, d, e.a, e.b)
    \* consensus/state.go pruneBlocks(retain): nothing if retain <= base, else the block store,
    \* then the state store from the OLD base (PruneBlocks does not touch the state store's keys)
    [] e.op = "ConsPrune"   -> IF e.a <= m.base THEN [steps |-> << >>, res |-> "ok"]
                               ELSE LET pb == PruneBlocksSteps(cfg, d, m, e.a) IN
                                    IF pb.res # "ok" THEN pb
                                    ELSE LET ps == PruneStatesSteps(cfg, d, m.base, e.a) IN
                                         [steps |-> pb.steps \o ps.steps, res |-> ps.res]
    \* the driver installs the abstraction of the whole real databases (long chains are built
    \* without trace lines; the build operations are covered by the small chains)
    [] e.op = "Load"        -> [steps |-> JWrites(e.journal), res |-> "ok"]
    [] OTHER                -> [steps |-> << >>, res |-> "unknown-op"]

\* in-memory base/height of the BlockStore at the moment of each write: the value set by the
\* last "m" step before it (there are only a few "m" steps: one per flush / per SaveBlock)
MemAtWrites(m, steps, from) ==
  LET Ms  == {i \in from .. Len(steps) : steps[i].t = "m"}
      idx == SelectSeq([i \in 1 .. Len(steps) |-> i], LAMBDA i : i >= from /\ steps[i].t = "w")
  IN [k \in 1 .. Len(idx) |->
        LET P == {x \in Ms : x < idx[k]} IN IF P = {} THEN m ELSE ApplyMem(m, steps[SetMax(P)])]

\* (TLC may re-evaluate a LET definition at every use: the new disk is assigned to cur' FIRST
\*  and read back from there)
StepOp(e) ==
  LET m  == [base |-> e.mem0.base, height |-> e.mem0.height]
      js == e.journal
  IN /\ cur' = DiskAtEnd /\ disk0' = cur' /\ curk' = 0
     /\ mem0' = m
     /\ LET pr == Predicted(e, cur', m) IN
       drift' = drift
          \cup FailIf(Writes(pr.steps) # JWrites(js), Dr("journal differs from the spec's write sequence: " \o e.op))
          \cup FailIf(pr.res # e.res, Dr("result differs from spec: " \o e.op))
          \cup FailIf(Writes(pr.steps) = JWrites(js) /\
                      MemAtWrites(m, pr.steps, 1) # [x \in 1 .. Len(js) |-> [base |-> js[x].mb, height |-> js[x].mh]],
                      Dr("in-memory base/height at the writes differ from spec: " \o e.op))
          \cup FailIf(\E x \in 1 .. Len(js) : js[x].k = "other", Dr("write to a key the spec does not know"))
     /\ opl' = l
     /\ UNCHANGED <<cfg, stack, bad, viol>>

\* ------------------------------------------------------------------ A (audit of crash image k)
ObsAt(e, h) ==
  LET i == CHOOSE i \in 1 .. Len(e.ranges) : e.ranges[i].lo <= h /\ h <= e.ranges[i].hi IN e.ranges[i].p

Pos(a, b, r) == IF a = r.base THEN "@base" ELSE IF b = r.height THEN "@tip" ELSE "@mid"

\* the statement on the observed projection, w.r.t. range descriptor r; set of violation classes
AuditObs(e, r) ==
  (IF BSSRangeOK(r) THEN {} ELSE {"range-descriptor"})
  \cup UNION { LET g == e.ranges[i]
                   a == Max2(g.lo, r.base)
                   b == Min2(g.hi, r.height)
               IN IF r.height > 0 /\ a <= b /\ ~RangeHolds(cfg, g.p, a, b, r.height)
                  THEN {FailClass(cfg, g.p, a, b, r.height) \o Pos(a, b, r)} ELSE {}
             : i \in 1 .. Len(e.ranges) }

StepA(e) ==
  LET op   == Trace[opl]
      js   == op.journal
      rd   == [base |-> e.dbase, height |-> e.dheight]
      rm   == [base |-> e.mbase, height |-> e.mheight]
      hs   == IF cfg.full THEN Dom(cfg) ELSE {h \in ToSet(e.win) : InDom(cfg, h)}
      done == e.k = Len(js) /\ op.res = "ok"
      ob   == mem0.base
      \* a completed prune of the block store to `bto` / of the state store [sfrom, sto)
      isPB == op.op = "PruneBlocks" \/ (op.op = "ConsPrune" /\ op.a > ob)
      bto  == op.a
      isPS == op.op = "PruneStates" \/ (op.op = "ConsPrune" /\ op.a > ob)
      sfrom == IF op.op = "PruneStates" THEN op.a ELSE ob
      sto   == IF op.op = "PruneStates" THEN op.b ELSE op.a
  IN /\ cur' = ApplyJ(cfg, cur, js, curk + 1, e.k) /\ curk' = e.k
     /\ UNCHANGED <<cfg, disk0, mem0, opl, stack>>
     /\ drift' = drift
          \cup FailIf(\E h \in hs : Proj(cfg, cur', h) # ObsAt(e, h), Dr("audit projection differs from the spec's disk"))
          \cup FailIf("block" \in cfg.chk /\ LoadBSS(cur') # rd, Dr("persisted base/height differ from the spec's disk"))
     \* a failure is reported at the step that introduces it: `bad` holds the (invariant,
     \* class) pairs that already failed on the previous image of this history
     /\ LET now ==
              { <<"AuditAfterReopen", c>> : c \in AuditObs(e, rd) }
              \cup { <<"AuditLive", c>> : c \in AuditObs(e, rm) }
              \cup (IF "block" \in cfg.chk /\ \E i \in 1 .. Len(e.ranges) : ~MetaImpliesBlockAt(e.ranges[i].p)
                    THEN {<<"MetaImpliesBlock", "meta-without-block">>} ELSE {})
              \cup (IF done /\ isPB
                       /\ ~(/\ rd.base = bto /\ rm.base = bto
                            /\ \A i \in 1 .. Len(e.ranges) :
                                 (Max2(e.ranges[i].lo, ob) <= Min2(e.ranges[i].hi, bto - 1)) => BlockGone(e.ranges[i].p))
                    THEN {<<"PruneExact", "blocks-below-retain">>} ELSE {})
              \cup (IF done /\ isPS
                       /\ LET nv == NeededVals(cfg, disk0, sto)
                              np == NeededParams(cfg, disk0, sto)
                          IN \E h \in Dom(cfg) : sfrom <= h /\ h < sto /\
                                LET p == ObsAt(e, h) IN
                                \/ (h \notin nv /\ p.vlhc # -1)
                                \/ (h \notin np /\ p.plhc # -1)
                                \/ p.abci
                    THEN {<<"PruneExact", "states-below-retain">>} ELSE {})
        IN /\ bad' = {x \in now : x[1] # "PruneExact"}
           /\ viol' = viol \cup { V(x[1], x[2], op.op, e.k) : x \in now \ bad }

\* ------------------------------------------------------------------ Reopen (continue from image k)
StepReopen(e) ==
  LET js == Journal
      m  == [base |-> e.mbase, height |-> e.mheight]
  IN /\ cur' = IF e.k < 0 THEN DiskAtEnd          \* reopened with no operation in progress
               ELSE IF e.k >= curk THEN ApplyJ(cfg, cur, js, curk + 1, e.k) ELSE ApplyJ(cfg, disk0, js, 1, e.k)
     /\ disk0' = cur' /\ curk' = 0 /\ opl' = 0
     /\ mem0' = m
     /\ bad' = IF e.k < 0 THEN bad ELSE {}     \* `bad` described the image after the last write
     /\ UNCHANGED <<cfg, stack>>
     /\ drift' = drift \cup FailIf("block" \in cfg.chk /\ LoadBSS(cur') # m, Dr("NewBlockStore base/height differ from the spec's disk"))
     /\ UNCHANGED viol

\* ------------------------------------------------------------------ Push / Pop (branching histories)
\* The drivers walk a TREE of histories depth-first: Push remembers the disk between two
\* operations, Pop returns to it (the driver then reopens the stores on its copy: Reopen -1).
StepPush ==
  /\ stack' = Append(stack, [d |-> DiskAtEnd, bad |-> bad])
  /\ UNCHANGED <<cfg, disk0, cur, curk, mem0, opl, bad, viol, drift>>

StepPop ==
  /\ disk0' = stack[Len(stack)].d /\ cur' = stack[Len(stack)].d /\ curk' = 0 /\ opl' = 0
  /\ bad' = stack[Len(stack)].bad
  /\ stack' = SubSeq(stack, 1, Len(stack) - 1)
  /\ UNCHANGED <<cfg, mem0, viol, drift>>

Step ==
  /\ l <= Len(Trace)
  /\ LET e == Trace[l] IN
       CASE e.ev = "Reset"  -> StepReset(e)
         [] e.ev = "Op"     -> StepOp(e)
         [] e.ev = "A"      -> StepA(e)
         [] e.ev = "Reopen" -> StepReopen(e)
         [] e.ev = "Push"   -> StepPush
         [] e.ev = "Pop"    -> StepPop
  /\ l' = l + 1

Finish ==
  /\ l = Len(Trace) + 1
  /\ WriteVerdict("verdict.json", Len(Trace), viol, drift)
  /\ l' = l + 1
  /\ UNCHANGED <<cfg, disk0, cur, curk, mem0, opl, stack, bad, viol, drift>>

Next == Step \/ Finish
=============================================================================
