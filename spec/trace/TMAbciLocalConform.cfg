CONSTANTS
  Conns = {"consensus", "mempool", "query", "snapshot"}
  MaxCalls = 99
  Kinds = {"Async", "Sync", "FlushSync", "FlushAsync", "EchoSync"}
  Gates = TRUE
  Prio = TRUE
  Weak_LocalClientPerConnMutex = FALSE
  Weak_SyncWithoutMutex = FALSE
  Weak_CallbackOutsideMutex = FALSE
INIT CInit
NEXT CNext
VIEW CView
POSTCONDITION Post
CHECK_DEADLOCK FALSE
