CONSTANTS
  Weak_RangeIgnoresUpper = FALSE
  Weak_PrefixMatchAsEquality = FALSE
  Weak_BatchSkipsFirst = FALSE
INIT Init
NEXT Next
CHECK_DEADLOCK FALSE
