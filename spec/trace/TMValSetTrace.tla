---------------------------- MODULE TMValSetTrace ----------------------------
(* Trace validation for C08: behaviour OBSERVED on the real types.ValidatorSet and on the
   real state store (dbStore over MemDB), judged against TMValSet / TMValStore.

   Every line installs the logged post-state.  Two accumulators:
     drift (level 1): the observed step is not what the code transcription computes from
           the observed pre-state (including incidental details: error class, the raw
           Proposer field, aliasing, the stored records).  Entries whose `what` starts
           with "note:" are observations that are neither drift nor violation.
     viol  (level 2): a C08 property is false on the OBSERVED values:
       UpdateAtomic, OrderIndependent, WellFormed, MatchesRef (map-based reference),
       PrioBounded, NoClip, RotationExact (reference weighted round-robin), Fair,
       CopyExact, RecoveryCopyExact, ProposerDeterministic (round skips), LookupExact, PruneKeeps, ChainExact (updateState).      *)
EXTENDS TMValStore, TMValBig, TraceKit

Trace == LoadTrace("trace.ndjson")

VARIABLES l, cur, fresh, ost, odb, truth, base, xcur, xk, viol, drift
vars == <<l, cur, fresh, ost, odb, truth, base, xcur, xk, viol, drift>>

NoState == [h |-> 0, ih |-> 0, vals |-> EmptySet, nvals |-> EmptySet, lhc |-> 0]
NoTruth == [x \in {} |-> NoSet]
NoConst == [max |-> BigZero, imax |-> BigZero, imin |-> BigZero]

Init == /\ l = 1 /\ cur = EmptySet /\ fresh = FALSE /\ ost = NoState /\ odb = EmptyDB
        /\ truth = NoTruth /\ base = 0 /\ xcur = << >> /\ xk = NoConst /\ viol = {} /\ drift = {}

V(inv, class)  == [l |-> l, inv |-> inv, class |-> class]
D(what, detail) == [l |-> l, what |-> what, detail |-> detail]

\* spec operators are only applied to observed pre-states on which they are defined
Sane(vals) == /\ \A i, j \in DOMAIN vals : i # j => vals[i].a # vals[j].a
              /\ \A i \in DOMAIN vals : vals[i].p > 0
AddrOK(batch) == \A i \in DOMAIN batch : batch[i].a >= 1

UnchangedStore == UNCHANGED <<ost, odb, truth, base>>
UnchangedX     == UNCHANGED <<xcur, xk>>

\* ------------------------------------------------------------------ ValidatorSet object
UpdateViol(pre, batch, err, post, tag) ==
  LET ref == RefUpdate(pre.vals, batch)
      ok  == err = "none"
  IN   FailIf(~ok /\ post # pre, V("UpdateAtomic", tag \o ":err=" \o err))
  \cup FailIf(ok /\ Len(batch) > 0 /\ ~WellFormed(post.vals), V("WellFormed", tag \o ":" \o WellFormedWhy(post.vals)))
  \cup FailIf(Sane(pre.vals) /\ ok # ref.ok,
              V("MatchesRef", tag \o (IF ok THEN ":accepted_invalid_batch" ELSE ":refused_valid_batch:" \o err)))
  \cup FailIf(Sane(pre.vals) /\ ok /\ ref.ok /\ post.vals # ref.vals /\ WellFormed(post.vals),
              V("MatchesRef", tag \o (IF Powers(post.vals) # Powers(ref.vals) \/ Addrs(post.vals) # Addrs(ref.vals)
                                      THEN ":members_or_powers" ELSE ":priorities")))
  \cup FailIf(ok /\ Len(batch) > 0 /\ Len(post.vals) > 0 /\ TotalPower(post.vals) > 0 /\ ~PrioBounded(post.vals),
              V("PrioBounded", tag \o (IF Centred(post.vals) THEN ":window" ELSE ":not_centred")))
  \cup FailIf(Len(post.vals) > 0 /\ ~NoClip(post.vals), V("NoClip", tag))

StepNew(e) ==
  LET r   == NewValidatorSet(e.batch)
      ok  == e.err = "none"
      ref == RefUpdate(<< >>, e.batch)
      exp == IF ref.ok /\ Len(e.batch) > 0 THEN RefIncrement(ref.vals, 1).vals ELSE ref.vals
  IN /\ cur' = e.post
     /\ fresh' = TRUE
     /\ drift' = drift \cup FailIf((r.err = "none") # ok \/ (ok /\ r.set # e.post), D("NewValidatorSet differs from spec", r.err))
     /\ viol' = viol
          \cup FailIf(ok /\ Len(e.batch) > 0 /\ ~WellFormed(e.post.vals), V("WellFormed", "new:" \o WellFormedWhy(e.post.vals)))
          \cup FailIf(ok # (ref.ok /\ \A i \in DOMAIN e.batch : e.batch[i].p # 0), V("MatchesRef", "new:acceptance"))
          \cup FailIf(ok /\ ref.ok /\ e.post.vals # exp, V("MatchesRef", "new:values"))
     /\ UnchangedStore /\ UnchangedX

\* e.live: the batch was applied to the live object; otherwise to one more copy of it
StepUpdate(e) ==
  LET pre == IF e.live THEN cur ELSE CopySet(cur)
      r   == UpdateWithChangeSet(pre, e.batch)
      san == Sane(pre.vals) /\ AddrOK(e.batch)
      permDrift == {k \in DOMAIN e.perms :
                      LET rk == UpdateWithChangeSet(CopySet(cur), Permute(e.batch, e.perms[k].order))
                      IN rk.err # e.perms[k].err \/ rk.set # e.perms[k].post}
  IN /\ cur' = e.cur
     /\ fresh' = (fresh /\ e.cur.vals = cur.vals)
     /\ drift' = drift
          \cup FailIf(san /\ (r.err # e.err \/ r.set # e.post), D("UpdateWithChangeSet differs from spec", r.err))
          \cup FailIf(san /\ permDrift # {}, D("UpdateWithChangeSet (permuted batch, on a copy) differs from spec", "perm"))
          \cup FailIf(e.cur # (IF e.live THEN e.post ELSE cur), D("live object after the call is not what was logged", "cur"))
     /\ viol' = viol
          \cup UpdateViol(pre, e.batch, e.err, e.post, IF e.live THEN "live" ELSE "copy")
          \cup UNION {UpdateViol(CopySet(cur), Permute(e.batch, e.perms[k].order), e.perms[k].err, e.perms[k].post, "perm") :
                        k \in DOMAIN e.perms}
          \cup FailIf(\E k \in DOMAIN e.perms : (e.perms[k].err = "none") # (e.err = "none") \/ e.perms[k].post.vals # e.post.vals,
                      V("OrderIndependent", IF \E k \in DOMAIN e.perms : (e.perms[k].err = "none") # (e.err = "none")
                                            THEN "accepted_in_one_order_only" ELSE "result_depends_on_order"))
          \cup FailIf(~e.live /\ e.cur # cur, V("CopyExact", "original_changed_through_copy"))
     /\ UnchangedStore /\ UnchangedX

RotationViol(pre, n, post, props, each) ==
  \* each = TRUE: n calls with 1 round (props = proposer after every call); FALSE: one call with n rounds
  LET ref == IF each THEN RefEach(pre.vals, n) ELSE [vals |-> RefIncrement(pre.vals, n).vals, props |-> <<RefIncrement(pre.vals, n).prop>>]
  IN   FailIf(post.vals # ref.vals, V("RotationExact", IF Powers(post.vals) # Powers(pre.vals) THEN "members_or_powers_changed" ELSE "priorities"))
  \cup FailIf(each /\ props # ref.props, V("RotationExact", "proposer_sequence"))
  \cup FailIf(post.prop.a # ref.props[Len(ref.props)] \/ ~(\E i \in DOMAIN post.vals : post.vals[i] = post.prop),
              V("RotationExact", "proposer"))
  \cup FailIf(~NoClip(post.vals), V("NoClip", "rotation"))
  \cup FailIf(each /\ fresh /\ Len(props) = n /\ ~FairWindows(pre.vals, props), V("Fair", "window_of_total_rounds"))

StepInc(e) ==
  LET pre == cur
      bad == IncrementPanics(pre, e.times) \/ ~Sane(pre.vals)
  IN /\ cur' = e.post
     /\ fresh' = fresh
     /\ IF bad
        THEN /\ drift' = drift \cup FailIf(Sane(pre.vals) /\ e.err # "panic", D("IncrementProposerPriority should have panicked", e.err))
             /\ viol' = viol
        ELSE /\ drift' = drift \cup FailIf(e.err # "none" \/ IncrementProposerPriority(pre, e.times) # e.post,
                                           D("IncrementProposerPriority differs from spec", e.err))
             /\ viol' = viol \cup (IF e.err = "none" THEN RotationViol(pre, e.times, e.post, << >>, FALSE)
                                   ELSE {V("RotationExact", "panic")})
     /\ UnchangedStore /\ UnchangedX

StepRotate(e) ==
  LET pre == cur
      bad == Len(pre.vals) = 0 \/ ~Sane(pre.vals) \/ e.n <= 0
  IN /\ cur' = e.post
     /\ fresh' = fresh
     /\ IF bad THEN /\ drift' = drift /\ viol' = viol
        ELSE /\ drift' = drift \cup FailIf(e.err # "none" \/ IncrementEach(pre, e.n) # e.post \/ ProposerSeq(pre, e.n) # e.props,
                                           D("repeated IncrementProposerPriority(1) differs from spec", e.err))
                              \* not a verdict: the 3-turn bound is empirical (TLC on the model, random search), and
                              \* RotationExact already pins the observed rotation to the reference
                              \cup FailIf(e.err = "none" /\ Len(e.props) = e.n
                                           /\ ~ProportionalPrefix(pre.vals, e.props, 3 * TotalPower(pre.vals)),
                                         D("note: a validator was more than 3 turns away from its proportional share", "proportional"))
             /\ viol' = viol \cup (IF e.err = "none" THEN RotationViol(pre, e.n, e.post, e.props, TRUE)
                                   ELSE {V("RotationExact", "panic")})
     /\ UnchangedStore /\ UnchangedX

StepCopy(e) ==
  /\ cur' = e.post
  /\ fresh' = fresh
  /\ drift' = drift \cup FailIf(e.post # CopySet(cur), D("Copy differs from spec", "copy"))
  /\ viol' = viol \cup FailIf(e.post.vals # cur.vals \/ e.post.prop # cur.prop, V("CopyExact", "copy_differs"))
  /\ UnchangedStore /\ UnchangedX

\* IncrementProposerPriority(times) on a copy of the live object (which stays as it is)
StepIncCopy(e) ==
  LET pre == CopySet(cur)
      bad == IncrementPanics(pre, e.times) \/ ~Sane(pre.vals)
  IN /\ cur' = e.post
     /\ fresh' = fresh
     /\ IF bad
        THEN /\ drift' = drift \cup FailIf(Sane(pre.vals) /\ e.err # "panic", D("IncrementProposerPriority should have panicked", e.err))
             /\ viol' = viol
        ELSE /\ drift' = drift \cup FailIf(e.err # "none" \/ IncrementProposerPriority(pre, e.times) # e.res \/ e.post # cur,
                                           D("IncrementProposerPriority (on a copy) differs from spec", e.err))
             /\ viol' = viol \cup (IF e.err = "none" THEN RotationViol(pre, e.times, e.res, << >>, FALSE)
                                   ELSE {V("RotationExact", "panic")})
                              \cup FailIf(e.post # cur, V("CopyExact", "original_changed_through_copy"))
     /\ UnchangedStore /\ UnchangedX

StepGetProposer(e) ==
  LET g == GetProposer(cur) IN
  /\ cur' = e.post
  /\ fresh' = fresh
  /\ drift' = drift \cup FailIf(Sane(cur.vals) /\ (g.prop # e.prop \/ g.set # e.post), D("GetProposer differs from spec", "getproposer"))
  /\ viol' = viol \cup FailIf(Len(cur.vals) > 0 /\ e.prop.a \notin Addrs(cur.vals), V("RotationExact", "proposer_not_a_member"))
  /\ UnchangedStore /\ UnchangedX

\* one call with a+b rounds against a call with a and a call with b rounds (copies)
StepSplit(e) ==
  LET ok == Sane(cur.vals) /\ Len(cur.vals) > 0 /\ e.err = "none/none" IN
  /\ cur' = e.post
  /\ fresh' = fresh
  /\ drift' = drift
       \cup FailIf(ok /\ (IncrementProposerPriority(cur, e.a + e.b) # e.joint
                          \/ IncrementProposerPriority(IncrementProposerPriority(cur, e.a), e.b) # e.split
                          \/ e.post # cur),
                   D("IncrementProposerPriority (split) differs from spec", e.err))
       \cup FailIf(e.joint.vals # e.split.vals \/ e.joint.prop # e.split.prop,
                   D("note: IncrementProposerPriority(a+b) differs from (a) then (b): the proposer of a round depends on how the rounds were counted",
                     IF e.joint.prop.a # e.split.prop.a THEN "proposer" ELSE "priorities"))
  /\ viol' = viol \cup FailIf(fresh /\ ok /\ (e.joint.vals # e.split.vals \/ e.joint.prop # e.split.prop),
                              V("RotationExact", "fresh_set_rounds_do_not_compose"))
  /\ UnchangedStore /\ UnchangedX

\* consensus.State.enterNewRound(height, e.to) called in round e.from < e.to: e.pre / e.post are
\* cs.Validators before and after, e.prop is cs.Validators.GetProposer() afterwards
StepRoundSkip(e) ==
  LET k   == e.to - e.from
      ok  == e.err = "none" /\ k > 0 /\ Len(e.pre.vals) > 0 /\ Sane(e.pre.vals)
      ref == RefEach(e.pre.vals, k)
  IN /\ drift' = drift \cup FailIf(ok /\ SetView(RoundSkipRotate(AsSet(e.pre), k)) # e.post,
                                    D("enterNewRound (round skip) differs from spec", "roundskip"))
     /\ viol' = viol
          \cup FailIf(e.err # "none", V("ProposerDeterministic", "roundskip:" \o e.err))
          \cup FailIf(ok /\ (e.post.vals # ref.vals \/ e.post.prop.a # ref.props[k] \/ e.prop.a # ref.props[k]),
                      V("ProposerDeterministic", "roundskip"))
     /\ UNCHANGED <<cur, fresh>> /\ UnchangedStore /\ UnchangedX

\* ------------------------------------------------------------------ extreme powers (limb form)
XSetViol(pre, batch, err, post, tag) ==
  LET ok  == err = "none"
      acc == XRefAccepts(pre, batch, xk.max)
  IN   FailIf(~ok /\ post # pre, V("UpdateAtomic", "extreme:" \o tag \o ":err=" \o err))
  \cup FailIf(ok /\ XWellFormedWhy(post, xk.max) # "ok", V("WellFormed", "extreme:" \o tag \o ":" \o XWellFormedWhy(post, xk.max)))
  \cup FailIf(ok # acc, V("MatchesRef", "extreme:" \o tag \o (IF ok THEN ":accepted_invalid_batch" ELSE ":refused_valid_batch:" \o err)))
  \cup FailIf(ok /\ acc /\ ~XResultPowersOK(pre, batch, post), V("MatchesRef", "extreme:" \o tag \o ":members_or_powers"))
  \* exact priorities, on limbs: newcomers enter at -(T + floor(T/8)), then rescale, centre, canonical order
  \cup FailIf(ok /\ acc /\ Len(batch) > 0 /\ XSane(pre) /\ XResultPowersOK(pre, batch, post)
                /\ ~XSameVals(post, XRefResult(pre, batch)),
              V("MatchesRef", "extreme:" \o tag \o ":priorities"))
  \cup FailIf(ok /\ Len(post) > 0 /\ ~(XWindowOK(post) /\ XCentred(post)), V("PrioBounded", "extreme:" \o tag))
  \cup FailIf(Len(post) > 0 /\ ~XNoClip(post, xk.imax, xk.imin), V("NoClip", "extreme:" \o tag))

StepXNew(e) ==
  LET k == [max |-> e.max, imax |-> e.imax, imin |-> e.imin]
      good == Len(e.batch) > 0 /\ (\A i \in DOMAIN e.batch : e.batch[i].p.s > 0) /\ XRefAccepts(<< >>, e.batch, e.max)
  IN
  /\ xcur' = e.post /\ xk' = k
  /\ viol' = viol
       \cup FailIf(e.err = "none" /\ Len(e.post) > 0 /\ XWellFormedWhy(e.post, e.max) # "ok", V("WellFormed", "extreme:new:" \o XWellFormedWhy(e.post, e.max)))
       \cup FailIf(e.err = "none" /\ Len(e.post) > 0 /\ ~XNoClip(e.post, e.imax, e.imin), V("NoClip", "extreme:new"))
       \cup FailIf(good /\ e.err # "none", V("MatchesRef", "extreme:new:refused_valid_set"))
       \cup FailIf(good /\ e.err = "none"
                     /\ LET r == XRefIncrement(XRefResult(<< >>, e.batch), 1) IN ~XSameVals(e.post, r.vals) \/ e.prop # r.prop,
                   V("MatchesRef", "extreme:new:values"))
  /\ UNCHANGED <<drift, cur, fresh>> /\ UnchangedStore

StepXUpdate(e) ==
  /\ xcur' = e.post /\ xk' = xk
  /\ viol' = viol
       \cup XSetViol(xcur, e.batch, e.err, e.post, "live")
       \cup UNION {XSetViol(xcur, e.batch, e.perms[k].err, e.perms[k].post, "perm") : k \in DOMAIN e.perms}
       \cup FailIf(\E k \in DOMAIN e.perms : (e.perms[k].err = "none") # (e.err = "none") \/ e.perms[k].post # e.post,
                   V("OrderIndependent", "extreme"))
  /\ UNCHANGED <<drift, cur, fresh>> /\ UnchangedStore

StepXInc(e) ==
  /\ xcur' = e.post /\ xk' = xk
  /\ viol' = viol
       \cup FailIf(e.err # "none", V("RotationExact", "extreme:panic"))
       \cup FailIf(e.err = "none" /\ (Len(e.post) # Len(xcur) \/ \E i \in DOMAIN e.post : i \in DOMAIN xcur /\
                                        (e.post[i].a # xcur[i].a \/ e.post[i].p # xcur[i].p)),
                   V("RotationExact", "extreme:members_or_powers_changed"))
       \cup FailIf(e.err = "none" /\ Len(e.post) > 0 /\ ~XNoClip(e.post, xk.imax, xk.imin), V("NoClip", "extreme:rotation"))
       \* the reference weighted round-robin, on limbs: normalise once, e.times rounds
       \cup (IF e.err = "none" /\ e.times > 0 /\ Len(xcur) > 0 /\ XSane(xcur)
            THEN LET r == XRefIncrement(xcur, e.times) IN
                 FailIf(~XSameVals(e.post, r.vals), V("RotationExact", "extreme:priorities"))
                 \cup FailIf(e.prop # r.prop, V("RotationExact", "extreme:proposer"))
            ELSE {})
       \cup FailIf(e.err = "none" /\ Len(e.post) > 0 /\ ~XCentred(e.post), V("PrioBounded", "extreme:rotation_not_centred"))
  /\ UNCHANGED <<drift, cur, fresh>> /\ UnchangedStore

\* ------------------------------------------------------------------ state store
DbOf(recs) == [h \in {recs[i].h : i \in DOMAIN recs} |->
                 LET r == recs[CHOOSE i \in DOMAIN recs : recs[i].h = h] IN [lhc |-> r.lhc, set |-> r.set]]
LoadOf(loads, h) == loads[CHOOSE i \in DOMAIN loads : loads[i].h = h]
HasLoad(loads, h) == \E i \in DOMAIN loads : loads[i].h = h

\* why a lookup is wrong, narrowly (the class is what a known-finding signature keys on)
LookupClass(db, h, got, want) ==
  IF got.err # "none" THEN "lookup_failed:" \o got.err
  ELSE IF Powers(got.set.vals) # Powers(want.vals) \/ [i \in DOMAIN got.set.vals |-> got.set.vals[i].a] # [i \in DOMAIN want.vals |-> want.vals[i].a]
       THEN "wrong_members_or_powers"
  ELSE IF h \in DOMAIN db /\ db[h].set = NoSet
          /\ LET ls == LastStoredHeightFor(h, db[h].lhc) IN
             ls \in DOMAIN db /\ db[ls].set # NoSet /\ h - ls > 1 /\ Sane(db[ls].set.vals) /\ Len(db[ls].set.vals) > 0
             /\ got.set = SetView(IncrementProposerPriority(AsSet(db[ls].set), h - ls))
       THEN (IF got.set.prop.a # want.prop.a THEN "single_call_rotation:proposer" ELSE "single_call_rotation:priorities")
  ELSE IF got.set.prop.a # want.prop.a THEN "wrong_proposer"
  ELSE "wrong_priorities"

LookupViol(db, loads, tr, b) ==
  UNION {IF ~HasLoad(loads, h) THEN {V("LookupExact", "not_queried")}
         ELSE LET got == LoadOf(loads, h) IN
              FailIf(got.err # "none" \/ got.set # tr[h], V("LookupExact", LookupClass(db, h, got, tr[h])))
         : h \in {x \in DOMAIN tr : x >= b}}
  \cup UNION {FailIf(~PruneKeepsAt(db, h), V("PruneKeeps", IF h \in DOMAIN db THEN "target_record_missing" ELSE "record_missing"))
              : h \in {x \in DOMAIN tr : x >= b}}

\* level 1 for the lookups: the spec's LoadValidators on the OBSERVED records
LoadDrift(db, loads) ==
  FailIf(\E i \in DOMAIN loads :
            LET r == LoadValidators(db, loads[i].h) IN
            (r.err = "none") # (loads[i].err = "none") \/ (r.err = "none" /\ r.set # loads[i].set),
         D("LoadValidators differs from spec", "load"))

StepGenesisOK(e) ==
  LET ok  == e.err = "none"
      g   == GenesisState(e.genesis, e.ih)
      db2 == DbOf(e.db)
      tr  == (e.ih :> e.vals) @@ (e.ih + 1 :> e.nvals)
  IN /\ ost' = [h |-> 0, ih |-> e.ih, vals |-> AsSet(e.vals), nvals |-> AsSet(e.nvals), lhc |-> e.lhc]
     /\ odb' = db2 /\ truth' = tr /\ base' = e.base
     /\ drift' = drift
          \cup FailIf(~ok \/ SetView(g.vals) # e.vals \/ SetView(g.nvals) # e.nvals \/ g.lhc # e.lhc, D("MakeGenesisState differs from spec", e.err))
          \cup FailIf(ok /\ SaveState(EmptyDB, [g EXCEPT !.vals = AsSet(e.vals), !.nvals = AsSet(e.nvals), !.lhc = e.lhc]).db # db2,
                      D("Save (genesis) differs from spec", "db"))
          \cup LoadDrift(db2, e.loads)
     /\ viol' = viol
          \cup FailIf(~WellFormed(e.vals.vals) \/ ~WellFormed(e.nvals.vals), V("WellFormed", "genesis"))
          \cup LookupViol(db2, e.loads, tr, e.base)
     /\ UNCHANGED <<cur, fresh>> /\ UnchangedX

\* a history that could not even start: nothing to judge
StepDead(e) ==
  /\ drift' = drift \cup {D("history could not be started", e.err)}
  /\ UNCHANGED <<viol, cur, fresh>> /\ UnchangedStore /\ UnchangedX
StepGenesis(e) == IF "vals" \in DOMAIN e THEN StepGenesisOK(e) ELSE StepDead(e)

StepBootstrap(e) ==
  LET db2 == DbOf(e.db)
      tr  == (e.h :> e.lvals) @@ (e.h + 1 :> e.vals) @@ (e.h + 2 :> e.nvals)
      s   == [h |-> e.h, ih |-> e.ih, vals |-> AsSet(e.vals), nvals |-> AsSet(e.nvals), lhc |-> e.lhc]
  IN /\ ost' = s /\ odb' = db2 /\ truth' = tr /\ base' = e.base
     /\ drift' = drift
          \cup FailIf(e.err # "none" \/ BootstrapState(EmptyDB, s, AsSet(e.lvals)).db # db2, D("Bootstrap differs from spec", e.err))
          \cup LoadDrift(db2, e.loads)
     /\ viol' = viol \cup LookupViol(db2, e.loads, tr, e.base)
     /\ UNCHANGED <<cur, fresh>> /\ UnchangedX

\* One block through the real persistence path.  e.batch: the validator updates the
\* application returned; e.loaded / e.lcpu: what LoadLastABCIResponse gave back right after
\* SaveABCIResponses (the crash-recovery copy); e.crash: the state was rebuilt from that copy
\* (handshake after a crash between Commit and Save) instead of from the responses in memory.
RecoveryClass(e) ==
  (IF e.lerr # "none" THEN "unreadable"
   ELSE IF e.loaded = << >> /\ e.batch # << >> THEN "validator_updates_lost"
   ELSE IF e.loaded # e.batch THEN "validator_updates_differ"
   ELSE "param_updates_differ") \o (IF e.discard THEN ":discard_abci_responses" ELSE ":keep_abci_responses")

StepApply(e) ==
  LET ok   == e.err = "none"
      resp == [vu |-> e.batch, cpu |-> e.cpu]
      copy == LastResponseCopy(resp, e.discard)
      u    == IF e.crash THEN RecoverFromStoredResponses(ost, resp, e.discard) ELSE ApplyBlockUpdates(ost, resp)
      db2  == DbOf(e.db)
      tr   == IF ok THEN (e.height + 2 :> e.nvals) @@ truth ELSE truth
      s2   == [h |-> e.h, ih |-> ost.ih, vals |-> AsSet(e.vals), nvals |-> AsSet(e.nvals), lhc |-> e.lhc]
      \* what the block must produce, by the reference: the batch applied to the previous
      \* NextValidators, then one round - whether or not the node crashed in between
      ref  == RefUpdate(ost.nvals.vals, e.batch)
      exp  == IF ref.ok THEN RefIncrement(ref.vals, 1) ELSE [vals |-> << >>, prop |-> 0]
      tag  == IF e.crash THEN "recovered_state:" ELSE ""
  IN /\ ost' = (IF ok THEN s2 ELSE ost) /\ odb' = db2 /\ truth' = tr /\ base' = e.base
     /\ drift' = drift
          \cup FailIf(e.lerr # "none" \/ copy # [vu |-> e.loaded, cpu |-> e.lcpu], D("LoadLastABCIResponse differs from spec", e.lerr))
          \cup FailIf((u.err = "none") # ok, D("updateState acceptance differs from spec", u.err))
          \cup FailIf(ok /\ u.err = "none" /\ (SetView(u.st.nvals) # e.nvals \/ SetView(u.st.vals) # e.vals \/ u.st.lhc # e.lhc \/ u.st.h # e.h),
                      D("updateState differs from spec", "state"))
          \cup FailIf(ok /\ SaveState(odb, s2).db # db2, D("Save differs from spec", "db"))
          \cup FailIf(~ok /\ db2 # odb, D("store changed by a refused block", "db"))
          \cup LoadDrift(db2, e.loads)
     /\ viol' = viol
          \* (a) what recovery relies on is what was saved
          \cup FailIf(e.err # "panic" /\ (e.lerr # "none" \/ e.loaded # e.batch \/ e.lcpu # e.cpu), V("RecoveryCopyExact", RecoveryClass(e)))
          \* (b) the state (re)built for this block carries the prescribed set
          \cup FailIf(ok # ref.ok, V("ChainExact", tag \o (IF ok THEN "accepted_invalid_batch" ELSE "refused_valid_batch")))
          \cup FailIf(ok /\ ref.ok /\ (e.nvals.vals # exp.vals \/ e.nvals.prop.a # exp.prop), V("ChainExact", tag \o "next_validators"))
          \cup FailIf(ok /\ e.lhc # (IF Len(e.batch) > 0 THEN e.height + 2 ELSE ost.lhc), V("ChainExact", tag \o "last_height_changed"))
          \cup FailIf(ok /\ e.vals # SetView(ost.nvals), V("ChainExact", tag \o "validators_not_previous_next"))
          \cup FailIf(ok /\ ~WellFormed(e.nvals.vals), V("WellFormed", "chain:" \o WellFormedWhy(e.nvals.vals)))
          \cup LookupViol(db2, e.loads, tr, e.base)
     /\ UNCHANGED <<cur, fresh>> /\ UnchangedX

StepPrune(e) ==
  LET ok  == e.err = "none"
      r   == PruneStates(odb, e.from, e.to)
      db2 == DbOf(e.db)
  IN /\ ost' = ost /\ odb' = db2 /\ truth' = truth /\ base' = e.base
     /\ drift' = drift
          \cup FailIf((r.err = "none") # ok \/ r.db # db2, D("PruneStates differs from spec", r.err))
          \cup LoadDrift(db2, e.loads)
     /\ viol' = viol
          \cup FailIf(~ok /\ e.from < e.to /\ e.to \in DOMAIN odb, V("PruneKeeps", "prune_failed"))
          \cup LookupViol(db2, e.loads, truth, e.base)
     /\ UNCHANGED <<cur, fresh>> /\ UnchangedX

\* ------------------------------------------------------------------ pruning through consensus
\* Histories of harness/inpkg/consensus/zz_verif_c08_consprune_test.go: real block store + real
\* state store, pruned by the production caller (*State).pruneBlocks(retainHeight).  The raw
\* records cannot be read from that package: odb is the SPEC's store, evolved by SaveState /
\* ConsPrune from the observed states; level 1 compares its lookups with the observed ones.
CLookupViol(loads, tr, b) ==
  UNION {IF ~HasLoad(loads, h) THEN {V("LookupExact", "not_queried")}
         ELSE LET got == LoadOf(loads, h) IN
              FailIf(got.err # "none" \/ got.set # tr[h],
                     V("LookupExact", IF got.err # "none" THEN (IF h = b THEN "missing_at_base" ELSE "lookup_failed:" \o got.err)
                                      ELSE IF got.set.prop.a # tr[h].prop.a THEN "wrong_proposer" ELSE "wrong_set"))
         : h \in {x \in DOMAIN tr : x >= b}}

StepCGenesis(e) ==
  LET s  == [h |-> 0, ih |-> e.ih, vals |-> AsSet(e.vals), nvals |-> AsSet(e.nvals), lhc |-> e.lhc]
      db2 == SaveState(EmptyDB, s).db
      tr == (e.ih :> e.vals) @@ (e.ih + 1 :> e.nvals)
  IN /\ ost' = s /\ odb' = db2 /\ truth' = tr /\ base' = e.base
     /\ drift' = drift \cup FailIf(e.err # "none", D("Save (genesis) failed", e.err)) \cup LoadDrift(db2, e.loads)
     /\ viol' = viol \cup CLookupViol(e.loads, tr, e.base)
     /\ UNCHANGED <<cur, fresh>> /\ UnchangedX

StepCApply(e) ==
  LET s2  == [h |-> e.h, ih |-> ost.ih, vals |-> AsSet(e.vals), nvals |-> AsSet(e.nvals), lhc |-> e.lhc]
      db2 == SaveState(odb, s2).db
      tr  == (e.height + 2 :> e.nvals) @@ truth
      b   == IF e.base = 0 THEN base ELSE e.base
  IN /\ ost' = s2 /\ odb' = db2 /\ truth' = tr /\ base' = b
     /\ drift' = drift \cup FailIf(e.err # "none", D("Save failed", e.err)) \cup LoadDrift(db2, e.loads)
     /\ viol' = viol \cup CLookupViol(e.loads, tr, b)
     /\ UNCHANGED <<cur, fresh>> /\ UnchangedX

\* (*State).pruneBlocks(e.retain): e.from / e.base = blockStore.Base() before / after
StepCPrune(e) ==
  LET noop == e.retain <= e.from                      \* pruneBlocks returns early
      r    == IF noop THEN [err |-> "none", db |-> odb] ELSE ConsPrune(odb, e.from, e.retain)
      db2  == IF r.err = "none" THEN r.db ELSE odb
  IN /\ ost' = ost /\ odb' = db2 /\ truth' = truth /\ base' = e.base
     /\ drift' = drift
          \cup FailIf((r.err = "none") # (e.err = "none"), D("pruneBlocks outcome differs from spec", r.err))
          \cup LoadDrift(db2, e.loads)
     /\ viol' = viol
          \cup FailIf(e.err # "none" /\ e.retain > e.from /\ e.retain <= e.tip, V("PruneKeeps", "prune_failed"))
          \cup CLookupViol(e.loads, truth, e.base)
     /\ UNCHANGED <<cur, fresh>> /\ UnchangedX

StepReset(e) ==
  /\ cur' = EmptySet /\ fresh' = FALSE /\ ost' = NoState /\ odb' = EmptyDB /\ truth' = NoTruth /\ base' = 0
  /\ xcur' = << >> /\ xk' = NoConst
  /\ drift' = drift \cup FailIf(e.kind \in {"store", "store-random"} /\ e.ckpt # Checkpoint,
                                D("valSetCheckpointInterval is not the Checkpoint of the trace spec", "ckpt"))
  /\ UNCHANGED viol

Step ==
  /\ l <= Len(Trace)
  /\ LET e == Trace[l] IN
       CASE e.ev = "Reset"       -> StepReset(e)
         [] e.ev = "New"         -> StepNew(e)
         [] e.ev = "Update"      -> StepUpdate(e)
         [] e.ev = "Inc"         -> StepInc(e)
         [] e.ev = "Rotate"      -> StepRotate(e)
         [] e.ev = "Copy"        -> StepCopy(e)
         [] e.ev = "IncCopy"     -> StepIncCopy(e)
         [] e.ev = "GetProposer" -> StepGetProposer(e)
         [] e.ev = "Split"       -> StepSplit(e)
         [] e.ev = "RoundSkip"   -> StepRoundSkip(e)
         [] e.ev = "XNew"        -> StepXNew(e)
         [] e.ev = "XUpdate"     -> StepXUpdate(e)
         [] e.ev = "XInc"        -> StepXInc(e)
         [] e.ev = "Genesis"     -> StepGenesis(e)
         [] e.ev = "Bootstrap"   -> StepBootstrap(e)
         [] e.ev = "Apply"       -> StepApply(e)
         [] e.ev = "Prune"       -> StepPrune(e)
         [] e.ev = "CGenesis"    -> StepCGenesis(e)
         [] e.ev = "CApply"      -> StepCApply(e)
         [] e.ev = "CPrune"      -> StepCPrune(e)
  /\ l' = l + 1

Finish ==
  /\ l = Len(Trace) + 1
  /\ WriteVerdict("verdict.json", Len(Trace), viol, drift)
  /\ l' = l + 1
  /\ UNCHANGED <<cur, fresh, ost, odb, truth, base, xcur, xk, viol, drift>>

Next == Step \/ Finish
=============================================================================
