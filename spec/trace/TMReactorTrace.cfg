CONSTANTS
  Weak_BitArrayUnchecked = FALSE
  Weak_ProposalTotalUnbounded = FALSE
INIT Init
NEXT Next
CHECK_DEADLOCK FALSE
