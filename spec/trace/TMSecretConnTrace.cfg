CONSTANTS
  Honest <- HonestDef
  Ranks <- NoRanks
  EphKinds <- NoKinds
  MEphs <- MEphsTrace
  LowPts <- NoKinds
  HsEdits = TRUE
  WSizes <- NoSz
  RSizes <- NoSz
  MaxFrames = 0
  MaxReads = 0
  MaxEdits = 0
  MaxFaults = 0
  EditOps <- NoKinds
  Weak_ChallengeNotBound = FALSE
  Weak_ChallengeDHOnly = FALSE
  Weak_AcceptLowOrder = FALSE
  Weak_NonceNotIncremented = FALSE
  Weak_RecvNonceNotIncremented = FALSE
  Weak_SameKeyBothDirections = FALSE
  Weak_ReadIgnoresAuthError = FALSE
  Weak_VerifyWrongKey = FALSE
  Weak_NonceAfterTransportWrite = FALSE
  Weak_AuthSkipsVerifyForOtherKeyTypes = FALSE
INIT TraceInit
NEXT TraceNext
CHECK_DEADLOCK FALSE
