CONSTANTS
  Weak_NoDialedIDCheck = FALSE
  Weak_NoNodeInfoIDCheck = FALSE
  Weak_NoSelfCheck = FALSE
INIT Init
NEXT Next
CHECK_DEADLOCK FALSE
