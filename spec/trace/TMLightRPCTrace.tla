---------------------------- MODULE TMLightRPCTrace ----------------------------
(* Trace validation for C20: what the REAL light/rpc.Client did with honest and falsified
   answers, judged against TMLightRPC.

   Reset  : a real chain (projection of the real block/state stores) + its description.
            level 1: the chain is coherent under the spec's hash model and equals
            ModelChain(description) (validator priorities and block sizes masked).
   Served : an inclusion proof served by rpc/core Tx / TxSearch       -> ServedProofsVerify
   Search : one TxSearch(prove) over a height range (order, page, per_page), every result
            with its proof                                              -> ServedProofsVerify
   Call   : one call of a verifying-client method.  sent = what `next` (or the light
            client's primary) answered, got = what the caller received, trusted = the light
            client's store afterwards.
            level 1: sent = Falsify(Honest), Relay(sent) = observed outcome, got = Returned
            level 2: RelaySound (relayed => ConsistentStrict with a verified header),
                     RelayComplete (honest answers are relayed), RelayFaithful (the client
                     does not alter what it relays), TrustedOnChain.                       *)
EXTENDS TMLightRPC, TraceKit

Trace == LoadTrace("trace.ndjson")

VARIABLES l, C, D, viol, drift
vars == <<l, C, D, viol, drift>>

Init == l = 1 /\ C = [tip |-> 0] /\ D = [id |-> ""] /\ viol = {} /\ drift = {}

Mask(ch) == [ch EXCEPT !.blocks = Force([h \in 1..ch.tip |->
               [ch.blocks[h] EXCEPT !.size = 0, !.vals = Force([i \in 1..Len(ch.blocks[h].vals) |-> [ch.blocks[h].vals[i] EXCEPT !.prio = 0]])]])]

StepReset(e) ==
  /\ C' = e.chain
  /\ D' = e.desc
  /\ drift' = drift
       \cup FailIf(~ChainCoherent(e.chain), [l |-> l, what |-> "observed chain is not coherent under the spec's hash model"])
       \cup FailIf(Mask(e.chain) # Mask(ModelChain(e.desc)), [l |-> l, what |-> "observed chain differs from ModelChain(description)"])
  /\ UNCHANGED viol

StepServed(e) ==
  LET dh == C.blocks[e.h].header.dh IN
  /\ viol' = viol \cup FailIf(~e.validate_ok \/ ~ServedOK(C, e.h, e.i, e.proof) \/ e.tx # C.blocks[e.h].txs[e.i + 1],
                              [l |-> l, inv |-> "ServedProofsVerify", class |-> e.via, scope |-> "statement"])
  /\ drift' = drift
       \cup FailIf(TxProofValidate(e.proof, dh) # e.validate_ok, [l |-> l, what |-> "TxProof.Validate differs from spec"])
       \cup FailIf(e.proof # HonestTx(C, e.h, e.i).proof, [l |-> l, what |-> "served proof differs from spec"])
  /\ UNCHANGED <<C, D>>

StepServedErr(e) ==
  /\ viol' = viol \cup {[l |-> l, inv |-> "ServedProofsVerify", class |-> e.via \o ":error", scope |-> "statement"]}
  /\ UNCHANGED <<C, D, drift>>

\* a TxSearch(prove) answered by the real rpc/core handler (through the pass-through client)
StepSearch(e) ==
  LET r     == ServeSearch(C, e.a)
      multi == Cardinality({e.txs[k].h : k \in 1..Len(e.txs)}) > 1
      ordn  == IF e.a.ord = "desc" THEN "desc" ELSE "asc"
      bad   == {k \in 1..Len(e.txs) : ~e.txs[k].validate_ok \/ ~SearchItemOK(C, e.txs[k])}
  IN
  /\ drift' = drift
       \cup FailIf(r.ok # e.ok, [l |-> l, what |-> "TxSearch outcome differs from spec"])
       \cup FailIf(IF r.ok /\ e.ok THEN [k \in 1..Len(e.txs) |-> [h |-> e.txs[k].h, i |-> e.txs[k].i, tx |-> e.txs[k].tx,
                                                                hash |-> e.txs[k].hash, proof |-> e.txs[k].proof]] # r.txs
                                     \/ e.total # r.total ELSE FALSE,
                   [l |-> l, what |-> "TxSearch page differs from spec"])
       \cup FailIf(\E k \in 1..Len(e.txs) : e.txs[k].h \in 1..C.tip /\
                      TxProofValidate(e.txs[k].proof, C.blocks[e.txs[k].h].header.dh) # e.txs[k].validate_ok,
                   [l |-> l, what |-> "TxProof.Validate differs from spec"])
  /\ viol' = viol
       \cup FailIf(ValidSearch(C, e.a) /\ ~e.ok,
                   [l |-> l, inv |-> "ServedProofsVerify", scope |-> "statement", class |-> "TxSearch:" \o ordn \o ":error"])
       \cup FailIf(bad # {},
                   [l |-> l, inv |-> "ServedProofsVerify", scope |-> "statement",
                    class |-> "TxSearch:" \o ordn \o (IF multi THEN ":multi_height_page" ELSE ":single_height_page")])
  /\ UNCHANGED <<C, D>>

Star(p) == [i \in 1..Len(p) |-> IF p[i] \in DOMAIN IdxOf THEN "*" ELSE p[i]]
\* e.changed: the answer that reached the client differs from the honest one
LieClass(f) == IF Len(f.edits) = 0 THEN "honest"
               ELSE (IF Len(f.edits) > 1 THEN "multi:" ELSE "") \o Join(Star(f.edits[1].path), ".")

StepCall(e) ==
  LET k     == e.kind
      a     == e.a
      scope == IF k \in StatementKinds THEN "statement" ELSE "extra"
      T     == {e.trusted[i].h : i \in {j \in 1..Len(e.trusted) : e.trusted[j].h <= C.tip /\ e.trusted[j].hash = C.blocks[e.trusted[j].h].bid.hash}}
      offchain == \E i \in 1..Len(e.trusted) : e.trusted[i].h > C.tip \/ e.trusted[i].hash # C.blocks[e.trusted[i].h].bid.hash
      expSent  == EffSent(C, k, a, e.f)
      rl    == Relay(C, k, a, e.sent)
      cons  == Consistent(C, T, k, a, e.got)
      strict == ConsistentStrict(C, T, k, a, e.got)
  IN
  /\ drift' = drift
       \cup FailIf(e.asked /\ e.sent # expSent, [l |-> l, what |-> "sent differs from Falsify(Honest(..))"])
       \cup FailIf(rl.ok # e.relayed, [l |-> l, what |-> "Relay verdict differs from spec"])
       \cup FailIf(~rl.ok /\ ~e.relayed /\ rl.err # e.stage, [l |-> l, what |-> "rejected at another stage than the spec"])
       \cup FailIf(IF rl.ok /\ e.relayed THEN e.got # Returned(C, k, a, e.sent) ELSE FALSE,
                   [l |-> l, what |-> "returned value differs from spec"])
  /\ viol' = viol
       \cup FailIf(IF e.relayed THEN ~strict ELSE FALSE,
                   [l |-> l, inv |-> "RelaySound", scope |-> scope,
                    class |-> IF e.relayed /\ cons THEN (IF k = "Tx" THEN "Tx:result_unproven" ELSE "Validators:address_unbound")
                              ELSE IF k = "Commit" /\ e.relayed /\ Backwards(C, a) /\ ConsCommitHdr(C, T, e.got)
                                   THEN "Commit:backwards_commit_unverified"        \* the defect repaired by 88ebf12
                              ELSE k \o ":" \o (IF e.changed THEN LieClass(e.f) ELSE "honest")])
       \cup FailIf(e.f = NoLie /\ ~e.relayed,
                   [l |-> l, inv |-> "RelayComplete", scope |-> scope,
                    class |-> k \o ":honest_rejected" \o (IF k = "ABCIQuery" /\ e.sent.value = Nil THEN ":absent"
                                                        ELSE IF a.h = 0 /\ k \in ProviderKinds /\ MaxOf(Have(C, a)) = C.tip
                                                        THEN ":latest_up_to_date" ELSE "")])
       \cup FailIf(IF e.relayed /\ k \notin ProviderKinds THEN e.got # e.sent ELSE FALSE,
                   [l |-> l, inv |-> "RelayFaithful", scope |-> scope, class |-> k])
       \cup FailIf(offchain, [l |-> l, inv |-> "TrustedOnChain", scope |-> scope, class |-> k])
  /\ UNCHANGED <<C, D>>

Step ==
  /\ l <= Len(Trace)
  /\ LET e == Trace[l] IN
       CASE e.ev = "Reset"     -> StepReset(e)
         [] e.ev = "Served"    -> StepServed(e)
         [] e.ev = "ServedErr" -> StepServedErr(e)
         [] e.ev = "Call"      -> StepCall(e)
         [] e.ev = "Search"    -> StepSearch(e)
  /\ l' = l + 1

Finish ==
  /\ l = Len(Trace) + 1
  /\ WriteVerdict("verdict.json", Len(Trace), viol, drift)
  /\ l' = l + 1
  /\ UNCHANGED <<C, D, viol, drift>>

Next == Step \/ Finish
=============================================================================
