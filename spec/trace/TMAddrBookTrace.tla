--------------------------- MODULE TMAddrBookTrace ---------------------------
(* Trace validation for the auxiliary check PEX: behaviour of the REAL p2p/pex.addrBook (driven
   through its public API by harness/inpkg/p2p/pex/zz_verif_pex_test.go) against TMAddrBook.

   Every line carries the call, its results, the inputs the code computed itself (calcNewBucket /
   calcOldBucket values, Valid(), Routable()) and the projection `post` of the real object.
     level 1 (drift): the observed (post, results) is not among the outcomes the specification
                      allows for this call in the previous observed state.  Two instances of the
                      specification are consulted: R = as repaired (all Weak_ FALSE) and A = the
                      code as it is in v0.34 (the four as-is switches TRUE); a step explained by
                      either one conforms.
     level 2 (viol) : a PROPERTY of TMAddrBook fails on the observed state / step / result.
                      Reported at the step that breaks it.                                        *)
EXTENDS TraceKit

R == INSTANCE TMAddrBook WITH
       Weak_DemoteKeepsOldType <- FALSE, Weak_ReinstateKeepsOldType <- FALSE, Weak_PickAtLeastOne <- FALSE,
       Weak_BucketFullOffByOne <- FALSE, Weak_NoBanCheck <- FALSE, Weak_NoPrivateCheck <- FALSE,
       Weak_NoSelfCheck <- FALSE, Weak_NoRoutableCheck <- FALSE, Weak_ExpireKeepsCount <- FALSE,
       Weak_NoMaxBucketsPerAddr <- FALSE, Weak_MarkBadKeepsAddress <- FALSE,
       Weak_ReinstateIgnoresBanTime <- FALSE, Weak_LoadSkipsCounts <- FALSE, Weak_OldNotSticky <- FALSE,
       Weak_SelectionIgnoresMax <- FALSE
A == INSTANCE TMAddrBook WITH
       Weak_DemoteKeepsOldType <- TRUE, Weak_ReinstateKeepsOldType <- TRUE, Weak_PickAtLeastOne <- TRUE,
       Weak_BucketFullOffByOne <- TRUE, Weak_NoBanCheck <- FALSE, Weak_NoPrivateCheck <- FALSE,
       Weak_NoSelfCheck <- FALSE, Weak_NoRoutableCheck <- FALSE, Weak_ExpireKeepsCount <- FALSE,
       Weak_NoMaxBucketsPerAddr <- FALSE, Weak_MarkBadKeepsAddress <- FALSE,
       Weak_ReinstateIgnoresBanTime <- FALSE, Weak_LoadSkipsCounts <- FALSE, Weak_OldNotSticky <- FALSE,
       Weak_SelectionIgnoresMax <- FALSE

Trace == LoadTrace("trace.ndjson")

VARIABLES l, b, repok, viol, drift
vars == <<l, b, repok, viol, drift>>

P0 == [nb |-> 1, ob |-> 1, nbs |-> 1, obs |-> 1, maxper |-> 1, minsel |-> 1, maxsel |-> 1, selpct |-> 1, need |-> 1]
Init == l = 1 /\ b = R!EmptyBook(P0, TRUE) /\ repok = TRUE /\ viol = {} /\ drift = {}

\* ------------------------------------------------------------------ JSON -> abstract state
Strip(r) == [i \in DOMAIN r \ {"_"} |-> r[i]]
ConvKA(k) == [addr |-> k.addr, src |-> k.src, bkts |-> ToSet(k.bkts), att |-> k.att, typ |-> k.typ,
              la |-> k.la, ls |-> k.ls, lb |-> k.lb]
ConvMap(r) == [i \in DOMAIN r \ {"_"} |-> ConvKA(r[i])]
BookOf(post, p, strict) ==
  [p |-> p, strict |-> strict, our |-> ToSet(post.our), priv |-> ToSet(post.priv),
   ka |-> ConvMap(post.ka), bad |-> ConvMap(post.bad), nNew |-> post.nNew, nOld |-> post.nOld]

\* the raw bucket maps of the code agree with ka.Buckets / BucketType / addrLookup (no entry in both
\* a new and an old bucket, no stale pointer, no missing entry)
RepAgree(ob, ents) ==
  LET E == ToSet(ents) IN
  /\ \A x \in E : /\ x.same
                  /\ x.id \in DOMAIN ob.ka
                  /\ R!KeyOf(ob.ka[x.id].addr) = x.key
                  /\ ob.ka[x.id].typ = x.t
                  /\ x.b \in ob.ka[x.id].bkts
  /\ \A i \in DOMAIN ob.ka : \A y \in ob.ka[i].bkts :
        \E x \in E : x.id = i /\ x.b = y /\ x.t = ob.ka[i].typ
  /\ Len(ents) = Cardinality(E)
  /\ \A x, y \in E : x.key = y.key => x.t = y.t

MaxOver(ob) ==
  LET news == {Cardinality(R!NewBucket(ob, x)) - ob.p.nbs : x \in 0..(ob.p.nb - 1)}
      olds == {Cardinality(R!OldBucket(ob, x)) - ob.p.obs : x \in 0..(ob.p.ob - 1)}
  IN [n |-> Max(news), o |-> Max(olds)]

\* state properties, reported when they BECOME false
StateViol(pre, ob, e) ==
       FailIf(R!BucketShape(pre) /\ ~R!BucketShape(ob), [l |-> l, inv |-> "BucketShape", class |-> e.ev])
  \cup FailIf(R!CountsExact(pre) /\ ~R!CountsExact(ob), [l |-> l, inv |-> "CountsExact", class |-> e.ev])
  \cup FailIf(R!BucketBound(pre) /\ ~R!BucketBound(ob),
              [l |-> l, inv |-> "BucketBound",
               class |-> LET m == MaxOver(ob) IN
                         IF m.n = 1 /\ m.o <= 0 THEN "new_bucket_holds_size_plus_one"
                         ELSE IF m.o = 1 /\ m.n <= 1 THEN "old_bucket_holds_size_plus_one" ELSE "other:" \o e.ev])
  \cup FailIf(R!BannedNotKnown(pre) /\ ~R!BannedNotKnown(ob), [l |-> l, inv |-> "BannedNotKnown", class |-> e.ev])
  \cup FailIf(R!KeyedById(pre) /\ ~R!KeyedById(ob), [l |-> l, inv |-> "KeyedById", class |-> e.ev])
  \cup FailIf(repok /\ ~RepAgree(ob, e.post.ents), [l |-> l, inv |-> "RepAgree", class |-> e.ev])
  \cup FailIf(e.ev # "Reset" /\ e.panic # "", [l |-> l, inv |-> "NoPanic",
               class |-> IF e.ev = "Queries" /\ e.a.id \notin DOMAIN pre.ka /\ e.pwhere = "IsGood"
                         THEN "IsGood_of_unknown_address_panics" ELSE e.ev])

D(what) == {[l |-> l, what |-> what]}

\* ------------------------------------------------------------------ per call: <<viol, drift>>
Judge(pre, ob, e) ==
  CASE e.ev = "Reset" ->
         <<{}, IF ob = R!EmptyBook(ob.p, ob.strict) THEN {} ELSE D("fresh book is not empty")>>
    [] e.ev = "AddOurAddress" -> <<{}, IF ob = R!AddOurAddress(pre, e.a) THEN {} ELSE D("AddOurAddress")>>
    [] e.ev = "AddPrivateIDs" -> <<{}, IF ob = R!AddPrivateIDs(pre, ToSet(e.ids)) THEN {} ELSE D("AddPrivateIDs")>>
    [] e.ev = "AddAddress" ->
         LET outs == {[b |-> o.b, err |-> o.err] :
                        o \in R!AddAddress(pre, e.a, e.s, e.valid, e.routable, e.nb, e.now)
                              \cup A!AddAddress(pre, e.a, e.s, e.valid, e.routable, e.nb, e.now)}
             must == R!AddVerdict(pre, e.a, e.s, e.valid, e.routable)
         IN << FailIf(~R!AddFilterOK(pre, e.a, e.s, e.valid, e.routable, e.err, ob),
                      [l |-> l, inv |-> "AddFilter", class |-> "must_" \o must \o "_got_" \o e.err])
               \cup FailIf(~R!OldStickyOK(pre, e.a, ob), [l |-> l, inv |-> "OldIsSticky", class |-> "AddAddress"]),
               IF [b |-> ob, err |-> e.err] \in outs THEN {} ELSE D("AddAddress outcome not allowed") >>
    [] e.ev = "RemoveAddress" ->
         << FailIf(e.a.id \in DOMAIN ob.ka, [l |-> l, inv |-> "RemoveRemoves", class |-> "RemoveAddress"]),
            IF ob = R!RemoveAddress(pre, e.a) THEN {} ELSE D("RemoveAddress") >>
    [] e.ev = "MarkGood" ->
         LET nbf == Strip(e.nbf)
             outs == R!MarkGood(pre, e.id, e.ob, nbf, e.now) \cup A!MarkGood(pre, e.id, e.ob, nbf, e.now)
         IN << FailIf(~R!MarkGoodOK(pre, e.id, e.ob, nbf, ob),
                      [l |-> l, inv |-> "MarkGoodKeeps",
                       class |-> IF \E i \in DOMAIN pre.ka : i \notin DOMAIN ob.ka /\ pre.ka[i].typ = "old"
                                 THEN "displaced_old_address_dropped" ELSE "other"]),
               IF ob \in outs THEN {} ELSE D("MarkGood outcome not allowed") >>
    [] e.ev = "MarkAttempt" -> <<{}, IF ob = R!MarkAttempt(pre, e.a, e.now) THEN {} ELSE D("MarkAttempt")>>
    [] e.ev = "MarkBad" ->
         << FailIf(e.a.id \in DOMAIN pre.ka /\ ~(e.a.id \in DOMAIN ob.bad /\ e.a.id \notin DOMAIN ob.ka),
                   [l |-> l, inv |-> "BanTakesEffect", class |-> "MarkBad"]),
            IF ob = R!MarkBad(pre, e.a, e.d, e.now) THEN {} ELSE D("MarkBad") >>
    [] e.ev = "ReinstateBadPeers" ->
         LET nbf == Strip(e.nbf)
             outs == R!ReinstateBadPeers(pre, nbf, e.now) \cup A!ReinstateBadPeers(pre, nbf, e.now)
         IN << FailIf(~R!ReinstateOK(pre, nbf, e.now, ob),
                      [l |-> l, inv |-> "ReinstateKeeps",
                       class |-> IF \E i \in DOMAIN pre.bad : /\ ~R!IsBannedKA(pre.bad[i], e.now) /\ pre.bad[i].typ = "old"
                                                               /\ i \notin DOMAIN ob.ka /\ i \notin DOMAIN ob.bad
                                 THEN "expired_ban_of_old_peer_dropped"
                                 ELSE IF \E i \in DOMAIN pre.bad : R!IsBannedKA(pre.bad[i], e.now) /\ i \notin DOMAIN ob.bad
                                 THEN "ban_lifted_early" ELSE "other"]),
               IF ob \in outs THEN {} ELSE D("ReinstateBadPeers outcome not allowed") >>
    [] e.ev = "PickAddress" ->
         << FailIf(~R!PickOK(pre, e.bias, e.res),
                   [l |-> l, inv |-> "PickSound", class |-> IF e.res = R!NoAddr THEN "nil_from_nonempty_class" ELSE "unknown_address"]),
            (IF e.res \in R!PickAddress(pre, e.bias) THEN {} ELSE D("PickAddress result not allowed"))
            \cup (IF ob = pre THEN {} ELSE D("PickAddress changed the book")) >>
    [] e.ev = "GetSelection" ->
         << FailIf(~R!SelectionOK(pre, e.sel) \/ Len(e.sel) # R!SelCount(pre),
                   [l |-> l, inv |-> "SelectionSound",
                    class |-> IF Len(e.sel) > pre.p.maxsel THEN "more_than_maxGetSelection"
                              ELSE IF ~R!NoDups(e.sel) THEN "duplicates" ELSE "GetSelection"]),
            IF ob = pre THEN {} ELSE D("GetSelection changed the book") >>
    [] e.ev = "GetSelectionWithBias" ->
         LET nn == Cardinality({x \in DOMAIN e.sel : \E i \in R!NewIds(pre) : pre.ka[i].addr = e.sel[x]})
             obs == [nnew |-> nn, nold |-> Len(e.sel) - nn]
         IN << FailIf(~R!SelectionOK(pre, e.sel),
                      [l |-> l, inv |-> "SelectionSound",
                       class |-> IF ~R!NoDups(e.sel) THEN "duplicates"
                                 ELSE IF Len(e.sel) = R!NumSel(pre.p, R!Size(pre)) + 1 /\ R!CountsExact(pre)
                                 THEN "bias_selection_one_more_than_requested" ELSE "GetSelectionWithBias"]),
               (IF obs \in {R!BiasCounts(pre, e.bias), A!BiasCounts(pre, e.bias)} THEN {} ELSE D("GetSelectionWithBias new/old split"))
               \cup (IF ob = pre THEN {} ELSE D("GetSelectionWithBias changed the book")) >>
    [] e.ev = "Queries" ->
         << FailIf(e.panic = "" /\
                   ~(/\ e.has = R!HasAddress(pre, e.a) /\ e.good = R!IsGood(pre, e.a) /\ e.banned = R!IsBanned(pre, e.a)
                     /\ e.ourq = R!OurAddress(pre, e.a) /\ e.size = Cardinality(DOMAIN pre.ka)
                     /\ e.empty = (DOMAIN pre.ka = {}) /\ e.need = (Cardinality(DOMAIN pre.ka) < pre.p.need)),
                   [l |-> l, inv |-> "QueriesAgree", class |-> "Queries"]),
            IF ob = pre THEN {} ELSE D("Queries changed the book") >>
    [] e.ev = "Tick" -> <<{}, IF ob = pre THEN {} ELSE D("Tick")>>
    [] e.ev = "Restart" ->
         << FailIf(~R!SaveLoadOK(pre, ob), [l |-> l, inv |-> "SaveLoadIdentity", class |-> "Restart"]),
            IF ob = R!Load(pre.p, pre.strict, R!Saved(pre)) THEN {} ELSE D("Restart") >>

Step ==
  /\ l <= Len(Trace)
  /\ LET e   == Trace[l]
         pre == IF e.ev = "Reset" THEN R!EmptyBook(e.p, e.strict) ELSE b
         ob  == BookOf(e.post, pre.p, pre.strict)
     IN /\ b' = ob
        /\ LET j == Judge(pre, b', e)
           IN /\ viol' = viol \cup j[1] \cup StateViol(pre, b', e)
              /\ drift' = drift \cup j[2]
        /\ repok' = RepAgree(b', e.post.ents)
  /\ l' = l + 1

Finish ==
  /\ l = Len(Trace) + 1
  /\ WriteVerdict("verdict.json", Len(Trace), viol, drift)
  /\ l' = l + 1
  /\ UNCHANGED <<b, repok, viol, drift>>

Next == Step \/ Finish
=============================================================================
