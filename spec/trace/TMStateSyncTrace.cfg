CONSTANTS
  Fetchers = 0
  MaxPerPeer = 10
  Fix_DropRejectedSenderChunks = TRUE
  Weak_AppHashFromPeer = FALSE
  Weak_SkipVerifyApp = FALSE
  Weak_VerifyHashOnly = FALSE
  Weak_NextUpAnyOrder = FALSE
  Weak_BlacklistForgets = FALSE
  Weak_RefetchIgnored = FALSE
  Weak_RejectSendersIgnored = FALSE
  Weak_DupOverwrites = FALSE
  Weak_RejectNotBlacklisted = FALSE
  Weak_FormatNotBlacklisted = FALSE
  Weak_NoSyncerLevelCheck = FALSE
  Weak_RemovePeerClearsBlacklist = FALSE
INIT Init
NEXT Next
CHECK_DEADLOCK FALSE
