CONSTANTS
  MaxLeaves = 0
  Weak_NoProofIndexBinding = FALSE
  Weak_AuntLenUnchecked = FALSE
  Weak_NoLeafCheck = FALSE
  Weak_TruncatedPosition = FALSE
INIT Init
NEXT Next
CHECK_DEADLOCK FALSE
