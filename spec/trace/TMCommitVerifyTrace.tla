---------------------------- MODULE TMCommitVerifyTrace ----------------------------
(* Trace validation for C07: verdicts of the real types.ValidatorSet.VerifyCommit /
   VerifyCommitLight / VerifyCommitLightTrusting judged against TMCommitVerify.

   One line per (commit, arguments); the line carries one `run` per validator-set power
   vector the commit was verified against (the same abstract powers at several scalings,
   or one random vector).  Voting powers and trust fractions are logged as base-10^4 limb
   arrays (least significant first) of the REAL int64 values the functions were called
   with; the arithmetic interface of TMCommitVerify is bound to TMBigNat, so both the
   transcribed functions (level 1, drift) and the reference predicate Enough (level 2,
   viol) are evaluated exactly at powers up to MaxTotalVotingPower.

   line: [ev |-> "Check", src, frame, kinds, ids, chain, h, bid, c, runs]
     ids      validator ids in the order of ValidatorSet.Validators
     c        the commit handed to the functions (abstract: who signed what, per slot)
     runs     sequence of [scale, pv, full, light, trust]
                pv            powers, aligned with ids
                full, light   observed result [ok, err, idx, got, needed]
                trust         sequence of [num, den, res], one per trust level tried      *)
EXTENDS TMCommitVerify, TMBigNat, TraceKit

Trace == LoadTrace("trace.ndjson")

VARIABLES l, viol, drift
vars == <<l, viol, drift>>

Init == l = 1 /\ viol = {} /\ drift = {}

ValSetOfRun(e, r) == [i \in 1..Len(r.pv) |-> [id |-> e.ids[i], power |-> BNNorm(r.pv[i])]]
ObsRes(r) == [ok |-> r.ok, err |-> r.err, idx |-> r.idx, got |-> BNNorm(r.got), needed |-> BNNorm(r.needed)]
\* a recovered panic does not tell at which slot it happened
SpecRes(r) == IF r.err = "panic_flag" THEN [r EXCEPT !.idx = -1] ELSE r

DriftOf(fn, scale, spec, obs) ==
  FailIf(SpecRes(spec) # obs,
         [l |-> l, what |-> fn \o " differs from spec at scale " \o scale, spec |-> spec.err, obs |-> obs.err])

RunDrift(e, r) ==
  LET vs == ValSetOfRun(e, r) IN
       DriftOf("VerifyCommit", r.scale, VerifyCommit(vs, e.c, e.chain, e.bid, e.h), ObsRes(r.full))
  \cup DriftOf("VerifyCommitLight", r.scale, VerifyCommitLight(vs, e.c, e.chain, e.bid, e.h), ObsRes(r.light))
  \cup UNION {DriftOf("VerifyCommitLightTrusting", r.scale,
                      VerifyCommitLightTrusting(vs, e.c, e.chain, BNNorm(r.trust[i].num), BNNorm(r.trust[i].den)),
                      ObsRes(r.trust[i].res)) : i \in 1..Len(r.trust)}

\* the OBSERVED verdicts against the reference predicate
RunViol(e, r) ==
  LET vs    == ValSetOfRun(e, r)
      in    == [vs |-> vs, c |-> e.c, chain |-> e.chain, bid |-> e.bid, h |-> e.h]
      oF    == ObsRes(r.full)
      oL    == ObsRes(r.light)
      two   == BNOf(2)
      three == BNOf(3)
  IN
       FailIf(~SoundFull(in, oF),
              [l |-> l, inv |-> "SoundFull",
               class |-> "VerifyCommit:" \o WhyNotEnough(vs, e.c, e.chain, e.h, e.bid, two, three)])
  \cup FailIf(~SoundLight(in, oL),
              [l |-> l, inv |-> "SoundLight",
               class |-> "VerifyCommitLight:" \o WhyNotEnough(vs, e.c, e.chain, e.h, e.bid, two, three)])
  \cup UNION {LET num == BNNorm(r.trust[i].num)
                  den == BNNorm(r.trust[i].den) IN
              FailIf(~SoundTrusting(in, num, den, ObsRes(r.trust[i].res)),
                     [l |-> l, inv |-> "SoundTrusting",
                      class |-> "VerifyCommitLightTrusting:" \o
                                WhyNotEnough(vs, e.c, e.chain, e.c.height, e.c.bid, num, den)])
                : i \in 1..Len(r.trust)}
  \cup FailIf(~Agree(in, oF, oL),
              [l |-> l, inv |-> "Agree",
               class |-> IF oF.ok THEN "full_accepts_light_rejects:" \o oL.err
                                  ELSE "light_accepts_full_rejects:" \o oF.err])

StepCheck(e) ==
  /\ drift' = drift \cup UNION {RunDrift(e, e.runs[j]) : j \in 1..Len(e.runs)}
  /\ viol'  = viol  \cup UNION {RunViol(e, e.runs[j]) : j \in 1..Len(e.runs)}

Step ==
  /\ l <= Len(Trace)
  /\ LET e == Trace[l] IN
       CASE e.ev = "Check" -> StepCheck(e)
  /\ l' = l + 1

Finish ==
  /\ l = Len(Trace) + 1
  /\ WriteVerdict("verdict.json", Len(Trace), viol, drift)
  /\ l' = l + 1
  /\ UNCHANGED <<viol, drift>>

Next == Step \/ Finish
=============================================================================
