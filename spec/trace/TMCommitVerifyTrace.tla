---------------------------- MODULE TMCommitVerifyTrace ----------------------------
(* Trace validation for C07: verdicts of the real types.ValidatorSet.VerifyCommit /
   VerifyCommitLight / VerifyCommitLightTrusting judged against TMCommitVerify.

   One line per (commit, arguments); the line carries one `run` per validator-set power
   vector the commit was verified against (the same abstract powers at several scalings,
   or one random vector).  Voting powers and trust fractions are logged as base-10^4 limb
   arrays (least significant first) of the REAL int64 values the functions were called
   with; the arithmetic interface of TMCommitVerify is bound to TMBigNat, so both the
   transcribed functions (level 1, drift) and the reference predicate Enough (level 2,
   viol) are evaluated exactly at powers up to MaxTotalVotingPower.

   line: [ev |-> "Check", src, frame, kinds, wire, ids, chain, h, bid, c, runs]
     wire     [path, total, proposer, prio]: how the ValidatorSet object came into being -- built in memory
              (path "none") or decoded from its proto form after an adversary rewrote the unauthenticated
              fields (total_voting_power, proposer record, priorities); per run: enc_total = the number written
              into total_voting_power, dec = [ok, err] what the decoder returned.  The reference predicate is
              evaluated on the members' REAL powers (pv): a decoded set is the same abstract set
     ids      validator ids in the order of ValidatorSet.Validators
     c        the commit handed to the functions (abstract: who signed what, per slot)
     runs     sequence of [scale, pv, full, light, trust]
                pv            powers, aligned with ids
                full, light   observed result [ok, err, idx, got, needed]
                trust         sequence of [num, den, res], one per trust level tried      *)
EXTENDS TMCommitVerify, TMBigNat, TraceKit

Trace == LoadTrace("trace.ndjson")

VARIABLES l, viol, drift
vars == <<l, viol, drift>>

Init == l = 1 /\ viol = {} /\ drift = {}

ValSetOfRun(e, r) == [i \in 1..Len(r.pv) |-> [id |-> e.ids[i], power |-> BNNorm(r.pv[i])]]
ObsRes(r) == [ok |-> r.ok, err |-> r.err, idx |-> r.idx, got |-> BNNorm(r.got), needed |-> BNNorm(r.needed)]
\* a recovered panic does not tell at which slot it happened
SpecRes(r) == IF r.err = "panic_flag" THEN [r EXCEPT !.idx = -1] ELSE r

DriftOf(fn, scale, spec, obs) ==
  FailIf(SpecRes(spec) # obs,
         [l |-> l, what |-> fn \o " differs from spec at scale " \o scale, spec |-> spec.err, obs |-> obs.err])

\* the ValidatorSet object of a run according to the spec
DecodedOfRun(e, r) ==
  LET vs == ValSetOfRun(e, r) IN
  IF e.wire.path = "none" THEN [ok |-> TRUE, err |-> "none", set |-> InMemory(vs)]
  ELSE DecodeValSet(Encode(vs, IF e.wire.proposer = "nil" THEN "nil" ELSE "present", BNNorm(r.enc_total)))
NoDecode == Reject("nodecode")

RunDrift(e, r) ==
  LET d == DecodedOfRun(e, r) IN
       \* (the validators hash covers none of the rewritten fields: a decoded set hashes like the original)
       FailIf(d.ok # r.dec.ok \/ d.err # r.dec.err \/ (r.dec.ok /\ ~r.dec.hash_same),
              [l |-> l, what |-> "ValidatorSetFromProto differs from spec at scale " \o r.scale, spec |-> d.err, obs |-> r.dec.err])
  \cup DriftOf("VerifyCommit", r.scale,
               IF d.ok THEN VerifyCommitOn(d.set, e.c, e.chain, e.bid, e.h) ELSE NoDecode, ObsRes(r.full))
  \cup DriftOf("VerifyCommitLight", r.scale,
               IF d.ok THEN VerifyCommitLightOn(d.set, e.c, e.chain, e.bid, e.h) ELSE NoDecode, ObsRes(r.light))
  \cup UNION {DriftOf("VerifyCommitLightTrusting", r.scale,
                      IF d.ok THEN VerifyCommitLightTrustingOn(d.set, e.c, e.chain, BNNorm(r.trust[i].num), BNNorm(r.trust[i].den))
                              ELSE NoDecode,
                      ObsRes(r.trust[i].res)) : i \in 1..Len(r.trust)}

\* where the set came from, as a prefix of the violation class
Origin(e) == IF e.wire.path = "none" THEN ""
             ELSE IF e.wire.total # "zero" THEN "decoded-set:forged-total/"
             ELSE "decoded-set/"

\* the OBSERVED verdicts against the reference predicate
RunViol(e, r) ==
  LET vs    == ValSetOfRun(e, r)
      in    == [vs |-> vs, c |-> e.c, chain |-> e.chain, bid |-> e.bid, h |-> e.h]
      oF    == ObsRes(r.full)
      oL    == ObsRes(r.light)
      two   == BNOf(2)
      three == BNOf(3)
  IN
       FailIf(~SoundFull(in, oF),
              [l |-> l, inv |-> "SoundFull",
               class |-> Origin(e) \o "VerifyCommit:" \o WhyNotEnough(vs, e.c, e.chain, e.h, e.bid, two, three)])
  \cup FailIf(~SoundLight(in, oL),
              [l |-> l, inv |-> "SoundLight",
               class |-> Origin(e) \o "VerifyCommitLight:" \o WhyNotEnough(vs, e.c, e.chain, e.h, e.bid, two, three)])
  \cup UNION {LET num == BNNorm(r.trust[i].num)
                  den == BNNorm(r.trust[i].den) IN
              FailIf(~SoundTrusting(in, num, den, ObsRes(r.trust[i].res)),
                     [l |-> l, inv |-> "SoundTrusting",
                      class |-> Origin(e) \o "VerifyCommitLightTrusting:" \o
                                WhyNotEnough(vs, e.c, e.chain, e.c.height, e.c.bid, num, den)])
                : i \in 1..Len(r.trust)}
  \cup FailIf(~Agree(in, oF, oL),
              [l |-> l, inv |-> "Agree",
               class |-> Origin(e) \o (IF oF.ok THEN "full_accepts_light_rejects:" \o oL.err
                                  ELSE "light_accepts_full_rejects:" \o oF.err)])

StepCheck(e) ==
  /\ drift' = drift \cup UNION {RunDrift(e, e.runs[j]) : j \in 1..Len(e.runs)}
  /\ viol'  = viol  \cup UNION {RunViol(e, e.runs[j]) : j \in 1..Len(e.runs)}

Step ==
  /\ l <= Len(Trace)
  /\ LET e == Trace[l] IN
       CASE e.ev = "Check" -> StepCheck(e)
  /\ l' = l + 1

Finish ==
  /\ l = Len(Trace) + 1
  /\ WriteVerdict("verdict.json", Len(Trace), viol, drift)
  /\ l' = l + 1
  /\ UNCHANGED <<viol, drift>>

Next == Step \/ Finish
=============================================================================
