--------------------------- MODULE TMConsensusHeightsTrace ---------------------------
(* Trace validation for runs of ONE real consensus.State over several heights (harness
   zz_verif_heights_test.go) against TMConsensusHeights (+ TMConsensusNode inside a height).

   level 1 (drift): height, round state, outputs, sm.State validator sets, cs.Validators, cs.LastCommit and the
                    block-store decisions observed after every handleMsg / handleTimeout / restart equal what the
                    spec's operators compute from the observed pre-world and the observed input (incl. EndBlock's answer);
   level 2 (viol) : P1..P8 of TMConsensusHeights hold on the OBSERVED world / step / signatures.
   The observed world is installed after every step.                                                              *)
EXTENDS TMConsensusHeights, TraceKit

Trace == LoadTrace("trace.ndjson")

VARIABLES l, w, sgn, viol, drift
vars == <<l, w, sgn, viol, drift>>

G0 == <<[a |-> 1, p |-> 1]>>
TraceU5 == <<"v0", "v1", "v2", "v3", "v4">>

Init ==
  /\ l = 1
  /\ w = InitWorld(G0, FALSE)
  /\ sgn = {}
  /\ viol = {}
  /\ drift = {}

SeqToSet(s) == {s[i] : i \in DOMAIN s}
Rounds == 0..MaxRound

\* ---------------------------------------------------------------- observation -> world
ObsVals(o) == [i \in DOMAIN o.vals |-> [a |-> o.vals[i].a, p |-> o.vals[i].p, pr |-> o.vals[i].pr]] \o << >>
ObsSet(o, spec) ==
  LET vals == ObsVals(o) IN
  [vals |-> vals, prop |-> IF o.prop = 0 \/ ~VS!HasAddress(vals, o.prop) THEN VS!NoVal ELSE VS!GetByAddress(vals, o.prop), alias |-> spec.alias]
SameSet(a, b) == a.vals = b.vals /\ a.prop.a = b.prop.a

ObsVotes(o, V) == [v \in V |-> IF v \in DOMAIN o THEN o[v] ELSE "missing"]
ObsVS(o, V, pm) == [votes |-> ObsVotes(o.votes, V), by |-> {<<x[1], x[2]>> : x \in SeqToSet(o.by)}, pm |-> pm, maj |-> o.maj]

\* node record of the observed height; what the projection cannot see (peers' +2/3 claims, catch-up round counters) from `spec`
ObsNode(p, cx, spec) ==
  LET ok == DOMAIN spec.pv[0].votes = cx.V IN
  [ height |-> p.height, round |-> p.round, step |-> p.step,
    lockedR |-> p.lockedR, lockedV |-> p.lockedV, validR |-> p.validR, validV |-> p.validV,
    prop |-> [r |-> p.prop.r, v |-> p.prop.v, pol |-> p.prop.pol],
    propBlock |-> p.propBlock, partsHdr |-> p.partsHdr, ttp |-> p.ttp, commitR |-> p.commitR,
    pv |-> [r \in Rounds |-> ObsVS(p.pv[r + 1], cx.V, IF ok THEN spec.pv[r].pm ELSE {})],
    pc |-> [r \in Rounds |-> ObsVS(p.pc[r + 1], cx.V, IF ok THEN spec.pc[r].pm ELSE {})],
    tracked |-> SeqToSet(p.tracked) \cap Rounds,
    catchup |-> IF ok THEN spec.catchup ELSE [x \in cx.V \cup {"ext"} |-> 0],
    lastCommit |-> spec.lastCommit,
    decision |-> p.decision, panic |-> p.panic, stuck |-> FALSE, out |-> << >> ]

ObsLC(o, spec) ==
  IF o.nil THEN NoLC
  ELSE LET V  == SeqToSet(o.vals)
           cx == IF ~spec.nil /\ spec.cx.V = V THEN spec.cx ELSE [V |-> V, P |-> [v \in V |-> 0], PS |-> << >>]
       IN [nil |-> FALSE, h |-> o.h, r |-> o.r, vs |-> ObsVS(o.vs, V, IF spec.nil THEN {} ELSE spec.vs.pm), cx |-> cx,
           alien |-> o.vs.alien]

\* the observed world; ghost fields (seen, late, gen, skip, early, app) from the spec's world / the observed inputs
ObsWorld(p, spec, pre, u) ==
  LET cur == ObsSet(p.vs.cur, spec.vs.cur)
      cx  == IF cur.vals = spec.vs.cur.vals THEN spec.cx ELSE Cx(cur)
      lco == ObsLC(p.lc, spec.lc)
      \* the ghosts of the boundary (seen commit, late messages) follow the spec only while spec and code are at the same boundary
      inStep == spec.h = p.h /\ ~lco.nil /\ ~spec.lc.nil /\ DOMAIN spec.seen.votes = lco.cx.V
  IN [ h    |-> p.h,
       s    |-> ObsNode(p.node, cx, IF spec.h = p.h THEN spec.s ELSE NInit(cx)),
       cx   |-> cx,
       vs   |-> [last |-> ObsSet(p.vs.last, spec.vs.last), cur |-> cur, next |-> ObsSet(p.vs.next, spec.vs.next), lhvc |-> p.vs.lhvc],
       rv   |-> ObsSet(p.rv, spec.rv),
       lc   |-> lco,
       seen |-> IF inStep THEN spec.seen ELSE lco.vs, late |-> IF inStep THEN spec.late ELSE << >>,
       dec  |-> [i \in DOMAIN p.dec |-> [v |-> p.dec[i].v, r |-> p.dec[i].r]] \o << >>,
       app  |-> IF p.h = pre.h + 1 THEN Append(pre.app, u) ELSE pre.app,
       gen  |-> pre.gen, skip |-> pre.skip, early |-> spec.early ]

OutSeq(o) == [i \in DOMAIN o |-> [t |-> o[i].t, r |-> o[i].r, v |-> o[i].v, pol |-> o[i].pol]]

\* ---------------------------------------------------------------- steps
GenOf(e) == [i \in DOMAIN e.gen |-> [a |-> e.gen[i].a, p |-> e.gen[i].p]] \o << >>
UOf(e) == [i \in DOMAIN e.u |-> [a |-> e.u[i].a, p |-> e.u[i].p]] \o << >>

WorldDiffs(a, b) ==
     (IF a.h # b.h THEN {"height"} ELSE {})
  \cup (IF a.h = b.h /\ a.s # b.s THEN {"node:" \o f : f \in {g \in DOMAIN a.s : a.s[g] # b.s[g]}} ELSE {})
  \cup (IF ~SameSet(a.vs.cur, b.vs.cur) THEN {"state.Validators"} ELSE {})
  \cup (IF ~SameSet(a.vs.next, b.vs.next) THEN {"state.NextValidators"} ELSE {})
  \cup (IF a.vs.last.vals # b.vs.last.vals THEN {"state.LastValidators"} ELSE {})
  \cup (IF a.vs.lhvc # b.vs.lhvc THEN {"LastHeightValidatorsChanged"} ELSE {})
  \cup (IF a.lc.nil # b.lc.nil \/ (~a.lc.nil /\ (a.lc.h # b.lc.h \/ a.lc.r # b.lc.r \/ a.lc.vs.votes # b.lc.vs.votes \/ a.lc.vs.maj # b.lc.vs.maj
                                                 \/ a.lc.vs.by # b.lc.vs.by))
        THEN {"LastCommit"} ELSE {})
  \cup (IF a.dec # b.dec THEN {"decisions"} ELSE {})

StepReset(e) ==
  LET w0  == InitWorld(GenOf(e), e.skip)
      obs == ObsWorld(e.post, w0, w0, << >>) IN
  /\ w' = obs
  /\ sgn' = {}
  /\ drift' = drift
       \cup FailIf(SeqToSet(e.universe) # Names \/ e.maxround # MaxRound,
                   [l |-> l, what |-> "run configuration differs from the spec constants", fields |-> << >>])
       \cup FailIf(WorldDiffs(obs, w0) # {} \/ ~SameSet(obs.rv, w0.rv),
                   [l |-> l, what |-> "initial world differs from MakeGenesisState / NewState", fields |-> SetToSeq(WorldDiffs(obs, w0))])
  /\ viol' = viol
       \cup FailIf(~P2ValsetSchedule(obs), [l |-> l, inv |-> "ValsetSchedule", class |-> "genesis"])

Released(e) == SelectSeq(e.signs, LAMBDA x : x.ok)

SignViol(pre, obs, x, prior) ==
     FailIf(x.h # x.csh \/ x.storeh # x.h - 1 \/ x.stateh # x.h - 1,
            [l |-> l, inv |-> "SignedInOrder", class |-> x.t \o " signed while block/state of the previous height not stored"])
  \cup FailIf(\E y \in prior : y.h = x.h /\ y.t = x.t /\ y.r = x.r /\ (y.v # x.v \/ y.pol # x.pol),
            [l |-> l, inv |-> "NoEquivocation", class |-> x.t])
  \cup FailIf(x.t = "precommit" /\ x.v # HNil /\ ~RefQuorum(RefAt(IF x.h = obs.h THEN obs ELSE pre, x.h), SeqToSet(x.by) \cap Names),
            [l |-> l, inv |-> "PrecommitJustified", class |-> "no polka under the validator set the state prescribes for the height"])
  \cup FailIf(x.t \in {"prevote", "precommit"} /\ x.bh > 0 /\ x.bh # x.h,
            [l |-> l, inv |-> "VoteForHeldBlock", class |-> x.t \o " for a block of another height"])
  \cup FailIf(x.t \in {"prevote", "precommit"} /\ x.v # HNil /\ ~(x.v \in SeqToSet(x.held)),
            [l |-> l, inv |-> "VoteForHeldBlock", class |-> x.t \o " for a block the node does not hold at this height"])

RECURSIVE SignsViol(_, _, _, _)
SignsViol(pre, obs, new, prior) ==
  IF new = << >> THEN {}
  ELSE SignViol(pre, obs, Head(new), prior) \cup
       SignsViol(pre, obs, Tail(new), prior \cup {[h |-> Head(new).h, t |-> Head(new).t, r |-> Head(new).r, v |-> Head(new).v, pol |-> Head(new).pol]})

OwnBlockViol(obs, ob) ==
  IF ob.h = 1 THEN FailIf(ob.size # 0, [l |-> l, inv |-> "LastCommitValid", class |-> "own block of the initial height carries a last commit"])
  ELSE FailIf(obs.lc.nil \/ obs.h # ob.h \/ Len(obs.dec) < ob.h - 1 \/ ob.lch # ob.h - 1 \/ ~ob.sigok
              \/ (~obs.lc.nil /\ obs.h = ob.h /\ Len(obs.dec) >= ob.h - 1 /\ (ob.lcr # obs.lc.r \/ ob.lcfor # obs.dec[ob.h - 1].v
                                                  \/ \E v \in obs.lc.cx.V : ~(v \in DOMAIN ob.flags) \/ ob.flags[v] # Flag(obs.lc.vs, v))),
              [l |-> l, inv |-> "LastCommitValid", class |-> "LastCommit of the node's own proposal block is not MakeCommit(cs.LastCommit)"])

LateInNewHeight(pre, e) == e.hh = pre.h - 1 /\ e.m.t = "precommit" /\ pre.s.step = HStNewHeight

StepNode(e) ==
  LET pre   == w
      u     == UOf(e)
      spec2 == IF e.ev = "Timeout" THEN HTimeout(pre, e.hh, e.k, e.m.r, u)
               ELSE IF e.ev = "Restart" THEN HRestart(pre)
               ELSE HMsg(pre, e.hh, e.m, e.peer, u)
      spec3 == [spec2 EXCEPT !.s.out = << >>]
      obs   == ObsWorld(e.post, spec3, pre, u)
      rel   == Released(e)
      diffs == WorldDiffs(obs, spec3)
      rvAsIs  == IF obs.h = pre.h /\ obs.s.round > pre.s.round THEN VS!IncrementProposerPriority(VS!CopySet(pre.rv), obs.s.round - pre.s.round) ELSE spec3.rv
      rvFixed == IF obs.h = pre.h /\ obs.s.round > pre.s.round THEN VS!IncrementEach(VS!CopySet(pre.rv), obs.s.round - pre.s.round) ELSE spec3.rv
      skipStep == (e.ev # "Restart") /\ (LateInNewHeight(pre, e) \/ obs.h = pre.h + 1) /\ obs.s.step # HStNewHeight
  IN /\ w' = obs
     /\ sgn' = {x \in sgn : x.h >= obs.h} \cup {[h |-> rel[i].h, t |-> rel[i].t, r |-> rel[i].r, v |-> rel[i].v, pol |-> rel[i].pol] : i \in DOMAIN rel}
     /\ drift' = drift
          \cup FailIf(e.post.node.panic # "none" /\ spec2.s.panic # e.post.node.panic,
                      [l |-> l, what |-> "the code panicked where the spec does not (or for another reason): " \o e.post.node.panic, fields |-> <<"panic">>])
          \cup FailIf(e.post.node.panic = "none" /\ diffs # {},
                      [l |-> l, what |-> "post-world differs from spec (" \o e.ev \o ")", fields |-> SetToSeq(diffs)])
          \cup FailIf(e.post.node.panic = "none" /\ ~SameSet(obs.rv, rvAsIs) /\ ~SameSet(obs.rv, rvFixed),
                      [l |-> l, what |-> "cs.Validators differs from both rotations of the spec (" \o e.ev \o ")", fields |-> <<"rv">>])
          \cup FailIf(e.post.node.panic = "none" /\ e.ev # "Restart" /\ OutSeq(e.out) # spec2.s.out,
                      [l |-> l, what |-> "outputs differ from spec (" \o e.ev \o ")", fields |-> <<"out">>])
     /\ viol' = viol
          \cup FailIf(~P8NoPanic(obs), [l |-> l, inv |-> "NoPanic", class |-> e.post.node.panic])
          \cup (IF e.post.node.panic # "none" THEN {} ELSE
                  FailIf(~P1LastCommitValid(obs), [l |-> l, inv |-> "LastCommitValid", class |-> "cs.LastCommit is not a +2/3 commit of the stored block of the previous height"])
             \cup FailIf(~e.post.lc.nil /\ (e.post.lc.vs.alien \/ e.post.lc.vs.sigbad),
                         [l |-> l, inv |-> "LastCommitValid", class |-> "cs.LastCommit holds a vote of another height/round or an invalid signature"])
             \cup FailIf(obs.h = pre.h /\ e.ev # "Restart" /\ ~pre.lc.nil /\ ~obs.lc.nil /\ obs.lc.cx.V = pre.lc.cx.V
                           /\ \E v \in pre.lc.cx.V : Flag(pre.lc.vs, v) = "commit" /\ Flag(obs.lc.vs, v) # "commit",
                         [l |-> l, inv |-> "LastCommitValid", class |-> "a commit entry of cs.LastCommit disappeared"])
             \cup UNION {OwnBlockViol(obs, e.ownblocks[i]) : i \in DOMAIN e.ownblocks}
             \cup FailIf(~P2ValsetSchedule(obs), [l |-> l, inv |-> "ValsetSchedule", class |-> "validator sets of sm.State are not genesis + EndBlock updates with the two-height delay"])
             \* reported at the step that breaks it; the narrow class (a skip of >= 2 rounds whose result is exactly the single
             \* IncrementProposerPriority(k) call) is the known finding F1, anything else is not
             \cup FailIf(~P3ProposerDeterministic(obs) /\ (obs.h # pre.h \/ P3ProposerDeterministic(pre)),
                         [l |-> l, inv |-> "ProposerDeterministic",
                          class |-> IF obs.h = pre.h /\ obs.s.round >= pre.s.round + 2 /\ SameSet(obs.rv, rvAsIs) /\ ~SameSet(rvAsIs, rvFixed)
                                    THEN "proposer after a round skip differs from round-by-round rotation"
                                    ELSE "proposer of the round is not the one the state prescribes"])
             \cup FailIf(~P3RotationNoUpdates(obs), [l |-> l, inv |-> "ProposerDeterministic", class |-> "rotation across heights"])
             \cup SignsViol(pre, obs, rel, sgn)
             \cup FailIf(e.ev # "Restart" /\ e.hh # pre.h /\ ~LateInNewHeight(pre, e) /\ (obs # pre \/ Len(e.out) # 0),
                         [l |-> l, inv |-> "OtherHeightsIgnored", class |-> e.m.t \o " of another height changed the node"])
             \cup FailIf(skipStep /\ ~(pre.skip /\ (obs.lc.nil \/ NHasAll(obs.lc.cx, obs.lc.vs))),
                         [l |-> l, inv |-> "SkipOnlyWhenAll", class |-> "left step NewHeight without the timeout and without all precommits"])
             \cup FailIf(~e.post.startok, [l |-> l, inv |-> "SkipOnlyWhenAll", class |-> "StartTime is not CommitTime + TimeoutCommit"])
             \cup FailIf(e.ev = "Restart" /\ ~P7RestartPreserves(pre, obs), [l |-> l, inv |-> "RestartPreserves", class |-> "world after restart differs"]))

\* a run whose node has left the modelled rounds / crashed: nothing is compared any more
OutOfRange(e) ==
  \/ Dead(w) \/ w.s.round > MaxRound \/ e.post.node.round > MaxRound
  \/ e.m.r > MaxRound
  \/ \E i \in DOMAIN e.out : e.out[i].r > MaxRound
StepOut(e) ==
  /\ w' = [w EXCEPT !.s.stuck = TRUE]
  /\ viol' = viol \cup FailIf(e.post.node.panic # "none" /\ w.s.panic = "none" /\ ~w.s.stuck, [l |-> l, inv |-> "NoPanic", class |-> e.post.node.panic])
  /\ drift' = drift \cup FailIf(~Dead(w), [l |-> l, what |-> "node left the modelled rounds", fields |-> <<"round">>])
  /\ UNCHANGED sgn

Step ==
  /\ l <= Len(Trace)
  /\ LET e == Trace[l] IN
       IF e.ev = "Reset" THEN StepReset(e)
       ELSE IF OutOfRange(e) THEN StepOut(e) ELSE StepNode(e)
  /\ l' = l + 1

Finish ==
  /\ l = Len(Trace) + 1
  /\ WriteVerdict("verdict.json", Len(Trace), viol, drift)
  /\ l' = l + 1
  /\ UNCHANGED <<w, sgn, viol, drift>>

Next == Step \/ Finish
=============================================================================
