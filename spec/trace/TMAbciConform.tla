---------------------------- MODULE TMAbciConform ----------------------------
(* Level 1 (conformance) for step-controlled runs of the real socketClient against the
   scripted peer: is the sequence of (environment step, observed quiescent projection) lines
   a behaviour of TMAbciSocket?  The internal steps of the client are not logged; TLC
   searches them.  Environment steps are taken at quiescence only (that is how the harness
   runs them).  Per run the high-water mark of matched lines is kept in a TLC register and
   written to conform.json at the end; a run is accepted iff the mark passes its last line.
   A file holds many runs (each starts with a Reset line); every run is an initial state.  *)
EXTENDS TMAbciSocket, TraceKit

Trace == LoadTrace("trace.ndjson")
Starts == {i \in DOMAIN Trace : Trace[i].ev = "Reset"}

VARIABLES l, run
cvars == <<l, run>>

Mark(k) == TLCSet(run, IF TLCGet(run) < k THEN k ELSE TLCGet(run))

CInit == /\ Init
         /\ run \in Starts
         /\ l = run + 1
         /\ TLCSet(run, run + 1)

SeqSet(q) == {q[i] : i \in DOMAIN q}
ProjOK(e) ==
  LET p == Proj IN
  /\ p.busy = SeqSet(e.busy)
  /\ p.qlen = e.qlen /\ p.sent = e.sent /\ p.arrived = e.arrived /\ p.pend = e.pend
  /\ p.running = e.running /\ p.quit = e.quit /\ p.err = e.err /\ p.gate = e.gate
  /\ p.ncbS = e.ncbS /\ p.ncbE = e.ncbE /\ p.got = SeqSet(e.got)
  /\ p.sendAlive = e.sendAlive /\ p.recvAlive = e.recvAlive

MatchEnv(a) ==
  CASE a.name = "StartCall"      -> a.call = ncalls + 1 /\ StartCall(a.t, a.kind, a.gate) /\ UNCHANGED ucGhost
    [] a.name = "SetCallback"    -> (\E r \in DOMAIN reqs : reqs[r].call = a.call /\ reqs[r].typ # "F" /\ SetCallback(a.t, r))
                                    /\ UNCHANGED ucGhost
    [] a.name = "UStop"          -> UStop
    [] a.name = "ReleaseGate"    -> ReleaseGate /\ UNCHANGED ucGhost
    [] a.name = "TimerFire"      -> TimerFire /\ UNCHANGED ucGhost
    [] a.name = "SrvGot"         -> SrvGot /\ UNCHANGED ucGhost
    [] a.name = "SrvReply"       -> SrvReply(a.part) /\ UNCHANGED ucGhost
    [] a.name = "SrvFinishFrame" -> SrvFinishFrame /\ UNCHANGED ucGhost
    [] a.name = "Fault"          -> Fault(a.f, a.ty) /\ UNCHANGED ucGhost
    [] OTHER -> FALSE

CNext ==
  /\ l <= Len(Trace) /\ Trace[l].ev # "Reset" /\ ~panicked
  /\ \/ /\ Internal /\ UNCHANGED cvars
     \/ /\ ~ENABLED Internal
        /\ \/ /\ Trace[l].ev = "Env" /\ MatchEnv(Trace[l].a)
           \/ /\ Trace[l].ev = "Obs" /\ ProjOK(Trace[l]) /\ UNCHANGED vars
        /\ l' = l + 1 /\ run' = run /\ Mark(l + 1)

\* ghost history and act do not influence enabledness
CView == <<reqs, queue, sent, sendpc, wbuf, c2s, pend, sbuf, app, s2c, rbuf, srvClosed, recvpc, mtx, done, resp,
           cbset, cbinv, cbret, err, stopped, stoppc, stopby, quit, connClosed, timerSet, ntimer, nfault,
           ncalls, th, gated, cbq, ustopped, panicked, Len(h.cblog), l, run>>

Post == JsonSerialize("conform.json", [marks |-> SetToSeq({[run |-> r, hw |-> TLCGet(r)] : r \in Starts})])
=============================================================================
