---------------------------- MODULE TMSwitchTrace ----------------------------
(* Trace validation for SWITCH: runs of the REAL p2p.Switch (harness/inpkg/p2p/zz_verif_switch_test.go), one line per
   command of the schedule with the projection of the real objects after the Switch came to rest.
     level 1 (drift): the observed step is not the step of TMSwitch (as configured: as-is or repaired)
     level 2 (viol):  a property of TMSwitch is false on the OBSERVED state (installed from the log); reported at the
                      step at which it becomes false, with a class naming the call site                          *)
EXTENDS TMSwitch, TraceKit

Trace == LoadTrace("trace.ndjson")

VARIABLES l, S, ever, viol, drift      \* ever: instances that have been in the PeerSet (observed)
vars == <<l, S, ever, viol, drift>>

Init == l = 1 /\ S = InitState /\ ever = {} /\ viol = {} /\ drift = {}

ObsSet(e) == {e.post.thr[k] : k \in DOMAIN e.post.thr}
HasObs(e, name) == \E o \in ObsSet(e) : o.name = name
ObsThr(e, name) == CHOOSE o \in ObsSet(e) : o.name = name

RecSlot(S0, id) ==
  IF \E t \in RecTids : S0.thr[t].id = id /\ S0.thr[t].pc # "free"
    THEN CHOOSE t \in RecTids : S0.thr[t].id = id /\ S0.thr[t].pc # "free"
    ELSE IF \E t \in RecTids : S0.thr[t].pc = "free" THEN CHOOSE t \in RecTids : S0.thr[t].pc = "free"
    ELSE CHOOSE t \in RecTids : TRUE
TidOf(S0, o) == IF o.name \in Tids THEN o.name ELSE RecSlot(S0, o.id)

ObsPc(pc) == IF pc \in {"CleanupF", "CleanupL"} THEN "Cleanup" ELSE pc
ModelPc(opc, mpc, k) ==
  IF opc # "Cleanup" THEN opc
  ELSE IF k = "stop" THEN "Cleanup"
  ELSE IF mpc \in {"CleanupF", "CleanupL"} THEN mpc ELSE "CleanupF"
\* the acceptRoutine at transport.Cleanup where the model expected something else: the inbound limit (CleanupL) if
\* nothing had happened to the peer yet and its node is not in the PeerSet (else a failed addPeer, CleanupF)
AccPc(o, m, S1) ==
  IF o.k = "acc" /\ o.pc = "Cleanup" /\ m.pc \notin {"CleanupF", "CleanupL"} /\ o.id \in NodeIDs /\ o.i >= 1 /\ o.i <= Len(S1.inst)
     /\ S1.peers[o.id] = 0 /\ \A r \in Reactors : S1.cb[r][o.i] = << >>
    THEN "CleanupL" ELSE ModelPc(o.pc, m.pc, o.k)

RECURSIVE FoldCb(_, _, _)
FoldCb(cb, s, k) == IF k > Len(s) THEN cb
                    ELSE FoldCb([cb EXCEPT ![s[k].r][s[k].i] = Append(@, s[k].c)], s, k + 1)
ExtendCb(cb, n) == [r \in Reactors |-> cb[r] \o [j \in 1..(n - Len(cb[r])) |-> << >>]]
OnlyLifecycle(s) == SelectSeq(s, LAMBDA x : x.c \in {"I", "A", "R"} /\ x.i >= 1)

ThreadsAgree(S1, e) ==
  /\ \A o \in ObsSet(e) :
        LET t == TidOf(S1, o) m == S1.thr[t] IN
        /\ ObsPc(m.pc) = o.pc /\ m.cur = o.cur
        /\ o.pc # "idle" => (m.k = o.k /\ m.id = o.id /\ m.i = o.i)
        /\ o.pc = "done" => m.out = o.out
  /\ \A t \in Tids : S1.thr[t].pc # "free" => \E o \in ObsSet(e) : TidOf(S1, o) = t

Differences(S1, e, cbo) ==
  (IF [n \in NodeIDs |-> e.post.peers[n]] # S1.peers THEN {"peers"} ELSE {})
  \cup (IF ToSet(e.post.dialing) # S1.dialing THEN {"dialing"} ELSE {})
  \cup (IF ToSet(e.post.reconn) # S1.reconn THEN {"reconnecting"} ELSE {})
  \cup (IF ToSet(e.post.conns) # {c.a : c \in S1.conns} THEN {"conns"} ELSE {})
  \cup (IF e.post.pend # S1.pend THEN {"pending"} ELSE {})
  \cup (IF e.post.inst # S1.inst THEN {"instances"} ELSE {})
  \cup (IF cbo # S1.cb THEN {"callbacks"} ELSE {})
  \cup (IF ~ThreadsAgree(S1, e) THEN {"threads"} ELSE {})

IpFor(e, a) == IF \E k \in DOMAIN e.post.inst : e.post.inst[k].addr = a
                 THEN e.post.inst[CHOOSE k \in DOMAIN e.post.inst : e.post.inst[k].addr = a].ip ELSE "?"

Install(S1, e, cbo) ==
  [S1 EXCEPT
     !.peers = [n \in NodeIDs |-> e.post.peers[n]],
     !.dialing = ToSet(e.post.dialing), !.reconn = ToSet(e.post.reconn),
     !.conns = {[a |-> x, ip |-> IpFor(e, x)] : x \in ToSet(e.post.conns)},
     !.pend = e.post.pend, !.inst = e.post.inst, !.cb = cbo,
     !.thr = [t \in Tids |->
                IF \E o \in ObsSet(e) : TidOf(S1, o) = t
                  THEN LET o == CHOOSE x \in ObsSet(e) : TidOf(S1, x) = t IN
                       IF o.pc = "idle" THEN AccIdle
                       ELSE [S1.thr[t] EXCEPT !.k = o.k, !.pc = AccPc(o, S1.thr[t], S1), !.id = o.id, !.i = o.i,
                                               !.cur = o.cur, !.out = IF o.pc = "done" THEN o.out ELSE @]
                  ELSE IF t = "acc" THEN AccIdle ELSE NoThread]]

Class(S0, c, t, p) ==
  LET th == S0.thr[t]
      kp == IF c.name = "Step" THEN th.k \o ":" \o th.pc ELSE "env:" \o c.name
      other == c.name = "Step" /\ th.i >= 1 /\ th.id \in NodeIDs /\ S0.peers[th.id] \notin {0, th.i}
  IN CASE p = "CallbackOrder" /\ c.name = "Step" /\ th.pc = "Rem" /\ Count(S0.cb[th.cur][th.i], "R") >= 1 -> "RemovePeer_twice_same_instance"
       [] p = "CallbackOrder" /\ c.name = "Step" /\ th.pc = "AddPeer" /\ Has(S0.cb[th.cur][th.i], "R") ->
            \* the as-is race: the peer WAS in the PeerSet when it was removed; a peer whose removal failed must never get here
            IF S0.inst[th.i].remf THEN "AddPeer_after_failed_removal" ELSE "AddPeer_after_RemovePeer"
       [] p = "PeerSetCoversActive" /\ other /\ th.k = "stop" /\ th.pc = "Rem" ->
            IF Has(S0.cb[th.cur][th.i], "A") THEN "stale_stop_evicts_new_instance_from_PeerSet"
            ELSE "removal_of_never_added_instance_evicts_other_instance_from_PeerSet"
       [] p = "PeerSetCoversActive" /\ c.name = "Step" /\ th.pc = "AddPeer" /\ th.i \in ever /\ Running(S0, th.i) /\ S0.peers[th.id] # th.i ->
            "AddPeer_for_running_instance_evicted_from_PeerSet"
       [] p = "MembersHaveConn" /\ c.name = "Step" /\ th.pc \in {"Cleanup", "CleanupF"} /\ th.i >= 1
            /\ (\E j \in Insts(S0) : j # th.i /\ S0.inst[j].addr = S0.inst[th.i].addr /\ Live(S0, j)) -> kp \o ":drops_conn_entry_of_other_instance"
       [] OTHER -> kp

StepCmd(e) ==
  LET c == e.c
      t == IF c.name = "Step" THEN (IF c.t \in Tids THEN c.t ELSE RecSlot(S, c.id))
           ELSE IF c.name \in {"Dial", "Stop"} THEN c.t ELSE "acc"
      robs == IF c.name = "Step" /\ HasObs(e, c.t) THEN ObsThr(e, c.t).cur ELSE "-"
      en == CASE c.name = "Step" -> Steppable(S, t)
              [] c.name = "Dial" -> S.thr[t].pc \in {"free", "done"} /\ c.a \in NodeIDs
              [] c.name = "Stop" -> S.thr[t].pc \in {"free", "done"} /\ c.n \in 1..Len(S.inst)
              [] c.name = "Incoming" -> c.a \in NodeIDs
              [] c.name = "AccTake" -> S.thr["acc"].pc = "idle" /\ S.pend # << >>
              [] OTHER -> FALSE
      S1 == IF ~en THEN S
            ELSE CASE c.name = "Step" -> Step(S, t, robs, c.b)
                   [] c.name = "Dial" -> SpawnDial(S, t, c.a)
                   [] c.name = "Stop" -> SpawnStop(S, t, c.n, c.a)
                   [] c.name = "Incoming" -> Incoming(S, c.a)
                   [] c.name = "AccTake" -> AccTake(S)
      cbo == FoldCb(ExtendCb(S.cb, Len(e.post.inst)), OnlyLifecycle(e.cbs), 1)
      diff == IF en THEN Differences(S1, e, cbo) ELSE {"command not enabled in the model"}
      S2 == Install(S1, e, cbo)
      new == Failing(S2) \ Failing(S)
  IN /\ S' = S2
     /\ ever' = ever \cup ({e.post.peers[n] : n \in NodeIDs} \ {0})
     /\ drift' = drift \cup {[l |-> l, what |-> d, spec |-> c.name] : d \in diff}
     /\ viol' = viol \cup {[l |-> l, inv |-> p, class |-> Class(S, c, t, p)] : p \in new}

StepStress(e) ==
  /\ S' = S /\ drift' = drift /\ ever' = ever
  /\ viol' = viol
       \cup FailIf(e.maxDial > 1, [l |-> l, inv |-> "OneDialPerID", class |-> "concurrent_DialPeerWithAddress_same_id"])
       \cup FailIf(e.maxRec > 1, [l |-> l, inv |-> "OneReconnectLoop", class |-> "concurrent_reconnectToPeer_same_id"])
       \cup FailIf(e.marksLeft # 0, [l |-> l, inv |-> "NoOrphanMarks", class |-> "stress"])

Step1 ==
  /\ l <= Len(Trace)
  /\ LET e == Trace[l] IN
       CASE e.ev = "Reset" -> /\ S' = InitState /\ viol' = viol /\ ever' = {}
                              /\ drift' = drift \cup FailIf(e.allowDupIP # AllowDupIP \/ e.sameIP # SameIP \/ e.maxInbound # MaxInbound,
                                                            [l |-> l, what |-> "run configuration differs from the trace cfg", spec |-> "-"])
         [] e.ev = "Cmd" -> StepCmd(e)
         [] e.ev = "Skip" -> /\ S' = S /\ viol' = viol /\ ever' = ever
                             /\ drift' = drift \cup {[l |-> l, what |-> "schedule not executable on the real code: " \o e.why, spec |-> e.c.name]}
         [] e.ev = "Stress" -> StepStress(e)
         [] OTHER -> UNCHANGED <<S, ever, viol, drift>>
  /\ l' = l + 1

Finish ==
  /\ l = Len(Trace) + 1
  /\ WriteVerdict("verdict.json", Len(Trace), viol, drift)
  /\ l' = l + 1
  /\ UNCHANGED <<S, ever, viol, drift>>

Next == Step1 \/ Finish
=============================================================================
