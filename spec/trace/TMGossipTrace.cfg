CONSTANTS
  Vals = {"v0", "v1", "v2", "v3"}
  PowerOf <- TGPW
  ProposerSeq <- TGPS
  MaxRound = 2
  InvalidValues = {}
  Weak = {}
  ValSeq <- TGValSeq
  NParts = 2
  Weak_NoCatchupCommitParts = FALSE
  Weak_SkipPOLPrevotes = FALSE
  Weak_HasVoteNotRecorded = FALSE
  Weak_Maj23QueryOnlyCurrentRound = FALSE
  Weak_PartsOnlyForCurrentRoundProposal = FALSE
  Weak_SentVoteNotRecorded = FALSE
  Weak_NoLastCommitForLaggingPeer = FALSE
  Weak_VoteSetBitsIgnored = FALSE
  Weak_NewValidBlockIgnored = FALSE
  Weak_InitMarksPartsHad = FALSE
  Weak_ClaimAppliedInReceive = FALSE
  Weak_VoteMarkedBeforeRoundCheck = FALSE
  Code_POLShadowedByCatchupRound = TRUE
  AllowedGaps <- AllGaps
  StrictGaps = {}
  NodeMenu = {}
  PeerMenu = {}
  Modes = {}
  EnvBudget = 0
INIT Init
NEXT Next
CHECK_DEADLOCK FALSE
