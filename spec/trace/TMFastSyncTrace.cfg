CONSTANTS
  T = 0
  Peers = {}
  Honest = {}
  ValsAt <- TraceVals
  NilAt <- TraceNilAt
  LieKinds = {}
  LiarStatus = {}
  MaxLies = 0
  MaxJoins = 0
  MaxReq = 0
  MaxStatus = 0
  MaxRetry = 0
  MaxPending = 600
  PerPeer = 20
  Weak_NoCommitVerify = FALSE
  Weak_SaveBeforeValidate = FALSE
  Weak_NoRedo = FALSE
  Weak_SeenCommitUnchecked = FALSE
  Weak_ResetKeepsOwner = FALSE
  Weak_AcceptsFromPreviousPeer = FALSE
  Weak_RedoAlwaysCountsPending = FALSE
  Weak_NilSlotAddressUnchecked = FALSE
  Weak_StaleMaxPeerHeight = FALSE
  Weak_NoBlockValidation = FALSE
  Weak_PartSetNotCompared = FALSE
INIT Init
NEXT Next
CHECK_DEADLOCK FALSE
