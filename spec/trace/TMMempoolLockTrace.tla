-------------------------- MODULE TMMempoolLockTrace --------------------------
(* Trace validation for C05, last sentence: events stamped with a global sequence number
   while real submitter goroutines called CheckTx on a real mempool and the driver committed
   blocks through the real BlockExecutor.ApplyBlock
   (harness/inpkg/consensus/zz_verif_c05_mempool_test.go).

   Level 2 (viol): the observer of TMMempoolLockObs on the observed events.
   Level 1 (drift): the committer's events follow BlockExecutor.Commit's order
     Lock FlushStart FlushEnd CommitReq CommitStart CommitEnd CommitRes UpdateStart UpdateEnd Unlock
   and, for mempool v0 (the version the design spec's guards describe), no new check is
   issued while the write lock is held and rechecks are issued inside Update only.          *)
EXTENDS TMMempoolLockObs, TraceKit

Trace == LoadTrace("trace.ndjson")

VARIABLES l, o, cpc, viol, drift
vars == <<l, o, cpc, viol, drift>>

Init == l = 1 /\ o = ObsInit /\ cpc = "idle" /\ viol = {} /\ drift = {}

Order == <<"idle", "Lock", "FlushStart", "FlushEnd", "CommitReq", "CommitStart", "CommitEnd", "CommitRes",
           "UpdateStart", "UpdateEnd", "Unlock">>
Pos(x) == CHOOSE k \in DOMAIN Order : Order[k] = x
CommitterEv == {"Lock", "FlushStart", "FlushEnd", "CommitReq", "CommitStart", "CommitEnd", "CommitRes",
                "UpdateStart", "UpdateEnd", "Unlock"}
NextOf(x) == IF x = "Unlock" \/ x = "idle" THEN "Lock" ELSE Order[Pos(x) + 1]
Locked == cpc \in {"Lock", "FlushStart", "FlushEnd", "CommitReq", "CommitStart", "CommitEnd", "CommitRes",
                   "UpdateStart", "UpdateEnd"}

D(what) == [l |-> l, what |-> what, spec |-> cpc]

Step ==
  /\ l <= Len(Trace)
  /\ LET e   == Trace[l]
         ev  == Ev(e.ev, e.kind, e.id, e.n)
         bad == ObsBad(o, ev)
     IN
     IF e.ev = "Reset" THEN
        /\ o' = ObsInit /\ cpc' = "idle" /\ UNCHANGED <<viol, drift>>
     ELSE
        /\ o' = Obs(o, ev)
        /\ cpc' = IF e.ev \in CommitterEv THEN e.ev ELSE cpc
        /\ viol' = viol
             \cup FailIf(bad # "", [l |-> l, inv |-> "NoNewCheckDuringCommit", class |-> bad])
        /\ drift' = drift
             \cup FailIf(e.ev = "Panic", D("a goroutine of the run panicked: " \o e.msg))
             \cup FailIf(e.ev \in CommitterEv /\ e.ev # NextOf(cpc), D("committer event " \o e.ev \o " out of order"))
             \cup FailIf(e.ver = "v0" /\ e.ev = "CheckIssue" /\ e.kind = "new" /\ Locked,
                         D("v0: new check issued while the mempool write lock is held"))
             \cup FailIf(e.ver = "v0" /\ e.ev = "CheckIssue" /\ e.kind = "recheck" /\ cpc # "UpdateStart",
                         D("v0: recheck request issued outside Update"))
  /\ l' = l + 1

Finish ==
  /\ l = Len(Trace) + 1
  /\ WriteVerdict("verdict.json", Len(Trace), viol, drift)
  /\ l' = l + 1
  /\ UNCHANGED <<o, cpc, viol, drift>>

Next == Step \/ Finish
=============================================================================
