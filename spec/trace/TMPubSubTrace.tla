---------------------------- MODULE TMPubSubTrace ----------------------------
(* Trace validation for C19, pub-sub half: observations of a REAL pubsub.Server (real loop
   goroutine, real query.Query objects) against TMPubSub + TMQuery.

   The harness observes the server only when the loop is idle (after every API call it
   waits until every queued command has been processed; unbuffered subscriptions are read
   eagerly), so one trace line = API step ; RunLoop.  Go map iteration order is not
   controlled: the repaired loop's result does not depend on it, the property is judged
   on whatever order the run happened to take.

   level 1 (drift): projection of the predicted state # logged post-state; real parser
                    output # the abstract conditions; real Matches # TMQuery!Matches
   level 2 (viol):  ExactDelivery / Isolation / ExplicitCancel / NeverBlockedOnBuffered
                    evaluated on the OBSERVED subscription objects                       *)
EXTENDS TMPubSub, TMQuery, TraceKit

Trace == LoadTrace("trace.ndjson")

TraceEval(q, e) == IF q \in DOMAIN e THEN e[q] ELSE "FALSE"
TraceClients == {"c1", "c2", "c3", "c4", "c5", "c6", "c7", "c8"}

VARIABLES l, S, queries, viol, drift
vars == <<l, S, queries, viol, drift>>

Init == l = 1 /\ S = InitS /\ queries = << >> /\ viol = {} /\ drift = {}

D(what, spec) == [l |-> l, what |-> what, spec |-> spec]
V(inv, class) == [l |-> l, inv |-> inv, class |-> class]

\* ------------------------------------------------------------ query conformance
SameCond(a, p) ==
  /\ a.key = p.key /\ a.op = p.op /\ a.kind = p.kind
  /\ IF a.kind \in {"int", "float"} THEN ParseNum(a.arg).x = ParseNum(p.arg).x ELSE a.arg = p.arg
SameQuery(q, p) == Len(q) = Len(p) /\ \A i \in 1..Len(q) : SameCond(q[i], p[i])

StepEval(e) ==
  LET spec == Matches(e.q, e.events) IN
  /\ drift' = drift
        \cup FailIf(spec # e.res, D("query.Matches differs from TMQuery!Matches", spec))
        \cup FailIf(~SameQuery(e.q, e.parsed), D("query parser output differs from the abstract conditions", "-"))
  /\ UNCHANGED <<S, queries, viol>>

StepReset(e) ==
  /\ S' = InitS
  /\ queries' = e.queries
  /\ drift' = drift
        \cup FailIf(\E i \in 1..Len(e.queries) : ~SameQuery(e.queries[i], e.parsed[i]),
                    D("query parser output differs from the abstract conditions", "-"))
        \cup FailIf(e.chancap # e.cmdcap, D("BufferCapacity differs", "-"))
  /\ UNCHANGED viol

\* ------------------------------------------------------------ prediction
EvalVec(events) == [q \in 1..Len(queries) |-> Matches(queries[q], events)]

Predict(e) ==
  CASE e.ev = "Subscribe"      -> LET r == ApiSubscribe(S, e.c, e.q, e.cap) IN [S |-> RunLoop(r.S), res |-> r.res]
    [] e.ev = "Unsubscribe"    -> LET r == ApiUnsubscribe(S, e.c, e.q) IN [S |-> RunLoop(r.S), res |-> r.res]
    [] e.ev = "UnsubscribeAll" -> LET r == ApiUnsubscribeAll(S, e.c) IN [S |-> RunLoop(r.S), res |-> r.res]
    [] e.ev = "Publish"        -> LET r == ApiPublish(S, EvalVec(e.events)) IN [S |-> RunLoop(r.S), res |-> r.res]
    [] e.ev = "Stop"           -> LET r == ApiStop(S) IN [S |-> RunLoop(r.S), res |-> r.res]
    [] e.ev = "Consume"        ->
         IF e.sid \in DOMAIN S.subs /\ S.subs[e.sid].cap > 0 /\ S.subs[e.sid].out # << >>
         THEN [S |-> Consume(S, e.sid), res |-> "ok"]
         ELSE [S |-> S, res |-> IF e.sid \in DOMAIN S.subs /\ S.subs[e.sid].cap > 0 THEN "empty" ELSE "skipped"]

\* what the harness can see of a state
ProjSub(s) == [c |-> s.c, q |-> s.q, cap |-> s.cap, nbuf |-> Len(s.out), cancelled |-> s.cancelled,
               err |-> s.err, recv |-> s.recv]
ObsSub(o)  == [c |-> o.c, q |-> o.q, cap |-> o.cap, nbuf |-> o.nbuf, cancelled |-> o.cancelled,
               err |-> o.err, recv |-> o.recv]
SeqSet(s) == {s[i] : i \in 1..Len(s)}

Conforms(P, post) ==
  /\ Len(P.subs) = Len(post.subs)
  /\ \A i \in 1..Len(post.subs) : ProjSub(P.subs[i]) = ObsSub(post.subs[i])
  /\ \A i \in 1..Len(post.reg) : LET r == post.reg[i] IN
        /\ r.c \in Clients
        /\ P.reg[r.c] = SeqSet(r.qs) /\ r.n = Cardinality(P.reg[r.c])
  /\ post.nclients = Cardinality({c \in Clients : P.reg[c] # {}})

\* ------------------------------------------------------------ installing the observation
\* The observed objects replace the predicted ones; the GHOST exp comes from the prediction
\* (it depends only on which subscriptions were registered and on their own queries).  The
\* content of a backlog cannot be seen before it is read: the backlog is taken to be the
\* next expected messages as far as they exist, 0 marks a message nobody was to get.
ExpOf(P, i) == IF i \in DOMAIN P.subs THEN P.subs[i].exp ELSE << >>
Backlog(exp, nrecv, nbuf) == [k \in 1..nbuf |-> IF nrecv + k <= Len(exp) THEN exp[nrecv + k] ELSE 0]

Install(P, post, stopped) ==
  LET subs == [i \in 1..Len(post.subs) |->
                 LET o == post.subs[i] IN
                 [c |-> o.c, q |-> o.q, cap |-> o.cap, out |-> Backlog(ExpOf(P, i), Len(o.recv), o.nbuf),
                  cancelled |-> o.cancelled, err |-> o.err, recv |-> o.recv, exp |-> ExpOf(P, i),
                  st |-> IF o.cancelled THEN "done" ELSE "live"]]
      live(q, c) == {i \in DOMAIN subs : subs[i].q = q /\ subs[i].c = c /\ ~subs[i].cancelled}
  IN [reg   |-> [c \in Clients |-> IF \E i \in 1..Len(post.reg) : post.reg[i].c = c
                                   THEN SeqSet((CHOOSE r \in SeqSet(post.reg) : r.c = c).qs) ELSE {}],
      cmds  |-> << >>,
      srv   |-> [p \in Queries \X Clients |-> IF live(p[1], p[2]) = {} THEN 0
                                              ELSE CHOOSE i \in live(p[1], p[2]) : \A j \in live(p[1], p[2]) : i >= j],
      refc  |-> [q \in Queries |-> Cardinality({c \in Clients : live(q, c) # {}})],
      subs  |-> subs,
      loop  |-> IdleLoop,
      npub  |-> P.npub,
      stopped |-> stopped]

\* ------------------------------------------------------------ level 2
OkBefore(i) == i \notin DOMAIN S.subs \/ ExactDeliveryOf(S, i)

MissClass(T, i, ev) ==
  LET s == T.subs[i]
      d == Delivered(s)
  IN IF IsPrefix(d, s.exp) /\ Len(d) < Len(s.exp)
     THEN IF \E j \in DOMAIN S.subs : j # i /\ ~S.subs[j].cancelled /\ S.subs[j].q # s.q
                                      /\ TraceEval(S.subs[j].q, ev) = "ERR"
          THEN "missed_while_another_query_errors"
          ELSE "missed"
     ELSE "unexpected_or_misordered_delivery"

CancelOk(T, i, e, ev) ==
  LET s == S.subs[i]
      t == T.subs[i]
  IN \/ /\ e.ev = "Unsubscribe" /\ e.res = "ok" /\ e.c = s.c /\ e.q = s.q /\ t.err = "Unsubscribed"
     \/ /\ e.ev = "UnsubscribeAll" /\ e.res = "ok" /\ e.c = s.c /\ t.err = "Unsubscribed"
     \/ /\ e.ev = "Stop" /\ t.err = Nil
     \/ /\ e.ev = "Publish" /\ t.err = "OutOfCapacity"
        /\ s.cap > 0 /\ Len(s.out) = s.cap /\ TraceEval(s.q, ev) = "TRUE"

StepOp(e) ==
  LET pr   == Predict(e)
      T    == Install(pr.S, e.post, e.ev = "Stop" \/ S.stopped)
      ev   == IF e.ev = "Publish" THEN EvalVec(e.events) ELSE << >>
      n    == Len(T.subs)
  IN /\ S' = T
     /\ queries' = queries
     /\ drift' = drift
           \cup FailIf(~e.stuck /\ (~Conforms(pr.S, e.post) \/ pr.res # e.res),
                       D("observed step differs from TMPubSub: " \o e.ev, pr.res))
           \cup FailIf(e.ev = "Publish" /\ e.m # S.npub + 1, D("message numbering", "-"))
           \cup FailIf(e.stuck /\ ~e.insend, D("loop does not take commands and is not in send", "-"))
     /\ viol' = viol
           \cup UNION {FailIf(~e.stuck /\ OkBefore(i) /\ ~ExactDeliveryOf(T, i),
                              V("ExactDelivery", MissClass(T, i, ev))) : i \in 1..n}
           \cup UNION {FailIf(i \in DOMAIN S.subs /\ ~S.subs[i].cancelled /\ T.subs[i].cancelled
                                /\ ~CancelOk(T, i, e, ev),
                              V("Isolation", "cancelled_by_" \o e.ev \o "_err_" \o T.subs[i].err)) : i \in 1..n}
           \cup UNION {FailIf(\/ (T.subs[i].err # Nil /\ ~T.subs[i].cancelled)
                              \/ (T.subs[i].cancelled /\ T.subs[i].err = Nil /\ ~T.stopped)
                              \/ (i \in DOMAIN S.subs /\ S.subs[i].cancelled /\ ~T.subs[i].cancelled)
                              \/ e.post.subs[i].nbuf > T.subs[i].cap
                              \/ e.post.subs[i].chcap # T.subs[i].cap,
                              V("ExplicitCancel", e.ev)) : i \in 1..n}
           \* every unbuffered subscription of the harness has a reader: a loop that sits in
           \* a channel send is waiting for a BUFFERED subscriber
           \cup FailIf(e.stuck /\ e.insend, V("NeverBlockedOnBuffered", e.ev))

Step ==
  /\ l <= Len(Trace)
  /\ LET e == Trace[l] IN
       CASE e.ev = "Eval"  -> StepEval(e)
         [] e.ev = "Reset" -> StepReset(e)
         [] OTHER          -> StepOp(e)
  /\ l' = l + 1

Finish ==
  /\ l = Len(Trace) + 1
  /\ WriteVerdict("verdict.json", Len(Trace), viol, drift)
  /\ l' = l + 1
  /\ UNCHANGED <<S, queries, viol, drift>>

Next == Step \/ Finish
=============================================================================
